(* Soundness of the lexer-automaton validator of Valid/DfaValid.v: an automaton accepted by [lexer_ok] computes,
   with [dfa_match], the longest-match / first-listed-term tokenisation of Spec/Lang.v, and never indexes the
   automaton out of range. Nothing is assumed about how the automaton was built. *)
Require Import Ctpg.Base.Prelude Ctpg.Model.Driver Ctpg.Model.Dfa Ctpg.Spec.Lang Ctpg.Valid.DfaValid
               Ctpg.Proofs.DfaRe.

(* ---------- dfa_match_aux: one-step equation; the verdict ignores verbosity, position and trace ---------- *)
Lemma aux_eq : forall sm vb st p len inp rt ev,
  dfa_match_aux sm vb st p len inp rt ev =
  match nth_error sm st with
  | None => (rev ev, rt, true)
  | Some d =>
      let '(rt1, ev1) :=
        match d_rec d with
        | t :: _ => (Some (t, len), if vb then LxRecognized p t :: ev else ev)
        | [] => (rt, ev)
        end in
      match inp with
      | [] => (rev ev1, rt1, false)
      | c :: rest =>
          match nth c (d_trans d) None with
          | None => (rev ev1, rt1, false)
          | Some nx =>
              let ev2 := if vb then LxNewState p nx :: LxChar p c :: ev1 else ev1 in
              dfa_match_aux sm vb nx (sp_update p [c]) (S len) rest rt1 ev2
          end
      end
  end.
Proof. intros. destruct inp; reflexivity. Qed.

(* the verdict and the out-of-range flag *)
Definition res (x : list lex_event * option (nat * nat) * bool) : option (nat * nat) * bool :=
  (snd (fst x), snd x).

Lemma res_indep : forall inp sm v1 v2 p1 p2 st len rt e1 e2,
  res (dfa_match_aux sm v1 st p1 len inp rt e1) = res (dfa_match_aux sm v2 st p2 len inp rt e2).
Proof.
  induction inp as [|c inp IH]; intros;
    rewrite (aux_eq sm v1), (aux_eq sm v2);
    destruct (nth_error sm st) as [d|]; try reflexivity;
    destruct (d_rec d) as [|t l]; try reflexivity;
    destruct (nth c (d_trans d) None) as [nx|]; try reflexivity; apply IH.
Qed.

Definition run (sm : dfa) (st len : nat) (inp : list nat) (rt : option (nat * nat)) : option (nat * nat) * bool :=
  res (dfa_match_aux sm false st sp0 len inp rt []).

Definition rec_step (d : dstate) (len : nat) (rt : option (nat * nat)) : option (nat * nat) :=
  match d_rec d with t :: _ => Some (t, len) | [] => rt end.

Lemma run_eq : forall sm st len inp rt,
  run sm st len inp rt =
  match nth_error sm st with
  | None => (rt, true)
  | Some d =>
      match inp with
      | [] => (rec_step d len rt, false)
      | c :: rest =>
          match nth c (d_trans d) None with
          | None => (rec_step d len rt, false)
          | Some nx => run sm nx (S len) rest (rec_step d len rt)
          end
      end
  end.
Proof.
  intros. unfold run, rec_step. rewrite aux_eq.
  destruct (nth_error sm st) as [d|]; try reflexivity.
  destruct (d_rec d) as [|t l]; destruct inp as [|c rest]; try reflexivity;
    destruct (nth c (d_trans d) None) as [nx|]; try reflexivity; apply res_indep.
Qed.

Lemma dfa_match_run : forall sm vb p s, snd (dfa_match sm vb p s) = fst (run sm 0 0 s None).
Proof.
  intros. unfold run. rewrite (res_indep s sm false vb sp0 p 0 0 None [] []).
  unfold dfa_match, res. destruct (dfa_match_aux sm vb 0 p 0 s None []) as [[ev rt] oob]. reflexivity.
Qed.

Lemma dfa_match_oob_run : forall sm s, dfa_match_oob sm s = snd (run sm 0 0 s None).
Proof.
  intros. unfold run, dfa_match_oob, res.
  destruct (dfa_match_aux sm false 0 sp0 0 s None []) as [[ev rt] oob]. reflexivity.
Qed.

Theorem dfa_match_verdict_independent : forall sm v1 v2 p1 p2 s,
  snd (dfa_match sm v1 p1 s) = snd (dfa_match sm v2 p2 s).
Proof. intros. rewrite !dfa_match_run. reflexivity. Qed.

Lemma aux_quiet : forall inp sm st p len rt ev,
  fst (fst (dfa_match_aux sm false st p len inp rt ev)) = rev ev.
Proof.
  induction inp as [|c inp IH]; intros; rewrite aux_eq;
    destruct (nth_error sm st) as [d|]; try reflexivity;
    destruct (d_rec d) as [|t l]; try reflexivity;
    destruct (nth c (d_trans d) None) as [nx|]; try reflexivity; apply IH.
Qed.

Theorem dfa_match_quiet_silent : forall sm p s, fst (dfa_match sm false p s) = [].
Proof.
  intros. pose proof (aux_quiet s sm 0 p 0 None []) as H. unfold dfa_match.
  destruct (dfa_match_aux sm false 0 p 0 s None []) as [[ev rt] oob]. exact H.
Qed.

(* ---------- small facts about the checker's ingredients ---------- *)
Lemma opt_nat_eqb_eq : forall a b, opt_nat_eqb a b = true -> a = b.
Proof.
  intros [x|] [y|]; cbn; intros H; try discriminate; auto.
  apply Nat.eqb_eq in H. subst. reflexivity.
Qed.

Lemma first_nullable_some : forall v k i, first_nullable k v = Some i ->
  k <= i /\ i - k < length v /\ nullable (nth (i - k) v Emp) = true /\
  forall j, j < i - k -> nullable (nth j v Emp) = false.
Proof.
  induction v as [|r v IH]; cbn [first_nullable]; intros k i H; try discriminate.
  destruct (nullable r) eqn:E.
  - inversion H; subst. rewrite Nat.sub_diag. cbn. repeat split; auto; try lia.
  - apply IH in H. destruct H as (H1 & H2 & H3 & H4).
    replace (i - k) with (S (i - S k)) by lia. cbn [nth length]. repeat split; auto; try lia.
    intros j Hj. destruct j; auto. apply H4. lia.
Qed.

Lemma first_nullable_none : forall v k, first_nullable k v = None -> forall j, nullable (nth j v Emp) = false.
Proof.
  induction v as [|r v IH]; cbn [first_nullable]; intros k H j.
  - destruct j; reflexivity.
  - destruct (nullable r) eqn:E; try discriminate. destruct j; cbn [nth]; eauto.
Qed.

Lemma firstn_pre : forall (pre rest : list nat), firstn (length pre) (pre ++ rest) = pre.
Proof.
  intros. rewrite firstn_app, firstn_all, Nat.sub_diag. cbn. apply app_nil_r.
Qed.

Lemma firstn_long : forall (pre rest : list nat) n, length pre <= n ->
  firstn n (pre ++ rest) = pre ++ firstn (n - length pre) rest.
Proof.
  intros. rewrite firstn_app. f_equal. apply firstn_all2. assumption.
Qed.

(* ---------- the invariant of the run ---------- *)
Section Sound.
Variable sm : dfa.
Variable terms : list term_data.
Let D := dict_of terms.
Variable tab : table.
Hypothesis Hclosed : check_closed D sm tab (v0_of D terms) = true.

Lemma dict_incl : forall i t, nth_error terms i = Some t -> incl (charsets_of (regex_of_term t)) D.
Proof.
  intros i t H s Hs. unfold D, dict_of. apply in_flat_map. exists t. split; auto.
  eapply nth_error_In; eauto.
Qed.

(* v is the vector of the residual languages of the terms after the prefix pre *)
Definition vec_ok (pre : list nat) (v : vec) : Prop :=
  length v = length terms /\
  forall i t, nth_error terms i = Some t -> forall u, lang D (nth i v Emp) u <-> term_matches t (pre ++ u).

Lemma v0_ok : vec_ok [] (v0_of D terms).
Proof.
  split.
  - unfold v0_of. apply map_length.
  - intros i t Hi u. unfold v0_of.
    rewrite (nth_error_nth _ _ Emp (map_nth_error (fun t => norm (re_of D (regex_of_term t))) _ _ Hi)).
    cbn [app]. unfold term_matches. symmetry. apply re_of_ok. eapply dict_incl; eauto.
Qed.

Lemma step_ok : forall pre v c, vec_ok pre v -> vec_ok (pre ++ [c]) (map (deriv D c) v).
Proof.
  intros pre v c [Hl Hv]. split.
  - rewrite map_length. assumption.
  - intros i t Hi u.
    pose proof (map_nth (deriv D c) v Emp i) as E. cbn [deriv] in E. rewrite E.
    rewrite deriv_ok, (Hv i t Hi), <- app_assoc. reflexivity.
Qed.

Lemma check_row : forall q v, In v (row tab q) ->
  exists d, nth_error sm q = Some d /\ check_pair D tab d v = true.
Proof.
  intros q v Hin. unfold check_closed in Hclosed.
  apply andb_true_iff in Hclosed. destruct Hclosed as [_ Hall].
  rewrite forallb_forall in Hall.
  assert (Hq : q < length tab).
  { destruct (Nat.lt_ge_cases q (length tab)) as [|Hge]; auto.
    unfold row in Hin. rewrite nth_overflow in Hin by assumption. contradiction. }
  specialize (Hall q). rewrite in_seq in Hall. specialize (Hall (conj (Nat.le_0_l q) Hq)).
  destruct (nth_error sm q) as [d|].
  - exists d. split; auto. apply andb_true_iff in Hall. destruct Hall as [_ Hall].
    rewrite forallb_forall in Hall. auto.
  - destruct (row tab q); [contradiction | discriminate].
Qed.

(* res is the best recognition among the prefixes of s that are shorter than n *)
Definition best (s : list nat) (n : nat) (r : option (nat * nat)) : Prop :=
  match r with
  | Some (i, len) =>
      len < n /\
      (exists t, nth_error terms i = Some t /\ term_matches t (firstn len s)) /\
      (forall j t, j < i -> nth_error terms j = Some t -> ~ term_matches t (firstn len s)) /\
      (forall len' j t, len < len' -> len' < n -> nth_error terms j = Some t -> ~ term_matches t (firstn len' s))
  | None =>
      forall len' j t, len' < n -> nth_error terms j = Some t -> ~ term_matches t (firstn len' s)
  end.

Lemma best_final : forall s r, best s (S (length s)) r -> is_longest_match terms s r.
Proof.
  intros s [[i len]|]; cbn [best is_longest_match].
  - intros (H1 & H2 & H3 & H4). repeat split; auto; try lia.
    intros len' j t Ha Hb. apply H4; lia.
  - intros H len' j t Ha. apply H. lia.
Qed.

Lemma best_extend : forall s n m r, best s n r -> n <= m ->
  (forall len' j t, n <= len' -> len' < m -> nth_error terms j = Some t -> ~ term_matches t (firstn len' s)) ->
  best s m r.
Proof.
  intros s n m [[i len]|]; cbn [best].
  - intros (H1 & H2 & H3 & H4) Hnm Hnew. repeat split; auto; try lia.
    intros len' j t Ha Hb. destruct (Nat.lt_ge_cases len' n); eauto.
  - intros H Hnm Hnew len' j t Ha. destruct (Nat.lt_ge_cases len' n); eauto.
Qed.

(* what the recognition slots of a checked state say about the consumed prefix *)
Lemma rec_step_best : forall pre rest v d rt,
  vec_ok pre v ->
  hd_error (d_rec d) = first_nullable 0 v ->
  best (pre ++ rest) (length pre) rt ->
  best (pre ++ rest) (S (length pre)) (rec_step d (length pre) rt).
Proof.
  intros pre rest v d rt [Hl Hv] Hhd Hb.
  assert (Hnull : forall i t, nth_error terms i = Some t ->
                    (nullable (nth i v Emp) = true <-> term_matches t (firstn (length pre) (pre ++ rest)))).
  { intros i t Hi. rewrite firstn_pre, nullable_ok, (Hv i t Hi), app_nil_r. reflexivity. }
  unfold rec_step. destruct (d_rec d) as [|t0 l]; cbn [hd_error] in Hhd.
  - symmetry in Hhd. pose proof (first_nullable_none _ _ Hhd) as Hnone.
    eapply best_extend; eauto.
    intros len' j t Ha Hb' Hj. assert (len' = length pre) by lia. subst len'.
    intros Hm. apply (Hnull j t Hj) in Hm. rewrite Hnone in Hm. discriminate.
  - symmetry in Hhd. apply first_nullable_some in Hhd. rewrite Nat.sub_0_r in Hhd.
    destruct Hhd as (_ & Hlt & Hn & Hless).
    cbn [best]. split; [lia|]. split; [|split].
    + rewrite Hl in Hlt. apply nth_error_Some in Hlt.
      destruct (nth_error terms t0) as [t|] eqn:Ht; [|congruence].
      exists t. split; auto. apply (Hnull t0 t Ht). assumption.
    + intros j t Hj Ht Hm. apply (Hnull j t Ht) in Hm. rewrite (Hless j Hj) in Hm. discriminate.
    + intros; lia.
Qed.

Lemma run_ok : forall rest pre q v rt len,
  In v (row tab q) -> vec_ok pre v -> bytes_ok rest -> len = length pre ->
  best (pre ++ rest) len rt ->
  is_longest_match terms (pre ++ rest) (fst (run sm q len rest rt)) /\ snd (run sm q len rest rt) = false.
Proof.
  induction rest as [|c rest IH]; intros pre q v rt len Hin Hv Hbytes Hlen Hbest; subst len;
    destruct (check_row q v Hin) as (d & Hd & Hchk);
    unfold check_pair in Hchk; apply andb_true_iff in Hchk; destruct Hchk as [Hrec Htr];
    apply opt_nat_eqb_eq in Hrec;
    pose proof (rec_step_best pre _ v d rt Hv Hrec Hbest) as Hb1;
    rewrite run_eq, Hd.
  - cbn [fst snd]. split; auto. apply best_final. rewrite app_nil_r in *. exact Hb1.
  - inversion Hbytes as [|c' rest' Hc Hrest]; subst.
    rewrite forallb_forall in Htr. specialize (Htr c). rewrite in_seq in Htr.
    specialize (Htr (conj (Nat.le_0_l c) Hc)). cbv zeta in Htr.
    pose proof (step_ok pre v c Hv) as Hv'.
    assert (Es : pre ++ c :: rest = (pre ++ [c]) ++ rest) by (rewrite <- app_assoc; reflexivity).
    assert (El : length (pre ++ [c]) = S (length pre)) by (rewrite app_length; cbn; lia).
    destruct (nth c (d_trans d) None) as [q'|].
    + apply vec_mem_In in Htr. rewrite Es.
      apply (IH (pre ++ [c]) q' (map (deriv D c) v)); auto.
      rewrite <- Es. exact Hb1.
    + cbn [fst snd]. split; auto. apply best_final.
      eapply best_extend; [exact Hb1 | rewrite app_length; cbn; lia |].
      intros len' j t Ha Hb' Hj. rewrite Es, firstn_long by lia.
      destruct Hv' as [Hl' Hv']. intros Hm. apply (Hv' j t Hj) in Hm. revert Hm.
      apply is_empty_ok. rewrite forallb_forall in Htr. apply Htr. apply nth_In.
      rewrite Hl'. apply nth_error_Some. congruence.
Qed.

Lemma run_start : forall s, bytes_ok s ->
  is_longest_match terms s (fst (run sm 0 0 s None)) /\ snd (run sm 0 0 s None) = false.
Proof.
  intros s Hs.
  assert (Hin : In (v0_of D terms) (row tab 0)).
  { unfold check_closed in Hclosed. apply andb_true_iff in Hclosed. destruct Hclosed as [H _].
    apply vec_mem_In. exact H. }
  apply (run_ok s [] 0 (v0_of D terms) None 0 Hin v0_ok Hs eq_refl).
  cbn. intros; lia.
Qed.

End Sound.

(* ---------- the theorems ---------- *)
Lemma lexer_ok_run : forall sm terms s, lexer_ok sm terms = true -> bytes_ok s ->
  is_longest_match terms s (fst (run sm 0 0 s None)) /\ snd (run sm 0 0 s None) = false.
Proof.
  intros sm terms s H Hs. unfold lexer_ok in H. cbv zeta in H.
  destruct (collect (dict_of terms) (collect_fuel sm) sm [(0, v0_of (dict_of terms) terms)]
                    (repeat [] (length sm))) as [tab|]; [|discriminate].
  eapply run_start; eauto.
Qed.

Theorem lexer_ok_sound : forall sm terms s,
  lexer_ok sm terms = true -> bytes_ok s ->
  is_longest_match terms s (snd (dfa_match sm false sp0 s)).
Proof.
  intros sm terms s H Hs. rewrite dfa_match_run. apply (lexer_ok_run sm terms s H Hs).
Qed.

Theorem lexer_ok_no_oob : forall sm terms s,
  lexer_ok sm terms = true -> bytes_ok s -> dfa_match_oob sm s = false.
Proof.
  intros sm terms s H Hs. rewrite dfa_match_oob_run. apply (lexer_ok_run sm terms s H Hs).
Qed.

Theorem expr_ok_sound : forall sm r s,
  lexer_ok sm [TRegex r] = true -> bytes_ok s -> (expr_match sm s = true <-> matches r s).
Proof.
  intros sm r s H Hs. pose proof (lexer_ok_sound sm [TRegex r] s H Hs) as L.
  unfold expr_match. destruct (snd (dfa_match sm false sp0 s)) as [[i len]|]; cbn [is_longest_match] in L.
  - destruct L as (Hle & (t & Ht & Hm) & _ & Hlong).
    assert (i = 0).
    { destruct i; auto. cbn in Ht. destruct i; discriminate. }
    subst i. cbn in Ht. inversion Ht; subst t. unfold term_matches in Hm. cbn [regex_of_term] in Hm.
    split.
    + intros E. apply Nat.eqb_eq in E. subst len. rewrite firstn_all in Hm. exact Hm.
    + intros Hr. apply Nat.eqb_eq. destruct (Nat.eq_dec len (length s)) as [|Hne]; auto.
      exfalso. apply (Hlong (length s) 0 (TRegex r)); try lia; auto.
      rewrite firstn_all. exact Hr.
  - split; [discriminate|]. intros Hr. exfalso.
    apply (L (length s) 0 (TRegex r)); auto. rewrite firstn_all. exact Hr.
Qed.

Theorem expr_ok_sound' : forall sm r s,
  expr_ok sm r = true -> bytes_ok s -> (expr_match sm s = true <-> matches r s).
Proof. exact expr_ok_sound. Qed.

Print Assumptions lexer_ok_sound.
Print Assumptions lexer_ok_no_oob.
Print Assumptions dfa_match_verdict_independent.
Print Assumptions dfa_match_quiet_silent.
Print Assumptions expr_ok_sound.
