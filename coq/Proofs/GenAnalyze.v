(* Every grammar record produced by Grammar.analyze satisfies grammar_wf_extra: max_elems bounds the arities
   and the rule slices lie inside rule_infos. So for grammars coming from the DSL-level description the extra
   hypothesis of gen_validates is discharged once and for all. *)
Require Import Ctpg.Base.Prelude Ctpg.Model.Grammar Ctpg.Model.LRGen Ctpg.Valid.LRValid
               Ctpg.Proofs.LRReflect Ctpg.Proofs.GenLists Ctpg.Proofs.GenWf Ctpg.Proofs.GenCorrect.

Lemma map_opt_length {A B} (f : A -> option B) l : forall ys, map_opt f l = Some ys -> length ys = length l.
Proof.
  induction l as [|x l IH]; intros ys H; cbn in H.
  - inversion H; reflexivity.
  - destruct (f x); [|discriminate]. destruct (map_opt f l); [|discriminate]. inversion H; subst. cbn. f_equal. auto.
Qed.

Lemma map_opt_In {A B} (f : A -> option B) l : forall ys y, map_opt f l = Some ys -> In y ys ->
  exists x, In x l /\ f x = Some y.
Proof.
  induction l as [|x l IH]; intros ys y H Hy; cbn in H.
  - inversion H; subst. destruct Hy.
  - destruct (f x) as [b|] eqn:E; [|discriminate]. destruct (map_opt f l) as [bs|]; [|discriminate].
    inversion H; subst. destruct Hy as [<-|Hy].
    + exists x. cbn; auto.
    + destruct (IH bs y eq_refl Hy) as (x' & Hx' & E'). exists x'. cbn; auto.
Qed.

Lemma insert_ri_In x l y : In y (insert_ri x l) <-> y = x \/ In y l.
Proof.
  induction l as [|z l IH]; cbn [insert_ri In]; [intuition|].
  destruct (Nat.leb (ri_l x) (ri_l z)); cbn [In]; [intuition|]. rewrite IH. intuition.
Qed.

Lemma insert_ri_length x l : length (insert_ri x l) = S (length l).
Proof. induction l as [|z l IH]; cbn [insert_ri length]; [reflexivity|]. destruct (Nat.leb _ _); cbn [length]; auto. Qed.

Lemma sort_ris_In l y : In y (sort_ris l) <-> In y l.
Proof.
  unfold sort_ris. induction l as [|x l IH]; cbn; [tauto|]. rewrite insert_ri_In, IH. intuition.
Qed.

Lemma sort_ris_length l : length (sort_ris l) = length l.
Proof. unfold sort_ris. induction l as [|x l IH]; cbn; [reflexivity|]. rewrite insert_ri_length. auto. Qed.

Lemma max_list_ge l x : In x l -> x <= max_list l.
Proof.
  unfold max_list. induction l as [|y l IH]; cbn; [tauto|]. intros [<-|H]; [lia|]. specialize (IH H). lia.
Qed.

Lemma make_slices_aux_bound ris : forall i nt sl,
  (forall a, fst (nth a sl (0, 0)) + snd (nth a sl (0, 0)) <= i) ->
  forall a, fst (nth a (make_slices_aux ris i nt sl) (0, 0)) + snd (nth a (make_slices_aux ris i nt sl) (0, 0))
            <= i + length ris.
Proof.
  induction ris as [|ri t IH]; intros i nt sl H a; cbn [make_slices_aux length].
  - rewrite Nat.add_0_r. apply H.
  - replace (i + S (length t)) with (S i + length t) by lia.
    destruct (Nat.eqb nt (ri_l ri)); apply IH; intros b.
    + destruct (Nat.eq_dec nt b) as [->|Hne].
      * destruct (Nat.lt_ge_cases b (length sl)) as [Hlt|Hge].
        -- rewrite nth_update_eq by assumption. cbn [fst snd]. specialize (H b). lia.
        -- rewrite update_oob by assumption. specialize (H b). lia.
      * rewrite nth_update_neq by assumption. specialize (H b). lia.
    + destruct (Nat.eq_dec (ri_l ri) b) as [->|Hne].
      * destruct (Nat.lt_ge_cases b (length sl)) as [Hlt|Hge].
        -- rewrite nth_update_eq by assumption. cbn [fst snd]. lia.
        -- rewrite update_oob by assumption. specialize (H b). lia.
      * rewrite nth_update_neq by assumption. specialize (H b). lia.
Qed.

Lemma make_slices_bound n ris a :
  fst (nth a (make_slices n ris) (0, 0)) + snd (nth a (make_slices n ris) (0, 0)) <= length ris.
Proof.
  unfold make_slices. apply (make_slices_aux_bound ris 0 0). intros b.
  destruct (Nat.lt_ge_cases b n) as [Hlt|Hge].
  - rewrite nth_repeat_lt by assumption. cbn. lia.
  - rewrite nth_overflow by (rewrite repeat_length; assumption). cbn. lia.
Qed.

Theorem analyze_wf_extra rg g : analyze rg = Some g -> grammar_wf_extra g = true.
Proof.
  unfold analyze. 
  set (term_ids := map rt_id (rg_terms rg) ++ [id_eof; id_error]).
  set (nterm_names := rg_nterms rg ++ [id_fake_root]).
  set (all_rules := rg_rules rg ++ [mkRR id_fake_root [RNterm (rg_root rg)] None]).
  destruct (map_opt (fun r => find_str nterm_names (rr_l r)) all_rules) as [ls|] eqn:Els; [|discriminate].
  destruct (map_opt (fun r => map_opt (make_symbol term_ids nterm_names) (rr_r r)) all_rules) as [rs|] eqn:Ers;
    [|discriminate].
  set (ris := map (fun p => mkRI (fst (snd p)) (fst p) (length (snd (snd p))))
                  (combine (seq 0 (length all_rules)) (combine ls rs))).
  intros H. inversion H; subst g; clear H.
  unfold grammar_wf_extra. cbn [rule_count max_elems nterm_count slices].
  apply andb_true_iff. split.
  - apply forallb_seq0. intros i Hi. apply Nat.leb_le. unfold get_ri. cbn [rule_infos].
    destruct (Nat.lt_ge_cases i (length (sort_ris ris))) as [Hlt|Hge].
    + set (x := nth i (sort_ris ris) dummy_ri).
      assert (In x ris) as Hin by (apply sort_ris_In; apply nth_In; assumption).
      unfold ris in Hin. apply in_map_iff in Hin. destruct Hin as ([r [l rhs]] & Ex & Hp).
      rewrite <- Ex. cbn [fst snd ri_n].
      apply in_combine_r in Hp. apply in_combine_r in Hp.
      destruct (map_opt_In _ _ _ _ Ers Hp) as (rule & Hrule & Erhs).
      apply map_opt_length in Erhs. rewrite Erhs.
      unfold all_rules in Hrule. apply in_app_iff in Hrule. destruct Hrule as [Hrule|[<-|[]]].
      * assert (length (rr_r rule) <= max_list (map (fun r0 => length (rr_r r0)) (rg_rules rg))).
        { apply max_list_ge. apply in_map_iff. exists rule. auto. }
        destruct (max_list _); lia.
      * cbn [rr_r length]. destruct (max_list _); lia.
    + rewrite nth_overflow by assumption. cbn. lia.
  - apply forallb_seq0. intros a Ha.
    pose proof (make_slices_bound (length nterm_names) (sort_ris ris) a) as Hb.
    destruct (nth a (make_slices (length nterm_names) (sort_ris ris)) (0, 0)) as [st n]. cbn [fst snd] in Hb.
    apply Nat.leb_le. rewrite sort_ris_length in Hb. unfold ris in Hb. rewrite map_length, combine_length, seq_length in Hb.
    lia.
Qed.

(* the final theorem for grammars coming from the DSL-level description *)
Corollary gen_validates_analyze : forall rg g lim sts tbl,
  analyze rg = Some g ->
  grammar_wf g = true ->
  gen_with g lim = inl (sts, tbl) ->
  conflict_free g (length sts) tbl = true ->
  accept_clean g sts = true ->
  validate g (map st_all sts) tbl = true.
Proof.
  intros rg g lim sts tbl Ha Hwf. apply gen_validates; [assumption|]. eapply analyze_wf_extra; eassumption.
Qed.

Print Assumptions gen_validates_analyze.
