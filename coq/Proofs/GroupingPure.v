(* G5: the PURE OPERATOR FAMILY   e -> e t_i e  (i < n, any n)  |  e -> atom   with any precedence / associativity
   declarations, and any table that passes [validate_resolved]:
   - [pure_complete] : every sentence  atom (t atom)*  is accepted: resolving the conflicts never makes the parser
     reject a sentence of the ambiguous grammar;
   - [pure_unique]   : if moreover the operator rules have no explicit precedence, the accepted tree is the ONLY well
     grouped derivation tree of the sentence. *)
Require Import Ctpg.Base.Prelude Ctpg.Model.Grammar Ctpg.Model.LRGen Ctpg.Model.Driver
               Ctpg.Spec.Cfg Ctpg.Spec.LRSpec Ctpg.Spec.Conflict Ctpg.Spec.Grouping
               Ctpg.Valid.LRValid Ctpg.Valid.LRResolved
               Ctpg.Proofs.LRReflect Ctpg.Proofs.LRMachine Ctpg.Proofs.LRValidFacts Ctpg.Proofs.LRSound
               Ctpg.Proofs.GroupingFacts Ctpg.Proofs.GroupingSpec Ctpg.Proofs.Grouping Ctpg.Proofs.GroupingUnique.

(* the grammar is of the family: checked on the grammar record *)
Definition rule_shapeb (g : grammar) (e atom : nat) (i : nat) : bool :=
  Nat.eqb i (root_rule_idx g) ||
  (Nat.eqb (ri_l (get_ri g i)) e &&
   match get_rhs g (ri_r (get_ri g i)) with
   | [T a] => Nat.eqb a atom
   | [NT e1; T t; NT e2] => Nat.eqb e1 e && Nat.eqb e2 e && negb (Nat.eqb t atom)
   | _ => false
   end).

Definition pure_familyb (g : grammar) (e atom : nat) : bool :=
  forallb (rule_shapeb g e atom) (seq 0 (rule_count g)) &&
  match get_rhs g (root_rule_idx g) with [NT e'] => Nat.eqb e' e | _ => false end &&
  existsb (fun i => negb (Nat.eqb i (root_rule_idx g)) &&
                    match get_rhs g (ri_r (get_ri g i)) with [T a] => Nat.eqb a atom | _ => false end)
          (seq 0 (rule_count g)) &&
  (* no rule occurs twice *)
  forallb (fun i => forallb (fun j => Nat.eqb i j ||
                                      negb (list_eqb symbol_eqb (get_rhs g (ri_r (get_ri g i))) (get_rhs g (ri_r (get_ri g j)))))
                            (seq 0 (rule_count g))) (seq 0 (rule_count g)).

Record pure_family (g : grammar) (e atom : nat) : Prop := {
  pf_rules : forall i, i < rule_count g -> i <> root_rule_idx g ->
     ri_l (get_ri g i) = e /\
     (get_rhs g (ri_r (get_ri g i)) = [T atom] \/
      exists t, t <> atom /\ get_rhs g (ri_r (get_ri g i)) = [NT e; T t; NT e]);
  pf_root : get_rhs g (root_rule_idx g) = [NT e];
  pf_atom : exists ia, ia < rule_count g /\ ia <> root_rule_idx g /\ get_rhs g (ri_r (get_ri g ia)) = [T atom];
  pf_once : forall i j, i < rule_count g -> j < rule_count g ->
     get_rhs g (ri_r (get_ri g i)) = get_rhs g (ri_r (get_ri g j)) -> i = j
}.

Lemma list_eqb_symbol a b : a = b -> list_eqb symbol_eqb a b = true.
Proof.
  intros <-. induction a as [|x a IH]; cbn; [reflexivity|]. rewrite symbol_eqb_refl, IH. reflexivity.
Qed.

Lemma pure_familyb_sound g e atom : pure_familyb g e atom = true -> pure_family g e atom.
Proof.
  unfold pure_familyb. intros H. andb_split.
  match goal with H : forallb (rule_shapeb g e atom) _ = true |- _ => rename H into Hsh end.
  match goal with H : existsb _ _ = true |- _ => rename H into Hex end.
  match goal with H : forallb (fun i => forallb _ _) _ = true |- _ => rename H into Hon end.
  match goal with H : match get_rhs g (root_rule_idx g) with _ => _ end = true |- _ => rename H into Hroot end.
  rewrite forallb_seq0 in Hsh, Hon. constructor.
  - intros i Hi Hnr. specialize (Hsh i Hi). unfold rule_shapeb in Hsh. apply orb_true_iff in Hsh.
    destruct Hsh as [Hsh|Hsh]; [apply Nat.eqb_eq in Hsh; contradiction|].
    apply andb_true_iff in Hsh. destruct Hsh as [Hl Hr]. apply Nat.eqb_eq in Hl. split; [assumption|].
    destruct (get_rhs g (ri_r (get_ri g i))) as [|[a|e1] [|[t|?] [|[?|e2] [|? ?]]]]; try discriminate.
    + apply Nat.eqb_eq in Hr. subst. left. reflexivity.
    + andb_split. repeat match goal with H : Nat.eqb _ _ = true |- _ => apply Nat.eqb_eq in H end.
      match goal with H : negb _ = true |- _ => apply negb_true_iff in H; apply Nat.eqb_neq in H end.
      subst. right. exists t. auto.
  - destruct (get_rhs g (root_rule_idx g)) as [|[?|e'] [|? ?]]; try discriminate. apply Nat.eqb_eq in Hroot. subst. reflexivity.
  - apply existsb_exists in Hex. destruct Hex as (i & Hi & Hp). apply in_seq in Hi. apply andb_true_iff in Hp.
    destruct Hp as [Hp1 Hp2]. apply negb_true_iff in Hp1. apply Nat.eqb_neq in Hp1.
    exists i. split; [lia|]. split; [assumption|].
    destruct (get_rhs g (ri_r (get_ri g i))) as [|[a|?] [|? ?]]; try discriminate. apply Nat.eqb_eq in Hp2. subst. reflexivity.
  - intros i j Hi Hj E. specialize (Hon i Hi). rewrite forallb_seq0 in Hon. specialize (Hon j Hj).
    apply orb_true_iff in Hon. destruct Hon as [Hon|Hon]; [apply Nat.eqb_eq; assumption|].
    rewrite (list_eqb_symbol _ _ E) in Hon. discriminate.
Qed.

(* "no explicit precedence on the operator rules", checked on the grammar record *)
Definition assoc_same (a b : assoc) : bool :=
  match a, b with NoAssoc, NoAssoc | Ltor, Ltor | Rtol, Rtol => true | _, _ => false end.

Definition plain_familyb (g : grammar) (e : nat) : bool :=
  forallb (fun i => match binop_op g i (ri_r (get_ri g i)) e with
                    | Some t => Z.eqb (rule_prec_of g i) (term_prec_of g t) &&
                                assoc_same (rule_assoc_of g i) (term_assoc_of g t)
                    | None => true
                    end) (seq 0 (length (rule_infos g))).

Lemma plain_familyb_sound g e : plain_familyb g e = true -> forall i r t, binop_at g i r e t -> plain_rule g i t.
Proof.
  unfold plain_familyb. rewrite forallb_seq0. intros H i r t Hb. specialize (H i (binop_at_lt _ _ _ _ _ Hb)).
  assert (ri_r (get_ri g i) = r) as Er.
  { destruct Hb as (ri & Hi & Hr & _). unfold get_ri. rewrite (nth_error_nth _ _ dummy_ri Hi). assumption. }
  rewrite Er in H. apply binop_op_iff in Hb. rewrite Hb in H. apply andb_true_iff in H. destruct H as [H1 H2].
  apply Z.eqb_eq in H1. split; [assumption|].
  destruct (rule_assoc_of g i), (term_assoc_of g t); try discriminate; reflexivity.
Qed.

Section Pure.
  Variable g : grammar.
  Variable sts : list items.
  Variable tbl : table.
  Variable ne : bset.
  Variable nf : list bset.
  Hypothesis RF : resolved_facts g sts tbl ne nf.
  Variable e atom : nat.
  Hypothesis PF : pure_family g e atom.

  Let SF : sound_facts g sts tbl := rf_sound _ _ _ _ _ RF.
  Notation items_of := (state_items sts).
  Notation tc := (term_count g).
  Notation root := (root_rule_idx g).

  Definition is_op (t : nat) : Prop := exists i r, binop_at g i r e t.
  (* the lookaheads of e: the operators and <eof> *)
  Definition LA (x : nat) : Prop := x = eof_idx g \/ is_op x.
  Definition atom_rule (ia : nat) : Prop :=
    ia < rule_count g /\ ia <> root /\ get_rhs g (ri_r (get_ri g ia)) = [T atom].

  (* ---------- the grammar ---------- *)
  Lemma root_rhs_of d y : rhs_of g (mkItem root d y) = [NT e].
  Proof. unfold rhs_of. cbn [it_r]. rewrite (sf_root_r _ _ _ SF). apply (pf_root _ _ _ PF). Qed.

  Lemma root_n : ri_n (get_ri g root) = 1.
  Proof.
    destruct (sf_ri _ _ _ SF root (root_lt _ _ _ SF)) as (_ & _ & Hn). rewrite Hn, (sf_root_r _ _ _ SF), (pf_root _ _ _ PF).
    reflexivity.
  Qed.

  Lemma atom_rhs_of ia d y : atom_rule ia -> rhs_of g (mkItem ia d y) = [T atom].
  Proof. intros (_ & _ & H). unfold rhs_of. cbn [it_r]. assumption. Qed.

  Lemma atom_n ia : atom_rule ia -> ri_n (get_ri g ia) = 1.
  Proof. intros (Hlt & _ & H). destruct (sf_ri _ _ _ SF ia Hlt) as (_ & _ & Hn). rewrite Hn, H. reflexivity. Qed.

  Lemma atom_l ia : atom_rule ia -> ri_l (get_ri g ia) = e.
  Proof. intros (Hlt & Hnr & _). apply (pf_rules _ _ _ PF ia Hlt Hnr). Qed.

  Lemma atom_lt : atom < tc /\ atom <> eof_idx g.
  Proof.
    destruct (pf_atom _ _ _ PF) as (ia & Hlt & Hnr & Hrhs).
    pose proof (rhs_in_right_sides _ _ _ SF ia Hlt) as Hin. rewrite Hrhs in Hin.
    destruct (sf_sym _ _ _ SF _ (T atom) Hin (or_introl eq_refl)) as (H1 & _ & H3).
    cbn in H1. apply Nat.ltb_lt in H1. split; [assumption|]. intros E. apply H3. congruence.
  Qed.

  Lemma op_facts t : is_op t -> t < tc /\ t <> atom /\ t <> eof_idx g.
  Proof.
    intros (i & r & Hb). destruct (binop_facts _ _ _ _ _ RF _ _ _ _ Hb) as (Hlt & Hr & _ & Hrhs & _ & Ht & _ & Hnr).
    split; [assumption|]. split.
    - destruct (pf_rules _ _ _ PF i Hlt Hnr) as (_ & [H|(t' & Ht' & H)]); rewrite Hr, Hrhs in H; [discriminate|].
      inversion H; subst. assumption.
    - pose proof (rhs_in_right_sides _ _ _ SF i Hlt) as Hin. rewrite Hr, Hrhs in Hin.
      destruct (sf_sym _ _ _ SF _ (T t) Hin (or_intror (or_introl eq_refl))) as (_ & _ & H3). congruence.
  Qed.

  Lemma op_not_atom : is_op atom -> False.
  Proof. intros H. apply (proj1 (proj2 (op_facts _ H))). reflexivity. Qed.

  Lemma LA_lt x : LA x -> x < tc.
  Proof. intros [->|H]; [apply (eof_lt_tc _ _ _ SF)|apply (op_facts _ H)]. Qed.

  (* every rule: its length and what can stand where *)
  Lemma rule_cases i : i < rule_count g ->
    (i = root /\ get_rhs g (ri_r (get_ri g i)) = [NT e] /\ ri_n (get_ri g i) = 1) \/
    (i <> root /\ get_rhs g (ri_r (get_ri g i)) = [T atom] /\ ri_n (get_ri g i) = 1) \/
    (i <> root /\ exists t, t <> atom /\ get_rhs g (ri_r (get_ri g i)) = [NT e; T t; NT e] /\ ri_n (get_ri g i) = 3 /\
                            binop_at g i (ri_r (get_ri g i)) e t).
  Proof.
    intros Hi. destruct (sf_ri _ _ _ SF i Hi) as (Hrr & _ & Hn).
    destruct (Nat.eq_dec i root) as [->|Hnr].
    - left. split; [reflexivity|]. rewrite (sf_root_r _ _ _ SF). split; [apply (pf_root _ _ _ PF)|apply root_n].
    - right. destruct (pf_rules _ _ _ PF i Hi Hnr) as (Hl & [H|(t & Ht & H)]).
      + left. rewrite Hn, H. auto.
      + right. split; [assumption|]. exists t. rewrite Hn, H. repeat split; try assumption.
        exists (get_ri g i). split; [apply (nth_error_get_ri _ _ _ SF); assumption|].
        split; [reflexivity|]. split; [assumption|].
        unfold get_rhs in H. rewrite <- H. apply nth_error_nth'. rewrite (sf_len_rs _ _ _ SF). assumption.
  Qed.

  (* ---------- transitions ---------- *)
  Lemma goto_target_just s X s' :
    s < length sts -> sym_ok g X = true -> goto_target g tbl s X = Some s' ->
    shift_just g sts s (sym_col g X) s'.
  Proof.
    intros Hs HX Hg.
    assert (sym_col g X < symbol_count g) as Hc.
    { unfold symbol_count. destruct X as [t|b]; cbn in HX |- *; apply Nat.ltb_lt in HX; lia. }
    pose proof (sf_cell _ _ _ SF s _ Hs Hc) as Hcj. unfold goto_target in Hg.
    destruct (e_kind (cell_at tbl s (sym_col g X))) eqn:Ek; try discriminate.
    - destruct (cj_shift _ _ _ _ _ Hcj (or_introl Ek)) as (s1 & Ha & Hsj & _).
      destruct X as [t|b]; [destruct (Nat.eqb t (err_idx g)); [discriminate|]|]; congruence.
    - destruct (cj_shift _ _ _ _ _ Hcj (or_intror Ek)) as (s1 & Ha & Hsj & _).
      destruct X as [t|b]; [destruct (Nat.eqb t (err_idx g)); [|discriminate]|discriminate]; congruence.
  Qed.

  Lemma goto_target_lt s X s' :
    s < length sts -> sym_ok g X = true -> goto_target g tbl s X = Some s' -> s' < length sts.
  Proof. intros Hs HX Hg. apply (goto_target_just s X s' Hs HX Hg). Qed.

  Lemma sym_ok_e : sym_ok g (NT e) = true.
  Proof.
    destruct (pf_atom _ _ _ PF) as (ia & Hlt & Hnr & _). destruct (pf_rules _ _ _ PF ia Hlt Hnr) as [Hl _].
    destruct (sf_ri _ _ _ SF ia Hlt) as (_ & H & _). rewrite Hl in H. cbn. apply Nat.ltb_lt. assumption.
  Qed.

  Lemma sym_ok_t t : t < tc -> sym_ok g (T t) = true.
  Proof. intros H. cbn. apply Nat.ltb_lt. assumption. Qed.

  (* an item of the target of a transition on X with the dot advanced has X before the dot *)
  Lemma target_item s X s' j d :
    s < length sts -> sym_ok g X = true -> goto_target g tbl s X = Some s' ->
    In j (items_of s') -> it_d j = S d ->
    In (mkItem (it_r j) d (it_t j)) (items_of s) /\ nth_error (rhs_of g j) d = Some X.
  Proof.
    intros Hs HX Hg Hj Hd. destruct (goto_target_just s X s' Hs HX Hg) as (Hlt & _ & Hb).
    destruct (Hb j d Hj Hd) as (Hin & x & Hx & Hcol). split; [assumption|]. rewrite Hx. f_equal.
    apply (sym_col_inj g); try assumption. eapply item_next_sym_ok; eassumption.
  Qed.

  (* ---------- what the states of the stack contain ---------- *)
  Definition Eexp (q : nat) : Prop :=
    forall i x, i < rule_count g -> i <> root -> LA x -> In (mkItem i 0 x) (items_of q).
  Definition AfterE (s : nat) : Prop :=
    forall i r t x, binop_at g i r e t -> LA x -> In (mkItem i 1 x) (items_of s).
  Definition AfterAtom (s : nat) : Prop :=
    forall ia x, atom_rule ia -> LA x -> In (mkItem ia 1 x) (items_of s).

  Definition expects (syms : list symbol) : Prop :=
    match syms with
    | [] => True
    | T t :: _ => is_op t
    | NT _ :: _ => False
    end.

  Inductive shape : list nat -> list symbol -> Prop :=
  | shape_0 : shape [0] []
  | shape_atom q ss syms s :
      shape (q :: ss) syms -> expects syms -> goto_target g tbl q (T atom) = Some s ->
      shape (s :: q :: ss) (T atom :: syms)
  | shape_e q ss syms s :
      shape (q :: ss) syms -> expects syms -> goto_target g tbl q (NT e) = Some s ->
      shape (s :: q :: ss) (NT e :: syms)
  | shape_op s ss syms t q :
      shape (s :: ss) (NT e :: syms) -> is_op t -> goto_target g tbl s (T t) = Some q ->
      shape (q :: s :: ss) (T t :: NT e :: syms).

  Definition content (top : nat) (syms : list symbol) : Prop :=
    top < length sts /\
    match syms with
    | [] => Eexp top
    | T t :: _ =>
        (t = atom -> AfterAtom top) /\
        (t <> atom -> Eexp top /\ forall i r x, binop_at g i r e t -> LA x -> In (mkItem i 2 x) (items_of top))
    | NT _ :: rest =>
        AfterE top /\
        (rest = [] -> In (mkItem root 1 (eof_idx g)) (items_of top)) /\
        (forall t rest', rest = T t :: rest' -> forall i r x, binop_at g i r e t -> LA x -> In (mkItem i 3 x) (items_of top))
    end.

  Lemma eexp_of_kernel q :
    q < length sts ->
    (forall x, LA x -> exists j, In j (items_of q) /\ next_sym g j = Some (NT e) /\
                                 skipn (S (it_d j)) (rhs_of g j) = [] /\ it_t j = x) ->
    Eexp q.
  Proof.
    intros Hq Hk i x Hi Hnr Hx. destruct (Hk x Hx) as (j & Hj & Hn & Hs & Ht).
    apply (closure_rule _ _ _ _ _ RF q j e); try assumption.
    - apply (pf_rules _ _ _ PF i Hi Hnr).
    - apply LA_lt. assumption.
    - rewrite Hs, Ht. apply first_tail_nil. apply LA_lt. assumption.
  Qed.

  Lemma content_0 : content 0 [].
  Proof.
    split; [apply (sf_dims2 _ _ _ SF)|]. cbn.
    pose proof (sf_dims2 _ _ _ SF) as H0. pose proof (sf_st0_root _ _ _ SF) as Hroot.
    assert (next_sym g (root_item g) = Some (NT e)) as Hnx by (unfold next_sym, root_item; rewrite root_rhs_of; reflexivity).
    (* first with lookahead <eof> *)
    assert (forall i, i < rule_count g -> i <> root -> In (mkItem i 0 (eof_idx g)) (items_of 0)) as Heof.
    { intros i Hi Hnr. apply (closure_rule _ _ _ _ _ RF 0 (root_item g) e); try assumption.
      - apply (pf_rules _ _ _ PF i Hi Hnr).
      - apply (eof_lt_tc _ _ _ SF).
      - unfold root_item at 1 2. rewrite root_rhs_of. cbn [it_d it_t skipn]. apply first_tail_nil. apply (eof_lt_tc _ _ _ SF). }
    intros i x Hi Hnr [->|(ix & rx & Hb)]; [apply Heof; assumption|].
    destruct (binop_facts _ _ _ _ _ RF _ _ _ _ Hb) as (Hlt & _ & _ & _ & _ & Ht & _ & Hnrx).
    apply (closure_rule _ _ _ _ _ RF 0 (mkItem ix 0 (eof_idx g)) e); try assumption.
    - apply Heof; assumption.
    - unfold next_sym. rewrite (binop_rhs_of _ _ _ _ _ RF _ _ _ _ _ _ Hb). reflexivity.
    - apply (pf_rules _ _ _ PF i Hi Hnr).
    - rewrite (binop_rhs_of _ _ _ _ _ RF _ _ _ _ _ _ Hb). cbn [it_d it_t skipn]. apply first_tail_term. assumption.
  Qed.

  Lemma shape_content ss syms : shape ss syms -> content (hd 0 ss) syms.
  Proof.
    induction 1 as [|q ss syms s Hsh IH Hex Hg|q ss syms s Hsh IH Hex Hg|s ss syms t q Hsh IH Hop Hg]; cbn [hd] in *.
    - apply content_0.
    - (* after atom *)
      destruct IH as [Hq IH]. destruct atom_lt as [Hat _].
      split; [apply (goto_target_lt q (T atom) s Hq (sym_ok_t _ Hat) Hg)|]. split.
      + intros _ ia x Hia Hx.
        assert (Eexp q) as HE.
        { destruct syms as [|[t|b] syms']; [exact IH| |destruct Hex].
          destruct IH as [_ IH]. apply IH. apply (op_facts _ Hex). }
        destruct Hia as (Hlt & Hnr & Hrhs).
        apply (shift_adv _ _ _ _ _ RF q atom (mkItem ia 0 x) s); try assumption.
        * apply HE; assumption.
        * unfold next_sym. rewrite atom_rhs_of by (repeat split; assumption). reflexivity.
      + intros N. contradiction N. reflexivity.
    - (* after e *)
      destruct IH as [Hq IH].
      split; [apply (goto_target_lt q (NT e) s Hq sym_ok_e Hg)|].
      assert (Eexp q) as HE.
      { destruct syms as [|[t|b] syms']; [exact IH| |destruct Hex].
        destruct IH as [_ IH]. apply IH. apply (op_facts _ Hex). }
      split; [|split].
      + intros i r t x Hb Hx. destruct (binop_facts _ _ _ _ _ RF _ _ _ _ Hb) as (Hlt & _ & _ & _ & _ & _ & _ & Hnr).
        apply (goto_nt_adv _ _ _ _ _ RF q (mkItem i 0 x) e s); try assumption.
        * apply HE; assumption.
        * unfold next_sym. rewrite (binop_rhs_of _ _ _ _ _ RF _ _ _ _ _ _ Hb). reflexivity.
      + intros ->. inversion Hsh; subst.
        apply (goto_nt_adv _ _ _ _ _ RF 0 (root_item g) e s); try assumption.
        * apply (sf_st0_root _ _ _ SF).
        * unfold next_sym, root_item. rewrite root_rhs_of. reflexivity.
      + intros t rest' -> i r x Hb Hx. destruct IH as [_ IH].
        destruct (IH (proj1 (proj2 (op_facts _ Hex)))) as [_ IH2].
        apply (goto_nt_adv _ _ _ _ _ RF q (mkItem i 2 x) e s); try assumption.
        * eapply IH2; eassumption.
        * unfold next_sym. rewrite (binop_rhs_of _ _ _ _ _ RF _ _ _ _ _ _ Hb). reflexivity.
    - (* after an operator *)
      destruct IH as [Hs (HA & _ & _)]. destruct (op_facts _ Hop) as (Ht & Hta & _).
      assert (q < length sts) as Hq by (apply (goto_target_lt s (T t) q Hs (sym_ok_t _ Ht) Hg)).
      split; [assumption|]. split; [intros E; contradiction|]. intros _.
      assert (forall i r x, binop_at g i r e t -> LA x -> In (mkItem i 2 x) (items_of q)) as H2.
      { intros i r x Hb Hx.
        apply (shift_adv _ _ _ _ _ RF s t (mkItem i 1 x) q); try assumption.
        - eapply HA; eassumption.
        - unfold next_sym. rewrite (binop_rhs_of _ _ _ _ _ RF _ _ _ _ _ _ Hb). reflexivity. }
      split; [|exact H2].
      apply eexp_of_kernel; [assumption|]. intros x Hx. destruct Hop as (i & r & Hb).
      exists (mkItem i 2 x). split; [eapply H2; eassumption|].
      unfold next_sym. rewrite (binop_rhs_of _ _ _ _ _ RF _ _ _ _ _ _ Hb). cbn. auto.
  Qed.

  (* ================================================================== *)
  (* computing machine steps                                             *)
  (* ================================================================== *)

  Lemma look_bounds rest : Forall (fun a => a < eof_idx g) rest -> look g rest < tc /\ look g rest <> err_idx g.
  Proof.
    intros H. pose proof (err_eq _ _ _ SF) as Herr. pose proof (eof_lt_tc _ _ _ SF) as Heof.
    destruct rest as [|a r]; cbn; [lia|]. inversion H; subst. lia.
  Qed.

  Lemma mstep_shift cur ss trs rest nst :
    cur < length sts -> Forall (fun a => a < eof_idx g) rest ->
    goto_target g tbl cur (T (look g rest)) = Some nst ->
    mstep g tbl (cur :: ss, trs, rest) = Next (nst :: cur :: ss, Leaf (look g rest) :: trs, tl rest).
  Proof.
    intros Hc Hr Hg. destruct (look_bounds _ Hr) as [Hla Hne]. unfold mstep.
    rewrite (cell_in_range _ _ _ SF cur _ Hc (col_lt _ _ Hla)).
    unfold goto_target in Hg. cbn [sym_col] in Hg. apply Nat.eqb_neq in Hne.
    destruct (e_kind (cell_at tbl cur (nterm_count g + look g rest))); try discriminate; rewrite Hne in Hg; [|discriminate].
    rewrite Hg. reflexivity.
  Qed.

  Lemma mstep_reduce cur ss trs rest r :
    cur < length sts -> Forall (fun a => a < eof_idx g) rest -> is_reduce g tbl cur (look g rest) r ->
    mstep g tbl (cur :: ss, trs, rest) = mreduce g tbl (cur :: ss) trs rest r.
  Proof.
    intros Hc Hr [Hk Ha]. destruct (look_bounds _ Hr) as [Hla _]. unfold mstep.
    rewrite (cell_in_range _ _ _ SF cur _ Hc (col_lt _ _ Hla)). unfold col_of_term in Hk, Ha. rewrite Hk, Ha. reflexivity.
  Qed.

  Lemma mstep_success cur ss trs rest :
    cur < length sts -> Forall (fun a => a < eof_idx g) rest -> trs <> [] ->
    e_kind (cell_at tbl cur (col_of_term g (look g rest))) = KSuccess ->
    exists v, mstep g tbl (cur :: ss, trs, rest) = Acc v.
  Proof.
    intros Hc Hr Hne Hk. destruct (look_bounds _ Hr) as [Hla _]. unfold mstep.
    rewrite (cell_in_range _ _ _ SF cur _ Hc (col_lt _ _ Hla)). unfold col_of_term in Hk. rewrite Hk.
    destruct (rev trs) as [|v vs] eqn:E; [|exists v; reflexivity].
    exfalso. apply Hne. rewrite <- (rev_involutive trs), E. reflexivity.
  Qed.

  Lemma mreduce_next ss trs rest r top ss' nst :
    r < rule_count g -> skipn (ri_n (get_ri g r)) ss = top :: ss' -> top < length sts ->
    goto_target g tbl top (NT (ri_l (get_ri g r))) = Some nst -> ri_n (get_ri g r) <= length trs ->
    mreduce g tbl ss trs rest r =
    Next (nst :: top :: ss', Node (ri_r (get_ri g r)) (rev (firstn (ri_n (get_ri g r)) trs)) :: skipn (ri_n (get_ri g r)) trs, rest).
  Proof.
    intros Hr Hsk Htop Hg Hlen. unfold mreduce. rewrite (nth_error_get_ri _ _ _ SF r Hr).
    assert (Nat.ltb (length ss) (ri_n (get_ri g r)) = false) as ->.
    { apply Nat.ltb_ge. destruct (Nat.le_gt_cases (ri_n (get_ri g r)) (length ss)) as [|Hgt]; [assumption|].
      rewrite skipn_all2 in Hsk by lia. discriminate. }
    rewrite Hsk.
    destruct (sf_ri _ _ _ SF r Hr) as (_ & Hl & _).
    assert (ri_l (get_ri g r) < symbol_count g) as Hc by (unfold symbol_count; lia).
    rewrite (cell_in_range _ _ _ SF top _ Htop Hc).
    unfold goto_target in Hg. cbn [sym_col] in Hg.
    destruct (e_kind (cell_at tbl top (ri_l (get_ri g r)))); try discriminate. rewrite Hg.
    assert (Nat.ltb (length trs) (ri_n (get_ri g r)) = false) as -> by (apply Nat.ltb_ge; assumption).
    reflexivity.
  Qed.

  (* ================================================================== *)
  (* sentences                                                           *)
  (* ================================================================== *)

  (* atom (t atom)*  and its tails  (t atom)* *)
  Inductive opseq : list nat -> Prop :=
  | os_atom w : optail w -> opseq (atom :: w)
  with optail : list nat -> Prop :=
  | ot_nil : optail []
  | ot_cons t w : is_op t -> opseq w -> optail (t :: w).

  Lemma optail_look rest : optail rest -> LA (look g rest).
  Proof. intros [|t w' Hop _]; cbn; [left; reflexivity|right; assumption]. Qed.

  Definition input_ok (syms : list symbol) (rest : list nat) : Prop :=
    match syms with
    | [] => opseq rest
    | T t :: _ => if Nat.eqb t atom then optail rest else opseq rest
    | NT _ :: _ => optail rest
    end.

  Definition PInv (syms : list symbol) (c : cfg) : Prop :=
    let '(ss, trs, rest) := c in
    shape ss syms /\ length trs = length syms /\ Forall (fun a => a < eof_idx g) rest /\ input_ok syms rest.

  Fixpoint weight (syms : list symbol) : nat :=
    match syms with
    | [] => 0
    | T t :: r => (if Nat.eqb t atom then 2 else 1) + weight r
    | NT _ :: r => 1 + weight r
    end.
  Definition measure (syms : list symbol) (rest : list nat) : nat := 3 * length rest + weight syms.

  (* ================================================================== *)
  (* the three kinds of configurations                                   *)
  (* ================================================================== *)

  Lemma expects_cases q ss syms : shape (q :: ss) syms -> expects syms ->
    (syms = [] /\ q = 0 /\ ss = []) \/
    (exists t s ss0 syms0, syms = T t :: NT e :: syms0 /\ ss = s :: ss0 /\ is_op t /\
                           shape (s :: ss0) (NT e :: syms0) /\ goto_target g tbl s (T t) = Some q).
  Proof.
    intros Hsh Hex. inversion Hsh as [|q0 ss0 syms0 s0 H1 H2 H3|q0 ss0 syms0 s0 H1 H2 H3|s0 ss0 syms0 t q0 H1 H2 H3]; subst.
    - left. auto.
    - cbn in Hex. exfalso. exact (op_not_atom Hex).
    - destruct Hex.
    - right. exists t, s0, ss0, syms0. auto.
  Qed.

  (* an expecting state has a transition on e *)
  Lemma expect_goto_e q ss syms : shape (q :: ss) syms -> expects syms ->
    exists s, goto_target g tbl q (NT e) = Some s.
  Proof.
    intros Hsh Hex. pose proof (shape_content _ _ Hsh) as Hc. cbn [hd] in Hc. destruct Hc as [Hq Hc].
    assert (exists j, In j (items_of q) /\ next_sym g j = Some (NT e)) as (j & Hj & Hn).
    { destruct (expects_cases _ _ _ Hsh Hex) as [(-> & -> & ->)|(t & s & ss0 & syms0 & -> & -> & Hop & _)].
      - exists (root_item g). split; [apply (sf_st0_root _ _ _ SF)|]. unfold next_sym, root_item. rewrite root_rhs_of. reflexivity.
      - destruct Hc as [_ Hc]. destruct (Hc (proj1 (proj2 (op_facts _ Hop)))) as [_ H2].
        destruct Hop as (i & r & Hb). exists (mkItem i 2 (eof_idx g)). split; [apply (H2 i r); [assumption|left; reflexivity]|].
        unfold next_sym. rewrite (binop_rhs_of _ _ _ _ _ RF _ _ _ _ _ _ Hb). reflexivity. }
    pose proof (next_sym_incomplete _ _ _ SF _ _ _ Hq Hj Hn) as Hic.
    destruct (rf_goto_nt _ _ _ _ _ RF q j e Hq Hj Hn Hic) as (s & Hg & _). exists s. assumption.
  Qed.

  Lemma expect_eexp q ss syms : shape (q :: ss) syms -> expects syms -> q < length sts /\ Eexp q.
  Proof.
    intros Hsh Hex. pose proof (shape_content _ _ Hsh) as Hc. cbn [hd] in Hc. destruct Hc as [Hq Hc].
    split; [assumption|]. destruct syms as [|[t|b] syms']; [exact Hc| |destruct Hex].
    destruct Hc as [_ Hc]. apply Hc. apply (op_facts _ Hex).
  Qed.

  (* no item of an expecting state is complete *)
  Lemma expect_incomplete q ss syms j : shape (q :: ss) syms -> expects syms ->
    In j (items_of q) -> is_complete g j = false.
  Proof.
    intros Hsh Hex Hj. destruct (expect_eexp _ _ _ Hsh Hex) as [Hq _].
    destruct (sf_item _ _ _ SF q j Hq Hj) as (Hr & Hd & _).
    unfold is_complete. apply Nat.leb_gt.
    destruct (it_d j) as [|d] eqn:Ed.
    - destruct (rule_cases _ Hr) as [(_ & _ & Hn)|[(_ & _ & Hn)|(_ & t & _ & _ & Hn & _)]]; lia.
    - destruct (expects_cases _ _ _ Hsh Hex) as [(-> & -> & ->)|(t & s & ss0 & syms0 & -> & -> & Hop & Hsh0 & Hg)].
      + rewrite (sf_st0_dot _ _ _ SF j Hj) in Ed. discriminate.
      + pose proof (shape_content _ _ Hsh0) as Hc0. cbn [hd] in Hc0. destruct Hc0 as [Hs _].
        destruct (op_facts _ Hop) as (Ht & Hta & _).
        destruct (target_item s (T t) q j d Hs (sym_ok_t _ Ht) Hg Hj Ed) as [_ Hx]. unfold rhs_of in Hx.
        destruct (rule_cases _ Hr) as [(_ & E & Hn)|[(_ & E & Hn)|(_ & t' & _ & E & Hn & _)]]; rewrite E in Hx.
        * destruct d as [|[|?]]; cbn in Hx; discriminate.
        * destruct d as [|[|?]]; cbn in Hx; try discriminate. inversion Hx. congruence.
        * destruct d as [|[|[|?]]]; cbn in Hx; try discriminate; lia.
  Qed.

  (* EXPECTING e: shift the atom *)
  Lemma step_expect q ss syms trs rest :
    shape (q :: ss) syms -> expects syms -> Forall (fun a => a < eof_idx g) rest -> opseq rest ->
    exists s, mstep g tbl (q :: ss, trs, rest) = Next (s :: q :: ss, Leaf atom :: trs, tl rest) /\
              shape (s :: q :: ss) (T atom :: syms) /\ optail (tl rest).
  Proof.
    intros Hsh Hex Hr Hos. inversion Hos as [w' Hot]; subst rest. cbn [tl].
    destruct (expect_eexp _ _ _ Hsh Hex) as [Hq HE]. destruct atom_lt as [Hat _].
    destruct (pf_atom _ _ _ PF) as (ia & Hia).
    assert (In (mkItem ia 0 (eof_idx g)) (sh_items g sts q atom)) as Hin.
    { apply in_sh_items. destruct Hia as (H1 & H2 & H3). split; [apply HE; [assumption|assumption|left; reflexivity]|].
      split.
      - unfold is_complete. cbn [it_r it_d]. rewrite atom_n by (repeat split; assumption). reflexivity.
      - unfold next_sym. rewrite atom_rhs_of by (repeat split; assumption). reflexivity. }
    assert (red_items g sts q atom = []) as ER.
    { destruct (red_items g sts q atom) as [|j R'] eqn:E; [reflexivity|]. exfalso.
      assert (In j (red_items g sts q atom)) as Hj by (rewrite E; left; reflexivity).
      apply in_red_items in Hj. destruct Hj as (Hj & Hc & _).
      rewrite (expect_incomplete _ _ _ j Hsh Hex Hj) in Hc. discriminate. }
    destruct (rf_cell _ _ _ _ _ RF q atom Hq Hat) as (_ & Honly & _).
    destruct (Honly ER) as (s & Hg & _); [intros E; rewrite E in Hin; destruct Hin|].
    exists s. split; [|split; [constructor; assumption|assumption]].
    apply (mstep_shift q ss trs (atom :: w') s Hq Hr). exact Hg.
  Qed.

  (* AFTER THE ATOM: reduce e -> atom *)
  Lemma step_after_atom s q ss syms trs rest :
    shape (s :: q :: ss) (T atom :: syms) -> 1 <= length trs ->
    Forall (fun a => a < eof_idx g) rest -> optail rest ->
    exists s' ia, mstep g tbl (s :: q :: ss, trs, rest) =
                  Next (s' :: q :: ss, Node (ri_r (get_ri g ia)) (rev (firstn 1 trs)) :: skipn 1 trs, rest) /\
                  shape (s' :: q :: ss) (NT e :: syms).
  Proof.
    intros Hsh Hlen Hr Hot.
    pose proof (shape_content _ _ Hsh) as Hc. cbn [hd] in Hc. destruct Hc as [Hs [HA _]]. specialize (HA eq_refl).
    assert (shape (q :: ss) syms /\ expects syms /\ goto_target g tbl q (T atom) = Some s) as (Hsh0 & Hex & Hg).
    { inversion Hsh as [|? ? ? ? H1 H2 H3| |? ? ? ? ? H1 H2 H3]; subst; [auto|].
      exfalso. exact (op_not_atom H2). }
    destruct (expect_eexp _ _ _ Hsh0 Hex) as [Hq HE]. destruct atom_lt as [Hat Hae].
    destruct (pf_atom _ _ _ PF) as (ia & Hia).
    pose proof (optail_look _ Hot) as Hla. pose proof (LA_lt _ Hla) as Hlat.
    set (la := look g rest) in *.
    assert (In (mkItem ia 1 la) (red_items g sts s la)) as Hred.
    { apply in_red_items. split; [apply HA; assumption|]. split; [|split; [apply Hia|reflexivity]].
      unfold is_complete. cbn [it_r it_d]. rewrite (atom_n _ Hia). reflexivity. }
    assert (sh_items g sts s la = []) as ES.
    { destruct (sh_items g sts s la) as [|j S'] eqn:E; [reflexivity|]. exfalso.
      assert (In j (sh_items g sts s la)) as Hj by (rewrite E; left; reflexivity).
      apply in_sh_items in Hj. destruct Hj as (Hj & Hc & Hn).
      destruct (sf_item _ _ _ SF s j Hs Hj) as (Hjr & _ & _).
      unfold next_sym in Hn. destruct (item_next_sym_ok _ _ _ SF s j _ _ Hs Hj Hn) as (_ & _ & Hneof).
      destruct Hla as [E'|Hop]; [rewrite E' in Hneof; apply Hneof; reflexivity|].
      destruct (op_facts _ Hop) as (_ & Hta & _).
      pose proof Hn as Hn'. unfold rhs_of in Hn'.
      destruct (rule_cases _ Hjr) as [(_ & E1 & _)|[(_ & E1 & _)|(_ & t' & _ & E1 & _ & _)]]; rewrite E1 in Hn'.
      - destruct (it_d j) as [|[|?]]; cbn in Hn'; discriminate.
      - destruct (it_d j) as [|[|?]]; cbn in Hn'; try discriminate. inversion Hn'. congruence.
      - destruct (it_d j) as [|[|[|n3]]] eqn:Ed; cbn in Hn'; try discriminate; try (destruct n3; discriminate).
        destruct (target_item q (T atom) s j 0 Hq (sym_ok_t _ Hat) Hg Hj Ed) as [_ Hx].
        unfold rhs_of in Hx. rewrite E1 in Hx. cbn in Hx. discriminate. }
    destruct (rf_cell _ _ _ _ _ RF s la Hs Hlat) as (_ & _ & Hro & _).
    pose proof (Hro _ Hred ES) as Hisr. cbn [it_r] in Hisr.
    destruct (expect_goto_e _ _ _ Hsh0 Hex) as (s' & Hg').
    exists s', ia. split; [|constructor; assumption].
    rewrite (mstep_reduce s (q :: ss) trs rest ia Hs Hr Hisr).
    pose proof (atom_n _ Hia) as Hn. pose proof (atom_l _ Hia) as Hl.
    rewrite <- Hn. apply mreduce_next; try rewrite Hn; try rewrite Hl; try assumption.
    - apply Hia.
    - reflexivity.
  Qed.

  (* reducing e -> e t0 e  on top of the stack *)
  Lemma do_reduce_binop s q s0 q0 ss1 t0 syms1 i0 r0 trs rest :
    shape (s :: q :: s0 :: q0 :: ss1) (NT e :: T t0 :: NT e :: syms1) -> binop_at g i0 r0 e t0 ->
    3 <= length trs -> Forall (fun a => a < eof_idx g) rest ->
    is_reduce g tbl s (look g rest) i0 ->
    mstep g tbl (s :: q :: s0 :: q0 :: ss1, trs, rest) =
    Next (s0 :: q0 :: ss1, Node (ri_r (get_ri g i0)) (rev (firstn 3 trs)) :: skipn 3 trs, rest) /\
    shape (s0 :: q0 :: ss1) (NT e :: syms1).
  Proof.
    intros Hsh Hb Hlen Hr Hisr.
    pose proof (shape_content _ _ Hsh) as Hc. cbn [hd] in Hc. destruct Hc as [Hs _].
    inversion Hsh as [| |? ? ? ? H1 H2 H3|]; subst.
    inversion H1 as [|? ? ? ? G1 G2 G3| |? ? ? ? ? G1 G2 G3]; subst; [exfalso; exact (op_not_atom H2)|].
    inversion G1 as [| |? ? ? ? K1 K2 K3|]; subst.
    destruct (expect_eexp _ _ _ K1 K2) as [Hq0 _].
    destruct (binop_facts _ _ _ _ _ RF _ _ _ _ Hb) as (Hlt & _ & Hl & _ & Hn & _).
    split; [|assumption].
    rewrite (mstep_reduce s _ trs rest i0 Hs Hr Hisr).
    rewrite <- Hn. apply mreduce_next; try rewrite Hn; try rewrite Hl; try assumption. reflexivity.
  Qed.

  (* AFTER e: accept, shift the operator, or reduce the operator rule below *)
  Lemma step_after_e s q ss syms trs rest :
    shape (s :: q :: ss) (NT e :: syms) -> length trs = S (length syms) ->
    Forall (fun a => a < eof_idx g) rest -> optail rest ->
    (exists v, mstep g tbl (s :: q :: ss, trs, rest) = Acc v) \/
    (exists t w' q', rest = t :: w' /\ is_op t /\ opseq w' /\
                     mstep g tbl (s :: q :: ss, trs, rest) = Next (q' :: s :: q :: ss, Leaf t :: trs, w') /\
                     shape (q' :: s :: q :: ss) (T t :: NT e :: syms)) \/
    (exists t0 s0 q0 ss1 syms1 i0, syms = T t0 :: NT e :: syms1 /\ ss = s0 :: q0 :: ss1 /\
                     mstep g tbl (s :: q :: ss, trs, rest) =
                     Next (s0 :: q0 :: ss1, Node (ri_r (get_ri g i0)) (rev (firstn 3 trs)) :: skipn 3 trs, rest) /\
                     shape (s0 :: q0 :: ss1) (NT e :: syms1)).
  Proof.
    intros Hsh Hlen Hr Hot.
    pose proof (shape_content _ _ Hsh) as Hc. cbn [hd] in Hc. destruct Hc as (Hs & HA & Hroot & H3).
    assert (shape (q :: ss) syms /\ expects syms /\ goto_target g tbl q (NT e) = Some s) as (Hsh0 & Hex & Hg).
    { inversion Hsh; subst; auto. }
    destruct (expect_eexp _ _ _ Hsh0 Hex) as [Hq HE].
    pose proof (optail_look _ Hot) as Hla. pose proof (LA_lt _ Hla) as Hlat.
    (* a shift of an operator, when the table has it *)
    assert (forall t w', rest = t :: w' -> is_op t -> opseq w' -> has_target g sts tbl s (T t) (sh_items g sts s t) ->
              exists q', mstep g tbl (s :: q :: ss, trs, rest) = Next (q' :: s :: q :: ss, Leaf t :: trs, w') /\
                         shape (q' :: s :: q :: ss) (T t :: NT e :: syms)) as Hshift.
    { intros t w' -> Hop Hos (q' & Hg' & _). exists q'. split; [|constructor; assumption].
      apply (mstep_shift s (q :: ss) trs (t :: w') q' Hs Hr). exact Hg'. }
    destruct (expects_cases _ _ _ Hsh0 Hex) as [(-> & -> & ->)|(t0 & s0 & ss0 & syms0 & -> & -> & Hop0 & Hsh1 & Hg0)].
    - (* the stack is [e] *)
      specialize (Hroot eq_refl).
      inversion Hot as [|t w' Hop Hos]; subst rest.
      + left. destruct (rf_accept _ _ _ _ _ RF s _ Hs Hroot) as [Hk _].
        * unfold is_complete. cbn [it_r it_d]. rewrite root_n. reflexivity.
        * reflexivity.
        * apply (mstep_success s [0] trs [] Hs Hr); [destruct trs; [discriminate|discriminate]|exact Hk].
      + right. left. cbn [look hd] in *. exists t, w'.
        (* no completed item (other than the root item) in the state after the first e *)
        assert (red_items g sts s t = []) as ER.
        { destruct (red_items g sts s t) as [|j R'] eqn:E; [reflexivity|]. exfalso.
          assert (In j (red_items g sts s t)) as Hj by (rewrite E; left; reflexivity).
          apply in_red_items in Hj. destruct Hj as (Hj & Hc & Hnr & _).
          destruct (sf_item _ _ _ SF s j Hs Hj) as (Hjr & Hjd & _).
          unfold is_complete in Hc. apply Nat.leb_le in Hc.
          destruct (it_d j) as [|d] eqn:Ed.
          - destruct (rule_cases _ Hjr) as [(_ & _ & Hn)|[(_ & _ & Hn)|(_ & t' & _ & _ & Hn & _)]]; lia.
          - destruct (target_item 0 (NT e) s j d Hq sym_ok_e Hg Hj Ed) as [Hin Hx].
            pose proof (sf_st0_dot _ _ _ SF _ Hin) as Hd0. cbn [it_d] in Hd0. subst d.
            destruct (rule_cases _ Hjr) as [(E1 & _)|[(_ & E1 & _)|(_ & t' & _ & _ & Hn & _)]].
            + contradiction.
            + unfold rhs_of in Hx. rewrite E1 in Hx. cbn in Hx. discriminate.
            + lia. }
        destruct Hop as (i & r & Hb).
        assert (In (mkItem i 1 (eof_idx g)) (sh_items g sts s t)) as Hin.
        { apply in_sh_items. split; [apply (HA i r t); [assumption|left; reflexivity]|].
          destruct (binop_facts _ _ _ _ _ RF _ _ _ _ Hb) as (_ & _ & _ & _ & Hn & _). split.
          - unfold is_complete. cbn [it_r it_d]. rewrite Hn. reflexivity.
          - unfold next_sym. rewrite (binop_rhs_of _ _ _ _ _ RF _ _ _ _ _ _ Hb). reflexivity. }
        destruct (rf_cell _ _ _ _ _ RF s t Hs Hlat) as (_ & Honly & _).
        assert (has_target g sts tbl s (T t) (sh_items g sts s t)) as Htg.
        { apply Honly; [assumption|]. intros E; rewrite E in Hin; destruct Hin. }
        destruct (Hshift t w' eq_refl (ex_intro _ i (ex_intro _ r Hb)) Hos Htg) as (q' & Hm & Hsh').
        exists q'. repeat split; try assumption. exists i, r. assumption.
    - (* the stack ends with e t0 e *)
      assert (exists q0 ss1, ss0 = q0 :: ss1) as (q0 & ss1 & ->).
      { inversion Hsh1; subst. eauto. }
      destruct Hop0 as (i0 & r0 & Hb0).
      assert (In (mkItem i0 3 (look g rest)) (red_items g sts s (look g rest))) as Hred.
      { apply in_red_items. split; [apply (H3 t0 _ eq_refl i0 r0); assumption|].
        destruct (binop_facts _ _ _ _ _ RF _ _ _ _ Hb0) as (_ & _ & _ & _ & Hn & _ & _ & Hnr).
        split; [|split; [assumption|reflexivity]].
        unfold is_complete. cbn [it_r it_d]. rewrite Hn. reflexivity. }
      assert (3 <= length trs) as Hlen3 by (rewrite Hlen; cbn; lia).
      assert (is_reduce g tbl s (look g rest) i0 ->
              exists t0' s0' q0' ss1' syms1' i0', T t0 :: NT e :: syms0 = T t0' :: NT e :: syms1' /\
                s0 :: q0 :: ss1 = s0' :: q0' :: ss1' /\
                mstep g tbl (s :: q :: s0 :: q0 :: ss1, trs, rest) =
                Next (s0' :: q0' :: ss1', Node (ri_r (get_ri g i0')) (rev (firstn 3 trs)) :: skipn 3 trs, rest) /\
                shape (s0' :: q0' :: ss1') (NT e :: syms1')) as Hdo.
      { intros Hisr. destruct (do_reduce_binop _ _ _ _ _ _ _ _ _ trs rest Hsh Hb0 Hlen3 Hr Hisr) as [Hm Hsh'].
        exists t0, s0, q0, ss1, syms0, i0. auto. }
      destruct (rf_cell _ _ _ _ _ RF s (look g rest) Hs Hlat) as (_ & _ & Hro & Hsr).
      destruct (sh_items g sts s (look g rest)) as [|j S'] eqn:ES.
      + right. right. apply Hdo. exact (Hro _ Hred eq_refl).
      + destruct (Hsr _ Hred) as [[_ Hisr]|[_ Htg]]; [discriminate| |].
        * right. right. apply Hdo. exact Hisr.
        * right. left.
          inversion Hot as [|t w' Hop Hos]; subst rest.
          -- (* <eof> is in no right side *)
             exfalso. cbn [look hd] in ES.
             assert (In j (sh_items g sts s (eof_idx g))) as Hj by (rewrite ES; left; reflexivity).
             apply in_sh_items in Hj. destruct Hj as (Hj & _ & Hn). unfold next_sym in Hn.
             destruct (item_next_sym_ok _ _ _ SF s j _ _ Hs Hj Hn) as (_ & _ & Hneof). apply Hneof. reflexivity.
          -- cbn [look hd] in *. exists t, w'. rewrite <- ES in Htg.
             destruct (Hshift t w' eq_refl Hop Hos Htg) as (q' & Hm & Hsh').
             exists q'. repeat split; assumption.
  Qed.

  (* ================================================================== *)
  (* progress and termination                                            *)
  (* ================================================================== *)

  Lemma weight_atom syms : weight (T atom :: syms) = 2 + weight syms.
  Proof. cbn [weight]. rewrite Nat.eqb_refl. reflexivity. Qed.

  Lemma weight_op t syms : is_op t -> weight (T t :: syms) = 1 + weight syms.
  Proof.
    intros H. cbn [weight]. replace (Nat.eqb t atom) with false; [reflexivity|].
    symmetry. apply Nat.eqb_neq. apply (op_facts _ H).
  Qed.

  Lemma weight_T_pos t syms : 1 <= weight (T t :: syms).
  Proof. cbn [weight]. destruct (Nat.eqb t atom); lia. Qed.

  Lemma input_ok_op t syms rest : is_op t -> input_ok (T t :: syms) rest = opseq rest.
  Proof.
    intros H. cbn [input_ok]. replace (Nat.eqb t atom) with false; [reflexivity|].
    symmetry. apply Nat.eqb_neq. apply (op_facts _ H).
  Qed.

  Lemma input_ok_atom syms rest : input_ok (T atom :: syms) rest = optail rest.
  Proof. cbn [input_ok]. rewrite Nat.eqb_refl. reflexivity. Qed.

  Lemma expect_progress q ss syms trs rest :
    shape (q :: ss) syms -> expects syms -> length trs = length syms ->
    Forall (fun a => a < eof_idx g) rest -> opseq rest ->
    exists syms' c', mstep g tbl (q :: ss, trs, rest) = Next c' /\ PInv syms' c' /\
                     measure syms' (snd c') < measure syms rest.
  Proof.
    intros Hsh Hex Hlen Hr Hos.
    destruct (step_expect q ss syms trs rest Hsh Hex Hr Hos) as (s & Hm & Hsh' & Hot).
    exists (T atom :: syms), (s :: q :: ss, Leaf atom :: trs, tl rest). split; [assumption|]. split.
    - split; [assumption|]. split; [cbn; lia|]. split.
      + destruct rest as [|a r]; cbn; [constructor|]. inversion Hr; assumption.
      + rewrite input_ok_atom. assumption.
    - cbn [snd]. unfold measure. rewrite weight_atom. inversion Hos; subst. cbn [tl length]. lia.
  Qed.

  Lemma progress syms c : PInv syms c ->
    (exists v, mstep g tbl c = Acc v) \/
    (exists syms' c', mstep g tbl c = Next c' /\ PInv syms' c' /\ measure syms' (snd c') < measure syms (snd c)).
  Proof.
    destruct c as [[ss trs] rest]. intros (Hsh & Hlen & Hr & Hin). cbn [snd].
    inversion Hsh as [|q ss0 syms0 s H1 H2 H3|q ss0 syms0 s H1 H2 H3|s ss0 syms0 t q H1 H2 H3]; subst.
    - (* empty stack *)
      right. apply expect_progress; try assumption. exact I.
    - (* after the atom *)
      right. rewrite input_ok_atom in Hin.
      destruct (step_after_atom s q ss0 syms0 trs rest Hsh) as (s' & ia & Hm & Hsh'); try assumption.
      { rewrite Hlen. cbn. lia. }
      exists (NT e :: syms0), (s' :: q :: ss0, Node (ri_r (get_ri g ia)) (rev (firstn 1 trs)) :: skipn 1 trs, rest).
      split; [assumption|]. split.
      + split; [assumption|]. split; [|split; assumption].
        cbn [length] in *. rewrite skipn_length. lia.
      + cbn [snd]. unfold measure. rewrite weight_atom. cbn [weight]. lia.
    - (* after e *)
      cbn [input_ok] in Hin.
      destruct (step_after_e s q ss0 syms0 trs rest Hsh Hlen Hr Hin)
        as [Hacc|[(t & w' & q' & -> & Hop & Hos & Hm & Hsh')|(t0 & s0 & q0 & ss1 & syms1 & i0 & -> & -> & Hm & Hsh')]].
      + left. assumption.
      + right. exists (T t :: NT e :: syms0), (q' :: s :: q :: ss0, Leaf t :: trs, w'). split; [assumption|]. split.
        * split; [assumption|]. split; [cbn [length] in *; lia|]. split; [inversion Hr; assumption|].
          rewrite input_ok_op by assumption. assumption.
        * cbn [snd]. unfold measure. rewrite weight_op by assumption. cbn [length weight]. lia.
      + right. exists (NT e :: syms1), (s0 :: q0 :: ss1, Node (ri_r (get_ri g i0)) (rev (firstn 3 trs)) :: skipn 3 trs, rest).
        split; [assumption|]. split.
        * split; [assumption|]. split; [|split; assumption].
          cbn [length] in *. rewrite skipn_length. lia.
        * cbn [snd]. unfold measure. pose proof (weight_T_pos t0 (NT e :: syms1)). cbn [weight] in *. lia.
    - (* after an operator *)
      right. rewrite input_ok_op in Hin by assumption. apply expect_progress; try assumption.
  Qed.

  Lemma pure_run m : forall syms c, measure syms (snd c) <= m -> PInv syms c -> exists n v, mrun g tbl n c = Some v.
  Proof.
    induction m as [|m IH]; intros syms c Hm Hinv.
    - destruct (progress _ _ Hinv) as [(v & Hv)|(syms' & c' & Hs & _ & Hlt)]; [|lia].
      exists 1, v. cbn [mrun]. rewrite Hv. reflexivity.
    - destruct (progress _ _ Hinv) as [(v & Hv)|(syms' & c' & Hs & Hinv' & Hlt)].
      + exists 1, v. cbn [mrun]. rewrite Hv. reflexivity.
      + destruct (IH syms' c') as (n & v & Hn); [lia|assumption|].
        exists (S n), v. cbn [mrun]. rewrite Hs. assumption.
  Qed.

  Theorem pure_accepts w : tokens_ok g w -> opseq w -> exists tr, accepts g tbl w tr.
  Proof.
    intros Hw Hos.
    destruct (pure_run (measure [] w) [] ([0], [], w)) as (n & v & Hn); [cbn; lia| |].
    - split; [constructor|]. split; [reflexivity|]. split; [exact Hw|exact Hos].
    - exists v. eapply mrun_accepts. eassumption.
  Qed.

  (* ---------- the hypotheses of the uniqueness theorem, from the family ---------- *)
  Lemma e_not_fake : e <> fake_root_idx g.
  Proof.
    destruct (pf_atom _ _ _ PF) as (ia & Hlt & Hnr & _). destruct (pf_rules _ _ _ PF ia Hlt Hnr) as [Hl _].
    intros E. apply Hnr. apply (sf_root_only _ _ _ SF ia Hlt). congruence.
  Qed.

  Lemma is_rule_index r rhs : is_rule g r e rhs ->
    exists i, i < rule_count g /\ i <> root /\ ri_r (get_ri g i) = r /\ get_rhs g (ri_r (get_ri g i)) = rhs.
  Proof.
    intros (i & ri & Hi & Hr & Hl & Hrhs). destruct (get_ri_nth_error _ _ _ SF i ri Hi) as [Eri Hlt].
    exists i. split; [assumption|]. rewrite Eri. split; [|split; [assumption|]].
    - intros E. subst i. pose proof (sf_root_l _ _ _ SF) as H. rewrite Eri, Hl in H. exact (e_not_fake H).
    - rewrite Hr. unfold get_rhs. apply nth_error_nth. assumption.
  Qed.

  Lemma family_shape r rhs : is_rule g r e rhs ->
    rhs = [T atom] \/ exists t, t <> atom /\ rhs = [NT e; T t; NT e].
  Proof.
    intros H. destruct (is_rule_index _ _ H) as (i & Hlt & Hnr & _ & Hrhs).
    destruct (pf_rules _ _ _ PF i Hlt Hnr) as (_ & [E|(t & Ht & E)]); rewrite Hrhs in E; [left; assumption|right; eauto].
  Qed.

  Lemma family_once r r' rhs : is_rule g r e rhs -> is_rule g r' e rhs -> r = r'.
  Proof.
    intros H H'. destruct (is_rule_index _ _ H) as (i & Hlt & _ & Hr & Hrhs).
    destruct (is_rule_index _ _ H') as (i' & Hlt' & _ & Hr' & Hrhs').
    assert (i = i') by (apply (pf_once _ _ _ PF); congruence). subst i'. congruence.
  Qed.

  Lemma family_root : root_symbol g = Some (NT e).
  Proof. apply (root_symbol_eq _ _ _ SF). apply (pf_root _ _ _ PF). Qed.
End Pure.

(* ---------- deciding the shape of the input (for examples) ---------- *)
Definition is_opb (g : grammar) (e t : nat) : bool :=
  existsb (fun i => match binop_op g i (ri_r (get_ri g i)) e with Some t' => Nat.eqb t' t | None => false end)
          (seq 0 (length (rule_infos g))).

Fixpoint optailb (g : grammar) (e atom : nat) (w : list nat) {struct w} : bool :=
  match w with
  | [] => true
  | t :: w1 => match w1 with
               | a :: w' => is_opb g e t && Nat.eqb a atom && optailb g e atom w'
               | [] => false
               end
  end.
Definition opseqb (g : grammar) (e atom : nat) (w : list nat) : bool :=
  match w with a :: w' => Nat.eqb a atom && optailb g e atom w' | [] => false end.

Lemma is_opb_sound g e t : is_opb g e t = true -> is_op g e t.
Proof.
  unfold is_opb. intros H. apply existsb_exists in H. destruct H as (i & _ & H).
  destruct (binop_op g i (ri_r (get_ri g i)) e) as [t'|] eqn:E; [|discriminate]. apply Nat.eqb_eq in H. subst t'.
  exists i, (ri_r (get_ri g i)). apply binop_op_iff. assumption.
Qed.

Lemma optailb_sound g e atom n : forall w, length w <= n -> optailb g e atom w = true -> optail g e atom w.
Proof.
  induction n as [|n IH]; intros w Hl H.
  - destruct w; [constructor|cbn in Hl; lia].
  - destruct w as [|t [|a w']]; [constructor|discriminate|]. cbn [optailb] in H.
    apply andb_true_iff in H. destruct H as [H H3]. apply andb_true_iff in H. destruct H as [H1 H2].
    apply Nat.eqb_eq in H2. subst a. constructor; [apply is_opb_sound; assumption|].
    constructor. apply IH; [cbn in Hl; lia|assumption].
Qed.

Lemma opseqb_sound g e atom w : opseqb g e atom w = true -> opseq g e atom w.
Proof.
  destruct w as [|a w']; [discriminate|]. cbn [opseqb]. intros H. apply andb_true_iff in H. destruct H as [H1 H2].
  apply Nat.eqb_eq in H1. subst a. constructor. eapply optailb_sound; [apply Nat.le_refl|assumption].
Qed.

Definition tokens_okb (g : grammar) (w : list nat) : bool := forallb (fun a => Nat.ltb a (eof_idx g)) w.
Lemma tokens_okb_sound g w : tokens_okb g w = true -> tokens_ok g w.
Proof.
  unfold tokens_okb, tokens_ok. rewrite forallb_forall, Forall_forall. intros H x Hx. apply Nat.ltb_lt. auto.
Qed.

(* ================================================================== *)
(* G5                                                                  *)
(* ================================================================== *)

(* completeness: the resolved table never rejects a sentence  atom (t atom)*  of the ambiguous grammar, whatever the
   precedence and associativity declarations *)
Theorem pure_complete : forall g sts tbl e atom w,
  validate_resolved g sts tbl = true ->
  pure_family g e atom ->
  tokens_ok g w ->
  opseq g e atom w ->
  exists tr, accepts g tbl w tr.
Proof.
  intros g sts tbl e atom w Hv PF Hw Hos.
  eapply pure_accepts; try eassumption. apply validate_resolved_facts. exact Hv.
Qed.

(* ... and, when the operator rules carry no explicit precedence, the accepted tree is the one and only well grouped
   derivation tree of the sentence *)
Theorem pure_unique : forall g sts tbl e atom w,
  validate_resolved g sts tbl = true ->
  no_error_symbol g tbl = true ->
  pure_family g e atom ->
  (forall i r t, binop_at g i r e t -> plain_rule g i t) ->
  tokens_ok g w ->
  opseq g e atom w ->
  exists tr, accepts g tbl w tr /\ derives_tree g tr w /\ well_grouped g tr /\
             forall tr', derives_tree g tr' w -> well_grouped g tr' -> tr' = tr.
Proof.
  intros g sts tbl e atom w Hv Hne PF Hplain Hw Hos.
  pose proof (validate_resolved_facts _ _ _ Hv) as RF.
  destruct (pure_complete g sts tbl e atom w Hv PF Hw Hos) as (tr & Hacc).
  destruct (grouping_derivation g sts tbl w tr Hv Hne Hw Hacc) as [Hd Hwg].
  exists tr. repeat split; try assumption.
  intros tr' Hd' Hwg'.
  pose proof (family_root _ _ _ _ _ RF _ _ PF) as Hroot.
  destruct Hd as (s & Hs & Hvt & Hy). destruct Hd' as (s' & Hs' & Hvt' & Hy').
  assert (s = NT e) by congruence. assert (s' = NT e) by congruence. subst s s'.
  apply (well_grouped_unique g e atom); try assumption.
  - intros r rhs. apply (family_shape _ _ _ _ _ RF _ _ PF).
  - intros r r' rhs. apply (family_once _ _ _ _ _ RF _ _ PF).
  - congruence.
Qed.

Print Assumptions pure_complete.
Print Assumptions pure_unique.
