(* Shared infrastructure for the driver theorems (C02, C10, C14, C18):
   - [run_gh]: [run_from] instrumented with a ghost, the list of loop-head states visited (everything a step
     did is a function of that state, so every other ghost -- all lines written, values popped, ... -- is derived from it);
   - invariant combinators over [run_gh];
   - a case-free description of [get_current_term], [do_reduce], [act], [step] ([gct_spec], [act_spec], [step_cases]). *)
Require Import Ctpg.Base.Prelude Ctpg.Model.Grammar Ctpg.Model.LRGen Ctpg.Model.Driver.

Definition is_pop_ev (e : event) : bool :=
  match e with EvRecoveringTo _ _ | EvCouldNotRecover _ => true | _ => false end.

(* ---------- list facts ---------- *)
Lemma firstn_add {A} (l : list A) i d : firstn (i + d) l = firstn i l ++ firstn d (skipn i l).
Proof.
  revert l; induction i as [|i IH]; intros l; cbn; [reflexivity|].
  destruct l as [|x l]; cbn; [now rewrite firstn_nil|]. now rewrite IH.
Qed.

Lemma skipn_add {A} (l : list A) i d : skipn d (skipn i l) = skipn (i + d) l.
Proof.
  revert l; induction i as [|i IH]; intros l; cbn; [reflexivity|].
  destruct l as [|x l]; cbn; [now rewrite skipn_nil|]. apply IH.
Qed.

Lemma slice_of_add (buf : list nat) i d : slice_of buf i (i + d) = firstn d (skipn i buf).
Proof. unfold slice_of. replace (i + d - i) with d by lia. reflexivity. Qed.

Lemma skipn_cons_lt {A} (l : list A) i x r : skipn i l = x :: r -> i < length l /\ nth_error l i = Some x.
Proof.
  revert l; induction i as [|i IH]; intros l H; cbn in *.
  - subst l. cbn. split; [lia|reflexivity].
  - destruct l as [|y l]; [discriminate|]. cbn. apply IH in H. split; [lia|tauto].
Qed.

Lemma skipn_nil_ge {A} (l : list A) i : skipn i l = [] -> length l <= i.
Proof.
  revert l; induction i as [|i IH]; intros l H; cbn in *; [subst; cbn; lia|].
  destruct l as [|y l]; cbn; [lia|]. apply IH in H. lia.
Qed.

Lemma filter_true {A} (l : list A) : filter (fun _ => true) l = l.
Proof. induction l; cbn; congruence. Qed.

Lemma count_ws_le o l : count_ws o l <= length l.
Proof. induction l as [|b l IH]; cbn; [lia|]. destruct (is_ws o b); lia. Qed.

Section Basics.
  Variables V C : Type.
  Variable g : grammar.
  Variable tbl : table.
  Variable opts : options.
  Variable buf : list nat.
  Variable cap : option nat.
  Variable lexer : bool -> spoint -> list nat -> list lex_event * option (nat * nat).
  Variable term_f : nat -> nat -> nat -> spoint -> V.
  Variable err_f : spoint -> V.
  Variable rule_f : nat -> C -> list V -> C * V.

  Notation pst := (pstate V C).
  Notation stepx := (step V C g tbl opts buf cap lexer term_f err_f rule_f).
  Notation actx := (act V C g tbl buf cap term_f err_f rule_f).
  Notation gctx := (get_current_term V C g opts buf lexer).
  Notation reducex := (do_reduce V C g tbl cap rule_f).
  Notation consumex := (consume_term V C buf).
  Notation run_fromx := (run_from V C g tbl opts buf cap lexer term_f err_f rule_f).

  (* ---------- the instrumented run ---------- *)
  Fixpoint run_gh (fuel : nat) (s : pst) (out : list event) (vis : list pst)
    : result V * pst * list event * list pst :=
    match fuel with
    | 0 => (OutOfFuel, s, out, vis)
    | S f => match stepx s with
             | (inl s', ev) => run_gh f s' (out ++ filter (visible opts) ev) (vis ++ [s])
             | (inr (r, s'), ev) => (r, s', out ++ filter (visible opts) ev, vis ++ [s])
             end
    end.

  Lemma run_gh_run fuel s out vis :
    run_fromx fuel s out = let '(r, s', out', _) := run_gh fuel s out vis in (r, s', out').
  Proof.
    revert s out vis; induction fuel as [|f IH]; intros s out vis; cbn [run_from run_gh]; [reflexivity|].
    destruct (stepx s) as [[s'|[r s']] ev]; [apply IH | reflexivity].
  Qed.

  (* every line of the visited iterations, whether it reaches the stream or not *)
  Definition all_events (vis : list pst) : list event := flat_map (fun s => snd (stepx s)) vis.
  Definition no_pop (vis : list pst) : Prop := forall e, In e (all_events vis) -> is_pop_ev e = false.
  (* the values removed from the value stack by pop_stacks *)
  Definition popped_at (s : pst) : list V :=
    if existsb is_pop_ev (snd (stepx s)) then firstn 1 (ps_values s) else [].
  Definition popped (vis : list pst) : list V := flat_map popped_at vis.

  Lemma all_events_app a b : all_events (a ++ b) = all_events a ++ all_events b.
  Proof. apply flat_map_app. Qed.
  Lemma popped_app a b : popped (a ++ b) = popped a ++ popped b.
  Proof. apply flat_map_app. Qed.

  Lemma no_pop_nil : no_pop [].
  Proof. intros e []. Qed.

  Lemma no_pop_snoc vis s : no_pop (vis ++ [s]) <-> no_pop vis /\ (forall e, In e (snd (stepx s)) -> is_pop_ev e = false).
  Proof.
    unfold no_pop. rewrite all_events_app. cbn. rewrite app_nil_r. split.
    - intros H; split; intros e He; apply H, in_or_app; auto.
    - intros [H1 H2] e He. apply in_app_or in He as [He|He]; auto.
  Qed.

  Lemma run_gh_out fuel : forall s out vis out0,
    out = out0 ++ filter (visible opts) (all_events vis) ->
    let '(_, _, out', vis') := run_gh fuel s out vis in out' = out0 ++ filter (visible opts) (all_events vis').
  Proof.
    induction fuel as [|f IH]; intros s out vis out0 Hout; cbn [run_gh]; [assumption|].
    assert (E : out ++ filter (visible opts) (snd (stepx s)) = out0 ++ filter (visible opts) (all_events (vis ++ [s]))).
    { rewrite all_events_app, filter_app, app_assoc, <- Hout. cbn. now rewrite app_nil_r. }
    destruct (stepx s) as [[s'|[r s']] ev]; cbn [snd] in E; [apply IH; assumption | assumption].
  Qed.

  (* invariants that may mention the ghost *)
  Section GhostInv.
    Variable Inv : list pst -> pst -> Prop.
    Variable Fin : list pst -> result V -> pst -> Prop.
    Hypothesis Hfuel : forall vis s, Inv vis s -> Fin vis OutOfFuel s.
    Hypothesis Hstep : forall vis s, Inv vis s ->
      match fst (stepx s) with
      | inl s' => Inv (vis ++ [s]) s'
      | inr (r, s') => Fin (vis ++ [s]) r s'
      end.

    Lemma run_gh_inv fuel : forall s out vis, Inv vis s ->
      let '(r, s', _, vis') := run_gh fuel s out vis in Fin vis' r s'.
    Proof.
      induction fuel as [|f IH]; intros s out vis HI; cbn [run_gh]; [auto|].
      specialize (Hstep vis s HI). destruct (stepx s) as [[s'|[r s']] ev]; cbn [fst] in Hstep; [apply IH|]; assumption.
    Qed.
  End GhostInv.

  (* state-only invariants: they also hold of every visited state *)
  Section StateInv.
    Variable Inv : pst -> Prop.
    Variable Fin : result V -> pst -> Prop.
    Hypothesis Hfuel : forall s, Inv s -> Fin OutOfFuel s.
    Hypothesis Hstep : forall s, Inv s ->
      match fst (stepx s) with
      | inl s' => Inv s'
      | inr (r, s') => Fin r s'
      end.

    Lemma run_gh_sinv fuel s out vis : Inv s -> Forall Inv vis ->
      let '(r, s', _, vis') := run_gh fuel s out vis in Fin r s' /\ Forall Inv vis'.
    Proof.
      intros HI HV.
      apply (run_gh_inv (fun vis s => Inv s /\ Forall Inv vis) (fun vis r s => Fin r s /\ Forall Inv vis)); [| |auto].
      - intros vis0 s0 [H1 H2]; auto.
      - intros vis0 s0 [H1 H2]. specialize (Hstep s0 H1).
        assert (Forall Inv (vis0 ++ [s0])) by (apply Forall_app; auto).
        destruct (fst (stepx s0)) as [s'|[r s']]; auto.
    Qed.
  End StateInv.

  (* a property of all lines of visited states carries over to the output *)
  Lemma out_of_visited (Inv : pst -> Prop) (P : event -> Prop) :
    (forall s, Inv s -> Forall P (snd (stepx s))) ->
    forall vis, Forall Inv vis -> Forall P (all_events vis).
  Proof.
    intros H vis HV. unfold all_events. apply Forall_forall. intros e He.
    apply in_flat_map in He as (s & Hs & He). rewrite Forall_forall in HV.
    specialize (H s (HV s Hs)). rewrite Forall_forall in H. auto.
  Qed.

  Lemma Forall_filter {A} (P : A -> Prop) f l : Forall P l -> Forall P (filter f l).
  Proof. rewrite !Forall_forall. intros H x Hx. apply filter_In in Hx. apply H, Hx. Qed.

  (* ---------- projections through the setters ---------- *)
  Lemma set_modes_id (s : pst) : set_modes s (ps_rec s) (ps_cons s) = s.
  Proof. destruct s; reflexivity. Qed.

  (* the "leave consume mode" prologue of every non-error action *)
  Definition clr (s1 : pst) : pst := if ps_cons s1 then set_modes s1 (ps_rec s1) false else s1.
  Definition lc (s1 : pst) : list event := if ps_cons s1 then [EvLeaveConsume (ps_sp s1)] else [].

  Lemma clr_cursors s : ps_cursors (clr s) = ps_cursors s. Proof. unfold clr; destruct (ps_cons s); reflexivity. Qed.
  Lemma clr_values s : ps_values (clr s) = ps_values s. Proof. unfold clr; destruct (ps_cons s); reflexivity. Qed.
  Lemma clr_sp s : ps_sp (clr s) = ps_sp s. Proof. unfold clr; destruct (ps_cons s); reflexivity. Qed.
  Lemma clr_it s : ps_it (clr s) = ps_it s. Proof. unfold clr; destruct (ps_cons s); reflexivity. Qed.
  Lemma clr_end s : ps_end (clr s) = ps_end s. Proof. unfold clr; destruct (ps_cons s); reflexivity. Qed.
  Lemma clr_term s : ps_term (clr s) = ps_term s. Proof. unfold clr; destruct (ps_cons s); reflexivity. Qed.
  Lemma clr_rec s : ps_rec (clr s) = ps_rec s. Proof. unfold clr; destruct (ps_cons s); reflexivity. Qed.
  Lemma clr_ctx s : ps_ctx (clr s) = ps_ctx s. Proof. unfold clr; destruct (ps_cons s); reflexivity. Qed.
  Lemma clr_cons s : ps_cons (clr s) = false. Proof. unfold clr; destruct (ps_cons s) eqn:E; [reflexivity|assumption]. Qed.

  (* ---------- get_current_term ---------- *)
  Definition wsk (pos : nat) : nat := if o_skip_ws opts then count_ws opts (skipn pos buf) else 0.

  Inductive gct_spec (s : pst) : pst * option nat * list event -> Prop :=
  | GRec : ps_rec s = true -> gct_spec s (s, Some (err_idx g), [])
  | GPend : ps_rec s = false -> ps_it s <> ps_end s -> gct_spec s (s, ps_term s, [])
  | GEof sp1 it1 :
      ps_rec s = false -> ps_it s = ps_end s ->
      it1 = ps_it s + wsk (ps_it s) -> sp1 = sp_update (ps_sp s) (slice_of buf (ps_it s) it1) ->
      skipn it1 buf = [] ->
      gct_spec s (set_pos s sp1 it1 (ps_end s) (Some (eof_idx g)), Some (eof_idx g), [EvRecognized sp1 (eof_idx g)])
  | GFail sp1 it1 c rest lx :
      ps_rec s = false -> ps_it s = ps_end s ->
      it1 = ps_it s + wsk (ps_it s) -> sp1 = sp_update (ps_sp s) (slice_of buf (ps_it s) it1) ->
      skipn it1 buf = c :: rest ->
      lexer (o_verbose opts) sp1 (c :: rest) = (lx, None) ->
      gct_spec s (set_pos s sp1 it1 (ps_end s) None, None, map EvLex lx ++ [EvUnexpectedChar sp1 c])
  | GTok sp1 it1 c rest lx t len :
      ps_rec s = false -> ps_it s = ps_end s ->
      it1 = ps_it s + wsk (ps_it s) -> sp1 = sp_update (ps_sp s) (slice_of buf (ps_it s) it1) ->
      skipn it1 buf = c :: rest ->
      lexer (o_verbose opts) sp1 (c :: rest) = (lx, Some (t, len)) ->
      gct_spec s (set_pos s sp1 it1 (it1 + len) (Some t), Some t, map EvLex lx ++ [EvRecognized sp1 t]).

  Lemma gct_spec_holds s : gct_spec s (gctx s).
  Proof.
    unfold get_current_term.
    destruct (ps_rec s) eqn:Hr; [now constructor|].
    destruct (Nat.eqb (ps_it s) (ps_end s)) eqn:Hit; cbn [negb].
    2:{ apply Nat.eqb_neq in Hit. now constructor. }
    apply Nat.eqb_eq in Hit.
    fold (wsk (ps_it s)). rewrite <- slice_of_add, skipn_add.
    destruct (skipn (ps_it s + wsk (ps_it s)) buf) as [|c rest] eqn:Hsk.
    - eapply GEof; eauto.
    - destruct (lexer (o_verbose opts) _ (c :: rest)) as [lx [[t len]|]] eqn:Hlx.
      + eapply GTok; eauto.
      + eapply GFail; eauto.
  Qed.

  (* ---------- do_reduce ---------- *)
  Lemma do_reduce_inl s r s3 ev :
    reducex s r = inl (s3, ev) ->
    exists ri nst c' v,
      nth_error (rule_infos g) r = Some ri /\
      ri_n ri <= length (ps_values s) /\ ri_n ri <= length (ps_cursors s) /\
      rule_f (ri_r ri) (ps_ctx s) (rev (firstn (ri_n ri) (ps_values s))) = (c', v) /\
      s3 = set_ctx (set_stacks s (nst :: skipn (ri_n ri) (ps_cursors s)) (v :: skipn (ri_n ri) (ps_values s))) c' /\
      ev = [EvReduce (ps_sp s) (ri_r ri) r; EvGoto (ps_sp s) (Some nst)].
  Proof.
    unfold do_reduce. destruct (nth_error (rule_infos g) r) as [ri|] eqn:Hri; [|discriminate].
    destruct (Nat.ltb (length (ps_cursors s)) (ri_n ri)) eqn:Hc; [discriminate|]. apply Nat.ltb_ge in Hc.
    destruct (skipn (ri_n ri) (ps_cursors s)) as [|top cs] eqn:Hcs; [discriminate|].
    destruct (cell tbl top (ri_l ri)) as [e|c]; [|discriminate].
    destruct (full cap (length (top :: cs))); [discriminate|].
    destruct (e_arg e) as [nst|]; [|discriminate].
    destruct (Nat.ltb (length (ps_values s)) (ri_n ri)) eqn:Hv; [discriminate|]. apply Nat.ltb_ge in Hv.
    destruct (rule_f (ri_r ri) (ps_ctx s) (rev (firstn (ri_n ri) (ps_values s)))) as [c' v] eqn:Hf.
    destruct (full cap (length (skipn (ri_n ri) (ps_values s)))); [discriminate|].
    intros H; inversion H; subst. exists ri, nst, c', v. rewrite Hcs. repeat split; auto.
  Qed.

  Lemma do_reduce_inr s r res : reducex s r = inr res -> match res with Accept _ | OutOfFuel | Reject => False | _ => True end.
  Proof.
    unfold do_reduce. destruct (nth_error (rule_infos g) r) as [ri|]; [|intros H; inversion H; exact I].
    destruct (Nat.ltb (length (ps_cursors s)) (ri_n ri)); [intros H; inversion H; exact I|].
    destruct (skipn (ri_n ri) (ps_cursors s)) as [|top cs]; [intros H; inversion H; exact I|].
    destruct (cell tbl top (ri_l ri)) as [e|c]; [|intros H; inversion H; exact I].
    destruct (full cap (length (top :: cs))); [intros H; inversion H; exact I|].
    destruct (e_arg e) as [nst|]; [|intros H; inversion H; exact I].
    destruct (Nat.ltb (length (ps_values s)) (ri_n ri)); [intros H; inversion H; exact I|].
    destruct (rule_f (ri_r ri) (ps_ctx s) (rev (firstn (ri_n ri) (ps_values s)))) as [c' v].
    destruct (full cap (length (skipn (ri_n ri) (ps_values s)))); intros H; inversion H; exact I.
  Qed.

  (* ---------- act ---------- *)
  (* the lines a final iteration can still write after the lexer part *)
  Definition plain_ev (s1 : pst) (e : event) : Prop :=
    e = EvLeaveConsume (ps_sp s1) \/ (exists nst, e = EvShift (ps_sp s1) nst (ps_it s1) (ps_end s1 - ps_it s1)) \/
    e = EvRR (ps_sp s1) \/ e = EvSuccess (ps_sp s1) \/ (exists nst, e = EvShiftErr (ps_sp s1) nst).

  Definition final_res_ok (s1 : pst) (r : result V) : Prop :=
    match r with
    | Accept v => exists rest, rev (ps_values s1) = v :: rest
    | OutOfFuel => False
    | _ => True
    end.

  Inductive act_spec (s1 : pst) (cursor t : nat) : (pst + result V * pst) * list event -> Prop :=
  | AsFinal r s' ev :
      s' = s1 \/ s' = clr s1 -> final_res_ok s1 r -> Forall (plain_ev s1) ev ->
      act_spec s1 cursor t (inr (r, s'), ev)
  | AsConsume :
      ps_cons s1 = true -> ps_term s1 <> Some (eof_idx g) ->
      act_spec s1 cursor t (inl (consumex s1), [EvConsuming (ps_sp s1) (term_or0 s1)])
  | AsEnter :
      ps_cons s1 = false -> ps_rec s1 = false ->
      act_spec s1 cursor t (inl (set_modes s1 true (ps_cons s1)),
                            [EvSyntaxError (ps_sp s1) (term_or0 s1); EvEnterRecovery (ps_sp s1)])
  | AsPop top cs :
      ps_cons s1 = false -> ps_rec s1 = true -> tl (ps_cursors s1) = top :: cs ->
      act_spec s1 cursor t (inl (set_stacks s1 (tl (ps_cursors s1)) (tl (ps_values s1))), [EvRecoveringTo (ps_sp s1) top])
  | AsPopFail :
      ps_cons s1 = false -> ps_rec s1 = true -> tl (ps_cursors s1) = [] ->
      act_spec s1 cursor t (inr (Reject, set_stacks s1 (tl (ps_cursors s1)) (tl (ps_values s1))), [EvCouldNotRecover (ps_sp s1)])
  | AsShift e nst :
      cell tbl cursor (nterm_count g + t) = inl e -> e_kind e = KShift -> ps_end s1 <= length buf ->
      act_spec s1 cursor t
        (inl (consumex (set_stacks (clr s1) (nst :: ps_cursors (clr s1))
                          (term_f t (ps_it (clr s1)) (ps_end (clr s1) - ps_it (clr s1)) (ps_sp (clr s1)) :: ps_values (clr s1)))),
         lc s1 ++ [EvShift (ps_sp (clr s1)) nst (ps_it (clr s1)) (ps_end (clr s1) - ps_it (clr s1))])
  | AsShiftErr nst :
      act_spec s1 cursor t
        (inl (set_modes (set_stacks (clr s1) (nst :: ps_cursors (clr s1)) (err_f (ps_sp (clr s1)) :: ps_values (clr s1))) false true),
         (lc s1 ++ [EvShiftErr (ps_sp (clr s1)) nst]) ++ [EvLeaveRecovery (ps_sp (clr s1)); EvEnterConsume (ps_sp (clr s1))])
  | AsReduce r s3 pre ev :
      reducex (clr s1) r = inl (s3, ev) -> pre = [] \/ pre = [EvRR (ps_sp (clr s1))] ->
      act_spec s1 cursor t (inl s3, lc s1 ++ pre ++ ev).

  Lemma plain_lc s1 : Forall (plain_ev s1) (lc s1).
  Proof. unfold lc. destruct (ps_cons s1); [apply Forall_cons; [left; reflexivity|apply Forall_nil]|apply Forall_nil]. Qed.

  Lemma act_spec_holds s1 cursor t : act_spec s1 cursor t (actx s1 cursor t).
  Proof.
    unfold act.
    destruct (cell tbl cursor (nterm_count g + t)) as [e|c] eqn:Hcell.
    2:{ apply AsFinal; [auto|exact I|constructor]. }
    fold (clr s1). fold (lc s1).
    assert (Hlc := plain_lc s1).
    assert (Hsh : forall nst, plain_ev s1 (EvShift (ps_sp (clr s1)) nst (ps_it (clr s1)) (ps_end (clr s1) - ps_it (clr s1)))).
    { intros nst. right; left. exists nst. now rewrite clr_sp, clr_it, clr_end. }
    assert (Hrr : plain_ev s1 (EvRR (ps_sp (clr s1)))) by (right; right; left; now rewrite clr_sp).
    assert (Hsu : plain_ev s1 (EvSuccess (ps_sp (clr s1)))) by (right; right; right; left; now rewrite clr_sp).
    assert (Hse : forall nst, plain_ev s1 (EvShiftErr (ps_sp (clr s1)) nst)).
    { intros nst. right; right; right; right. exists nst. now rewrite clr_sp. }
    destruct (e_kind e) eqn:Hk.
    - (* KError *)
      destruct (ps_cons s1) eqn:Hcons.
      + destruct (ps_term s1) as [x|] eqn:Hterm.
        * destruct (Nat.eqb x (eof_idx g)) eqn:Hx.
          -- apply AsFinal; [auto|exact I|constructor].
          -- apply AsConsume; [assumption|]. apply Nat.eqb_neq in Hx. congruence.
        * apply AsConsume; [assumption|congruence].
      + destruct (ps_rec s1) eqn:Hrec; cbn [negb].
        * unfold pop_stacks. destruct (tl (ps_cursors s1)) as [|top cs] eqn:Htl.
          -- rewrite <- Htl. apply AsPopFail; assumption.
          -- rewrite <- Htl. eapply AsPop; eassumption.
        * rewrite <- Hcons at 1. apply AsEnter; assumption.
    - (* KSuccess *)
      destruct (rev (ps_values (clr s1))) as [|v rest] eqn:Hrev.
      + apply AsFinal; [auto|exact I|]. apply Forall_app; split; [assumption|apply Forall_cons; [assumption|apply Forall_nil]].
      + apply AsFinal; [auto| |]. { cbn. rewrite clr_values in Hrev. eauto. }
        apply Forall_app; split; [assumption|apply Forall_cons; [assumption|apply Forall_nil]].
    - (* KShift *)
      destruct (e_arg e) as [nst|].
      2:{ apply AsFinal; [auto|exact I|assumption]. }
      destruct (full cap (length (ps_cursors (clr s1)))).
      { apply AsFinal; [auto|exact I|]. apply Forall_app; split; [assumption|apply Forall_cons; [auto|apply Forall_nil]]. }
      destruct (Nat.ltb (length buf) (ps_end (clr s1))) eqn:Hov.
      { apply AsFinal; [auto|exact I|]. apply Forall_app; split; [assumption|apply Forall_cons; [auto|apply Forall_nil]]. }
      apply Nat.ltb_ge in Hov. rewrite clr_end in Hov.
      eapply AsShift; eassumption.
    - (* KShiftErr *)
      destruct (e_arg e) as [nst|].
      2:{ apply AsFinal; [auto|exact I|assumption]. }
      destruct (full cap (length (ps_cursors (clr s1)))).
      { apply AsFinal; [auto|exact I|]. apply Forall_app; split; [assumption|apply Forall_cons; [auto|apply Forall_nil]]. }
      apply AsShiftErr.
    - (* KReduce *)
      destruct (e_arg e) as [r|].
      2:{ apply AsFinal; [auto|exact I|assumption]. }
      destruct (reducex (clr s1) r) as [[s3 ev]|res] eqn:Hred.
      + change (lc s1 ++ ev) with (lc s1 ++ [] ++ ev). eapply AsReduce; eauto.
      + apply AsFinal; [auto| |assumption]. apply do_reduce_inr in Hred. destruct res; cbn; tauto.
    - (* KRR *)
      destruct (e_arg e) as [r|].
      2:{ apply AsFinal; [auto|exact I|]. apply Forall_app; split; [assumption|apply Forall_cons; [auto|apply Forall_nil]]. }
      destruct (reducex (clr s1) r) as [[s3 ev]|res] eqn:Hred.
      + change (lc s1 ++ EvRR (ps_sp (clr s1)) :: ev) with (lc s1 ++ [EvRR (ps_sp (clr s1))] ++ ev). eapply AsReduce; eauto.
      + apply AsFinal; [auto| |]. { apply do_reduce_inr in Hred. destruct res; cbn; tauto. }
        apply Forall_app; split; [assumption|apply Forall_cons; [auto|apply Forall_nil]].
  Qed.

  (* ---------- step ---------- *)
  Lemma step_cases (P : (pst + result V * pst) * list event -> Prop) s :
    (ps_cursors s = [] -> P (inr (Crash CrEmptyStack, s), [])) ->
    (forall s1 ev1, gct_spec s (s1, None, ev1) -> P (inr (Reject, s1), ev1)) ->
    (forall cursor cs s1 t ev1 r ev2,
        ps_cursors s = cursor :: cs -> gct_spec s (s1, Some t, ev1) -> act_spec s1 cursor t (r, ev2) -> P (r, ev1 ++ ev2)) ->
    P (stepx s).
  Proof.
    intros H1 H2 H3. unfold step. destruct (ps_cursors s) as [|cursor cs] eqn:Hcs; [auto|].
    pose proof (gct_spec_holds s) as Hg. destruct (gctx s) as [[s1 ot] ev1].
    destruct ot as [t|]; [|auto].
    pose proof (act_spec_holds s1 cursor t) as Ha. destruct (actx s1 cursor t) as [r ev2].
    eapply H3; eauto.
  Qed.

  (* same, remembering that s1 is the state get_current_term returned *)
  Lemma step_cases_eq (P : (pst + result V * pst) * list event -> Prop) s :
    (ps_cursors s = [] -> P (inr (Crash CrEmptyStack, s), [])) ->
    (forall s1 ev1, gctx s = (s1, None, ev1) -> gct_spec s (s1, None, ev1) -> P (inr (Reject, s1), ev1)) ->
    (forall cursor cs s1 t ev1 r ev2,
        ps_cursors s = cursor :: cs -> gctx s = (s1, Some t, ev1) -> gct_spec s (s1, Some t, ev1) ->
        act_spec s1 cursor t (r, ev2) -> P (r, ev1 ++ ev2)) ->
    P (stepx s).
  Proof.
    intros H1 H2 H3. unfold step. destruct (ps_cursors s) as [|cursor cs] eqn:Hcs; [auto|].
    pose proof (gct_spec_holds s) as Hg. destruct (gctx s) as [[s1 ot] ev1] eqn:E.
    destruct ot as [t|]; [|auto].
    pose proof (act_spec_holds s1 cursor t) as Ha. destruct (actx s1 cursor t) as [r ev2].
    eapply H3; eauto.
  Qed.

  (* the term handed to [act] is the error token in recovery mode and the recorded term otherwise *)
  Lemma gct_term s s1 t ev : gct_spec s (s1, Some t, ev) ->
    (ps_rec s1 = true /\ t = err_idx g) \/ (ps_rec s1 = false /\ ps_term s1 = Some t).
  Proof. intros H; inversion H; subst; auto. Qed.

  Lemma gct_stacks s s1 ot ev : gct_spec s (s1, ot, ev) ->
    ps_cursors s1 = ps_cursors s /\ ps_values s1 = ps_values s /\ ps_ctx s1 = ps_ctx s /\
    ps_rec s1 = ps_rec s /\ ps_cons s1 = ps_cons s.
  Proof. intros H; inversion H; subst; cbn; auto. Qed.

  (* no validity is assumed of the table; the only property some theorems need *)
  Definition no_shift_col (col : nat) : Prop :=
    forall st e, cell tbl st (nterm_count g + col) = inl e -> e_kind e <> KShift.
  Definition eof_err_not_shifted : Prop := no_shift_col (eof_idx g) /\ no_shift_col (err_idx g).
End Basics.

Arguments clr {V C}. Arguments lc {V C}.

(* reduce projections of states built with the setters / clr *)
Ltac simp_ps :=
  unfold consume_term, set_pos, set_modes, set_stacks, set_ctx;
  cbn [ps_cursors ps_values ps_sp ps_it ps_end ps_term ps_rec ps_cons ps_ctx];
  rewrite ?clr_cursors, ?clr_values, ?clr_sp, ?clr_it, ?clr_end, ?clr_term, ?clr_rec, ?clr_ctx, ?clr_cons.
Ltac simp_ps_in H :=
  unfold consume_term, set_pos, set_modes, set_stacks, set_ctx in H;
  cbn [ps_cursors ps_values ps_sp ps_it ps_end ps_term ps_rec ps_cons ps_ctx] in H;
  rewrite ?clr_cursors, ?clr_values, ?clr_sp, ?clr_it, ?clr_end, ?clr_term, ?clr_rec, ?clr_ctx, ?clr_cons in H.

Arguments plain_ev {V C}. Arguments final_res_ok {V C}. Arguments plain_lc {V C}.
Arguments gct_term {V C g opts buf lexer s s1 t ev}.
Arguments gct_stacks {V C g opts buf lexer s s1 ot ev}.
Arguments do_reduce_inl {V C g tbl cap rule_f s r s3 ev}.

(* the table hypothesis is decidable: a checker to discharge it by computation on a concrete table *)
Definition no_shift_colb (tbl : table) (c : nat) : bool :=
  forallb (fun row => match nth_error row c with
                      | Some e => match e_kind e with KShift => false | _ => true end
                      | None => true
                      end) tbl.
Definition eof_err_not_shiftedb (g : grammar) (tbl : table) : bool :=
  no_shift_colb tbl (nterm_count g + eof_idx g) && no_shift_colb tbl (nterm_count g + err_idx g).

Lemma no_shift_colb_ok g tbl col : no_shift_colb tbl (nterm_count g + col) = true -> no_shift_col g tbl col.
Proof.
  intros H st e Hc Hk. unfold cell in Hc.
  destruct (nth_error tbl st) as [row|] eqn:Hr; [|discriminate].
  destruct (nth_error row (nterm_count g + col)) as [e'|] eqn:He; [|discriminate]. inversion Hc; subst e'.
  unfold no_shift_colb in H. rewrite forallb_forall in H. specialize (H row (nth_error_In _ _ Hr)).
  rewrite He, Hk in H. discriminate.
Qed.

Lemma eof_err_not_shiftedb_ok g tbl : eof_err_not_shiftedb g tbl = true -> eof_err_not_shifted g tbl.
Proof. unfold eof_err_not_shiftedb. intros H. apply andb_true_iff in H as [H1 H2]. split; apply no_shift_colb_ok; assumption. Qed.
