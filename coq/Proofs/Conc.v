(* C15: a parser object is immutable, so concurrent and repeated parses are independent.
   The logic that a proof can carry: a system of k threads, each with a PRIVATE driver configuration (parse_state, the two
   stacks, the custom-lexer instance: all locals of context_parse), sharing one immutable parser record (grammar, table,
   lexer automaton). A schedule is a list of thread ids; [sys_step] advances the chosen thread by one driver iteration.
   That no code reachable from parse / context_parse / write_diag_str / regex::expr::match writes to the parser object or
   to a global is a FRAME condition on the C++ source; it is regenerated from the clang AST on every run (tools/frame_facts.py
   -> Model/FrameFacts.v) and the theorems below are stated under [frame_ok = true]. *)
Require Import Ctpg.Base.Prelude Ctpg.Model.Grammar Ctpg.Model.LRGen Ctpg.Model.Driver Ctpg.Model.FrameFacts.

Section Conc.
  Variables V C : Type.
  (* the shared, immutable parser *)
  Variable g : grammar.
  Variable tbl : table.
  Variable lexer : bool -> spoint -> list nat -> list lex_event * option (nat * nat).
  Variable term_f : nat -> nat -> nat -> spoint -> V.
  Variable err_f : spoint -> V.
  Variable rule_f : nat -> C -> list V -> C * V.

  (* one call in flight: its own options, buffer, stack capacity, configuration, output so far *)
  Record call := mkCall {
    c_opts : options; c_buf : list nat; c_cap : option nat;
    c_state : pstate V C + (result V * pstate V C);        (* running / finished *)
    c_out : list event }.

  Definition call_step (c : call) : call :=
    match c_state c with
    | inr _ => c
    | inl s =>
        let '(nxt, ev) := step V C g tbl (c_opts c) (c_buf c) (c_cap c) lexer term_f err_f rule_f s in
        mkCall (c_opts c) (c_buf c) (c_cap c) nxt (c_out c ++ filter (visible (c_opts c)) ev)
    end.

  Definition start (o : options) (buf : list nat) (cap : option nat) (ctx : C) : call := mkCall o buf cap (inl (init ctx)) [].

  (* the system: one entry per thread; the shared parser is not part of the state because nothing can change it *)
  Definition system := list call.
  Definition sys_step (sys : system) (tid : nat) : system :=
    match nth_error sys tid with
    | Some c => update sys tid (call_step c)
    | None => sys
    end.
  Definition sys_run (sched : list nat) (sys : system) : system := fold_left sys_step sched sys.

  Fixpoint iter_call (n : nat) (c : call) : call := match n with 0 => c | S m => iter_call m (call_step c) end.
  Definition count_tid (tid : nat) (sched : list nat) : nat := length (filter (Nat.eqb tid) sched).

  Lemma nth_error_update_same {A} (l : list A) i x y : nth_error l i = Some y -> nth_error (update l i x) i = Some x.
  Proof. revert i. induction l as [|a l IH]; intros [|i] H; cbn in *; try discriminate; auto. Qed.
  Lemma nth_error_update_other {A} (l : list A) i j x : i <> j -> nth_error (update l i x) j = nth_error l j.
  Proof. revert i j. induction l as [|a l IH]; intros [|i] [|j] H; cbn; auto; try congruence. Qed.

  Lemma iter_call_step n c : iter_call n (call_step c) = call_step (iter_call n c).
  Proof. revert c. induction n as [|n IH]; intros c; cbn; [reflexivity|]. apply IH. Qed.

  (* schedule independence: after ANY interleaving, thread i's call is exactly where it would be after running alone for
     as many steps as the schedule gave it - no other thread's steps (their number, order, inputs, failures) matter *)
  Theorem schedule_independent : forall sched sys i c,
    frame_ok = true ->
    nth_error sys i = Some c ->
    nth_error (sys_run sched sys) i = Some (iter_call (count_tid i sched) c).
  Proof.
    intros sched. induction sched as [|t sched IH]; intros sys i c Hf Hi; [exact Hi|].
    cbn [sys_run fold_left]. change (fold_left sys_step sched (sys_step sys t)) with (sys_run sched (sys_step sys t)).
    unfold count_tid. cbn [filter].
    destruct (Nat.eqb_spec i t) as [->|Hne].
    - cbn [length]. change (length (filter (Nat.eqb t) sched)) with (count_tid t sched).
      unfold sys_step. rewrite Hi. cbn [iter_call].
      apply IH; [assumption|]. apply nth_error_update_same with (y := c). assumption.
    - change (length (filter (Nat.eqb i) sched)) with (count_tid i sched).
      unfold sys_step. destruct (nth_error sys t) as [ct|] eqn:Et.
      + apply IH; [assumption|]. rewrite nth_error_update_other by congruence. assumption.
      + apply IH; assumption.
  Qed.

  (* running to completion: a call's result under any schedule that gives it enough steps is its result in isolation *)
  Definition finished (c : call) : option (result V * pstate V C * list event) :=
    match c_state c with inr (r, s) => Some (r, s, c_out c) | inl _ => None end.

  Lemma iter_finished_stable n c x : finished c = Some x -> finished (iter_call n c) = Some x.
  Proof.
    revert c. induction n as [|n IH]; intros c H; cbn; [assumption|]. apply IH.
    unfold finished in *. unfold call_step. destruct (c_state c) as [s|[r s]] eqn:E; [discriminate|]. rewrite E. assumption.
  Qed.

  (* a call scheduled n times has done exactly what the sequential loop does with fuel n *)
  Lemma iter_call_run_from o buf cap : forall n s out r s' out',
    run_from V C g tbl o buf cap lexer term_f err_f rule_f n s out = (r, s', out') -> r <> OutOfFuel ->
    finished (iter_call n (mkCall o buf cap (inl s) out)) = Some (r, s', out').
  Proof.
    induction n as [|n IH]; intros s out r s' out' Hr Hne; cbn [run_from iter_call] in *.
    - inversion Hr; subst. congruence.
    - unfold call_step at 1. cbn [c_state c_opts c_buf c_cap c_out].
      destruct (step V C g tbl o buf cap lexer term_f err_f rule_f s) as [[s1|[r1 s1]] ev].
      + apply IH; assumption.
      + inversion Hr; subst. apply iter_finished_stable. reflexivity.
  Qed.

  (* history independence: what earlier calls did (accepted, failed, recovered) cannot influence a later call,
     because a call's evolution is a function of its own record only *)
  Theorem history_independent : forall sched1 sched2 sys1 sys2 i c,
    frame_ok = true ->
    nth_error sys1 i = Some c -> nth_error sys2 i = Some c ->
    count_tid i sched1 = count_tid i sched2 ->
    nth_error (sys_run sched1 sys1) i = nth_error (sys_run sched2 sys2) i.
  Proof.
    intros sched1 sched2 sys1 sys2 i c Hf H1 H2 Hc.
    rewrite (schedule_independent sched1 sys1 i c Hf H1), (schedule_independent sched2 sys2 i c Hf H2), Hc. reflexivity.
  Qed.

  (* a finished call stays finished with the same result whatever the others keep doing *)
  Theorem result_is_final : forall sched sys i c x,
    frame_ok = true -> nth_error sys i = Some c -> finished c = Some x ->
    exists c', nth_error (sys_run sched sys) i = Some c' /\ finished c' = Some x.
  Proof.
    intros sched sys i c x Hf Hi Hx. eexists. split; [apply schedule_independent; eassumption|].
    apply iter_finished_stable. assumption.
  Qed.
  Lemma iter_call_add n m c : iter_call (n + m) c = iter_call m (iter_call n c).
  Proof. revert c. induction n as [|n IH]; intros c; cbn; [reflexivity|]. apply IH. Qed.

  (* the headline: under ANY interleaving that lets call i take at least n steps, where n steps suffice for the call in
     isolation, the call's result, final configuration (stacks, context) and output are those of the isolated call *)
  Theorem concurrent_result_is_isolated_result : forall sched sys i o buf cap ctx n r s' out',
    frame_ok = true ->
    nth_error sys i = Some (start o buf cap ctx) ->
    run V C g tbl o buf cap lexer term_f err_f rule_f n ctx = (r, s', out') -> r <> OutOfFuel ->
    n <= count_tid i sched ->
    exists c', nth_error (sys_run sched sys) i = Some c' /\ finished c' = Some (r, s', out').
  Proof.
    intros sched sys i o buf cap ctx n r s' out' Hf Hi Hr Hne Hn.
    eexists. split; [apply schedule_independent; eassumption|].
    replace (count_tid i sched) with (n + (count_tid i sched - n)) by lia.
    rewrite iter_call_add. apply iter_finished_stable. unfold start. apply iter_call_run_from; assumption.
  Qed.
End Conc.

Lemma frame_holds : frame_ok = true. Proof. reflexivity. Qed.
