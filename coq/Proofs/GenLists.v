(* Generic list facts used by the generator proofs (Proofs/Gen*.v): update / nth / fold_left / seq / NoDup. *)
Require Import Ctpg.Base.Prelude Ctpg.Proofs.LRReflect.

(* ---------- update / nth ---------- *)

Lemma nth_update_eq {A} (l : list A) n x d : n < length l -> nth n (update l n x) d = x.
Proof.
  revert n; induction l as [|y l IH]; intros [|n] H; cbn in *; try lia; auto. apply IH; lia.
Qed.

Lemma nth_update_neq {A} (l : list A) n m x d : n <> m -> nth m (update l n x) d = nth m l d.
Proof.
  revert n m; induction l as [|y l IH]; intros [|n] [|m] H; cbn in *; try lia; auto.
Qed.

Lemma update_oob {A} (l : list A) n x : length l <= n -> update l n x = l.
Proof.
  revert n; induction l as [|y l IH]; intros [|n] H; cbn in *; try lia; auto. f_equal. apply IH; lia.
Qed.

Lemma update_nth_same {A} (l : list A) n d : update l n (nth n l d) = l.
Proof.
  revert n; induction l as [|y l IH]; intros [|n]; cbn; auto. f_equal. apply IH.
Qed.

Lemma nth_error_update_eq {A} (l : list A) n x : n < length l -> nth_error (update l n x) n = Some x.
Proof.
  revert n; induction l as [|y l IH]; intros [|n] H; cbn in *; try lia; auto. apply IH; lia.
Qed.

Lemma nth_error_update_neq {A} (l : list A) n m x : n <> m -> nth_error (update l n x) m = nth_error l m.
Proof.
  revert n m; induction l as [|y l IH]; intros [|n] [|m] H; cbn in *; try lia; auto.
Qed.

Lemma update_app_l {A} (l l' : list A) n x : n < length l -> update (l ++ l') n x = update l n x ++ l'.
Proof.
  revert n; induction l as [|y l IH]; intros [|n] H; cbn in *; try lia; auto. f_equal. apply IH; lia.
Qed.

Lemma update_app_r {A} (l l' : list A) n x : update (l ++ l') (length l + n) x = l ++ update l' n x.
Proof. induction l as [|y l IH]; cbn; auto. f_equal. apply IH. Qed.

Lemma nth_error_nth_d {A} (l : list A) n d x : nth_error l n = Some x -> nth n l d = x.
Proof. apply nth_error_nth. Qed.

Lemma nth_error_Some_lt {A} (l : list A) n x : nth_error l n = Some x -> n < length l.
Proof. intros H. apply nth_error_Some. congruence. Qed.

Lemma nth_error_app_l {A} (l l' : list A) n x : nth_error l n = Some x -> nth_error (l ++ l') n = Some x.
Proof. intros H. rewrite nth_error_app1; [assumption|]. eapply nth_error_Some_lt; eassumption. Qed.

Lemma nth_In_lt {A} (l : list A) n d : n < length l -> In (nth n l d) l.
Proof. apply nth_In. Qed.

Lemma In_nth_ex {A} (l : list A) x d : In x l -> exists n, n < length l /\ nth n l d = x.
Proof. apply In_nth. Qed.

Lemma in_update_inv {A} (l : list A) n x y : In y (update l n x) -> y = x \/ In y l.
Proof.
  revert n; induction l as [|z l IH]; intros [|n] H; cbn in *; try tauto.
  - destruct H; auto.
  - destruct H; auto. apply IH in H. tauto.
Qed.

Lemma firstn_all_le {A} (l : list A) n : length l <= n -> firstn n l = l.
Proof. apply firstn_all2. Qed.

(* ---------- list_sum and update ---------- *)

Lemma list_sum_update (l : list nat) n x : n < length l -> list_sum (update l n x) + nth n l 0 = list_sum l + x.
Proof.
  unfold list_sum. revert n; induction l as [|y l IH]; intros [|n] H; cbn in *; try lia.
  specialize (IH n ltac:(lia)). lia.
Qed.

Lemma map_update {A B} (f : A -> B) (l : list A) n x : map f (update l n x) = update (map f l) n (f x).
Proof. revert n; induction l as [|y l IH]; intros [|n]; cbn; auto. f_equal. apply IH. Qed.

Lemma list_sum_bound (l : list nat) b : Forall (fun x => x <= b) l -> list_sum l <= length l * b.
Proof. unfold list_sum. induction 1; cbn; lia. Qed.

(* ---------- pigeonhole ---------- *)

Lemma NoDup_bounded_length (l : list nat) n : NoDup l -> (forall x, In x l -> x < n) -> length l <= n.
Proof.
  intros Hnd Hb. rewrite <- (seq_length n 0). apply NoDup_incl_length; [assumption|].
  intros x Hx. apply in_seq. specialize (Hb x Hx). lia.
Qed.

Lemma NoDup_map_inj {A B} (f : A -> B) (l : list A) :
  (forall x y, In x l -> In y l -> f x = f y -> x = y) -> NoDup l -> NoDup (map f l).
Proof.
  intros Hinj Hnd. induction Hnd as [|x l Hx Hnd IH]; cbn; constructor.
  - intros Hin. apply in_map_iff in Hin. destruct Hin as (y & E & Hy).
    assert (y = x) by (apply Hinj; cbn; auto). subst. contradiction.
  - apply IH. intros a b Ha Hb. apply Hinj; cbn; auto.
Qed.

(* ---------- forallb / existsb ---------- *)

Lemma forallb_false_ex {A} (f : A -> bool) l : forallb f l = false -> exists x, In x l /\ f x = false.
Proof.
  induction l as [|y l IH]; cbn; [discriminate|]. intros H. apply andb_false_iff in H. destruct H as [H|H].
  - exists y; auto.
  - destruct (IH H) as (x & Hx & Hf). exists x; auto.
Qed.

Lemma existsb_false_all {A} (f : A -> bool) l : existsb f l = false -> forall x, In x l -> f x = false.
Proof.
  induction l as [|y l IH]; cbn; [tauto|]. intros H x Hx. apply orb_false_iff in H. destruct H as [H1 H2].
  destruct Hx; [subst; assumption|]. apply IH; assumption.
Qed.

(* ---------- filter ---------- *)

Lemma filter_nil_all {A} (f : A -> bool) l : filter f l = [] -> forall x, In x l -> f x = false.
Proof.
  intros H x Hx. destruct (f x) eqn:E; [|reflexivity].
  assert (In x (filter f l)) by (apply filter_In; auto). rewrite H in *. contradiction.
Qed.

Lemma nth_repeat_lt {A} (a d : A) m n : n < m -> nth n (repeat a m) d = a.
Proof. revert n; induction m as [|m IH]; intros [|n] H; cbn; try lia; auto. apply IH. lia. Qed.
