(* Termination with ERROR RECOVERY, part 1: the table walk between two shifts, from an ARBITRARY stack.
   The error symbol is an ordinary terminal of the grammar (its index is err_idx g; rules may mention it; the
   generator writes its shift as KShiftErr into the column of the error symbol).  The machine of this file
   therefore knows two kinds of moves on a configuration (state stack, tree stack, remaining input):
     mred    a reduction under the lookahead [look rest]  (the remaining input is kept);
     mshift  the shift of [look rest]: a KShift cell if it is not the error symbol, a KShiftErr cell if it is
             (the driver pushes the error token without consuming input: recovery is modelled by putting the
             error symbol in front of the remaining input);
     msucc   the cell under the lookahead is the accept cell.
   Invariant [MInv]: the state stack is a path of justified shift/goto cells ([stk_ok] of Proofs/LRSound.v) and the
   tree stack has the matching height.  It is closed under mred, mshift and under POPPING states (recovery).
   Main theorem [finish]: from every configuration that satisfies MInv, if the cell of the top state under the
   lookahead a is not an error cell, then after finitely many reductions the machine shifts a (or stands on the
   accept cell).  No reachability from the initial configuration is needed: every item of a state on the stack has a
   CHAIN of items below it (kernel item -> its predecessor in the state below; closure item -> the item of the same
   state that generated it, with the lookahead in FIRST(beta t)) down to the root item of state 0, and the machine
   is complete along such a chain (same induction as parses_all of Proofs/LRComplete.v, for trees with EMPTY yield,
   plus the descent to the first leaf of a tree as in Proofs/TermPrefix.v). *)
Require Import Ctpg.Base.Prelude Ctpg.Model.Grammar Ctpg.Model.LRGen Ctpg.Model.Driver
               Ctpg.Spec.Cfg Ctpg.Spec.LRSpec Ctpg.Valid.LRValid Ctpg.Valid.LRProductive
               Ctpg.Proofs.LRReflect Ctpg.Proofs.LRMachine Ctpg.Proofs.LRValidFacts Ctpg.Proofs.LRSound
               Ctpg.Proofs.LRComplete Ctpg.Proofs.ReportLang Ctpg.Proofs.ReportViable Ctpg.Proofs.TermFirst
               Ctpg.Proofs.TermViable Ctpg.Proofs.TermPrefix.

(* ================================================================================================= *)
(* the moves                                                                                         *)
(* ================================================================================================= *)
Section Moves.
  Variable g : grammar.
  Variable tbl : table.

  Definition mred (c : cfg) : option cfg :=
    let '(ss, trs, rest) := c in
    match ss with
    | [] => None
    | cur :: _ =>
        match cell tbl cur (nterm_count g + look g rest) with
        | inr _ => None
        | inl e =>
            match e_kind e with
            | KReduce => match e_arg e with
                         | Some r => match mreduce g tbl ss trs rest r with Next c' => Some c' | _ => None end
                         | None => None
                         end
            | _ => None
            end
        end
    end.

  Definition mshift (c : cfg) : option cfg :=
    let '(ss, trs, rest) := c in
    match ss with
    | [] => None
    | cur :: _ =>
        match cell tbl cur (nterm_count g + look g rest) with
        | inr _ => None
        | inl e =>
            match e_arg e with
            | None => None
            | Some nst =>
                match e_kind e with
                | KShift => if Nat.eqb (look g rest) (err_idx g) then None
                            else Some (nst :: ss, Leaf (look g rest) :: trs, tl rest)
                | KShiftErr => if Nat.eqb (look g rest) (err_idx g)
                               then Some (nst :: ss, Leaf (look g rest) :: trs, tl rest) else None
                | _ => None
                end
            end
        end
    end.

  (* the top state's cell under the lookahead is the accept cell *)
  Definition msucc (c : cfg) : Prop :=
    let '(ss, _, rest) := c in
    exists cur ss' e, ss = cur :: ss' /\ cell tbl cur (nterm_count g + look g rest) = inl e /\ e_kind e = KSuccess.

  (* n reductions *)
  Fixpoint rsteps (n : nat) (c c' : cfg) : Prop :=
    match n with
    | 0 => c = c'
    | S n' => exists c1, mred c = Some c1 /\ rsteps n' c1 c'
    end.

  Lemma rsteps_trans n m c1 c2 c3 : rsteps n c1 c2 -> rsteps m c2 c3 -> rsteps (n + m) c1 c3.
  Proof.
    revert c1; induction n as [|n IH]; intros c1 H1 H2; cbn in *.
    - subst; assumption.
    - destruct H1 as (c & Hs & H1). exists c. split; [assumption|]. apply IH; assumption.
  Qed.

  Lemma rsteps_one c c' : mred c = Some c' -> rsteps 1 c c'.
  Proof. intros H. cbn. exists c'. auto. Qed.

  Lemma mreduce_rest ss trs rest r c' : mreduce g tbl ss trs rest r = Next c' -> snd c' = rest.
  Proof.
    unfold mreduce. destruct (nth_error (rule_infos g) r) as [ri|]; [|discriminate].
    destruct (Nat.ltb (length ss) (ri_n ri)); [discriminate|].
    destruct (skipn (ri_n ri) ss) as [|top rest']; [discriminate|].
    destruct (cell tbl top (ri_l ri)) as [e'|]; [|discriminate].
    destruct (e_arg e'); [|discriminate].
    destruct (Nat.ltb (length trs) (ri_n ri)); [discriminate|]. intros H; inversion H; reflexivity.
  Qed.

  Lemma mred_rest c c' : mred c = Some c' -> snd c' = snd c.
  Proof.
    destruct c as [[ss trs] rest]. unfold mred. destruct ss as [|cur ss']; [discriminate|].
    destruct (cell tbl cur (nterm_count g + look g rest)) as [e|]; [|discriminate].
    destruct (e_kind e); try discriminate. destruct (e_arg e) as [r|]; [|discriminate].
    destruct (mreduce g tbl (cur :: ss') trs rest r) as [c1| | |] eqn:Em; try discriminate.
    intros H; inversion H; subst. cbn [snd]. eapply mreduce_rest; eassumption.
  Qed.

  Lemma rsteps_rest n : forall c c', rsteps n c c' -> snd c' = snd c.
  Proof.
    induction n as [|n IH]; intros c c' H; cbn in H.
    - subst; reflexivity.
    - destruct H as (c1 & Hs & H). rewrite (IH _ _ H). apply mred_rest; assumption.
  Qed.

  Lemma mshift_rest c c' : mshift c = Some c' -> snd c' = tl (snd c).
  Proof.
    destruct c as [[ss trs] rest]. unfold mshift. destruct ss as [|cur ss']; [discriminate|].
    destruct (cell tbl cur (nterm_count g + look g rest)) as [e|]; [|discriminate].
    destruct (e_arg e) as [nst|]; [|discriminate].
    destruct (e_kind e); try discriminate; destruct (Nat.eqb (look g rest) (err_idx g)); try discriminate;
      intros H; inversion H; reflexivity.
  Qed.

  (* the reduction the machine makes when everything is in place *)
  Lemma mreduce_ok ss trs rest r ri top stk nst e :
    nth_error (rule_infos g) r = Some ri -> skipn (ri_n ri) ss = top :: stk ->
    cell tbl top (ri_l ri) = inl e -> e_arg e = Some nst -> ri_n ri <= length trs ->
    mreduce g tbl ss trs rest r =
      Next (nst :: top :: stk, Node (ri_r ri) (rev (firstn (ri_n ri) trs)) :: skipn (ri_n ri) trs, rest).
  Proof.
    intros Hri Hsk Hc Ha Hlen. unfold mreduce. rewrite Hri.
    assert (ri_n ri < length ss) as Hlt by (eapply skipn_cons_lt; eassumption).
    replace (Nat.ltb (length ss) (ri_n ri)) with false by (symmetry; apply Nat.ltb_ge; lia).
    rewrite Hsk, Hc, Ha.
    replace (Nat.ltb (length trs) (ri_n ri)) with false by (symmetry; apply Nat.ltb_ge; lia).
    reflexivity.
  Qed.

  (* the outcome of the table walk from c: finitely many reductions, then the shift of the lookahead or the
     accept cell *)
  Definition fin (c : cfg) : Prop :=
    exists n c1, rsteps n c c1 /\ ((exists c2, mshift c1 = Some c2 /\ snd c1 <> []) \/ msucc c1).

  Lemma fin_rsteps n c c' : rsteps n c c' -> fin c' -> fin c.
  Proof.
    intros H (m & c1 & H1 & Hend). exists (n + m), c1. split; [eapply rsteps_trans; eassumption|exact Hend].
  Qed.
End Moves.

(* ================================================================================================= *)
(* the stack invariant                                                                               *)
(* ================================================================================================= *)
Section StackInv.
  Variable g : grammar.
  Variable sts : list items.
  Variable tbl : table.
  Hypothesis SF : sound_facts g sts tbl.

  Notation items_of := (state_items sts).
  Notation tc := (term_count g).

  Definition MInv (ss : list nat) (trs : list tree) : Prop :=
    exists syms, stk_ok g sts ss syms /\ length trs = length syms.

  Lemma MInv_init : MInv [0] [].
  Proof. exists []. split; [constructor|reflexivity]. Qed.

  Lemma MInv_nonempty ss trs : MInv ss trs -> exists cur ss', ss = cur :: ss' /\ cur < length sts.
  Proof.
    intros (syms & Hst & _). destruct ss as [|cur ss']; [inversion Hst|].
    exists cur, ss'. split; [reflexivity|]. eapply stk_top_lt; eassumption.
  Qed.

  Lemma MInv_len ss trs : MInv ss trs -> length ss = S (length trs).
  Proof. intros (syms & Hst & Hl). rewrite Hl. eapply stk_len; eassumption. Qed.

  Lemma MInv_all_lt ss trs : MInv ss trs -> Forall (fun s => s < length sts) ss.
  Proof. intros (syms & Hst & _). eapply stk_all_lt; eassumption. Qed.

  (* popping a state (recovery) keeps the invariant: it is prefix-closed *)
  Lemma MInv_pop s s' ss trs : MInv (s :: s' :: ss) trs -> MInv (s' :: ss) (tl trs).
  Proof.
    intros (syms & Hst & Hl). inversion Hst as [|s1 ss1 syms1 s2 X H1 Hlt Hnz Hj]; subst.
    exists syms1. split; [assumption|]. destruct trs; cbn in *; [discriminate|lia].
  Qed.

  Lemma goto_just top c nst : top < length sts -> c < nterm_count g ->
    e_arg (cell_at tbl top c) = Some nst -> shift_just g sts top c nst.
  Proof.
    intros Htop Hc Ea.
    assert (c < symbol_count g) as Hlc by (unfold symbol_count; lia).
    pose proof (sf_cell _ _ _ SF top _ Htop Hlc) as Hcj.
    destruct (e_kind (cell_at tbl top c)) eqn:Ek.
    - rewrite (cj_error _ _ _ _ _ Hcj Ek Hc) in Ea. discriminate.
    - destruct (cj_success _ _ _ _ _ Hcj Ek) as [Hc' _]. unfold col_of_term in Hc'. lia.
    - destruct (cj_shift _ _ _ _ _ Hcj (or_introl Ek)) as (s' & Ha' & Hsj & _). congruence.
    - destruct (cj_shift _ _ _ _ _ Hcj (or_intror Ek)) as (s' & Ha' & Hsj & _). congruence.
    - destruct (cj_reduce _ _ _ _ _ Hcj Ek) as (? & _ & _ & _ & Hc' & _). lia.
    - destruct (cj_rr _ _ _ _ _ Hcj Ek).
  Qed.

  Lemma MInv_mred ss trs rest ss' trs' rest' : MInv ss trs -> look g rest < tc ->
    mred g tbl (ss, trs, rest) = Some (ss', trs', rest') -> MInv ss' trs'.
  Proof.
    intros (syms & Hst & Hl) Hla. unfold mred.
    destruct ss as [|cur ss0]; [discriminate|].
    pose proof (stk_top_lt g sts tbl SF _ _ _ Hst) as Hcur.
    destruct (cell tbl cur (nterm_count g + look g rest)) as [e|c] eqn:Ec; [|discriminate].
    pose proof (cell_cell_at _ _ _ _ Ec) as Ee.
    pose proof (sf_cell _ _ _ SF cur _ Hcur (col_lt g _ Hla)) as Hcj.
    destruct (e_kind e) eqn:Ek; try discriminate.
    destruct (e_arg e) as [r|] eqn:Ea; [|discriminate]. rewrite Ee in Ek, Ea.
    destruct (cj_reduce _ _ _ _ _ Hcj Ek) as (r' & Ha' & Hrlt & Hrnr & _ & i & Hi & Hir & Hic).
    assert (r' = r) as Er by congruence. rewrite Er in Hrlt, Hrnr, Hir. clear Er Ha' r'.
    unfold mreduce. rewrite (nth_error_get_ri _ _ _ SF r Hrlt).
    set (ri := get_ri g r). set (n := ri_n ri).
    destruct (Nat.ltb (length (cur :: ss0)) n); [discriminate|].
    destruct (sf_item _ _ _ SF cur i Hcur Hi) as (_ & Hdle & _).
    unfold is_complete in Hic. apply Nat.leb_le in Hic. rewrite Hir in Hdle, Hic. fold ri in Hdle, Hic. fold n in Hdle, Hic.
    assert (it_d i = n) as Hd by lia.
    destruct (stk_item g sts tbl SF n _ _ _ i Hst Hi Hd) as (Hnle & _ & _).
    destruct (sf_ri _ _ _ SF r Hrlt) as (Hrr & Hrl & Hrn). fold ri in Hrr, Hrl, Hrn. fold n in Hrn.
    pose proof (stk_skip g sts _ _ n Hst Hnle) as Hst'.
    destruct (skipn n (cur :: ss0)) as [|top ss1] eqn:Esk; [discriminate|].
    pose proof (stk_top_lt g sts tbl SF _ _ _ Hst') as Htop.
    destruct (cell tbl top (ri_l ri)) as [e'|] eqn:Ec'; [|discriminate].
    pose proof (cell_cell_at _ _ _ _ Ec') as Ee'.
    destruct (e_arg e') as [nst|] eqn:Ea'; [|discriminate].
    destruct (Nat.ltb (length trs) n) eqn:Eltb; [discriminate|]. apply Nat.ltb_ge in Eltb.
    intros Hn; inversion Hn; subst ss' trs' rest'; clear Hn.
    rewrite Ee' in Ea'.
    pose proof (goto_just top (ri_l ri) nst Htop Hrl Ea') as Hsj.
    exists (NT (ri_l ri) :: skipn n syms). split.
    - apply (push_ok g sts tbl SF); [assumption|cbn; apply Nat.ltb_lt; assumption|exact Hsj].
    - cbn [length]. rewrite !skipn_length. lia.
  Qed.

  Lemma MInv_rsteps n : forall ss trs rest ss' trs' rest', MInv ss trs -> look g rest < tc ->
    rsteps g tbl n (ss, trs, rest) (ss', trs', rest') -> MInv ss' trs'.
  Proof.
    induction n as [|n IH]; intros ss trs rest ss' trs' rest' Hi Hla H; cbn [rsteps] in H.
    - inversion H; subst. assumption.
    - destruct H as ([[ss1 trs1] rest1] & Hs & H).
      pose proof (mred_rest g tbl _ _ Hs) as Er. cbn [snd] in Er. subst rest1.
      eapply IH; [eapply MInv_mred; eassumption|exact Hla|exact H].
  Qed.

  Lemma MInv_mshift ss trs rest ss' trs' rest' : MInv ss trs -> look g rest < tc ->
    mshift g tbl (ss, trs, rest) = Some (ss', trs', rest') -> MInv ss' trs'.
  Proof.
    intros (syms & Hst & Hl) Hla. unfold mshift.
    destruct ss as [|cur ss0]; [discriminate|].
    pose proof (stk_top_lt g sts tbl SF _ _ _ Hst) as Hcur.
    destruct (cell tbl cur (nterm_count g + look g rest)) as [e|c] eqn:Ec; [|discriminate].
    pose proof (cell_cell_at _ _ _ _ Ec) as Ee.
    pose proof (sf_cell _ _ _ SF cur _ Hcur (col_lt g _ Hla)) as Hcj.
    destruct (e_arg e) as [nst|] eqn:Ea; [|discriminate].
    assert (HX : sym_ok g (T (look g rest)) = true) by (cbn; apply Nat.ltb_lt; assumption).
    assert (Hpush : e_kind e = KShift \/ e_kind e = KShiftErr ->
                    MInv (nst :: cur :: ss0) (Leaf (look g rest) :: trs)).
    { intros Hk. rewrite Ee in Hk, Ea. destruct (cj_shift _ _ _ _ _ Hcj Hk) as (s' & Ha' & Hsj & _).
      assert (s' = nst) as Es by congruence. rewrite Es in Hsj.
      exists (T (look g rest) :: syms). split; [|cbn; lia].
      apply (push_ok g sts tbl SF); assumption. }
    destruct (e_kind e) eqn:Ek; try discriminate; destruct (Nat.eqb (look g rest) (err_idx g)); try discriminate;
      intros Hn; inversion Hn; subst; apply Hpush; auto.
  Qed.
End StackInv.

(* ================================================================================================= *)
(* completeness along the stack                                                                      *)
(* ================================================================================================= *)
Lemma first_split {A B} (f : A -> list B) l : forall a q, flat_map f l = a :: q ->
  exists l1 x l2 q2, l = l1 ++ x :: l2 /\ flat_map f l1 = [] /\ f x = a :: q2 /\ q = q2 ++ flat_map f l2.
Proof.
  induction l as [|y l IH]; intros a q H; cbn in H; [discriminate|].
  destruct (f y) as [|b u] eqn:Ey.
  - cbn in H. destruct (IH _ _ H) as (l1 & x & l2 & q2 & -> & H1 & H2 & H3).
    exists (y :: l1), x, l2, q2. cbn. rewrite Ey, H1. auto.
  - cbn in H. inversion H; subst. exists [], y, l, u. cbn. auto.
Qed.

Lemma skipn_split {A} k (l l' : list A) : skipn k l = l' -> k <= length l -> exists p, l = p ++ l' /\ length p = k.
Proof.
  intros H Hk. exists (firstn k l). split; [rewrite <- H; symmetry; apply firstn_skipn|].
  apply firstn_length_le. assumption.
Qed.

Section CompleteE.
  Variable g : grammar.
  Variable sts : list items.
  Variable tbl : table.
  Hypothesis Hval : validate g sts tbl = true.
  Hypothesis Hgen : lookahead_generated g sts.
  Hypothesis Hnonempty : states_nonempty sts.
  Hypothesis Hred : reduce_lookahead g sts tbl.
  Hypothesis Hprod : productive g.

  Notation ne := (nterm_empty g).
  Notation nf := (nterm_first g (nterm_empty g)).
  Let CF : complete_facts g sts tbl ne nf := complete_facts_of _ _ _ _ _ Hval.
  Let SF : sound_facts g sts tbl := cf_sound _ _ _ _ _ CF.

  Notation items_of := (state_items sts).
  Notation tc := (term_count g).
  Notation yields := (flat_map yield).
  Notation lt_tc := (fun a => a < term_count g).
  Notation lhs := (lhs_of g).
  Notation rstepsx := (rsteps g tbl).
  Notation mredx := (mred g tbl).
  Notation mshiftx := (mshift g tbl).

  (* ---------- shift cells ---------- *)
  Lemma goto_T_e s a s' : goto_target g tbl s (T a) = Some s' ->
    e_arg (cell_at tbl s (nterm_count g + a)) = Some s' /\
    e_kind (cell_at tbl s (nterm_count g + a)) = (if Nat.eqb a (err_idx g) then KShiftErr else KShift).
  Proof.
    unfold goto_target. cbn [sym_col]. intros H.
    destruct (e_kind (cell_at tbl s (nterm_count g + a))); try discriminate;
      destruct (Nat.eqb a (err_idx g)); try discriminate; auto.
  Qed.

  Lemma mshift_goto s ss trs a v s' : s < length sts -> a < tc ->
    goto_target g tbl s (T a) = Some s' ->
    mshiftx (s :: ss, trs, a :: v) = Some (s' :: s :: ss, Leaf a :: trs, v).
  Proof.
    intros Hs Ha Hg. destruct (goto_T_e _ _ _ Hg) as [Harg Hk]. unfold mshift. cbn [look hd tl].
    rewrite (cell_in_range _ _ _ SF s (nterm_count g + a) Hs); [|unfold symbol_count; lia].
    rewrite Harg, Hk. destruct (Nat.eqb a (err_idx g)); reflexivity.
  Qed.

  (* ---------- trees with empty yield ---------- *)
  Definition nparses (tau : tree) : Prop :=
    forall X s ss trs i rest,
      valid_tree g X tau -> yield tau = [] ->
      s < length sts -> In i (items_of s) -> next_sym g i = Some X ->
      look g rest < tc ->
      bset_test (first_tail g ne nf (skipn (S (it_d i)) (rhs_of g i)) (it_t i)) (look g rest) = true ->
      exists n s', rstepsx n (s :: ss, trs, rest) (s' :: s :: ss, tau :: trs, rest) /\
                   s' < length sts /\ In (mkItem (it_r i) (S (it_d i)) (it_t i)) (items_of s').

  (* a prefix chs (all with empty yield) of the children still to come for item [r, d, la] *)
  Lemma nparse_children_gen r la rest_trees rest :
    la < tc -> Forall lt_tc (yields rest_trees) -> look g rest < tc ->
    look g rest = look g (yields rest_trees ++ [la]) ->
    forall chs, Forall nparses chs -> yields chs = [] ->
    forall d s ss trs,
      Forall2 (valid_tree g) (skipn d (get_rhs g (ri_r (get_ri g r)))) (chs ++ rest_trees) ->
      s < length sts -> In (mkItem r d la) (items_of s) ->
      exists n sf stk, rstepsx n (s :: ss, trs, rest) (sf :: stk, rev chs ++ trs, rest) /\
                       skipn (length chs) (sf :: stk) = s :: ss /\
                       sf < length sts /\ In (mkItem r (d + length chs) la) (items_of sf).
  Proof.
    intros Hlt Hrt Hlr Hlook. induction 1 as [|c chs Hc _ IH]; intros Hy d s ss trs Hval' Hs Hi.
    - exists 0, s, ss. cbn. rewrite Nat.add_0_r. auto.
    - cbn [app] in Hval'. apply Forall2_cons_r_inv in Hval'. destruct Hval' as (x & rest0 & Esk & Hx & Hrest).
      apply skipn_cons_nth_error in Esk. destruct Esk as [Hnth Esk]. subst rest0.
      cbn [flat_map] in Hy. apply app_eq_nil in Hy. destruct Hy as [Hy1 Hy2].
      assert (next_sym g (mkItem r d la) = Some x) as Hnx by exact Hnth.
      assert (bset_test (first_tail g ne nf (skipn (S (it_d (mkItem r d la))) (rhs_of g (mkItem r d la)))
                                    (it_t (mkItem r d la))) (look g rest) = true) as Hft.
      { cbn [it_d it_t]. unfold rhs_of; cbn [it_r]. rewrite Hlook.
        replace (yields rest_trees) with (yields (chs ++ rest_trees)) by (rewrite flat_map_app, Hy2; reflexivity).
        apply (first_tail_sound g sts tbl ne nf CF); try assumption; [|reflexivity].
        rewrite flat_map_app, Hy2. exact Hrt. }
      destruct (Hc x s ss trs (mkItem r d la) rest Hx Hy1 Hs Hi Hnx Hlr Hft) as (n1 & s1 & Hm1 & Hs1 & Hi1).
      cbn [it_r it_d it_t] in Hi1.
      destruct (IH Hy2 (S d) s1 (s :: ss) (c :: trs) Hrest Hs1 Hi1) as (n2 & sf & stk & Hm2 & Hsk & Hsf & Hif).
      exists (n1 + n2), sf, stk. split; [|split; [|split]].
      + cbn [rev]. rewrite <- !app_assoc. cbn [app]. eapply rsteps_trans; eassumption.
      + cbn [length]. apply skipn_cons_nth_error in Hsk. destruct Hsk as [_ Hsk]. exact Hsk.
      + assumption.
      + cbn [length]. rewrite Nat.add_succ_r. exact Hif.
  Qed.

  Lemma slice_item s i l i' : s < length sts -> In i (items_of s) -> next_sym g i = Some (NT l) ->
    i' < rule_count g -> ri_l (get_ri g i') = l -> forall t', t' < tc ->
    bset_test (first_tail g ne nf (skipn (S (it_d i)) (rhs_of g i)) (it_t i)) t' = true ->
    In (mkItem i' 0 t') (items_of s).
  Proof.
    intros Hs Hi Hnx Hi' Hl t' Ht' Hft.
    pose proof (next_sym_incomplete _ _ _ SF s i _ Hs Hi Hnx) as Hic.
    destruct (sf_ri _ _ _ SF i' Hi') as (_ & Hllt & _). rewrite Hl in Hllt.
    destruct (proj1 (sf_slice _ _ _ SF l i' Hllt Hi')) as [Hlo Hhi]; [assumption|].
    replace i' with (fst (nth l (slices g) (0, 0)) + (i' - fst (nth l (slices g) (0, 0)))) by lia.
    apply (cf_closure _ _ _ _ _ CF s i l Hs Hi Hnx Hic); [lia|assumption|assumption].
  Qed.

  (* the reduction of a completed item [i', n, la] that was entered from item i of state s *)
  Lemma reduce_step s ss i i' ri l es tes trs rest top stk :
    s < length sts -> In i (items_of s) -> next_sym g i = Some (NT l) ->
    nth_error (rule_infos g) i' = Some ri -> ri_l ri = l ->
    length es = ri_n ri -> length tes = ri_n ri ->
    es ++ s :: ss = top :: stk -> top < length sts ->
    In (mkItem i' (ri_n ri) (look g rest)) (items_of top) -> look g rest < tc ->
    exists s', mredx (es ++ s :: ss, tes ++ trs, rest) = Some (s' :: s :: ss, Node (ri_r ri) (rev tes) :: trs, rest) /\
               s' < length sts /\ In (mkItem (it_r i) (S (it_d i)) (it_t i)) (items_of s').
  Proof.
    intros Hs Hi Hnx Hi' Hl Hes Htes Etop Htop Hcomp Hla.
    destruct (get_ri_nth_error _ _ _ SF _ _ Hi') as [Eri Hi'lt].
    destruct (sf_ri _ _ _ SF i' Hi'lt) as (_ & Hllt & Hn). rewrite Eri in Hllt, Hn. rewrite Hl in Hllt.
    pose proof (next_sym_incomplete _ _ _ SF s i _ Hs Hi Hnx) as Hic.
    assert (i' <> root_rule_idx g) as Hnr.
    { intros E. assert (l = fake_root_idx g) as El.
      { rewrite <- Hl, <- Eri, E. apply (sf_root_l _ _ _ SF). }
      unfold next_sym in Hnx. destruct (item_next_sym_ok _ _ _ SF s i _ _ Hs Hi Hnx) as (_ & Hne' & _).
      apply Hne'. rewrite El. reflexivity. }
    assert (is_complete g (mkItem i' (ri_n ri) (look g rest)) = true) as Hc.
    { unfold is_complete; cbn [it_r it_d]. rewrite Eri. apply Nat.leb_refl. }
    destruct (cf_reduce _ _ _ _ _ CF top _ Htop Hcomp Hc) as [_ Hredc]. cbn [it_r it_t] in Hredc.
    destruct (Hredc Hnr) as [Hk Harg].
    destruct (cf_goto _ _ _ _ _ CF s i Hs Hi Hic) as (x & s' & Hnx' & Hg & Hs' & Hia).
    rewrite Hnx in Hnx'. inversion Hnx'; subst x. apply (goto_NT g tbl) in Hg.
    exists s'. split; [|split; assumption].
    unfold mred. rewrite Etop.
    rewrite (cell_in_range _ _ _ SF top (nterm_count g + look g rest) Htop); [|unfold symbol_count; lia].
    rewrite Hk, Harg. rewrite <- Etop.
    rewrite (mreduce_ok g tbl (es ++ s :: ss) (tes ++ trs) rest i' ri s ss s' (cell_at tbl s l)); try assumption.
    - rewrite <- Htes, firstn_app_exact, skipn_app_exact. reflexivity.
    - rewrite <- Hes. apply skipn_app_exact.
    - rewrite Hl. apply (cell_in_range _ _ _ SF s l Hs). unfold symbol_count. lia.
    - rewrite app_length. lia.
  Qed.

  Lemma nparses_all tau : nparses tau.
  Proof.
    induction tau as [a|r ch IH] using tree_ind'; intros X s ss trs i rest Hval' Hy Hs Hi Hnx Hla Hft.
    - cbn in Hy. discriminate.
    - inversion Hval' as [|r' l rhs ch' Hrule Hch]; subst. cbn [yield] in *.
      destruct Hrule as (i' & ri & Hi' & Hr & Hl & Hrhs).
      destruct (get_ri_nth_error _ _ _ SF _ _ Hi') as [Eri Hi'lt].
      assert (get_rhs g (ri_r ri) = rhs) as Erhs by (rewrite Hr; apply nth_error_nth; assumption).
      destruct (sf_ri _ _ _ SF i' Hi'lt) as (_ & _ & Hn). rewrite Eri in Hn.
      assert (In (mkItem i' 0 (look g rest)) (items_of s)) as Hi0.
      { eapply slice_item; try eassumption. rewrite Eri. exact Hl. }
      destruct (nparse_children_gen i' (look g rest) [] rest Hla ltac:(constructor) Hla eq_refl ch IH Hy 0 s ss trs)
        as (n & sf & stk & Hm & Hsk & Hsf & Hif); try assumption.
      { rewrite Eri, Erhs, app_nil_r. cbn [skipn]. assumption. }
      cbn [Nat.add] in Hif.
      assert (length ch = ri_n ri) as Hlen.
      { rewrite Hn, Erhs. symmetry. eapply Forall2_length'. eassumption. }
      pose proof (skipn_cons_lt _ _ _ _ Hsk) as Hlt1.
      destruct (skipn_split _ _ _ Hsk ltac:(lia)) as (es & Ees & Hes).
      destruct (reduce_step s ss i i' ri l es (rev ch) trs rest sf stk) as (s' & Hmr & Hs' & Hi'');
        try assumption; try congruence.
      { rewrite rev_length. exact Hlen. }
      exists (n + 1), s'. split; [|split; assumption].
      eapply rsteps_trans; [exact Hm|]. apply rsteps_one. rewrite Ees. rewrite Hmr.
      rewrite rev_involutive, Hr. reflexivity.
  Qed.

  Lemma Forall_nparses l : Forall nparses l.
  Proof. apply Forall_forall. intros t _. apply nparses_all. Qed.

  (* ---------- down to the first leaf of a tree, which is then shifted ---------- *)
  Definition shifts_first (s : nat) (ss : list nat) (trs : list tree) (a : nat) (v : list nat) : Prop :=
    exists n c1 c2, rstepsx n (s :: ss, trs, a :: v) c1 /\ mshiftx c1 = Some c2 /\ snd c2 = v.

  Definition fparses (tau : tree) : Prop :=
    forall X s ss trs i a q v,
      valid_tree g X tau -> yield tau = a :: q -> Forall lt_tc (yield tau) ->
      s < length sts -> In i (items_of s) -> next_sym g i = Some X ->
      (exists t', t' < tc /\
                  bset_test (first_tail g ne nf (skipn (S (it_d i)) (rhs_of g i)) (it_t i)) t' = true) ->
      shifts_first s ss trs a v.

  (* the trees ts (still to come for item [r, d, la]) begin with the token a *)
  Lemma fparse_list r d la ts a u v s ss trs :
    Forall fparses ts ->
    Forall2 (valid_tree g) (skipn d (get_rhs g (ri_r (get_ri g r)))) ts ->
    yields ts = a :: u -> Forall lt_tc (yields ts) -> la < tc ->
    s < length sts -> In (mkItem r d la) (items_of s) ->
    shifts_first s ss trs a v.
  Proof.
    intros Hfp Hval' Hy Hytc Hla Hs Hi.
    destruct (first_split yield ts a u Hy) as (ch1 & c & ch2 & q2 & -> & Hy1 & Hyc & ->).
    rewrite flat_map_app in Hytc. cbn [flat_map] in Hytc.
    apply Forall_app in Hytc. destruct Hytc as [_ Hytc2].
    pose proof Hytc2 as Hytc2'. apply Forall_app in Hytc2'. destruct Hytc2' as [Hytcc Hytc3].
    assert (Ha : a < tc) by (rewrite Hyc in Hytcc; inversion Hytcc; assumption).
    destruct (nparse_children_gen r la (c :: ch2) (a :: v)) with (chs := ch1) (d := d) (s := s) (ss := ss) (trs := trs)
      as (n1 & sf & stk & Hm1 & _ & Hsf & Hif); try assumption.
    { cbn [flat_map]. rewrite Hyc. reflexivity. }
    { apply Forall_nparses. }
    (* the child c *)
    pose proof Hval' as Hch'. apply Forall2_app_inv_r in Hch'.
    destruct Hch' as (r1 & r2 & Hr1 & Hr2 & Erhs').
    apply Forall2_cons_r_inv in Hr2. destruct Hr2 as (xc & r2' & -> & Hxc & Hr2').
    pose proof (Forall2_length' _ _ _ Hr1) as Hlen1.
    set (rhs := get_rhs g (ri_r (get_ri g r))) in *.
    assert (Hnthc : nth_error rhs (d + length ch1) = Some xc).
    { rewrite <- nth_error_skipn, Erhs', nth_error_app2 by lia. rewrite Hlen1, Nat.sub_diag. reflexivity. }
    assert (Hskc : skipn (S (d + length ch1)) rhs = r2').
    { apply skipn_cons_nth_error with (x := xc).
      rewrite <- (skipn_skipn d (length ch1) rhs). rewrite Erhs', <- Hlen1. apply skipn_app_exact. }
    assert (Hc : fparses c).
    { rewrite Forall_forall in Hfp. apply Hfp. apply in_or_app. right. left. reflexivity. }
    destruct (Hc xc sf stk (rev ch1 ++ trs) (mkItem r (d + length ch1) la) a q2 v) as (n2 & c1 & c2 & Hm2 & Hsh & Hv);
      try assumption.
    { cbn [it_d it_t]. unfold rhs_of; cbn [it_r]. fold rhs. rewrite Hskc.
      exists (look g (yields ch2 ++ [la])). split.
      - apply (look_lt_tc g sts tbl ne nf CF). apply Forall_app. split; [assumption|]. constructor; [assumption|constructor].
      - apply (first_tail_sound g sts tbl ne nf CF); try assumption. reflexivity. }
    exists (n1 + n2), c1, c2. split; [eapply rsteps_trans; eassumption|]. auto.
  Qed.

  Lemma fparses_all tau : fparses tau.
  Proof.
    induction tau as [b|r ch IH] using tree_ind'; intros X s ss trs i a q v Hval' Hy Hytc Hs Hi Hnx Hft.
    - (* the leaf is a itself: shift *)
      inversion Hval'; subst. cbn in Hy. inversion Hy; subst b q. cbn in Hytc. inversion Hytc as [|? ? Ha _]; subst.
      pose proof (next_sym_incomplete _ _ _ SF s i _ Hs Hi Hnx) as Hic.
      destruct (cf_goto _ _ _ _ _ CF s i Hs Hi Hic) as (x & s' & Hnx' & Hg & Hs' & Hi').
      rewrite Hnx in Hnx'. inversion Hnx'; subst x.
      exists 0. eexists. eexists. split; [reflexivity|]. split; [apply mshift_goto; eassumption|reflexivity].
    - inversion Hval' as [|r' l rhs ch' Hrule Hch]; subst. cbn [yield] in *.
      destruct Hrule as (i' & ri & Hi' & Hr & Hl & Hrhs).
      destruct (get_ri_nth_error _ _ _ SF _ _ Hi') as [Eri Hi'lt].
      assert (get_rhs g (ri_r ri) = rhs) as Erhs by (rewrite Hr; apply nth_error_nth; assumption).
      destruct Hft as (t' & Ht' & Hft).
      assert (In (mkItem i' 0 t') (items_of s)) as Hi0.
      { eapply slice_item; try eassumption. rewrite Eri. exact Hl. }
      eapply (fparse_list i' 0 t' ch a q v); try eassumption.
      rewrite Eri, Erhs. cbn [skipn]. assumption.
  Qed.

  Lemma Forall_fparses l : Forall fparses l.
  Proof. apply Forall_forall. intros t _. apply fparses_all. Qed.

  (* ---------- chains of items down the stack ---------- *)
  Inductive chain : list nat -> item -> Prop :=
  | ch_root : chain [0] (root_item g)
  | ch_closure s ss ik i :
      chain (s :: ss) ik -> s < length sts -> In ik (items_of s) -> In i (items_of s) -> it_d i = 0 ->
      next_sym g ik = Some (NT (lhs i)) ->
      bset_test (first_tail_gen g (skipn (S (it_d ik)) (rhs_of g ik)) (it_t ik)) (it_t i) = true ->
      chain (s :: ss) i
  | ch_kernel s' s ss i d :
      chain (s :: ss) (mkItem (it_r i) d (it_t i)) -> s' < length sts -> In i (items_of s') -> it_d i = S d ->
      chain (s' :: s :: ss) i.

  Lemma chain_top ss i : chain ss i -> exists s ss', ss = s :: ss' /\ s < length sts /\ In i (items_of s).
  Proof.
    induction 1 as [|s ss ik i _ _ Hs _ Hi _ _ _|s' s ss i d _ _ Hs' Hi _].
    - exists 0, []. split; [reflexivity|]. split; [apply (sf_dims2 _ _ _ SF)|apply (sf_st0_root _ _ _ SF)].
    - eauto.
    - eauto.
  Qed.

  Lemma chain_reach ss i : chain ss i -> nts_reachable g (rhs_of g i).
  Proof.
    induction 1 as [|s ss ik i _ IH Hs Hik Hi Hd Hnx _|s' s ss i d _ IH Hs' Hi Hd].
    - destruct (sf_root_rhs _ _ _ SF) as [x Hx].
      assert (Erhs : rhs_of g (root_item g) = [NT x]).
      { unfold rhs_of, root_item; cbn [it_r]. rewrite (sf_root_r _ _ _ SF). assumption. }
      rewrite Erhs. constructor; [|constructor]. apply reach_root. apply (root_symbol_eq g sts tbl SF). assumption.
    - assert (HB : reachable g (lhs i)).
      { unfold nts_reachable in IH. rewrite Forall_forall in IH. unfold next_sym in Hnx.
        exact (IH _ (nth_error_In _ _ Hnx)). }
      unfold nts_reachable. apply Forall_forall. intros [a|m] Hin; [exact I|].
      eapply reach_rule; [exact HB| |exact Hin]. apply (item_rule g sts tbl SF).
      apply (sf_item _ _ _ SF s i Hs Hi).
    - exact IH.
  Qed.

  Lemma state_chain s ss : s < length sts ->
    (forall i, In i (items_of s) -> it_d i <> 0 -> chain (s :: ss) i) -> (s = 0 -> ss = []) ->
    forall i, In i (items_of s) -> chain (s :: ss) i.
  Proof.
    intros Hs Hker H0.
    assert (Hpos : forall j i, nth_error (items_of s) j = Some i -> chain (s :: ss) i).
    { intros j. induction j as [j IH] using lt_wf_ind. intros i Hj.
      destruct (Nat.eq_dec (it_d i) 0) as [Hd|Hd]; [|apply Hker; [eapply nth_error_In; eassumption|assumption]].
      destruct (Hgen s j i Hj Hd) as [[Es Ei]|(k & ik & Hk & Hik & Hnx & Hft)].
      - subst i. rewrite (H0 Es), Es. apply ch_root.
      - eapply ch_closure; [exact (IH k Hk ik Hik)|exact Hs|eapply nth_error_In; eassumption|
                            eapply nth_error_In; eassumption|exact Hd|exact Hnx|exact Hft]. }
    intros i Hi. apply In_nth_error in Hi. destruct Hi as [j Hj]. eauto.
  Qed.

  Lemma chain_exists ss syms : stk_ok g sts ss syms ->
    forall s ss', ss = s :: ss' -> forall i, In i (items_of s) -> chain ss i.
  Proof.
    induction 1 as [|s ss syms s' X H IH Hlt Hnz Hj]; intros s0 ss0 E i Hi; inversion E; subst.
    - apply state_chain; [apply (sf_dims2 _ _ _ SF)| |reflexivity|assumption].
      intros j Hjin Hd. exfalso. apply Hd. apply (sf_st0_dot _ _ _ SF). assumption.
    - apply state_chain; [assumption| |intros E0; contradiction|assumption].
      intros j Hjin Hd. destruct (it_d j) as [|d] eqn:Ed; [contradiction|].
      destruct (Hj j d Hjin Ed) as [Hin' _].
      eapply ch_kernel; [eapply IH; [reflexivity|exact Hin']|assumption|assumption|exact Ed].
  Qed.

  (* ---------- the machine is complete along a chain ---------- *)
  Notation finx := (fin g tbl).

  Lemma look_not_eof rest a : look g rest = a -> a <> eof_idx g -> exists v, rest = a :: v.
  Proof. destruct rest as [|b v]; cbn; intros E Hne; [congruence|]. subst. eauto. Qed.

  (* a tree for a symbol of a right side has no <eof> leaf *)
  Lemma trees_no_eof beta ts : Forall2 (valid_tree g) beta ts -> (forall x, In x beta -> x <> T (eof_idx g)) ->
    ~ In (eof_idx g) (yields ts).
  Proof.
    induction 1 as [|x t beta ts Hx _ IH]; intros Hne; cbn; [tauto|].
    intros Hin. apply in_app_or in Hin. destruct Hin as [Hin|Hin].
    - exact (no_eof_yield g sts tbl SF t x Hx (Hne x (or_introl eq_refl)) Hin).
    - exact (IH (fun y Hy => Hne y (or_intror Hy)) Hin).
  Qed.

  Lemma trees_lt_tc beta ts : Forall2 (valid_tree g) beta ts -> (forall x, In x beta -> sym_ok g x = true) ->
    Forall lt_tc (yields ts).
  Proof.
    induction 1 as [|x t beta ts Hx _ IH]; intros Hok; cbn; [constructor|].
    apply Forall_app. split.
    - apply (valid_yield_lt g sts tbl ne nf CF t x Hx). intros b ->.
      specialize (Hok (T b) (or_introl eq_refl)). cbn in Hok. apply Nat.ltb_lt. exact Hok.
    - apply IH. intros y Hy. apply Hok. right. exact Hy.
  Qed.

  (* after the goto over the nonterminal following the dot of ik (item of s, with a chain), with the lookahead in
     FIRST(beta_k t_k): the machine finishes *)
  Lemma finish_chain ss i : chain ss i -> Forall (fun s => s < length sts) ss ->
    forall es tes trs0 rest top stk,
      length tes = length es -> length es + it_d i = length (rhs_of g i) -> S (length trs0) = length ss ->
      es ++ ss = top :: stk -> top < length sts ->
      In (mkItem (it_r i) (length (rhs_of g i)) (it_t i)) (items_of top) ->
      look g rest = it_t i ->
      finx (es ++ ss, tes ++ trs0, rest).
  Proof.
    induction 1 as [|s ss ik i Hchk IH Hs Hik Hi Hd Hnx Hft|s' s ss i d Hch IH Hs' Hi Hd];
      intros Hall es tes trs0 rest top stk Htes Hes Htrs Etop Htop Hcomp Hla.
    - (* the root item: accept *)
      exists 0. eexists. split; [reflexivity|]. right. unfold msucc. exists top, stk. eexists.
      split; [exact Etop|].
      pose proof (eof_lt_tc _ _ _ SF) as Heof.
      assert (Hc : is_complete g (mkItem (it_r (root_item g)) (length (rhs_of g (root_item g))) (it_t (root_item g))) = true).
      { unfold is_complete; cbn [it_r it_d root_item].
        destruct (sf_ri _ _ _ SF _ (root_lt _ _ _ SF)) as (_ & _ & Hn). rewrite Hn.
        unfold rhs_of; cbn [it_r]. apply Nat.leb_refl. }
      destruct (cf_reduce _ _ _ _ _ CF top _ Htop Hcomp Hc) as [Hsucc _]. cbn [it_r it_t root_item] in Hsucc.
      specialize (Hsucc eq_refl). rewrite Hla. cbn [it_t root_item].
      split; [apply (cell_in_range _ _ _ SF top _ Htop); unfold symbol_count; lia|exact Hsucc].
    - (* a closure item: reduce, goto, then the rest of ik's right side *)
      destruct (sf_item _ _ _ SF s i Hs Hi) as (Hrlt & _ & Httc).
      destruct (sf_ri _ _ _ SF _ Hrlt) as (_ & _ & Hn). fold (rhs_of g i) in Hn.
      rewrite Hd, Nat.add_0_r in Hes.
      assert (Hlatc : look g rest < tc) by (rewrite Hla; exact Httc).
      destruct (reduce_step s ss ik (it_r i) (get_ri g (it_r i)) (lhs i) es tes trs0 rest top stk) as (s'' & Hmr & Hs'' & Hik');
        try assumption; try reflexivity.
      { apply (nth_error_get_ri _ _ _ SF). exact Hrlt. }
      { rewrite Hn. exact Hes. }
      { rewrite Hn. congruence. }
      { rewrite Hn, Hla. exact Hcomp. }
      eapply fin_rsteps; [apply rsteps_one; exact Hmr|].
      set (tA := Node (ri_r (get_ri g (it_r i))) (rev tes)).
      (* what follows the dot of ik *)
      pose proof (chain_reach _ _ Hchk) as Hreach.
      destruct (sf_item _ _ _ SF s ik Hs Hik) as (Hrklt & _ & Htktc).
      set (beta := skipn (S (it_d ik)) (rhs_of g ik)) in *.
      assert (Hbeta_in : forall x, In x beta -> In x (rhs_of g ik)).
      { intros x Hx. rewrite <- (firstn_skipn (S (it_d ik)) (rhs_of g ik)). apply in_or_app. right. exact Hx. }
      assert (Hsym : forall x, In x beta -> sym_ok g x = true /\ x <> T (eof_idx g)).
      { intros x Hx. destruct (sf_sym _ _ _ SF (rhs_of g ik) x) as (H1 & _ & H3); [|apply Hbeta_in; exact Hx|auto].
        unfold rhs_of. apply (rhs_in_right_sides _ _ _ SF). assumption. }
      assert (Hdk : S (it_d ik) <= length (rhs_of g ik)).
      { unfold next_sym in Hnx. apply Nat.le_succ_l. apply nth_error_Some. congruence. }
      unfold first_tail_gen in Hft. fold beta in Hft.
      destruct (first_tail_just g sts tbl SF Hprod beta (it_t ik) (it_t i) (nts_reachable_skipn g _ _ Hreach) Hft)
        as [(ts & u & Hts & Hyts)|(Et & ts & Hts & Hyts)].
      + (* the lookahead is the first token of what follows: it is shifted *)
        assert (Hne : it_t i <> eof_idx g).
        { intros E. apply (trees_no_eof beta ts Hts (fun x Hx => proj2 (Hsym x Hx))).
          rewrite Hyts, E. left. reflexivity. }
        destruct (look_not_eof rest _ Hla Hne) as [v ->].
        destruct (fparse_list (it_r ik) (S (it_d ik)) (it_t ik) ts (it_t i) u v s'' (s :: ss) (tA :: trs0))
          as (n & c1 & c2 & Hm & Hsh & Hv); try assumption.
        { apply Forall_fparses. }
        { apply (trees_lt_tc beta ts Hts (fun x Hx => proj1 (Hsym x Hx))). }
        exists n, c1. split; [exact Hm|]. left. exists c2. split; [exact Hsh|].
        rewrite (rsteps_rest g tbl _ _ _ Hm). cbn. discriminate.
      + (* what follows derives the empty string and the lookahead is ik's: on to ik's reduction *)
        destruct (nparse_children_gen (it_r ik) (it_t ik) [] rest Htktc ltac:(constructor) Hlatc
                    ltac:(cbn; congruence) ts (Forall_nparses ts) Hyts (S (it_d ik)) s'' (s :: ss) (tA :: trs0))
          as (n & sf & stk' & Hm & Hsk & Hsf & Hif); try assumption.
        { rewrite app_nil_r. exact Hts. }
        eapply fin_rsteps; [exact Hm|].
        pose proof (Forall2_length' _ _ _ Hts) as Hlts. unfold beta in Hlts. rewrite skipn_length in Hlts.
        pose proof (skipn_cons_lt _ _ _ _ Hsk) as Hlt1.
        destruct (skipn_split _ _ _ Hsk ltac:(lia)) as (es' & Ees & Hes').
        specialize (IH Hall (es' ++ [s'']) (rev ts ++ [tA]) trs0 rest sf stk').
        rewrite <- !app_assoc in IH. cbn [app] in IH. rewrite Ees. apply IH; try assumption.
        * rewrite !app_length, rev_length. cbn. lia.
        * rewrite app_length. cbn. lia.
        * symmetry. exact Ees.
        * replace (length (rhs_of g ik)) with (S (it_d ik) + length ts) by lia. exact Hif.
        * congruence.
    - (* a kernel item: its predecessor lives one state down *)
      inversion Hall as [|? ? _ Hall']; subst.
      destruct trs0 as [|x trs0]; [cbn in Htrs; lia|].
      specialize (IH Hall' (es ++ [s']) (tes ++ [x]) trs0 rest top stk).
      rewrite <- !app_assoc in IH. cbn [app] in IH. apply IH; try assumption.
      + rewrite !app_length. cbn. lia.
      + rewrite app_length. cbn [it_d length]. change (rhs_of g (mkItem (it_r i) d (it_t i))) with (rhs_of g i). lia.
      + cbn in Htrs |- *. lia.
  Qed.

  (* the error column never holds a plain shift *)
  Lemma no_err_kshift s : s < length sts ->
    e_kind (cell_at tbl s (nterm_count g + err_idx g)) = KShift -> False.
  Proof.
    intros Hs Hk. pose proof (sf_tc _ _ _ SF) as Htc.
    assert (Herr : err_idx g < tc) by (unfold err_idx; lia).
    pose proof (sf_cell _ _ _ SF s _ Hs (col_lt g _ Herr)) as Hcj.
    destruct (cj_shift _ _ _ _ _ Hcj (or_introl Hk)) as (s' & _ & (Hlt & Hnz & Hj) & _).
    assert (Hex : exists i0, nth_error (items_of s') 0 = Some i0).
    { pose proof (Hnonempty s' Hlt) as Hne. destruct (items_of s') as [|i0 its]; [contradiction|]. exists i0. reflexivity. }
    destruct Hex as [i0 H0]. pose proof (nth_error_In _ _ H0) as Hin.
    destruct (it_d i0) as [|d] eqn:Ed.
    - destruct (Hgen s' 0 i0 H0 Ed) as [[E _]|(k & _ & Hk0 & _)]; [contradiction|lia].
    - destruct (Hj i0 d Hin Ed) as (Hin' & x & Hx & Hcol).
      destruct (item_next_sym_ok g sts tbl SF s' i0 d x Hlt Hin Hx) as (Hok & _ & _).
      assert (x = T (err_idx g)) as ->.
      { apply (sym_col_inj g); [exact Hok|cbn; apply Nat.ltb_lt; exact Herr|exact Hcol]. }
      (* the predecessor item has the error symbol after its dot: its goto is a KShiftErr cell *)
      assert (Hnx : next_sym g (mkItem (it_r i0) d (it_t i0)) = Some (T (err_idx g))) by exact Hx.
      pose proof (next_sym_incomplete _ _ _ SF s _ _ Hs Hin' Hnx) as Hic.
      destruct (cf_goto _ _ _ _ _ CF s _ Hs Hin' Hic) as (x' & s2 & Hnx' & Hg & _).
      rewrite Hnx in Hnx'. inversion Hnx'; subst x'.
      destruct (goto_T_e _ _ _ Hg) as [_ Hk']. rewrite Nat.eqb_refl in Hk'. congruence.
  Qed.

  (* ---------- the theorem ---------- *)
  Theorem finish cur ss trs rest e :
    MInv g sts (cur :: ss) trs -> look g rest < tc ->
    cell tbl cur (nterm_count g + look g rest) = inl e -> e_kind e <> KError ->
    finx (cur :: ss, trs, rest).
  Proof.
    intros HM Hla Hc Hk.
    pose proof (MInv_len g sts _ _ HM) as Hlen. pose proof (MInv_all_lt g sts tbl SF _ _ HM) as Hall.
    destruct HM as (syms & Hst & Hl).
    pose proof (stk_top_lt g sts tbl SF _ _ _ Hst) as Hcur.
    pose proof (cell_cell_at _ _ _ _ Hc) as Ee.
    pose proof (sf_cell _ _ _ SF cur _ Hcur (col_lt g _ Hla)) as Hcj.
    destruct (e_kind e) eqn:Ek; [congruence| | | | |].
    - (* accept cell *)
      exists 0. eexists. split; [reflexivity|]. right. exists cur, ss, e. auto.
    - (* shift *)
      rewrite Ee in Ek. destruct (cj_shift _ _ _ _ _ Hcj (or_introl Ek)) as (s' & Ha & _ & _).
      exists 0. eexists. split; [reflexivity|]. left.
      destruct (Nat.eqb (look g rest) (err_idx g)) eqn:Eerr.
      { exfalso. apply Nat.eqb_eq in Eerr. rewrite Eerr in Ek. exact (no_err_kshift cur Hcur Ek). }
      eexists. split.
      + unfold mshift. rewrite Hc. rewrite Ee, Ha, Ek, Eerr. reflexivity.
      + cbn [snd]. intros ->. cbn [look hd] in Ek.
        exact (no_eof_shift g sts tbl SF Hgen Hnonempty cur Hcur Ek).
    - (* shift of the error symbol *)
      rewrite Ee in Ek. destruct (cj_shift _ _ _ _ _ Hcj (or_intror Ek)) as (s' & Ha & _ & Hcol).
      specialize (Hcol Ek). unfold col_of_term in Hcol. assert (El : look g rest = err_idx g) by lia.
      exists 0. eexists. split; [reflexivity|]. left. eexists. split.
      + unfold mshift. rewrite Hc. rewrite Ee, Ha, Ek, El, Nat.eqb_refl. reflexivity.
      + cbn [snd]. intros ->. cbn [look hd] in El. pose proof (err_eq _ _ _ SF). lia.
    - (* reduce: the completed item has the lookahead, and a chain *)
      rewrite Ee in Ek. destruct (cj_reduce _ _ _ _ _ Hcj Ek) as (r & Ha & _).
      destruct (Hred cur _ r Hcur Hla Ek Ha) as (i & Hi & Hir & Hic & Hit).
      pose proof (chain_exists _ _ Hst cur ss eq_refl i Hi) as Hch.
      destruct (sf_item _ _ _ SF cur i Hcur Hi) as (Hrlt & Hdle & _).
      destruct (sf_ri _ _ _ SF _ Hrlt) as (_ & _ & Hn). fold (rhs_of g i) in Hn.
      unfold is_complete in Hic. apply Nat.leb_le in Hic.
      assert (Hd : it_d i = length (rhs_of g i)) by lia.
      apply (finish_chain _ _ Hch Hall [] [] trs rest cur ss); try assumption; try reflexivity.
      + cbn in Hlen |- *. lia.
      + rewrite <- Hd. destruct i; exact Hi.
      + symmetry. exact Hit.
    - exfalso. rewrite Ee in Ek. exact (cj_rr _ _ _ _ _ Hcj Ek).
  Qed.
End CompleteE.

Print Assumptions finish.
