(* merged_from on words.  ctpg.hpp's DFA builder keeps, per state, the set of states already merged into it as a
   cbitset over state indices: `if (merged_from.test(from)) return; merged_from.set(from);`.  The builder mirror
   Model/Dfa.v keeps the set bits as a list (`d_merged`), tests with Prelude.mem_nat and inserts with `from :: _`.
   Here: the relation between the word-level set and the list, the simulation of test and of insert, the throw outside
   the range, and the test-then-set discipline over any sequence of in-range indices. *)
From Ctpg Require Import Base.Prelude Model.Containers Proofs.ContainersBits Proofs.LRGenWordsRefine
     Proofs.KernelWordsRefine.
From Coq Require Import NArith Lia List Bool.
Import ListNotations.

Definition merged_rel (n : nat) (b : cbitset) (l : list nat) : Prop :=
  cb_wf b /\ cb_n b = N.of_nat n /\
  (forall j, j < n -> cb_mem b (N.of_nat j) = mem_nat j l) /\
  Forall (fun j => j < n) l.

Lemma merged_rel_new : forall n, merged_rel n (cb_new (N.of_nat n)) [].
Proof.
  intros n. split; [apply cb_new_wf |]. split; [reflexivity |]. split; [| constructor].
  intros j _. rewrite new_mem. reflexivity.
Qed.

Lemma merged_test_sim : forall n b l from, merged_rel n b l -> from < n ->
  cb_test b (N.of_nat from) = Ok (mem_nat from l).
Proof.
  intros n b l from (Hwf & Hn & Hmem & Hall) Hlt.
  rewrite test_ok by lia. rewrite (Hmem from Hlt). reflexivity.
Qed.

Lemma merged_insert_sim : forall n b l from, merged_rel n b l -> from < n ->
  exists b', cb_set b (N.of_nat from) = Ok b' /\ merged_rel n b' (from :: l).
Proof.
  intros n b l from (Hwf & Hn & Hmem & Hall) Hlt.
  destruct (set_mem b from n Hwf Hn Hlt) as (b' & Hs & Hwf' & Hn' & _ & Hmem').
  exists b'. split; [exact Hs |].
  split; [exact Hwf' |]. split; [rewrite Hn'; exact Hn |]. split; [| constructor; assumption].
  intros j Hj. rewrite (Hmem' j Hj), (Hmem j Hj). cbn [mem_nat].
  destruct (Nat.eqb j from); reflexivity.
Qed.

Lemma merged_out_of_range_throws : forall n b l from, merged_rel n b l -> n <= from ->
  cb_test b (N.of_nat from) = Throw /\ cb_set b (N.of_nat from) = Throw.
Proof.
  intros n b l from (Hwf & Hn & Hmem & Hall) Hge.
  assert (Hnlt : (N.of_nat from <? cb_n b)%N = false) by (apply N.ltb_ge; lia).
  unfold cb_test, cb_set, cb_upd. rewrite Hnlt. split; reflexivity.
Qed.

(* ------------------------------------------------------------------ the test-then-set discipline, folded *)
Definition w_merge_step (acc : res cbitset) (j : nat) : res cbitset :=
  match acc with
  | Ok b => match cb_test b (N.of_nat j) with
            | Ok true => Ok b
            | Ok false => cb_set b (N.of_nat j)
            | Throw => Throw
            | Undef => Undef
            end
  | r => r
  end.

Definition l_merge_step (l : list nat) (j : nat) : list nat := if mem_nat j l then l else j :: l.

Lemma merged_step_sim : forall n b l j, merged_rel n b l -> j < n ->
  exists b', w_merge_step (Ok b) j = Ok b' /\ merged_rel n b' (l_merge_step l j).
Proof.
  intros n b l j Hrel Hj. unfold w_merge_step, l_merge_step.
  rewrite (merged_test_sim n b l j Hrel Hj).
  destruct (mem_nat j l).
  - exists b. split; [reflexivity | exact Hrel].
  - apply merged_insert_sim; assumption.
Qed.

Theorem merged_fold_sim : forall n js b l, merged_rel n b l -> Forall (fun j => j < n) js ->
  exists b', fold_left w_merge_step js (Ok b) = Ok b' /\ merged_rel n b' (fold_left l_merge_step js l).
Proof.
  intros n js. induction js as [| j js IH]; intros b l Hrel Hjs.
  - exists b. split; [reflexivity | exact Hrel].
  - inversion Hjs as [| j0 js0 Hj Hjs']; subst.
    destruct (merged_step_sim n b l j Hrel Hj) as (b1 & Hs & Hrel1).
    cbn [fold_left]. rewrite Hs. apply IH; assumption.
Qed.

Corollary merged_fold_from_new : forall n js, Forall (fun j => j < n) js ->
  exists b', fold_left w_merge_step js (Ok (cb_new (N.of_nat n))) = Ok b' /\
             merged_rel n b' (fold_left l_merge_step js []).
Proof. intros n js Hjs. apply merged_fold_sim; [apply merged_rel_new | exact Hjs]. Qed.

(* an out-of-range index anywhere in the sequence makes the word-level fold throw at that point *)
Lemma w_merge_step_throw_absorb : forall js, fold_left w_merge_step js Throw = Throw.
Proof. induction js as [| j js IH]; [reflexivity | exact IH]. Qed.

Theorem merged_fold_out_of_range_throws : forall n pre j post b l, merged_rel n b l ->
  Forall (fun i => i < n) pre -> n <= j ->
  fold_left w_merge_step (pre ++ j :: post) (Ok b) = Throw.
Proof.
  intros n pre j post b l Hrel Hpre Hge.
  destruct (merged_fold_sim n pre b l Hrel Hpre) as (b1 & Hf & Hrel1).
  rewrite fold_left_app, Hf. cbn [fold_left]. unfold w_merge_step at 2.
  rewrite (proj1 (merged_out_of_range_throws n b1 _ j Hrel1 Hge)).
  apply w_merge_step_throw_absorb.
Qed.

Print Assumptions merged_insert_sim.
Print Assumptions merged_fold_sim.
