(* Termination with ERROR RECOVERY, part 2: the driver (tree-building instance, any options, any buffer, any lexer
   that tokenises the buffer at hand, unbounded stacks) halts on tables WITH error symbol.
   The token stream the driver will see is the relation [stream] of Proofs/TermGeneric.v.  A loop-head state is
   described by [pinv] (where the cursor stands in the stream; the same in all three modes) and by the stack
   invariant [MInv] of Proofs/TermRecMachine.v.  One iteration of the driver is
     - a reduction / the shift / the accept of the machine of TermRecMachine.v under the lookahead
       (the pending term, or the error symbol in recovery mode), or
     - on an error cell: enter recovery mode (normal mode), pop a state or give up (recovery mode), discard the
       pending term or give up at <eof> (consume mode).
   By [finish] a non-error cell leads, after finitely many reductions, to the shift of the lookahead (or to the
   accept cell).  Measure: length of the remaining token stream; then, in recovery mode, the stack height. *)
Require Import Ctpg.Base.Prelude Ctpg.Model.Grammar Ctpg.Model.LRGen Ctpg.Model.Driver
               Ctpg.Spec.Cfg Ctpg.Spec.LRSpec Ctpg.Spec.Eval Ctpg.Spec.Recovery Ctpg.Valid.LRValid Ctpg.Valid.LRProductive
               Ctpg.Proofs.LRReflect Ctpg.Proofs.LRMachine Ctpg.Proofs.LRValidFacts Ctpg.Proofs.LRSound
               Ctpg.Proofs.LRComplete Ctpg.Proofs.DriverBasics Ctpg.Proofs.ReportLang Ctpg.Proofs.ReportViable
               Ctpg.Proofs.TermViable Ctpg.Proofs.TermAll Ctpg.Proofs.TermGeneric Ctpg.Proofs.RecoveryRefines
               Ctpg.Proofs.TermRecMachine.

Section DriverE.
  Variable g : grammar.
  Variable sts : list items.
  Variable tbl : table.
  Variable opts : options.
  Variable buf : list nat.
  Variable lexer : bool -> spoint -> list nat -> list lex_event * option (nat * nat).

  Hypothesis Hval : validate g sts tbl = true.
  Hypothesis Hgen : lookahead_generated g sts.
  Hypothesis Hnonempty : states_nonempty sts.
  Hypothesis Hred : reduce_lookahead g sts tbl.
  Hypothesis Hprod : productive g.
  (* on the suffixes of the buffer at hand the lexer answers with proper terms and lexemes of positive length
     inside the remaining input *)
  Hypothesis HlexB : forall v p k t len, snd (lexer v p (skipn k buf)) = Some (t, len) ->
                       t < eof_idx g /\ 0 < len /\ len <= length (skipn k buf).

  Let SF : sound_facts g sts tbl := sound_facts_of g sts tbl (validate_validate_sound _ _ _ Hval).

  Notation dstate := (pstate tree unit).
  Notation dstep := (step tree unit g tbl opts buf None lexer tf (ef g) rlf).
  Notation drun := (run_from tree unit g tbl opts buf None lexer tf (ef g) rlf).
  Notation dgct := (get_current_term tree unit g opts buf lexer).
  Notation dact := (act tree unit g tbl buf None tf (ef g) rlf).
  Notation dreduce := (do_reduce tree unit g tbl None rlf).
  Notation pa := (plain_action tree unit g tbl buf None tf (ef g) rlf).
  Notation strm := (stream opts buf lexer).
  Notation kw := (kws opts buf).
  Notation tc := (term_count g).

  (* ---------- halting ---------- *)
  Definition halts (s : dstate) : Prop := exists fuel, forall out, fst (fst (drun fuel s out)) <> OutOfFuel.

  Lemma halts_inl s s' : fst (dstep s) = inl s' -> halts s' -> halts s.
  Proof.
    intros Hs (fuel & Hf). exists (S fuel). intros out. cbn [run_from].
    destruct (dstep s) as [[s1|[r s1]] ev]; cbn [fst] in Hs; [|discriminate]. inversion Hs; subst. apply Hf.
  Qed.

  Lemma halts_inr s x : fst (dstep s) = inr x -> halts s.
  Proof.
    intros Hs. exists 1. intros out. cbn [run_from].
    pose proof (step_not_oof tree unit g tbl opts buf None lexer tf (ef g) rlf s) as Hn.
    destruct (dstep s) as [[s1|[r s1]] ev]; cbn [fst] in Hs, Hn; [discriminate|]. cbn. exact Hn.
  Qed.

  (* ---------- the token stream ---------- *)
  Lemma lex_facts sp pos c rest t len :
    skipn (kw pos) (skipn pos buf) = c :: rest ->
    snd (lexer (o_verbose opts) sp (c :: rest)) = Some (t, len) ->
    t < eof_idx g /\ 0 < len /\ pos + kw pos + len <= length buf.
  Proof.
    intros Hsk Hl. pose proof (skipn_skipn_len _ _ _ _ _ Hsk) as L.
    rewrite skipn_add in Hsk. rewrite <- Hsk in Hl. destruct (HlexB _ _ _ _ _ Hl) as (H1 & H2 & H3).
    rewrite Hsk in H3. cbn [length] in *. lia.
  Qed.

  Lemma stream_exists_B m : forall sp pos, length buf - pos <= m ->
    exists w fl, strm sp pos w fl /\ tokens_ok g w.
  Proof.
    induction m as [|m IH]; intros sp pos Hm.
    - exists [], true. split; [|constructor]. apply StEof.
      rewrite skipn_add. apply skipn_all2. lia.
    - destruct (skipn (kw pos) (skipn pos buf)) as [|c rest] eqn:Hsk.
      { exists [], true. split; [apply StEof; exact Hsk|constructor]. }
      destruct (snd (lexer (o_verbose opts) (sp_update sp (firstn (kw pos) (skipn pos buf))) (c :: rest)))
        as [[t len]|] eqn:Hl.
      + destruct (lex_facts _ _ _ _ _ _ Hsk Hl) as (Ht & Hp & Hlen).
        destruct (IH (sp_update (sp_update sp (firstn (kw pos) (skipn pos buf)))
                                (slice_of buf (pos + kw pos) (pos + kw pos + len)))
                     (pos + kw pos + len)) as (w & fl & Hs & Hw); [lia|].
        exists (t :: w), fl. split; [eapply StTok; eassumption|constructor; assumption].
      + exists [], false. split; [eapply StFail; eassumption|constructor].
  Qed.

  (* ---------- where a loop-head state stands in the stream (all modes) ---------- *)
  Definition pinv (s : dstate) (w : list nat) (fl : bool) : Prop :=
    ps_end s <= length buf /\
    ((ps_it s = ps_end s /\ strm (ps_sp s) (ps_it s) w fl) \/
     (exists t w', w = t :: w' /\ ps_it s <> ps_end s /\ ps_term s = Some t /\
                   strm (sp_update (ps_sp s) (slice_of buf (ps_it s) (ps_end s))) (ps_end s) w' fl) \/
     (w = [] /\ fl = true /\ ps_it s <> ps_end s /\ ps_term s = Some (eof_idx g) /\
      skipn (kw (ps_end s)) (skipn (ps_end s) buf) = [])).

  Lemma pinv_keep s1 s' w fl : pinv s1 w fl ->
    ps_sp s' = ps_sp s1 -> ps_it s' = ps_it s1 -> ps_end s' = ps_end s1 -> ps_term s' = ps_term s1 -> pinv s' w fl.
  Proof. unfold pinv. intros (Hle & Hform) Hsp Hit Hen Htm. rewrite Hsp, Hit, Hen, Htm. auto. Qed.

  (* moving past the pending term (shift, or discarding in consume mode) *)
  Lemma pinv_consume s1 s' w fl : pinv s1 w fl -> (ps_it s1 = ps_end s1 -> w = [] /\ fl = true) ->
    ps_sp s' = sp_update (ps_sp s1) (slice_of buf (ps_it s1) (ps_end s1)) ->
    ps_it s' = ps_end s1 -> ps_end s' = ps_end s1 -> pinv s' (tl w) fl.
  Proof.
    unfold pinv. intros (Hle & Hform) Hb Hsp Hit Hen. rewrite Hsp, Hit, Hen.
    split; [assumption|]. left. split; [reflexivity|].
    destruct Hform as [[E Hst]|[(t & w' & -> & Hne' & Htm & Hst)|(-> & -> & Hne' & Htm & Hsk)]].
    - destruct (Hb E) as [-> ->]. cbn [tl]. apply StEof.
      inversion Hst; subst. rewrite <- E. assumption.
    - cbn [tl]. exact Hst.
    - cbn [tl]. apply StEof. exact Hsk.
  Qed.

  (* get_current_term outside recovery mode *)
  Lemma gct_pinv s w fl : ps_rec s = false -> pinv s w fl ->
    exists s1 ot ev, dgct s = (s1, ot, ev) /\ ps_cursors s1 = ps_cursors s /\ ps_values s1 = ps_values s /\
      ps_rec s1 = false /\ ps_cons s1 = ps_cons s /\
      match ot with
      | None => w = [] /\ fl = false
      | Some t => t = look g w /\ ps_term s1 = Some t /\ pinv s1 w fl /\
                  (ps_it s1 = ps_end s1 -> w = [] /\ fl = true)
      end.
  Proof.
    destruct s as [cs vs sp it en tm rc cn cx]. unfold pinv; cbn [ps_rec ps_cons ps_end ps_it ps_sp ps_term ps_cursors ps_values].
    intros -> (Hle & Hform). unfold get_current_term; cbn [ps_rec ps_it ps_end ps_term ps_sp].
    destruct Hform as [[-> Hst]|[(t & w' & -> & Hne' & -> & Hst)|(-> & -> & Hne' & -> & Hsk)]].
    - (* boundary: the lexer is consulted *)
      rewrite Nat.eqb_refl. cbn [negb]. fold (kw en).
      inversion Hst as [sp' pos Hsk|sp' pos c rest Hsk Hl|sp' pos c rest t len w' fl' Hsk Hl Hst']; subst.
      + rewrite Hsk. do 3 eexists. split; [reflexivity|]. cbn. do 4 (split; [reflexivity|]).
        split; [reflexivity|]. split; [reflexivity|].
        destruct (Nat.eq_dec (en + kw en) en) as [E|E].
        * split; [|auto]. split; [assumption|]. left. split; [exact E|]. apply StEof. rewrite E. exact Hsk.
        * split; [|intros; contradiction]. split; [assumption|]. right. right. repeat split; auto.
      + rewrite Hsk. destruct (lexer (o_verbose opts) (sp_update sp (firstn (kw en) (skipn en buf))) (c :: rest))
          as [lx res]. cbn [snd] in Hl. subst res.
        do 3 eexists. split; [reflexivity|]. cbn. repeat split.
      + rewrite Hsk. destruct (lexer (o_verbose opts) (sp_update sp (firstn (kw en) (skipn en buf))) (c :: rest))
          as [lx res] eqn:El. cbn [snd] in Hl. subst res.
        assert (Hl' : snd (lexer (o_verbose opts) (sp_update sp (firstn (kw en) (skipn en buf))) (c :: rest)) = Some (t, len))
          by (rewrite El; reflexivity).
        destruct (lex_facts _ _ _ _ _ _ Hsk Hl') as (_ & Hp & Hlen).
        do 3 eexists. split; [reflexivity|]. cbn. do 4 (split; [reflexivity|]).
        split; [reflexivity|]. split; [reflexivity|]. split; [|intros; lia].
        split; [lia|]. right. left. exists t, w'. repeat split; auto. lia.
    - (* a token is pending *)
      replace (Nat.eqb it en) with false by (symmetry; apply Nat.eqb_neq; exact Hne'). cbn [negb].
      do 3 eexists. split; [reflexivity|]. cbn. do 4 (split; [reflexivity|]).
      split; [reflexivity|]. split; [reflexivity|]. split; [|intros; contradiction].
      split; [assumption|]. right. left. exists t, w'. auto.
    - (* <eof> is pending *)
      replace (Nat.eqb it en) with false by (symmetry; apply Nat.eqb_neq; exact Hne'). cbn [negb].
      do 3 eexists. split; [reflexivity|]. cbn. do 4 (split; [reflexivity|]).
      split; [reflexivity|]. split; [reflexivity|]. split; [|intros; contradiction].
      split; [assumption|]. right. right. auto.
  Qed.

  (* ---------- the lookahead of a loop-head state, and the term its action is taken on ---------- *)
  Definition rest_of (s : dstate) (w : list nat) : list nat := if ps_rec s then err_idx g :: w else w.

  Lemma rest_of_lt s w : tokens_ok g w -> look g (rest_of s w) < tc.
  Proof.
    intros Hw. unfold rest_of. destruct (ps_rec s).
    - cbn. pose proof (sf_tc _ _ _ SF). unfold err_idx. lia.
    - apply (look_lt g sts tbl SF). exact Hw.
  Qed.

  (* one iteration = the action on the lookahead, taken in a state s1 that differs from s in the cursor only *)
  Lemma step_look s w fl cur cs : pinv s w fl -> ps_cursors s = cur :: cs ->
    (exists x, fst (dstep s) = inr x) \/
    (exists s1, fst (dstep s) = fst (dact s1 cur (look g (rest_of s w))) /\
                ps_cursors s1 = ps_cursors s /\ ps_values s1 = ps_values s /\
                ps_rec s1 = ps_rec s /\ ps_cons s1 = ps_cons s /\ pinv s1 w fl /\
                (ps_rec s = false -> ps_term s1 = Some (look g w) /\ (ps_it s1 = ps_end s1 -> w = [] /\ fl = true))).
  Proof.
    intros Hp Hcs. unfold rest_of. destruct (ps_rec s) eqn:Hr.
    - right. exists s. rewrite (step_rec _ _ _ _ _ _ _ _ _ _ _ s cur cs Hr Hcs). cbn [look hd].
      do 5 (split; [auto|]). split; [exact Hp|]. intros; discriminate.
    - destruct (gct_pinv s w fl Hr Hp) as (s1 & ot & ev & Hg & H1 & H2 & H3 & H4 & Hot).
      destruct ot as [t|].
      + destruct Hot as (-> & Htm & Hp1 & Hb). right. exists s1.
        rewrite (step_gct _ _ _ _ _ _ _ _ _ _ _ s cur cs s1 _ ev Hcs Hg). cbn [fst].
        do 5 (split; [auto; congruence|]). split; [exact Hp1|]. intros _. split; [exact Htm|exact Hb].
      + left. rewrite (step_lexfail _ _ _ _ _ _ _ _ _ _ _ s cur cs s1 ev Hcs Hg). eexists. reflexivity.
  Qed.

  (* ---------- the actions ---------- *)
  Lemma act_nonerror s1 cur t e : cell tbl cur (nterm_count g + t) = inl e -> e_kind e <> KError ->
    fst (dact s1 cur t) = fst (pa (clr s1) t e).
  Proof.
    intros Hc Hk. unfold clr. destruct (ps_cons s1) eqn:Hcn.
    - rewrite (act_leaves_consume _ _ _ _ _ _ _ _ _ s1 cur t e Hc Hk Hcn). reflexivity.
    - rewrite (act_plain _ _ _ _ _ _ _ _ _ s1 cur t e Hc Hk Hcn). reflexivity.
  Qed.

  Lemma pa_red s2 t e r rest c' : e_kind e = KReduce -> e_arg e = Some r ->
    mreduce g tbl (ps_cursors s2) (ps_values s2) rest r = Next c' ->
    exists s3, fst (pa s2 t e) = inl s3 /\ ps_cursors s3 = fst (fst c') /\ ps_values s3 = snd (fst c') /\
               ps_rec s3 = ps_rec s2 /\ ps_cons s3 = ps_cons s2 /\ ps_sp s3 = ps_sp s2 /\ ps_it s3 = ps_it s2 /\
               ps_end s3 = ps_end s2 /\ ps_term s3 = ps_term s2.
  Proof.
    intros Hk Ha Hm. unfold plain_action. rewrite Hk, Ha.
    pose proof (reduce_sim_sp g tbl s2 r rest) as Hrs. rewrite Hm in Hrs. destruct c' as [[ss' trs'] rest'].
    destruct Hrs as (s3 & ev & Hd & H1 & H2 & H3 & H4 & H5 & H6 & H7 & H8 & H9). rewrite Hd.
    exists s3. cbn [fst snd]. repeat split; auto.
  Qed.

  Lemma pa_shift s2 t e nst : e_kind e = KShift -> e_arg e = Some nst -> ps_end s2 <= length buf ->
    fst (pa s2 t e) = inl (consume_term tree unit buf (set_stacks s2 (nst :: ps_cursors s2) (Leaf t :: ps_values s2))).
  Proof.
    intros Hk Ha Hle. unfold plain_action. rewrite Hk, Ha. cbn [full].
    replace (Nat.ltb (length buf) (ps_end s2)) with false by (symmetry; apply Nat.ltb_ge; assumption).
    reflexivity.
  Qed.

  Lemma pa_shift_err s2 t e nst : e_kind e = KShiftErr -> e_arg e = Some nst ->
    fst (pa s2 t e) = inl (mkPS (nst :: ps_cursors s2) (Leaf (err_idx g) :: ps_values s2)
                                (ps_sp s2) (ps_it s2) (ps_end s2) (ps_term s2) false true (ps_ctx s2)).
  Proof. intros Hk Ha. unfold plain_action. rewrite Hk, Ha. cbn [full]. reflexivity. Qed.

  Lemma pa_succ s2 t e : e_kind e = KSuccess -> exists x, fst (pa s2 t e) = inr x.
  Proof. intros Hk. unfold plain_action. rewrite Hk. destruct (rev (ps_values s2)); eexists; reflexivity. Qed.

  (* ---------- the invariant of loop-head states ---------- *)
  Definition DI (s : dstate) (w : list nat) (fl : bool) : Prop :=
    pinv s w fl /\ tokens_ok g w /\ MInv g sts (ps_cursors s) (ps_values s) /\ (ps_rec s = true -> ps_cons s = false).

  (* the driver follows the reductions of the machine *)
  Lemma follow_red n : forall s w fl c1, DI s w fl ->
    rsteps g tbl n (ps_cursors s, ps_values s, rest_of s w) c1 ->
    (forall s1, DI s1 w fl -> ps_cursors s1 = fst (fst c1) -> ps_values s1 = snd (fst c1) ->
                ps_rec s1 = ps_rec s -> halts s1) ->
    halts s.
  Proof.
    induction n as [|n IH]; intros s w fl c1 HD Hr K; cbn [rsteps] in Hr.
    - subst c1. apply K; auto.
    - destruct Hr as (c0 & Hm & Hr). pose proof HD as (Hp & Hw & HM & Hmode).
      destruct (MInv_nonempty g sts tbl SF _ _ HM) as (cur & cs & Hcs & Hcur).
      destruct (step_look s w fl cur cs Hp Hcs) as [(x & Hx)|(s1 & Hs & H1 & H2 & H3 & H4 & Hp1 & _)].
      { eapply halts_inr; exact Hx. }
      pose proof (mred_rest g tbl _ _ Hm) as Erest. cbn [snd] in Erest.
      pose proof Hm as Hm0.
      unfold mred in Hm. rewrite Hcs in Hm.
      destruct (cell tbl cur (nterm_count g + look g (rest_of s w))) as [e|] eqn:Ec; [|discriminate].
      destruct (e_kind e) eqn:Ek; try discriminate. destruct (e_arg e) as [r|] eqn:Ea; [|discriminate].
      destruct (mreduce g tbl (cur :: cs) (ps_values s) (rest_of s w) r) as [c0'| | |] eqn:Emr; try discriminate.
      inversion Hm; subst c0'. clear Hm.
      rewrite (act_nonerror s1 cur _ e Ec ltac:(congruence)) in Hs.
      destruct (pa_red (clr s1) (look g (rest_of s w)) e r (rest_of s w) c0 Ek Ea) as (s3 & Hpa & G1 & G2 & G3 & G4 & G5 & G6 & G7 & G8).
      { rewrite clr_cursors, clr_values, H1, H2, Hcs. exact Emr. }
      rewrite Hpa in Hs.
      rewrite clr_rec in G3. rewrite clr_cons in G4. rewrite clr_sp in G5. rewrite clr_it in G6.
      rewrite clr_end in G7. rewrite clr_term in G8.
      destruct c0 as [[ss0 trs0] rest0]. cbn [fst snd] in *. subst rest0.
      assert (HD3 : DI s3 w fl).
      { split; [eapply pinv_keep; eassumption|]. split; [exact Hw|]. split.
        - rewrite G1, G2. eapply (MInv_mred g sts tbl SF); [exact HM|apply rest_of_lt; exact Hw|exact Hm0].
        - intros _. exact G4. }
      assert (Erest3 : rest_of s3 w = rest_of s w) by (unfold rest_of; rewrite G3, H3; reflexivity).
      eapply halts_inl; [exact Hs|].
      apply (IH s3 w fl c1 HD3).
      + rewrite G1, G2, Erest3. exact Hr.
      + intros s4 HD4 E1 E2 E3. apply K; auto. congruence.
  Qed.

  Lemma tokens_look_not_err w : tokens_ok g w -> look g w <> err_idx g.
  Proof.
    intros Hw. pose proof (err_eq _ _ _ SF) as He. destruct w as [|a w']; cbn; [lia|].
    inversion Hw; subst. lia.
  Qed.

  (* after the reductions: the shift of the lookahead, or the accept cell *)
  Lemma fin_halts s w fl : DI s w fl ->
    fin g tbl (ps_cursors s, ps_values s, rest_of s w) ->
    (forall s2, DI s2 (if ps_rec s then w else tl w) fl -> ps_rec s2 = false -> ps_cons s2 = ps_rec s ->
                (ps_rec s = false -> w <> []) -> halts s2) ->
    halts s.
  Proof.
    intros HD (n & c1 & Hr & Hend) K.
    apply (follow_red n s w fl c1 HD Hr). intros s1 HD1 E1 E2 E3.
    pose proof (rsteps_rest g tbl _ _ _ Hr) as Erest. cbn [snd] in Erest.
    destruct c1 as [[ss1 trs1] rest1]. cbn [fst snd] in *. subst rest1.
    destruct HD1 as (Hp & Hw & HM & Hmode).
    destruct (MInv_nonempty g sts tbl SF _ _ HM) as (cur & cs & Hcs & Hcur).
    destruct (step_look s1 w fl cur cs Hp Hcs) as [(x & Hx)|(s1' & Hs & H1 & H2 & H3 & H4 & Hp1 & Hready)].
    { eapply halts_inr; exact Hx. }
    assert (Er : rest_of s1 w = rest_of s w) by (unfold rest_of; rewrite E3; reflexivity).
    rewrite Er in Hs.
    pose proof (rest_of_lt s w Hw) as Hla.
    destruct Hend as [(c2 & Hsh & Hne)|Hsucc].
    - (* the shift *)
      pose proof Hsh as Hsh0. rewrite <- E1, <- E2 in Hsh0.
      unfold mshift in Hsh. rewrite <- E1 in Hsh. rewrite Hcs in Hsh.
      destruct (cell tbl cur (nterm_count g + look g (rest_of s w))) as [e|] eqn:Ec; [|discriminate].
      destruct (e_arg e) as [nst|] eqn:Ea; [|discriminate].
      rewrite (act_nonerror s1' cur _ e Ec) in Hs.
      2:{ intros Ek. rewrite Ek in Hsh. discriminate. }
      destruct (ps_rec s) eqn:Hrec.
      + (* recovery mode: the error symbol is shifted, consume mode begins *)
        assert (El : look g (rest_of s w) = err_idx g) by (unfold rest_of; rewrite Hrec; reflexivity).
        rewrite El, Nat.eqb_refl in Hsh.
        destruct (e_kind e) eqn:Ek; try discriminate. inversion Hsh; subst c2. clear Hsh.
        rewrite (pa_shift_err (clr s1') _ e nst Ek Ea) in Hs.
        eapply halts_inl; [exact Hs|]. apply K; try reflexivity; [|intros; discriminate].
        split; [|split; [exact Hw|split]].
        * eapply pinv_keep; [exact Hp1| | | |]; simp_ps; reflexivity.
        * cbn [ps_cursors ps_values]. rewrite clr_cursors, clr_values, H1, H2, Hcs, E2.
          eapply (MInv_mshift g sts tbl SF); [exact HM|exact Hla|exact Hsh0].
        * cbn. intros; discriminate.
      + (* a term is shifted *)
        assert (El : look g (rest_of s w) = look g w) by (unfold rest_of; rewrite Hrec; reflexivity).
        assert (Erw : rest_of s w = w) by (unfold rest_of; rewrite Hrec; reflexivity).
        pose proof (tokens_look_not_err w Hw) as Hnerr. apply Nat.eqb_neq in Hnerr.
        rewrite El, Hnerr in Hsh.
        destruct (e_kind e) eqn:Ek; try discriminate. inversion Hsh; subst c2. clear Hsh.
        destruct Hp1 as [Hle1 Hform1].
        rewrite (pa_shift (clr s1') _ e nst Ek Ea) in Hs by (rewrite clr_end; exact Hle1).
        eapply halts_inl; [exact Hs|].
        assert (Hrec1 : ps_rec s1' = false) by congruence.
        destruct (Hready ltac:(congruence)) as [Htm Hb].
        apply K; [|simp_ps; exact Hrec1|simp_ps; reflexivity|intros _; rewrite <- Erw; exact Hne].
        split; [|split; [|split]].
        * eapply (pinv_consume s1'); [split; eassumption|exact Hb| | |]; simp_ps; reflexivity.
        * destruct w; [constructor|inversion Hw; assumption].
        * simp_ps. rewrite H1, H2, Hcs, E2, El.
          eapply (MInv_mshift g sts tbl SF); [exact HM|exact Hla|exact Hsh0].
        * simp_ps. intros; congruence.
    - (* the accept cell *)
      destruct Hsucc as (cur' & ss' & e & Ecur & Ec & Ek). rewrite <- E1, Hcs in Ecur. inversion Ecur; subst cur' ss'.
      rewrite (act_nonerror s1' cur _ e Ec ltac:(congruence)) in Hs.
      destruct (pa_succ (clr s1') (look g (rest_of s w)) e Ek) as (x & Hx). rewrite Hx in Hs.
      eapply halts_inr; exact Hs.
  Qed.

  Lemma kind_error_dec e : e_kind e = KError \/ e_kind e <> KError.
  Proof. destruct (e_kind e); auto; right; discriminate. Qed.

  (* a state outside recovery mode (normal or consume mode) *)
  Lemma nc_step w fl :
    (forall s' w', length w' < length w -> ps_rec s' = false -> DI s' w' fl -> halts s') ->
    forall s, ps_rec s = false -> DI s w fl ->
      (ps_cons s = false -> forall sR, ps_rec sR = true -> ps_cons sR = false -> DI sR w fl -> halts sR) ->
      halts s.
  Proof.
    intros IH s Hrec HD HR. pose proof HD as (Hp & Hw & HM & Hmode).
    destruct (MInv_nonempty g sts tbl SF _ _ HM) as (cur & cs & Hcs & Hcur).
    assert (Hla : look g w < tc) by (apply (look_lt g sts tbl SF); exact Hw).
    assert (Erw : rest_of s w = w) by (unfold rest_of; rewrite Hrec; reflexivity).
    pose proof (cell_in_range _ _ _ SF cur (nterm_count g + look g w) Hcur ltac:(unfold symbol_count; lia)) as Hc.
    destruct (kind_error_dec (cell_at tbl cur (nterm_count g + look g w))) as [Ek|Ek].
    - (* error cell *)
      destruct (step_look s w fl cur cs Hp Hcs) as [(x & Hx)|(s1 & Hs & H1 & H2 & H3 & H4 & Hp1 & Hready)].
      { eapply halts_inr; exact Hx. }
      rewrite Erw in Hs. rewrite (act_error _ _ _ _ _ _ _ _ _ s1 cur _ _ Hc Ek) in Hs.
      destruct (Hready Hrec) as [Htm Hb].
      destruct (ps_cons s1) eqn:Hcn.
      + (* consume mode: discard the pending term, or give up at <eof> *)
        rewrite Htm in Hs. destruct (Nat.eqb (look g w) (eof_idx g)) eqn:Eeof.
        * eapply halts_inr; exact Hs.
        * eapply halts_inl; [exact Hs|].
          assert (Hwne : w <> []) by (intros ->; cbn in Eeof; rewrite Nat.eqb_refl in Eeof; discriminate).
          apply (IH _ (tl w)).
          -- destruct w; [contradiction|cbn; lia].
          -- simp_ps. congruence.
          -- split; [|split; [|split]].
             ++ eapply (pinv_consume s1); [exact Hp1|exact Hb| | |]; simp_ps; reflexivity.
             ++ destruct w; [constructor|inversion Hw; assumption].
             ++ simp_ps. rewrite H1, H2. exact HM.
             ++ simp_ps. intros; congruence.
      + (* normal mode: the error is reported, recovery mode begins *)
        rewrite H3, Hrec in Hs. cbn [negb] in Hs.
        eapply halts_inl; [exact Hs|]. apply HR; [congruence|reflexivity|reflexivity|].
        split; [|split; [exact Hw|split]].
        * eapply pinv_keep; [exact Hp1| | | |]; reflexivity.
        * cbn [set_modes ps_cursors ps_values]. rewrite H1, H2. exact HM.
        * cbn. intros _. reflexivity.
    - (* a non-error cell: reductions, then the shift of the pending term or the accept cell *)
      apply (fin_halts s w fl HD).
      + rewrite Erw, Hcs. eapply (finish g sts tbl Hval Hgen Hnonempty Hred Hprod); [rewrite <- Hcs; exact HM|exact Hla|exact Hc|exact Ek].
      + rewrite Hrec. intros s2 HD2 Hr2 _ Hne. apply (IH s2 (tl w)); [|exact Hr2|exact HD2].
        specialize (Hne eq_refl). destruct w; [contradiction|cbn; lia].
  Qed.

  (* recovery mode: pop until a state accepts the error symbol, act on it *)
  Lemma halts_R w fl :
    (forall s2, ps_rec s2 = false -> ps_cons s2 = true -> DI s2 w fl -> halts s2) ->
    forall k s, length (ps_cursors s) <= k -> ps_rec s = true -> ps_cons s = false -> DI s w fl -> halts s.
  Proof.
    intros HC. induction k as [|k IH]; intros s Hlen Hrec Hcons HD; pose proof HD as (Hp & Hw & HM & Hmode);
      destruct (MInv_nonempty g sts tbl SF _ _ HM) as (cur & cs & Hcs & Hcur).
    - rewrite Hcs in Hlen. cbn in Hlen. lia.
    - assert (Erw : rest_of s w = err_idx g :: w) by (unfold rest_of; rewrite Hrec; reflexivity).
      pose proof (sf_tc _ _ _ SF) as Htc.
      assert (Hla : err_idx g < tc) by (unfold err_idx; lia).
      pose proof (cell_in_range _ _ _ SF cur (nterm_count g + err_idx g) Hcur ltac:(unfold symbol_count; lia)) as Hc.
      destruct (kind_error_dec (cell_at tbl cur (nterm_count g + err_idx g))) as [Ek|Ek].
      + (* the top state rejects the error symbol: pop it, or give up *)
        assert (Hs : fst (dstep s) = fst (dact s cur (err_idx g))).
        { rewrite (step_rec _ _ _ _ _ _ _ _ _ _ _ s cur cs Hrec Hcs). reflexivity. }
        rewrite (act_error _ _ _ _ _ _ _ _ _ s cur _ _ Hc Ek), Hcons, Hrec in Hs. cbn [negb] in Hs.
        unfold pop_stacks in Hs. rewrite Hcs in Hs. cbn [tl] in Hs.
        destruct cs as [|top cs'].
        * eapply halts_inr; exact Hs.
        * cbn [fst] in Hs. eapply halts_inl; [exact Hs|]. apply IH.
          -- cbn [set_stacks ps_cursors]. rewrite Hcs in Hlen. cbn in Hlen |- *. lia.
          -- cbn. exact Hrec.
          -- cbn. exact Hcons.
          -- split; [|split; [exact Hw|split]].
             ++ eapply pinv_keep; [exact Hp| | | |]; reflexivity.
             ++ cbn [set_stacks ps_cursors ps_values]. rewrite Hcs in HM. eapply (MInv_pop g sts); exact HM.
             ++ cbn. intros _. exact Hcons.
      + (* it accepts the error symbol: reductions, then the error token is shifted *)
        apply (fin_halts s w fl HD).
        * rewrite Erw, Hcs. eapply (finish g sts tbl Hval Hgen Hnonempty Hred Hprod); [rewrite <- Hcs; exact HM|exact Hla|exact Hc|exact Ek].
        * rewrite Hrec. intros s2 HD2 Hr2 Hc2 _. apply HC; assumption.
  Qed.

  Theorem halts_all : forall m s w fl, length w <= m -> ps_rec s = false -> DI s w fl -> halts s.
  Proof.
    induction m as [m IHm] using lt_wf_ind. intros s w fl Hlen Hrec HD.
    assert (IH : forall s' w', length w' < length w -> ps_rec s' = false -> DI s' w' fl -> halts s').
    { intros s' w' Hlt. apply (IHm (length w')); lia. }
    assert (HC : forall s2, ps_rec s2 = false -> ps_cons s2 = true -> DI s2 w fl -> halts s2).
    { intros s2 H1 H2 H3. apply (nc_step w fl IH s2 H1 H3). intros E; congruence. }
    apply (nc_step w fl IH s Hrec HD). intros _ sR H1 H2 H3.
    apply (halts_R w fl HC (length (ps_cursors sR)) sR); auto.
  Qed.

  Theorem tree_driver_halts_recovery :
    exists fuel, fst (fst (run tree unit g tbl opts buf None lexer tf (ef g) rlf fuel tt)) <> OutOfFuel.
  Proof.
    destruct (stream_exists_B (length buf) sp0 0 ltac:(lia)) as (w & fl & Hst & Hw).
    destruct (halts_all (length w) (init tt) w fl (le_n _) eq_refl) as (fuel & Hf).
    - split; [|split; [exact Hw|split]].
      + unfold pinv. cbn. split; [lia|]. left. split; [reflexivity|exact Hst].
      + cbn. apply MInv_init.
      + cbn. intros; discriminate.
    - exists fuel. unfold run. apply Hf.
  Qed.
End DriverE.
