(* (K4) A sufficient stack capacity in the presence of empty rules, for ACCEPTED inputs, read off the derivation tree.
   The number of empty rules does not bound the stack (Proofs/CapFormulaCex.v); the number of empty REDUCTIONS does:
   during an accepting run of the tree driver with a soundly validated table without error symbol, the cursor stack
   never holds more than
         length w  +  (number of nodes [Node r []] of the accepted tree)  +  1
   entries (the value stack one less).  Reason: the trees on the stack are valid trees whose yields concatenate to
   the consumed input (SInv, Proofs/LRSound.v); a tree contributes at least one token or at least one empty node;
   tokens and empty nodes on the stack only accumulate, and at acceptance they are those of the accepted tree.
   The bound is reached by the grammar of finding D8. *)
Require Import Ctpg.Base.Prelude Ctpg.Model.Grammar Ctpg.Model.LRGen Ctpg.Model.Driver
               Ctpg.Spec.Cfg Ctpg.Spec.LRSpec Ctpg.Valid.LRValid
               Ctpg.Proofs.LRReflect Ctpg.Proofs.LRMachine Ctpg.Proofs.LRValidFacts Ctpg.Proofs.LRSound
               Ctpg.Proofs.DriverBasics Ctpg.Proofs.SafeBasics Ctpg.Proofs.SafeCap Ctpg.Proofs.SafeTerm
               Ctpg.Proofs.CapFormula.

(* nodes without children = reductions by an empty rule *)
Fixpoint empty_nodes (t : tree) : nat :=
  match t with
  | Leaf _ => 0
  | Node _ ch => (match ch with [] => 1 | _ => 0 end) + list_sum (map empty_nodes ch)
  end.

(* nodes with an empty yield (a coarser count: an empty-yield node with children has an empty node below it) *)
Fixpoint empty_yield_nodes (t : tree) : nat :=
  match t with
  | Leaf _ => 0
  | Node _ ch => (match flat_map yield ch with [] => 1 | _ => 0 end) + list_sum (map empty_yield_nodes ch)
  end.

Lemma list_sum_cons a b : list_sum (a :: b) = a + list_sum b.
Proof. reflexivity. Qed.

Lemma list_sum_le {A} (f h : A -> nat) l : Forall (fun x => f x <= h x) l -> list_sum (map f l) <= list_sum (map h l).
Proof. induction 1 as [|x l Hx _ IH]; [reflexivity|]. cbn [map]. rewrite !list_sum_cons. lia. Qed.

Lemma empty_nodes_le_empty_yield t : empty_nodes t <= empty_yield_nodes t.
Proof.
  induction t as [a|r ch IH] using tree_ind'; [reflexivity|].
  cbn [empty_nodes empty_yield_nodes]. pose proof (list_sum_le _ _ _ IH) as L.
  destruct ch as [|c ch]; [cbn; lia|]. lia.
Qed.

(* a tree holds a token or an empty node *)
Lemma yield_or_empty t : 1 <= length (yield t) + empty_nodes t.
Proof.
  induction t as [a|r ch IH] using tree_ind'; [cbn; lia|].
  cbn [yield empty_nodes]. destruct ch as [|c ch]; [cbn; lia|].
  inversion IH as [|? ? Hc _]; subst. cbn [flat_map map]. rewrite list_sum_cons, app_length. lia.
Qed.

Definition ylen (trs : list tree) : nat := list_sum (map (fun t => length (yield t)) trs).
Definition esum (trs : list tree) : nat := list_sum (map empty_nodes trs).

Lemma ylen_cons t trs : ylen (t :: trs) = length (yield t) + ylen trs.
Proof. reflexivity. Qed.
Lemma esum_cons t trs : esum (t :: trs) = empty_nodes t + esum trs.
Proof. reflexivity. Qed.

Lemma length_flat_map_yield trs : length (flat_map yield trs) = ylen trs.
Proof. unfold ylen. induction trs as [|t trs IH]; [reflexivity|]. cbn. rewrite app_length, IH. reflexivity. Qed.

Lemma ylen_rev trs : ylen (rev trs) = ylen trs.
Proof. unfold ylen. rewrite map_rev. apply list_sum_rev. Qed.
Lemma esum_rev trs : esum (rev trs) = esum trs.
Proof. unfold esum. rewrite map_rev. apply list_sum_rev. Qed.

Lemma ylen_app a b : ylen (a ++ b) = ylen a + ylen b.
Proof. unfold ylen. rewrite map_app. apply list_sum_app. Qed.
Lemma esum_app a b : esum (a ++ b) = esum a + esum b.
Proof. unfold esum. rewrite map_app. apply list_sum_app. Qed.

Lemma ylen_split n trs : ylen trs = ylen (firstn n trs) + ylen (skipn n trs).
Proof. rewrite <- ylen_app, firstn_skipn. reflexivity. Qed.
Lemma esum_split n trs : esum trs = esum (firstn n trs) + esum (skipn n trs).
Proof. rewrite <- esum_app, firstn_skipn. reflexivity. Qed.

Lemma length_le_ylen_esum trs : length trs <= ylen trs + esum trs.
Proof.
  induction trs as [|t trs IH]; [cbn; lia|]. rewrite ylen_cons, esum_cons. cbn [length].
  pose proof (yield_or_empty t). lia.
Qed.

Lemma Forall2_len {A B} (R : A -> B -> Prop) l1 l2 : Forall2 R l1 l2 -> length l1 = length l2.
Proof. induction 1; cbn; congruence. Qed.

Section MachineHeight.
  Variable g : grammar.
  Variable sts : list items.
  Variable tbl : table.
  Variable w : list nat.
  Hypothesis SF : sound_facts g sts tbl.

  (* tokens on the stack plus tokens still to read; empty nodes on the stack *)
  Definition total (c : cfg) : nat := let '(_, trs, rest) := c in ylen trs + length rest.
  Definition empties (c : cfg) : nat := let '(_, trs, _) := c in esum trs.

  Lemma mstep_mono c c' : mstep g tbl c = Next c' -> total c <= total c' /\ empties c <= empties c'.
  Proof.
    destruct c as [[ss trs] rest]. unfold mstep. destruct ss as [|cur ss]; [discriminate|].
    destruct (cell tbl cur (nterm_count g + look g rest)) as [e|c]; [|discriminate].
    destruct (e_kind e); try discriminate.
    - destruct (rev trs); discriminate.
    - destruct (e_arg e); [|discriminate]. intros H; inversion H; subst. cbn [total empties].
      rewrite ylen_cons, esum_cons. cbn [yield empty_nodes length]. destruct rest; cbn [tl length]; lia.
    - destruct (e_arg e) as [r|]; [|discriminate]. unfold mreduce.
      destruct (nth_error (rule_infos g) r) as [ri|]; [|discriminate].
      destruct (Nat.ltb (length (cur :: ss)) (ri_n ri)); [discriminate|].
      destruct (skipn (ri_n ri) (cur :: ss)) as [|top ?]; [discriminate|].
      destruct (cell tbl top (ri_l ri)) as [e'|]; [|discriminate].
      destruct (e_arg e'); [|discriminate]. destruct (Nat.ltb (length trs) (ri_n ri)); [discriminate|].
      intros H; inversion H; subst. cbn [total empties].
      rewrite (ylen_split (ri_n ri) trs), (esum_split (ri_n ri) trs).
      rewrite ylen_cons, esum_cons. cbn [yield empty_nodes].
      rewrite length_flat_map_yield, ylen_rev.
      fold (esum (rev (firstn (ri_n ri) trs))). rewrite esum_rev. lia.
  Qed.

  Lemma msteps_mono k : forall c c', msteps g tbl k c c' -> total c <= total c' /\ empties c <= empties c'.
  Proof.
    induction k as [|k IH]; intros c c' H; cbn [msteps] in H.
    - subst. lia.
    - destruct H as (c1 & Hs & H). apply IH in H. apply mstep_mono in Hs. lia.
  Qed.

  Lemma SInv_total ss trs rest : SInv g sts w (ss, trs, rest) -> length w <= total (ss, trs, rest).
  Proof.
    intros (syms & _ & _ & (k & Hy) & _). cbn [total].
    apply (f_equal (@length nat)) in Hy. rewrite !app_length, length_flat_map_yield, ylen_rev, repeat_length in Hy. lia.
  Qed.

  (* at acceptance everything has been read, and the stack holds the accepted tree *)
  Lemma SInv_acc_total ss trs rest t :
    SInv g sts w (ss, trs, rest) -> mstep g tbl (ss, trs, rest) = Acc t ->
    total (ss, trs, rest) = length w /\ empties (ss, trs, rest) = empty_nodes t.
  Proof.
    intros Hi Ha.
    pose proof (SInv_acc_single g sts tbl w SF _ _ _ _ Hi Ha) as Et. subst trs.
    destruct (SInv_acc g sts tbl w SF _ _ Hi Ha) as (s & _ & _ & Hy).
    destruct Hi as (syms & _ & _ & (k & Hk) & Hr).
    cbn [rev app flat_map] in Hk. rewrite app_nil_r, Hy in Hk. apply app_inv_head in Hk. subst rest.
    assert (k = 0).
    { destruct k as [|k]; [reflexivity|]. cbn in Hr. inversion Hr; lia. }
    subst k. cbn [total empties]. unfold ylen, esum. cbn. rewrite Hy. lia.
  Qed.

  Theorem mach_height k c c' t :
    SInv g sts w c -> msteps g tbl k c c' -> mstep g tbl c' = Acc t ->
    length (fst (fst c)) <= length w + empty_nodes t + 1.
  Proof.
    intros Hi Hs Ha.
    pose proof (msteps_SInv g sts tbl w SF k _ _ Hs Hi) as Hi'.
    destruct (msteps_mono _ _ _ Hs) as [Ht He].
    destruct c' as [[ss' trs'] rest']. destruct (SInv_acc_total _ _ _ _ Hi' Ha) as [Et Ee].
    destruct c as [[ss trs] rest]. pose proof (SInv_total _ _ _ Hi) as Hl.
    destruct Hi as (syms & Hst & Hv & _ & _).
    pose proof (stk_len g sts _ _ Hst) as Hlen. apply Forall2_len in Hv.
    pose proof (length_le_ylen_esum trs) as L. cbn [fst total empties] in *. lia.
  Qed.
End MachineHeight.

(* ---------- the last state of a run is not higher than the last loop-head state ---------- *)
Section FinalHeight.
  Variables V C : Type.
  Variable g : grammar.
  Variable tbl : table.
  Variable opts : options.
  Variable buf : list nat.
  Variable cap : option nat.
  Variable lexer : bool -> spoint -> list nat -> list lex_event * option (nat * nat).
  Variable term_f : nat -> nat -> nat -> spoint -> V.
  Variable err_f : spoint -> V.
  Variable rule_f : nat -> C -> list V -> C * V.

  Lemma step_final_height s :
    match fst (step V C g tbl opts buf cap lexer term_f err_f rule_f s) with
    | inl _ => True
    | inr (_, s') => height s' <= height s
    end.
  Proof.
    unfold height. apply step_cases2.
    - intros _. lia.
    - intros s1 ev1 Hg. destruct (gct_stacks Hg) as (E & _). rewrite E. lia.
    - intros cur cs s1 t ev1 r Hcs Hg Ha. destruct (gct_stacks Hg) as (E & _). rewrite <- E.
      inversion Ha; subst r; simp_ps; try exact I; try lia.
      destruct (ps_cursors s1); cbn [tl length]; lia.
  Qed.
End FinalHeight.

(* ---------- an accepting run of the tree driver follows the machine ---------- *)
Section Follow.
  Variable g : grammar.
  Variable sts : list items.
  Variable tbl : table.
  Variable w : list nat.
  Hypothesis SF : sound_facts g sts tbl.
  Hypothesis Herr : err_col_empty g tbl.

  Notation dstate := (pstate tree unit).
  Notation dstep := (step tree unit g tbl tree_opts w None id_lexer tf (ef g) rlf).
  Notation drun := (run_from tree unit g tbl tree_opts w None id_lexer tf (ef g) rlf).
  Notation dgh := (run_gh tree unit g tbl tree_opts w None id_lexer tf (ef g) rlf).

  Lemma acc_follow fuel : forall (s : dstate) out, normal w s -> SInv g sts w (abs w s) ->
    let '(r, sf, _, v) := dgh fuel s out [] in
    forall t, r = Accept t ->
      (exists k c', msteps g tbl k (abs w s) c' /\ mstep g tbl c' = Acc t) /\
      forall x, In x (v ++ [sf]) -> height x <= length w + empty_nodes t + 1.
  Proof.
    induction fuel as [|f IH]; intros s out Hn Hi; cbn [run_gh]; [intros t Ht; discriminate|].
    pose proof (step_sim g tbl w s Hn) as Hs.
    pose proof (step_final_height tree unit g tbl tree_opts w None id_lexer tf (ef g) rlf s) as Hfin.
    destruct (mstep g tbl (abs w s)) as [c'|v0| |] eqn:Em.
    - (* the machine moves on *)
      destruct Hs as (s' & ev & Hs & Hn' & Ha). subst c'. rewrite Hs.
      rewrite (run_gh_shift tree unit g tbl tree_opts w id_lexer tf (ef g) rlf None f s' _ ([] ++ [s])).
      specialize (IH s' (out ++ filter (visible tree_opts) ev) Hn' (SInv_next g sts tbl w SF _ _ Hi Em)).
      destruct (dgh f s' (out ++ filter (visible tree_opts) ev) []) as [[[r sf] o] v].
      intros t Ht. destruct (IH t Ht) as [(k & c' & Hk & Hacc) Hall].
      assert (Hreach : msteps g tbl (S k) (abs w s) c') by (cbn; eauto).
      split; [eauto|]. intros x Hx. cbn [app] in Hx. destruct Hx as [<-|Hx]; [|exact (Hall x Hx)].
      pose proof (mach_height g sts tbl w SF (S k) _ _ t Hi Hreach Hacc) as H. exact H.
    - (* the machine accepts *)
      destruct Hs as (s' & ev & Hs). rewrite Hs in Hfin |- *. cbn [fst] in Hfin.
      intros t Ht. inversion Ht; subst v0.
      assert (Hreach : msteps g tbl 0 (abs w s) (abs w s)) by reflexivity.
      pose proof (mach_height g sts tbl w SF 0 _ _ t Hi Hreach Em) as H. change (height s <= length w + empty_nodes t + 1) in H.
      split; [exists 0, (abs w s); auto|]. intros x Hx. cbn [app] in Hx.
      destruct Hx as [<-|[<-|[]]]; [exact H|lia].
    - (* the machine fails: the run does not accept *)
      destruct Hs as [(r & s' & ev & Hs & Hna)|(s' & ev & Hs & Hr' & Hc')]; rewrite Hs.
      + intros t Ht. exfalso. exact (Hna _ Ht).
      + pose proof (rec_run g tbl w Herr f s' (out ++ filter (visible tree_opts) ev) Hr' Hc') as Hna.
        rewrite (run_gh_run tree unit g tbl tree_opts w None id_lexer tf (ef g) rlf f s' _ ([] ++ [s])) in Hna.
        destruct (dgh f s' (out ++ filter (visible tree_opts) ev) ([] ++ [s])) as [[[r sf] o] v]. cbn [fst] in Hna.
        intros t Ht. exfalso. exact (Hna _ Ht).
    - exfalso. exact (SInv_not_bad g sts tbl w SF _ Hi Em).
  Qed.
End Follow.

(* (K4) every loop-head state of an accepting run, and its final state, has at most
   length w + empty_nodes t + 1 cursors *)
Theorem height_le_tree : forall g sts tbl w t fuel,
  validate_sound g sts tbl = true -> no_error_symbol g tbl = true -> tokens_ok g w ->
  tree_run g tbl w fuel = Accept t ->
  never_above tree unit g tbl tree_opts w id_lexer tf (ef g) rlf (length w + empty_nodes t + 1) fuel tt.
Proof.
  intros g sts tbl w t fuel Hv Hne Hw Hacc.
  pose proof (sound_facts_of g sts tbl Hv) as SF.
  pose proof (acc_follow g sts tbl w SF (no_error_symbol_cell g tbl Hne) fuel (init tt) []
                (init_normal w) (SInv_init g sts w Hw)) as H.
  unfold never_above. rewrite tree_run_eq in Hacc.
  rewrite (run_gh_run tree unit g tbl tree_opts w None id_lexer tf (ef g) rlf fuel (init tt) [] []) in Hacc.
  destruct (run_gh tree unit g tbl tree_opts w None id_lexer tf (ef g) rlf fuel (init tt) [] []) as [[[r sf] o] v].
  cbn [fst] in Hacc. exact (proj2 (H t Hacc)).
Qed.

Lemma never_above_mono V C g tbl opts buf lexer term_f err_f rule_f n m fuel c : n <= m ->
  never_above V C g tbl opts buf lexer term_f err_f rule_f n fuel c ->
  never_above V C g tbl opts buf lexer term_f err_f rule_f m fuel c.
Proof.
  unfold never_above.
  destruct (run_gh V C g tbl opts buf None lexer term_f err_f rule_f fuel (init c) [] []) as [[[r sf] o] v].
  intros Hle H x Hx. specialize (H x Hx). lia.
Qed.

(* hence every capacity from that height on yields the same run (result, final state, output) *)
Theorem capacity_from_tree_suffices : forall g sts tbl w t fuel,
  validate_sound g sts tbl = true -> no_error_symbol g tbl = true -> tokens_ok g w ->
  tree_run g tbl w fuel = Accept t ->
  forall n, length w + empty_nodes t + 1 <= n ->
    tree_run_cap g tbl (Some n) w fuel = tree_run_cap g tbl None w fuel /\
    fst (fst (tree_run_cap g tbl (Some n) w fuel)) = Accept t.
Proof.
  intros g sts tbl w t fuel Hv Hne Hw Hacc n Hn.
  pose proof (height_le_tree g sts tbl w t fuel Hv Hne Hw Hacc) as Hna.
  apply (never_above_mono _ _ _ _ _ _ _ _ _ _ _ n _ _ Hn) in Hna.
  assert (E : tree_run_cap g tbl (Some n) w fuel = tree_run_cap g tbl None w fuel).
  { unfold tree_run_cap. apply (capacity_irrelevant_tight tree unit g tbl tree_opts w id_lexer tf (ef g) rlf n fuel tt).
    - lia.
    - exact Hna.
    - intros cr. change (tree_run g tbl w fuel <> Crash cr). rewrite Hacc. discriminate. }
  split; [exact E|]. rewrite E. exact Hacc.
Qed.

(* the coarser count of the task statement: nodes with an empty yield *)
Corollary height_le_tree_empty_yield : forall g sts tbl w t fuel,
  validate_sound g sts tbl = true -> no_error_symbol g tbl = true -> tokens_ok g w ->
  tree_run g tbl w fuel = Accept t ->
  never_above tree unit g tbl tree_opts w id_lexer tf (ef g) rlf (length w + empty_yield_nodes t + 1) fuel tt.
Proof.
  intros g sts tbl w t fuel Hv Hne Hw Hacc.
  eapply never_above_mono; [|exact (height_le_tree g sts tbl w t fuel Hv Hne Hw Hacc)].
  pose proof (empty_nodes_le_empty_yield t). lia.
Qed.

(* the crude bound from the iteration count: an iteration pushes at most one entry, and there are tsize t + 1 *)
Corollary height_le_tsize : forall g sts tbl w t fuel,
  validate_sound g sts tbl = true -> no_error_symbol g tbl = true -> tokens_ok g w ->
  tree_run g tbl w fuel = Accept t ->
  never_above tree unit g tbl tree_opts w id_lexer tf (ef g) rlf (tsize t + 1) fuel tt.
Proof.
  intros g sts tbl w t fuel Hv Hne Hw Hacc.
  eapply never_above_mono; [|exact (height_le_tree g sts tbl w t fuel Hv Hne Hw Hacc)].
  destruct (accepted_fuel_exact g sts tbl w t Hv Hne Hw (ex_intro _ fuel Hacc)) as [E _].
  assert (empty_nodes t <= nodes t).
  { clear. induction t as [a|r ch IH] using tree_ind'; [reflexivity|]. cbn [empty_nodes nodes].
    pose proof (list_sum_le _ _ _ IH). destruct ch; cbn in *; lia. }
  lia.
Qed.

Print Assumptions mach_height.
Print Assumptions height_le_tree.
Print Assumptions capacity_from_tree_suffices.
Print Assumptions height_le_tree_empty_yield.
Print Assumptions height_le_tsize.
