(* Basic facts about item equality, add_item and first-occurrence de-duplication, used by CellResolve.v. *)
Require Import Ctpg.Base.Prelude Ctpg.Model.Grammar Ctpg.Model.LRGen Ctpg.Spec.Conflict.

Lemma item_eqb_eq : forall a b, item_eqb a b = true <-> a = b.
Proof.
  intros [r1 d1 t1] [r2 d2 t2]; unfold item_eqb; simpl.
  rewrite !andb_true_iff, !Nat.eqb_eq. split.
  - intros [[-> ->] ->]; reflexivity.
  - intros H; inversion H; auto.
Qed.

Lemma item_eqb_refl : forall a, item_eqb a a = true.
Proof. intros a; apply item_eqb_eq; reflexivity. Qed.

Lemma item_eqb_neq : forall a b, item_eqb a b = false <-> a <> b.
Proof.
  intros a b. split.
  - intros H E. apply item_eqb_eq in E. congruence.
  - intros H. destruct (item_eqb a b) eqn:E; auto. apply item_eqb_eq in E. contradiction.
Qed.

Lemma item_eqb_sym : forall a b, item_eqb a b = item_eqb b a.
Proof.
  intros a b. destruct (item_eqb a b) eqn:E.
  - apply item_eqb_eq in E. subst. symmetry. apply item_eqb_refl.
  - symmetry. apply item_eqb_neq. apply item_eqb_neq in E. congruence.
Qed.

Lemma item_eq_dec : forall a b : item, {a = b} + {a <> b}.
Proof.
  intros a b. destruct (item_eqb a b) eqn:E.
  - left. apply item_eqb_eq; assumption.
  - right. apply item_eqb_neq; assumption.
Qed.

Lemma mem_item_In : forall x l, mem_item x l = true <-> In x l.
Proof.
  intros x l. induction l as [|y l IH]; simpl.
  - split; [discriminate | tauto].
  - destruct (item_eqb x y) eqn:E.
    + apply item_eqb_eq in E. subst. split; auto.
    + rewrite IH. apply item_eqb_neq in E. split; [auto | intros [H | H]; [congruence | assumption]].
Qed.

Lemma mem_item_app : forall x a b, mem_item x (a ++ b) = mem_item x a || mem_item x b.
Proof.
  intros x a b. induction a as [|y a IH]; simpl; auto.
  destruct (item_eqb x y); auto.
Qed.

Lemma filter_comm {A} (p q : A -> bool) (l : list A) :
  filter p (filter q l) = filter q (filter p l).
Proof.
  induction l as [|x l IH]; simpl; auto.
  destruct (p x) eqn:P, (q x) eqn:Q; simpl; rewrite ?P, ?Q, ?IH; auto.
Qed.

Lemma filter_filter {A} (p q : A -> bool) (l : list A) :
  filter p (filter q l) = filter (fun x => q x && p x) l.
Proof.
  induction l as [|x l IH]; simpl; auto.
  destruct (q x) eqn:Q; simpl; [destruct (p x) eqn:P|]; rewrite ?IH; auto.
Qed.

Lemma filter_ext_in' {A} (p q : A -> bool) (l : list A) :
  (forall x, In x l -> p x = q x) -> filter p l = filter q l.
Proof.
  induction l as [|x l IH]; simpl; intros H; auto.
  rewrite (H x) by auto. rewrite IH by auto. reflexivity.
Qed.

(* ---------- dedup_first ---------- *)

Lemma dedup_first_filter : forall (p : item -> bool) l,
  dedup_first (filter p l) = filter p (dedup_first l).
Proof.
  intros p l. induction l as [|x l IH]; simpl; auto.
  destruct (p x) eqn:P; simpl.
  - f_equal. rewrite IH. apply filter_comm.
  - rewrite IH. rewrite filter_comm. symmetry.
    rewrite filter_filter. apply filter_ext_in'. intros y _.
    destruct (p y) eqn:Py; simpl; auto.
    destruct (item_eqb x y) eqn:E; auto. apply item_eqb_eq in E. congruence.
Qed.

Lemma dedup_first_In : forall x l, In x (dedup_first l) <-> In x l.
Proof.
  intros x l. induction l as [|y l IH]; simpl; [tauto|].
  rewrite filter_In, IH. split.
  - intros [H | [H _]]; auto.
  - intros [H | H]; auto.
    destruct (item_eq_dec y x) as [E | E]; auto.
    right. split; auto. apply item_eqb_neq in E. rewrite E. reflexivity.
Qed.

Lemma dedup_first_NoDup : forall l, NoDup (dedup_first l).
Proof.
  induction l as [|y l IH]; simpl; constructor.
  - rewrite filter_In. intros [_ H]. rewrite item_eqb_refl in H. discriminate.
  - apply NoDup_filter. assumption.
Qed.

Lemma filter_true_id {A} (p : A -> bool) (l : list A) :
  (forall x, In x l -> p x = true) -> filter p l = l.
Proof.
  induction l as [|x l IH]; simpl; intros H; auto.
  rewrite (H x) by auto. rewrite IH by auto. reflexivity.
Qed.

Lemma dedup_first_NoDup_id : forall l, NoDup l -> dedup_first l = l.
Proof.
  induction l as [|y l IH]; simpl; intros H; auto.
  inversion H; subst. rewrite IH by assumption. f_equal.
  apply filter_true_id. intros x Hx. apply negb_true_iff. apply item_eqb_neq.
  intros ->. contradiction.
Qed.

(* ---------- fold_left add_item ---------- *)

Lemma fold_add_item : forall l acc,
  fold_left add_item l acc = acc ++ dedup_first (filter (fun y => negb (mem_item y acc)) l).
Proof.
  induction l as [|x l IH]; intros acc; simpl.
  - rewrite app_nil_r. reflexivity.
  - unfold add_item at 2. destruct (mem_item x acc) eqn:M; simpl.
    + apply IH.
    + rewrite IH. rewrite <- app_assoc. simpl. f_equal. f_equal.
      rewrite <- dedup_first_filter. f_equal.
      rewrite filter_filter. apply filter_ext_in'. intros y _.
      rewrite mem_item_app. simpl. rewrite (item_eqb_sym y x).
      destruct (item_eqb x y), (mem_item y acc); reflexivity.
Qed.

Lemma fold_add_item_nil : forall l, fold_left add_item l [] = dedup_first l.
Proof.
  intros l. rewrite fold_add_item. simpl. f_equal.
  induction l; simpl; [|f_equal]; auto.
Qed.

(* the C++ push-if-absent loop adds nothing but the new elements, and keeps what was there, in order *)
Lemma fold_add_item_In : forall l acc x, In x (fold_left add_item l acc) <-> In x acc \/ In x l.
Proof.
  intros l acc x. rewrite fold_add_item, in_app_iff, dedup_first_In, filter_In. split.
  - intros [H | [H _]]; auto.
  - intros [H | H]; auto.
    destruct (mem_item x acc) eqn:M.
    + left. apply mem_item_In. assumption.
    + right. split; auto.
Qed.
