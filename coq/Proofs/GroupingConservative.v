(* The validator for resolved tables is conservative over the full LR(1) validator: a table without conflicts that
   passes [validate] passes [validate_resolved]. (The converse fails exactly on tables with resolved conflicts, see
   Proofs/GroupingExamples.v.) *)
Require Import Ctpg.Base.Prelude Ctpg.Model.Grammar Ctpg.Model.LRGen Ctpg.Model.Driver
               Ctpg.Spec.Cfg Ctpg.Spec.Conflict Ctpg.Valid.LRValid Ctpg.Valid.LRResolved
               Ctpg.Proofs.LRReflect Ctpg.Proofs.LRValidFacts Ctpg.Proofs.LRComplete Ctpg.Proofs.GroupingFacts.

Section Conservative.
  Variable g : grammar.
  Variable sts : list items.
  Variable tbl : table.
  Variable ne : bset.
  Variable nf : list bset.
  Hypothesis CF : complete_facts g sts tbl ne nf.

  Let SF : sound_facts g sts tbl := cf_sound _ _ _ _ _ CF.
  Notation items_of := (state_items sts).

  Lemma goto_target_not_reduce s t s' :
    goto_target g tbl s (T t) = Some s' -> e_kind (cell_at tbl s (col_of_term g t)) = KReduce -> False.
  Proof.
    unfold goto_target, col_of_term. cbn [sym_col]. intros H E. rewrite E in H. discriminate.
  Qed.

  Lemma conservative_cell s t : s < length sts -> cell_spec g sts tbl s t.
  Proof.
    intros Hs. unfold cell_spec.
    assert (forall i, In i (red_items g sts s t) -> is_reduce g tbl s t (it_r i)) as Hred.
    { intros i Hi. apply in_red_items in Hi. destruct Hi as (Hi & Hc & Hnr & Ht).
      destruct (cf_reduce _ _ _ _ _ CF s i Hs Hi Hc) as [_ H]. specialize (H Hnr). rewrite Ht in H. exact H. }
    assert (forall l, (forall j, In j l -> In j (sh_items g sts s t)) -> l <> [] -> has_target g sts tbl s (T t) l) as Hsh.
    { intros l Hl Hne. destruct l as [|j0 l0]; [contradiction Hne; reflexivity|].
      assert (forall j, In j (j0 :: l0) -> exists s', goto_target g tbl s (T t) = Some s' /\ s' < length sts /\
                                                      In (advance j) (items_of s')) as Hj.
      { intros j Hin. apply Hl in Hin. apply in_sh_items in Hin. destruct Hin as (Hi & Hc & Hn).
        destruct (cf_goto _ _ _ _ _ CF s j Hs Hi Hc) as (x & s' & Hx & Hg & Hlt & Hin).
        assert (x = T t) by congruence. subst x. exists s'. auto. }
      destruct (Hj j0 (or_introl eq_refl)) as (s' & Hg & Hlt & _).
      exists s'. split; [assumption|]. split; [assumption|].
      intros j Hin. destruct (Hj j Hin) as (s1 & Hg1 & _ & H1). assert (s1 = s') by congruence. subst s1. assumption. }
    split; [|split; [|split]].
    - intros i j Hi Hj. destruct (Hred i Hi) as [_ A]. destruct (Hred j Hj) as [_ B]. congruence.
    - intros _ Hne. apply Hsh; [auto|assumption].
    - intros i Hi _. apply Hred. assumption.
    - (* shift/reduce cannot happen in a table that passes the full check *)
      intros i Hi Hne. exfalso. destruct (Hred i Hi) as [Hk _].
      destruct (Hsh _ (fun j H => H) Hne) as (s' & Hg & _). eapply goto_target_not_reduce; eassumption.
  Qed.
End Conservative.

Theorem table_ok_resolved_ok g sts tbl ne nf : table_ok g sts tbl ne nf = true -> resolved_ok g sts tbl ne nf = true.
Proof.
  intros H. pose proof (complete_facts_of _ _ _ _ _ H) as CF.
  unfold table_ok in H. apply andb_true_iff in H. destruct H as [H Hst].
  unfold resolved_ok. rewrite H. cbn [andb]. rewrite forallb_seq0 in Hst |- *.
  intros s Hs. specialize (Hst s Hs). apply andb_true_iff in Hst. destruct Hst as [Hst Hred].
  apply andb_true_iff in Hst. destruct Hst as [Hcl Hgo].
  unfold state_resolved. rewrite Hcl. cbn [andb]. apply andb_true_iff. split; [apply andb_true_iff; split|].
  - (* nonterminal columns *)
    unfold nt_goto_ok. unfold goto_ok in Hgo. rewrite forallb_forall in Hgo |- *. intros i Hi. specialize (Hgo i Hi).
    destruct (is_complete g i); [reflexivity|]. destruct (next_sym g i) as [[t|b]|]; try reflexivity.
    unfold target_has. destruct (goto_target g tbl s (NT b)) as [s'|]; [|discriminate].
    cbn [forallb]. rewrite andb_true_r. exact Hgo.
  - (* accept *)
    unfold accept_ok. unfold reduce_ok in Hred. rewrite forallb_forall in Hred |- *. intros i Hi. specialize (Hred i Hi).
    destruct (is_complete g i); [|reflexivity]. cbn [andb]. destruct (Nat.eqb (it_r i) (root_rule_idx g)); [|reflexivity].
    exact Hred.
  - rewrite forallb_seq0. intros t Ht. apply cell_resolved_iff. apply conservative_cell with (ne := ne) (nf := nf); assumption.
Qed.

Theorem validate_implies_resolved g sts tbl : validate g sts tbl = true -> validate_resolved g sts tbl = true.
Proof. apply table_ok_resolved_ok. Qed.

Print Assumptions validate_implies_resolved.
