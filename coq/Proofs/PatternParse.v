(* The pattern parser: the LR driver run with the hand-written scanner and the table generated for the pattern grammar.
   (P2, second half) the scanner is an admissible lexer oracle; (P3) the pattern parse never crashes and never throws;
   (P4) whatever it gives a meaning to is a well-formed token string of the pattern grammar. *)
Require Import Ctpg.Base.Prelude Ctpg.Model.Grammar Ctpg.Model.LRGen Ctpg.Model.Driver Ctpg.Model.Dfa
               Ctpg.Model.RegexFront Ctpg.Spec.Cfg Ctpg.Spec.LRSpec Ctpg.Spec.Eval
               Ctpg.Valid.LRValid Ctpg.Valid.LRSafe
               Ctpg.Proofs.LRReflect Ctpg.Proofs.LRMachine Ctpg.Proofs.LRValidFacts Ctpg.Proofs.LRSound
               Ctpg.Proofs.DriverBasics Ctpg.Proofs.DriverEval Ctpg.Proofs.SafeDriver
               Ctpg.Proofs.PatternLex.

(* ---------- the generated grammar record, item sets and table, computed once ---------- *)
Definition regex_gen_all : option (grammar * list items * table) :=
  match analyze regex_raw_grammar with
  | Some g => match gen g with
              | inl (sts, tb) => Some (g, map st_all sts, tb)
              | inr _ => None
              end
  | None => None
  end.

Definition regex_g : grammar :=
  ltac:(let v := eval vm_compute in regex_gen_all in match v with Some (?g, _, _) => exact g end).
Definition regex_sts : list items :=
  ltac:(let v := eval vm_compute in regex_gen_all in match v with Some (_, ?s, _) => exact s end).
Definition regex_tb : table :=
  ltac:(let v := eval vm_compute in regex_gen_all in match v with Some (_, _, ?t) => exact t end).

Lemma regex_gen_all_eq : regex_gen_all = Some (regex_g, regex_sts, regex_tb).
Proof. vm_compute. reflexivity. Qed.

Lemma regex_grammar_table_eq : regex_grammar_table = Some (regex_g, regex_tb).
Proof. vm_compute. reflexivity. Qed.

Lemma regex_eof_idx : eof_idx regex_g = 10.
Proof. vm_compute. reflexivity. Qed.

Lemma regex_safe_ok : safe_ok regex_g regex_sts regex_tb = true.
Proof. vm_compute. reflexivity. Qed.

Lemma regex_validate_sound : validate_sound regex_g regex_sts regex_tb = true.
Proof. vm_compute. reflexivity. Qed.

Lemma regex_no_error_symbol : no_error_symbol regex_g regex_tb = true.
Proof. vm_compute. reflexivity. Qed.

(* the full validator does not hold: the table has the resolved shift/reduce conflict of alt -> alt '|' alt *)
Lemma regex_validate_full : validate regex_g regex_sts regex_tb = false.
Proof. vm_compute. reflexivity. Qed.

Lemma parse_pattern_eq pat : parse_pattern pat = parse_pattern_with regex_g regex_tb pat.
Proof. unfold parse_pattern. rewrite regex_grammar_table_eq. reflexivity. Qed.

(* ---------- (P2) the scanner as a lexer oracle of SafeDriver.v ---------- *)
Theorem regex_lexer_ok_for g : 10 <= eof_idx g -> lexer_ok_for g regex_lexer.
Proof. intros Hg v sp rest t len H. apply regex_lexer_range in H. lia. Qed.

Theorem regex_lexer_ok_on g buf : 10 <= eof_idx g -> lexer_ok_on g buf regex_lexer.
Proof. intros Hg. apply lexer_ok_for_on. apply regex_lexer_ok_for. exact Hg. Qed.

(* ---------- without a stack capacity the driver never throws ---------- *)
Section NoThrow.
  Variables V C : Type.
  Variable g : grammar.
  Variable tbl : table.
  Variable opts : options.
  Variable buf : list nat.
  Variable lexer : bool -> spoint -> list nat -> list lex_event * option (nat * nat).
  Variable term_f : nat -> nat -> nat -> spoint -> V.
  Variable err_f : spoint -> V.
  Variable rule_f : nat -> C -> list V -> C * V.

  Lemma do_reduce_no_throw s r : do_reduce V C g tbl None rule_f s r <> inr Throw.
  Proof.
    unfold do_reduce. cbn [full].
    destruct (nth_error (rule_infos g) r) as [ri|]; [|discriminate].
    destruct (Nat.ltb (length (ps_cursors s)) (ri_n ri)); [discriminate|].
    destruct (skipn (ri_n ri) (ps_cursors s)) as [|top cs]; [discriminate|].
    destruct (cell tbl top (ri_l ri)) as [e|c]; [|discriminate].
    destruct (e_arg e) as [nst|]; [|discriminate].
    destruct (Nat.ltb (length (ps_values s)) (ri_n ri)); [discriminate|].
    destruct (rule_f (ri_r ri) (ps_ctx s) (rev (firstn (ri_n ri) (ps_values s)))) as [c' v]. discriminate.
  Qed.

  Lemma act_no_throw s1 cursor t s' : fst (act V C g tbl buf None term_f err_f rule_f s1 cursor t) <> inr (Throw, s').
  Proof.
    unfold act. cbn [full].
    destruct (cell tbl cursor (nterm_count g + t)) as [e|c]; [|discriminate].
    set (s2 := if ps_cons s1 then set_modes s1 (ps_rec s1) false else s1).
    destruct (e_kind e).
    - destruct (ps_cons s1).
      + destruct (match ps_term s1 with Some x => Nat.eqb x (eof_idx g) | None => false end); discriminate.
      + destruct (negb (ps_rec s1)); [discriminate|].
        destruct (pop_stacks V C s1) as [[s3 ev]|[s3 ev]]; discriminate.
    - destruct (rev (ps_values s2)); discriminate.
    - destruct (e_arg e) as [nst|]; [|discriminate].
      destruct (Nat.ltb (length buf) (ps_end s2)); discriminate.
    - destruct (e_arg e) as [nst|]; discriminate.
    - destruct (e_arg e) as [r|]; [|discriminate].
      pose proof (do_reduce_no_throw s2 r) as H.
      destruct (do_reduce V C g tbl None rule_f s2 r) as [[s3 ev]|res]; [discriminate|].
      cbn [fst]. intros H'. inversion H'. subst. apply H. reflexivity.
    - destruct (e_arg e) as [r|]; [|discriminate].
      pose proof (do_reduce_no_throw s2 r) as H.
      destruct (do_reduce V C g tbl None rule_f s2 r) as [[s3 ev]|res]; [discriminate|].
      cbn [fst]. intros H'. inversion H'. subst. apply H. reflexivity.
  Qed.

  Lemma step_no_throw s s' : fst (step V C g tbl opts buf None lexer term_f err_f rule_f s) <> inr (Throw, s').
  Proof.
    unfold step. destruct (ps_cursors s) as [|cursor cs]; [discriminate|].
    destruct (get_current_term V C g opts buf lexer s) as [[s1 ot] ev1].
    destruct ot as [t|]; [|discriminate].
    pose proof (act_no_throw s1 cursor t s') as H.
    destruct (act V C g tbl buf None term_f err_f rule_f s1 cursor t) as [r ev2]. exact H.
  Qed.

  Lemma run_from_no_throw fuel : forall s out,
    fst (fst (run_from V C g tbl opts buf None lexer term_f err_f rule_f fuel s out)) <> Throw.
  Proof.
    induction fuel as [|f IH]; intros s out; cbn [run_from]; [discriminate|].
    pose proof (step_no_throw s) as H.
    destruct (step V C g tbl opts buf None lexer term_f err_f rule_f s) as [[s'|[r s']] ev]; [apply IH|].
    cbn [fst] in *. intros ->. exact (H s' eq_refl).
  Qed.

  Theorem run_no_throw fuel c :
    fst (fst (run V C g tbl opts buf None lexer term_f err_f rule_f fuel c)) <> Throw.
  Proof. apply run_from_no_throw. Qed.
End NoThrow.

(* ---------- (P3) ---------- *)
(* the run underlying parse_pattern_with, for any fuel *)
Definition pattern_run (g : grammar) (tb : table) (pat : list nat) (fuel : nat) : result rval :=
  fst (fst (run rval unit g tb regex_opts pat None regex_lexer (regex_term_f pat) (fun _ => VTok) regex_rule_f fuel tt)).

Lemma parse_pattern_with_run g tb pat :
  parse_pattern_with g tb pat =
  match pattern_run g tb pat (10 * length pat + 20) with Accept (VRe r) => Some r | _ => None end.
Proof. reflexivity. Qed.

Theorem pattern_parse_no_crash g tb pat fuel cr :
  regex_grammar_table = Some (g, tb) -> pattern_run g tb pat fuel <> Crash cr.
Proof.
  rewrite regex_grammar_table_eq. intros H. inversion H; subst g tb. unfold pattern_run.
  apply (no_crash_safe_ok rval unit regex_g regex_sts regex_tb); [exact regex_safe_ok|].
  apply regex_lexer_ok_on. rewrite regex_eof_idx. lia.
Qed.

Theorem pattern_parse_no_throw g tb pat fuel : pattern_run g tb pat fuel <> Throw.
Proof. unfold pattern_run. apply run_no_throw. Qed.

(* the only ways a pattern parse ends: a value, rejection, or (with too little fuel) no answer *)
Corollary pattern_parse_outcomes g tb pat fuel :
  regex_grammar_table = Some (g, tb) ->
  (exists v, pattern_run g tb pat fuel = Accept v) \/ pattern_run g tb pat fuel = Reject \/
  pattern_run g tb pat fuel = OutOfFuel.
Proof.
  intros H. pose proof (pattern_parse_no_crash g tb pat fuel) as Hc. pose proof (pattern_parse_no_throw g tb pat fuel) as Ht.
  destruct (pattern_run g tb pat fuel) as [v| |c| |]; eauto.
  - exfalso. exact (Hc c H eq_refl).
  - exfalso. exact (Ht eq_refl).
Qed.


(* ================================================================================================= *)
(* (P4) acceptance by the driver on BYTES with a scanner  ==>  acceptance by the abstract LR machine  *)
(*      on the TERM sequence the scanner defines                                                      *)
(* ================================================================================================= *)

(* no shift-error / reduce-reduce cell anywhere, success only in the <eof> column *)
Definition plain_cellb (g : grammar) (c : nat) (e : entry) : bool :=
  match e_kind e with
  | KShiftErr | KRR => false
  | KSuccess => Nat.eqb c (nterm_count g + eof_idx g)
  | _ => true
  end.
Definition plain_tableb (g : grammar) (tbl : table) : bool :=
  forallb (fun row => forallb (fun c => plain_cellb g c (nth c row entry_default)) (seq 0 (length row))) tbl.

Lemma plain_table_ok g tbl : plain_tableb g tbl = true ->
  forall st c e, cell tbl st c = inl e -> plain_cellb g c e = true.
Proof.
  intros H st c e Hc. unfold cell in Hc.
  destruct (nth_error tbl st) as [row|] eqn:E1; [|discriminate].
  destruct (nth_error row c) as [e'|] eqn:E2; [|discriminate]. inversion Hc; subst e'.
  unfold plain_tableb in H. rewrite forallb_forall in H. specialize (H row (nth_error_In _ _ E1)).
  rewrite forallb_forall in H.
  assert (Hlt : c < length row) by (apply nth_error_Some; congruence).
  specialize (H c ltac:(apply in_seq; lia)). rewrite (nth_error_nth _ _ entry_default E2) in H. exact H.
Qed.

Lemma mreduce_rest g tbl cs vs rest r :
  mreduce g tbl cs vs rest r =
  match mreduce g tbl cs vs [] r with Next (a, b, _) => Next (a, b, rest) | x => x end.
Proof.
  unfold mreduce. destruct (nth_error (rule_infos g) r) as [ri|]; [|reflexivity].
  destruct (Nat.ltb (length cs) (ri_n ri)); [reflexivity|].
  destruct (skipn (ri_n ri) cs) as [|top cs']; [reflexivity|].
  destruct (cell tbl top (ri_l ri)) as [e|c]; [|reflexivity].
  destruct (e_arg e); [|reflexivity]. destruct (Nat.ltb (length vs) (ri_n ri)); reflexivity.
Qed.

Section PatSim.
  Variable g : grammar.
  Variable tbl : table.
  Variable buf : list nat.
  Variable lexer : bool -> spoint -> list nat -> list lex_event * option (nat * nat).
  (* the verdict does not depend on the verbose flag or the source point *)
  Hypothesis lexer_sp : forall v p v' q rest, snd (lexer v p rest) = snd (lexer v' q rest).
  Hypothesis lexer_rng : forall v p rest t len, snd (lexer v p rest) = Some (t, len) ->
                                               0 < len /\ len <= length rest /\ t < eof_idx g.
  Hypothesis Hplain : forall st c e, cell tbl st c = inl e -> plain_cellb g c e = true.
  Hypothesis Herr : err_col_empty g tbl.

  Notation dstate := (pstate tree unit).
  Notation dstep := (step tree unit g tbl regex_opts buf None lexer tf (ef g) rlf).
  Notation drun := (run_from tree unit g tbl regex_opts buf None lexer tf (ef g) rlf).
  Notation dgct := (get_current_term tree unit g regex_opts buf lexer).

  Definition lexv (rest : list nat) : option (nat * nat) := snd (lexer false sp0 rest).

  (* the term sequence the scanner defines from offset pos to the end of the buffer *)
  Inductive toks_from : nat -> list nat -> Prop :=
  | TfEof pos : skipn pos buf = [] -> toks_from pos []
  | TfTok pos c rest t len ws : skipn pos buf = c :: rest -> lexv (c :: rest) = Some (t, len) ->
                                toks_from (pos + len) ws -> toks_from pos (t :: ws).

  Definition pending (s : dstate) (la : nat) : Prop :=
    exists c rest len, skipn (ps_it s) buf = c :: rest /\ lexv (c :: rest) = Some (la, len) /\
                       ps_end s = ps_it s + len /\ ps_term s = Some la.
  Definition at_eof (s : dstate) : Prop := skipn (ps_it s) buf = [] /\ ps_end s = ps_it s.
  Definition cur_tok (s : dstate) (la : nat) : Prop := (la = eof_idx g /\ at_eof s) \/ pending s la.
  Definition ppos_ok (s : dstate) : Prop := ps_it s = ps_end s \/ exists la, pending s la.
  Definition pnormal (s : dstate) : Prop := ps_rec s = false /\ ps_cons s = false /\ ppos_ok s.

  Lemma init_pnormal : pnormal (init tt).
  Proof. unfold pnormal, ppos_ok. cbn. auto. Qed.

  Lemma gct_pnormal s : pnormal s ->
    (exists s1 ev, dgct s = (s1, None, ev)) \/
    (exists s1 la ev, dgct s = (s1, Some la, ev) /\
       ps_cursors s1 = ps_cursors s /\ ps_values s1 = ps_values s /\ ps_rec s1 = false /\ ps_cons s1 = false /\
       ps_it s1 = ps_it s /\ cur_tok s1 la).
  Proof.
    destruct s as [cs vs sp it en tm rc cn cx]. unfold pnormal, ppos_ok. cbn [ps_rec ps_cons ps_it ps_end].
    intros (Hr & Hc & Hp). subst rc cn.
    unfold get_current_term. cbn [ps_rec ps_it ps_end ps_term ps_sp regex_opts o_skip_ws o_verbose].
    destruct (Nat.eqb_spec it en) as [He|Hne]; cbn [negb].
    - subst en. cbn [skipn firstn sp_update]. rewrite !Nat.add_0_r.
      destruct (skipn it buf) as [|c rest] eqn:Esk.
      + right. eexists; eexists; eexists. split; [reflexivity|]. cbn.
        repeat split; try reflexivity. left. split; [reflexivity|]. unfold at_eof. cbn. auto.
      + destruct (lexer false sp (c :: rest)) as [lx res] eqn:El. destruct res as [[t len]|].
        * right. eexists; eexists; eexists. split; [reflexivity|]. cbn.
          repeat split; try reflexivity. right. exists c, rest, len. cbn. repeat split; auto.
          unfold lexv. rewrite (lexer_sp false sp0 false sp), El. reflexivity.
        * left. eexists; eexists. reflexivity.
    - destruct Hp as [Hp|(la & c & rest & len & H1 & H2 & H3 & H4)]; [contradiction|]. cbn in H1, H2, H3, H4.
      right. eexists; exists la; eexists. split; [rewrite H4; reflexivity|]. cbn.
      repeat split; try reflexivity. right. exists c, rest, len. cbn. auto.
  Qed.

  Lemma toks_from_cur s la ws : cur_tok s la -> toks_from (ps_it s) ws ->
    look g ws = la /\
    ((la = eof_idx g /\ at_eof s /\ ws = []) \/ (pending s la /\ exists ws', ws = la :: ws' /\ toks_from (ps_end s) ws')).
  Proof.
    intros [[Hla [H1 H2]]|(c & rest & len & H1 & H2 & H3 & H4)] Ht.
    - inversion Ht as [pos Hsk|pos c rest t len ws' Hsk Hl Hr]; subst.
      + split; [reflexivity|]. left. repeat split; auto.
      + rewrite H1 in Hsk. discriminate.
    - inversion Ht as [pos Hsk|pos c' rest' t len' ws' Hsk Hl Hr]; subst.
      + rewrite H1 in Hsk. discriminate.
      + rewrite H1 in Hsk. inversion Hsk; subst c' rest'. rewrite H2 in Hl. inversion Hl; subst t len'.
        split; [reflexivity|]. right. split; [exists c, rest, len; auto|]. exists ws'. split; [reflexivity|].
        rewrite H3. exact Hr.
  Qed.

  Lemma pending_not_eof s la : pending s la -> la <> eof_idx g.
  Proof. intros (c & rest & len & _ & H & _). apply lexer_rng in H. lia. Qed.

  Definition out_fail (s : dstate) : Prop :=
    exists r s' ev, dstep s = (inr (r, s'), ev) /\ not_accept r.
  Definition out_rec (s : dstate) : Prop :=
    exists s' ev, dstep s = (inl s', ev) /\ ps_rec s' = true /\ ps_cons s' = false.

  Lemma pstep_sim s : pnormal s ->
    out_fail s \/ out_rec s \/
    (exists v s' ev, dstep s = (inr (Accept v, s'), ev) /\ toks_from (ps_it s) [] /\
                     mstep g tbl (ps_cursors s, ps_values s, []) = Acc v) \/
    (exists s' ev, dstep s = (inl s', ev) /\ pnormal s' /\
       forall ws', toks_from (ps_it s') ws' ->
         exists ws, toks_from (ps_it s) ws /\
                    mstep g tbl (ps_cursors s, ps_values s, ws) = Next (ps_cursors s', ps_values s', ws')).
  Proof.
    intros Hn. unfold out_fail, out_rec, step. destruct (ps_cursors s) as [|cur cs] eqn:Ecs.
    { left. do 3 eexists. split; [reflexivity|]. intros v; discriminate. }
    destruct (gct_pnormal s Hn) as [(s1 & ev1 & Hg)|(s1 & la & ev1 & Hg & Hcs & Hvs & Hr & Hc & Hit & Hct)]; rewrite Hg.
    { left. do 3 eexists. split; [reflexivity|]. intros v; discriminate. }
    cbv beta iota. unfold act. destruct (cell tbl cur (nterm_count g + la)) as [e|c] eqn:Ecell.
    2:{ left. do 3 eexists. split; [reflexivity|]. intros v; discriminate. }
    pose proof (Hplain _ _ _ Ecell) as Hpl. unfold plain_cellb in Hpl.
    rewrite Hc. destruct (e_kind e) eqn:Ek; try discriminate Hpl.
    - (* KError *) rewrite Hr. cbn [negb]. right; left. do 2 eexists. split; [reflexivity|].
      destruct s1; cbn in *; auto.
    - (* KSuccess *)
      apply Nat.eqb_eq in Hpl. assert (Hla : la = eof_idx g) by lia.
      rewrite Hvs. destruct (rev (ps_values s)) as [|v vs'] eqn:Erev.
      + left. do 3 eexists. split; [reflexivity|]. intros v; discriminate.
      + right; right; left. exists v. do 2 eexists. split; [reflexivity|].
        destruct Hct as [[_ [H1 H2]]|Hp]; [|exfalso; exact (pending_not_eof _ _ Hp Hla)].
        split; [apply TfEof; rewrite <- Hit; exact H1|].
        unfold mstep. cbn [look hd]. rewrite <- Hla, Ecell, Ek, Erev. reflexivity.
    - (* KShift *)
      destruct (e_arg e) as [nst|] eqn:Earg.
      2:{ left. do 3 eexists. split; [reflexivity|]. intros v; discriminate. }
      cbn [full]. destruct (Nat.ltb (length buf) (ps_end s1)).
      { left. do 3 eexists. split; [reflexivity|]. intros v; discriminate. }
      right; right; right. do 2 eexists. split; [reflexivity|].
      split.
      + destruct s1 as [cs1 vs1 sp1 it1 en1 tm1 rc1 cn1 cx1]. cbn in *. subst.
        unfold pnormal, ppos_ok; cbn. auto.
      + intros ws' Hws'.
        assert (Hit' : ps_it (consume_term tree unit buf (set_stacks s1 (nst :: ps_cursors s1)
                         (tf la (ps_it s1) (ps_end s1 - ps_it s1) (ps_sp s1) :: ps_values s1))) = ps_end s1).
        { destruct s1; reflexivity. }
        rewrite Hit' in Hws'.
        assert (Hcv : forall s', ps_cursors (consume_term tree unit buf s') = ps_cursors s' /\
                                 ps_values (consume_term tree unit buf s') = ps_values s').
        { intros s'; destruct s'; cbn; auto. }
        destruct (Hcv (set_stacks s1 (nst :: ps_cursors s1)
                         (tf la (ps_it s1) (ps_end s1 - ps_it s1) (ps_sp s1) :: ps_values s1))) as [-> ->].
        cbn [set_stacks ps_cursors ps_values]. rewrite Hcs, Hvs, Ecs. unfold tf.
        destruct Hct as [[Hla [H1 H2]]|Hp].
        * rewrite H2 in Hws'. inversion Hws' as [pos Hsk|pos c rest t len ws'' Hsk Hl Hrr]; subst.
          2:{ rewrite H1 in Hsk. discriminate. }
          exists []. split; [apply TfEof; rewrite <- Hit; exact H1|].
          unfold mstep. cbn [look hd tl]. rewrite Ecell, Ek, Earg. reflexivity.
        * destruct Hp as (c & rest & len & H1 & H2 & H3 & H4).
          exists (la :: ws'). split.
          -- rewrite <- Hit. eapply TfTok; eauto. rewrite <- H3. exact Hws'.
          -- unfold mstep. cbn [look hd tl]. rewrite Ecell, Ek, Earg. reflexivity.
    - (* KReduce *)
      destruct (e_arg e) as [r|] eqn:Earg.
      2:{ left. do 3 eexists. split; [reflexivity|]. intros v; discriminate. }
      pose proof (reduce_sim g tbl s1 r []) as Hrs. rewrite Hcs, Hvs, Ecs in Hrs.
      destruct (mreduce g tbl (cur :: cs) (ps_values s) [] r) as [[[sts' trs'] rest']| | |] eqn:Emr.
      + destruct Hrs as (s3 & ev & Hd & H1 & H2 & H3 & H4 & H5 & H6 & H7 & H8). rewrite Hd.
        right; right; right. do 2 eexists. split; [reflexivity|]. split.
        * unfold pnormal. rewrite H4, H5. repeat split; try assumption.
          unfold ppos_ok. destruct Hct as [[_ [Ha Hb]]|(c & rest & len & Ha & Hb & Hc' & Hd')].
          -- left. rewrite H6, H7. auto.
          -- right. exists la, c, rest, len. rewrite H6, H7, H8. auto.
        * intros ws' Hws'. rewrite H6 in Hws'. exists ws'. split; [rewrite <- Hit; exact Hws'|].
          destruct (toks_from_cur s1 la ws' Hct Hws') as [Hlook _].
          unfold mstep. rewrite Hlook, Ecell, Ek, Earg, mreduce_rest, Emr, H1, H2. reflexivity.
      + contradiction.
      + destruct Hrs as (res & Hd & Hna). rewrite Hd. left. do 3 eexists. split; [reflexivity|assumption].
      + contradiction.
  Qed.

  (* recovery mode never accepts when the error column is empty *)
  Lemma prec_step s : ps_rec s = true -> ps_cons s = false -> out_fail s \/ out_rec s.
  Proof.
    intros Hr Hc. unfold out_fail, out_rec. destruct s as [cs vs sp it en tm rc cn cx]. cbn in Hr, Hc. subst rc cn.
    unfold step; cbn [ps_cursors]. destruct cs as [|cur cs].
    - left. do 3 eexists. split; [reflexivity|]. intros v; discriminate.
    - unfold get_current_term; cbn [ps_rec]. cbv beta iota. unfold act.
      destruct (cell tbl cur (nterm_count g + err_idx g)) as [e|c] eqn:Ecell.
      2:{ left. do 3 eexists. split; [reflexivity|]. intros v; discriminate. }
      rewrite (Herr _ _ Ecell). cbn [ps_cons ps_rec negb]. unfold pop_stacks. cbn [ps_cursors ps_values tl].
      destruct cs as [|top cs'].
      + left. do 3 eexists. split; [reflexivity|]. intros v; discriminate.
      + right. do 2 eexists. split; [reflexivity|]. cbn. auto.
  Qed.

  Lemma prec_run : forall fuel s out, ps_rec s = true -> ps_cons s = false ->
    not_accept (fst (fst (drun fuel s out))).
  Proof.
    induction fuel as [|f IH]; intros s out Hr Hc; cbn [run_from].
    - cbn. intros v; discriminate.
    - destruct (prec_step s Hr Hc) as [(r & s' & ev & Hs & Hna)|(s' & ev & Hs & Hr' & Hc')]; rewrite Hs.
      + cbn. assumption.
      + apply IH; assumption.
  Qed.

  Lemma psim_sound fuel : forall s out t, pnormal s -> fst (fst (drun fuel s out)) = Accept t ->
    exists ws n, toks_from (ps_it s) ws /\ mrun g tbl n (ps_cursors s, ps_values s, ws) = Some t.
  Proof.
    induction fuel as [|f IH]; intros s out t Hn Hrun; cbn [run_from] in Hrun; [cbn in Hrun; discriminate|].
    destruct (pstep_sim s Hn) as [(r & s' & ev & Hs & Hna)|[(s' & ev & Hs & Hr' & Hc')|[(v & s' & ev & Hs & Htf & Hm)|(s' & ev & Hs & Hn' & Hnx)]]];
      rewrite Hs in Hrun.
    - cbn in Hrun. exfalso. exact (Hna _ Hrun).
    - exfalso. exact (prec_run _ _ _ Hr' Hc' _ Hrun).
    - cbn in Hrun. inversion Hrun; subst v. exists [], 1. split; [assumption|]. cbn [mrun]. rewrite Hm. reflexivity.
    - destruct (IH _ _ _ Hn' Hrun) as (ws' & n & Hws' & Hm). destruct (Hnx ws' Hws') as (ws & Hws & Hst).
      exists ws, (S n). split; [assumption|]. cbn [mrun]. rewrite Hst. exact Hm.
  Qed.

  (* ---------- the term sequence is the one [tokenize] delivers ---------- *)
  Lemma toks_from_terms pos ws : toks_from pos ws -> pos <= length buf ->
    tokens_ok g ws /\ pos + length ws <= length buf /\
    exists toks, map (fun tk => fst (fst tk)) toks = ws /\
      forall F, length ws < F -> tokenize F regex_opts lexer buf pos = (toks, TokEof (length buf)).
  Proof.
    induction 1 as [pos Hsk|pos c rest t len ws Hsk Hl Hr IH]; intros Hpos.
    - split; [constructor|]. split; [cbn; lia|]. exists []. split; [reflexivity|]. intros F HF.
      destruct F as [|F]; [cbn in HF; lia|]. cbn [tokenize regex_opts o_skip_ws o_verbose skipn]. rewrite Nat.add_0_r, Hsk.
      apply skipn_nil_ge in Hsk. f_equal. f_equal. lia.
    - unfold lexv in Hl. pose proof (lexer_rng _ _ _ _ _ Hl) as (Hl1 & Hl2 & Hl3).
      assert (Hlen : length (c :: rest) = length buf - pos) by (rewrite <- Hsk; apply skipn_length).
      destruct (IH ltac:(lia)) as (Hok & Hle & toks & Hmap & Htk).
      split; [constructor; assumption|]. split; [cbn [length]; lia|].
      exists ((t, pos, len) :: toks). split; [cbn; f_equal; exact Hmap|]. intros F HF.
      destruct F as [|F]; [lia|]. cbn [tokenize regex_opts o_skip_ws o_verbose skipn]. rewrite Nat.add_0_r, Hsk.
      rewrite (lexer_sp false (true_pos buf pos) false sp0), Hl.
      rewrite (Htk F ltac:(cbn [length] in HF; lia)). reflexivity.
  Qed.
End PatSim.

(* ---------- the control path does not depend on the algebra: acceptance transfers to the tree algebra ---------- *)
Fixpoint strip (g : grammar) (t : ptree) : tree :=
  match t with
  | PLeaf a _ _ _ => Leaf a
  | PErr _ => Leaf (err_idx g)
  | PNode r ch => Node r (map (strip g) ch)
  end.

Lemma accept_any_algebra (V C : Type) g tbl opts buf cap lexer
      (term_f : nat -> nat -> nat -> spoint -> V) (err_f : spoint -> V) (rule_f : nat -> C -> list V -> C * V) c0 fuel v :
  fst (fst (run V C g tbl opts buf cap lexer term_f err_f rule_f fuel c0)) = Accept v ->
  exists t, fst (fst (run tree unit g tbl opts buf cap lexer tf (ef g) rlf fuel tt)) = Accept t.
Proof.
  intros Hacc.
  pose proof (run_same_path V C g tbl opts buf cap lexer term_f err_f rule_f c0 fuel) as Hp.
  destruct (run ptree (list (nat * list ptree)) g tbl opts buf cap lexer tree_term_f tree_err_f tree_rule_f fuel [])
    as [[rT sT] outT] eqn:ET.
  destruct (run V C g tbl opts buf cap lexer term_f err_f rule_f fuel c0) as [[rA sA] outA].
  cbn [fst] in Hacc. subst rA. destruct Hp as (Hs & _ & _).
  destruct rT as [pt| | | |]; try discriminate Hs.
  exists (strip g pt).
  pose proof (run_gh_hom ptree (list (nat * list ptree)) tree unit g tbl opts buf cap lexer
                tree_term_f tree_err_f tree_rule_f tf (ef g) rlf (strip g) (fun _ => tt)
                (fun _ _ _ _ => eq_refl) (fun _ => eq_refl) (fun _ _ _ => eq_refl) fuel (init []) [] []) as Hh.
  unfold run in ET |- *.
  rewrite (run_gh_run _ _ _ _ _ _ _ _ _ _ _ fuel (init []) [] []) in ET.
  rewrite (run_gh_run _ _ _ _ _ _ _ _ _ _ _ fuel (init tt) [] []).
  change (map_st (strip g) (fun _ : list (nat * list ptree) => tt) (init [])) with (@init tree unit tt) in Hh.
  cbn [map] in Hh. rewrite Hh.
  destruct (run_gh ptree (list (nat * list ptree)) g tbl opts buf cap lexer tree_term_f tree_err_f tree_rule_f fuel (init []) [] [])
    as [[[r s'] out'] vis']. inversion ET; subst. reflexivity.
Qed.

(* ---------- the facts about the generated pattern table the transfer needs ---------- *)
Lemma regex_plain_table : plain_tableb regex_g regex_tb = true.
Proof. vm_compute. reflexivity. Qed.

Lemma regex_err_col : err_col_empty regex_g regex_tb.
Proof. exact (no_error_symbol_cell _ _ regex_no_error_symbol). Qed.

Lemma regex_lexer_sp v p v' q rest : snd (regex_lexer v p rest) = snd (regex_lexer v' q rest).
Proof. rewrite !regex_lexer_snd. reflexivity. Qed.

Lemma regex_lexer_rng v p rest t len : snd (regex_lexer v p rest) = Some (t, len) ->
  0 < len /\ len <= length rest /\ t < eof_idx regex_g.
Proof. intros H. apply regex_lexer_range in H. rewrite regex_eof_idx. exact H. Qed.

Definition tok_term (tk : nat * nat * nat) : nat := fst (fst tk).

(* (P4) for any fuel and any accepted value: the whole pattern was scanned (the token stream ends with <eof> at the end
   of the pattern: no unscannable byte anywhere) and its term sequence is derivable in the pattern grammar *)
Theorem pattern_accept_wellformed pat fuel v :
  pattern_run regex_g regex_tb pat fuel = Accept v ->
  exists toks,
    (forall F, length pat < F -> tokenize F regex_opts regex_lexer pat 0 = (toks, TokEof (length pat))) /\
    derives regex_g (map tok_term toks) /\
    toks_from pat regex_lexer 0 (map tok_term toks).
Proof.
  intros Hacc. unfold pattern_run in Hacc.
  destruct (accept_any_algebra _ _ _ _ _ _ _ _ _ _ _ _ _ _ Hacc) as (t & Ht).
  unfold run in Ht.
  destruct (psim_sound regex_g regex_tb pat regex_lexer regex_lexer_sp regex_lexer_rng
              (plain_table_ok _ _ regex_plain_table) regex_err_col fuel (init tt) [] t
              (init_pnormal pat regex_lexer) Ht) as (ws & n & Hws & Hm).
  cbn [init ps_it ps_cursors ps_values] in Hws, Hm.
  destruct (toks_from_terms regex_g pat regex_lexer regex_lexer_sp regex_lexer_rng 0 ws Hws (Nat.le_0_l _))
    as (Hok & Hle & toks & Hmap & Htk).
  exists toks. unfold tok_term. rewrite Hmap. split; [|split; [|exact Hws]].
  - intros F HF. apply Htk. lia.
  - exists t. apply (lr_sound regex_g regex_sts regex_tb ws t regex_validate_sound regex_no_error_symbol Hok).
    eapply mrun_accepts. exact Hm.
Qed.

Theorem parse_pattern_wellformed pat r :
  parse_pattern pat = Some r ->
  exists toks,
    (forall F, length pat < F -> tokenize F regex_opts regex_lexer pat 0 = (toks, TokEof (length pat))) /\
    derives regex_g (map tok_term toks).
Proof.
  rewrite parse_pattern_eq, parse_pattern_with_run. intros H.
  destruct (pattern_run regex_g regex_tb pat (10 * length pat + 20)) as [v| | | |] eqn:E; try discriminate.
  destruct (pattern_accept_wellformed pat _ v E) as (toks & H1 & H2 & _). eauto.
Qed.

(* in the form with the grammar/table as delivered by regex_grammar_table *)
Corollary parse_pattern_wellformed' g tb pat r :
  regex_grammar_table = Some (g, tb) -> parse_pattern_with g tb pat = Some r ->
  exists toks,
    (forall F, length pat < F -> tokenize F regex_opts regex_lexer pat 0 = (toks, TokEof (length pat))) /\
    derives g (map tok_term toks).
Proof.
  rewrite regex_grammar_table_eq. intros H. inversion H; subst g tb. rewrite <- parse_pattern_eq.
  apply parse_pattern_wellformed.
Qed.

(* ---------- corollaries: malformed patterns are rejected ---------- *)
Lemma nth_skipn_add {A} (l : list A) pos j d : nth j (skipn pos l) d = nth (pos + j) l d.
Proof.
  revert l. induction pos as [|pos IH]; intros l; [reflexivity|].
  destruct l as [|x l]; [destruct j; reflexivity|]. cbn [skipn Nat.add nth]. apply IH.
Qed.

Lemma toks_from_lex c rest t len :
  lexv regex_lexer (c :: rest) = Some (t, len) -> lex_at (c :: rest) 0 = Tok t len.
Proof. unfold lexv. apply regex_lexer_inv. Qed.

Lemma toks_from_printable pat pos ws : toks_from pat regex_lexer pos ws ->
  forall k, pos <= k < length pat -> is_printable (nth k pat 0) = true.
Proof.
  induction 1 as [pos Hsk|pos c rest t len ws Hsk Hl Hr IH]; intros k Hk.
  - apply skipn_nil_ge in Hsk. lia.
  - apply toks_from_lex in Hl.
    destruct (Nat.lt_ge_cases k (pos + len)) as [Hlt|Hge]; [|apply IH; lia].
    pose proof (lexeme_printable (c :: rest) 0 t len Hl (k - pos) ltac:(lia)) as Hp.
    unfold pr in Hp. rewrite <- Hsk, nth_skipn_add in Hp. replace (pos + (k - pos)) with k in Hp by lia. exact Hp.
Qed.

(* a raw non-printable byte anywhere (also >= 128, inside a set, after a backslash) makes the pattern unacceptable *)
Theorem nonprintable_rejected pat c : In c pat -> is_printable c = false -> parse_pattern pat = None.
Proof.
  intros Hin Hnp. destruct (parse_pattern pat) as [r|] eqn:E; [|reflexivity]. exfalso.
  rewrite parse_pattern_eq, parse_pattern_with_run in E.
  destruct (pattern_run regex_g regex_tb pat (10 * length pat + 20)) as [v| | | |] eqn:Er; try discriminate.
  destruct (pattern_accept_wellformed pat _ v Er) as (toks & _ & _ & Htf).
  destruct (In_nth _ _ 0 Hin) as (k & Hk & Hnth).
  pose proof (toks_from_printable pat 0 _ Htf k ltac:(lia)) as Hp. rewrite Hnth in Hp. congruence.
Qed.

Theorem empty_pattern_rejected : parse_pattern [] = None.
Proof. vm_compute. reflexivity. Qed.

(* an opening bracket at a token boundary (nothing but one-byte tokens before it) with no closing bracket after it *)
Lemma toks_from_unterminated pre rest pos ws :
  (forall c, In c pre -> c <> 92 /\ c <> 91) -> ~ In 93 rest ->
  toks_from (pre ++ 91 :: rest) regex_lexer pos ws -> pos <= length pre -> False.
Proof.
  intros Hpre Hrest. set (pat := pre ++ 91 :: rest).
  assert (Hlen : length pat = length pre + S (length rest)) by (unfold pat; rewrite app_length; reflexivity).
  induction 1 as [pos Hsk|pos c rest' t len ws Hsk Hl Hr IH]; intros Hpos.
  - apply skipn_nil_ge in Hsk. fold pat in Hsk. lia.
  - apply toks_from_lex in Hl. fold pat in Hsk.
    pose proof (lex_at_in_range _ _ _ _ Hl) as (Hl1 & Hl2 & _). cbn [Nat.add] in Hl2.
    assert (Hlr : length (c :: rest') = length pat - pos) by (rewrite <- Hsk; apply skipn_length).
    assert (Hc : pr (c :: rest') 0 = nth pos pat 0).
    { unfold pr. rewrite <- Hsk, nth_skipn_add. f_equal. lia. }
    destruct (Nat.eq_dec pos (length pre)) as [Heq|Hne].
    + assert (H91 : pr (c :: rest') 0 = 91).
      { rewrite Hc. unfold pat. rewrite app_nth2 by lia. rewrite Heq, Nat.sub_diag. reflexivity. }
      destruct (lexeme_set_closed _ _ _ _ Hl H91) as (_ & H2 & H93). cbn [Nat.add] in H93.
      unfold pr in H93. rewrite <- Hsk, nth_skipn_add in H93. unfold pat in H93.
      rewrite app_nth2 in H93 by lia.
      replace (pos + (len - 1) - length pre) with (S (len - 2)) in H93 by lia. cbn [nth] in H93.
      apply Hrest. rewrite <- H93. apply nth_In. lia.
    + assert (Hin : In (nth pos pat 0) pre).
      { unfold pat. rewrite app_nth1 by lia. apply nth_In. lia. }
      destruct (Hpre _ Hin) as [H92 H91]. rewrite <- Hc in H92, H91.
      pose proof (lexeme_single _ _ _ _ Hl H92 H91) as H1. subst len. apply IH. lia.
Qed.

Theorem unterminated_set_rejected pre rest :
  (forall c, In c pre -> c <> 92 /\ c <> 91) -> ~ In 93 rest -> parse_pattern (pre ++ 91 :: rest) = None.
Proof.
  intros Hpre Hrest. destruct (parse_pattern (pre ++ 91 :: rest)) as [r|] eqn:E; [|reflexivity]. exfalso.
  rewrite parse_pattern_eq, parse_pattern_with_run in E.
  destruct (pattern_run regex_g regex_tb (pre ++ 91 :: rest) _) as [v| | | |] eqn:Er; try discriminate.
  destruct (pattern_accept_wellformed _ _ v Er) as (toks & _ & _ & Htf).
  exact (toks_from_unterminated pre rest 0 _ Hpre Hrest Htf (Nat.le_0_l _)).
Qed.

Corollary unterminated_set_rejected0 rest : ~ In 93 rest -> parse_pattern (91 :: rest) = None.
Proof. intros H. apply (unterminated_set_rejected [] rest); [intros c []|exact H]. Qed.

(* non-vacuity: the rejected samples fall under the corollaries, the neighbouring well-formed ones are accepted *)
Definition accepted (pat : list nat) : bool := match parse_pattern pat with Some _ => true | None => false end.

Example nonprintable_samples :
  map accepted [[97; 200]; [200]; [97; 0]; [97; 127]; [91; 97; 200; 93]; [91; 97; 45; 200; 93]; [92; 200]; [92; 120; 200];
                [91; 92; 200; 93]; [91; 92; 120; 52; 200; 93]]
  = [false; false; false; false; false; false; false; false; false; false] /\
  map accepted [[97]; [91; 97; 98; 93]; [91; 97; 45; 122; 93]; [92; 46]; [92; 120; 52; 49]; [91; 92; 93; 93]; [91; 92; 120; 52; 49; 93]]
  = [true; true; true; true; true; true; true].
Proof. vm_compute. split; reflexivity. Qed.

Example unterminated_samples :
  map accepted [[91]; [91; 97]; [91; 94]; [91; 94; 97; 45; 98]; [97; 91; 98]; [97; 42; 91; 98; 45]; [91; 97; 92; 93]]
  = [false; false; false; false; false; false; false] /\
  map accepted [[91; 93]; [91; 97; 93]; [91; 94; 93]; [91; 94; 97; 45; 98; 93]; [97; 91; 98; 93]; [97; 42; 91; 98; 45; 99; 93]]
  = [true; true; true; true; true; true].
Proof. vm_compute. split; reflexivity. Qed.

(* the token stream of an accepted pattern, computed: a ( b | [c-e] ) * *)
Example wellformed_sample :
  tokenize 20 regex_opts regex_lexer [97; 40; 98; 124; 91; 99; 45; 101; 93; 41; 42] 0 =
  ([(1, 0, 1); (6, 1, 1); (1, 2, 1); (5, 3, 1); (1, 4, 5); (7, 9, 1); (2, 10, 1)], TokEof 11) /\
  accepted [97; 40; 98; 124; 91; 99; 45; 101; 93; 41; 42] = true.
Proof. vm_compute. split; reflexivity. Qed.

Print Assumptions regex_lexer_ok_on.
Print Assumptions pattern_parse_no_crash.
Print Assumptions pattern_parse_no_throw.
Print Assumptions pattern_accept_wellformed.
Print Assumptions parse_pattern_wellformed.
Print Assumptions nonprintable_rejected.
Print Assumptions empty_pattern_rejected.
Print Assumptions unterminated_set_rejected.
