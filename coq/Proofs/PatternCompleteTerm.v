(* TERMINATION of the pattern parser on EVERY byte string, well-formed or not, with the fuel [parse_pattern] uses.

   The termination theorems of Proofs/TermAll.v / TermGeneric.v need [validate], which the pattern table fails (resolved
   conflict). Here a direct argument on the generated table, checked cell by cell by computation ([pot_ok]):
     rk st            = rank of the accessing symbol of state st (terms 0 < number, primary 1 < q_expr 2 < concat 3 < alt 4 < expr 5)
     potential        = 7 * (bytes not yet shifted) + (stack height + 5 - rk top) + 1
   a shift consumes at least one byte and raises (height - rk top) by at most 6; every reduction lowers (height - rk top):
   a unit reduction replaces the top state by one of higher rank, a longer one lowers the height; an error cell starts
   recovery, which (the error column being empty) pops one state per iteration.
   Hence: at most 7 * length p + 8 iterations, for every semantic algebra. *)
Require Import Ctpg.Base.Prelude Ctpg.Model.Grammar Ctpg.Model.LRGen Ctpg.Model.Driver Ctpg.Model.Dfa
               Ctpg.Model.RegexFront Ctpg.Spec.Cfg Ctpg.Spec.LRSpec Ctpg.Spec.Eval
               Ctpg.Valid.LRValid
               Ctpg.Proofs.LRReflect Ctpg.Proofs.LRMachine Ctpg.Proofs.LRValidFacts
               Ctpg.Proofs.PatternLex Ctpg.Proofs.PatternParse.

(* ---------- the rank of a state ---------- *)
Definition rank_nt (l : nat) : nat := nth l [5; 4; 3; 2; 1; 1; 0] 0.
Definition rk0 (st : nat) : nat :=
  match state_items regex_sts st with
  | i :: _ => match it_d i with
              | 0 => 0
              | S d => match nth_error (rhs_of regex_g i) d with Some (NT l) => rank_nt l | _ => 0 end
              end
  | [] => 0
  end.
Definition rk_list : list nat := Eval vm_compute in map rk0 (seq 0 (length regex_sts)).
Definition rk (st : nat) : nat := Nat.min 5 (nth st rk_list 0).

Lemma rk_le st : rk st <= 5.
Proof. unfold rk. lia. Qed.

(* ---------- the check on the table ---------- *)
Definition term_cell_ok (st t : nat) (e : entry) : bool :=
  match e_kind e with
  | KError | KSuccess => true
  | KShift => negb (Nat.eqb t (eof_idx regex_g))
  | KReduce =>
      match e_arg e with
      | None => true
      | Some r =>
          match nth_error (rule_infos regex_g) r with
          | None => true
          | Some ri =>
              Nat.leb 1 (ri_n ri) &&
              forallb (fun row0 => match e_arg (nth (ri_l ri) row0 entry_default) with
                                   | Some nst => Nat.leb (rk st + 2) (rk nst + ri_n ri)
                                   | None => true
                                   end) regex_tb
          end
      end
  | KShiftErr | KRR => false
  end.

Definition pot_ok : bool :=
  forallb (fun st => let row := nth st regex_tb [] in
                     forallb (fun c => Nat.ltb c (nterm_count regex_g) ||
                                       term_cell_ok st (c - nterm_count regex_g) (nth c row entry_default))
                             (seq 0 (length row)))
          (seq 0 (length regex_tb)).

Lemma regex_pot_ok : pot_ok = true.
Proof. vm_compute. reflexivity. Qed.

Lemma cell_term_ok st t e : cell regex_tb st (nterm_count regex_g + t) = inl e -> term_cell_ok st t e = true.
Proof.
  intros Hc. unfold cell in Hc.
  destruct (nth_error regex_tb st) as [row|] eqn:E1; [|discriminate].
  destruct (nth_error row (nterm_count regex_g + t)) as [e'|] eqn:E2; [|discriminate]. inversion Hc; subst e'.
  pose proof regex_pot_ok as H. unfold pot_ok in H. rewrite forallb_seq0 in H.
  assert (Hst : st < length regex_tb) by (apply nth_error_Some; congruence).
  specialize (H st Hst). cbv zeta in H. rewrite (nth_error_nth _ _ [] E1) in H. rewrite forallb_seq0 in H.
  assert (Hc' : nterm_count regex_g + t < length row) by (apply nth_error_Some; congruence).
  specialize (H _ Hc'). rewrite (nth_error_nth _ _ entry_default E2) in H.
  replace (Nat.ltb (nterm_count regex_g + t) (nterm_count regex_g)) with false in H by (symmetry; apply Nat.ltb_ge; lia).
  replace (nterm_count regex_g + t - nterm_count regex_g) with t in H by lia. exact H.
Qed.

Lemma cell_goto_row st c e : cell regex_tb st c = inl e -> exists row, In row regex_tb /\ nth c row entry_default = e.
Proof.
  unfold cell. destruct (nth_error regex_tb st) as [row|] eqn:E1; [|discriminate].
  destruct (nth_error row c) as [e'|] eqn:E2; [|discriminate]. intros H; inversion H; subst e'.
  exists row. split; [eapply nth_error_In; eassumption|apply nth_error_nth; assumption].
Qed.

Section Term.
  Variables V C : Type.
  Variable buf : list nat.
  Variable term_f : nat -> nat -> nat -> spoint -> V.
  Variable err_f : spoint -> V.
  Variable rule_f : nat -> C -> list V -> C * V.

  Notation xst := (pstate V C).
  Notation xstep := (step V C regex_g regex_tb regex_opts buf None regex_lexer term_f err_f rule_f).
  Notation xrun := (run_from V C regex_g regex_tb regex_opts buf None regex_lexer term_f err_f rule_f).
  Notation xgct := (get_current_term V C regex_g regex_opts buf regex_lexer).
  Notation xact := (act V C regex_g regex_tb buf None term_f err_f rule_f).
  Notation xreduce := (do_reduce V C regex_g regex_tb None rule_f).

  Definition top (s : xst) : nat := hd 0 (ps_cursors s).
  Definition mu_n (s : xst) : nat := 7 * (length buf - ps_it s) + (length (ps_cursors s) + 5 - rk (top s)) + 1.
  Definition mu_r (s : xst) : nat := length (ps_cursors s).
  Definition Nrm (s : xst) : Prop := ps_rec s = false /\ ps_cons s = false /\ ps_it s <= ps_end s.
  Definition Rec (s : xst) : Prop := ps_rec s = true /\ ps_cons s = false.

  Lemma gct_nrm s : Nrm s ->
    exists s1 ot ev, xgct s = (s1, ot, ev) /\
      ps_cursors s1 = ps_cursors s /\ ps_rec s1 = false /\ ps_cons s1 = false /\ ps_it s1 = ps_it s /\
      ps_it s1 <= ps_end s1 /\ (ot = Some (eof_idx regex_g) \/ ot = None \/ ps_it s1 < ps_end s1).
  Proof.
    destruct s as [cs vs sp it en tm rc cn cx]. unfold Nrm. cbn [ps_rec ps_cons ps_it ps_end].
    intros (Hr & Hc & Hle). subst rc cn.
    unfold get_current_term. cbn [ps_rec ps_it ps_end ps_term ps_sp regex_opts o_skip_ws o_verbose].
    destruct (Nat.eqb_spec it en) as [He|Hne]; cbn [negb].
    - subst en. cbn [skipn firstn sp_update]. rewrite !Nat.add_0_r.
      destruct (skipn it buf) as [|c rest] eqn:Esk.
      + do 3 eexists. split; [reflexivity|]. cbn. repeat split; auto.
      + destruct (regex_lexer false sp (c :: rest)) as [lx res] eqn:El. destruct res as [[t len]|].
        * assert (Hl : snd (regex_lexer false sp (c :: rest)) = Some (t, len)) by (rewrite El; reflexivity).
          apply regex_lexer_range in Hl.
          do 3 eexists. split; [reflexivity|]. cbn. repeat split; auto; try lia; try (right; right; lia).
        * do 3 eexists. split; [reflexivity|]. cbn. repeat split; auto.
    - do 3 eexists. split; [reflexivity|]. cbn. repeat split; auto; try (right; right; lia).
  Qed.

  Lemma reduce_shape (s : xst) r :
    match xreduce s r with
    | inl (s3, _) =>
        exists ri top0 rest e0 nst, nth_error (rule_infos regex_g) r = Some ri /\ ri_n ri <= length (ps_cursors s) /\
          skipn (ri_n ri) (ps_cursors s) = top0 :: rest /\ cell regex_tb top0 (ri_l ri) = inl e0 /\ e_arg e0 = Some nst /\
          ps_cursors s3 = nst :: top0 :: rest /\ ps_rec s3 = ps_rec s /\ ps_cons s3 = ps_cons s /\
          ps_it s3 = ps_it s /\ ps_end s3 = ps_end s
    | inr res => res <> OutOfFuel
    end.
  Proof.
    unfold do_reduce. cbn [full].
    destruct (nth_error (rule_infos regex_g) r) as [ri|]; [|discriminate].
    destruct (Nat.ltb (length (ps_cursors s)) (ri_n ri)) eqn:El; [discriminate|].
    destruct (skipn (ri_n ri) (ps_cursors s)) as [|top0 rest] eqn:Esk; [discriminate|].
    destruct (cell regex_tb top0 (ri_l ri)) as [e0|c] eqn:Ec; [|discriminate].
    destruct (e_arg e0) as [nst|] eqn:Ea; [|discriminate].
    destruct (Nat.ltb (length (ps_values s)) (ri_n ri)); [discriminate|].
    destruct (rule_f (ri_r ri) (ps_ctx s) (rev (firstn (ri_n ri) (ps_values s)))) as [c' v].
    apply Nat.ltb_ge in El. exists ri, top0, rest, e0, nst. destruct s; cbn in *. repeat split; auto.
  Qed.

  (* one iteration in normal mode *)
  Lemma step_nrm s : Nrm s ->
    match xstep s with
    | (inl s', _) => (Nrm s' /\ mu_n s' < mu_n s) \/ (Rec s' /\ mu_r s' < mu_n s)
    | (inr (r, _), _) => r <> OutOfFuel
    end.
  Proof.
    intros Hn. unfold step. destruct (ps_cursors s) as [|cur cs] eqn:Ecs; [discriminate|].
    destruct (gct_nrm s Hn) as (s1 & ot & ev1 & Hg & Hcs & Hr & Hc & Hit & Hle & Hot). rewrite Hg.
    destruct ot as [t|]; [|discriminate].
    unfold act. destruct (cell regex_tb cur (nterm_count regex_g + t)) as [e|c] eqn:Ecell; [|discriminate].
    pose proof (cell_term_ok _ _ _ Ecell) as Hok. unfold term_cell_ok in Hok.
    rewrite Hc. destruct (e_kind e) eqn:Ek; try discriminate Hok.
    - (* error cell: recovery starts *)
      rewrite Hr. cbn [negb]. right. split.
      + destruct s1; cbn in *. split; auto.
      + unfold mu_r, mu_n. replace (ps_cursors (set_modes s1 true false)) with (ps_cursors s1) by (destruct s1; reflexivity).
        rewrite Hcs, ?Ecs. pose proof (rk_le (top s)). cbn [length]. lia.
    - (* success *)
      destruct (rev (ps_values s1)); discriminate.
    - (* shift *)
      destruct (e_arg e) as [nst|]; [|discriminate]. cbn [full].
      destruct (Nat.ltb (length buf) (ps_end s1)) eqn:Elt; [discriminate|]. apply Nat.ltb_ge in Elt.
      apply negb_true_iff, Nat.eqb_neq in Hok.
      assert (Hlt : ps_it s1 < ps_end s1).
      { destruct Hot as [Ho|[Ho|Ho]]; [inversion Ho; contradiction|discriminate|assumption]. }
      left. destruct s1 as [cs1 vs1 sp1 it1 en1 tm1 rc1 cn1 cx1]. cbn in Hcs, Hr, Hc, Hit, Hle, Hlt, Elt. subst.
      unfold Nrm, mu_n, top, consume_term, set_stacks, set_pos. cbn [ps_rec ps_cons ps_it ps_end ps_cursors hd length].
      rewrite Ecs. cbn [hd length]. split; [auto|]. pose proof (rk_le nst). pose proof (rk_le cur). lia.
    - (* reduce *)
      destruct (e_arg e) as [r|] eqn:Earg; [|discriminate].
      pose proof (reduce_shape s1 r) as Hrs. destruct (xreduce s1 r) as [[s3 ev]|res]; [|exact Hrs].
      destruct Hrs as (ri & top0 & rest & e0 & nst & Hri & Hnle & Hsk & Hc0 & Ha0 & Hcs3 & Hr3 & Hc3 & Hi3 & He3).
      rewrite Hri in Hok. apply andb_true_iff in Hok. destruct Hok as [Hn1 Hall]. apply Nat.leb_le in Hn1.
      destruct (cell_goto_row _ _ _ Hc0) as (row0 & Hin & Hnth).
      rewrite forallb_forall in Hall. specialize (Hall row0 Hin). rewrite Hnth, Ha0 in Hall. apply Nat.leb_le in Hall.
      left. split.
      + unfold Nrm. rewrite Hr3, Hc3, Hi3, He3. auto.
      + unfold mu_n, top. rewrite Hcs3, Hi3, Hit. cbn [hd length].
        assert (Hlen : length (top0 :: rest) = length (ps_cursors s1) - ri_n ri) by (rewrite <- Hsk; apply skipn_length).
        cbn [length] in Hlen. rewrite Hcs in Hlen, Hnle. rewrite Ecs in *. cbn [hd length] in *.
        pose proof (rk_le nst). pose proof (rk_le cur). lia.
  Qed.

  (* one iteration in recovery mode: the error column is empty, so a state is popped *)
  Lemma step_rec s : Rec s ->
    match xstep s with
    | (inl s', _) => Rec s' /\ mu_r s' < mu_r s
    | (inr (r, _), _) => r <> OutOfFuel
    end.
  Proof.
    intros [Hr Hc]. destruct s as [cs vs sp it en tm rc cn cx]. cbn in Hr, Hc. subst rc cn.
    unfold step; cbn [ps_cursors]. destruct cs as [|cur cs]; [discriminate|].
    unfold get_current_term; cbn [ps_rec]. cbv beta iota. unfold act.
    destruct (cell regex_tb cur (nterm_count regex_g + err_idx regex_g)) as [e|c] eqn:Ecell; [|discriminate].
    rewrite (regex_err_col _ _ Ecell). cbn [ps_cons ps_rec negb]. unfold pop_stacks. cbn [ps_cursors ps_values tl].
    destruct cs as [|top0 cs']; [discriminate|]. unfold Rec, mu_r. cbn. auto.
  Qed.

  Lemma run_halts fuel : forall s out,
    (Nrm s /\ mu_n s < fuel) \/ (Rec s /\ mu_r s < fuel) -> fst (fst (xrun fuel s out)) <> OutOfFuel.
  Proof.
    induction fuel as [|f IH]; intros s out H; [destruct H as [[_ H]|[_ H]]; lia|].
    cbn [run_from]. destruct H as [[Hn Hm]|[Hr Hm]].
    - pose proof (step_nrm s Hn) as Hs. destruct (xstep s) as [[s'|[r s']] ev]; [|exact Hs].
      apply IH. destruct Hs as [[Hn' Hd]|[Hr' Hd]]; [left|right]; split; try assumption; lia.
    - pose proof (step_rec s Hr) as Hs. destruct (xstep s) as [[s'|[r s']] ev]; [|exact Hs].
      apply IH. right. destruct Hs as [Hr' Hd]. split; [assumption|lia].
  Qed.

  Theorem regex_run_halts c0 fuel : 7 * length buf + 8 <= fuel ->
    fst (fst (run V C regex_g regex_tb regex_opts buf None regex_lexer term_f err_f rule_f fuel c0)) <> OutOfFuel.
  Proof.
    intros Hf. unfold run. apply run_halts. left. split.
    - unfold Nrm. cbn. auto.
    - unfold mu_n, top. cbn [init ps_it ps_cursors hd length]. change (rk 0) with 0. lia.
  Qed.
End Term.

(* ================================================================================================= *)
(* the pattern parser terminates on every byte string, within the fuel [parse_pattern] gives it       *)
(* ================================================================================================= *)
Theorem pattern_parse_terminates p fuel : 7 * length p + 8 <= fuel -> pattern_run regex_g regex_tb p fuel <> OutOfFuel.
Proof. intros H. unfold pattern_run. apply regex_run_halts. exact H. Qed.

Corollary pattern_parse_fuel_suffices p : pattern_run regex_g regex_tb p (10 * length p + 20) <> OutOfFuel.
Proof. apply pattern_parse_terminates. lia. Qed.

(* so the verdict of [parse_pattern] is final: more fuel never changes it *)
Corollary pattern_parse_stable p fuel : 7 * length p + 8 <= fuel ->
  pattern_run regex_g regex_tb p fuel = pattern_run regex_g regex_tb p (7 * length p + 8).
Proof.
  intros Hf. unfold pattern_run.
  destruct (run rval unit regex_g regex_tb regex_opts p None regex_lexer (regex_term_f p) (fun _ => VTok) regex_rule_f
                (7 * length p + 8) tt) as [[r s] out] eqn:E.
  assert (Hr : r <> OutOfFuel).
  { pose proof (pattern_parse_terminates p (7 * length p + 8) (Nat.le_refl _)) as H. unfold pattern_run in H.
    rewrite E in H. exact H. }
  unfold run in *. replace fuel with (7 * length p + 8 + (fuel - (7 * length p + 8))) by lia.
  rewrite (run_from_mono _ _ _ _ _ _ _ _ _ _ _ _ _ _ _ _ _ _ E Hr). reflexivity.
Qed.

(* the two possible outcomes *)
Corollary pattern_parse_decides p :
  (exists v, pattern_run regex_g regex_tb p (10 * length p + 20) = Accept v) \/
  pattern_run regex_g regex_tb p (10 * length p + 20) = Reject.
Proof.
  destruct (pattern_parse_outcomes regex_g regex_tb p (10 * length p + 20) regex_grammar_table_eq) as [H|[H|H]]; auto.
  exfalso. exact (pattern_parse_fuel_suffices p H).
Qed.

Print Assumptions pattern_parse_terminates.
Print Assumptions pattern_parse_decides.
