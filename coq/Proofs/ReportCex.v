(* Counterexamples: what [validate] does NOT guarantee about non-sentences.
   The validator accepts item sets that contain items no closure put there (it checks that each state is closed,
   not that it is the closure of its kernel; state 0 may contain any dot-0 items). Such items are harmless for the
   accepted language (lr_language) but they govern what happens on non-sentences:
   (1) CRASH: the run on a non-sentence ends with Crash CrGotoUninit, not Reject;
   (2) LOOP : the run on a non-sentence never ends (OutOfFuel for every fuel);
   (3) LATE : a token is shifted without error although no sentence begins with it (the "no earlier" half, R4).
   So "(exists fuel, tree_run = Reject) <-> ~ derives" (R2 in full) and R4 are false for [validate] as it stands. *)
Require Import Ctpg.Base.Prelude Ctpg.Model.Grammar Ctpg.Model.LRGen Ctpg.Model.Driver
               Ctpg.Spec.Cfg Ctpg.Spec.LRSpec Ctpg.Valid.LRValid
               Ctpg.Proofs.LRMachine Ctpg.Proofs.LRSound Ctpg.Proofs.LRComplete Ctpg.Proofs.ReportLang.

Definition E := entry_default.
Definition Sh n := mkE KShift (Some n) false.
Definition Rd n := mkE KReduce (Some n) false.
Definition Ok := mkE KSuccess None false.

(* ---------- (1) crash ---------- *)
(* S -> a ; A -> (empty), A unreachable. terms a=0 <eof>=1 <err>=2; nonterminals S=0 A=1 ##=2;
   columns S A ## a <eof> <err>. State 0 carries the extra item [A -> ., <eof>] with its reduce; there is no goto on A. *)
Definition g1 := mkG 3 3 3 1 [[T 0]; []; [NT 0]] [mkRI 0 0 1; mkRI 1 1 0; mkRI 2 2 1] [(0,1);(1,1);(2,1)]
                     [0%Z;0%Z;0%Z] [NoAssoc;NoAssoc;NoAssoc] [0%Z;0%Z;0%Z] [NoAssoc;NoAssoc;NoAssoc] [Some 0; None; None].
Definition sts1 : list items := [[mkItem 2 0 1; mkItem 0 0 1; mkItem 1 0 1]; [mkItem 0 1 1]; [mkItem 2 1 1]].
Definition tbl1 : table :=
  [[Sh 2; E; E; Sh 1; Rd 1; E];
   [E; E; E; E; Rd 0; E];
   [E; E; E; E; Ok; E]].

Example crash_validates : validate g1 sts1 tbl1 = true /\ no_error_symbol g1 tbl1 = true.
Proof. vm_compute. auto. Qed.

Example crash_run : forall fuel, tree_run g1 tbl1 [] (S fuel) = Crash CrGotoUninit.
Proof. intros fuel. reflexivity. Qed.

Lemma crash_not_sentence : ~ derives g1 [].
Proof.
  intros [t Hd]. destruct (lr_complete g1 sts1 tbl1 [] t (proj1 crash_validates) (Forall_nil _) Hd) as [fuel Ha].
  destruct fuel as [|fuel]; [discriminate|]. rewrite crash_run in Ha. discriminate.
Qed.

(* R2 in full is false *)
Theorem reject_iff_not_in_language_false :
  ~ (forall g sts tbl w, validate g sts tbl = true -> no_error_symbol g tbl = true -> tokens_ok g w ->
       ((exists fuel, tree_run g tbl w fuel = Reject) <-> ~ derives g w)).
Proof.
  intros H. destruct crash_validates as [Hv Hn].
  destruct (proj2 (H g1 sts1 tbl1 [] Hv Hn (Forall_nil _)) crash_not_sentence) as [fuel Hr].
  destruct fuel as [|fuel]; [discriminate|]. rewrite crash_run in Hr. discriminate.
Qed.

(* ---------- (2) loop and (3) late error ---------- *)
(* S -> c ; X -> X | b, X unreachable. terms c=0 b=1 <eof>=2 <err>=3; nonterminals S=0 X=1 ##=2;
   rules 0: S -> c, 1: X -> X, 2: X -> b, 3: ## -> S; columns S X ## c b <eof> <err>.
   State 0 carries the extra items [X -> . X, <eof>] and [X -> . b, <eof>] with their shift and goto. *)
Definition g2 := mkG 4 3 4 1 [[T 0]; [NT 1]; [T 1]; [NT 0]]
                     [mkRI 0 0 1; mkRI 1 1 1; mkRI 1 2 1; mkRI 2 3 1] [(0,1);(1,2);(3,1)]
                     [0%Z;0%Z;0%Z;0%Z] [NoAssoc;NoAssoc;NoAssoc;NoAssoc]
                     [0%Z;0%Z;0%Z;0%Z] [NoAssoc;NoAssoc;NoAssoc;NoAssoc] [Some 0; None; Some 1; None].
Definition sts2 : list items :=
  [[mkItem 3 0 2; mkItem 0 0 2; mkItem 1 0 2; mkItem 2 0 2];
   [mkItem 0 1 2]; [mkItem 2 1 2]; [mkItem 3 1 2]; [mkItem 1 1 2]].
Definition tbl2 : table :=
  [[Sh 3; Sh 4; E; Sh 1; Sh 2; E; E];
   [E; E; E; E; E; Rd 0; E];
   [E; E; E; E; E; Rd 2; E];
   [E; E; E; E; E; Ok; E];
   [E; E; E; E; E; Rd 1; E]].

Example loop_validates : validate g2 sts2 tbl2 = true /\ no_error_symbol g2 tbl2 = true /\ tokens_ok g2 [1].
Proof. split; [vm_compute; reflexivity|]. split; [vm_compute; reflexivity|]. repeat constructor. Qed.

(* the grammar's only sentence is "c"; it still accepts it *)
Example loop_accepts_c : tree_run g2 tbl2 [0] 10 = Accept (Node 0 [Leaf 0]).
Proof. vm_compute. reflexivity. Qed.

Notation step2 := (step tree unit g2 tbl2 tree_opts [1] None id_lexer tf (ef g2) rlf).
Notation run2 := (run_from tree unit g2 tbl2 tree_opts [1] None id_lexer tf (ef g2) rlf).

(* the loop-head states of the cycle: stack [4; 0], one tree, <eof> pending *)
Definition Lst (v : tree) (sp : spoint) (tm : option nat) : pstate tree unit :=
  mkPS [4; 0] [v] sp 1 1 tm false false tt.

Lemma loop_step v sp tm : exists ev, step2 (Lst v sp tm) = (inl (Lst (Node 1 [v]) sp (Some 2)), ev).
Proof. eexists. reflexivity. Qed.

Lemma loop_run fuel : forall v sp tm out, fst (fst (run2 fuel (Lst v sp tm) out)) = OutOfFuel.
Proof.
  induction fuel as [|f IH]; intros v sp tm out; cbn [run_from]; [reflexivity|].
  destruct (loop_step v sp tm) as [ev E]. rewrite E. apply IH.
Qed.

Theorem loop_forever : forall fuel, tree_run g2 tbl2 [1] fuel = OutOfFuel.
Proof.
  intros fuel. rewrite tree_run_eq.
  destruct fuel as [|[|fuel]]; [reflexivity|reflexivity|].
  cbn [run_from].
  match goal with |- context [step ?a ?b ?c ?d ?e ?f ?g ?h ?i ?j ?k (init tt)] =>
    let x := eval vm_compute in (step a b c d e f g h i j k (init tt)) in
    change (step a b c d e f g h i j k (init tt)) with x end.
  cbv iota beta.
  match goal with |- context [step ?a ?b ?c ?d ?e ?f ?g ?h ?i ?j ?k ?s] =>
    let x := eval vm_compute in (step a b c d e f g h i j k s) in
    change (step a b c d e f g h i j k s) with x end.
  cbv iota beta.
  apply (loop_run fuel (Node 2 [Leaf 1])).
Qed.

Lemma loop_not_sentence : ~ derives g2 [1].
Proof.
  intros [t Hd]. destruct loop_validates as (Hv & _ & Hw).
  destruct (lr_complete g2 sts2 tbl2 [1] t Hv Hw Hd) as [fuel Ha]. rewrite loop_forever in Ha. discriminate.
Qed.

Theorem nonsentence_never_rejected :
  validate g2 sts2 tbl2 = true /\ no_error_symbol g2 tbl2 = true /\ tokens_ok g2 [1] /\ ~ derives g2 [1] /\
  forall fuel, tree_run g2 tbl2 [1] fuel <> Reject.
Proof.
  destruct loop_validates as (Hv & Hn & Hw). repeat split; auto using loop_not_sentence.
  intros fuel. rewrite loop_forever. discriminate.
Qed.

(* ---------- (3) R4: "the driver has shifted w without error -> some sentence begins with w" is false ---------- *)

Lemma g2_rules r l rhs : is_rule g2 r l rhs ->
  (r = 0 /\ l = 0 /\ rhs = [T 0]) \/ (r = 1 /\ l = 1 /\ rhs = [NT 1]) \/
  (r = 2 /\ l = 1 /\ rhs = [T 1]) \/ (r = 3 /\ l = 2 /\ rhs = [NT 0]).
Proof.
  intros (i & ri & Hi & Hr & Hl & Hrhs).
  destruct i as [|[|[|[|i]]]]; cbn in Hi; try (destruct i; discriminate);
    inversion Hi; subst ri; cbn in *; subst; cbn in Hrhs; inversion Hrhs; auto 10.
Qed.

Lemma g2_reachable l : reachable g2 l -> l = 0.
Proof.
  induction 1 as [x Hx|l r rhs m Hl IH Hr Hin].
  - cbn in Hx. inversion Hx. reflexivity.
  - subst l. apply g2_rules in Hr. destruct Hr as [(_ & _ & ->)|[(_ & E & _)|[(_ & E & _)|(_ & E & _)]]]; try discriminate.
    cbn in Hin. destruct Hin as [E|[]]. discriminate.
Qed.

Lemma g2_productive : productive g2.
Proof.
  intros l Hl. apply g2_reachable in Hl. subst l. exists (Node 0 [Leaf 0]).
  econstructor; [exists 0, (mkRI 0 0 1); cbn; auto|]. repeat constructor.
Qed.

Lemma g2_sentences t w : derives_tree g2 t w -> w = [0].
Proof.
  intros (s & Hs & Hv & Hy). cbn in Hs. inversion Hs; subst s. subst w.
  inversion Hv as [|r l rhs ch Hr Hch]; subst.
  apply g2_rules in Hr. destruct Hr as [(-> & _ & ->)|[(_ & E & _)|[(_ & E & _)|(_ & E & _)]]]; try discriminate.
  inversion Hch as [|x c rhs' ch' Hx Hrest]; subst. inversion Hrest; subst. inversion Hx; subst. reflexivity.
Qed.

(* the machine (hence the driver: EvShift is written) shifts b from the initial configuration, no error cell is
   met, and yet no sentence begins with b *)
Theorem shifted_prefix_not_viable :
  validate g2 sts2 tbl2 = true /\ no_error_symbol g2 tbl2 = true /\ tokens_ok g2 [1] /\ productive g2 /\
  msteps g2 tbl2 1 ([0], [], [1]) ([2; 0], [Leaf 1], []) /\
  ~ sentence_prefix g2 [1].
Proof.
  destruct loop_validates as (Hv & Hn & Hw). repeat split; auto using g2_productive.
  - cbn. eexists. split; reflexivity.
  - intros (v & t & Hd). apply g2_sentences in Hd. discriminate.
Qed.

Print Assumptions reject_iff_not_in_language_false.
Print Assumptions nonsentence_never_rejected.
Print Assumptions shifted_prefix_not_viable.
