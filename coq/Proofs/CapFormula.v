(* The fixed stack capacity of a parser over cstring_buffer<N>:  N + EmptyRulesCount + 1  (N = bytes + 1 for the NUL).
   (K1) the formula, as a function of the grammar and the number n of input bytes: [cstring_cap g n].
   (K3) POSITIVE: when the grammar has no empty rule, <eof> / the error token are never shifted, the table has no
        shift-on-error cell (no error recovery) and the lexer returns non-empty lexemes, NO stack of the driver ever
        holds more than n + 1 entries -- any table, any options, any semantic algebra -- so the run with the formula's
        capacity is the run with unbounded stacks (same result, final state, output) and never ends in Throw.
        The argument is a counting one and needs no validity of the table: every shift consumes at least one byte,
        every reduce pops at least one entry before it pushes one.
   Proofs/CapFormulaValid.v : the table hypotheses derived from the validator (validate_sound + no_error_symbol).
   Proofs/CapFormulaTree.v  : (K4) with empty rules, a bound for accepted inputs read off the derivation tree.
   Proofs/CapFormulaCex.v   : (K2) the refutations by computation (empty rules: finding D8; error recovery). *)
Require Import Ctpg.Base.Prelude Ctpg.Model.Grammar Ctpg.Model.LRGen Ctpg.Model.Driver
               Ctpg.Spec.Cfg Ctpg.Spec.LRSpec Ctpg.Spec.Eval
               Ctpg.Proofs.DriverBasics Ctpg.Proofs.SafeBasics Ctpg.Proofs.SafeCap.

(* ================================================================================================= *)
(* (K1) the formula                                                                                  *)
(* ================================================================================================= *)

(* the number of rules with an empty right side, as the driver sees rules: by their rule_info (ri_n = number of
   right-side symbols).  The root rule ## -> root has ri_n = 1 and is never counted. *)
Definition is_empty_ri (ri : rule_info) : bool := Nat.eqb (ri_n ri) 0.
Definition empty_rules (g : grammar) : nat := length (filter is_empty_ri (rule_infos g)).

(* the same count on the right sides (indexed by r_idx); equal to [empty_rules] for analysed grammars, see
   [analyze_empty_rules] below *)
Definition is_empty_rhs (r : list symbol) : bool := match r with [] => true | _ => false end.
Definition empty_right_sides (g : grammar) : nat := length (filter is_empty_rhs (right_sides g)).

(* capacity of both stacks for an input of n bytes: N = n + 1 (the NUL), plus EmptyRulesCount, plus 1 *)
Definition cstring_cap (g : grammar) (n : nat) : nat := (n + 1) + empty_rules g + 1.

Lemma empty_rules_0 g : empty_rules g = 0 ->
  forall i ri, nth_error (rule_infos g) i = Some ri -> 0 < ri_n ri.
Proof.
  unfold empty_rules. intros H i ri Hi. apply nth_error_In in Hi.
  destruct (ri_n ri) as [|k] eqn:E; [|lia]. exfalso.
  assert (Hin : In ri (filter is_empty_ri (rule_infos g))).
  { apply filter_In. split; [assumption|]. unfold is_empty_ri. rewrite E. reflexivity. }
  destruct (filter is_empty_ri (rule_infos g)); [contradiction|discriminate].
Qed.

Lemma empty_rules_0_iff g : empty_rules g = 0 <-> Forall (fun ri => 0 < ri_n ri) (rule_infos g).
Proof.
  split.
  - intros H. apply Forall_forall. intros ri Hin. apply In_nth_error in Hin as [i Hi].
    eapply empty_rules_0; eassumption.
  - unfold empty_rules. induction 1 as [|ri l Hri _ IH]; [reflexivity|]. cbn.
    unfold is_empty_ri at 1. destruct (ri_n ri); [lia|]. exact IH.
Qed.

(* ---------- the two counts agree on analysed grammars ---------- *)
Lemma filter_insert_ri_len x l :
  length (filter is_empty_ri (insert_ri x l)) = length (filter is_empty_ri (x :: l)).
Proof.
  induction l as [|y l IH]; [reflexivity|]. cbn [insert_ri].
  destruct (Nat.leb (ri_l x) (ri_l y)); [reflexivity|].
  cbn [filter] in *. destruct (is_empty_ri y), (is_empty_ri x); cbn [length] in *; lia.
Qed.

Lemma filter_sort_ris_len l : length (filter is_empty_ri (sort_ris l)) = length (filter is_empty_ri l).
Proof.
  unfold sort_ris. induction l as [|x l IH]; [reflexivity|]. cbn [fold_right].
  rewrite filter_insert_ri_len. cbn [filter]. destruct (is_empty_ri x); cbn [length]; lia.
Qed.

Lemma map_opt_length {A B} (f : A -> option B) l r : map_opt f l = Some r -> length r = length l.
Proof.
  revert r; induction l as [|x l IH]; intros r H; cbn in H.
  - inversion H; reflexivity.
  - destruct (f x); [|discriminate]. destruct (map_opt f l) as [ys|]; [|discriminate].
    inversion H; subst. cbn. f_equal. apply IH. reflexivity.
Qed.

Lemma filter_ris_len : forall (rs : list (list symbol)) (ls : list nat) (k : nat), length ls = length rs ->
  length (filter is_empty_ri
            (map (fun p => mkRI (fst (snd p)) (fst p) (length (snd (snd p))))
                 (combine (seq k (length rs)) (combine ls rs)))) =
  length (filter is_empty_rhs rs).
Proof.
  induction rs as [|r rs IH]; intros ls k Hlen; [reflexivity|].
  destruct ls as [|l ls]; [discriminate|]. cbn [length seq combine map filter].
  cbn [snd fst]. unfold is_empty_ri at 1. cbn [ri_n].
  assert (E : Nat.eqb (length r) 0 = is_empty_rhs r) by (destruct r; reflexivity). rewrite E.
  cbn in Hlen. specialize (IH ls (S k) ltac:(lia)).
  destruct (is_empty_rhs r); cbn [length]; rewrite IH; reflexivity.
Qed.

(* for a grammar produced by [analyze], [empty_rules] is the number of empty right sides, i.e. the number of rules
   of the DSL-level description written with no right-side symbol (the root rule has one symbol) *)
Theorem analyze_empty_rules rg g : analyze rg = Some g ->
  empty_rules g = empty_right_sides g /\
  empty_rules g = length (filter (fun r => match rr_r r with [] => true | _ => false end) (rg_rules rg)).
Proof.
  unfold analyze. cbv zeta.
  destruct (map_opt (fun r => find_str (rg_nterms rg ++ [id_fake_root]) (rr_l r))
                    (rg_rules rg ++ [mkRR id_fake_root [RNterm (rg_root rg)] None])) as [ls|] eqn:Els; [|discriminate].
  destruct (map_opt (fun r => map_opt (make_symbol (map rt_id (rg_terms rg) ++ [id_eof; id_error])
                                                   (rg_nterms rg ++ [id_fake_root])) (rr_r r))
                    (rg_rules rg ++ [mkRR id_fake_root [RNterm (rg_root rg)] None])) as [rs|] eqn:Ers; [|discriminate].
  intros H. inversion H; subst g; clear H.
  unfold empty_rules, empty_right_sides. cbn [rule_infos right_sides].
  pose proof (map_opt_length _ _ _ Els) as L1. pose proof (map_opt_length _ _ _ Ers) as L2.
  rewrite filter_sort_ris_len. rewrite <- L2. rewrite filter_ris_len by lia.
  split; [reflexivity|].
  (* the right sides are the images of the raw right sides, of the same lengths *)
  clear Els L1 L2 ls. revert rs Ers.
  generalize (make_symbol (map rt_id (rg_terms rg) ++ [id_eof; id_error]) (rg_nterms rg ++ [id_fake_root])) as mk.
  intros mk. induction (rg_rules rg) as [|r l IH]; intros rs Ers.
  - cbn in Ers. destruct (mk (RNterm (rg_root rg))); [|discriminate]. inversion Ers; reflexivity.
  - cbn [app map_opt] in Ers.
    destruct (map_opt mk (rr_r r)) as [x|] eqn:Ex; [|discriminate].
    destruct (map_opt (fun r0 => map_opt mk (rr_r r0)) (l ++ [mkRR id_fake_root [RNterm (rg_root rg)] None])) as [ys|] eqn:Ey;
      [|discriminate].
    inversion Ers; subst rs. cbn [filter]. specialize (IH ys eq_refl).
    apply map_opt_length in Ex.
    assert (E : is_empty_rhs x = match rr_r r with [] => true | _ => false end).
    { destruct x, (rr_r r); cbn in *; try reflexivity; discriminate. }
    rewrite E. destruct (rr_r r); cbn [length]; rewrite IH; reflexivity.
Qed.

(* ================================================================================================= *)
(* the run with unbounded stacks never ends in Throw                                                  *)
(* ================================================================================================= *)
Section NoThrow.
  Variables V C : Type.
  Variable g : grammar.
  Variable tbl : table.
  Variable opts : options.
  Variable buf : list nat.
  Variable lexer : bool -> spoint -> list nat -> list lex_event * option (nat * nat).
  Variable term_f : nat -> nat -> nat -> spoint -> V.
  Variable err_f : spoint -> V.
  Variable rule_f : nat -> C -> list V -> C * V.

  Notation pst := (pstate V C).
  Notation step0 := (step V C g tbl opts buf None lexer term_f err_f rule_f).
  Notation run_gh0 := (run_gh V C g tbl opts buf None lexer term_f err_f rule_f).
  Notation run0 := (run V C g tbl opts buf None lexer term_f err_f rule_f).

  Lemma step0_no_throw s : match fst (step0 s) with inl _ => True | inr (r, _) => r <> Throw end.
  Proof.
    apply step_cases2.
    - intros _. discriminate.
    - intros s1 ev1 _. discriminate.
    - intros cur cs s1 t ev1 r _ _ Ha.
      inversion Ha as [c Hce|e Hce Hk Hcn Htm|e Hce Hk Hcn Htm|e Hce Hk Hcn Hrc|e top cs' Hce Hk Hcn Hrc Htl|e Hce Hk Hcn Hrc Htl
                      |e Hce Hk Harg|e nst Hce Hk Harg Hf|e nst Hce Hk Harg Hf Hov|e nst Hce Hk Harg Hf Hov
                      |e nst Hce Hk Harg Hf|e Hce Hk Harg|e r0 s3 ev Hce Hk Harg Hred|e r0 res Hce Hk Harg Hred
                      |e Hce Hk Hrv|e v rest Hce Hk Hrv]; subst r; try exact I; try discriminate.
      inversion Hred; subst; try discriminate;
        match goal with H : full None _ = true |- _ => cbn in H; discriminate end.
  Qed.

  Theorem run_unbounded_no_throw fuel c : fst (fst (run0 fuel c)) <> Throw.
  Proof.
    rewrite runc_gh.
    pose proof (run_gh_sinv V C g tbl opts buf None lexer term_f err_f rule_f (fun _ => True) (fun r _ => r <> Throw)) as H.
    assert (H1 : forall s : pst, True -> (OutOfFuel : result V) <> Throw) by (intros; discriminate).
    specialize (H H1). clear H1.
    assert (H2 : forall s : pst, True -> match fst (step0 s) with inl _ => True | inr (r, _) => r <> Throw end)
      by (intros s _; apply step0_no_throw).
    specialize (H H2 fuel (init c) [] [] I (Forall_nil _)).
    destruct (run_gh0 fuel (init c) [] []) as [[[r sf] o] v]. cbn. apply H.
  Qed.
End NoThrow.

(* ================================================================================================= *)
(* (K3) no empty rule, no recovery: the stacks never hold more than (bytes consumed) + 1 entries        *)
(* ================================================================================================= *)
Section Count.
  Variables V C : Type.
  Variable g : grammar.
  Variable tbl : table.
  Variable opts : options.
  Variable buf : list nat.
  Variable lexer : bool -> spoint -> list nat -> list lex_event * option (nat * nat).
  Variable term_f : nat -> nat -> nat -> spoint -> V.
  Variable err_f : spoint -> V.
  Variable rule_f : nat -> C -> list V -> C * V.

  (* the states the hypotheses are about: any set that contains state 0 and is closed under the targets the driver
     reads (shift cells, and the goto cell of a reduce, which is read without looking at its kind).
     [fun _ => True] for hypotheses about the whole table, [fun s => s < length sts] for validated tables. *)
  Variable Q : nat -> Prop.
  Hypothesis Q0 : Q 0.
  Hypothesis Qshift : forall st col e nst, Q st -> cell tbl st col = inl e -> e_kind e = KShift -> e_arg e = Some nst -> Q nst.
  Hypothesis Qgoto : forall st r ri e nst, Q st -> nth_error (rule_infos g) r = Some ri ->
    cell tbl st (ri_l ri) = inl e -> e_arg e = Some nst -> Q nst.

  Hypothesis Hempty : empty_rules g = 0.
  (* <eof> and the error token are never shifted (by a plain shift) *)
  Hypothesis Hns_eof : forall st e, Q st -> cell tbl st (nterm_count g + eof_idx g) = inl e -> e_kind e <> KShift.
  Hypothesis Hns_err : forall st e, Q st -> cell tbl st (nterm_count g + err_idx g) = inl e -> e_kind e <> KShift.
  (* no error recovery: no shift-on-error cell *)
  Hypothesis Hnse : forall st t e, Q st -> cell tbl st (nterm_count g + t) = inl e -> e_kind e <> KShiftErr.
  (* lexemes are not empty *)
  Hypothesis Hlex : forall v p rest t len, snd (lexer v p rest) = Some (t, len) -> 0 < len.

  Notation pst := (pstate V C).
  Notation step0 := (step V C g tbl opts buf None lexer term_f err_f rule_f).
  Notation run_gh0 := (run_gh V C g tbl opts buf None lexer term_f err_f rule_f).
  Notation gspec := (gct_spec V C g opts buf lexer).

  (* nothing pending, or <eof> pending, or a non-empty lexeme pending *)
  Definition pend_ok (s : pst) : Prop :=
    ps_it s = ps_end s \/ ps_term s = Some (eof_idx g) \/ ps_it s < ps_end s.

  Definition cinv (s : pst) : Prop :=
    ps_cons s = false /\ ps_it s <= length buf /\ length (ps_cursors s) <= ps_it s + 1 /\ pend_ok s /\
    Forall Q (ps_cursors s).

  Lemma cinv_height s : cinv s -> height s <= length buf + 1.
  Proof. intros (_ & H1 & H2 & _). unfold height. lia. Qed.

  Lemma cinv_init c : cinv (init c).
  Proof.
    unfold cinv, pend_ok; cbn. split; [reflexivity|]. split; [lia|]. split; [lia|]. split; [left; reflexivity|].
    constructor; [exact Q0|constructor].
  Qed.

  Lemma wsk_le pos : pos <= length buf -> pos + wsk opts buf pos <= length buf.
  Proof.
    intros H. unfold wsk. destruct (o_skip_ws opts); [|lia].
    pose proof (count_ws_le opts (skipn pos buf)) as L. rewrite skipn_length in L. lia.
  Qed.

  (* after get_current_term: the invariant, and the term handed to [act] *)
  Lemma gct_cinv s s1 t ev : cinv s -> gspec s (s1, Some t, ev) ->
    cinv s1 /\
    ((ps_rec s1 = true /\ t = err_idx g) \/
     (ps_rec s1 = false /\ (t = eof_idx g \/ ps_it s1 < ps_end s1))).
  Proof.
    intros (Hc & Hit & Hh & Hp & HQ) H.
    inversion H as [Hr|Hr Hne|sp1 it1 Hr He Hit1 Hsp1 Hsk|sp1 it1 c rest lx Hr He Hit1 Hsp1 Hsk Hl
                   |sp1 it1 c rest lx t0 len Hr He Hit1 Hsp1 Hsk Hl]; subst.
    - split; [unfold cinv; auto|]. left; auto.
    - split; [unfold cinv; auto|]. right. split; [assumption|].
      destruct Hp as [Hp|[Hp|Hp]]; [contradiction| |right; exact Hp].
      left. congruence.
    - pose proof (wsk_le _ Hit) as L. split.
      + unfold cinv, pend_ok; simp_ps. split; [assumption|]. split; [assumption|]. split; [lia|].
        split; [right; left; reflexivity|assumption].
      + right. simp_ps. auto.
    - pose proof (wsk_le _ Hit) as L.
      assert (Hlen : 0 < len) by (eapply (Hlex _ _ _ t len); rewrite Hl; reflexivity).
      split.
      + unfold cinv, pend_ok; simp_ps. split; [assumption|]. split; [assumption|]. split; [lia|].
        split; [right; right; lia|assumption].
      + right. simp_ps. split; [assumption|right; lia].
  Qed.

  Lemma step0_cinv s : cinv s ->
    match fst (step0 s) with inl s' => cinv s' | inr (_, s') => height s' <= length buf + 1 end.
  Proof.
    intros Hinv. pose proof (cinv_height _ Hinv) as Hh0. apply step_cases2.
    - intros _. exact Hh0.
    - intros s1 ev1 Hg. destruct (gct_stacks Hg) as (E & _). unfold height in *. rewrite E. exact Hh0.
    - intros cur cs s1 t ev1 r Hcs Hg Ha.
      destruct (gct_cinv _ _ _ _ Hinv Hg) as [Hinv1 Ht].
      destruct (gct_stacks Hg) as (Hcs1 & _).
      pose proof (cinv_height _ Hinv1) as Hh1. unfold height in Hh1.
      destruct Hinv1 as (Hc1 & Hit1 & Hht1 & Hp1 & HQ1).
      assert (HQcur : Q cur).
      { rewrite Hcs1, Hcs in HQ1. inversion HQ1; assumption. }
      inversion Ha as [c Hce|e Hce Hk Hcn Htm|e Hce Hk Hcn Htm|e Hce Hk Hcn Hrc|e top cs' Hce Hk Hcn Hrc Htl|e Hce Hk Hcn Hrc Htl
                      |e Hce Hk Harg|e nst Hce Hk Harg Hf|e nst Hce Hk Harg Hf Hov|e nst Hce Hk Harg Hf Hov
                      |e nst Hce Hk Harg Hf|e Hce Hk Harg|e r0 s3 ev Hce Hk Harg Hred|e r0 res Hce Hk Harg Hred
                      |e Hce Hk Hrv|e v rest Hce Hk Hrv];
        subst r; unfold height; simp_ps; try exact Hh1; try congruence.
      + (* enter recovery *) unfold cinv, pend_ok; simp_ps. auto.
      + (* pop *) unfold cinv, pend_ok; simp_ps. split; [assumption|]. split; [assumption|].
        split; [destruct (ps_cursors s1); cbn [tl length] in *; lia|]. split; [assumption|].
        destruct (ps_cursors s1); cbn [tl]; [constructor|]. inversion HQ1; assumption.
      + (* pop fails *) destruct (ps_cursors s1); cbn [tl length] in *; lia.
      + (* shift *)
        assert (Hlt : ps_it s1 < ps_end s1).
        { destruct Ht as [[_ ->]|[_ [->|Hlt]]]; [| |exact Hlt].
          - exfalso. exact (Hns_err _ _ HQcur Hce Hk).
          - exfalso. exact (Hns_eof _ _ HQcur Hce Hk). }
        unfold cinv, pend_ok; simp_ps. split; [reflexivity|]. split; [assumption|].
        split; [cbn [length]; lia|]. split; [left; reflexivity|].
        constructor; [|assumption]. eapply Qshift; eassumption.
      + (* shift on error *) exfalso. exact (Hnse _ _ _ HQcur Hce Hk).
      + (* reduce *)
        inversion Hred as [| | | | | | | |ri top cs0 e0 nst c' v (Hn & Hle & Hsk) Hc0 Hf0 Ha0 Hv0 Hrf Hf2]; subst.
        pose proof (empty_rules_0 g Hempty _ _ Hn) as Hpos.
        rewrite clr_cursors in Hsk, Hle.
        assert (Hlen : length (top :: cs0) = length (ps_cursors s1) - ri_n ri).
        { rewrite <- Hsk. apply skipn_length. }
        assert (HQs : Forall Q (top :: cs0)).
        { rewrite <- Hsk. rewrite <- (firstn_skipn (ri_n ri) (ps_cursors s1)) in HQ1. apply Forall_app in HQ1. tauto. }
        unfold cinv, pend_ok; simp_ps. split; [reflexivity|]. split; [assumption|].
        split; [cbn [length] in *; lia|]. split; [assumption|].
        constructor; [|assumption]. inversion HQs; subst. eapply Qgoto; eassumption.
  Qed.

  Theorem height_le_bytes fuel c : never_above V C g tbl opts buf lexer term_f err_f rule_f (length buf + 1) fuel c.
  Proof.
    unfold never_above.
    pose proof (run_gh_sinv V C g tbl opts buf None lexer term_f err_f rule_f cinv
                  (fun _ s' => height s' <= length buf + 1)) as H.
    specialize (H (fun s Hs => cinv_height s Hs) step0_cinv fuel (init c) [] [] (cinv_init c) (Forall_nil _)).
    destruct (run_gh0 fuel (init c) [] []) as [[[r sf] o] v]. destruct H as [Hf Hv].
    intros x Hx. apply in_app_or in Hx. destruct Hx as [Hx|[<-|[]]]; [|exact Hf].
    rewrite Forall_forall in Hv. apply cinv_height. apply Hv. exact Hx.
  Qed.

  (* any capacity above bytes + 1 is as good as unbounded stacks; the formula's capacity is bytes + 2 *)
  Theorem capacity_above_bytes_irrelevant n' fuel c : length buf + 1 < n' ->
    run V C g tbl opts buf (Some n') lexer term_f err_f rule_f fuel c =
    run V C g tbl opts buf None lexer term_f err_f rule_f fuel c.
  Proof. intros Hlt. eapply capacity_irrelevant; [apply height_le_bytes|exact Hlt]. Qed.

  Theorem cstring_capacity_suffices_Q fuel c :
    run V C g tbl opts buf (Some (cstring_cap g (length buf))) lexer term_f err_f rule_f fuel c =
    run V C g tbl opts buf None lexer term_f err_f rule_f fuel c /\
    fst (fst (run V C g tbl opts buf (Some (cstring_cap g (length buf))) lexer term_f err_f rule_f fuel c)) <> Throw.
  Proof.
    assert (E : run V C g tbl opts buf (Some (cstring_cap g (length buf))) lexer term_f err_f rule_f fuel c =
                run V C g tbl opts buf None lexer term_f err_f rule_f fuel c).
    { apply capacity_above_bytes_irrelevant. unfold cstring_cap. lia. }
    split; [exact E|]. rewrite E. apply run_unbounded_no_throw.
  Qed.
End Count.

(* ---------- the hypotheses as boolean checks of the whole table ---------- *)
Definition no_shifterrb (tbl : table) : bool :=
  forallb (forallb (fun e => match e_kind e with KShiftErr => false | _ => true end)) tbl.

Lemma no_shifterrb_ok tbl : no_shifterrb tbl = true ->
  forall st col e, cell tbl st col = inl e -> e_kind e <> KShiftErr.
Proof.
  intros H st col e Hc Hk. unfold cell in Hc.
  destruct (nth_error tbl st) as [row|] eqn:Hr; [|discriminate].
  destruct (nth_error row col) as [e'|] eqn:He; [|discriminate]. inversion Hc; subst e'.
  unfold no_shifterrb in H. rewrite forallb_forall in H. specialize (H row (nth_error_In _ _ Hr)).
  rewrite forallb_forall in H. specialize (H e (nth_error_In _ _ He)). rewrite Hk in H. discriminate.
Qed.

(* (K3), generic driver: any semantic algebra, options, lexer with non-empty lexemes, ANY table that never shifts
   <eof> / the error token and has no shift-on-error cell.  [length buf] is the number of input bytes. *)
Theorem cstring_capacity_suffices_without_empty_rules :
  forall (V C : Type) g tbl opts buf lexer
         (term_f : nat -> nat -> nat -> spoint -> V) (err_f : spoint -> V) (rule_f : nat -> C -> list V -> C * V),
  empty_rules g = 0 ->
  eof_err_not_shifted g tbl ->
  no_shifterrb tbl = true ->
  lexer_in_range lexer ->
  forall fuel c,
    run V C g tbl opts buf (Some (cstring_cap g (length buf))) lexer term_f err_f rule_f fuel c =
    run V C g tbl opts buf None lexer term_f err_f rule_f fuel c /\
    fst (fst (run V C g tbl opts buf (Some (cstring_cap g (length buf))) lexer term_f err_f rule_f fuel c)) <> Throw.
Proof.
  intros V C g tbl opts buf lexer term_f err_f rule_f Hempty [Hn1 Hn2] Hse Hlex fuel c.
  apply (cstring_capacity_suffices_Q V C g tbl opts buf lexer term_f err_f rule_f (fun _ => True)); auto.
  - intros st e _ Hc. exact (Hn1 st e Hc).
  - intros st e _ Hc. exact (Hn2 st e Hc).
  - intros st t e _ Hc. exact (no_shifterrb_ok tbl Hse _ _ _ Hc).
  - intros v p rest t len H. exact (proj1 (Hlex v p rest t len H)).
Qed.

(* the stacks themselves: never more than bytes + 1 cursors (and bytes values) *)
Theorem height_le_bytes_without_empty_rules :
  forall (V C : Type) g tbl opts buf lexer
         (term_f : nat -> nat -> nat -> spoint -> V) (err_f : spoint -> V) (rule_f : nat -> C -> list V -> C * V),
  empty_rules g = 0 -> eof_err_not_shifted g tbl -> no_shifterrb tbl = true -> lexer_in_range lexer ->
  forall fuel c, never_above V C g tbl opts buf lexer term_f err_f rule_f (length buf + 1) fuel c.
Proof.
  intros V C g tbl opts buf lexer term_f err_f rule_f Hempty [Hn1 Hn2] Hse Hlex fuel c.
  apply (height_le_bytes V C g tbl opts buf lexer term_f err_f rule_f (fun _ => True)); auto.
  - intros st e _ Hc. exact (Hn1 st e Hc).
  - intros st e _ Hc. exact (Hn2 st e Hc).
  - intros st t e _ Hc. exact (no_shifterrb_ok tbl Hse _ _ _ Hc).
  - intros v p rest t len H. exact (proj1 (Hlex v p rest t len H)).
Qed.

(* (K3), the tree driver of Spec/LRSpec.v on a token list w (one byte per token): capacity from [length w] *)
Definition tree_run_cap (g : grammar) (tbl : table) (cap : option nat) (w : list nat) (fuel : nat)
  : result tree * pstate tree unit * list event :=
  run tree unit g tbl tree_opts w cap id_lexer (fun t _ _ _ => Leaf t) (fun _ => Leaf (err_idx g))
      (fun r c args => (c, Node r args)) fuel tt.

Lemma tree_run_cap_None g tbl w fuel : fst (fst (tree_run_cap g tbl None w fuel)) = tree_run g tbl w fuel.
Proof. reflexivity. Qed.

Lemma id_lexer_in_range : lexer_in_range id_lexer.
Proof.
  intros v p rest t len H. destruct rest as [|c rest]; cbn in H; [discriminate|]. inversion H; subst. cbn. lia.
Qed.

Corollary cstring_capacity_suffices_tree : forall g tbl w fuel,
  empty_rules g = 0 -> eof_err_not_shifted g tbl -> no_shifterrb tbl = true ->
  tree_run_cap g tbl (Some (cstring_cap g (length w))) w fuel = tree_run_cap g tbl None w fuel /\
  fst (fst (tree_run_cap g tbl (Some (cstring_cap g (length w))) w fuel)) <> Throw /\
  fst (fst (tree_run_cap g tbl (Some (cstring_cap g (length w))) w fuel)) = tree_run g tbl w fuel.
Proof.
  intros g tbl w fuel He Hn Hs. unfold tree_run_cap.
  destruct (cstring_capacity_suffices_without_empty_rules tree unit g tbl tree_opts w id_lexer
              (fun t _ _ _ => Leaf t) (fun _ => Leaf (err_idx g)) (fun r c args => (c, Node r args))
              He Hn Hs id_lexer_in_range fuel tt) as [E Ht].
  split; [exact E|]. split; [exact Ht|]. rewrite E. reflexivity.
Qed.

Print Assumptions analyze_empty_rules.
Print Assumptions run_unbounded_no_throw.
Print Assumptions cstring_capacity_suffices_Q.
Print Assumptions cstring_capacity_suffices_without_empty_rules.
Print Assumptions height_le_bytes_without_empty_rules.
Print Assumptions cstring_capacity_suffices_tree.
