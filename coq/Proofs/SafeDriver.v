(* Memory safety of the table-driven driver (Model/Driver.v), for the GENERIC driver: any semantic algebra, any
   options, any buffer, any stack capacity, any fuel.
   (S1) with a table that passes [safe_ok] (implied by [validate_safe]) and a lexer whose answers are in range, the
        run never ends in [Crash]: no unchecked access of the C++ is out of range, also during error recovery;
   (S2) with the purely dimensional [table_wfb] (which holds also of tables with conflicts) the three index crashes
        CrTableRow / CrTableCol / CrRuleInfo never occur. *)
Require Import Ctpg.Base.Prelude Ctpg.Model.Grammar Ctpg.Model.LRGen Ctpg.Model.Driver
               Ctpg.Spec.Cfg Ctpg.Spec.LRSpec Ctpg.Valid.LRValid Ctpg.Valid.LRSafe
               Ctpg.Proofs.LRReflect Ctpg.Proofs.LRValidFacts Ctpg.Proofs.LRSound
               Ctpg.Proofs.DriverBasics Ctpg.Proofs.SafeBasics.

(* the lexer's answers are in range for the grammar (a real term, not <eof>/<error>) and for the buffer *)
Definition lexer_ok_for (g : grammar)
  (lexer : bool -> spoint -> list nat -> list lex_event * option (nat * nat)) : Prop :=
  forall v p rest t len, snd (lexer v p rest) = Some (t, len) -> t < eof_idx g /\ len <= length rest.

(* the same, required only of the suffixes of the buffer at hand (all the driver ever passes to the lexer) *)
Definition lexer_ok_on (g : grammar) (buf : list nat)
  (lexer : bool -> spoint -> list nat -> list lex_event * option (nat * nat)) : Prop :=
  forall v p k t len, snd (lexer v p (skipn k buf)) = Some (t, len) -> t < eof_idx g /\ len <= length (skipn k buf).

Lemma lexer_ok_for_on g lexer : lexer_ok_for g lexer -> forall buf, lexer_ok_on g buf lexer.
Proof. intros H buf v p k t len E. exact (H v p _ t len E). Qed.

(* ---------- Prop reading of [safe_ok] ---------- *)
Record safe_facts (g : grammar) (sts : list items) (tbl : table) : Prop := {
  sa_sound : sound_facts g sts tbl;
  (* an incomplete item with a nonterminal after the dot has a goto carrying a target *)
  sa_goto : forall s i b, s < length sts -> In i (state_items sts s) -> is_complete g i = false ->
            next_sym g i = Some (NT b) -> exists s', goto_target g tbl s (NT b) = Some s';
  (* every dot-0 item other than the root item of state 0 has a parent in its state *)
  sa_parent : forall s i, s < length sts -> In i (state_items sts s) -> it_d i = 0 ->
              (s = 0 /\ i = root_item g) \/
              exists j, In j (state_items sts s) /\ next_sym g j = Some (NT (ri_l (get_ri g (it_r i))))
}.

Lemma safe_facts_of g sts tbl : safe_ok g sts tbl = true -> safe_facts g sts tbl.
Proof.
  unfold safe_ok. intros H. apply andb_true_iff in H as [H Hcm]. apply andb_true_iff in H as [Hs Hg].
  rewrite forallb_seq0 in Hg. unfold closure_min_ok in Hcm. rewrite forallb_seq0 in Hcm.
  constructor.
  - apply sound_facts_of. exact Hs.
  - intros s i b Hlt Hi Hic Hnx. specialize (Hg s Hlt). unfold goto_nt_ok in Hg.
    rewrite forallb_forall in Hg. specialize (Hg i Hi). rewrite Hic, Hnx in Hg.
    destruct (goto_target g tbl s (NT b)) as [s'|]; [eauto|discriminate].
  - intros s i Hlt Hi Hd. specialize (Hcm s Hlt). unfold closure_min_state in Hcm.
    rewrite forallb_forall in Hcm. specialize (Hcm i Hi). rewrite Hd in Hcm. cbn [Nat.eqb negb orb] in Hcm.
    apply orb_true_iff in Hcm as [Hcm|Hcm].
    + left. apply andb_true_iff in Hcm as [H0 Hr]. apply Nat.eqb_eq in H0. apply item_eqb_eq in Hr. auto.
    + right. unfold has_parent in Hcm. apply existsb_exists in Hcm as (j & Hj & Hc). exists j. split; [exact Hj|].
      unfold calls in Hc. destruct (next_sym g j) as [[a|b]|]; try discriminate.
      apply Nat.eqb_eq in Hc. congruence.
Qed.

Lemma goto_ok_nt g sts tbl s : goto_ok g sts tbl s = true -> goto_nt_ok g sts tbl s = true.
Proof.
  unfold goto_ok, goto_nt_ok. rewrite !forallb_forall. intros H i Hi. specialize (H i Hi).
  destruct (is_complete g i); [reflexivity|].
  destruct (next_sym g i) as [[a|b]|]; try reflexivity.
  destruct (goto_target g tbl s (NT b)); [reflexivity|discriminate].
Qed.

Lemma validate_safe_safe_ok g sts tbl : validate_safe g sts tbl = true -> safe_ok g sts tbl = true.
Proof.
  unfold validate_safe, validate, table_ok, safe_ok. intros H.
  apply andb_true_iff in H as [H Hcm]. apply andb_true_iff in H as [H Hst]. apply andb_true_iff in H as [Hs _].
  rewrite Hs, Hcm, andb_true_r. cbn [andb].
  rewrite forallb_forall in Hst |- *. intros s Hin. specialize (Hst s Hin).
  apply andb_true_iff in Hst as [Hst _]. apply andb_true_iff in Hst as [_ Hgo]. apply goto_ok_nt. exact Hgo.
Qed.

(* ---------- list helpers ---------- *)
Lemma skipn_length_le {A} (l : list A) n : length (skipn n l) = length l - n.
Proof. apply skipn_length. Qed.

Lemma In_skipn {A} (l : list A) n x : In x (skipn n l) -> In x l.
Proof. intros H. rewrite <- (firstn_skipn n l). apply in_or_app. right. exact H. Qed.

Lemma length_tl {A} (l : list A) : length (tl l) = length l - 1.
Proof. destruct l; cbn; lia. Qed.

Lemma rev_nil_inv {A} (l : list A) : rev l = [] -> l = [].
Proof. intros H. apply (f_equal (@length A)) in H. rewrite rev_length in H. destruct l; [reflexivity|discriminate]. Qed.

(* ================================================================================================= *)
(* (S1) no crash with a validated table                                                              *)
(* ================================================================================================= *)
Section Safe.
  Variables V C : Type.
  Variable g : grammar.
  Variable sts : list items.
  Variable tbl : table.
  Variable opts : options.
  Variable buf : list nat.
  Variable cap : option nat.
  Variable lexer : bool -> spoint -> list nat -> list lex_event * option (nat * nat).
  Variable term_f : nat -> nat -> nat -> spoint -> V.
  Variable err_f : spoint -> V.
  Variable rule_f : nat -> C -> list V -> C * V.
  Hypothesis SA : safe_facts g sts tbl.
  Hypothesis HLX : lexer_ok_on g buf lexer.

  Let SF : sound_facts g sts tbl := sa_sound _ _ _ SA.

  Notation pst := (pstate V C).
  Notation stepx := (step V C g tbl opts buf cap lexer term_f err_f rule_f).
  Notation run_ghx := (run_gh V C g tbl opts buf cap lexer term_f err_f rule_f).
  Notation run_fromx := (run_from V C g tbl opts buf cap lexer term_f err_f rule_f).
  Notation runx := (run V C g tbl opts buf cap lexer term_f err_f rule_f).
  Notation gspec := (gct_spec V C g opts buf lexer).
  Notation aspec := (act_spec2 V C g tbl buf cap term_f err_f rule_f).
  Notation rspec := (red_spec V C g tbl cap rule_f).
  Notation items_of := (state_items sts).

  (* the stack discipline of Proofs/LRSound.v on the cursor stack, value stack one shorter than the cursor stack,
     the pending lexeme inside the buffer, the pending term a term of the grammar *)
  Definition stack_inv (cs : list nat) (nvals : nat) : Prop :=
    exists syms, stk_ok g sts cs syms /\ nvals = length syms.
  Definition sinv (s : pst) : Prop :=
    stack_inv (ps_cursors s) (length (ps_values s)) /\
    ps_end s <= length buf /\
    (forall x, ps_term s = Some x -> x < term_count g).

  Definition no_crash (r : result V) : Prop := forall c, r <> Crash c.

  Lemma sinv_init c : sinv (init c).
  Proof.
    unfold sinv; cbn. split; [|split; [lia|discriminate]].
    exists []. split; [constructor|reflexivity].
  Qed.

  (* what the invariant gives at once: a non-empty stack of valid rows, heights in step *)
  Lemma sinv_facts s : sinv s ->
    ps_cursors s <> [] /\ Forall (fun c => c < length sts) (ps_cursors s) /\
    length (ps_cursors s) = S (length (ps_values s)).
  Proof.
    intros ((syms & Hst & Hl) & _ & _). split; [|split].
    - intros E. rewrite E in Hst. inversion Hst.
    - eapply stk_all_lt; eassumption.
    - rewrite Hl. eapply stk_len; eassumption.
  Qed.

  Lemma tc_pos : 0 < term_count g.
  Proof. pose proof (sf_tc _ _ _ SF). lia. Qed.

  Lemma gct_sinv s s1 ot ev : sinv s -> gspec s (s1, ot, ev) ->
    sinv s1 /\ (forall t, ot = Some t -> t < term_count g).
  Proof.
    intros (Hstk & Hend & Hterm) H.
    pose proof tc_pos as Htc.
    inversion H as [Hr|Hr Hne|sp1 it1 Hr He Hit1 Hsp1 Hsk|sp1 it1 c rest lx Hr He Hit1 Hsp1 Hsk Hl|sp1 it1 c rest lx t0 len Hr He Hit1 Hsp1 Hsk Hl];
      subst; unfold sinv; simp_ps.
    - split; [auto|]. intros t E. inversion E. unfold err_idx; lia.
    - split; [auto|]. intros t E. apply Hterm. exact E.
    - split; [|intros t E; inversion E; unfold eof_idx; lia].
      split; [exact Hstk|]. split; [exact Hend|]. intros x E. inversion E. unfold eof_idx; lia.
    - split; [|discriminate]. split; [exact Hstk|]. split; [exact Hend|discriminate].
    - destruct (HLX (o_verbose opts) (sp_update (ps_sp s) (slice_of buf (ps_it s) (ps_it s + wsk opts buf (ps_it s))))
                    (ps_it s + wsk opts buf (ps_it s)) t0 len) as [Ht Hlen]; [rewrite Hsk, Hl; reflexivity|].
      assert (t0 < term_count g) by (unfold eof_idx in Ht; lia).
      split; [|intros t E; inversion E; subst; assumption].
      split; [exact Hstk|]. split.
      + rewrite skipn_length in Hlen. apply skipn_cons_lt in Hsk as [Hl1 _]. lia.
      + intros x E. inversion E; subst; assumption.
  Qed.

  (* pushing the target of a justified shift/goto cell on column [sym_col g X] *)
  Lemma push_cell cur cs syms X nst :
    stk_ok g sts (cur :: cs) syms -> sym_ok g X = true ->
    (e_kind (cell_at tbl cur (sym_col g X)) = KShift \/ e_kind (cell_at tbl cur (sym_col g X)) = KShiftErr) ->
    e_arg (cell_at tbl cur (sym_col g X)) = Some nst ->
    stk_ok g sts (nst :: cur :: cs) (X :: syms).
  Proof.
    intros Hst HX Hk Ha.
    pose proof (stk_top_lt _ _ _ SF _ _ _ Hst) as Hcur.
    assert (Hcol : sym_col g X < symbol_count g).
    { unfold symbol_count. destruct X as [i|i]; cbn in HX |- *; apply Nat.ltb_lt in HX; lia. }
    pose proof (sf_cell _ _ _ SF cur _ Hcur Hcol) as Hcj.
    destruct (cj_shift _ _ _ _ _ Hcj Hk) as (s' & Ha' & Hsj & _).
    assert (s' = nst) by congruence. subst s'.
    eapply push_ok; eassumption.
  Qed.

  (* ---------- reduce ---------- *)
  Lemma red_sinv s r cur cs i res :
    sinv s -> ps_cursors s = cur :: cs ->
    In i (items_of cur) -> it_r i = r -> is_complete g i = true ->
    r < rule_count g -> r <> root_rule_idx g ->
    rspec s r res ->
    match res with
    | inl (s3, _) => sinv s3
    | inr x => no_crash x
    end.
  Proof.
    intros ((syms & Hst & Hlen) & Hend & Hterm) Hcs Hi Hir Hic Hrlt Hrnr Hred.
    rewrite Hcs in Hst.
    pose proof (stk_top_lt _ _ _ SF _ _ _ Hst) as Hcur.
    pose proof (nth_error_get_ri _ _ _ SF r Hrlt) as Hnth.
    destruct (sf_item _ _ _ SF cur i Hcur Hi) as (_ & Hdle & _).
    unfold is_complete in Hic. apply Nat.leb_le in Hic. rewrite Hir in Hdle, Hic.
    destruct (sf_ri _ _ _ SF r Hrlt) as (_ & Hrl & _).
    remember (get_ri g r) as ri eqn:Eri.
    remember (ri_n ri) as n eqn:En.
    assert (Hd : it_d i = n) by lia.
    destruct (stk_item _ _ _ SF n _ _ _ i Hst Hi Hd) as (Hnle & _ & s0 & Hs0 & Hin0).
    pose proof (stk_len _ _ _ _ Hst) as Hlcs.
    pose proof (stk_skip _ _ _ _ n Hst Hnle) as Hst'.
    (* the uncovered state s0 and its goto cell *)
    assert (Hs0lt : s0 < length sts).
    { pose proof (stk_all_lt _ _ _ SF _ _ Hst) as Hall. rewrite Forall_forall in Hall. apply Hall.
      eapply nth_error_In; eassumption. }
    assert (Hlc : ri_l ri < symbol_count g) by (unfold symbol_count; lia).
    pose proof (cell_in_range _ _ _ SF s0 (ri_l ri) Hs0lt Hlc) as Hcell0.
    assert (Hgoto : e_kind (cell_at tbl s0 (ri_l ri)) = KShift /\ exists s', e_arg (cell_at tbl s0 (ri_l ri)) = Some s').
    { rewrite Hir in Hin0.
      destruct (sa_parent _ _ _ SA s0 _ Hs0lt Hin0 eq_refl) as [[_ E]|(j & Hj & Hnx)].
      - exfalso. unfold root_item in E. inversion E. contradiction.
      - cbn [it_r] in Hnx. rewrite <- Eri in Hnx.
        pose proof (next_sym_incomplete _ _ _ SF _ _ _ Hs0lt Hj Hnx) as Hjc.
        destruct (sa_goto _ _ _ SA s0 j _ Hs0lt Hj Hjc Hnx) as (s' & Hg).
        unfold goto_target in Hg. cbn [sym_col] in Hg.
        destruct (e_kind (cell_at tbl s0 (ri_l ri))); try discriminate. split; [reflexivity|eauto]. }
    destruct Hgoto as (Hgk & s' & Hga).
    assert (Htop : forall top cs', skipn n (cur :: cs) = top :: cs' -> top = s0).
    { intros top cs' E. apply skipn_cons_nth_error in E as [E _]. congruence. }
    inversion Hred as [Hn|ri0 Hn Hlt|ri0 Hn Hle Hsk|ri0 top cs' c (Hn & Hle & Hsk) Hc
                      |ri0 top cs' e (Hn & Hle & Hsk) Hc Hf
                      |ri0 top cs' e (Hn & Hle & Hsk) Hc Hf Ha
                      |ri0 top cs' e nst (Hn & Hle & Hsk) Hc Hf Ha Hv
                      |ri0 top cs' e nst (Hn & Hle & Hsk) Hc Hf Ha Hv Hf2
                      |ri0 top cs' e nst c' v (Hn & Hle & Hsk) Hc Hf Ha Hv Hrf Hf2];
      subst res; try (rewrite Hnth in Hn; inversion Hn; subst ri0); try rewrite Hcs in *; try rewrite <- En in *.
    - exfalso. cbn [length] in *. lia.
    - exfalso. apply (f_equal (@length nat)) in Hsk. rewrite skipn_length in Hsk. cbn [length] in *. lia.
    - exfalso. rewrite (Htop _ _ Hsk) in Hc. congruence.
    - intros c; discriminate.
    - exfalso. rewrite (Htop _ _ Hsk) in Hc. rewrite Hcell0 in Hc. inversion Hc; subst e. congruence.
    - exfalso. lia.
    - intros c; discriminate.
    - (* the successful reduce *)
      pose proof (Htop _ _ Hsk) as ->. rewrite Hcell0 in Hc. inversion Hc; subst e. clear Hc.
      rewrite Hsk in Hst'.
      unfold sinv; simp_ps. split; [|auto].
      exists (NT (ri_l ri) :: skipn n syms). split.
      + apply push_cell; cbn [sym_col sym_ok]; [exact Hst'|apply Nat.ltb_lt; exact Hrl|left; exact Hgk|exact Ha].
      + cbn [length]. rewrite !skipn_length. lia.
  Qed.

  (* ---------- one action ---------- *)
  Lemma act_sinv s1 cur cs t r :
    sinv s1 -> ps_cursors s1 = cur :: cs -> t < term_count g -> aspec s1 cur t r ->
    match r with
    | inl s' => sinv s'
    | inr (x, _) => no_crash x
    end.
  Proof.
    intros Hinv Hcs Ht Ha. pose proof Hinv as ((syms & Hst & Hlen) & Hend & Hterm).
    rewrite Hcs in Hst.
    pose proof (stk_top_lt _ _ _ SF _ _ _ Hst) as Hcur.
    assert (Hcol : nterm_count g + t < symbol_count g) by (unfold symbol_count; lia).
    pose proof (cell_in_range _ _ _ SF cur _ Hcur Hcol) as Hcell.
    pose proof (sf_cell _ _ _ SF cur _ Hcur Hcol) as Hcj.
    pose proof (stk_len _ _ _ _ Hst) as Hlcs.
    assert (HsT : sym_ok g (T t) = true) by (cbn; apply Nat.ltb_lt; exact Ht).
    inversion Ha as [c Hc|e Hc Hk Hcn Htm|e Hc Hk Hcn Htm|e Hc Hk Hcn Hrc|e top cs' Hc Hk Hcn Hrc Htl|e Hc Hk Hcn Hrc Htl
                    |e Hc Hk Harg|e nst Hc Hk Harg Hf|e nst Hc Hk Harg Hf Hov|e nst Hc Hk Harg Hf Hov
                    |e nst Hc Hk Harg Hf|e Hc Hk Harg|e r0 s3 ev Hc Hk Harg Hred|e r0 res Hc Hk Harg Hred
                    |e Hc Hk Hrv|e v rest Hc Hk Hrv];
      subst r; try (rewrite Hcell in Hc; inversion Hc; subst e; clear Hc).
    - intros c; discriminate.
    - (* consume *) unfold sinv; simp_ps. rewrite Hcs. split; [exists syms; auto|auto].
    - (* enter recovery *) unfold sinv; simp_ps. rewrite Hcs. split; [exists syms; auto|auto].
    - (* pop *)
      unfold sinv; simp_ps. split; [|auto]. rewrite Hcs in *. cbn [tl] in *.
      exists (skipn 1 syms). split.
      + assert (1 <= length syms) by (rewrite Htl in Hlcs; cbn [length] in Hlcs; lia).
        apply (stk_skip _ _ _ _ 1 Hst). assumption.
      + rewrite length_tl, skipn_length. lia.
    - intros c; discriminate.
    - (* shift cell without target *)
      exfalso. destruct (cj_shift _ _ _ _ _ Hcj Hk) as (s' & Ha' & _). congruence.
    - intros c; discriminate.
    - exfalso. lia.
    - (* shift *)
      unfold sinv; simp_ps. rewrite Hcs. split; [|auto].
      exists (T t :: syms). split; [|cbn [length]; lia].
      apply push_cell; cbn [sym_col]; auto.
    - (* shift of the error token: a goto like any other for the invariant *)
      unfold sinv; simp_ps. rewrite Hcs. split; [|auto].
      exists (T t :: syms). split; [|cbn [length]; lia].
      apply push_cell; cbn [sym_col]; auto.
    - (* reduce cell without rule *)
      exfalso. destruct Hk as [Hk|Hk]; [|exact (cj_rr _ _ _ _ _ Hcj Hk)].
      destruct (cj_reduce _ _ _ _ _ Hcj Hk) as (r' & Ha' & _). congruence.
    - (* reduce *)
      destruct Hk as [Hk|Hk]; [|exfalso; exact (cj_rr _ _ _ _ _ Hcj Hk)].
      destruct (cj_reduce _ _ _ _ _ Hcj Hk) as (r' & Ha' & Hrlt & Hrnr & _ & i & Hi & Hir & Hic).
      assert (Er : r' = r0) by congruence. rewrite Er in Hrlt, Hrnr, Hir.
      assert (Hinv' : sinv (clr s1)) by (unfold sinv; simp_ps; exact Hinv).
      assert (Hcs' : ps_cursors (clr s1) = cur :: cs) by (rewrite clr_cursors; exact Hcs).
      exact (red_sinv _ _ _ _ _ _ Hinv' Hcs' Hi Hir Hic Hrlt Hrnr Hred).
    - destruct Hk as [Hk|Hk]; [|exfalso; exact (cj_rr _ _ _ _ _ Hcj Hk)].
      destruct (cj_reduce _ _ _ _ _ Hcj Hk) as (r' & Ha' & Hrlt & Hrnr & _ & i & Hi & Hir & Hic).
      assert (Er : r' = r0) by congruence. rewrite Er in Hrlt, Hrnr, Hir.
      assert (Hinv' : sinv (clr s1)) by (unfold sinv; simp_ps; exact Hinv).
      assert (Hcs' : ps_cursors (clr s1) = cur :: cs) by (rewrite clr_cursors; exact Hcs).
      exact (red_sinv _ _ _ _ _ _ Hinv' Hcs' Hi Hir Hic Hrlt Hrnr Hred).
    - (* success with an empty value stack *)
      exfalso. destruct (cj_success _ _ _ _ _ Hcj Hk) as (_ & i & Hi & Hir & Hic).
      destruct (sf_root_rhs _ _ _ SF) as (x & Hroot).
      pose proof (root_lt _ _ _ SF) as Hrl.
      destruct (sf_ri _ _ _ SF _ Hrl) as (_ & _ & Hn). rewrite (sf_root_r _ _ _ SF), Hroot in Hn. cbn in Hn.
      destruct (sf_item _ _ _ SF cur i Hcur Hi) as (_ & Hdle & _).
      unfold is_complete in Hic. apply Nat.leb_le in Hic. rewrite Hir, Hn in Hdle, Hic.
      assert (Hd : it_d i = 1) by lia.
      destruct (stk_item _ _ _ SF 1 _ _ _ i Hst Hi Hd) as (Hle & _).
      apply rev_nil_inv in Hrv. rewrite Hrv in Hlen. cbn in Hlen. lia.
    - intros c; discriminate.
  Qed.

  Lemma step_sinv s : sinv s ->
    match fst (stepx s) with
    | inl s' => sinv s'
    | inr (r, _) => no_crash r
    end.
  Proof.
    intros Hinv. apply step_cases2.
    - intros E. exfalso. destruct (sinv_facts s Hinv) as (Hne & _). contradiction.
    - intros s1 ev1 _ c. discriminate.
    - intros cur cs s1 t ev1 r Hcs Hg Ha.
      destruct (gct_sinv _ _ _ _ Hinv Hg) as [Hinv1 Ht].
      destruct (gct_stacks Hg) as (Hcs1 & _).
      eapply act_sinv; [exact Hinv1|rewrite Hcs1; exact Hcs|apply Ht; reflexivity|exact Ha].
  Qed.

  Theorem run_gh_safe fuel c :
    let '(r, _, _, vis) := run_ghx fuel (init c) [] [] in no_crash r /\ Forall sinv vis.
  Proof.
    pose proof (run_gh_sinv V C g tbl opts buf cap lexer term_f err_f rule_f sinv (fun r _ => no_crash r)) as H.
    specialize (H ltac:(intros s _ c0; discriminate)).
    assert (Hst : forall s, sinv s -> match fst (stepx s) with inl s' => sinv s' | inr (r, _) => no_crash r end)
      by exact step_sinv.
    specialize (H Hst fuel (init c) [] [] (sinv_init c) (Forall_nil _)).
    destruct (run_ghx fuel (init c) [] []) as [[[r s] out] vis]. exact H.
  Qed.

  Theorem run_safe fuel c : forall cr, fst (fst (runx fuel c)) <> Crash cr.
  Proof.
    unfold run. rewrite (run_gh_run _ _ _ _ _ _ _ _ _ _ _ fuel (init c) [] []).
    pose proof (run_gh_safe fuel c) as H. destruct (run_ghx fuel (init c) [] []) as [[[r s] out] vis].
    cbn. exact (proj1 H).
  Qed.
End Safe.

(* the memory-safety theorem, under the check that also covers tables with resolved shift/reduce conflicts *)
Theorem no_crash_safe_ok :
  forall (V C : Type) g sts tbl opts buf cap lexer
         (term_f : nat -> nat -> nat -> spoint -> V) (err_f : spoint -> V) (rule_f : nat -> C -> list V -> C * V),
  safe_ok g sts tbl = true -> lexer_ok_on g buf lexer ->
  forall fuel c cr, fst (fst (run V C g tbl opts buf cap lexer term_f err_f rule_f fuel c)) <> Crash cr.
Proof.
  intros V C g sts tbl opts buf cap lexer term_f err_f rule_f Hs Hl fuel c cr.
  eapply run_safe; [apply safe_facts_of; eassumption|exact Hl].
Qed.

(* (S1) as requested *)
Theorem no_crash_validated :
  forall (V C : Type) g sts tbl opts buf cap lexer
         (term_f : nat -> nat -> nat -> spoint -> V) (err_f : spoint -> V) (rule_f : nat -> C -> list V -> C * V),
  validate_safe g sts tbl = true -> lexer_ok_for g lexer ->
  forall fuel c cr, fst (fst (run V C g tbl opts buf cap lexer term_f err_f rule_f fuel c)) <> Crash cr.
Proof.
  intros V C g sts tbl opts buf cap lexer term_f err_f rule_f Hs Hl.
  eapply no_crash_safe_ok; [apply validate_safe_safe_ok; eassumption|apply lexer_ok_for_on; exact Hl].
Qed.

(* the invariant behind it, for every loop-head state the run visits: the cursor stack is non-empty, every cursor is
   the index of a state (a row of the table in use), and the value stack is exactly one shorter *)
Theorem visited_stacks_ok :
  forall (V C : Type) g sts tbl opts buf cap lexer
         (term_f : nat -> nat -> nat -> spoint -> V) (err_f : spoint -> V) (rule_f : nat -> C -> list V -> C * V),
  safe_ok g sts tbl = true -> lexer_ok_on g buf lexer ->
  forall fuel c,
    let '(_, _, _, vis) := run_gh V C g tbl opts buf cap lexer term_f err_f rule_f fuel (init c) [] [] in
    Forall (fun s => ps_cursors s <> [] /\ Forall (fun x => x < length sts) (ps_cursors s) /\
                     length (ps_cursors s) = S (length (ps_values s)) /\ ps_end s <= length buf) vis.
Proof.
  intros V C g sts tbl opts buf cap lexer term_f err_f rule_f Hs Hl fuel c.
  pose proof (safe_facts_of _ _ _ Hs) as SA.
  pose proof (run_gh_safe V C g sts tbl opts buf cap lexer term_f err_f rule_f SA Hl fuel c) as H.
  destruct (run_gh V C g tbl opts buf cap lexer term_f err_f rule_f fuel (init c) [] []) as [[[r s] out] vis].
  destruct H as [_ H]. eapply Forall_impl; [|exact H]. intros s0 Hs0.
  destruct (sinv_facts V C g sts tbl buf SA s0 Hs0) as (A & B & D). destruct Hs0 as (_ & E & _). auto.
Qed.

(* ================================================================================================= *)
(* (S2) the index crashes alone: a dimensional hypothesis suffices, conflicts allowed                *)
(* ================================================================================================= *)
Record table_wf (g : grammar) (tbl : table) (n : nat) : Prop := {
  tw_tc : 0 < term_count g;
  tw_len_ri : length (rule_infos g) = rule_count g;
  tw_ri_l : forall ri, In ri (rule_infos g) -> ri_l ri < nterm_count g;
  tw_n : 0 < n;
  tw_rows : n <= length tbl;
  tw_cols : forall s, s < n -> length (nth s tbl []) = symbol_count g;
  (* every target is a row in use *)
  tw_goto : forall s c s', s < n -> c < nterm_count g -> e_arg (cell_at tbl s c) = Some s' -> s' < n;
  tw_shift : forall s c s', s < n -> nterm_count g <= c -> c < symbol_count g ->
             is_shift_kind (e_kind (cell_at tbl s c)) -> e_arg (cell_at tbl s c) = Some s' -> s' < n;
  (* every reduce argument is a rule_info index *)
  tw_reduce : forall s c r, s < n -> nterm_count g <= c -> c < symbol_count g ->
              is_reduce_kind (e_kind (cell_at tbl s c)) -> e_arg (cell_at tbl s c) = Some r -> r < rule_count g
}.

Lemma table_wf_of g tbl n : table_wfb g tbl n = true -> table_wf g tbl n.
Proof.
  unfold table_wfb. intros H. andb_split.
  repeat match goal with
         | H : Nat.ltb _ _ = true |- _ => apply Nat.ltb_lt in H
         | H : Nat.leb _ _ = true |- _ => apply Nat.leb_le in H
         | H : Nat.eqb _ _ = true |- _ => apply Nat.eqb_eq in H
         end.
  match goal with H : forallb _ (rule_infos g) = true |- _ => rename H into Hri end.
  match goal with H : forallb _ (seq 0 n) = true |- _ => rename H into Hst end.
  rewrite forallb_forall in Hri. rewrite forallb_seq0 in Hst.
  assert (Hcw : forall s c, s < n -> c < symbol_count g -> cell_wf g n c (cell_at tbl s c) = true).
  { intros s c Hs Hc. specialize (Hst s Hs). apply andb_true_iff in Hst as [_ Hst].
    rewrite forallb_seq0 in Hst. auto. }
  constructor; try assumption.
  - intros ri Hin. apply Nat.ltb_lt. auto.
  - intros s Hs. specialize (Hst s Hs). apply andb_true_iff in Hst as [Hst _]. apply Nat.eqb_eq. exact Hst.
  - intros s c s' Hs Hc Ha. assert (c < symbol_count g) as Hc' by (unfold symbol_count; lia).
    specialize (Hcw s c Hs Hc'). unfold cell_wf in Hcw.
    apply Nat.ltb_lt in Hc. rewrite Hc in Hcw. unfold targets_row in Hcw. rewrite Ha in Hcw. apply Nat.ltb_lt. exact Hcw.
  - intros s c s' Hs Hc Hc' Hk Ha. specialize (Hcw s c Hs Hc'). unfold cell_wf in Hcw.
    apply Nat.ltb_ge in Hc. rewrite Hc in Hcw. unfold targets_row in Hcw.
    destruct Hk as [Hk|Hk]; rewrite Hk, Ha in Hcw; apply Nat.ltb_lt; exact Hcw.
  - intros s c r Hs Hc Hc' Hk Ha. specialize (Hcw s c Hs Hc'). unfold cell_wf in Hcw.
    apply Nat.ltb_ge in Hc. rewrite Hc in Hcw.
    destruct Hk as [Hk|Hk]; rewrite Hk, Ha in Hcw; apply Nat.ltb_lt; exact Hcw.
Qed.

Section Wf.
  Variables V C : Type.
  Variable g : grammar.
  Variable tbl : table.
  Variable n : nat.
  Variable opts : options.
  Variable buf : list nat.
  Variable cap : option nat.
  Variable lexer : bool -> spoint -> list nat -> list lex_event * option (nat * nat).
  Variable term_f : nat -> nat -> nat -> spoint -> V.
  Variable err_f : spoint -> V.
  Variable rule_f : nat -> C -> list V -> C * V.
  Hypothesis TW : table_wf g tbl n.
  (* only the term half of [lexer_ok_for] is needed *)
  Hypothesis HLX : forall v p k t len, snd (lexer v p (skipn k buf)) = Some (t, len) -> t < eof_idx g.

  Notation pst := (pstate V C).
  Notation stepx := (step V C g tbl opts buf cap lexer term_f err_f rule_f).
  Notation run_ghx := (run_gh V C g tbl opts buf cap lexer term_f err_f rule_f).
  Notation runx := (run V C g tbl opts buf cap lexer term_f err_f rule_f).
  Notation gspec := (gct_spec V C g opts buf lexer).
  Notation aspec := (act_spec2 V C g tbl buf cap term_f err_f rule_f).
  Notation rspec := (red_spec V C g tbl cap rule_f).

  Definition winv (s : pst) : Prop :=
    Forall (fun c => c < n) (ps_cursors s) /\ (forall x, ps_term s = Some x -> x < term_count g).

  Definition index_safe (r : result V) : Prop :=
    r <> Crash CrTableRow /\ r <> Crash CrTableCol /\ r <> Crash CrRuleInfo.

  Lemma wf_cell s c : s < n -> c < symbol_count g -> cell tbl s c = inl (cell_at tbl s c).
  Proof.
    intros Hs Hc. unfold cell, cell_at.
    assert (s < length tbl) as Hs' by (pose proof (tw_rows _ _ _ TW); lia).
    rewrite (nth_error_nth' tbl [] Hs').
    rewrite (nth_error_nth' (nth s tbl []) entry_default); [reflexivity|].
    rewrite (tw_cols _ _ _ TW s Hs). assumption.
  Qed.

  Lemma winv_init c : winv (init c).
  Proof.
    unfold winv; cbn. split; [|discriminate]. constructor; [apply (tw_n _ _ _ TW)|constructor].
  Qed.

  Lemma Forall_skipn' {A} (P : A -> Prop) k l : Forall P l -> Forall P (skipn k l).
  Proof. intros H. rewrite <- (firstn_skipn k l) in H. apply Forall_app in H. tauto. Qed.

  Lemma red_winv s r res :
    winv s -> r < rule_count g -> rspec s r res ->
    match res with
    | inl (s3, _) => winv s3
    | inr x => index_safe x
    end.
  Proof.
    intros (Hcs & Hterm) Hr Hred.
    assert (Htop : forall ri top cs', nth_error (rule_infos g) r = Some ri ->
                     skipn (ri_n ri) (ps_cursors s) = top :: cs' ->
                     cell tbl top (ri_l ri) = inl (cell_at tbl top (ri_l ri)) /\ top < n /\ ri_l ri < nterm_count g /\
                     Forall (fun c => c < n) cs').
    { intros ri top cs' Hn Hsk. pose proof (Forall_skipn' _ (ri_n ri) _ Hcs) as Hall. rewrite Hsk in Hall.
      inversion Hall; subst.
      pose proof (tw_ri_l _ _ _ TW ri (nth_error_In _ _ Hn)) as Hl.
      repeat split; auto. apply wf_cell; [assumption|unfold symbol_count; lia]. }
    inversion Hred as [Hn|ri0 Hn Hlt|ri0 Hn Hle Hsk|ri0 top cs' c (Hn & Hle & Hsk) Hc
                      |ri0 top cs' e (Hn & Hle & Hsk) Hc Hf
                      |ri0 top cs' e (Hn & Hle & Hsk) Hc Hf Ha
                      |ri0 top cs' e nst (Hn & Hle & Hsk) Hc Hf Ha Hv
                      |ri0 top cs' e nst (Hn & Hle & Hsk) Hc Hf Ha Hv Hf2
                      |ri0 top cs' e nst c' v (Hn & Hle & Hsk) Hc Hf Ha Hv Hrf Hf2];
      subst res; unfold index_safe; try (repeat split; discriminate).
    - exfalso. apply nth_error_None in Hn. rewrite (tw_len_ri _ _ _ TW) in Hn. lia.
    - exfalso. destruct (Htop _ _ _ Hn Hsk) as (Hc' & _). congruence.
    - destruct (Htop _ _ _ Hn Hsk) as (Hc' & Htl & Hl & Hall). rewrite Hc' in Hc. inversion Hc; subst e.
      unfold winv; simp_ps. split; [|exact Hterm].
      constructor; [|constructor; assumption].
      eapply (tw_goto _ _ _ TW top (ri_l ri0)); eassumption.
  Qed.

  Lemma act_winv s1 cur cs t r :
    winv s1 -> ps_cursors s1 = cur :: cs -> t < term_count g -> aspec s1 cur t r ->
    match r with
    | inl s' => winv s'
    | inr (x, _) => index_safe x
    end.
  Proof.
    intros Hinv Hcs Ht Ha. pose proof Hinv as (Hall & Hterm). rewrite Hcs in Hall.
    assert (Hcur : cur < n) by (inversion Hall; assumption).
    assert (Hcol : nterm_count g + t < symbol_count g) by (unfold symbol_count; lia).
    assert (Hcol' : nterm_count g <= nterm_count g + t) by lia.
    pose proof (wf_cell cur _ Hcur Hcol) as Hcell.
    inversion Ha as [c Hc|e Hc Hk Hcn Htm|e Hc Hk Hcn Htm|e Hc Hk Hcn Hrc|e top cs' Hc Hk Hcn Hrc Htl|e Hc Hk Hcn Hrc Htl
                    |e Hc Hk Harg|e nst Hc Hk Harg Hf|e nst Hc Hk Harg Hf Hov|e nst Hc Hk Harg Hf Hov
                    |e nst Hc Hk Harg Hf|e Hc Hk Harg|e r0 s3 ev Hc Hk Harg Hred|e r0 res Hc Hk Harg Hred
                    |e Hc Hk Hrv|e v rest Hc Hk Hrv];
      subst r; try (rewrite Hcell in Hc; inversion Hc; subst e; clear Hc);
      unfold index_safe; try (repeat split; discriminate).
    - unfold winv; simp_ps. rewrite Hcs. auto.
    - unfold winv; simp_ps. rewrite Hcs. auto.
    - unfold winv; simp_ps. rewrite Hcs. cbn [tl]. split; [inversion Hall; assumption|exact Hterm].
    - unfold winv; simp_ps. rewrite Hcs. split; [|exact Hterm]. constructor; [|exact Hall].
      eapply (tw_shift _ _ _ TW cur _ nst Hcur Hcol' Hcol); [left; exact Hk|exact Harg].
    - unfold winv; simp_ps. rewrite Hcs. split; [|exact Hterm]. constructor; [|exact Hall].
      eapply (tw_shift _ _ _ TW cur _ nst Hcur Hcol' Hcol); [right; exact Hk|exact Harg].
    - assert (Hr : r0 < rule_count g) by (eapply (tw_reduce _ _ _ TW cur _ r0 Hcur Hcol' Hcol); eassumption).
      assert (Hinv' : winv (clr s1)) by (unfold winv; simp_ps; exact Hinv).
      exact (red_winv _ _ _ Hinv' Hr Hred).
    - assert (Hr : r0 < rule_count g) by (eapply (tw_reduce _ _ _ TW cur _ r0 Hcur Hcol' Hcol); eassumption).
      assert (Hinv' : winv (clr s1)) by (unfold winv; simp_ps; exact Hinv).
      exact (red_winv _ _ _ Hinv' Hr Hred).
  Qed.

  Lemma step_winv s : winv s ->
    match fst (stepx s) with
    | inl s' => winv s'
    | inr (r, _) => index_safe r
    end.
  Proof.
    intros Hinv. apply step_cases2.
    - intros _. repeat split; discriminate.
    - intros s1 ev1 _. repeat split; discriminate.
    - intros cur cs s1 t ev1 r Hcs Hg Ha.
      destruct (gct_stacks Hg) as (Hcs1 & _).
      destruct Hinv as (Hall & Hterm).
      destruct (gct_term_lt V C g opts buf lexer _ _ _ _ (tw_tc _ _ _ TW) HLX Hterm Hg) as (Ht & Hterm1).
      eapply act_winv; [split; [rewrite Hcs1; exact Hall|exact Hterm1]|rewrite Hcs1; exact Hcs|exact Ht|exact Ha].
  Qed.

  Theorem run_index_safe fuel c : index_safe (fst (fst (runx fuel c))).
  Proof.
    unfold run. rewrite (run_gh_run _ _ _ _ _ _ _ _ _ _ _ fuel (init c) [] []).
    pose proof (run_gh_sinv V C g tbl opts buf cap lexer term_f err_f rule_f winv (fun r _ => index_safe r)) as H.
    specialize (H ltac:(intros s _; repeat split; discriminate)).
    specialize (H step_winv fuel (init c) [] [] (winv_init c) (Forall_nil _)).
    destruct (run_ghx fuel (init c) [] []) as [[[r s] out] vis]. cbn. exact (proj1 H).
  Qed.
End Wf.

(* (S2) *)
Theorem no_crash_table_wf :
  forall (V C : Type) g tbl n opts buf cap lexer
         (term_f : nat -> nat -> nat -> spoint -> V) (err_f : spoint -> V) (rule_f : nat -> C -> list V -> C * V),
  table_wfb g tbl n = true -> lexer_ok_on g buf lexer ->
  forall fuel c,
    let r := fst (fst (run V C g tbl opts buf cap lexer term_f err_f rule_f fuel c)) in
    r <> Crash CrTableRow /\ r <> Crash CrTableCol /\ r <> Crash CrRuleInfo.
Proof.
  intros V C g tbl n opts buf cap lexer term_f err_f rule_f Hw Hl fuel c.
  apply (run_index_safe V C g tbl n opts buf cap lexer term_f err_f rule_f (table_wf_of _ _ _ Hw)).
  intros v p k t len E. apply (Hl v p k t len E).
Qed.

(* a soundly validated table is in particular dimensionally well formed (n = the number of states) *)
Theorem table_wf_of_sound g sts tbl : table_sound_ok g sts tbl = true -> table_wf g tbl (length sts).
Proof.
  intros H. pose proof (sound_facts_of _ _ _ H) as SF.
  constructor.
  - pose proof (sf_tc _ _ _ SF). lia.
  - apply (sf_len_ri _ _ _ SF).
  - intros ri Hin. apply In_nth_error in Hin as (i & Hi).
    destruct (get_ri_nth_error _ _ _ SF i ri Hi) as [E Hlt]. subst ri. apply (sf_ri _ _ _ SF i Hlt).
  - apply (sf_dims2 _ _ _ SF).
  - apply (sf_dims1 _ _ _ SF).
  - apply (sf_dims3 _ _ _ SF).
  - intros s c s' Hs Hc Ha.
    assert (Hc' : c < symbol_count g) by (unfold symbol_count; lia).
    pose proof (sf_cell _ _ _ SF s c Hs Hc') as Hcj.
    destruct (e_kind (cell_at tbl s c)) eqn:Hk.
    + rewrite (cj_error _ _ _ _ _ Hcj Hk Hc) in Ha. discriminate.
    + destruct (cj_success _ _ _ _ _ Hcj Hk) as [E _]. unfold col_of_term in E. lia.
    + destruct (cj_shift _ _ _ _ _ Hcj (or_introl Hk)) as (x & Hx & (Hlt & _) & _). congruence.
    + destruct (cj_shift _ _ _ _ _ Hcj (or_intror Hk)) as (x & Hx & (Hlt & _) & _). congruence.
    + destruct (cj_reduce _ _ _ _ _ Hcj Hk) as (? & _ & _ & _ & E & _). lia.
    + destruct (cj_rr _ _ _ _ _ Hcj Hk).
  - intros s c s' Hs Hc Hc' Hk Ha. pose proof (sf_cell _ _ _ SF s c Hs Hc') as Hcj.
    destruct (cj_shift _ _ _ _ _ Hcj Hk) as (x & Hx & (Hlt & _) & _). congruence.
  - intros s c r Hs Hc Hc' Hk Ha. pose proof (sf_cell _ _ _ SF s c Hs Hc') as Hcj.
    destruct Hk as [Hk|Hk]; [|destruct (cj_rr _ _ _ _ _ Hcj Hk)].
    destruct (cj_reduce _ _ _ _ _ Hcj Hk) as (x & Hx & Hlt & _). congruence.
Qed.

(* ---------- the tree instance (one input element per term): any sequence of real terms ---------- *)
Lemma id_lexer_ok_on g w : tokens_ok g w -> lexer_ok_on g w id_lexer.
Proof.
  intros Hw v p k t len E. unfold id_lexer in E.
  destruct (skipn k w) as [|c rest] eqn:Hsk; cbn in E; [discriminate|]. inversion E; subst. split; [|cbn; lia].
  unfold tokens_ok in Hw. rewrite Forall_forall in Hw. apply Hw. apply (In_skipn w k). rewrite Hsk. left; reflexivity.
Qed.

Theorem tree_run_no_crash : forall g sts tbl w,
  safe_ok g sts tbl = true -> tokens_ok g w -> forall fuel cr, tree_run g tbl w fuel <> Crash cr.
Proof.
  intros g sts tbl w Hs Hw fuel cr. unfold tree_run.
  eapply no_crash_safe_ok; [eassumption|apply id_lexer_ok_on; assumption].
Qed.

Print Assumptions no_crash_safe_ok.
Print Assumptions no_crash_validated.
Print Assumptions visited_stacks_ok.
Print Assumptions no_crash_table_wf.
Print Assumptions table_wf_of_sound.
Print Assumptions tree_run_no_crash.
