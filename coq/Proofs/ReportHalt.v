(* R2, what remains after the counterexamples: with the additional check [closure_generated] on the item sets
   (Proofs/ReportViable.v) a run never crashes, so every run of the tree instance ends in Accept (of a derivation
   tree of the input), Reject (the input is no sentence) or OutOfFuel; hence
       (the run halts) -> ((exists fuel, Reject) <-> ~ derives).
   The only gap left in R2 is termination of the run on a non-sentence. *)
Require Import Ctpg.Base.Prelude Ctpg.Model.Grammar Ctpg.Model.LRGen Ctpg.Model.Driver
               Ctpg.Spec.Cfg Ctpg.Spec.LRSpec Ctpg.Valid.LRValid
               Ctpg.Proofs.LRReflect Ctpg.Proofs.LRMachine Ctpg.Proofs.LRValidFacts Ctpg.Proofs.LRSound
               Ctpg.Proofs.LRComplete Ctpg.Proofs.DriverBasics Ctpg.Proofs.ReportOne Ctpg.Proofs.ReportLang
               Ctpg.Proofs.ReportViable.

Section Progress.
  Variable g : grammar.
  Variable sts : list items.
  Variable tbl : table.
  Variable ne : bset.
  Variable nf : list bset.
  Hypothesis CF : complete_facts g sts tbl ne nf.
  Hypothesis Hgen : closure_generated g sts.
  Variable w : list nat.

  Let SF : sound_facts g sts tbl := cf_sound _ _ _ _ _ CF.
  Notation items_of := (state_items sts).

  (* the machine fails on error cells only *)
  Lemma progress c : SInv g sts w c -> mstep g tbl c = Fail -> err_cell g tbl c.
  Proof.
    destruct c as [[ss trs] rest]. intros (syms & Hst & Hv & Hy & Hr). unfold mstep, err_cell.
    destruct ss as [|cur ss]; [inversion Hst|].
    pose proof (stk_top_lt g sts tbl SF _ _ _ Hst) as Hcur. pose proof (look_lt g sts tbl SF _ Hr) as Hla.
    pose proof (cell_in_range g sts tbl SF cur _ Hcur (col_lt g _ Hla)) as Ec. rewrite Ec.
    pose proof (sf_cell _ _ _ SF cur _ Hcur (col_lt g _ Hla)) as Hcj.
    pose proof (Forall2_length' _ _ _ Hv) as Hlen.
    destruct (e_kind (cell_at tbl cur (nterm_count g + look g rest))) eqn:Ek; try discriminate.
    - intros _. exists cur, ss, (cell_at tbl cur (nterm_count g + look g rest)). auto.
    - (* success: the stack holds the root's tree *)
      destruct (rev trs) as [|v vs] eqn:Erev; [|discriminate]. intros _. exfalso.
      destruct (cj_success _ _ _ _ _ Hcj Ek) as (_ & i & Hi & Hir & Hic).
      destruct (sf_root_rhs _ _ _ SF) as (x & Hroot).
      destruct (sf_ri _ _ _ SF _ (root_lt _ _ _ SF)) as (_ & _ & Hn).
      rewrite (sf_root_r _ _ _ SF), Hroot in Hn. cbn in Hn.
      unfold is_complete in Hic. apply Nat.leb_le in Hic. rewrite Hir, Hn in Hic.
      destruct (stk_item g sts tbl SF (it_d i) _ _ _ i Hst Hi eq_refl) as (Hle & _).
      assert (trs = []) as -> by (apply (f_equal (@rev tree)) in Erev; rewrite rev_involutive in Erev; exact Erev).
      cbn in Hlen. lia.
    - (* shift *)
      destruct (cj_shift _ _ _ _ _ Hcj (or_introl Ek)) as (s' & -> & _). discriminate.
    - (* reduce *)
      destruct (cj_reduce _ _ _ _ _ Hcj Ek) as (r & -> & Hrlt & Hrnr & _ & i & Hi & Hir & Hic).
      unfold mreduce. rewrite (nth_error_get_ri _ _ _ SF r Hrlt).
      set (ri := get_ri g r). set (n := ri_n ri).
      destruct (sf_item _ _ _ SF cur i Hcur Hi) as (_ & Hdle & _).
      unfold is_complete in Hic. apply Nat.leb_le in Hic. rewrite Hir in Hdle, Hic. fold ri in Hdle, Hic. fold n in Hdle, Hic.
      assert (it_d i = n) as Hd by lia.
      destruct (stk_item g sts tbl SF n _ _ _ i Hst Hi Hd) as (Hnle & _ & s0 & Hs0 & Hin0).
      pose proof (stk_len _ _ _ _ Hst) as Hsl.
      destruct (Nat.ltb (length (cur :: ss)) n) eqn:El; [apply Nat.ltb_lt in El; lia|].
      pose proof (stk_skip g sts _ _ n Hst Hnle) as Hst'.
      destruct (skipn n (cur :: ss)) as [|top ss'] eqn:Esk; [inversion Hst'|].
      assert (s0 = top) as ->.
      { rewrite <- (firstn_skipn n (cur :: ss)) in Hs0. rewrite nth_error_app2 in Hs0 by (rewrite firstn_length; lia).
        rewrite firstn_length, Esk in Hs0. replace (n - Nat.min n (length (cur :: ss))) with 0 in Hs0 by lia.
        cbn in Hs0. congruence. }
      pose proof (stk_top_lt g sts tbl SF _ _ _ Hst') as Htop.
      destruct (sf_ri _ _ _ SF r Hrlt) as (_ & Hrl & _). fold ri in Hrl.
      assert (ri_l ri < symbol_count g) as Hlc by (unfold symbol_count; lia).
      rewrite (cell_in_range g sts tbl SF top _ Htop Hlc).
      (* the goto cell carries a target: the dot-0 item was put into [top] by closure *)
      assert (Hgoto : exists nst, e_arg (cell_at tbl top (ri_l ri)) = Some nst).
      { apply In_nth_error in Hin0. destruct Hin0 as [j Hj].
        destruct (Hgen top j _ Hj eq_refl) as [[_ E]|(k & ik & _ & Hik & Hnx)].
        - exfalso. apply Hrnr. unfold root_item in E. inversion E. congruence.
        - unfold lhs_of in Hnx. cbn [it_r] in Hnx. rewrite Hir in Hnx. fold ri in Hnx.
          apply nth_error_In in Hik.
          pose proof (next_sym_incomplete g sts tbl SF top ik _ Htop Hik Hnx) as Hinc.
          destruct (cf_goto _ _ _ _ _ CF top ik Htop Hik Hinc) as (x & s' & Hnx' & Hg & _).
          rewrite Hnx in Hnx'. inversion Hnx'; subst x. apply goto_NT in Hg. eauto. }
      destruct Hgoto as [nst ->].
      destruct (Nat.ltb (length trs) n) eqn:El2; [apply Nat.ltb_lt in El2; lia|]. discriminate.
  Qed.
End Progress.

Section NoCrash.
  Variable g : grammar.
  Variable sts : list items.
  Variable tbl : table.
  Variable w : list nat.
  Hypothesis Hval : validate g sts tbl = true.
  Hypothesis Hgen : closure_generated g sts.
  Hypothesis Hne : no_error_symbol g tbl = true.
  Hypothesis Hw : tokens_ok g w.

  Let CF : complete_facts g sts tbl (nterm_empty g) (nterm_first g (nterm_empty g)) := complete_facts_of _ _ _ _ _ Hval.
  Let SF : sound_facts g sts tbl := cf_sound _ _ _ _ _ CF.

  Notation dstate := (pstate tree unit).
  Notation dstep := (step tree unit g tbl tree_opts w None id_lexer tf (ef g) rlf).
  Notation dgh := (run_gh tree unit g tbl tree_opts w None id_lexer tf (ef g) rlf).

  Definition cinv (s : dstate) : Prop :=
    (normal w s /\ reach g tbl w (abs w s)) \/
    (ps_rec s = true /\ ps_cons s = false /\ ps_cursors s <> [] /\ Forall (row_ok g tbl) (ps_cursors s)).

  Definition clean (r : result tree) : Prop := match r with Crash _ | Throw => False | _ => True end.

  Lemma cinv_step s : cinv s ->
    match fst (dstep s) with
    | inl s' => cinv s'
    | inr (r, s') => clean r
    end.
  Proof.
    intros [[Hn Hr]|(Hrec & Hcons & Hnz & Hrows)].
    - pose proof (nstep_holds g sts tbl w SF Hw s Hn Hr) as H. destruct (dstep s) as [o ev]. cbn [fst].
      inversion H as [s' ev' c' Hm Hn' Ha Hq|v s' ev' Hm Hq|r s' ev' Hm Hne' Hq Hab|s1 ev1 Herr Hq Hcs Hit Hc1]; subst.
      + left. split; [assumption|]. eapply reach_next; eassumption.
      + exact I.
      + exfalso. apply Hne'. eapply progress; try eassumption. apply (reach_SInv g sts tbl w SF Hw). assumption.
      + right. cbn. rewrite Hc1, Hcs.
        destruct (stack_rows g sts tbl w SF _ (reach_SInv g sts tbl w SF Hw _ Hr)) as [H1 H2]. auto.
    - pose proof (stepB_holds tree unit g tbl tree_opts w None id_lexer tf (ef g) rlf s (err_col g tbl Hne) Hrec Hcons) as H.
      destruct (dstep s) as [o ev]. cbn [fst].
      inversion H as [top cs Htl|Hc|c0 [[Hc _]|(cur & cs & Hc & Hcell)]]; subst.
      + right. cbn. rewrite Htl. repeat split; auto; [discriminate|].
        rewrite <- Htl. destruct (ps_cursors s); [constructor|]. inversion Hrows; assumption.
      + exact I.
      + contradiction.
      + rewrite Hc in Hrows. inversion Hrows as [|? ? [e He] _]; subst. congruence.
  Qed.

  (* a run never crashes *)
  Theorem no_crash fuel : clean (tree_run g tbl w fuel).
  Proof.
    rewrite tree_run_eq, (run_gh_run _ _ _ _ _ _ _ _ _ _ _ _ _ _ []).
    pose proof (run_gh_sinv tree unit g tbl tree_opts w None id_lexer tf (ef g) rlf cinv
                  (fun r _ => clean r) (fun _ _ => I) cinv_step fuel (init tt) [] []) as H.
    destruct (dgh fuel (init tt) [] []) as [[[r s'] out] vis]. cbn [fst].
    apply H; [|constructor]. left. split; [apply init_normal|]. rewrite init_abs. exists 0. reflexivity.
  Qed.

  (* the three outcomes of a run, each with its meaning *)
  Theorem tree_run_outcomes fuel :
    (exists t, tree_run g tbl w fuel = Accept t /\ derives_tree g t w) \/
    (tree_run g tbl w fuel = Reject /\ ~ derives g w) \/
    tree_run g tbl w fuel = OutOfFuel.
  Proof.
    pose proof (no_crash fuel) as Hc.
    destruct (tree_run g tbl w fuel) as [t| |c| |] eqn:E; try contradiction; auto.
    - left. exists t. split; [reflexivity|].
      apply (lr_sound g sts tbl w t (validate_validate_sound _ _ _ Hval) Hne Hw). exists fuel. exact E.
    - right. left. split; [reflexivity|]. exact (reject_not_derivable g sts tbl w Hval Hw fuel E).
  Qed.

  (* R2 for runs that halt *)
  Theorem reject_iff_not_in_language_halting :
    (exists fuel, tree_run g tbl w fuel <> OutOfFuel) ->
    ((exists fuel, tree_run g tbl w fuel = Reject) <-> ~ derives g w).
  Proof.
    intros [fuel Hh]. split.
    - intros [f Hr]. exact (reject_not_derivable g sts tbl w Hval Hw f Hr).
    - intros Hnd. destruct (tree_run_outcomes fuel) as [(t & _ & Hd)|[[Hr _]|Ho]].
      + exfalso. apply Hnd. exists t. exact Hd.
      + eauto.
      + contradiction.
  Qed.

  (* on a non-sentence every run is rejected or out of fuel *)
  Corollary not_derivable_each_fuel : ~ derives g w ->
    forall fuel, tree_run g tbl w fuel = Reject \/ tree_run g tbl w fuel = OutOfFuel.
  Proof.
    intros Hnd fuel. destruct (tree_run_outcomes fuel) as [(t & _ & Hd)|[[Hr _]|Ho]]; auto.
    exfalso. apply Hnd. exists t. exact Hd.
  Qed.
End NoCrash.

Print Assumptions no_crash.
Print Assumptions tree_run_outcomes.
Print Assumptions reject_iff_not_in_language_halting.
Print Assumptions not_derivable_each_fuel.
