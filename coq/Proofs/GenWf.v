(* Prop reading of grammar_wf alone (no table), and the two extra coherence conditions on the grammar record
   that the generator proofs need and that grammar_wf does not state:
   - max_elems bounds every arity (it sizes the address space that fuels the closure loop);
   - every rule slice lies inside rule_infos (slice_ok only constrains indices < rule_count). *)
Require Import Ctpg.Base.Prelude Ctpg.Model.Grammar Ctpg.Model.LRGen Ctpg.Valid.LRValid
               Ctpg.Proofs.LRReflect Ctpg.Proofs.LRValidFacts Ctpg.Proofs.GenLists.

Definition grammar_wf_extra (g : grammar) : bool :=
  forallb (fun i => Nat.leb (ri_n (get_ri g i)) (max_elems g)) (seq 0 (rule_count g)) &&
  forallb (fun a => let '(st, n) := nth a (slices g) (0, 0) in Nat.leb (st + n) (rule_count g)) (seq 0 (nterm_count g)).

Record wf_facts (g : grammar) : Prop := {
  wf_tc : 1 < term_count g;
  wf_nc : 0 < nterm_count g;
  wf_rc : 0 < rule_count g;
  wf_len_ri : length (rule_infos g) = rule_count g;
  wf_len_rs : length (right_sides g) = rule_count g;
  wf_len_sl : length (slices g) = nterm_count g;
  wf_ri : forall i, i < rule_count g ->
          ri_r (get_ri g i) < rule_count g /\ ri_l (get_ri g i) < nterm_count g /\
          ri_n (get_ri g i) = length (get_rhs g (ri_r (get_ri g i)));
  wf_sym : forall r x, In r (right_sides g) -> In x r ->
           sym_ok g x = true /\ x <> NT (fake_root_idx g) /\ x <> T (eof_idx g);
  wf_slice : forall a i, a < nterm_count g -> i < rule_count g ->
             (ri_l (get_ri g i) = a <->
              fst (nth a (slices g) (0, 0)) <= i < fst (nth a (slices g) (0, 0)) + snd (nth a (slices g) (0, 0)));
  wf_root_r : ri_r (get_ri g (root_rule_idx g)) = root_rule_idx g;
  wf_root_l : ri_l (get_ri g (root_rule_idx g)) = fake_root_idx g;
  wf_root_rhs : exists x, get_rhs g (root_rule_idx g) = [NT x];
  wf_root_only : forall i, i < rule_count g -> ri_l (get_ri g i) = fake_root_idx g -> i = root_rule_idx g;
  wf_distinct : forall i j, i < rule_count g -> j < rule_count g ->
                ri_r (get_ri g i) = ri_r (get_ri g j) -> i = j
}.

Lemma wf_facts_of g : grammar_wf g = true -> wf_facts g.
Proof.
  intros Hwf. unfold grammar_wf in Hwf. andb_split.
  repeat match goal with
         | H : Nat.ltb _ _ = true |- _ => apply Nat.ltb_lt in H
         | H : Nat.leb _ _ = true |- _ => apply Nat.leb_le in H
         | H : Nat.eqb _ _ = true |- _ => apply Nat.eqb_eq in H
         end.
  constructor; try assumption.
  - match goal with H : forallb (fun i => ri_ok g i (get_ri g i)) _ = true |- _ => rename H into Hri end.
    rewrite forallb_seq0 in Hri. intros i Hi. specialize (Hri i Hi). unfold ri_ok in Hri. andb_split.
    repeat match goal with
           | H : Nat.ltb _ _ = true |- _ => apply Nat.ltb_lt in H
           | H : Nat.eqb _ _ = true |- _ => apply Nat.eqb_eq in H
           end. auto.
  - match goal with H : forallb (fun r => forallb (sym_ok g) r) _ = true |- _ => rename H into Hsy end.
    match goal with H : forallb (fun r => forallb (fun s => negb _ && negb _) r) _ = true |- _ => rename H into Hne end.
    intros r x Hr Hx. rewrite forallb_forall in Hsy, Hne. specialize (Hsy r Hr). specialize (Hne r Hr).
    rewrite forallb_forall in Hsy, Hne. specialize (Hsy x Hx). specialize (Hne x Hx).
    apply andb_true_iff in Hne. destruct Hne as [Hn1 Hn2]. apply negb_true_iff in Hn1, Hn2.
    split; [assumption|]. split; intros E; subst x; rewrite symbol_eqb_refl in *; discriminate.
  - match goal with H : forallb (slice_ok g) _ = true |- _ => rename H into Hsl end.
    rewrite forallb_seq0 in Hsl. intros a i Ha Hi. specialize (Hsl a Ha). unfold slice_ok in Hsl.
    destruct (nth a (slices g) (0, 0)) as [st n]. cbn [fst snd].
    rewrite forallb_seq0 in Hsl. specialize (Hsl i Hi). apply eqb_prop in Hsl.
    split.
    + intros E. apply Nat.eqb_eq in E. rewrite E in Hsl. symmetry in Hsl. apply andb_true_iff in Hsl.
      destruct Hsl as [A B]. apply Nat.leb_le in A. apply Nat.ltb_lt in B. lia.
    + intros [A B]. apply Nat.leb_le in A. apply Nat.ltb_lt in B. rewrite A, B in Hsl. cbn in Hsl.
      apply Nat.eqb_eq. assumption.
  - match goal with H : match get_rhs g (root_rule_idx g) with _ => _ end = true |- _ => rename H into Hr end.
    destruct (get_rhs g (root_rule_idx g)) as [|[a|x] [|? ?]]; try discriminate. exists x. reflexivity.
  - match goal with H : forallb (fun i => Nat.eqb i (root_rule_idx g) || _) _ = true |- _ => rename H into Hr end.
    rewrite forallb_seq0 in Hr. intros i Hi E. specialize (Hr i Hi). apply orb_true_iff in Hr.
    destruct Hr as [Hr|Hr]; [apply Nat.eqb_eq; assumption|].
    apply negb_true_iff in Hr. apply Nat.eqb_neq in Hr. contradiction.
  - match goal with H : distinct_r g = true |- _ => rename H into Hr end.
    unfold distinct_r in Hr. rewrite forallb_seq0 in Hr. intros i j Hi Hj E. specialize (Hr i Hi).
    rewrite forallb_seq0 in Hr. specialize (Hr j Hj). apply orb_true_iff in Hr.
    destruct Hr as [Hr|Hr]; [apply Nat.eqb_eq; assumption|].
    apply negb_true_iff in Hr. apply Nat.eqb_neq in Hr. contradiction.
Qed.

Record wfx_facts (g : grammar) : Prop := {
  wfx_elems : forall i, i < rule_count g -> ri_n (get_ri g i) <= max_elems g;
  wfx_slice : forall a, a < nterm_count g ->
              fst (nth a (slices g) (0, 0)) + snd (nth a (slices g) (0, 0)) <= rule_count g
}.

Lemma wfx_facts_of g : grammar_wf_extra g = true -> wfx_facts g.
Proof.
  intros H. unfold grammar_wf_extra in H. apply andb_true_iff in H. destruct H as [H1 H2].
  rewrite forallb_seq0 in H1, H2. constructor.
  - intros i Hi. apply Nat.leb_le. apply H1. assumption.
  - intros a Ha. specialize (H2 a Ha). destruct (nth a (slices g) (0, 0)) as [st n]. cbn [fst snd].
    apply Nat.leb_le. assumption.
Qed.

Section WfFacts.
  Variable g : grammar.
  Hypothesis WF : wf_facts g.

  Lemma wf_eof_lt : eof_idx g < term_count g.
  Proof. pose proof (wf_tc _ WF). unfold eof_idx. lia. Qed.

  Lemma wf_err_lt : err_idx g < term_count g.
  Proof. pose proof (wf_tc _ WF). unfold err_idx. lia. Qed.

  Lemma wf_root_lt : root_rule_idx g < rule_count g.
  Proof. pose proof (wf_rc _ WF). unfold root_rule_idx. lia. Qed.

  Lemma wf_fake_lt : fake_root_idx g < nterm_count g.
  Proof. pose proof (wf_nc _ WF). unfold fake_root_idx. lia. Qed.

  Lemma wf_in_rule_infos ri : In ri (rule_infos g) -> exists i, i < rule_count g /\ ri = get_ri g i.
  Proof.
    intros H. destruct (In_nth _ _ dummy_ri H) as (i & Hi & E). exists i. rewrite <- (wf_len_ri _ WF).
    split; [assumption|]. symmetry. exact E.
  Qed.

  Lemma wf_get_ri_in i : i < rule_count g -> In (get_ri g i) (rule_infos g).
  Proof. intros H. apply nth_In. rewrite (wf_len_ri _ WF). assumption. Qed.

  Lemma wf_rhs_in r : r < rule_count g -> In (get_rhs g (ri_r (get_ri g r))) (right_sides g).
  Proof.
    intros Hr. unfold get_rhs. apply nth_In. rewrite (wf_len_rs _ WF). apply (wf_ri _ WF). assumption.
  Qed.

  Lemma wf_firstn_rhs i : i < rule_count g ->
    firstn (ri_n (get_ri g i)) (get_rhs g (ri_r (get_ri g i))) = get_rhs g (ri_r (get_ri g i)).
  Proof. intros H. apply firstn_all2. destruct (wf_ri _ WF i H) as (_ & _ & E). lia. Qed.

  Lemma wf_root_n : ri_n (get_ri g (root_rule_idx g)) = 1.
  Proof.
    destruct (wf_ri _ WF _ wf_root_lt) as (_ & _ & E). rewrite E, (wf_root_r _ WF).
    destruct (wf_root_rhs _ WF) as (x & Hx). rewrite Hx. reflexivity.
  Qed.

  Lemma wf_sym_col_inj x y : sym_ok g x = true -> sym_ok g y = true -> sym_col g x = sym_col g y -> x = y.
  Proof.
    destruct x as [i|i], y as [j|j]; cbn; intros H1 H2 E;
      try apply Nat.ltb_lt in H1; try apply Nat.ltb_lt in H2; try (f_equal; lia); exfalso; lia.
  Qed.
End WfFacts.
