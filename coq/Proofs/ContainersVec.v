From Ctpg Require Import Base.Prelude Model.Containers.
From Coq Require Import NArith ZArith Lia List.
Import ListNotations.

(* cvector<T,N> and cqueue<T,N> (Model/Containers.v) refine lists / FIFO lists for every operation sequence, for every
   element type, with no bound on the run length; every array index used under the invariants is inside the array. *)

(* ------------------------------------------------------------------ Prelude.update *)
Section Update.
Context {A : Type}.

Lemma length_update : forall (l : list A) n x, length (update l n x) = length l.
Proof.
  intros l; induction l as [|h t IH]; intros n x.
  - reflexivity.
  - destruct n as [|n]; cbn [update length].
    + reflexivity.
    + rewrite IH. reflexivity.
Qed.

Lemma nth_error_update_eq : forall (l : list A) n x, n < length l -> nth_error (update l n x) n = Some x.
Proof.
  intros l; induction l as [|h t IH]; intros n x Hn; cbn [length] in Hn.
  - lia.
  - destruct n as [|n]; cbn [update nth_error].
    + reflexivity.
    + apply IH. lia.
Qed.

Lemma nth_error_update_neq : forall (l : list A) n m x, n <> m -> nth_error (update l n x) m = nth_error l m.
Proof.
  intros l; induction l as [|h t IH]; intros n m x Hnm.
  - reflexivity.
  - destruct n as [|n]; destruct m as [|m]; cbn [update nth_error]; try reflexivity.
    + lia.
    + apply IH. lia.
Qed.

Lemma firstn_update_ge : forall (l : list A) n m x, m <= n -> firstn m (update l n x) = firstn m l.
Proof.
  intros l; induction l as [|h t IH]; intros n m x Hmn.
  - reflexivity.
  - destruct n as [|n]; destruct m as [|m]; cbn [update firstn]; try reflexivity.
    + lia.
    + rewrite IH by lia. reflexivity.
Qed.

Lemma firstn_update : forall (l : list A) n x, firstn n (update l n x) = firstn n l.
Proof. intros l n x. apply firstn_update_ge. lia. Qed.

Lemma firstn_S_update : forall (l : list A) n x, n < length l -> firstn (S n) (update l n x) = firstn n l ++ [x].
Proof.
  intros l; induction l as [|h t IH]; intros n x Hn; cbn [length] in Hn.
  - lia.
  - destruct n as [|n].
    + reflexivity.
    + cbn [update]. rewrite !firstn_cons. rewrite IH by lia. reflexivity.
Qed.

Lemma skipn_update_lt : forall (l : list A) n m x, n < m -> skipn m (update l n x) = skipn m l.
Proof.
  intros l; induction l as [|h t IH]; intros n m x Hnm.
  - reflexivity.
  - destruct n as [|n]; destruct m as [|m]; cbn [update skipn]; try reflexivity; try lia.
    apply IH. lia.
Qed.

Lemma firstn_S_nth_error : forall (l : list A) n x, nth_error l n = Some x -> firstn (S n) l = firstn n l ++ [x].
Proof.
  intros l; induction l as [|h t IH]; intros n x Hx.
  - destruct n; discriminate Hx.
  - destruct n as [|n]; cbn [nth_error] in Hx.
    + injection Hx as ->. reflexivity.
    + rewrite !firstn_cons. rewrite (IH _ _ Hx). reflexivity.
Qed.

Lemma skipn_nth_error : forall (l : list A) n x, nth_error l n = Some x -> skipn n l = x :: skipn (S n) l.
Proof.
  intros l; induction l as [|h t IH]; intros n x Hx.
  - destruct n; discriminate Hx.
  - destruct n as [|n]; cbn [nth_error] in Hx.
    + injection Hx as ->. reflexivity.
    + cbn [skipn]. rewrite (IH _ _ Hx). reflexivity.
Qed.

Lemma nth_error_firstn_lt : forall (l : list A) n i, i < n -> nth_error (firstn n l) i = nth_error l i.
Proof.
  intros l; induction l as [|h t IH]; intros n i Hi.
  - rewrite firstn_nil. reflexivity.
  - destruct n as [|n]; [lia|]. destruct i as [|i]; cbn [firstn nth_error].
    + reflexivity.
    + apply IH. lia.
Qed.

Lemma nth_error_lt_some : forall (l : list A) n, n < length l -> exists x, nth_error l n = Some x.
Proof.
  intros l n Hn. destruct (nth_error l n) as [x|] eqn:E.
  - exists x. reflexivity.
  - apply nth_error_None in E. lia.
Qed.
End Update.

(* ------------------------------------------------------------------ cv_move *)
Section Move.
Context {A : Type}.

Lemma length_cv_move : forall k (data : list A) from it, length (cv_move data from it k) = length data.
Proof.
  intros k; induction k as [|k IH]; intros data from it; cbn [cv_move].
  - reflexivity.
  - destruct (nth_error data it) as [x|].
    + rewrite IH. apply length_update.
    + reflexivity.
Qed.

(* moving the k elements at it .. it+k-1 down to from .. from+k-1 (from <= it, all inside the array) *)
Lemma cv_move_spec : forall k (data : list A) from it,
  from <= it -> it + k <= length data ->
  cv_move data from it k = firstn from data ++ firstn k (skipn it data) ++ skipn (from + k) data.
Proof.
  intros k; induction k as [|k IH]; intros data from it Hfi Hlen; cbn [cv_move].
  - rewrite Nat.add_0_r. cbn [firstn app]. symmetry. apply firstn_skipn.
  - destruct (nth_error_lt_some data it) as [x Hx]; [lia|].
    rewrite Hx. rewrite IH; [| lia | rewrite length_update; lia].
    rewrite firstn_S_update by lia.
    rewrite !skipn_update_lt by lia.
    rewrite (skipn_nth_error data it x Hx). rewrite firstn_cons.
    rewrite <- app_assoc. cbn [app].
    replace (S from + k) with (from + S k) by lia. reflexivity.
Qed.
End Move.

(* ------------------------------------------------------------------ cvector *)
Section CVector.
Context {A : Type}.
Implicit Types c : cvector A.

Lemma cv_abs_length : forall c, cv_wf c -> length (cv_abs c) = N.to_nat (cv_size c).
Proof.
  intros c [Hlen Hsz]. unfold cv_abs. rewrite firstn_length. lia.
Qed.

Lemma cv_new_wf : forall cap (d : A), cv_wf (cv_new cap d).
Proof.
  intros cap d. unfold cv_wf, cv_new; cbn [cv_data cv_cap cv_size]. rewrite repeat_length. lia.
Qed.

Lemma cv_new_abs : forall cap (d : A), cv_abs (cv_new cap d) = [].
Proof. intros cap d. reflexivity. Qed.

(* 5 *)
Theorem cv_push_never_undef : forall c x, cv_push c x <> Undef.
Proof.
  intros c x. unfold cv_push. destruct (N.leb_spec (cv_cap c) (cv_size c)) as [H|H]; discriminate.
Qed.

(* 3 *)
Theorem cv_push_throws_iff_full : forall c x,
  cv_wf c -> (cv_push c x = Throw <-> length (cv_abs c) = N.to_nat (cv_cap c)).
Proof.
  intros c x Hwf. rewrite (cv_abs_length c Hwf). destruct Hwf as [Hlen Hsz].
  unfold cv_push. destruct (N.leb_spec (cv_cap c) (cv_size c)) as [H|H].
  - split; [intros _; lia | reflexivity].
  - split; [discriminate | intros E; lia].
Qed.

(* 4 *)
Theorem cv_push_in_bounds : forall c c' x,
  cv_wf c -> cv_push c x = Ok c' ->
  (N.to_nat (cv_size c) < length (cv_data c))%nat /\ cv_wf c' /\ cv_abs c' = cv_abs c ++ [x].
Proof.
  intros c c' x [Hlen Hsz] Hp. unfold cv_push in Hp.
  destruct (N.leb_spec (cv_cap c) (cv_size c)) as [H|H]; [discriminate Hp|].
  injection Hp as <-.
  assert (Hin : N.to_nat (cv_size c) < length (cv_data c)) by lia.
  split; [exact Hin|]. split.
  - unfold cv_wf; cbn [cv_data cv_cap cv_size]. rewrite length_update. lia.
  - unfold cv_abs; cbn [cv_data cv_cap cv_size].
    replace (N.to_nat (cv_size c + 1)) with (S (N.to_nat (cv_size c))) by lia.
    apply firstn_S_update. exact Hin.
Qed.

Lemma cv_push_cap : forall c c' x, cv_push c x = Ok c' -> cv_cap c' = cv_cap c.
Proof.
  intros c c' x Hp. unfold cv_push in Hp.
  destruct (N.leb_spec (cv_cap c) (cv_size c)) as [H|H]; [discriminate Hp|].
  injection Hp as <-. reflexivity.
Qed.

(* 7 *)
Theorem cv_get_spec : forall c i d,
  cv_wf c -> (i < cv_size c)%N -> cv_get c i = Ok (nth (N.to_nat i) (cv_abs c) d).
Proof.
  intros c i d [Hlen Hsz] Hi. unfold cv_get, cv_abs.
  destruct (nth_error_lt_some (cv_data c) (N.to_nat i)) as [x Hx]; [lia|].
  rewrite Hx. f_equal. symmetry. apply nth_error_nth.
  rewrite nth_error_firstn_lt by lia. exact Hx.
Qed.

(* 6 *)
Theorem cv_back_spec : forall c d,
  cv_wf c -> cv_size c <> 0%N -> cv_back c = Ok (last (cv_abs c) d).
Proof.
  intros c d [Hlen Hsz] Hnz. unfold cv_back.
  destruct (N.eqb_spec (cv_size c) 0) as [E|_]; [contradiction|].
  unfold cv_get, cv_abs.
  destruct (nth_error_lt_some (cv_data c) (N.to_nat (cv_size c - 1))) as [x Hx]; [lia|].
  rewrite Hx. f_equal.
  replace (N.to_nat (cv_size c)) with (S (N.to_nat (cv_size c - 1))) by lia.
  rewrite (firstn_S_nth_error _ _ _ Hx). rewrite last_last. reflexivity.
Qed.

(* the general erase: result, invariant and abstraction *)
Lemma cv_erase_spec : forall c f t,
  cv_wf c ->
  cv_wf (keep c (cv_erase c f t)) /\ cv_cap (keep c (cv_erase c f t)) = cv_cap c /\
  cv_abs (keep c (cv_erase c f t)) = lv_step (cv_cap c) (cv_abs c) (VErase f t).
Proof.
  intros c f t Hwf. pose proof (cv_abs_length c Hwf) as Habs. destruct Hwf as [Hlen Hsz].
  unfold cv_erase, lv_step.
  destruct (Z.ltb_spec f t) as [Hft|Hft]; cbn [negb keep].
  2:{ split; [split; assumption|]. split; reflexivity. }
  rewrite Habs.
  set (from := if (f <? 0)%Z then 0%Z else f).
  set (to := if (Z.of_N (cv_size c) <? t)%Z then Z.of_N (cv_size c) else t).
  assert (Hfrom : from = Z.max 0 f).
  { unfold from. destruct (Z.ltb_spec f 0) as [H|H]; lia. }
  assert (Hto : to = Z.min (Z.of_N (cv_size c)) t).
  { unfold to. destruct (Z.ltb_spec (Z.of_N (cv_size c)) t) as [H|H]; lia. }
  clearbody from to.
  destruct (Z.ltb_spec to from) as [Htf|Htf]; cbn [keep].
  - (* Undef: the vector is left alone; the list specification leaves it alone too *)
    split; [split; assumption|]. split; [reflexivity|].
    destruct (Nat.ltb_spec (Nat.min (N.to_nat (cv_size c)) (Z.to_nat t)) (Z.to_nat f)) as [H|H]; [reflexivity|].
    (* only possible when t <= 0: then from = 0 and to = 0 at list level *)
    replace (Z.to_nat f) with 0%nat by lia.
    replace (Nat.min (N.to_nat (cv_size c)) (Z.to_nat t)) with 0%nat by lia.
    reflexivity.
  - destruct (Nat.ltb_spec (Nat.min (N.to_nat (cv_size c)) (Z.to_nat t)) (Z.to_nat f)) as [H|H]; [lia|].
    replace (Z.to_nat f) with (Z.to_nat from) by lia.
    replace (Nat.min (N.to_nat (cv_size c)) (Z.to_nat t)) with (Z.to_nat to) by lia.
    set (nf := Z.to_nat from). set (nt := Z.to_nat to). set (ns := N.to_nat (cv_size c)).
    assert (Hnf : (nf <= nt)%nat) by (unfold nf, nt; lia).
    assert (Hnt : (nt <= ns)%nat) by (unfold nt, ns; lia).
    assert (Hns : (ns <= length (cv_data c))%nat) by (unfold ns; lia).
    split; [|split; [reflexivity|]].
    + unfold cv_wf; cbn [cv_data cv_cap cv_size]. rewrite length_cv_move. lia.
    + unfold cv_abs; cbn [cv_data cv_cap cv_size]. fold ns.
      replace (N.to_nat (cv_size c - Z.to_N (to - from))) with (nf + (ns - nt))%nat by (unfold nf, nt, ns; lia).
      rewrite cv_move_spec by lia.
      rewrite app_assoc.
      rewrite firstn_app.
      assert (L : length (firstn nf (cv_data c) ++ firstn (ns - nt) (skipn nt (cv_data c))) = (nf + (ns - nt))%nat).
      { rewrite app_length, !firstn_length, skipn_length. lia. }
      rewrite L. rewrite Nat.sub_diag. cbn [firstn]. rewrite app_nil_r.
      rewrite firstn_all2 by lia.
      rewrite firstn_firstn. replace (Nat.min nf ns) with nf by lia.
      rewrite skipn_firstn_comm. reflexivity.
Qed.

(* 8 *)
Theorem cv_erase_last_spec : forall c c' n,
  cv_wf c -> cv_erase c (Z.of_N (cv_size c) - Z.of_N n) (Z.of_N (cv_size c)) = Ok c' ->
  cv_wf c' /\ cv_abs c' = firstn (length (cv_abs c) - N.to_nat n) (cv_abs c).
Proof.
  intros c c' n Hwf He. pose proof (cv_abs_length c Hwf) as Habs. destruct Hwf as [Hlen Hsz].
  unfold cv_erase in He.
  destruct (Z.ltb_spec (Z.of_N (cv_size c) - Z.of_N n) (Z.of_N (cv_size c))) as [Hn|Hn]; cbn [negb] in He.
  2:{ injection He as <-. split; [split; assumption|].
      replace (N.to_nat n) with 0%nat by lia. rewrite Nat.sub_0_r. symmetry. apply firstn_all. }
  destruct (Z.ltb_spec (Z.of_N (cv_size c)) (Z.of_N (cv_size c))) as [Habsurd|_]; [lia|].
  set (from := if (Z.of_N (cv_size c) - Z.of_N n <? 0)%Z then 0%Z else (Z.of_N (cv_size c) - Z.of_N n)%Z) in He.
  assert (Hfrom : from = Z.max 0 (Z.of_N (cv_size c) - Z.of_N n)).
  { unfold from. destruct (Z.ltb_spec (Z.of_N (cv_size c) - Z.of_N n) 0) as [H|H]; lia. }
  clearbody from.
  destruct (Z.ltb_spec (Z.of_N (cv_size c)) from) as [H|_]; [lia|].
  injection He as <-.
  replace (N.to_nat (cv_size c) - Z.to_nat (Z.of_N (cv_size c)))%nat with 0%nat by lia.
  cbn [cv_move]. split.
  - unfold cv_wf; cbn [cv_data cv_cap cv_size]. split; [assumption | lia].
  - rewrite Habs. unfold cv_abs; cbn [cv_data cv_cap cv_size].
    rewrite firstn_firstn. f_equal. lia.
Qed.

(* erase(end() - n, end()) neither throws nor leaves the array, whatever n is (the code clamps `first` to begin()) *)
Lemma cv_erase_last_ok : forall c n,
  exists c', cv_erase c (Z.of_N (cv_size c) - Z.of_N n) (Z.of_N (cv_size c)) = Ok c'.
Proof.
  intros c n. unfold cv_erase.
  destruct (Z.ltb_spec (Z.of_N (cv_size c) - Z.of_N n) (Z.of_N (cv_size c))) as [Hn|Hn]; cbn [negb].
  2:{ eexists; reflexivity. }
  destruct (Z.ltb_spec (Z.of_N (cv_size c)) (Z.of_N (cv_size c))) as [Habsurd|_]; [lia|].
  destruct (Z.ltb_spec (Z.of_N (cv_size c) - Z.of_N n) 0) as [H0|H0].
  - destruct (Z.ltb_spec (Z.of_N (cv_size c)) 0) as [H|_]; [lia|]. eexists; reflexivity.
  - destruct (Z.ltb_spec (Z.of_N (cv_size c)) (Z.of_N (cv_size c) - Z.of_N n)) as [H|_]; [lia|]. eexists; reflexivity.
Qed.

(* one step *)
Lemma cv_step_spec : forall c o,
  cv_wf c ->
  cv_wf (cv_step c o) /\ cv_cap (cv_step c o) = cv_cap c /\
  cv_abs (cv_step c o) = lv_step (cv_cap c) (cv_abs c) o.
Proof.
  intros c o Hwf. pose proof (cv_abs_length c Hwf) as Habs.
  destruct o as [x| | |n|f t]; cbn [cv_step].
  - (* push *)
    cbn [lv_step]. rewrite Habs, N2Nat.id.
    destruct (cv_push c x) as [c'| |] eqn:Hp; cbn [keep].
    + destruct (cv_push_in_bounds c c' x Hwf Hp) as [_ [Hwf' Habs']].
      split; [exact Hwf'|]. split; [exact (cv_push_cap c c' x Hp)|].
      rewrite Habs'. unfold cv_push in Hp.
      destruct (N.leb_spec (cv_cap c) (cv_size c)) as [H|H]; [discriminate Hp | reflexivity].
    + split; [exact Hwf|]. split; [reflexivity|]. unfold cv_push in Hp.
      destruct (N.leb_spec (cv_cap c) (cv_size c)) as [H|H]; [reflexivity | discriminate Hp].
    + exfalso. exact (cv_push_never_undef c x Hp).
  - (* pop *)
    cbn [lv_step]. destruct Hwf as [Hlen Hsz].
    destruct (N.eqb_spec (cv_size c) 0) as [E|E].
    + split; [split; assumption|]. split; [reflexivity|].
      unfold cv_abs. rewrite E. reflexivity.
    + unfold cv_pop. destruct (N.eqb_spec (cv_size c) 0) as [E'|_]; [contradiction|].
      split; [|split; [reflexivity|]].
      * unfold cv_wf; cbn [cv_data cv_cap cv_size]. split; [assumption | lia].
      * unfold cv_abs; cbn [cv_data cv_cap cv_size].
        replace (N.to_nat (cv_size c)) with (S (N.to_nat (cv_size c - 1))) by lia.
        rewrite removelast_firstn by lia. reflexivity.
  - (* clear *)
    destruct Hwf as [Hlen Hsz]. split; [|split; reflexivity].
    unfold cv_wf, cv_clear; cbn [cv_data cv_cap cv_size]. split; [assumption | lia].
  - (* erase(end() - n, end()) *)
    cbn [lv_step].
    destruct (cv_erase c (Z.of_N (cv_size c) - Z.of_N n) (Z.of_N (cv_size c))) as [c'| |] eqn:He; cbn [keep].
    + destruct (cv_erase_last_spec c c' n Hwf He) as [Hwf' Habs'].
      split; [exact Hwf'|]. split; [|exact Habs'].
      pose proof (cv_erase_spec c (Z.of_N (cv_size c) - Z.of_N n) (Z.of_N (cv_size c)) Hwf) as [_ [Hc _]].
      rewrite He in Hc. exact Hc.
    + exfalso. destruct (cv_erase_last_ok c n) as [c' Hc']. rewrite Hc' in He. discriminate He.
    + (* Undef is impossible here: from <= size = to *)
      exfalso. destruct (cv_erase_last_ok c n) as [c' Hc']. rewrite Hc' in He. discriminate He.
  - (* erase(first, last) *)
    exact (cv_erase_spec c f t Hwf).
Qed.

Lemma cv_fold_spec : forall ops c,
  cv_wf c ->
  cv_wf (fold_left cv_step ops c) /\ cv_abs (fold_left cv_step ops c) = fold_left (lv_step (cv_cap c)) ops (cv_abs c).
Proof.
  intros ops; induction ops as [|o ops IH]; intros c Hwf; cbn [fold_left].
  - split; [exact Hwf | reflexivity].
  - destruct (cv_step_spec c o Hwf) as [Hwf' [Hcap Habs]].
    destruct (IH (cv_step c o) Hwf') as [Hwf'' Habs''].
    split; [exact Hwf''|]. rewrite Habs'', Hcap, Habs. reflexivity.
Qed.
End CVector.

(* 1 *)
Theorem cv_run_wf : forall A cap (d : A) ops, cv_wf (cv_run cap d ops).
Proof.
  intros A cap d ops. unfold cv_run. apply cv_fold_spec. apply cv_new_wf.
Qed.

(* 2 *)
Theorem cv_run_refines : forall A cap (d : A) ops, cv_abs (cv_run cap d ops) = fold_left (lv_step cap) ops [].
Proof.
  intros A cap d ops. unfold cv_run.
  destruct (cv_fold_spec ops (cv_new cap d) (cv_new_wf cap d)) as [_ H]. exact H.
Qed.
Print Assumptions cv_run_refines.

(* 9: pop_back on an empty vector wraps current_size (which is why cv_step's VPop guards it) *)
Example cv_pop_empty_wraps : cv_size (cv_pop (cv_new 4 0%N)) = size_max.
Proof. vm_compute. reflexivity. Qed.

(* ------------------------------------------------------------------ cqueue *)
(* 10: the ring invariant; with cq_size q <> 0 (top, pop) or cq_size q < cq_cap q (push) the capacity is non-zero, so
   cq_start / cq_end - the only array indices the code uses - are inside the array *)
Definition cq_wf {A} (q : cqueue A) : Prop :=
  length (cq_data q) = N.to_nat (cq_cap q) /\
  (cq_size q <= cq_cap q)%N /\
  (cq_cap q = 0%N \/ (cq_start q < cq_cap q /\ cq_end q < cq_cap q))%N /\
  (cq_cap q = 0 \/ cq_end q = (cq_start q + cq_size q) mod cq_cap q)%N.

(* the wrapped index, without mod *)
Lemma wrap_mod : forall s n cap : N,
  (s < cap)%N -> (n <= cap)%N -> ((s + n) mod cap = if s + n <? cap then s + n else s + n - cap)%N.
Proof.
  intros s n cap Hs Hn. destruct (N.ltb_spec (s + n) cap) as [H|H].
  - apply N.mod_small. exact H.
  - symmetry. apply (N.mod_unique (s + n) cap 1); lia.
Qed.

Section CQueue.
Context {A : Type}.
Implicit Types q : cqueue A.

Definition nxt (cap s : nat) : nat := if Nat.eqb (S s) cap then 0 else S s.
Definition wrap (cap i : nat) : nat := if Nat.ltb i cap then i else i - cap.

Lemma nxt_lt : forall cap s, s < cap -> nxt cap s < cap.
Proof. intros cap s Hs. unfold nxt. destruct (Nat.eqb_spec (S s) cap) as [E|E]; lia. Qed.

Lemma cq_take_S : forall (data : list A) cap s n x,
  nth_error data s = Some x -> cq_take data cap s (S n) = x :: cq_take data cap (nxt cap s) n.
Proof. intros data cap s n x Hx. cbn [cq_take]. rewrite Hx. reflexivity. Qed.

Lemma cq_take_length : forall n (data : list A) cap s,
  length data = cap -> s < cap -> length (cq_take data cap s n) = n.
Proof.
  intros n; induction n as [|n IH]; intros data cap s Hlen Hs.
  - reflexivity.
  - destruct (nth_error_lt_some data s) as [x Hx]; [lia|].
    rewrite (cq_take_S data cap s n x Hx). cbn [length]. rewrite IH; [reflexivity | exact Hlen | apply nxt_lt; exact Hs].
Qed.

(* writing at the end index of a non-full ring appends to the contents *)
Lemma cq_take_snoc : forall n (data : list A) cap s x,
  length data = cap -> s < cap -> n < cap ->
  cq_take (update data (wrap cap (s + n)) x) cap s (S n) = cq_take data cap s n ++ [x].
Proof.
  intros n; induction n as [|n IH]; intros data cap s x Hlen Hs Hn.
  - rewrite Nat.add_0_r. unfold wrap. destruct (Nat.ltb_spec s cap) as [_|H]; [|lia].
    cbn [cq_take app]. rewrite nth_error_update_eq by lia. reflexivity.
  - destruct (nth_error_lt_some data s) as [y Hy]; [lia|].
    assert (Hne : wrap cap (s + S n) <> s).
    { unfold wrap. destruct (Nat.ltb_spec (s + S n) cap) as [H|H]; lia. }
    rewrite (cq_take_S _ cap s (S n) y) by (rewrite nth_error_update_neq by exact Hne; exact Hy).
    rewrite (cq_take_S data cap s n y Hy). cbn [app]. f_equal.
    assert (Hw : wrap cap (s + S n) = wrap cap (nxt cap s + n)).
    { unfold wrap, nxt. destruct (Nat.eqb_spec (S s) cap) as [E|E].
      - destruct (Nat.ltb_spec (s + S n) cap) as [H1|H1]; [lia|].
        destruct (Nat.ltb_spec (0 + n) cap) as [H2|H2]; lia.
      - destruct (Nat.ltb_spec (s + S n) cap) as [H1|H1];
          destruct (Nat.ltb_spec (S s + n) cap) as [H2|H2]; lia. }
    rewrite Hw. apply IH; [exact Hlen | apply nxt_lt; exact Hs | lia].
Qed.

Lemma cq_abs_length : forall q, cq_wf q -> length (cq_abs q) = N.to_nat (cq_size q).
Proof.
  intros q [Hlen [Hsz [[Hc|[Hs He]] _]]]; unfold cq_abs.
  - replace (N.to_nat (cq_size q)) with 0%nat by lia. reflexivity.
  - apply cq_take_length; lia.
Qed.

Lemma cq_new_wf : forall cap (d : A), cq_wf (cq_new cap d).
Proof.
  intros cap d. unfold cq_wf, cq_new; cbn [cq_data cq_cap cq_start cq_end cq_size].
  rewrite repeat_length. split; [reflexivity|]. split; [lia|].
  destruct (N.eqb_spec cap 0) as [E|E].
  - split; left; exact E.
  - split; right; [lia|]. rewrite N.add_0_r. symmetry. apply N.mod_small. lia.
Qed.

Lemma cq_new_abs : forall cap (d : A), cq_abs (cq_new cap d) = [].
Proof. intros cap d. reflexivity. Qed.

(* push: result, bounds, invariant, abstraction *)
Lemma cq_push_ok : forall q q' x,
  cq_wf q -> cq_push q x = Ok q' ->
  (N.to_nat (cq_end q) < length (cq_data q))%nat /\ cq_wf q' /\ cq_cap q' = cq_cap q /\ cq_abs q' = cq_abs q ++ [x].
Proof.
  intros q q' x [Hlen [Hsz [Hse Hend]]] Hp. unfold cq_push in Hp.
  destruct (N.leb_spec (cq_cap q) (cq_size q)) as [H|H]; [discriminate Hp|].
  injection Hp as <-.
  destruct Hse as [Hc|[Hs He]]; [lia|]. destruct Hend as [Hc|Hend]; [lia|].
  rewrite wrap_mod in Hend by lia.
  split; [lia|]. split; [|split; [reflexivity|]].
  - unfold cq_wf; cbn [cq_data cq_cap cq_start cq_end cq_size]. rewrite length_update.
    split; [exact Hlen|]. split; [lia|]. split; right.
    + destruct (N.eqb_spec (cq_end q + 1) (cq_cap q)) as [E|E]; lia.
    + rewrite wrap_mod by lia.
      destruct (N.ltb_spec (cq_start q + cq_size q) (cq_cap q)) as [H1|H1];
        destruct (N.ltb_spec (cq_start q + (cq_size q + 1)) (cq_cap q)) as [H2|H2];
        destruct (N.eqb_spec (cq_end q + 1) (cq_cap q)) as [E|E]; lia.
  - unfold cq_abs; cbn [cq_data cq_cap cq_start cq_end cq_size].
    replace (N.to_nat (cq_size q + 1)) with (S (N.to_nat (cq_size q))) by lia.
    replace (N.to_nat (cq_end q)) with (wrap (N.to_nat (cq_cap q)) (N.to_nat (cq_start q) + N.to_nat (cq_size q))).
    + apply cq_take_snoc; lia.
    + unfold wrap.
      destruct (Nat.ltb_spec (N.to_nat (cq_start q) + N.to_nat (cq_size q)) (N.to_nat (cq_cap q))) as [H1|H1];
        destruct (N.ltb_spec (cq_start q + cq_size q) (cq_cap q)) as [H2|H2]; lia.
Qed.

(* pop: result, invariant, abstraction *)
Lemma cq_pop_ok : forall q q',
  cq_wf q -> cq_pop q = Ok q' -> cq_wf q' /\ cq_cap q' = cq_cap q /\ cq_abs q' = tl (cq_abs q).
Proof.
  intros q q' [Hlen [Hsz [Hse Hend]]] Hp. unfold cq_pop in Hp.
  destruct (N.eqb_spec (cq_size q) 0) as [Hz|Hz]; [discriminate Hp|].
  injection Hp as <-.
  destruct Hse as [Hc|[Hs He]]; [lia|]. destruct Hend as [Hc|Hend]; [lia|].
  rewrite wrap_mod in Hend by lia.
  split; [|split; [reflexivity|]].
  - unfold cq_wf; cbn [cq_data cq_cap cq_start cq_end cq_size].
    split; [exact Hlen|]. split; [lia|]. split; right.
    + destruct (N.eqb_spec (cq_start q + 1) (cq_cap q)) as [E|E]; lia.
    + destruct (N.eqb_spec (cq_start q + 1) (cq_cap q)) as [E|E]; rewrite wrap_mod by lia.
      * destruct (N.ltb_spec (cq_start q + cq_size q) (cq_cap q)) as [H1|H1];
          destruct (N.ltb_spec (0 + (cq_size q - 1)) (cq_cap q)) as [H2|H2]; lia.
      * destruct (N.ltb_spec (cq_start q + cq_size q) (cq_cap q)) as [H1|H1];
          destruct (N.ltb_spec (cq_start q + 1 + (cq_size q - 1)) (cq_cap q)) as [H2|H2]; lia.
  - unfold cq_abs; cbn [cq_data cq_cap cq_start cq_end cq_size].
    replace (N.to_nat (cq_size q)) with (S (N.to_nat (cq_size q - 1))) by lia.
    destruct (nth_error_lt_some (cq_data q) (N.to_nat (cq_start q))) as [y Hy]; [lia|].
    rewrite (cq_take_S _ _ _ _ y Hy). cbn [tl]. f_equal.
    unfold nxt.
    destruct (N.eqb_spec (cq_start q + 1) (cq_cap q)) as [E|E];
      destruct (Nat.eqb_spec (S (N.to_nat (cq_start q))) (N.to_nat (cq_cap q))) as [E'|E']; lia.
Qed.

(* 14 *)
Theorem cq_push_throws_iff_full : forall q x,
  cq_wf q -> (cq_push q x = Throw <-> length (cq_abs q) = N.to_nat (cq_cap q)).
Proof.
  intros q x Hwf. rewrite (cq_abs_length q Hwf). destruct Hwf as [Hlen [Hsz _]].
  unfold cq_push. destruct (N.leb_spec (cq_cap q) (cq_size q)) as [H|H].
  - split; [intros _; lia | reflexivity].
  - split; [discriminate | intros E; lia].
Qed.

Theorem cq_pop_throws_iff_empty : forall q,
  cq_wf q -> (cq_pop q = Throw <-> cq_abs q = []).
Proof.
  intros q Hwf. pose proof (cq_abs_length q Hwf) as Habs.
  unfold cq_pop. destruct (N.eqb_spec (cq_size q) 0) as [Hz|Hz].
  - split; [intros _ | reflexivity]. apply length_zero_iff_nil. lia.
  - split; [discriminate|]. intros E. rewrite E in Habs. cbn [length] in Habs. lia.
Qed.

Theorem cq_push_never_undef : forall q x, cq_push q x <> Undef.
Proof. intros q x. unfold cq_push. destruct (cq_cap q <=? cq_size q)%N; discriminate. Qed.

Theorem cq_pop_never_undef : forall q, cq_pop q <> Undef.
Proof. intros q. unfold cq_pop. destruct (cq_size q =? 0)%N; discriminate. Qed.

(* 13 *)
Theorem cq_top_spec : forall q,
  cq_wf q -> (cq_abs q = [] -> cq_top q = Throw) /\ (forall x t, cq_abs q = x :: t -> cq_top q = Ok x).
Proof.
  intros q Hwf. pose proof (cq_abs_length q Hwf) as Habs. destruct Hwf as [Hlen [Hsz [Hse Hend]]].
  unfold cq_top. split.
  - intros E. rewrite E in Habs. cbn [length] in Habs.
    destruct (N.eqb_spec (cq_size q) 0) as [Hz|Hz]; [reflexivity | lia].
  - intros x t E. rewrite E in Habs. cbn [length] in Habs.
    destruct (N.eqb_spec (cq_size q) 0) as [Hz|Hz]; [lia|].
    destruct Hse as [Hc|[Hs He]]; [lia|].
    destruct (nth_error_lt_some (cq_data q) (N.to_nat (cq_start q))) as [y Hy]; [lia|].
    rewrite Hy. unfold cq_abs in E.
    replace (N.to_nat (cq_size q)) with (S (N.to_nat (cq_size q - 1))) in E by lia.
    rewrite (cq_take_S _ _ _ _ y Hy) in E. injection E as -> _. reflexivity.
Qed.

(* 15 *)
Theorem cq_never_undef : forall q, cq_wf q -> cq_top q <> Undef.
Proof.
  intros q [Hlen [Hsz [Hse Hend]]]. unfold cq_top.
  destruct (N.eqb_spec (cq_size q) 0) as [Hz|Hz]; [discriminate|].
  destruct Hse as [Hc|[Hs He]]; [lia|].
  destruct (nth_error_lt_some (cq_data q) (N.to_nat (cq_start q))) as [y Hy]; [lia|].
  rewrite Hy. discriminate.
Qed.

Lemma cq_step_spec : forall q o,
  cq_wf q ->
  cq_wf (cq_step q o) /\ cq_cap (cq_step q o) = cq_cap q /\ cq_abs (cq_step q o) = lq_step (cq_cap q) (cq_abs q) o.
Proof.
  intros q o Hwf. pose proof (cq_abs_length q Hwf) as Habs.
  destruct o as [x|]; cbn [cq_step lq_step].
  - rewrite Habs, N2Nat.id.
    destruct (cq_push q x) as [q'| |] eqn:Hp; cbn [keep].
    + destruct (cq_push_ok q q' x Hwf Hp) as [_ [Hwf' [Hcap Habs']]].
      split; [exact Hwf'|]. split; [exact Hcap|]. rewrite Habs'. unfold cq_push in Hp.
      destruct (N.leb_spec (cq_cap q) (cq_size q)) as [H|H]; [discriminate Hp | reflexivity].
    + split; [exact Hwf|]. split; [reflexivity|]. unfold cq_push in Hp.
      destruct (N.leb_spec (cq_cap q) (cq_size q)) as [H|H]; [reflexivity | discriminate Hp].
    + exfalso. exact (cq_push_never_undef q x Hp).
  - destruct (cq_pop q) as [q'| |] eqn:Hp; cbn [keep].
    + exact (cq_pop_ok q q' Hwf Hp).
    + split; [exact Hwf|]. split; [reflexivity|].
      apply (cq_pop_throws_iff_empty q Hwf) in Hp. rewrite Hp. reflexivity.
    + exfalso. exact (cq_pop_never_undef q Hp).
Qed.

Lemma cq_fold_spec : forall ops q,
  cq_wf q ->
  cq_wf (fold_left cq_step ops q) /\ cq_abs (fold_left cq_step ops q) = fold_left (lq_step (cq_cap q)) ops (cq_abs q).
Proof.
  intros ops; induction ops as [|o ops IH]; intros q Hwf; cbn [fold_left].
  - split; [exact Hwf | reflexivity].
  - destruct (cq_step_spec q o Hwf) as [Hwf' [Hcap Habs]].
    destruct (IH (cq_step q o) Hwf') as [Hwf'' Habs''].
    split; [exact Hwf''|]. rewrite Habs'', Hcap, Habs. reflexivity.
Qed.
End CQueue.

(* 11 *)
Theorem cq_run_wf : forall A cap (d : A) ops, cq_wf (cq_run cap d ops).
Proof.
  intros A cap d ops. unfold cq_run. apply cq_fold_spec. apply cq_new_wf.
Qed.

(* 12 *)
Theorem cq_run_refines : forall A cap (d : A) ops, cq_abs (cq_run cap d ops) = fold_left (lq_step cap) ops [].
Proof.
  intros A cap d ops. unfold cq_run.
  destruct (cq_fold_spec ops (cq_new cap d) (cq_new_wf cap d)) as [_ H]. exact H.
Qed.
Print Assumptions cq_run_refines.
