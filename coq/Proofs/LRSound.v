(* Soundness of the LR(1) table validator: whatever the driver accepts with a validated table is a
   derivation tree of the input. *)
Require Import Ctpg.Base.Prelude Ctpg.Model.Grammar Ctpg.Model.LRGen Ctpg.Model.Driver
               Ctpg.Spec.Cfg Ctpg.Spec.LRSpec Ctpg.Valid.LRValid
               Ctpg.Proofs.LRReflect Ctpg.Proofs.LRMachine Ctpg.Proofs.LRValidFacts.

(* input tokens are real terms: strictly below the <eof> index *)
Definition tokens_ok (g : grammar) (w : list nat) : Prop := Forall (fun a => a < eof_idx g) w.

Section Sound.
  Variable g : grammar.
  Variable sts : list items.
  Variable tbl : table.
  Variable w : list nat.
  Hypothesis SF : sound_facts g sts tbl.
  Hypothesis Hw : tokens_ok g w.

  Notation items_of := (state_items sts).

  (* the state stack (top first) is a path of justified shift/goto cells spelling the symbols (top first) *)
  Inductive stk_ok : list nat -> list symbol -> Prop :=
  | stk_bot : stk_ok [0] []
  | stk_push s ss syms s' X :
      stk_ok (s :: ss) syms -> s' < length sts -> s' <> 0 ->
      (forall j d, In j (items_of s') -> it_d j = S d ->
                   In (mkItem (it_r j) d (it_t j)) (items_of s) /\ nth_error (rhs_of g j) d = Some X) ->
      stk_ok (s' :: s :: ss) (X :: syms).

  Lemma stk_all_lt ss syms : stk_ok ss syms -> Forall (fun s => s < length sts) ss.
  Proof.
    induction 1 as [|s ss syms s' X H IH Hlt Hnz Hj].
    - constructor; [apply (sf_dims2 _ _ _ SF)|constructor].
    - constructor; assumption.
  Qed.

  Lemma stk_len ss syms : stk_ok ss syms -> length ss = S (length syms).
  Proof. induction 1; cbn in *; congruence. Qed.

  Lemma stk_nonzero ss syms : stk_ok ss syms -> forall k, k < length syms -> nth k ss 0 <> 0.
  Proof.
    induction 1 as [|s ss syms s' X H IH Hlt Hnz Hj]; intros k Hk; cbn in *; [lia|].
    destruct k as [|k]; [assumption|]. apply IH. lia.
  Qed.

  Lemma stk_skip ss syms k : stk_ok ss syms -> k <= length syms -> stk_ok (skipn k ss) (skipn k syms).
  Proof.
    intros H; revert k. induction H as [|s ss syms s' X H IH Hlt Hnz Hj]; intros k Hk; cbn in *.
    - assert (k = 0) by lia. subst. cbn. constructor.
    - destruct k as [|k]; cbn.
      + econstructor; eassumption.
      + apply IH. lia.
  Qed.

  Lemma stk_item d : forall s ss syms i,
    stk_ok (s :: ss) syms -> In i (items_of s) -> it_d i = d ->
    d <= length syms /\ rev (firstn d syms) = firstn d (rhs_of g i) /\
    exists s0, nth_error (s :: ss) d = Some s0 /\ In (mkItem (it_r i) 0 (it_t i)) (items_of s0).
  Proof.
    induction d as [|d IH]; intros s ss syms i Hst Hi Hd.
    - split; [lia|]. split; [reflexivity|]. exists s. split; [reflexivity|].
      destruct i as [r d' t]; cbn in *. subst d'. assumption.
    - inversion Hst as [|s1 ss1 syms1 s' X H1 Hlt Hnz Hj]; subst.
      + rewrite (sf_st0_dot _ _ _ SF i Hi) in Hd. discriminate.
      + destruct (Hj i d Hi Hd) as [Hin Hx].
        destruct (IH s1 ss1 syms1 _ H1 Hin eq_refl) as (Hle & Hrev & s0 & Hn & Hin0).
        cbn [it_r it_t] in Hin0. unfold rhs_of in Hrev; cbn [it_r] in Hrev. fold (rhs_of g i) in Hrev.
        split; [cbn; lia|]. split.
        * cbn [firstn rev]. rewrite Hrev. symmetry. apply firstn_S_nth_error. assumption.
        * exists s0. split; assumption.
  Qed.

  (* ---------- the invariant of the abstract machine ---------- *)
  Definition SInv (c : cfg) : Prop :=
    let '(ss, trs, rest) := c in
    exists syms, stk_ok ss syms /\ Forall2 (valid_tree g) syms trs /\
                 (exists k, flat_map yield (rev trs) ++ rest = w ++ repeat (eof_idx g) k) /\
                 Forall (fun a => a < eof_idx g) rest.

  Lemma SInv_init : SInv ([0], [], w).
  Proof.
    exists []. split; [constructor|]. split; [constructor|]. split; [|exact Hw].
    exists 0. cbn. symmetry. apply app_nil_r.
  Qed.

  Lemma look_lt rest : Forall (fun a => a < eof_idx g) rest -> look g rest < term_count g.
  Proof.
    pose proof (eof_lt_tc _ _ _ SF). intros H'. destruct rest as [|a r]; cbn; [assumption|].
    inversion H'; subst. lia.
  Qed.

  Lemma look_eof rest : Forall (fun a => a < eof_idx g) rest -> look g rest = eof_idx g -> rest = [].
  Proof.
    intros H' E. destruct rest as [|a r]; [reflexivity|]. cbn in E. inversion H'; subst. lia.
  Qed.

  Lemma col_lt la : la < term_count g -> nterm_count g + la < symbol_count g.
  Proof. unfold symbol_count. lia. Qed.

  (* the symbol under the dot of an item of a state, read in a right side, is a well-formed symbol *)
  Lemma item_sym_ok s j d x : s < length sts -> In j (items_of s) -> nth_error (rhs_of g j) d = Some x ->
    sym_ok g x = true /\ x <> NT (fake_root_idx g) /\ x <> T (eof_idx g).
  Proof.
    intros Hs Hj Hx. destruct (sf_item _ _ _ SF s j Hs Hj) as (Hr & _ & _).
    apply (sf_sym _ _ _ SF (rhs_of g j) x).
    - unfold rhs_of. apply (rhs_in_right_sides _ _ _ SF). assumption.
    - eapply nth_error_In. eassumption.
  Qed.

  (* a justified shift/goto cell on the column of a well-formed symbol X extends the stack by X *)
  Lemma push_ok s ss syms X s' :
    stk_ok (s :: ss) syms -> sym_ok g X = true -> shift_just g sts s (sym_col g X) s' ->
    stk_ok (s' :: s :: ss) (X :: syms).
  Proof.
    intros Hst HX (Hlt & Hnz & Hj). constructor; try assumption.
    intros j d Hin Hd. destruct (Hj j d Hin Hd) as (Hin' & x & Hx & Hcol). split; [assumption|].
    rewrite Hx. f_equal. apply (sym_col_inj g); try assumption.
    eapply item_sym_ok; eassumption.
  Qed.

  Lemma stk_top_lt s ss syms : stk_ok (s :: ss) syms -> s < length sts.
  Proof. intros H. apply stk_all_lt in H. inversion H; assumption. Qed.

  (* ---------- kinds that cannot occur in reachable configurations ---------- *)
  Lemma SInv_not_bad c : SInv c -> mstep g tbl c <> Bad.
  Proof.
    destruct c as [[ss trs] rest]. intros (syms & Hst & Hv & Hy & Hr). unfold mstep.
    destruct ss as [|cur ss]; [discriminate|].
    pose proof (stk_top_lt _ _ _ Hst) as Hcur. pose proof (look_lt _ Hr) as Hla.
    destruct (cell tbl cur (nterm_count g + look g rest)) as [e|c] eqn:Ec; [|discriminate].
    pose proof (cell_cell_at _ _ _ _ Ec) as Ee.
    pose proof (sf_cell _ _ _ SF cur _ Hcur (col_lt _ Hla)) as Hcj.
    destruct (e_kind e) eqn:Ek; try discriminate.
    - destruct (rev trs); discriminate.
    - destruct (e_arg e); discriminate.
    - (* KShiftErr: would have to be the error column *)
      exfalso. rewrite Ee in Ek. destruct (cj_shift _ _ _ _ _ Hcj (or_intror Ek)) as (s' & _ & _ & Hcol).
      specialize (Hcol Ek). unfold col_of_term in Hcol. pose proof (err_eq _ _ _ SF) as Herr.
      assert (look g rest = err_idx g) as El by lia.
      destruct rest as [|a r]; cbn in El; [lia|]. inversion Hr; subst. lia.
    - destruct (e_arg e) as [r|]; [|discriminate]. unfold mreduce.
      destruct (nth_error (rule_infos g) r) as [ri|]; [|discriminate].
      destruct (Nat.ltb (length (cur :: ss)) (ri_n ri)); [discriminate|].
      destruct (skipn (ri_n ri) (cur :: ss)) as [|top ?]; [discriminate|].
      destruct (cell tbl top (ri_l ri)) as [e'|]; [|discriminate].
      destruct (e_arg e'); [|discriminate]. destruct (Nat.ltb (length trs) (ri_n ri)); discriminate.
    - exfalso. rewrite Ee in Ek. exact (cj_rr _ _ _ _ _ Hcj Ek).
  Qed.

  Lemma repeat_snoc {A} (x : A) k : repeat x k ++ [x] = repeat x (S k).
  Proof. cbn. symmetry. apply repeat_cons. Qed.

  (* ---------- preservation ---------- *)
  Lemma SInv_next c c' : SInv c -> mstep g tbl c = Next c' -> SInv c'.
  Proof.
    destruct c as [[ss trs] rest]. intros (syms & Hst & Hv & (k & Hy) & Hr). unfold mstep.
    destruct ss as [|cur ss]; [discriminate|].
    pose proof (stk_top_lt _ _ _ Hst) as Hcur. pose proof (look_lt _ Hr) as Hla.
    destruct (cell tbl cur (nterm_count g + look g rest)) as [e|c] eqn:Ec; [|discriminate].
    pose proof (cell_cell_at _ _ _ _ Ec) as Ee.
    pose proof (sf_cell _ _ _ SF cur _ Hcur (col_lt _ Hla)) as Hcj.
    destruct (e_kind e) eqn:Ek; try discriminate.
    - destruct (rev trs); discriminate.
    - (* shift *)
      destruct (e_arg e) as [nst|] eqn:Ea; [|discriminate]. intros Hn; inversion Hn; subst c'; clear Hn.
      rewrite Ee in Ek, Ea. destruct (cj_shift _ _ _ _ _ Hcj (or_introl Ek)) as (s' & Ha' & Hsj & _).
      assert (s' = nst) as Es by congruence. rewrite Es in Hsj. clear Es Ha' s'.
      exists (T (look g rest) :: syms). split.
      + apply push_ok; [assumption| |exact Hsj]. cbn. apply Nat.ltb_lt. assumption.
      + split; [constructor; [constructor|assumption]|]. split.
        * cbn [rev]. rewrite flat_map_app. cbn [flat_map yield]. rewrite app_nil_r.
          destruct rest as [|a r]; cbn [look hd tl].
          -- exists (S k). rewrite app_nil_r in Hy |- *. rewrite Hy. rewrite <- repeat_snoc.
             rewrite app_assoc. reflexivity.
          -- exists k. rewrite <- app_assoc. cbn. assumption.
        * destruct rest as [|a r]; cbn; [constructor|]. inversion Hr; assumption.
    - (* reduce *)
      destruct (e_arg e) as [r|] eqn:Ea; [|discriminate]. rewrite Ee in Ek, Ea.
      destruct (cj_reduce _ _ _ _ _ Hcj Ek) as (r' & Ha' & Hrlt & Hrnr & _ & i & Hi & Hir & Hic).
      assert (r' = r) as Er by congruence. rewrite Er in Hrlt, Hrnr, Hir. clear Er Ha' r'.
      unfold mreduce. rewrite (nth_error_get_ri _ _ _ SF r Hrlt).
      set (ri := get_ri g r). set (n := ri_n ri).
      destruct (Nat.ltb (length (cur :: ss)) n); [discriminate|].
      (* the completed item and the stack *)
      destruct (sf_item _ _ _ SF cur i Hcur Hi) as (_ & Hdle & _).
      unfold is_complete in Hic. apply Nat.leb_le in Hic. rewrite Hir in Hdle, Hic. fold ri in Hdle, Hic. fold n in Hdle, Hic.
      assert (it_d i = n) as Hd by lia.
      destruct (stk_item n _ _ _ i Hst Hi Hd) as (Hnle & Hrev & _).
      destruct (sf_ri _ _ _ SF r Hrlt) as (Hrr & Hrl & Hrn). fold ri in Hrr, Hrl, Hrn. fold n in Hrn.
      assert (rhs_of g i = get_rhs g (ri_r ri)) as Erhs by (unfold rhs_of; rewrite Hir; reflexivity).
      rewrite Erhs in Hrev. rewrite Hrn in Hrev at 2. rewrite firstn_all in Hrev.
      pose proof (stk_skip _ _ n Hst Hnle) as Hst'.
      destruct (skipn n (cur :: ss)) as [|top ss'] eqn:Esk; [discriminate|].
      pose proof (stk_top_lt _ _ _ Hst') as Htop.
      destruct (cell tbl top (ri_l ri)) as [e'|] eqn:Ec'; [|discriminate].
      pose proof (cell_cell_at _ _ _ _ Ec') as Ee'.
      assert (ri_l ri < symbol_count g) as Hlc by (unfold symbol_count; lia).
      pose proof (sf_cell _ _ _ SF top _ Htop Hlc) as Hcj'.
      destruct (e_arg e') as [nst|] eqn:Ea'; [|discriminate].
      destruct (Nat.ltb (length trs) n); [discriminate|].
      intros Hn; inversion Hn; subst c'; clear Hn.
      rewrite Ee' in Ea'.
      assert (shift_just g sts top (ri_l ri) nst) as Hsj.
      { destruct (e_kind (cell_at tbl top (ri_l ri))) eqn:Ek'.
        - rewrite (cj_error _ _ _ _ _ Hcj' Ek' Hrl) in Ea'. discriminate.
        - destruct (cj_success _ _ _ _ _ Hcj' Ek') as [Hc _]. unfold col_of_term in Hc. lia.
        - destruct (cj_shift _ _ _ _ _ Hcj' (or_introl Ek')) as (s' & Ha' & Hsj & _). congruence.
        - destruct (cj_shift _ _ _ _ _ Hcj' (or_intror Ek')) as (s' & Ha' & Hsj & _). congruence.
        - destruct (cj_reduce _ _ _ _ _ Hcj' Ek') as (? & _ & _ & _ & Hc & _). lia.
        - destruct (cj_rr _ _ _ _ _ Hcj' Ek'). }
      exists (NT (ri_l ri) :: skipn n syms). split.
      + apply push_ok; [assumption|cbn; apply Nat.ltb_lt; assumption|exact Hsj].
      + split.
        * constructor; [|apply Forall2_skipn; assumption].
          econstructor; [apply (is_rule_ri _ _ _ SF r Hrlt)|]. fold ri. rewrite <- Hrev.
          apply Forall2_rev. apply Forall2_firstn. assumption.
        * split; [|assumption]. exists k. cbn [rev]. rewrite flat_map_app. cbn [flat_map yield].
          rewrite app_nil_r. rewrite <- flat_map_app. rewrite <- rev_firstn_skipn_rev. assumption.
  Qed.

  (* ---------- a valid tree for a symbol other than <eof> has no <eof> leaf ---------- *)
  Lemma no_eof_yield t : forall X, valid_tree g X t -> X <> T (eof_idx g) -> ~ In (eof_idx g) (yield t).
  Proof.
    induction t as [a|r ch IH] using tree_ind'; intros X Hv HX.
    - inversion Hv; subst. cbn. intros [E|[]]. subst. congruence.
    - inversion Hv as [|r' l rhs ch' Hrule Hch]; subst. cbn.
      destruct Hrule as (i & ri & Hi & Hr & Hl & Hrhs). apply nth_error_In in Hrhs.
      assert (forall x, In x rhs -> x <> T (eof_idx g)) as Hne.
      { intros x Hx. apply (sf_sym _ _ _ SF rhs x Hrhs Hx). }
      clear Hv Hi Hrhs. revert rhs Hch Hne. induction IH as [|c ch Hc _ IHch]; intros rhs Hch Hne.
      + cbn. tauto.
      + inversion Hch as [|x ? rhs' ? Hx Hrest]; subst. cbn. intros Hin. apply in_app_or in Hin. destruct Hin as [Hin|Hin].
        * exact (Hc x Hx (Hne x (or_introl eq_refl)) Hin).
        * exact (IHch rhs' Hrest (fun y Hy => Hne y (or_intror Hy)) Hin).
  Qed.

  (* ---------- acceptance ---------- *)
  Lemma SInv_acc c t : SInv c -> mstep g tbl c = Acc t -> derives_tree g t w.
  Proof.
    destruct c as [[ss trs] rest]. intros (syms & Hst & Hv & (k & Hy) & Hr). unfold mstep.
    destruct ss as [|cur ss]; [discriminate|].
    pose proof (stk_top_lt _ _ _ Hst) as Hcur. pose proof (look_lt _ Hr) as Hla.
    destruct (cell tbl cur (nterm_count g + look g rest)) as [e|c] eqn:Ec; [|discriminate].
    pose proof (cell_cell_at _ _ _ _ Ec) as Ee.
    pose proof (sf_cell _ _ _ SF cur _ Hcur (col_lt _ Hla)) as Hcj.
    destruct (e_kind e) eqn:Ek; try discriminate.
    - (* success *)
      rewrite Ee in Ek. destruct (cj_success _ _ _ _ _ Hcj Ek) as (Hcol & i & Hi & Hir & Hic).
      unfold col_of_term in Hcol. assert (look g rest = eof_idx g) as Hl by lia.
      pose proof (look_eof _ Hr Hl) as Hrest. subst rest.
      destruct (sf_root_rhs _ _ _ SF) as (x & Hroot).
      pose proof (root_lt _ _ _ SF) as Hrl.
      destruct (sf_ri _ _ _ SF _ Hrl) as (_ & _ & Hn). rewrite (sf_root_r _ _ _ SF), Hroot in Hn. cbn in Hn.
      destruct (sf_item _ _ _ SF cur i Hcur Hi) as (_ & Hdle & _).
      unfold is_complete in Hic. apply Nat.leb_le in Hic. rewrite Hir, Hn in Hdle, Hic.
      assert (it_d i = 1) as Hd by lia.
      destruct (stk_item 1 _ _ _ i Hst Hi Hd) as (Hle & Hrev & s0 & Hs0 & Hin0).
      assert (rhs_of g i = [NT x]) as Erhs by (unfold rhs_of; rewrite Hir, (sf_root_r _ _ _ SF); assumption).
      rewrite Erhs in Hrev.
      (* the state below is state 0, so the stack has height 1 *)
      assert (s0 < length sts) as Hs0lt.
      { pose proof (stk_all_lt _ _ Hst) as Hall. rewrite Forall_forall in Hall. apply Hall.
        eapply nth_error_In; eassumption. }
      assert (s0 = 0) as Hz.
      { apply (sf_root_st0 _ _ _ SF s0 _ Hs0lt Hin0); [cbn; assumption|reflexivity]. }
      assert (length syms = 1) as Hlen.
      { destruct (Nat.eq_dec (length syms) 1) as [|Hne]; [assumption|]. exfalso.
        assert (1 < length syms) as Hlt by lia.
        apply (stk_nonzero _ _ Hst 1 Hlt). rewrite (nth_error_nth _ _ 0 Hs0). assumption. }
      destruct syms as [|X [|? ?]]; cbn in Hlen; try discriminate.
      cbn in Hrev. inversion Hrev; subst X.
      inversion Hv as [|? v ? trs' Hvx Hnil]; subst. inversion Hnil; subst.
      cbn. intros Ht; inversion Ht; subst t.
      exists (NT x). split; [apply (root_symbol_eq _ _ _ SF); assumption|]. split; [assumption|].
      cbn in Hy. rewrite !app_nil_r in Hy.
      destruct k as [|k]; [cbn in Hy; rewrite app_nil_r in Hy; assumption|]. exfalso.
      apply (no_eof_yield v (NT x) Hvx); [discriminate|]. rewrite Hy. apply in_or_app. right. left. reflexivity.
    - destruct (e_arg e); discriminate.
    - destruct (e_arg e) as [r|]; [|discriminate]. unfold mreduce.
      destruct (nth_error (rule_infos g) r) as [ri|]; [|discriminate].
      destruct (Nat.ltb (length (cur :: ss)) (ri_n ri)); [discriminate|].
      destruct (skipn (ri_n ri) (cur :: ss)) as [|top ?]; [discriminate|].
      destruct (cell tbl top (ri_l ri)) as [e'|]; [|discriminate].
      destruct (e_arg e'); [|discriminate]. destruct (Nat.ltb (length trs) (ri_n ri)); discriminate.
  Qed.

  Lemma mrun_sound n : forall c t, SInv c -> mrun g tbl n c = Some t -> derives_tree g t w.
  Proof.
    induction n as [|n IH]; intros c t Hi Hm; cbn [mrun] in Hm; [discriminate|].
    destruct (mstep g tbl c) as [c'|v| |] eqn:Em; try discriminate.
    - apply (IH c' t); [eapply SInv_next; eassumption|assumption].
    - inversion Hm; subst v. eapply SInv_acc; eassumption.
  Qed.
End Sound.

Theorem lr_sound : forall g sts tbl w t,
  validate_sound g sts tbl = true ->
  no_error_symbol g tbl = true ->
  tokens_ok g w ->
  accepts g tbl w t ->
  derives_tree g t w.
Proof.
  intros g sts tbl w t Hv Hne Hw Hacc.
  pose proof (sound_facts_of g sts tbl Hv) as SF.
  destruct (accepts_mrun g tbl w (SInv g sts w)) with (t := t) as (n & Hn).
  - intros c. apply SInv_not_bad; assumption.
  - intros c c'. apply SInv_next; assumption.
  - exact (no_error_symbol_cell g tbl Hne).
  - apply SInv_init. assumption.
  - assumption.
  - eapply mrun_sound; try eassumption. apply SInv_init. assumption.
Qed.

Print Assumptions lr_sound.
