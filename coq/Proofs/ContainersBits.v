(* cbitset<N> (Model/Containers.v: 64-bit words, shifts and masks) refines the set-of-indices specification and the
   Prelude.bset abstraction, for every size and every operation sequence; checked accesses never leave the word array;
   operator== (cb_eqb) agrees with set equality exactly when the padding bits of the last word are clean, which the
   whole-set operations set()/flip() do not preserve (cb_eqb_padding_refuted). *)
From Ctpg Require Import Base.Prelude Model.Containers.
From Coq Require Import NArith Lia List Bool.
Local Open Scope N_scope.

Ltac Zify.zify_post_hook ::= Z.to_euclidean_division_equations.

(* ------------------------------------------------------------------ definitions *)
Definition cb_wf (b : cbitset) : Prop :=
  length (cb_data b) = N.to_nat (word_count (cb_n b)) /\ Forall (fun w => w < 2 ^ 64) (cb_data b).

Definition cb_clean (b : cbitset) : Prop :=
  forall i, cb_n b <= i -> N.testbit (nth (N.to_nat (i / 64)) (cb_data b) 0) (i mod 64) = false.

Definition sb_step (n : N) (s : N -> bool) (o : cb_op) : N -> bool :=
  match o with
  | BSet i => if i <? n then (fun j => (j =? i) || s j) else s
  | BSetVal i v => if i <? n then (fun j => if j =? i then v else s j) else s
  | BReset i => if i <? n then (fun j => if j =? i then false else s j) else s
  | BFlip i => if i <? n then (fun j => if j =? i then negb (s j) else s j) else s
  | BFlipAll => fun j => negb (s j)
  | BSetAll => fun _ => true
  | BResetAll => fun _ => false
  | BAddSelfShift k => if k <? n then (fun j => (j =? k) || s j) else s
  end.

Definition whole_free (o : cb_op) : bool := match o with BFlipAll | BSetAll => false | _ => true end.

(* ------------------------------------------------------------------ bits of words *)
(* (w >> k) & 1 != 0 is bit k of w *)
Lemma shr_and1 : forall w k, negb (N.land (N.shiftr w k) 1 =? 0) = N.testbit w k.
Proof.
  intros w k. change 1 with (N.ones 1) at 1. rewrite N.land_ones, N.shiftr_div_pow2.
  change (2 ^ 1) with 2. rewrite <- N.testbit_spec'. destruct (N.testbit w k); reflexivity.
Qed.

Definition small (w : N) : Prop := forall m, 64 <= m -> N.testbit w m = false.

Lemma small_lt : forall w, small w <-> w < 2 ^ 64.
Proof.
  intros w. split.
  - intros Hs. assert (He : w = w mod 2 ^ 64).
    { apply N.bits_inj. intros m. destruct (N.lt_ge_cases m 64) as [Hm | Hm].
      - rewrite N.mod_pow2_bits_low by exact Hm. reflexivity.
      - rewrite N.mod_pow2_bits_high by exact Hm. apply Hs. exact Hm. }
    rewrite He. apply N.mod_lt. apply N.pow_nonzero. discriminate.
  - intros Hlt m Hm. rewrite <- (N.mod_small w (2 ^ 64)) by exact Hlt.
    apply N.mod_pow2_bits_high. exact Hm.
Qed.

Lemma small_0 : small 0.
Proof. intros m _. apply N.bits_0. Qed.

Lemma mask_bits : forall m, N.testbit word_mask m = (m <? 64).
Proof.
  intros m. unfold word_mask. destruct (N.ltb_spec m 64) as [Hm | Hm].
  - apply N.ones_spec_low. exact Hm.
  - apply N.ones_spec_high. exact Hm.
Qed.

Lemma bit_bits : forall i m, N.testbit (cb_bit i) m = (i mod 64 =? m).
Proof. intros i m. unfold cb_bit, word_bits. rewrite N.shiftl_1_l. apply N.pow2_bits_eqb. Qed.

Lemma mod64_lt : forall i, i mod 64 < 64.
Proof. intros i. apply N.mod_lt. discriminate. Qed.

Lemma small_bit : forall i, small (cb_bit i).
Proof.
  intros i m Hm. rewrite bit_bits. apply N.eqb_neq. pose proof (mod64_lt i) as Hi. lia.
Qed.

Lemma small_mask : small word_mask.
Proof. intros m Hm. rewrite mask_bits. apply N.ltb_ge. exact Hm. Qed.

Local Opaque N.pow N.ones N.shiftl N.shiftr N.testbit N.div N.modulo N.lor N.land N.lxor.

(* ------------------------------------------------------------------ lists *)
Lemma length_update : forall A (l : list A) k x, length (update l k x) = length l.
Proof.
  intros A l. induction l as [| h t IH]; intros k x.
  - reflexivity.
  - destruct k as [| k]; simpl.
    + reflexivity.
    + rewrite IH. reflexivity.
Qed.

Lemma nth_update : forall A (l : list A) k m x d, (k < length l)%nat ->
  nth m (update l k x) d = if Nat.eqb m k then x else nth m l d.
Proof.
  intros A l. induction l as [| h t IH]; intros k m x d Hk.
  - simpl in Hk. lia.
  - destruct k as [| k]; destruct m as [| m]; simpl; try reflexivity.
    apply IH. simpl in Hk. lia.
Qed.

Lemma Forall_update : forall A (P : A -> Prop) (l : list A) k x, Forall P l -> P x -> Forall P (update l k x).
Proof.
  intros A P l. induction l as [| h t IH]; intros k x Hl Hx.
  - constructor.
  - inversion Hl as [| h' t' Hh Ht]; subst. destruct k as [| k]; simpl.
    + constructor; assumption.
    + constructor; [assumption | apply IH; assumption].
Qed.

Lemma Forall_nth_d : forall A (P : A -> Prop) (l : list A) k d, Forall P l -> P d -> P (nth k l d).
Proof.
  intros A P l. induction l as [| h t IH]; intros k d Hl Hd.
  - destruct k; exact Hd.
  - inversion Hl as [| h' t' Hh Ht]; subst. destruct k as [| k]; simpl.
    + exact Hh.
    + apply IH; assumption.
Qed.

Lemma nth_repeat0 : forall k m, nth m (repeat 0 k) 0 = 0.
Proof.
  intros k. induction k as [| k IH]; intros m.
  - destruct m; reflexivity.
  - destruct m as [| m]; simpl; [reflexivity | apply IH].
Qed.

Lemma length_words_or : forall a b, length (words_or a b) = length a.
Proof.
  intros a. induction a as [| x a IH]; intros b.
  - reflexivity.
  - destruct b as [| y b]; simpl; [reflexivity | rewrite IH; reflexivity].
Qed.

Lemma nth_words_or : forall a b m, length a = length b ->
  nth m (words_or a b) 0 = N.lor (nth m a 0) (nth m b 0).
Proof.
  intros a. induction a as [| x a IH]; intros b m Hl.
  - destruct b as [| y b]; [| discriminate Hl]. destruct m; reflexivity.
  - destruct b as [| y b]; [discriminate Hl |]. destruct m as [| m]; simpl.
    + reflexivity.
    + apply IH. simpl in Hl. lia.
Qed.

Lemma Forall_words_or : forall (P : N -> Prop) a b,
  (forall x y, P x -> P y -> P (N.lor x y)) -> Forall P a -> Forall P b -> Forall P (words_or a b).
Proof.
  intros P a. induction a as [| x a IH]; intros b HP Ha Hb.
  - constructor.
  - destruct b as [| y b]; simpl; [exact Ha |].
    inversion Ha as [| x' a' Hx Ha']; subst. inversion Hb as [| y' b' Hy Hb']; subst.
    constructor; [apply HP; assumption | apply IH; assumption].
Qed.

Lemma list_eqb_N : forall a b : list N, list_eqb N.eqb a b = true <-> a = b.
Proof.
  intros a. induction a as [| x a IH]; intros b.
  - destruct b; simpl; split; intros H; try reflexivity; discriminate H.
  - destruct b as [| y b]; simpl.
    + split; intros H; discriminate H.
    + rewrite andb_true_iff, N.eqb_eq, IH. split.
      * intros [H1 H2]. subst. reflexivity.
      * intros H. inversion H. split; reflexivity.
Qed.

(* ------------------------------------------------------------------ well-formedness *)
Definition cb_bitat (b : cbitset) (j : N) : bool := N.testbit (nth (N.to_nat (j / 64)) (cb_data b) 0) (j mod 64).

Lemma cb_mem_bitat : forall b j, cb_mem b j = if j <? cb_n b then cb_bitat b j else false.
Proof.
  intros b j. unfold cb_mem, cb_test. destruct (N.ltb_spec j (cb_n b)) as [Hj | Hj].
  - rewrite shr_and1. reflexivity.
  - reflexivity.
Qed.

Lemma wf_small : forall b, cb_wf b -> Forall small (cb_data b).
Proof.
  intros b [_ Hf]. eapply Forall_impl; [| exact Hf]. intros w Hw. apply small_lt. exact Hw.
Qed.

Lemma wf_intro : forall n d, length d = N.to_nat (word_count n) -> Forall small d -> cb_wf {| cb_n := n; cb_data := d |}.
Proof.
  intros n d Hl Hf. split; simpl.
  - exact Hl.
  - eapply Forall_impl; [| exact Hf]. intros w Hw. apply small_lt. exact Hw.
Qed.

Lemma wi_lt_count : forall n idx, idx < n -> idx / 64 < word_count n.
Proof.
  intros n idx Hi. unfold word_count, word_bits.
  destruct (N.eqb_spec (n mod 64) 0) as [Hr | Hr]; cbv iota; lia.
Qed.

Theorem cb_word_index_in_bounds : forall b idx, cb_wf b -> idx < cb_n b -> (cb_wi idx < length (cb_data b))%nat.
Proof.
  intros b idx [Hl _] Hi. rewrite Hl. unfold cb_wi, word_bits.
  pose proof (wi_lt_count (cb_n b) idx Hi) as Hlt. lia.
Qed.

Lemma cb_new_wf : forall n, cb_wf (cb_new n).
Proof.
  intros n. unfold cb_new. apply wf_intro.
  - apply repeat_length.
  - apply Forall_forall. intros w Hw. apply repeat_spec in Hw. subst w. apply small_0.
Qed.

Lemma small_word : forall b idx, cb_wf b -> small (cb_word b idx).
Proof.
  intros b idx Hwf. unfold cb_word. apply Forall_nth_d; [apply wf_small; exact Hwf | apply small_0].
Qed.

Lemma cb_upd_wf : forall b idx f b', cb_wf b -> (forall w, small w -> small (f w)) ->
  cb_upd b idx f = Ok b' -> cb_wf b' /\ cb_n b' = cb_n b.
Proof.
  intros b idx f b' Hwf Hf Hu. unfold cb_upd in Hu.
  destruct (N.ltb_spec idx (cb_n b)) as [Hi | Hi]; [| discriminate Hu].
  injection Hu as Hu. subst b'. split; [| reflexivity]. apply wf_intro.
  - rewrite length_update. apply Hwf.
  - apply Forall_update; [apply wf_small; exact Hwf |]. apply Hf. apply small_word. exact Hwf.
Qed.

Lemma f_set_small : forall i w, small w -> small (N.lor w (cb_bit i)).
Proof. intros i w Hw m Hm. rewrite N.lor_spec, (Hw m Hm), (small_bit i m Hm). reflexivity. Qed.

Lemma f_set_val_small : forall i (v : bool) w, small w ->
  small (N.lxor w (N.land (N.lxor (if v then word_mask else 0) w) (cb_bit i))).
Proof.
  intros i v w Hw m Hm. rewrite N.lxor_spec, N.land_spec, (Hw m Hm), (small_bit i m Hm), andb_false_r. reflexivity.
Qed.

Lemma f_reset_small : forall i w, small w -> small (N.land w (N.lxor (cb_bit i) word_mask)).
Proof. intros i w Hw m Hm. rewrite N.land_spec, (Hw m Hm). reflexivity. Qed.

Lemma f_flip_small : forall i w, small w -> small (N.lxor w (cb_bit i)).
Proof. intros i w Hw m Hm. rewrite N.lxor_spec, (Hw m Hm), (small_bit i m Hm). reflexivity. Qed.

Lemma map_wf : forall b g, cb_wf b -> (forall w, small w -> small (g w)) ->
  cb_wf {| cb_n := cb_n b; cb_data := map g (cb_data b) |}.
Proof.
  intros b g Hwf Hg. apply wf_intro.
  - rewrite map_length. apply Hwf.
  - apply Forall_forall. intros w Hw. apply in_map_iff in Hw. destruct Hw as [w0 [He Hin]]. subst w.
    apply Hg. pose proof (wf_small b Hwf) as Hs. rewrite Forall_forall in Hs. apply Hs. exact Hin.
Qed.

Lemma cb_add_wf : forall a b, cb_wf a -> cb_wf b -> cb_wf (cb_add a b).
Proof.
  intros a b Ha Hb. unfold cb_add. apply wf_intro.
  - rewrite length_words_or. apply Ha.
  - apply Forall_words_or; [| apply wf_small; exact Ha | apply wf_small; exact Hb].
    intros x y Hx Hy m Hm. rewrite N.lor_spec, (Hx m Hm), (Hy m Hm). reflexivity.
Qed.

Lemma cb_step_wf : forall b o, cb_wf b -> cb_wf (cb_step b o) /\ cb_n (cb_step b o) = cb_n b.
Proof.
  intros b o Hwf. unfold cb_step.
  assert (Hupd : forall idx f, (forall w, small w -> small (f w)) ->
            cb_wf (keep b (cb_upd b idx f)) /\ cb_n (keep b (cb_upd b idx f)) = cb_n b).
  { intros idx f Hf. destruct (cb_upd b idx f) as [b' | |] eqn:Hu; simpl.
    - eapply cb_upd_wf; eassumption.
    - split; [exact Hwf | reflexivity].
    - split; [exact Hwf | reflexivity]. }
  destruct o as [i | i v | i | i | | | | k]; simpl.
  - apply Hupd. apply f_set_small.
  - apply Hupd. apply f_set_val_small.
  - apply Hupd. apply f_reset_small.
  - apply Hupd. apply f_flip_small.
  - split; [| reflexivity]. unfold cb_flip_all. apply map_wf; [exact Hwf |].
    intros w Hw m Hm. rewrite N.lxor_spec, (Hw m Hm), (small_mask m Hm). reflexivity.
  - split; [| reflexivity]. unfold cb_set_all. apply map_wf; [exact Hwf |]. intros w _. apply small_mask.
  - split; [| reflexivity]. unfold cb_reset_all. apply map_wf; [exact Hwf |]. intros w _. apply small_0.
  - destruct (cb_set (cb_new (cb_n b)) k) as [o' | |] eqn:Hs; simpl.
    + split; [| reflexivity]. apply cb_add_wf; [exact Hwf |].
      eapply (cb_upd_wf (cb_new (cb_n b))); [apply cb_new_wf | apply (f_set_small k) | exact Hs].
    + split; [exact Hwf | reflexivity].
    + split; [exact Hwf | reflexivity].
Qed.

Lemma cb_fold_wf : forall ops b, cb_wf b ->
  cb_wf (fold_left cb_step ops b) /\ cb_n (fold_left cb_step ops b) = cb_n b.
Proof.
  intros ops. induction ops as [| o ops IH]; intros b Hwf; simpl.
  - split; [exact Hwf | reflexivity].
  - destruct (cb_step_wf b o Hwf) as [Hwf' Hn']. destruct (IH _ Hwf') as [Hw Hn].
    split; [exact Hw | rewrite Hn; exact Hn'].
Qed.

Theorem cb_run_wf : forall n ops, cb_wf (cb_run n ops).
Proof. intros n ops. apply cb_fold_wf. apply cb_new_wf. Qed.

Theorem cb_run_n : forall n ops, cb_n (cb_run n ops) = n.
Proof. intros n ops. unfold cb_run. rewrite (proj2 (cb_fold_wf ops _ (cb_new_wf n))). reflexivity. Qed.

(* ------------------------------------------------------------------ bit-level effect of the operations *)
Lemma nth_map_in : forall (f : N -> N) l k, (k < length l)%nat -> nth k (map f l) 0 = f (nth k l 0).
Proof.
  intros f l. induction l as [| x l IH]; intros k Hk; simpl in Hk.
  - lia.
  - destruct k as [| k]; simpl; [reflexivity | apply IH; lia].
Qed.

Lemma nth_map_const0 : forall (l : list N) k, nth k (map (fun _ => 0) l) 0 = 0.
Proof.
  intros l. induction l as [| x l IH]; intros k.
  - destruct k; reflexivity.
  - destruct k as [| k]; simpl; [reflexivity | apply IH].
Qed.

Lemma cb_upd_ok : forall b i f, i < cb_n b ->
  cb_upd b i f = Ok {| cb_n := cb_n b; cb_data := update (cb_data b) (cb_wi i) (f (cb_word b i)) |}.
Proof. intros b i f Hi. unfold cb_upd. rewrite (proj2 (N.ltb_lt _ _) Hi). reflexivity. Qed.

Lemma cb_upd_throw : forall b i f, cb_n b <= i -> cb_upd b i f = Throw.
Proof. intros b i f Hi. unfold cb_upd. rewrite (proj2 (N.ltb_ge _ _) Hi). reflexivity. Qed.

Lemma upd_bitat : forall b i f (g : bool -> bool), cb_wf b -> i < cb_n b ->
  (forall w m, m < 64 -> N.testbit (f w) m = if m =? i mod 64 then g (N.testbit w m) else N.testbit w m) ->
  forall j, cb_bitat {| cb_n := cb_n b; cb_data := update (cb_data b) (cb_wi i) (f (cb_word b i)) |} j
            = if j =? i then g (cb_bitat b j) else cb_bitat b j.
Proof.
  intros b i f g Hwf Hi Hf j. unfold cb_bitat. cbn [cb_data].
  rewrite nth_update by (apply cb_word_index_in_bounds; assumption).
  unfold cb_wi, cb_word, cb_wi, word_bits.
  destruct (Nat.eqb_spec (N.to_nat (j / 64)) (N.to_nat (i / 64))) as [Hw | Hw].
  - rewrite Hf by apply mod64_lt. rewrite Hw.
    destruct (N.eqb_spec (j mod 64) (i mod 64)) as [Hm | Hm]; destruct (N.eqb_spec j i) as [Hji | Hji];
      try reflexivity; exfalso; lia.
  - destruct (N.eqb_spec j i) as [Hji | Hji]; [subst j; contradiction | reflexivity].
Qed.

Lemma upd_step_bitat : forall b i f (g : bool -> bool), cb_wf b ->
  (forall w m, m < 64 -> N.testbit (f w) m = if m =? i mod 64 then g (N.testbit w m) else N.testbit w m) ->
  forall j, cb_bitat (keep b (cb_upd b i f)) j
            = if i <? cb_n b then (if j =? i then g (cb_bitat b j) else cb_bitat b j) else cb_bitat b j.
Proof.
  intros b i f g Hwf Hf j. destruct (N.ltb_spec i (cb_n b)) as [Hi | Hi].
  - rewrite cb_upd_ok by exact Hi. cbn [keep]. apply upd_bitat; assumption.
  - rewrite cb_upd_throw by exact Hi. reflexivity.
Qed.

Lemma f_set_bits : forall i w m, m < 64 ->
  N.testbit (N.lor w (cb_bit i)) m = if m =? i mod 64 then true else N.testbit w m.
Proof.
  intros i w m Hm. rewrite N.lor_spec, bit_bits, (N.eqb_sym (i mod 64) m).
  destruct (m =? i mod 64); [apply orb_true_r | apply orb_false_r].
Qed.

Lemma f_set_val_bits : forall i (v : bool) w m, m < 64 ->
  N.testbit (N.lxor w (N.land (N.lxor (if v then word_mask else 0) w) (cb_bit i))) m
  = if m =? i mod 64 then v else N.testbit w m.
Proof.
  intros i v w m Hm. rewrite N.lxor_spec, N.land_spec, N.lxor_spec, bit_bits, (N.eqb_sym (i mod 64) m).
  assert (Hv : N.testbit (if v then word_mask else 0) m = v).
  { destruct v; [rewrite mask_bits; apply N.ltb_lt; exact Hm | apply N.bits_0]. }
  rewrite Hv. destruct (m =? i mod 64); destruct v; destruct (N.testbit w m); reflexivity.
Qed.

Lemma f_reset_bits : forall i w m, m < 64 ->
  N.testbit (N.land w (N.lxor (cb_bit i) word_mask)) m = if m =? i mod 64 then false else N.testbit w m.
Proof.
  intros i w m Hm. rewrite N.land_spec, N.lxor_spec, bit_bits, mask_bits, (N.eqb_sym (i mod 64) m).
  rewrite (proj2 (N.ltb_lt m 64) Hm). destruct (m =? i mod 64); destruct (N.testbit w m); reflexivity.
Qed.

Lemma f_flip_bits : forall i w m, m < 64 ->
  N.testbit (N.lxor w (cb_bit i)) m = if m =? i mod 64 then negb (N.testbit w m) else N.testbit w m.
Proof.
  intros i w m Hm. rewrite N.lxor_spec, bit_bits, (N.eqb_sym (i mod 64) m).
  destruct (m =? i mod 64); destruct (N.testbit w m); reflexivity.
Qed.

Lemma new_bitat : forall n j, cb_bitat (cb_new n) j = false.
Proof. intros n j. unfold cb_bitat, cb_new. cbn [cb_data]. rewrite nth_repeat0. apply N.bits_0. Qed.

Lemma add_bitat : forall a b j, length (cb_data a) = length (cb_data b) ->
  cb_bitat (cb_add a b) j = cb_bitat a j || cb_bitat b j.
Proof.
  intros a b j Hl. unfold cb_bitat, cb_add. cbn [cb_data]. rewrite nth_words_or by exact Hl. apply N.lor_spec.
Qed.

(* every operation acts on the bits as the specification says; for the operations other than set()/flip() this also
   holds for the padding positions j >= n *)
Lemma cb_step_bitat : forall b o j, cb_wf b -> j < cb_n b \/ whole_free o = true ->
  cb_bitat (cb_step b o) j = sb_step (cb_n b) (cb_bitat b) o j.
Proof.
  intros b o j Hwf Hj. unfold cb_step.
  destruct o as [i | i v | i | i | | | | k]; cbn [cb_apply sb_step].
  - unfold cb_set. rewrite (upd_step_bitat b i _ (fun _ => true) Hwf (f_set_bits i)).
    destruct (i <? cb_n b); [destruct (j =? i) |]; reflexivity.
  - unfold cb_set_val. rewrite (upd_step_bitat b i _ (fun _ => v) Hwf (f_set_val_bits i v)).
    destruct (i <? cb_n b); reflexivity.
  - unfold cb_reset. rewrite (upd_step_bitat b i _ (fun _ => false) Hwf (f_reset_bits i)).
    destruct (i <? cb_n b); reflexivity.
  - unfold cb_flip. rewrite (upd_step_bitat b i _ negb Hwf (f_flip_bits i)).
    destruct (i <? cb_n b); reflexivity.
  - destruct Hj as [Hj | Hj]; [| discriminate Hj]. cbn [keep]. unfold cb_bitat, cb_flip_all. cbn [cb_data].
    rewrite nth_map_in by (apply (cb_word_index_in_bounds b j Hwf Hj)).
    rewrite N.lxor_spec, mask_bits, (proj2 (N.ltb_lt _ _) (mod64_lt j)). apply xorb_true_r.
  - destruct Hj as [Hj | Hj]; [| discriminate Hj]. cbn [keep]. unfold cb_bitat, cb_set_all. cbn [cb_data].
    rewrite nth_map_in by (apply (cb_word_index_in_bounds b j Hwf Hj)).
    rewrite mask_bits. apply N.ltb_lt. apply mod64_lt.
  - cbn [keep]. unfold cb_bitat, cb_reset_all. cbn [cb_data]. rewrite nth_map_const0. apply N.bits_0.
  - unfold cb_set. destruct (N.ltb_spec k (cb_n b)) as [Hk | Hk].
    + rewrite cb_upd_ok by exact Hk. cbn [keep]. rewrite add_bitat.
      * change (cb_n (cb_new (cb_n b))) with (cb_n b).
        rewrite (upd_bitat (cb_new (cb_n b)) k _ (fun _ => true) (cb_new_wf _) Hk (f_set_bits k)).
        rewrite new_bitat. rewrite orb_comm. destruct (j =? k); reflexivity.
      * cbn [cb_data]. rewrite length_update. unfold cb_new. cbn [cb_data]. rewrite repeat_length. apply Hwf.
    + rewrite cb_upd_throw by exact Hk. reflexivity.
Qed.

Lemma sb_step_ext : forall n s s' o j, s j = s' j -> sb_step n s o j = sb_step n s' o j.
Proof.
  intros n s s' o j Hs. destruct o as [i | i v | i | i | | | | k]; cbn [sb_step];
    try destruct (i <? n); try destruct (k <? n); try rewrite Hs; try reflexivity; exact Hs.
Qed.

(* one step: the tests of the new state are the specification applied to the tests of the old one *)
Lemma cb_step_mem : forall b o j, cb_wf b -> j < cb_n b ->
  cb_mem (cb_step b o) j = sb_step (cb_n b) (cb_mem b) o j.
Proof.
  intros b o j Hwf Hj. rewrite cb_mem_bitat, (proj2 (cb_step_wf b o Hwf)), (proj2 (N.ltb_lt _ _) Hj).
  rewrite cb_step_bitat by (try exact Hwf; left; exact Hj).
  apply sb_step_ext. rewrite cb_mem_bitat, (proj2 (N.ltb_lt _ _) Hj). reflexivity.
Qed.

Lemma cb_fold_refines : forall ops b s j, cb_wf b -> j < cb_n b -> cb_mem b j = s j ->
  cb_mem (fold_left cb_step ops b) j = fold_left (sb_step (cb_n b)) ops s j.
Proof.
  intros ops. induction ops as [| o ops IH]; intros b s j Hwf Hj Hs; simpl.
  - exact Hs.
  - destruct (cb_step_wf b o Hwf) as [Hwf' Hn']. rewrite <- Hn'. apply IH.
    + exact Hwf'.
    + rewrite Hn'. exact Hj.
    + rewrite Hn'. rewrite cb_step_mem by assumption. apply sb_step_ext. exact Hs.
Qed.

Theorem cb_run_refines : forall n ops j, j < n ->
  cb_mem (cb_run n ops) j = fold_left (sb_step n) ops (fun _ => false) j.
Proof.
  intros n ops j Hj. unfold cb_run. apply (cb_fold_refines ops (cb_new n)).
  - apply cb_new_wf.
  - exact Hj.
  - rewrite cb_mem_bitat, new_bitat. destruct (j <? cb_n (cb_new n)); reflexivity.
Qed.

(* ------------------------------------------------------------------ range checks *)
Theorem cb_test_throws_iff_out_of_range : forall b j, cb_test b j = Throw <-> cb_n b <= j.
Proof.
  intros b j. unfold cb_test. destruct (N.ltb_spec j (cb_n b)) as [Hj | Hj]; split; intros H.
  - discriminate H.
  - lia.
  - exact Hj.
  - reflexivity.
Qed.

Theorem cb_test_never_undef : forall b j, cb_test b j <> Undef.
Proof. intros b j. unfold cb_test. destruct (j <? cb_n b); discriminate. Qed.

Lemma cb_upd_throws_iff : forall b i f, cb_upd b i f = Throw <-> cb_n b <= i.
Proof.
  intros b i f. unfold cb_upd. destruct (N.ltb_spec i (cb_n b)) as [Hi | Hi]; split; intros H.
  - discriminate H.
  - lia.
  - exact Hi.
  - reflexivity.
Qed.

Lemma cb_upd_never_undef : forall b i f, cb_upd b i f <> Undef.
Proof. intros b i f. unfold cb_upd. destruct (i <? cb_n b); discriminate. Qed.

Theorem cb_upd_throws_iff_out_of_range : forall b i,
  (cb_set b i = Throw <-> cb_n b <= i) /\ (cb_reset b i = Throw <-> cb_n b <= i) /\
  (cb_flip b i = Throw <-> cb_n b <= i) /\ (forall v, cb_set_val b i v = Throw <-> cb_n b <= i).
Proof. intros b i. split; [| split; [| split; [| intros v]]]; apply cb_upd_throws_iff. Qed.

Theorem cb_upd_ops_never_undef : forall b i,
  cb_set b i <> Undef /\ cb_reset b i <> Undef /\ cb_flip b i <> Undef /\ (forall v, cb_set_val b i v <> Undef).
Proof. intros b i. split; [| split; [| split; [| intros v]]]; apply cb_upd_never_undef. Qed.

Theorem cb_apply_never_undef : forall b o, cb_apply b o <> Undef.
Proof.
  intros b o. destruct o as [i | i v | i | i | | | | k]; cbn [cb_apply]; try apply cb_upd_never_undef; try discriminate.
  unfold cb_set. pose proof (cb_upd_never_undef (cb_new (cb_n b)) k (fun w => N.lor w (cb_bit k))) as Hu.
  destruct (cb_upd (cb_new (cb_n b)) k (fun w => N.lor w (cb_bit k))); [discriminate | discriminate | contradiction].
Qed.

Theorem cb_step_throw_unchanged : forall b o, cb_apply b o = Throw -> cb_step b o = b.
Proof. intros b o H. unfold cb_step. rewrite H. reflexivity. Qed.

(* ------------------------------------------------------------------ padding bits *)
Lemma cb_step_clean : forall b o, cb_wf b -> cb_clean b -> whole_free o = true -> cb_clean (cb_step b o).
Proof.
  intros b o Hwf Hc Ho i Hi. rewrite (proj2 (cb_step_wf b o Hwf)) in Hi.
  change (cb_bitat (cb_step b o) i = false). rewrite cb_step_bitat by (try exact Hwf; right; exact Ho).
  pose proof (Hc i Hi) as Hb. change (cb_bitat b i = false) in Hb.
  destruct o as [i0 | i0 v | i0 | i0 | | | | i0]; cbn [sb_step]; try discriminate Ho; try reflexivity;
    (destruct (N.ltb_spec i0 (cb_n b)) as [Hlt | Hge]; [| exact Hb]);
    (destruct (N.eqb_spec i i0) as [He | He]; [exfalso; lia |]); cbn [orb]; exact Hb.
Qed.

Lemma cb_new_clean : forall n, cb_clean (cb_new n).
Proof. intros n i _. apply (new_bitat n i). Qed.

Lemma cb_fold_clean : forall ops b, cb_wf b -> cb_clean b -> forallb whole_free ops = true ->
  cb_clean (fold_left cb_step ops b).
Proof.
  intros ops. induction ops as [| o ops IH]; intros b Hwf Hc Hf; simpl.
  - exact Hc.
  - simpl in Hf. apply andb_true_iff in Hf. destruct Hf as [Ho Hf]. apply IH.
    + apply cb_step_wf. exact Hwf.
    + apply cb_step_clean; assumption.
    + exact Hf.
Qed.

Theorem cb_run_clean_without_whole_set_ops : forall n ops, forallb whole_free ops = true -> cb_clean (cb_run n ops).
Proof. intros n ops Hf. apply cb_fold_clean; [apply cb_new_wf | apply cb_new_clean | exact Hf]. Qed.

Lemma wf_clean_multiple_of_64 : forall b, cb_wf b -> cb_n b mod 64 = 0 -> cb_clean b.
Proof.
  intros b [Hl _] Hm i Hi. rewrite nth_overflow; [apply N.bits_0 |].
  rewrite Hl. unfold word_count, word_bits. rewrite Hm. rewrite N.eqb_refl. lia.
Qed.

Theorem cb_run_clean_multiple_of_64 : forall n ops, n mod 64 = 0 -> cb_clean (cb_run n ops).
Proof.
  intros n ops Hm. apply wf_clean_multiple_of_64; [apply cb_run_wf | rewrite cb_run_n; exact Hm].
Qed.

(* set()/flip() write the padding bits of the last word and operator== compares them: two bitsets with the same
   members that compare different *)
Theorem cb_eqb_padding_refuted : exists n ops ops',
  cb_abs (cb_run n ops) = cb_abs (cb_run n ops') /\ cb_eqb (cb_run n ops) (cb_run n ops') = false.
Proof. exists 3, [BSetAll], [BSet 0; BSet 1; BSet 2]. split; vm_compute; reflexivity. Qed.

(* ------------------------------------------------------------------ link to Prelude.bset *)
Theorem cb_abs_length : forall b, length (cb_abs b) = N.to_nat (cb_n b).
Proof. intros b. unfold cb_abs. rewrite map_length, seq_length. reflexivity. Qed.

Lemma nth_map_seq : forall (f : nat -> bool) len k, (k < len)%nat -> nth k (map f (seq 0 len)) false = f k.
Proof.
  intros f len k Hk. rewrite (nth_indep _ false (f 0%nat)) by (rewrite map_length, seq_length; exact Hk).
  rewrite map_nth. rewrite seq_nth by exact Hk. reflexivity.
Qed.

Lemma abs_nth : forall b k, (k < N.to_nat (cb_n b))%nat -> nth k (cb_abs b) false = cb_mem b (N.of_nat k).
Proof. intros b k Hk. unfold cb_abs. rewrite nth_map_seq by exact Hk. reflexivity. Qed.

Lemma new_mem : forall n j, cb_mem (cb_new n) j = false.
Proof. intros n j. rewrite cb_mem_bitat, new_bitat. destruct (j <? cb_n (cb_new n)); reflexivity. Qed.

Theorem cb_abs_new : forall n, cb_abs (cb_new n) = bset_empty (N.to_nat n).
Proof.
  intros n. unfold bset_empty. apply (nth_ext _ _ false false).
  - rewrite cb_abs_length, repeat_length. reflexivity.
  - intros k Hk. rewrite cb_abs_length in Hk. rewrite abs_nth by exact Hk. rewrite nth_repeat. apply new_mem.
Qed.

Theorem cb_abs_test : forall b i, i < cb_n b -> bset_test (cb_abs b) (N.to_nat i) = cb_mem b i.
Proof.
  intros b i Hi. unfold bset_test. rewrite abs_nth by lia. rewrite N2Nat.id. reflexivity.
Qed.

Theorem cb_abs_set : forall b b' i, cb_wf b -> cb_set b i = Ok b' -> cb_abs b' = bset_set (cb_abs b) (N.to_nat i).
Proof.
  intros b b' i Hwf Hs.
  assert (Hi : i < cb_n b).
  { destruct (N.lt_ge_cases i (cb_n b)) as [Hlt | Hge]; [exact Hlt |].
    unfold cb_set in Hs. rewrite cb_upd_throw in Hs by exact Hge. discriminate Hs. }
  assert (Hb' : b' = cb_step b (BSet i)). { unfold cb_step. cbn [cb_apply]. rewrite Hs. reflexivity. }
  assert (Hn : cb_n b' = cb_n b). { rewrite Hb'. apply cb_step_wf. exact Hwf. }
  unfold bset_set. apply (nth_ext _ _ false false).
  - rewrite length_update, !cb_abs_length, Hn. reflexivity.
  - intros k Hk. rewrite cb_abs_length, Hn in Hk. rewrite abs_nth by (rewrite Hn; exact Hk).
    rewrite nth_update by (rewrite cb_abs_length; lia). rewrite abs_nth by exact Hk.
    rewrite Hb'. rewrite cb_step_mem by (try exact Hwf; lia). cbn [sb_step].
    rewrite (proj2 (N.ltb_lt _ _) Hi).
    destruct (N.eqb_spec (N.of_nat k) i) as [He | He]; destruct (Nat.eqb_spec k (N.to_nat i)) as [He' | He'];
      try reflexivity; exfalso; lia.
Qed.

Lemma length_bset_or : forall a b, length (bset_or a b) = length a.
Proof.
  intros a. induction a as [| x a IH]; intros b.
  - reflexivity.
  - destruct b as [| y b]; simpl; [reflexivity | rewrite IH; reflexivity].
Qed.

Lemma nth_bset_or : forall a b k, length a = length b ->
  nth k (bset_or a b) false = nth k a false || nth k b false.
Proof.
  intros a. induction a as [| x a IH]; intros b k Hl.
  - destruct b as [| y b]; [| discriminate Hl]. destruct k; reflexivity.
  - destruct b as [| y b]; [discriminate Hl |]. destruct k as [| k]; simpl.
    + reflexivity.
    + apply IH. simpl in Hl. lia.
Qed.

Theorem cb_abs_add : forall a b, cb_wf a -> cb_wf b -> cb_n a = cb_n b ->
  cb_abs (cb_add a b) = bset_or (cb_abs a) (cb_abs b).
Proof.
  intros a b Ha Hb Hn. apply (nth_ext _ _ false false).
  - rewrite length_bset_or, !cb_abs_length. reflexivity.
  - intros k Hk. rewrite cb_abs_length in Hk. change (cb_n (cb_add a b)) with (cb_n a) in Hk.
    rewrite abs_nth by exact Hk. rewrite nth_bset_or by (rewrite !cb_abs_length, Hn; reflexivity).
    rewrite abs_nth by exact Hk. rewrite abs_nth by (rewrite <- Hn; exact Hk).
    rewrite !cb_mem_bitat. change (cb_n (cb_add a b)) with (cb_n a). rewrite <- Hn.
    destruct (N.of_nat k <? cb_n a); [| reflexivity].
    apply add_bitat. rewrite (proj1 Ha), (proj1 Hb), Hn. reflexivity.
Qed.

(* ------------------------------------------------------------------ operator== *)
Theorem cb_eqb_iff_same_set : forall a b, cb_wf a -> cb_wf b -> cb_n a = cb_n b -> cb_clean a -> cb_clean b ->
  (cb_eqb a b = true <-> cb_abs a = cb_abs b).
Proof.
  intros a b Ha Hb Hn Hca Hcb. unfold cb_eqb. rewrite list_eqb_N. split.
  - intros Hd. destruct a as [na da]; destruct b as [nb db]. cbn [cb_n cb_data] in *. subst. reflexivity.
  - intros Habs.
    assert (Hbit : forall i, cb_bitat a i = cb_bitat b i).
    { intros i. destruct (N.lt_ge_cases i (cb_n a)) as [Hi | Hi].
      - pose proof (cb_abs_test a i Hi) as Hta. pose proof (cb_abs_test b i) as Htb.
        rewrite <- Hn in Htb. specialize (Htb Hi). rewrite Habs in Hta. rewrite Hta in Htb.
        rewrite !cb_mem_bitat in Htb. rewrite <- Hn in Htb. rewrite (proj2 (N.ltb_lt _ _) Hi) in Htb. exact Htb.
      - pose proof (Hca i Hi) as H1. rewrite Hn in Hi. pose proof (Hcb i Hi) as H2.
        unfold cb_bitat. rewrite H1, H2. reflexivity. }
    apply (nth_ext _ _ 0 0).
    + rewrite (proj1 Ha), (proj1 Hb), Hn. reflexivity.
    + intros k Hk. apply N.bits_inj. intros m. destruct (N.lt_ge_cases m 64) as [Hm | Hm].
      * specialize (Hbit (64 * N.of_nat k + m)). unfold cb_bitat in Hbit.
        replace ((64 * N.of_nat k + m) / 64) with (N.of_nat k) in Hbit by lia.
        replace ((64 * N.of_nat k + m) mod 64) with m in Hbit by lia.
        rewrite Nat2N.id in Hbit. exact Hbit.
      * assert (Hsa : small (nth k (cb_data a) 0)) by (apply Forall_nth_d; [apply wf_small; exact Ha | apply small_0]).
        assert (Hsb : small (nth k (cb_data b) 0)) by (apply Forall_nth_d; [apply wf_small; exact Hb | apply small_0]).
        rewrite (Hsa m Hm), (Hsb m Hm). reflexivity.
Qed.

(* without cleanliness: equal words still give equal sets *)
Theorem cb_eqb_same_set : forall a b, cb_n a = cb_n b -> cb_eqb a b = true -> cb_abs a = cb_abs b.
Proof.
  intros a b Hn He. unfold cb_eqb in He. rewrite list_eqb_N in He.
  destruct a as [na da]; destruct b as [nb db]. cbn [cb_n cb_data] in *. subst. reflexivity.
Qed.

Print Assumptions cb_run_wf.
Print Assumptions cb_run_refines.
Print Assumptions cb_word_index_in_bounds.
Print Assumptions cb_run_clean_without_whole_set_ops.
Print Assumptions cb_run_clean_multiple_of_64.
Print Assumptions cb_abs_add.
Print Assumptions cb_abs_set.
Print Assumptions cb_eqb_iff_same_set.
