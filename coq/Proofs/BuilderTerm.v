(* (A6) Termination of the in-place merge: with depth fuel [merge_fuel sm] = S (length sm * length sm) the
   recursion never runs out of fuel, provided the two merged states and all transition targets are in range.
   Every call that passes the two early returns adds the fresh pair (to, from) to the relation
   "from is in merged_from(to)", marks are never removed, and there are at most (length sm)^2 pairs. *)
Require Import Ctpg.Base.Prelude Ctpg.Model.Driver Ctpg.Model.Dfa Ctpg.Proofs.BuilderSize.

Lemma mem_nat_In : forall x l, mem_nat x l = true <-> In x l.
Proof.
  induction l as [|y l IH]; cbn.
  - split; [discriminate | contradiction].
  - destruct (Nat.eqb x y) eqn:E.
    + apply Nat.eqb_eq in E. subst. tauto.
    + apply Nat.eqb_neq in E. rewrite IH. split; auto. intros [H|H]; auto. congruence.
Qed.

Lemma get_upd : forall sm i f q,
  get (upd sm i f) q = if Nat.eqb q i && Nat.ltb i (length sm) then f (get sm i) else get sm q.
Proof. intros. unfold get, upd. apply nth_update. Qed.

(* merged_from marks only grow *)
Definition mm (a b : dfa) : Prop := forall q x, In x (d_merged (get a q)) -> In x (d_merged (get b q)).

Lemma mstep_mm : forall a b, mstep a b -> mm a b.
Proof.
  destruct 1 as [s i f Hk | s to from i trf Htrf]; intros q x Hx; rewrite get_upd.
  - destruct (Nat.eqb q i && Nat.ltb i (length s)) eqn:E; auto.
    apply andb_true_iff in E. destruct E as [E _]. apply Nat.eqb_eq in E. subst q.
    destruct (Hk (get s i)) as (_ & _ & K). auto.
  - destruct (Nat.eqb q to && Nat.ltb to (length s)) eqn:E'; auto.
    apply andb_true_iff in E'. destruct E' as [E' _]. apply Nat.eqb_eq in E'. subst q.
    cbn [set_trans d_merged]. assumption.
Qed.

Lemma msteps_mm : forall a b, msteps a b -> mm a b.
Proof. induction 1; intros q x Hx; auto. apply IHmsteps. eapply mstep_mm; eauto. Qed.

(* ---------- counting the marks ---------- *)
Definition pairs (n : nat) : list (nat * nat) := list_prod (seq 0 n) (seq 0 n).
Definition marked (sm : dfa) (p : nat * nat) : bool := mem_nat (snd p) (d_merged (get sm (fst p))).
Definition cnt (sm : dfa) : nat := length (filter (marked sm) (pairs (length sm))).

Lemma filter_length_le : forall A (f g : A -> bool) l,
  (forall x, In x l -> f x = true -> g x = true) -> length (filter f l) <= length (filter g l).
Proof.
  induction l as [|a l IH]; cbn; intros H; auto.
  assert (IH' : length (filter f l) <= length (filter g l)) by (apply IH; intros; apply H; auto).
  destruct (f a) eqn:Ef.
  - rewrite (H a (or_introl eq_refl) Ef). cbn. lia.
  - destruct (g a); cbn; lia.
Qed.

Lemma filter_length_lt : forall A (f g : A -> bool) l p,
  (forall x, In x l -> f x = true -> g x = true) -> In p l -> f p = false -> g p = true ->
  length (filter f l) < length (filter g l).
Proof.
  induction l as [|a l IH]; cbn; intros p H Hin Hf Hg; [contradiction|].
  assert (Hle : length (filter f l) <= length (filter g l)) by (apply filter_length_le; intros; apply H; auto).
  destruct Hin as [->|Hin].
  - rewrite Hf, Hg. cbn. lia.
  - assert (Hlt : length (filter f l) < length (filter g l)) by (eapply IH; eauto).
    destruct (f a) eqn:Ef.
    + rewrite (H a (or_introl eq_refl) Ef). cbn. lia.
    + destruct (g a); cbn; lia.
Qed.

Lemma cnt_bound : forall sm, cnt sm <= length sm * length sm.
Proof.
  intros sm. unfold cnt. eapply Nat.le_trans; [apply filter_length_le with (g := fun _ => true); auto|].
  assert (E : forall l : list (nat * nat), filter (fun _ => true) l = l).
  { induction l; cbn; congruence. }
  rewrite E. unfold pairs. rewrite prod_length, seq_length. lia.
Qed.

Lemma mm_marked : forall a b p, mm a b -> marked a p = true -> marked b p = true.
Proof. unfold marked. intros a b p H Hp. apply mem_nat_In. apply H. apply mem_nat_In. assumption. Qed.

Lemma cnt_mono : forall a b, length b = length a -> mm a b -> cnt a <= cnt b.
Proof.
  intros a b Hl H. unfold cnt. rewrite Hl. apply filter_length_le. intros p _. apply mm_marked. assumption.
Qed.

Lemma cnt_strict : forall a b to from, length b = length a -> mm a b ->
  to < length a -> from < length a ->
  mem_nat from (d_merged (get a to)) = false -> mem_nat from (d_merged (get b to)) = true ->
  cnt a < cnt b.
Proof.
  intros a b to from Hl H Ht Hf Ha Hb. unfold cnt. rewrite Hl.
  apply filter_length_lt with (p := (to, from)); auto.
  - intros p _. apply mm_marked. assumption.
  - unfold pairs. apply in_prod; apply in_seq; lia.
Qed.

(* ---------- the loop ---------- *)
Lemma fold_left_opt_total : forall (A B : Type) (Inv : A -> Prop) (f : option A -> B -> option A) (l : list B),
  (forall a b, Inv a -> exists a', f (Some a) b = Some a' /\ Inv a') ->
  forall a, Inv a -> exists r, fold_left f l (Some a) = Some r /\ Inv r.
Proof.
  intros A B Inv f l H. induction l as [|b l IH]; cbn; intros a Ha; eauto.
  destruct (H a b Ha) as (a' & E & Ha'). rewrite E. auto.
Qed.

Lemma closed_get_target : forall sm q i t, closed sm -> nth i (d_trans (get sm q)) None = Some t -> t < length sm.
Proof. intros sm q i t H Ht. destruct (wf_get ptrue I sm q H) as (_ & _ & C). eauto. Qed.

Lemma merge_total_aux : forall keep mark fuel sm to from,
  closed sm -> to < length sm -> from < length sm ->
  length sm * length sm - cnt sm < fuel ->
  exists sm', merge fuel sm to from keep mark = Some sm'.
Proof.
  intros keep mark. induction fuel as [|f IH]; intros sm to from Hc Hto Hfrom Hfuel; [lia|].
  cbn [merge].
  destruct (Nat.eqb to from); [eauto|].
  destruct (mem_nat from (d_merged (get sm to))) eqn:Emem; [eauto|].
  set (sm1 := upd sm to (fun d => set_merged d (from :: d_merged d))).
  set (sm2 := upd sm1 from (fun d => set_start d false)).
  set (e := if keep then d_end (get sm2 to) || d_end (get sm2 from) else d_end (get sm2 from)).
  set (sm3 := upd sm2 to (fun d => set_end d e)).
  set (sm4 := upd sm3 from (fun d => set_unreach d mark)).
  assert (S1 : msteps sm sm1) by apply msteps_keep, (keeps_set_merged from).
  assert (S14 : msteps sm1 sm4).
  { eapply msteps_trans; [apply msteps_keep, keeps_set_start|].
    eapply msteps_trans; [apply msteps_keep, keeps_set_end|].
    apply msteps_keep, keeps_set_unreach. }
  assert (S4 : msteps sm sm4) by (eapply msteps_trans; eauto).
  assert (L4 : length sm4 = length sm) by (apply msteps_length; assumption).
  assert (C4 : cnt sm < cnt sm4).
  { apply (cnt_strict sm sm4 to from); auto.
    - apply msteps_mm; assumption.
    - apply mem_nat_In. apply (msteps_mm _ _ S14). unfold sm1. rewrite get_upd.
      rewrite Nat.eqb_refl. apply Nat.ltb_lt in Hto. rewrite Hto. cbn. auto. }
  pose proof (cnt_bound sm4) as B4. rewrite L4 in B4.
  match goal with
  | |- exists sm', match fold_left ?F ?L (Some sm4) with _ => _ end = _ =>
      destruct (fold_left_opt_total dfa nat (fun s => msteps sm4 s) F L) with (a := sm4) as (r & Er & _)
  end.
  - intros a i Ha.
    assert (La : length a = length sm) by (rewrite <- L4; apply msteps_length; assumption).
    assert (Ca : closed a).
    { eapply (msteps_wf ptrue I); [exact Ha|]. eapply (msteps_wf ptrue I); eauto. }
    destruct (nth i (d_trans (get a from)) None) as [trf|] eqn:Etrf.
    + destruct (nth i (d_trans (get a to)) None) as [trt|] eqn:Etrt.
      * destruct (IH a trt trf) as (a' & Ea'); auto.
        -- eapply closed_get_target; eauto.
        -- eapply closed_get_target; eauto.
        -- assert (cnt sm4 <= cnt a).
           { apply cnt_mono; [congruence | apply msteps_mm; assumption]. }
           rewrite La. lia.
        -- exists a'. split; auto. eapply msteps_trans; [exact Ha|]. eapply merge_msteps; eauto.
      * eexists. split; [reflexivity|].
        eapply msteps_trans; [exact Ha|].
        eapply mss_step; [eapply ms_trans; eauto|].
        apply msteps_keep, keeps_set_unreach.
    + exists a. split; auto.
  - constructor.
  - rewrite Er. eauto.
Qed.

(* MAIN (A6): the fuel of the model is always sufficient *)
Theorem merge_terminates : forall sm to from keep mark,
  closed sm -> to < length sm -> from < length sm ->
  merge (merge_fuel sm) sm to from keep mark <> None.
Proof.
  intros sm to from keep mark Hc Ht Hf.
  destruct (merge_total_aux keep mark (merge_fuel sm) sm to from Hc Ht Hf) as (sm' & E).
  - unfold merge_fuel. lia.
  - rewrite E. discriminate.
Qed.

Corollary merge_terminates_ex : forall sm to from keep mark,
  closed sm -> to < length sm -> from < length sm ->
  exists fuel, merge fuel sm to from keep mark <> None.
Proof. intros. exists (merge_fuel sm). apply merge_terminates; assumption. Qed.

(* ---------- consequence: the builder is total (the [None] results of the model are never produced) ---------- *)
Lemma closed_msteps : forall a b, msteps a b -> closed a -> closed b.
Proof. intros. eapply (msteps_wf ptrue I); eauto. Qed.

Lemma merge_ends_total : forall idxs sm b keep mark,
  closed sm -> b < length sm -> exists sm', merge_ends sm idxs b keep mark = Some sm'.
Proof.
  induction idxs as [|i t IH]; cbn [merge_ends]; intros sm b keep mark Hc Hb; eauto.
  destruct (d_end (get sm i)) eqn:Ee; auto.
  assert (Hi : i < length sm).
  { destruct (Nat.lt_ge_cases i (length sm)) as [|Hge]; auto.
    rewrite get_overflow in Ee by assumption. discriminate. }
  destruct (merge (merge_fuel sm) sm i b keep mark) as [sm1|] eqn:E.
  - pose proof (merge_msteps _ _ _ _ _ _ _ E) as M. apply IH.
    + eapply closed_msteps; eauto.
    + rewrite (msteps_length _ _ M). assumption.
  - exfalso. revert E. apply merge_terminates; auto.
Qed.

Lemma analyze_size_pos : forall r a, 1 <= sl_n (fst (analyze_size r a)).
Proof.
  induction r; intros a; cbn [analyze_size]; auto.
  - cbn. lia.
  - specialize (IHr a). destruct (analyze_size r a) as [s z]. cbn [fst] in *.
    destruct n; cbn [fst sl_n]; auto. nia.
  - specialize (IHr1 a). destruct (analyze_size r1 a) as [s1 z1].
    destruct (analyze_size r2 z1) as [s2 z2]. cbn [fst sl_n] in *. lia.
  - specialize (IHr1 a). destruct (analyze_size r1 a) as [s1 z1].
    destruct (analyze_size r2 z1) as [s2 z2]. cbn [fst sl_n] in *. lia.
Qed.

Lemma rep_cats_total : forall k sm whole n,
  closed sm -> 0 < n -> sl_start whole + sl_n whole + n * k <= length sm ->
  exists r, rep_cats sm whole n k = Some r.
Proof.
  induction k as [|c IH]; cbn [rep_cats]; intros sm whole n Hc Hn Hl; eauto.
  unfold b_cat. cbn [sl_start sl_n].
  destruct (merge_ends_total (slice_idxs whole) sm (sl_start whole + sl_n whole) false true Hc) as (sm1 & E);
    [nia|].
  rewrite E. cbn [option_map]. pose proof (merge_ends_msteps _ _ _ _ _ _ E) as M. apply IH; auto.
  - eapply closed_msteps; eauto.
  - rewrite (msteps_length _ _ M). cbn [sl_start sl_n]. nia.
Qed.

Theorem build_total : forall r sm, closed sm -> exists sm' s, build r sm = Some (sm', s).
Proof.
  induction r; intros sm Hc; cbn [build].
  - unfold primary_subset. eauto.
  - destruct (IHr sm Hc) as (sm1 & s1 & E). rewrite E.
    pose proof (build_tail _ _ _ _ E) as [T1 T2]. pose proof (build_closed _ _ _ _ Hc E) as C1.
    apply build_size_eq in E. destruct E as [_ E]. pose proof (analyze_size_pos r (length sm)) as Pz.
    rewrite <- E in Pz. unfold b_star.
    destruct (merge_ends_total (slice_idxs s1) (upd sm1 (sl_start s1) (fun d => set_end d true))
                (sl_start s1) false false) as (x & Ex).
    + eapply closed_msteps; [apply msteps_keep, keeps_set_end | assumption].
    + rewrite upd_length. lia.
    + rewrite Ex. cbn. eauto.
  - destruct (IHr sm Hc) as (sm1 & s1 & E). rewrite E.
    pose proof (build_tail _ _ _ _ E) as [T1 T2]. pose proof (build_closed _ _ _ _ Hc E) as C1.
    apply build_size_eq in E. destruct E as [_ E]. pose proof (analyze_size_pos r (length sm)) as Pz.
    rewrite <- E in Pz. unfold b_plus.
    destruct (merge_ends_total (slice_idxs s1) sm1 (sl_start s1) true false C1) as (x & Ex); [lia|].
    rewrite Ex. cbn. eauto.
  - destruct (IHr sm Hc) as (sm1 & s1 & E). rewrite E. unfold b_opt. eauto.
  - destruct (IHr sm Hc) as (sm1 & s1 & E). rewrite E.
    pose proof (build_tail _ _ _ _ E) as [T1 T2]. pose proof (build_closed _ _ _ _ Hc E) as C1.
    apply build_size_eq in E. destruct E as [_ E]. pose proof (analyze_size_pos r (length sm)) as Pz.
    rewrite <- E in Pz. destruct n as [|m]; cbn [b_rep]; eauto.
    destruct (rep_cats_total m (rep_copies sm1 s1 0 m) s1 (sl_n s1)) as ([sm2 s2] & E2); eauto.
    + apply (rep_copies_wf ptrue m sm1 s1 0 (length sm1)); auto; try lia.
      intros j _. apply (wf_get ptrue I); auto.
    + rewrite rep_copies_length. lia.
  - destruct (IHr1 sm Hc) as (sm1 & s1 & E1). rewrite E1.
    pose proof (build_tail _ _ _ _ E1) as [T1 T2]. pose proof (build_closed _ _ _ _ Hc E1) as C1.
    destruct (IHr2 sm1 C1) as (sm2 & s2 & E2). rewrite E2.
    pose proof (build_tail _ _ _ _ E2) as [U1 U2]. pose proof (build_closed _ _ _ _ C1 E2) as C2.
    apply build_size_eq in E2. destruct E2 as [_ E2]. pose proof (analyze_size_pos r2 (length sm1)) as Pz.
    rewrite <- E2 in Pz. unfold b_cat.
    destruct (merge_ends_total (slice_idxs s1) sm2 (sl_start s2) false true C2) as (x & Ex); [lia|].
    rewrite Ex. cbn. eauto.
  - destruct (IHr1 sm Hc) as (sm1 & s1 & E1). rewrite E1.
    pose proof (build_tail _ _ _ _ E1) as [T1 T2]. pose proof (build_closed _ _ _ _ Hc E1) as C1.
    destruct (IHr2 sm1 C1) as (sm2 & s2 & E2). rewrite E2.
    pose proof (build_tail _ _ _ _ E2) as [U1 U2]. pose proof (build_closed _ _ _ _ C1 E2) as C2.
    apply build_size_eq in E2. destruct E2 as [_ E2]. pose proof (analyze_size_pos r2 (length sm1)) as Pz.
    rewrite <- E2 in Pz. apply build_size_eq in E1. destruct E1 as [_ E1].
    pose proof (analyze_size_pos r1 (length sm)) as Pz1. rewrite <- E1 in Pz1. unfold b_alt.
    destruct (merge (merge_fuel sm2) sm2 (sl_start s1) (sl_start s2) true true) as [x|] eqn:Ex.
    + cbn. eauto.
    + exfalso. revert Ex. apply merge_terminates; auto; lia.
Qed.

Theorem build_expr_total : forall r, build_expr r <> None.
Proof.
  intros r. unfold build_expr. destruct (build_total r []) as (sm & s & E).
  - apply wf_nil.
  - rewrite E. discriminate.
Qed.

Lemma add_term_total : forall sm t idx, closed sm -> exists sm', add_term sm t idx = Some sm' /\ closed sm'.
Proof.
  intros sm t idx Hc. unfold add_term.
  destruct (build_total (regex_of_term t) sm Hc) as (sm1 & s & E). rewrite E.
  pose proof (build_tail _ _ _ _ E) as [T1 T2]. pose proof (build_closed _ _ _ _ Hc E) as C1.
  apply build_size_eq in E. destruct E as [_ E].
  pose proof (analyze_size_pos (regex_of_term t) (length sm)) as Pz. rewrite <- E in Pz.
  assert (C2 : closed (mark_end_states sm1 s idx)) by (eapply closed_msteps; [apply mark_end_states_msteps | auto]).
  unfold b_alt. cbn [sl_start].
  destruct (merge _ _ 0 (sl_start s) true true) as [x|] eqn:Ex.
  - cbn. eexists. split; eauto. eapply closed_msteps; [eapply merge_msteps; eauto | auto].
  - exfalso. revert Ex. apply merge_terminates; auto; rewrite mark_end_states_length; lia.
Qed.

Theorem create_lexer_total : forall ts, create_lexer ts <> None.
Proof.
  intros ts. unfold create_lexer.
  assert (G : forall ts idx sm, closed sm -> create_lexer_aux ts idx sm <> None).
  { clear ts. induction ts as [|t ts IH]; cbn [create_lexer_aux]; intros idx sm Hc; [discriminate|].
    destruct (add_term_total sm t idx Hc) as (sm1 & E & C1). rewrite E. auto. }
  apply G. apply wf_nil.
Qed.

Print Assumptions merge_terminates.
Print Assumptions build_total.
Print Assumptions build_expr_total.
Print Assumptions create_lexer_total.
