(* Termination, part 2: the table-driven LR(1) driver stops on EVERY input.
   (T4) machine_halts : the abstract machine of Proofs/LRMachine.v reaches, after finitely many steps, a
        configuration in which it accepts, fails or hits a bad cell -- for validated tables that pass the checks
        [lookahead_generated], [states_nonempty], [reduce_lookahead] and a productive grammar. The table may contain
        the error symbol (the machine has no recovery; the result is about its plain table walk).
   (T5) tree_run_halts, tree_run_halts_stable, decides_language : the driver instance [tree_run] (tables without
        error symbol) ends with Accept or Reject for some fuel, keeps that result for all larger fuels, and decides
        the language of the grammar.
   Why it terminates: every reduce under lookahead a is viable (Proofs/TermViable.v): the tokens shifted so far
   followed by a begin a sentence, so by completeness on prefixes (Proofs/TermPrefix.v) the (deterministic)
   machine shifts a after finitely many steps; at the end of input the shifted tokens are a sentence, which the
   machine accepts (Proofs/LRComplete.v). *)
Require Import Ctpg.Base.Prelude Ctpg.Model.Grammar Ctpg.Model.LRGen Ctpg.Model.Driver
               Ctpg.Spec.Cfg Ctpg.Spec.LRSpec Ctpg.Valid.LRValid Ctpg.Valid.LRProductive
               Ctpg.Proofs.LRReflect Ctpg.Proofs.LRMachine Ctpg.Proofs.LRValidFacts Ctpg.Proofs.LRSound
               Ctpg.Proofs.LRComplete Ctpg.Proofs.DriverBasics Ctpg.Proofs.ReportOne Ctpg.Proofs.SafeTerm Ctpg.Proofs.ReportLang Ctpg.Proofs.ReportViable
               Ctpg.Proofs.ReportHalt Ctpg.Proofs.TermViable Ctpg.Proofs.TermPrefix.
Require Ctpg.Proofs.ReportCex.

(* ================================================================================================= *)
(* the machine is deterministic                                                                      *)
(* ================================================================================================= *)
Section Det.
  Variable g : grammar.
  Variable tbl : table.

  (* the machine has stopped in c *)
  Definition halted (c : cfg) : Prop := match mstep g tbl c with Next _ => False | _ => True end.

  Lemma msteps_split n : forall m c c1 c2, msteps g tbl n c c1 -> msteps g tbl m c c2 -> n <= m ->
    msteps g tbl (m - n) c1 c2.
  Proof.
    induction n as [|n IH]; intros m c c1 c2 H1 H2 Hle.
    - cbn in H1. subst c1. rewrite Nat.sub_0_r. exact H2.
    - destruct m as [|m]; [lia|]. cbn [msteps] in H1, H2.
      destruct H1 as (x1 & Hs1 & H1). destruct H2 as (x2 & Hs2 & H2).
      rewrite Hs1 in Hs2. inversion Hs2; subst x2. cbn [Nat.sub]. eapply IH; [exact H1|exact H2|lia].
  Qed.

  Lemma msteps_halted n m c c1 c2 : msteps g tbl n c c1 -> halted c1 -> msteps g tbl m c c2 -> m <= n.
  Proof.
    intros H1 Hh H2. destruct (Nat.le_gt_cases m n) as [|Hgt]; [assumption|exfalso].
    pose proof (msteps_split n m c c1 c2 H1 H2 ltac:(lia)) as H.
    destruct (m - n) as [|k] eqn:E; [lia|]. cbn [msteps] in H. destruct H as (x & Hs & _).
    unfold halted in Hh. rewrite Hs in Hh. exact Hh.
  Qed.

  (* a step that goes on is a shift or a reduce *)
  Lemma mstep_next_inv ss trs rest c1 : mstep g tbl (ss, trs, rest) = Next c1 ->
    exists cur ss' e, ss = cur :: ss' /\ cell tbl cur (nterm_count g + look g rest) = inl e /\
      ((e_kind e = KShift /\ exists nst, c1 = (nst :: ss, Leaf (look g rest) :: trs, tl rest)) \/
       (e_kind e = KReduce /\ exists ss1 trs1, c1 = (ss1, trs1, rest))).
  Proof.
    unfold mstep. destruct ss as [|cur ss']; [discriminate|].
    destruct (cell tbl cur (nterm_count g + look g rest)) as [e|c] eqn:Ec; [|discriminate].
    intros H. exists cur, ss', e. split; [reflexivity|]. split; [exact Ec|].
    destruct (e_kind e) eqn:Ek; try discriminate.
    - destruct (rev trs); discriminate.
    - left. split; [reflexivity|]. destruct (e_arg e) as [nst|]; [|discriminate]. inversion H. eauto.
    - right. split; [reflexivity|]. destruct (e_arg e) as [r|]; [|discriminate]. unfold mreduce in H.
      destruct (nth_error (rule_infos g) r) as [ri|]; [|discriminate].
      destruct (Nat.ltb (length (cur :: ss')) (ri_n ri)); [discriminate|].
      destruct (skipn (ri_n ri) (cur :: ss')) as [|top rest']; [discriminate|].
      destruct (cell tbl top (ri_l ri)) as [e'|]; [|discriminate].
      destruct (e_arg e'); [|discriminate].
      destruct (Nat.ltb (length trs) (ri_n ri)); [discriminate|]. inversion H. eauto.
  Qed.
End Det.

(* a list of proper tokens does not end with <eof> *)
Lemma no_eof_tail (e : nat) u a r w k : u ++ a :: r = w ++ repeat e k -> Forall (fun x => x < e) (a :: r) -> k = 0.
Proof.
  intros H Hall. destruct k as [|k]; [reflexivity|exfalso].
  rewrite <- repeat_snoc in H. rewrite app_assoc in H.
  destruct (@exists_last _ (a :: r)) as (r' & y & E); [discriminate|].
  rewrite E in H, Hall. rewrite app_assoc in H. apply app_inj_tail in H. destruct H as [_ Ey].
  apply Forall_app in Hall. destruct Hall as [_ Hy]. inversion Hy; subst. lia.
Qed.

(* ================================================================================================= *)
(* (T4) the machine halts                                                                            *)
(* ================================================================================================= *)
Section Halts.
  Variable g : grammar.
  Variable sts : list items.
  Variable tbl : table.
  Hypothesis Hval : validate g sts tbl = true.
  Hypothesis Hgen : lookahead_generated g sts.
  Hypothesis Hnonempty : states_nonempty sts.
  Hypothesis Hred : reduce_lookahead g sts tbl.
  Hypothesis Hprod : productive g.
  Variable w : list nat.
  Hypothesis Hw : tokens_ok g w.

  Let CF : complete_facts g sts tbl (nterm_empty g) (nterm_first g (nterm_empty g)) := complete_facts_of _ _ _ _ _ Hval.
  Let SF : sound_facts g sts tbl := cf_sound _ _ _ _ _ CF.

  Notation yields := (flat_map yield).

  Lemma halts_from m : forall ss trs rest, length rest <= m -> reach g tbl w (ss, trs, rest) ->
    exists n c', msteps g tbl n (ss, trs, rest) c' /\ halted g tbl c'.
  Proof.
    induction m as [|m IH]; intros ss trs rest Hlen Hr.
    all: destruct (mstep g tbl (ss, trs, rest)) as [c1|v| |] eqn:Em;
      try (exists 0, (ss, trs, rest); split; [reflexivity|unfold halted; rewrite Em; exact I]).
    all: pose proof (reach_SInv g sts tbl w SF Hw _ Hr) as HS;
      destruct (mstep_next_inv g tbl _ _ _ _ Em) as (cur & ss' & e & -> & Hc & Hkind);
      destruct HS as (syms & Hst & Hv & (k & Hy) & Hrest);
      pose proof (stk_top_lt g sts tbl SF _ _ _ Hst) as Hcur;
      pose proof (cell_cell_at _ _ _ _ Hc) as Ee.
    all: destruct Hkind as [[Hk (nst & ->)]|[Hk _]].
    (* m = 0, shift: the rest is empty, and <eof> is never shifted *)
    - destruct rest; [|cbn in Hlen; lia]. exfalso. cbn [look hd] in Ee. rewrite Ee in Hk.
      exact (no_eof_shift g sts tbl SF Hgen Hnonempty cur Hcur Hk).
    (* m = 0, reduce at the end of input *)
    - destruct rest; [|cbn in Hlen; lia].
      destruct (action_viable g sts tbl SF Hprod Hgen Hred w cur ss' trs [] e Hw Hr Hc Hk) as [_ H2].
      destruct (H2 eq_refl) as [t Hd]. rewrite app_nil_r in Hy.
      destruct k as [|k].
      + cbn in Hy. rewrite app_nil_r in Hy. rewrite Hy in Hd.
        destruct (complete_mrun g sts tbl _ _ CF w t Hw Hd) as (n1 & Hn1).
        destruct (mrun_steps g tbl n1 _ _ Hn1) as (k1 & c' & _ & Hs1 & Ha1).
        assert (Hh : halted g tbl c') by (unfold halted; rewrite Ha1; exact I).
        destruct Hr as [n0 Hr].
        pose proof (msteps_halted g tbl k1 n0 _ _ _ Hs1 Hh Hr) as Hle.
        exists (k1 - n0), c'. split; [|exact Hh]. eapply msteps_split; eassumption.
      + exfalso. rewrite Hy in Hd. apply (no_eof_sentence_prefix g sts tbl SF w (repeat (eof_idx g) k)).
        exists [], t. rewrite app_nil_r. exact Hd.
    (* shift: the rest gets shorter *)
    - destruct rest as [|a rest'].
      { exfalso. cbn [look hd] in Ee. rewrite Ee in Hk.
        exact (no_eof_shift g sts tbl SF Hgen Hnonempty cur Hcur Hk). }
      cbn [tl look hd] in *.
      destruct (IH (nst :: cur :: ss') (Leaf a :: trs) rest') as (n & c' & Hs & Hh).
      { cbn in Hlen. lia. }
      { eapply reach_next; eassumption. }
      exists (S n), c'. split; [|exact Hh]. cbn [msteps]. eexists. split; [exact Em|exact Hs].
    (* reduce *)
    - destruct (action_viable g sts tbl SF Hprod Hgen Hred w cur ss' trs rest e Hw Hr Hc Hk) as [H1 H2].
      destruct rest as [|a rest'].
      + (* at the end of input: the shifted tokens are a sentence, the machine accepts it *)
        destruct (H2 eq_refl) as [t Hd]. rewrite app_nil_r in Hy.
        destruct k as [|k].
        * cbn in Hy. rewrite app_nil_r in Hy. rewrite Hy in Hd.
          destruct (complete_mrun g sts tbl _ _ CF w t Hw Hd) as (n1 & Hn1).
          destruct (mrun_steps g tbl n1 _ _ Hn1) as (k1 & c' & _ & Hs1 & Ha1).
          assert (Hh : halted g tbl c') by (unfold halted; rewrite Ha1; exact I).
          destruct Hr as [n0 Hr].
          pose proof (msteps_halted g tbl k1 n0 _ _ _ Hs1 Hh Hr) as Hle.
          exists (k1 - n0), c'. split; [|exact Hh]. eapply msteps_split; eassumption.
        * exfalso. rewrite Hy in Hd. apply (no_eof_sentence_prefix g sts tbl SF w (repeat (eof_idx g) k)).
          exists [], t. rewrite app_nil_r. exact Hd.
      + (* a is pending: u a begins a sentence, so the machine shifts a after finitely many steps *)
        destruct (H1 ltac:(discriminate)) as (z & t & Hd). cbn [look hd] in Hd.
        rewrite <- app_assoc in Hd. cbn [app] in Hd.
        pose proof (no_eof_tail _ _ _ _ _ _ Hy Hrest) as Ek. subst k. cbn in Hy. rewrite app_nil_r in Hy.
        assert (Hw' : tokens_ok g (yields (rev trs)) /\ tokens_ok g (a :: rest')).
        { unfold tokens_ok in *. rewrite <- Hy in Hw. apply Forall_app in Hw. exact Hw. }
        destruct Hw' as [Hu Har]. pose proof (Forall_inv Har) as Ha. pose proof (Forall_inv_tail Har) as Hrest'. cbn beta in Ha.
        destruct (prefix_shift g sts tbl _ _ CF _ a z t rest' Hd Hu Ha Hrest') as (N & ss2 & trs2 & HN).
        rewrite Hy in HN.
        destruct Hr as [n0 Hr].
        destruct (Nat.le_gt_cases n0 N) as [Hle|Hgt].
        * pose proof (msteps_split g tbl n0 N _ _ _ Hr HN Hle) as Hmid.
          destruct (IH ss2 trs2 rest') as (n & c' & Hs & Hh).
          { cbn in Hlen. lia. }
          { exists N. exact HN. }
          exists ((N - n0) + n), c'. split; [|exact Hh]. eapply msteps_trans; eassumption.
        * exfalso. pose proof (msteps_split g tbl N n0 _ _ _ HN Hr ltac:(lia)) as Hback.
          apply msteps_rest_len in Hback. cbn in Hback. lia.
  Qed.

  (* (T4) *)
  Theorem machine_halts_core : exists n c, msteps g tbl n ([0], [], w) c /\ halted g tbl c.
  Proof.
    apply (halts_from (length w)); [lia|]. exists 0. reflexivity.
  Qed.

  (* ... and how: it accepts a derivation tree of the input, or it stands on an error cell *)
  Theorem machine_outcome_core : exists n c, msteps g tbl n ([0], [], w) c /\
    ((exists t, mstep g tbl c = Acc t /\ derives_tree g t w) \/
     (mstep g tbl c = Fail /\ err_cell g tbl c /\ ~ derives g w)).
  Proof.
    destruct machine_halts_core as (n & c & Hs & Hh). exists n, c. split; [exact Hs|].
    assert (Hr : reach g tbl w c) by (exists n; exact Hs).
    pose proof (reach_SInv g sts tbl w SF Hw _ Hr) as HS.
    unfold halted in Hh. destruct (mstep g tbl c) as [c1|t| |] eqn:Em.
    - contradiction.
    - left. exists t. split; [reflexivity|]. eapply SInv_acc; eassumption.
    - right. split; [reflexivity|].
      assert (He : err_cell g tbl c).
      { eapply (progress g sts tbl _ _ CF (lookahead_closure_generated _ _ Hgen) w); eassumption. }
      split; [exact He|]. intros [t Hd]. eapply (fail_not_sentence g sts tbl Hval w c t); eassumption.
    - exfalso. exact (SInv_not_bad g sts tbl w SF _ HS Em).
  Qed.

  (* ================================================================================================= *)
  (* (T5) the driver halts                                                                             *)
  (* ================================================================================================= *)
  Hypothesis Hne : no_error_symbol g tbl = true.

  Lemma tree_run_mono fuel fuel' : tree_run g tbl w fuel <> OutOfFuel -> fuel <= fuel' ->
    tree_run g tbl w fuel' = tree_run g tbl w fuel.
  Proof.
    intros Hn Hle. rewrite !tree_run_eq in *.
    destruct (run_from tree unit g tbl tree_opts w None id_lexer tf (ef g) rlf fuel (init tt) []) as [[r s] o] eqn:E.
    cbn [fst] in Hn |- *.
    replace fuel' with (fuel + (fuel' - fuel)) by lia.
    rewrite (run_from_mono _ _ _ _ _ _ _ _ _ _ _ _ _ _ _ _ _ _ E Hn). reflexivity.
  Qed.

  Theorem tree_run_outcome_core : exists fuel,
    (exists t, tree_run g tbl w fuel = Accept t /\ derives_tree g t w) \/
    (tree_run g tbl w fuel = Reject /\ ~ derives g w).
  Proof.
    destruct machine_outcome_core as (n & c & Hs & [(t & Ha & Hd)|(Hf & He & Hnd)]).
    - assert (Hm : mrun g tbl (n + 1) ([0], [], w) = Some t).
      { eapply msteps_mrun; [exact Hs|]. cbn [mrun]. rewrite Ha. reflexivity. }
      destruct (mrun_accepts g tbl w _ _ Hm) as [fuel Hfuel]. exists fuel. left. exists t. auto.
    - destruct c as [[ss trs] rest]. exists (n + (1 + length ss)). right. split; [|exact Hnd].
      exact (error_cell_rejects g sts tbl w SF Hne Hw n ss trs rest Hs He).
  Qed.
End Halts.

(* ================================================================================================= *)
(* the theorems, with Prop hypotheses                                                                *)
(* ================================================================================================= *)

(* (T4) the machine stops (Acc, Fail or Bad) after finitely many steps -- for every input, with or without error
   symbol in the table *)
Theorem machine_halts : forall g sts tbl w,
  validate g sts tbl = true -> lookahead_generated g sts -> states_nonempty sts -> reduce_lookahead g sts tbl ->
  productive g -> tokens_ok g w ->
  exists n c, msteps g tbl n ([0], [], w) c /\
              match mstep g tbl c with Next _ => False | _ => True end.
Proof. intros g sts tbl w Hval Hgen Hne Hred Hprod Hw. exact (machine_halts_core g sts tbl Hval Hgen Hne Hred Hprod w Hw). Qed.

Theorem machine_outcome : forall g sts tbl w,
  validate g sts tbl = true -> lookahead_generated g sts -> states_nonempty sts -> reduce_lookahead g sts tbl ->
  productive g -> tokens_ok g w ->
  exists n c, msteps g tbl n ([0], [], w) c /\
    ((exists t, mstep g tbl c = Acc t /\ derives_tree g t w) \/
     (mstep g tbl c = Fail /\ err_cell g tbl c /\ ~ derives g w)).
Proof. intros g sts tbl w Hval Hgen Hne Hred Hprod Hw. exact (machine_outcome_core g sts tbl Hval Hgen Hne Hred Hprod w Hw). Qed.

(* the closure_generated hypothesis of the plan is implied by lookahead_generated; stated with it for reference *)
Corollary machine_halts_as_planned : forall g sts tbl w,
  validate g sts tbl = true -> closure_generated g sts -> states_nonempty sts ->
  lookahead_generated g sts -> reduce_lookahead g sts tbl ->
  productive g -> tokens_ok g w ->
  exists n c, msteps g tbl n ([0], [], w) c /\
              match mstep g tbl c with Next _ => False | _ => True end.
Proof. intros g sts tbl w Hval _ Hne Hgen Hred Hprod Hw. apply (machine_halts g sts tbl w); assumption. Qed.

(* (T5) *)
Theorem tree_run_halts : forall g sts tbl w,
  validate g sts tbl = true -> lookahead_generated g sts -> states_nonempty sts -> reduce_lookahead g sts tbl ->
  productive g -> tokens_ok g w -> no_error_symbol g tbl = true ->
  exists fuel, tree_run g tbl w fuel <> OutOfFuel.
Proof.
  intros g sts tbl w Hval Hgen Hne Hred Hprod Hw Herr.
  destruct (tree_run_outcome_core g sts tbl Hval Hgen Hne Hred Hprod w Hw Herr) as (fuel & [(t & E & _)|(E & _)]);
    exists fuel; rewrite E; discriminate.
Qed.

Theorem tree_run_halts_stable : forall g sts tbl w,
  validate g sts tbl = true -> lookahead_generated g sts -> states_nonempty sts -> reduce_lookahead g sts tbl ->
  productive g -> tokens_ok g w -> no_error_symbol g tbl = true ->
  exists fuel, forall fuel', fuel <= fuel' ->
    tree_run g tbl w fuel' = tree_run g tbl w fuel /\ tree_run g tbl w fuel <> OutOfFuel.
Proof.
  intros g sts tbl w Hval Hgen Hne Hred Hprod Hw Herr.
  destruct (tree_run_halts g sts tbl w Hval Hgen Hne Hred Hprod Hw Herr) as (fuel & Hf).
  exists fuel. intros fuel' Hle. split; [|exact Hf]. apply tree_run_mono; assumption.
Qed.

(* the driver decides the language: one fuel bound, after which the run accepts (a derivation tree of the input)
   exactly when the input is a sentence, and rejects exactly when it is not *)
Theorem decides_language : forall g sts tbl w,
  validate g sts tbl = true -> lookahead_generated g sts -> states_nonempty sts -> reduce_lookahead g sts tbl ->
  productive g -> tokens_ok g w -> no_error_symbol g tbl = true ->
  exists fuel, forall fuel', fuel <= fuel' ->
    (derives g w -> exists t, tree_run g tbl w fuel' = Accept t /\ derives_tree g t w) /\
    (~ derives g w -> tree_run g tbl w fuel' = Reject).
Proof.
  intros g sts tbl w Hval Hgen Hne Hred Hprod Hw Herr.
  destruct (tree_run_outcome_core g sts tbl Hval Hgen Hne Hred Hprod w Hw Herr) as (fuel & H).
  exists fuel. intros fuel' Hle.
  assert (Hm : tree_run g tbl w fuel' = tree_run g tbl w fuel).
  { apply tree_run_mono; [|exact Hle]. destruct H as [(t & E & _)|(E & _)]; rewrite E; discriminate. }
  rewrite Hm. destruct H as [(t & E & Hd)|(E & Hnd)].
  - split; [intros _; exists t; auto|]. intros Hn. exfalso. apply Hn. exists t. exact Hd.
  - split; [intros Hd; contradiction|]. intros _. exact E.
Qed.

(* the unconditional form of R2 (Proofs/ReportLang.v, ReportHalt.v): rejected for some fuel iff not a sentence *)
Corollary reject_iff_not_in_language : forall g sts tbl w,
  validate g sts tbl = true -> lookahead_generated g sts -> states_nonempty sts -> reduce_lookahead g sts tbl ->
  productive g -> tokens_ok g w -> no_error_symbol g tbl = true ->
  ((exists fuel, tree_run g tbl w fuel = Reject) <-> ~ derives g w).
Proof.
  intros g sts tbl w Hval Hgen Hne Hred Hprod Hw Herr.
  apply (reject_iff_not_in_language_halting g sts tbl w Hval (lookahead_closure_generated _ _ Hgen) Herr Hw).
  exact (tree_run_halts g sts tbl w Hval Hgen Hne Hred Hprod Hw Herr).
Qed.

(* ================================================================================================= *)
(* tables WITH error symbol: the parse up to the first syntax error terminates                        *)
(* ================================================================================================= *)
(* Without [no_error_symbol] the run may go through error recovery (shift of the error token, consume mode).
   What is proved for such tables: after finitely many iterations the run has ended (Accept, or a result other
   than OutOfFuel) or has reported its first syntax error and stands in recovery mode. [run_from] with the fuel
   used up returns the state it stands in. Termination of the recovery episodes themselves is NOT proved here
   (see the report: the machine and the invariants of LRSound/LRComplete know no error token). *)
Section FirstPhase.
  Variable g : grammar.
  Variable sts : list items.
  Variable tbl : table.
  Variable w : list nat.
  Hypothesis SF : sound_facts g sts tbl.

  Notation drun := (run_from tree unit g tbl tree_opts w None id_lexer tf (ef g) rlf).
  Notation dstep := (step tree unit g tbl tree_opts w None id_lexer tf (ef g) rlf).

  Lemma first_phase n : forall s c', normal w s -> SInv g sts w (abs w s) ->
    msteps g tbl n (abs w s) c' -> halted g tbl c' ->
    exists fuel, forall out, fst (fst (drun fuel s out)) <> OutOfFuel \/ ps_rec (snd (fst (drun fuel s out))) = true.
  Proof.
    induction n as [|n IH]; intros s c' Hn HS Hm Hh; cbn [msteps] in Hm.
    - subst c'. unfold halted in Hh. pose proof (step_sim g tbl w s Hn) as Hsim.
      destruct (mstep g tbl (abs w s)) as [c1|v| |] eqn:Em; [contradiction| | |].
      + destruct Hsim as (s' & ev & Hs). exists 1. intros out. cbn [run_from]. rewrite Hs. left. cbn. discriminate.
      + destruct Hsim as [(r & s' & ev & Hs & _)|(s' & ev & Hs & Hr' & _)]; exists 1; intros out; cbn [run_from]; rewrite Hs.
        * left. cbn. intros ->. exact (step_not_oof _ _ _ _ _ _ _ _ _ _ _ _ _ _ Hs).
        * right. cbn. exact Hr'.
      + exfalso. exact (SInv_not_bad g sts tbl w SF _ HS Em).
    - destruct Hm as (c1 & Em & Hm). pose proof (step_sim g tbl w s Hn) as Hsim. rewrite Em in Hsim.
      destruct Hsim as (s' & ev & Hs & Hn' & Ha). subst c1.
      destruct (IH s' c' Hn' (SInv_next g sts tbl w SF _ _ HS Em) Hm Hh) as (fuel & Hf).
      exists (S fuel). intros out. cbn [run_from]. rewrite Hs. apply Hf.
  Qed.
End FirstPhase.

Theorem first_error_or_end : forall g sts tbl w,
  validate g sts tbl = true -> lookahead_generated g sts -> states_nonempty sts -> reduce_lookahead g sts tbl ->
  productive g -> tokens_ok g w ->
  exists fuel r s out,
    Driver.run tree unit g tbl tree_opts w None id_lexer tf (ef g) rlf fuel tt = (r, s, out) /\
    (r <> OutOfFuel \/ (r = OutOfFuel /\ ps_rec s = true)).
Proof.
  intros g sts tbl w Hval Hgen Hne Hred Hprod Hw.
  pose proof (sound_facts_of g sts tbl (validate_validate_sound _ _ _ Hval)) as SF.
  destruct (machine_halts_core g sts tbl Hval Hgen Hne Hred Hprod w Hw) as (n & c & Hm & Hh).
  destruct (first_phase g sts tbl w SF n (init tt) c (init_normal w)) as (fuel & Hf).
  - rewrite init_abs. apply SInv_init. exact Hw.
  - rewrite init_abs. exact Hm.
  - exact Hh.
  - specialize (Hf []). unfold run.
    destruct (run_from tree unit g tbl tree_opts w None id_lexer tf (ef g) rlf fuel (init tt) []) as [[r s] out] eqn:E.
    exists fuel, r, s, out. split; [exact E|]. cbn [fst snd] in Hf.
    destruct r; try (left; discriminate). destruct Hf as [Hf|Hf]; [contradiction|]. right. auto.
Qed.

(* ================================================================================================= *)
(* the same with the boolean checks of Valid/LRProductive.v                                          *)
(* ================================================================================================= *)
Lemma term_checks_facts g sts tbl : term_checks g sts tbl = true ->
  validate g sts tbl = true /\ lookahead_generated g sts /\ states_nonempty sts /\ reduce_lookahead g sts tbl /\
  productive g.
Proof.
  unfold term_checks. intros H. andb_split.
  repeat split; auto using lookahead_generatedb_ok, states_nonempty_b_ok, reduce_lookaheadb_ok, productiveb_ok.
Qed.

Theorem machine_halts_checked : forall g sts tbl w,
  term_checks g sts tbl = true -> tokens_ok g w ->
  exists n c, msteps g tbl n ([0], [], w) c /\
              match mstep g tbl c with Next _ => False | _ => True end.
Proof.
  intros g sts tbl w Hc Hw. destruct (term_checks_facts _ _ _ Hc) as (H1 & H2 & H3 & H4 & H5).
  apply (machine_halts g sts tbl w); assumption.
Qed.

Theorem decides_language_checked : forall g sts tbl w,
  term_checks g sts tbl = true -> no_error_symbol g tbl = true -> tokens_ok g w ->
  exists fuel, forall fuel', fuel <= fuel' ->
    (derives g w -> exists t, tree_run g tbl w fuel' = Accept t /\ derives_tree g t w) /\
    (~ derives g w -> tree_run g tbl w fuel' = Reject).
Proof.
  intros g sts tbl w Hc Herr Hw. destruct (term_checks_facts _ _ _ Hc) as (H1 & H2 & H3 & H4 & H5).
  apply (decides_language g sts tbl w); assumption.
Qed.

(* ================================================================================================= *)
(* the check [lookahead_generated] cannot be dropped                                                 *)
(* ================================================================================================= *)
(* the looping table of Proofs/ReportCex.v passes [validate] and every other check *)
Theorem halting_refuted_without_lookahead_generated :
  validate ReportCex.g2 ReportCex.sts2 ReportCex.tbl2 = true /\ states_nonempty_b ReportCex.sts2 = true /\
  reduce_lookaheadb ReportCex.g2 ReportCex.sts2 ReportCex.tbl2 = true /\ productiveb ReportCex.g2 = true /\
  no_error_symbol ReportCex.g2 ReportCex.tbl2 = true /\ tokens_ok ReportCex.g2 [1] /\
  lookahead_generatedb ReportCex.g2 ReportCex.sts2 = false /\
  forall fuel, tree_run ReportCex.g2 ReportCex.tbl2 [1] fuel = OutOfFuel.
Proof.
  do 5 (split; [vm_compute; reflexivity|]). split; [repeat constructor|]. split; [vm_compute; reflexivity|].
  exact ReportCex.loop_forever.
Qed.

Print Assumptions halting_refuted_without_lookahead_generated.
Print Assumptions machine_halts.
Print Assumptions machine_outcome.
Print Assumptions tree_run_halts.
Print Assumptions tree_run_halts_stable.
Print Assumptions decides_language.
Print Assumptions reject_iff_not_in_language.
Print Assumptions first_error_or_end.
Print Assumptions machine_halts_checked.
Print Assumptions decides_language_checked.
