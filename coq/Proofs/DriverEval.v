(* C02: the run with an arbitrary semantic algebra is the run that builds the derivation trees, followed by the
   bottom-up evaluation of those trees; functors are called in post-order, once per node. *)
Require Import Ctpg.Base.Prelude Ctpg.Model.Grammar Ctpg.Model.LRGen Ctpg.Model.Driver Ctpg.Spec.Eval.
Require Import Ctpg.Proofs.DriverBasics.

Lemma app_eq_len {A} (a a' b b' : list A) : length a = length a' -> a ++ b = a' ++ b' -> a = a' /\ b = b'.
Proof.
  revert a'; induction a as [|x a IH]; intros [|y a'] Hl H; cbn in *; try discriminate; [auto|].
  inversion H; subst. destruct (IH a') as [-> ->]; auto.
Qed.

Lemma map_tl' {A B} (f : A -> B) l : tl (map f l) = map f (tl l).
Proof. destruct l; reflexivity. Qed.

(* ---------- the run commutes with homomorphisms of semantic algebras ---------- *)
Section Hom.
  Variables V1 C1 V2 C2 : Type.
  Variable g : grammar.
  Variable tbl : table.
  Variable opts : options.
  Variable buf : list nat.
  Variable cap : option nat.
  Variable lexer : bool -> spoint -> list nat -> list lex_event * option (nat * nat).
  Variable term1 : nat -> nat -> nat -> spoint -> V1.
  Variable err1 : spoint -> V1.
  Variable rule1 : nat -> C1 -> list V1 -> C1 * V1.
  Variable term2 : nat -> nat -> nat -> spoint -> V2.
  Variable err2 : spoint -> V2.
  Variable rule2 : nat -> C2 -> list V2 -> C2 * V2.
  Variable h : V1 -> V2.
  Variable hc : C1 -> C2.
  Hypothesis h_term : forall t a l p, h (term1 t a l p) = term2 t a l p.
  Hypothesis h_err : forall p, h (err1 p) = err2 p.
  Hypothesis h_rule : forall r c args,
    rule2 r (hc c) (map h args) = (hc (fst (rule1 r c args)), h (snd (rule1 r c args))).

  Definition map_st (s : pstate V1 C1) : pstate V2 C2 :=
    mkPS (ps_cursors s) (map h (ps_values s)) (ps_sp s) (ps_it s) (ps_end s) (ps_term s) (ps_rec s) (ps_cons s)
         (hc (ps_ctx s)).
  Definition map_res (r : result V1) : result V2 :=
    match r with
    | Accept v => Accept (h v) | Reject => Reject | Crash c => Crash c | Throw => Throw | OutOfFuel => OutOfFuel
    end.
  Definition map_out (o : pstate V1 C1 + result V1 * pstate V1 C1) : pstate V2 C2 + result V2 * pstate V2 C2 :=
    match o with inl s => inl (map_st s) | inr (r, s) => inr (map_res r, map_st s) end.

  Notation step1 := (step V1 C1 g tbl opts buf cap lexer term1 err1 rule1).
  Notation step2 := (step V2 C2 g tbl opts buf cap lexer term2 err2 rule2).
  Notation run_gh1 := (run_gh V1 C1 g tbl opts buf cap lexer term1 err1 rule1).
  Notation run_gh2 := (run_gh V2 C2 g tbl opts buf cap lexer term2 err2 rule2).

  Lemma gct_hom s :
    get_current_term V2 C2 g opts buf lexer (map_st s) =
    let '(s1, ot, ev) := get_current_term V1 C1 g opts buf lexer s in (map_st s1, ot, ev).
  Proof.
    destruct s as [cs vs sp it en tm rc cn cx]. unfold get_current_term, map_st. cbn [ps_rec ps_it ps_end ps_sp ps_term].
    destruct rc; [reflexivity|]. destruct (negb (Nat.eqb it en)); [reflexivity|].
    match goal with |- context [skipn ?k (skipn it buf)] => destruct (skipn k (skipn it buf)) as [|c rest] end; [reflexivity|].
    match goal with |- context [lexer ?a ?b ?c] => destruct (lexer a b c) as [lx [[t len]|]] end; reflexivity.
  Qed.

  Lemma reduce_hom s r :
    do_reduce V2 C2 g tbl cap rule2 (map_st s) r =
    match do_reduce V1 C1 g tbl cap rule1 s r with
    | inl (s3, ev) => inl (map_st s3, ev)
    | inr res => inr (map_res res)
    end.
  Proof.
    destruct s as [cs vs sp it en tm rc cn cx]. unfold do_reduce, map_st.
    cbn [ps_cursors ps_values ps_ctx ps_sp].
    destruct (nth_error (rule_infos g) r) as [ri|]; [|reflexivity].
    destruct (Nat.ltb (length cs) (ri_n ri)); [reflexivity|].
    destruct (skipn (ri_n ri) cs) as [|top cs']; [reflexivity|].
    destruct (cell tbl top (ri_l ri)) as [e|c]; [|reflexivity].
    destruct (full cap (length (top :: cs'))); [reflexivity|].
    destruct (e_arg e) as [nst|]; [|reflexivity].
    rewrite map_length. destruct (Nat.ltb (length vs) (ri_n ri)); [reflexivity|].
    rewrite firstn_map, <- map_rev, h_rule, skipn_map, map_length.
    destruct (rule1 (ri_r ri) cx (rev (firstn (ri_n ri) vs))) as [c' v]. cbn [fst snd].
    destruct (full cap (length (skipn (ri_n ri) vs))); reflexivity.
  Qed.

  Lemma act_hom s cursor t :
    act V2 C2 g tbl buf cap term2 err2 rule2 (map_st s) cursor t =
    let '(o, ev) := act V1 C1 g tbl buf cap term1 err1 rule1 s cursor t in (map_out o, ev).
  Proof.
    unfold act. destruct (cell tbl cursor (nterm_count g + t)) as [e|c]; [|reflexivity].
    assert (Hclr : (if ps_cons (map_st s) then set_modes (map_st s) (ps_rec (map_st s)) false else map_st s)
                   = map_st (if ps_cons s then set_modes s (ps_rec s) false else s)).
    { destruct s as [cs vs sp it en tm rc cn cx]. cbn. destruct cn; reflexivity. }
    rewrite Hclr. clear Hclr.
    change (ps_cons (map_st s)) with (ps_cons s). change (ps_sp (map_st s)) with (ps_sp s).
    set (s2 := if ps_cons s then set_modes s (ps_rec s) false else s).
    set (lc0 := if ps_cons s then [EvLeaveConsume (ps_sp s)] else []).
    destruct (e_kind e).
    - (* KError *)
      destruct (ps_cons s).
      + change (ps_term (map_st s)) with (ps_term s).
        destruct (match ps_term s with Some x => Nat.eqb x (eof_idx g) | None => false end); reflexivity.
      + change (ps_rec (map_st s)) with (ps_rec s). destruct (negb (ps_rec s)); [reflexivity|].
        unfold pop_stacks. change (ps_cursors (map_st s)) with (ps_cursors s).
        destruct (tl (ps_cursors s)); cbn; unfold map_st, set_stacks; cbn; rewrite map_tl'; reflexivity.
    - (* KSuccess *)
      change (ps_values (map_st s2)) with (map h (ps_values s2)). rewrite <- map_rev.
      destruct (rev (ps_values s2)); reflexivity.
    - (* KShift *)
      destruct (e_arg e) as [nst|]; [|reflexivity].
      change (ps_cursors (map_st s2)) with (ps_cursors s2). change (ps_end (map_st s2)) with (ps_end s2).
      destruct (full cap (length (ps_cursors s2))); [reflexivity|].
      destruct (Nat.ltb (length buf) (ps_end s2)); [reflexivity|].
      change (ps_it (map_st s2)) with (ps_it s2). change (ps_sp (map_st s2)) with (ps_sp s2).
      rewrite <- h_term. reflexivity.
    - (* KShiftErr *)
      destruct (e_arg e) as [nst|]; [|reflexivity].
      change (ps_cursors (map_st s2)) with (ps_cursors s2).
      destruct (full cap (length (ps_cursors s2))); [reflexivity|].
      change (ps_sp (map_st s2)) with (ps_sp s2). rewrite <- h_err. reflexivity.
    - (* KReduce *)
      destruct (e_arg e) as [r|]; [|reflexivity]. rewrite reduce_hom.
      destruct (do_reduce V1 C1 g tbl cap rule1 s2 r) as [[s3 ev]|res]; reflexivity.
    - (* KRR *)
      destruct (e_arg e) as [r|]; [|reflexivity]. rewrite reduce_hom.
      destruct (do_reduce V1 C1 g tbl cap rule1 s2 r) as [[s3 ev]|res]; reflexivity.
  Qed.

  Lemma step_hom s : step2 (map_st s) = let '(o, ev) := step1 s in (map_out o, ev).
  Proof.
    unfold step. change (ps_cursors (map_st s)) with (ps_cursors s).
    destruct (ps_cursors s) as [|cursor cs]; [reflexivity|].
    rewrite gct_hom. destruct (get_current_term V1 C1 g opts buf lexer s) as [[s1 ot] ev1].
    destruct ot as [t|]; [|reflexivity].
    rewrite act_hom. destruct (act V1 C1 g tbl buf cap term1 err1 rule1 s1 cursor t) as [o ev2]. reflexivity.
  Qed.

  Lemma run_gh_hom fuel : forall s out vis,
    run_gh2 fuel (map_st s) out (map map_st vis) =
    let '(r, s', out', vis') := run_gh1 fuel s out vis in (map_res r, map_st s', out', map map_st vis').
  Proof.
    induction fuel as [|f IH]; intros s out vis; cbn [run_gh]; [reflexivity|].
    rewrite step_hom. destruct (step1 s) as [[s'|[r s']] ev]; cbn [map_out].
    - replace (map map_st vis ++ [map_st s]) with (map map_st (vis ++ [s])) by (now rewrite map_app). apply IH.
    - now rewrite map_app.
  Qed.

  Lemma all_events_hom vis :
    all_events V2 C2 g tbl opts buf cap lexer term2 err2 rule2 (map map_st vis) =
    all_events V1 C1 g tbl opts buf cap lexer term1 err1 rule1 vis.
  Proof.
    unfold all_events. induction vis as [|s vis IH]; cbn; [reflexivity|].
    rewrite IH, step_hom. destruct (step1 s). reflexivity.
  Qed.
End Hom.

Arguments map_st {V1 C1 V2 C2}. Arguments map_res {V1 V2}.

(* ---------- facts about eval ---------- *)
Section EvalFacts.
  Variables V C : Type.
  Variable term_f : nat -> nat -> nat -> spoint -> V.
  Variable err_f : spoint -> V.
  Variable rule_f : nat -> C -> list V -> C * V.
  Notation evalx := (eval V C term_f err_f rule_f).
  Notation eval_listx := (eval_list V C term_f err_f rule_f).

  Lemma eval_node r ch c : evalx (PNode r ch) c = let '(c1, vs) := eval_listx ch c in rule_f r c1 vs.
  Proof.
    cbn [eval].
    match goal with |- (let '(_, _) := ?F ch c in _) = _ => assert (H : forall l c, F l c = eval_listx l c) end.
    { induction l as [|x l IH]; intros c'; [reflexivity|].
      cbn [eval_list]. destruct (evalx x c') as [c1 v]. rewrite IH. reflexivity. }
    rewrite H. reflexivity.
  Qed.

  Lemma eval_list_app l1 l2 c :
    eval_listx (l1 ++ l2) c =
    let '(c1, vs1) := eval_listx l1 c in let '(c2, vs2) := eval_listx l2 c1 in (c2, vs1 ++ vs2).
  Proof.
    revert c; induction l1 as [|x l1 IH]; intros c; cbn [app eval_list].
    - destruct (eval_listx l2 c); reflexivity.
    - destruct (evalx x c) as [c1 v]. rewrite IH. destruct (eval_listx l1 c1) as [c2 vs1].
      destruct (eval_listx l2 c2); reflexivity.
  Qed.

  Lemma eval_list_length l c : length (snd (eval_listx l c)) = length l.
  Proof.
    revert c; induction l as [|x l IH]; intros c; cbn [eval_list]; [reflexivity|].
    destruct (evalx x c) as [c1 v]. specialize (IH c1). destruct (eval_listx l c1). cbn in *. congruence.
  Qed.
End EvalFacts.

(* ---------- the product of two algebras ---------- *)
Section Prod.
  Variables V1 C1 V2 C2 : Type.
  Variable term1 : nat -> nat -> nat -> spoint -> V1.
  Variable err1 : spoint -> V1.
  Variable rule1 : nat -> C1 -> list V1 -> C1 * V1.
  Variable term2 : nat -> nat -> nat -> spoint -> V2.
  Variable err2 : spoint -> V2.
  Variable rule2 : nat -> C2 -> list V2 -> C2 * V2.

  Definition pterm (t a l : nat) (p : spoint) : V1 * V2 := (term1 t a l p, term2 t a l p).
  Definition perr (p : spoint) : V1 * V2 := (err1 p, err2 p).
  Definition prule (r : nat) (c : C1 * C2) (args : list (V1 * V2)) : (C1 * C2) * (V1 * V2) :=
    let '(c1, v1) := rule1 r (fst c) (map fst args) in
    let '(c2, v2) := rule2 r (snd c) (map snd args) in ((c1, c2), (v1, v2)).

  Lemma prule_fst r c args : rule1 r (fst c) (map fst args) = (fst (fst (prule r c args)), fst (snd (prule r c args))).
  Proof. unfold prule. destruct (rule1 r (fst c) (map fst args)), (rule2 r (snd c) (map snd args)); reflexivity. Qed.
  Lemma prule_snd r c args : rule2 r (snd c) (map snd args) = (snd (fst (prule r c args)), snd (snd (prule r c args))).
  Proof. unfold prule. destruct (rule1 r (fst c) (map fst args)), (rule2 r (snd c) (map snd args)); reflexivity. Qed.
End Prod.

(* what two runs with different algebras can have in common *)
Definition res_shape {V} (r : result V) : result unit := map_res (fun _ => tt) r.
Definition st_shape {V C} (s : pstate V C) :=
  (ps_cursors s, length (ps_values s), ps_sp s, ps_it s, ps_end s, ps_term s, ps_rec s, ps_cons s).

Lemma shape_map_st {V1 C1 V2 C2} (h : V1 -> V2) (hc : C1 -> C2) (s : pstate V1 C1) :
  st_shape (map_st h hc s) = st_shape s.
Proof. unfold st_shape, map_st. cbn. now rewrite map_length. Qed.

Section Eval.
  Variables V C : Type.
  Variable g : grammar.
  Variable tbl : table.
  Variable opts : options.
  Variable buf : list nat.
  Variable cap : option nat.
  Variable lexer : bool -> spoint -> list nat -> list lex_event * option (nat * nat).
  Variable term_f : nat -> nat -> nat -> spoint -> V.
  Variable err_f : spoint -> V.
  Variable rule_f : nat -> C -> list V -> C * V.
  Variable c0 : C.

  Notation TC := (list (nat * list ptree)).
  Notation PV := (ptree * V)%type.
  Notation PC := (TC * C)%type.
  Notation pt := (pterm ptree V tree_term_f term_f).
  Notation pe := (perr ptree V tree_err_f err_f).
  Notation pr := (prule ptree TC V C tree_rule_f rule_f).
  Notation pst := (pstate PV PC).
  Notation stepP := (step PV PC g tbl opts buf cap lexer pt pe pr).
  Notation run_ghP := (run_gh PV PC g tbl opts buf cap lexer pt pe pr).
  Notation run_ghT := (run_gh ptree TC g tbl opts buf cap lexer tree_term_f tree_err_f tree_rule_f).
  Notation run_ghA := (run_gh V C g tbl opts buf cap lexer term_f err_f rule_f).
  Notation runT := (run ptree TC g tbl opts buf cap lexer tree_term_f tree_err_f tree_rule_f).
  Notation runA := (run V C g tbl opts buf cap lexer term_f err_f rule_f).
  Notation no_popT := (no_pop ptree TC g tbl opts buf cap lexer tree_term_f tree_err_f tree_rule_f).
  Notation no_popP := (no_pop PV PC g tbl opts buf cap lexer pt pe pr).
  Notation evalx := (eval V C term_f err_f rule_f).
  Notation eval_listx := (eval_list V C term_f err_f rule_f).

  (* the invariant of the product run while nothing has been popped *)
  Definition ev_inv (s : pst) : Prop :=
    eval_listx (rev (map fst (ps_values s))) c0 = (snd (ps_ctx s), rev (map snd (ps_values s))) /\
    fst (ps_ctx s) = flat_map post_calls (rev (map fst (ps_values s))).

  Lemma ev_inv_stacks (s s' : pst) : ps_values s' = ps_values s -> ps_ctx s' = ps_ctx s -> ev_inv s -> ev_inv s'.
  Proof. unfold ev_inv. intros -> ->. auto. Qed.

  Lemma ev_inv_push (s : pst) (x : ptree) (v : V) (s' : pst) :
    ps_values s' = (x, v) :: ps_values s -> ps_ctx s' = ps_ctx s ->
    (forall c, evalx x c = (c, v)) -> post_calls x = [] ->
    ev_inv s -> ev_inv s'.
  Proof.
    unfold ev_inv. intros -> -> Hx Hp [H1 H2]. cbn [map rev fst snd]. split.
    - rewrite eval_list_app, H1. cbn [eval_list]. rewrite Hx. reflexivity.
    - rewrite flat_map_app, <- H2. cbn [flat_map]. rewrite Hp. now rewrite !app_nil_r.
  Qed.

  Lemma ev_inv_reduce (s : pst) n r c' v :
    n <= length (ps_values s) ->
    pr r (ps_ctx s) (rev (firstn n (ps_values s))) = (c', v) ->
    ev_inv s ->
    eval_listx (rev (map fst (v :: skipn n (ps_values s)))) c0 = (snd c', rev (map snd (v :: skipn n (ps_values s)))) /\
    fst c' = flat_map post_calls (rev (map fst (v :: skipn n (ps_values s)))).
  Proof.
    intros Hn Hf [H1 H2].
    set (vs := ps_values s) in *.
    assert (Hsplit : forall (B : Type) (f : PV -> B),
               rev (map f vs) = rev (map f (skipn n vs)) ++ map f (rev (firstn n vs))).
    { intros B f. rewrite <- (firstn_skipn n vs) at 1. now rewrite map_app, rev_app_distr, map_rev. }
    rewrite (Hsplit _ fst) in H1, H2. rewrite (Hsplit _ snd) in H1.
    set (args := rev (firstn n vs)) in *.
    rewrite eval_list_app in H1.
    pose proof (eval_list_length V C term_f err_f rule_f (rev (map fst (skipn n vs))) c0) as HlA.
    destruct (eval_listx (rev (map fst (skipn n vs))) c0) as [c1 wA] eqn:EA.
    pose proof (eval_list_length V C term_f err_f rule_f (map fst args) c1) as HlB.
    destruct (eval_listx (map fst args) c1) as [c2 wB] eqn:EB.
    cbn [snd] in HlA, HlB. inversion H1 as [[Hc Hw]]. clear H1.
    apply app_eq_len in Hw as [-> ->]; [|now rewrite HlA, !rev_length, !map_length].
    unfold prule, tree_rule_f in Hf. cbn [fst snd] in Hf.
    destruct (rule_f r (snd (ps_ctx s)) (map snd args)) as [cA vA] eqn:Hr.
    inversion Hf; subst c' v c2. clear Hf. cbn [map rev fst snd]. split.
    - rewrite eval_list_app, EA. cbn [eval_list]. rewrite eval_node, EB, Hr. reflexivity.
    - rewrite H2, !flat_map_app. cbn [flat_map post_calls]. now rewrite app_nil_r, app_assoc.
  Qed.

  Lemma step_ev s : ev_inv s ->
    (forall e, In e (snd (stepP s)) -> is_pop_ev e = false) ->
    match fst (stepP s) with inl s' => ev_inv s' | inr (_, s') => ev_inv s' end.
  Proof.
    intros Hinv. apply step_cases.
    - intros _ _. assumption.
    - intros s1 ev1 Hg _. cbn [fst]. apply gct_stacks in Hg as (_ & Hv & Hc & _). eapply ev_inv_stacks; eauto.
    - intros cursor cs s1 t ev1 r ev2 _ Hg Ha Hnp. cbn [fst snd] in *.
      apply gct_stacks in Hg as (_ & Hv & Hc & _).
      assert (H1 : ev_inv s1) by (eapply ev_inv_stacks; eauto). clear Hinv Hv Hc.
      assert (Hnp2 : forall e, In e ev2 -> is_pop_ev e = false) by (intros e He; apply Hnp, in_or_app; auto).
      clear Hnp.
      inversion Ha as [r0 s' ev0 Hs' Hr Hev|Hcn Hne|Hcn Hr|top cs' Hcn Hr Htl|Hcn Hr Htl|e nst Hcell Hk Hend|nst|r0 s3 pre ev0 Hred Hpre];
        subst.
      + destruct Hs' as [->| ->]; [assumption|]. eapply ev_inv_stacks; [..|exact H1]; simp_ps; reflexivity.
      + eapply ev_inv_stacks; [..|exact H1]; simp_ps; reflexivity.
      + eapply ev_inv_stacks; [..|exact H1]; simp_ps; reflexivity.
      + specialize (Hnp2 _ (or_introl eq_refl)). discriminate.
      + specialize (Hnp2 _ (or_introl eq_refl)). discriminate.
      + eapply ev_inv_push; [..|exact H1]; simp_ps; reflexivity.
      + eapply ev_inv_push; [..|exact H1]; simp_ps; reflexivity.
      + apply do_reduce_inl in Hred as (ri & nst & c' & v & _ & Hn & _ & Hf & -> & _).
        rewrite clr_values in Hn. rewrite clr_values, clr_ctx in Hf.
        unfold ev_inv. simp_ps. eapply ev_inv_reduce; eauto.
  Qed.

  (* the product run: invariant under the ghost "nothing popped so far", and Accept returns the bottom value *)
  Lemma run_ghP_inv fuel :
    let '(r, s, _, vis) := run_ghP fuel (init ([], c0)) [] [] in
    (no_popP vis -> ev_inv s) /\
    (forall v, r = Accept v -> exists rest, rev (ps_values s) = v :: rest).
  Proof.
    apply (run_gh_inv PV PC g tbl opts buf cap lexer pt pe pr
             (fun vis s => no_popP vis -> ev_inv s)
             (fun vis r s => (no_popP vis -> ev_inv s) /\
                             (forall v, r = Accept v -> exists rest, rev (ps_values s) = v :: rest))).
    - intros vis s H. split; [assumption|discriminate].
    - intros vis s H.
      assert (Hev : no_popP (vis ++ [s]) -> match fst (stepP s) with inl s' => ev_inv s' | inr (_, s') => ev_inv s' end).
      { intros Hnp. apply no_pop_snoc in Hnp as [Hnp1 Hnp2]. apply step_ev; auto. }
      revert Hev. apply step_cases.
      + intros _ Hev. split; [assumption|discriminate].
      + intros s1 ev1 _ Hev. split; [assumption|discriminate].
      + intros cursor cs s1 t ev1 r ev2 _ _ Ha. cbn [fst]. destruct r as [s'|[r s']]; [auto|].
        intros Hev. split; [assumption|]. intros v ->.
        inversion Ha as [r0 s0 ev0 Hs' Hr Hev'| | | | | | |]; subst.
        destruct Hs' as [->| ->]; simp_ps; exact Hr.
    - intros _. unfold ev_inv. cbn. auto.
  Qed.

  Let hT_term : forall t a l p, fst (pt t a l p) = tree_term_f t a l p. Proof. reflexivity. Qed.
  Let hA_term : forall t a l p, snd (pt t a l p) = term_f t a l p. Proof. reflexivity. Qed.

  Lemma runT_of_P fuel :
    run_ghT fuel (init []) [] [] =
    let '(r, s, out, vis) := run_ghP fuel (init ([], c0)) [] [] in
    (map_res fst r, map_st fst fst s, out, map (map_st fst fst) vis).
  Proof.
    apply (run_gh_hom PV PC ptree TC g tbl opts buf cap lexer pt pe pr tree_term_f tree_err_f tree_rule_f fst fst
             hT_term (fun _ => eq_refl) (prule_fst _ _ _ _ _ _) fuel (init ([], c0)) [] []).
  Qed.

  Lemma runA_of_P fuel :
    run_ghA fuel (init c0) [] [] =
    let '(r, s, out, vis) := run_ghP fuel (init ([], c0)) [] [] in
    (map_res snd r, map_st snd snd s, out, map (map_st snd snd) vis).
  Proof.
    apply (run_gh_hom PV PC V C g tbl opts buf cap lexer pt pe pr term_f err_f rule_f snd snd
             hA_term (fun _ => eq_refl) (prule_snd _ _ _ _ _ _) fuel (init ([], c0)) [] []).
  Qed.


  Notation all_eventsT := (all_events ptree TC g tbl opts buf cap lexer tree_term_f tree_err_f tree_rule_f).
  Notation all_eventsA := (all_events V C g tbl opts buf cap lexer term_f err_f rule_f).

  (* C02a + C02b on the instrumented runs. The ghost [vis] is the list of loop-head states; [no_pop vis] says that
     error recovery removed nothing from the stacks (no "Recovering to"/"Could not recover" line among ALL lines of
     the iterations, printed or not). *)
  Theorem run_tree_eval_gh fuel :
    let '(rT, sT, outT, visT) := run_ghT fuel (init []) [] [] in
    let '(rA, sA, outA, visA) := run_ghA fuel (init c0) [] [] in
    (* same path *)
    res_shape rT = res_shape rA /\ st_shape sT = st_shape sA /\ outT = outA /\
    map st_shape visT = map st_shape visA /\ all_eventsT visT = all_eventsA visA /\
    (* Accept returns the bottom of the value stack, in both runs *)
    (forall t, rT = Accept t -> exists v restT restA,
         rA = Accept v /\ rev (ps_values sT) = t :: restT /\ rev (ps_values sA) = v :: restA) /\
    (* values = evaluation of the trees; calls = post-order *)
    (no_popT visT ->
       eval_listx (rev (ps_values sT)) c0 = (ps_ctx sA, rev (ps_values sA)) /\
       ps_ctx sT = flat_map post_calls (rev (ps_values sT))).
  Proof.
    rewrite runT_of_P, runA_of_P. pose proof (run_ghP_inv fuel) as H.
    destruct (run_ghP fuel (init ([], c0)) [] []) as [[[r s] out] vis]. destruct H as [Hinv Hacc].
    split; [destruct r; reflexivity|].
    split; [now rewrite !shape_map_st|].
    split; [reflexivity|].
    split; [rewrite !map_map; apply map_ext; intros a; now rewrite !shape_map_st|].
    split.
    { rewrite (all_events_hom PV PC ptree TC g tbl opts buf cap lexer pt pe pr tree_term_f tree_err_f tree_rule_f fst fst
                 hT_term (fun _ => eq_refl) (prule_fst _ _ _ _ _ _)).
      rewrite (all_events_hom PV PC V C g tbl opts buf cap lexer pt pe pr term_f err_f rule_f snd snd
                 hA_term (fun _ => eq_refl) (prule_snd _ _ _ _ _ _)). reflexivity. }
    split.
    { intros t Ht. destruct r as [[t' v]| | | |]; try discriminate. cbn in Ht. inversion Ht; subst t'.
      destruct (Hacc _ eq_refl) as [rest Hrest]. exists v, (map fst rest), (map snd rest).
      unfold map_st. cbn [ps_values map_res]. rewrite <- !map_rev, Hrest. auto. }
    intros Hnp.
    assert (Hnp' : no_popP vis).
    { unfold no_pop in *.
      rewrite (all_events_hom PV PC ptree TC g tbl opts buf cap lexer pt pe pr tree_term_f tree_err_f tree_rule_f fst fst
                 hT_term (fun _ => eq_refl) (prule_fst _ _ _ _ _ _)) in Hnp. exact Hnp. }
    destruct (Hinv Hnp') as [H1 H2]. unfold map_st. cbn [ps_values ps_ctx]. auto.
  Qed.

  Theorem run_accept_eval_gh fuel :
    let '(rT, sT, outT, visT) := run_ghT fuel (init []) [] [] in
    let '(rA, sA, outA, visA) := run_ghA fuel (init c0) [] [] in
    no_popT visT ->
    forall t, rT = Accept t ->
      exists v, rA = Accept v /\ snd (evalx t c0) = v /\
                (ps_values sT = [t] -> evalx t c0 = (ps_ctx sA, v) /\ ps_ctx sT = post_calls t).
  Proof.
    pose proof (run_tree_eval_gh fuel) as H.
    destruct (run_ghT fuel (init []) [] []) as [[[rT sT] outT] visT].
    destruct (run_ghA fuel (init c0) [] []) as [[[rA sA] outA] visA].
    destruct H as (_ & _ & _ & _ & _ & Hacc & Hev). intros Hnp. destruct (Hev Hnp) as [H1 H2].
    intros t Ht. destruct (Hacc t Ht) as (v & restT & restA & -> & HrT & HrA). exists v. split; [reflexivity|].
    rewrite HrT, HrA in H1. cbn [eval_list] in H1. destruct (evalx t c0) as [c1 v'] eqn:Et.
    destruct (eval_listx restT c1) as [c2 vs] eqn:Er. inversion H1; subst. split; [reflexivity|].
    intros Hsing. rewrite Hsing in HrT. cbn in HrT. inversion HrT; subst restT. cbn in Er. inversion Er; subst.
    split; [reflexivity|]. rewrite H2, Hsing. cbn. now rewrite app_nil_r.
  Qed.

  (* without the ghost: both runs take the same path *)
  Theorem run_same_path fuel :
    let '(rT, sT, outT) := runT fuel [] in
    let '(rA, sA, outA) := runA fuel c0 in
    res_shape rT = res_shape rA /\ st_shape sT = st_shape sA /\ outT = outA.
  Proof.
    unfold run. rewrite (run_gh_run _ _ _ _ _ _ _ _ _ _ _ fuel (init []) [] []), (run_gh_run _ _ _ _ _ _ _ _ _ _ _ fuel (init c0) [] []).
    pose proof (run_tree_eval_gh fuel) as H.
    destruct (run_ghT fuel (init []) [] []) as [[[rT sT] outT] visT].
    destruct (run_ghA fuel (init c0) [] []) as [[[rA sA] outA] visA]. tauto.
  Qed.

  (* with verbose on every line reaches the stream, so "nothing popped" can be read off the output *)
  Theorem run_tree_eval fuel :
    o_verbose opts = true ->
    let '(rT, sT, outT) := runT fuel [] in
    let '(rA, sA, outA) := runA fuel c0 in
    (forall e, In e outT -> is_pop_ev e = false) ->
    eval_listx (rev (ps_values sT)) c0 = (ps_ctx sA, rev (ps_values sA)) /\
    ps_ctx sT = flat_map post_calls (rev (ps_values sT)) /\
    forall t, rT = Accept t ->
      exists v, rA = Accept v /\ snd (evalx t c0) = v /\
                (ps_values sT = [t] -> evalx t c0 = (ps_ctx sA, v) /\ ps_ctx sT = post_calls t).
  Proof.
    intros Hverb.
    unfold run. rewrite (run_gh_run _ _ _ _ _ _ _ _ _ _ _ fuel (init []) [] []), (run_gh_run _ _ _ _ _ _ _ _ _ _ _ fuel (init c0) [] []).
    pose proof (run_tree_eval_gh fuel) as H.
    pose proof (run_gh_out ptree TC g tbl opts buf cap lexer tree_term_f tree_err_f tree_rule_f fuel (init []) [] [] [] eq_refl) as Ho.
    destruct (run_ghT fuel (init []) [] []) as [[[rT sT] outT] visT].
    destruct (run_ghA fuel (init c0) [] []) as [[[rA sA] outA] visA].
    destruct H as (_ & _ & _ & _ & _ & Hacc & Hev). intros Hnp.
    assert (Hall : outT = all_eventsT visT).
    { rewrite Ho. cbn [app]. rewrite <- (filter_true (all_eventsT visT)) at 2. apply filter_ext.
      intros e. unfold visible. now rewrite Hverb. }
    rewrite Hall in Hnp. destruct (Hev Hnp) as [H1 H2]. split; [assumption|]. split; [assumption|].
    intros t Ht. destruct (Hacc t Ht) as (v & restT & restA & -> & HrT & HrA). exists v. split; [reflexivity|].
    rewrite HrT, HrA in H1. cbn [eval_list] in H1. destruct (evalx t c0) as [c1 v'] eqn:Et.
    destruct (eval_listx restT c1) as [c2 vs] eqn:Er. inversion H1; subst. split; [reflexivity|].
    intros Hsing. rewrite Hsing in HrT. cbn in HrT. inversion HrT; subst restT. cbn in Er. inversion Er; subst.
    split; [reflexivity|]. rewrite H2, Hsing. cbn. now rewrite app_nil_r.
  Qed.
End Eval.

(* C02b for the tree run alone *)
Theorem calls_postorder g tbl opts buf cap lexer fuel :
  let '(rT, sT, outT, visT) := run_gh ptree _ g tbl opts buf cap lexer tree_term_f tree_err_f tree_rule_f fuel (init []) [] [] in
  no_pop ptree _ g tbl opts buf cap lexer tree_term_f tree_err_f tree_rule_f visT ->
  ps_ctx sT = flat_map post_calls (rev (ps_values sT)) /\
  forall t, rT = Accept t -> ps_values sT = [t] -> ps_ctx sT = post_calls t.
Proof.
  pose proof (run_tree_eval_gh unit unit g tbl opts buf cap lexer (fun _ _ _ _ => tt) (fun _ => tt) (fun _ _ _ => (tt, tt)) tt fuel) as H.
  destruct (run_gh ptree _ g tbl opts buf cap lexer tree_term_f tree_err_f tree_rule_f fuel (init []) [] []) as [[[rT sT] outT] visT].
  destruct (run_gh unit unit g tbl opts buf cap lexer (fun _ _ _ _ => tt) (fun _ => tt) (fun _ _ _ => (tt, tt)) fuel (init tt) [] []) as [[[rA sA] outA] visA].
  destruct H as (_ & _ & _ & _ & _ & _ & Hev). intros Hnp. destruct (Hev Hnp) as [_ H2]. split; [assumption|].
  intros t _ Hs. rewrite H2, Hs. cbn. now rewrite app_nil_r.
Qed.

Theorem calls_postorder_verbose g tbl opts buf cap lexer fuel :
  o_verbose opts = true ->
  let '(rT, sT, outT) := run ptree _ g tbl opts buf cap lexer tree_term_f tree_err_f tree_rule_f fuel [] in
  (forall e, In e outT -> is_pop_ev e = false) ->
  ps_ctx sT = flat_map post_calls (rev (ps_values sT)) /\
  forall t, rT = Accept t -> ps_values sT = [t] -> ps_ctx sT = post_calls t.
Proof.
  intros Hverb.
  pose proof (run_tree_eval unit unit g tbl opts buf cap lexer (fun _ _ _ _ => tt) (fun _ => tt) (fun _ _ _ => (tt, tt)) tt fuel Hverb) as H.
  destruct (run ptree _ g tbl opts buf cap lexer tree_term_f tree_err_f tree_rule_f fuel []) as [[rT sT] outT].
  destruct (run unit unit g tbl opts buf cap lexer (fun _ _ _ _ => tt) (fun _ => tt) (fun _ _ _ => (tt, tt)) fuel tt) as [[rA sA] outA].
  intros Hnp. destruct (H Hnp) as (_ & H2 & _). split; [assumption|].
  intros t _ Hs. rewrite H2, Hs. cbn. now rewrite app_nil_r.
Qed.

(* ---------- functors that ignore the context: evaluation commutes with the run even across error recovery ---------- *)
Section PtreeInd.
  Variable P : ptree -> Prop.
  Hypothesis Hl : forall t a l p, P (PLeaf t a l p).
  Hypothesis He : forall p, P (PErr p).
  Hypothesis Hn : forall r ch, Forall P ch -> P (PNode r ch).
  Fixpoint ptree_ind2 (t : ptree) : P t :=
    match t with
    | PLeaf t a l p => Hl t a l p
    | PErr p => He p
    | PNode r ch =>
        Hn r ch ((fix go (l : list ptree) : Forall P l :=
                    match l with [] => Forall_nil P | x :: l' => Forall_cons x (ptree_ind2 x) (go l') end) ch)
    end.
End PtreeInd.

Section CtxFree.
  Variables V C : Type.
  Variable g : grammar.
  Variable tbl : table.
  Variable opts : options.
  Variable buf : list nat.
  Variable cap : option nat.
  Variable lexer : bool -> spoint -> list nat -> list lex_event * option (nat * nat).
  Variable term_f : nat -> nat -> nat -> spoint -> V.
  Variable err_f : spoint -> V.
  Variable rule_f : nat -> C -> list V -> C * V.
  Variable f : nat -> list V -> V.
  Hypothesis rule_ctx_free : forall r c args, rule_f r c args = (c, f r args).
  Variable c0 : C.

  Notation evalx := (eval V C term_f err_f rule_f).
  Notation eval_listx := (eval_list V C term_f err_f rule_f).
  Definition value_of (t : ptree) : V := snd (evalx t c0).

  Lemma cf_eval_list l c : Forall (fun t => forall c, fst (evalx t c) = c) l -> fst (eval_listx l c) = c.
  Proof.
    intros H; revert c; induction H as [|x l Hx _ IH]; intros c; cbn [eval_list]; [reflexivity|].
    specialize (Hx c). destruct (evalx x c) as [c1 v]. cbn in Hx; subst c1.
    specialize (IH c). destruct (eval_listx l c). assumption.
  Qed.

  Lemma cf_eval t : forall c, fst (evalx t c) = c.
  Proof.
    induction t as [| |r ch IH] using ptree_ind2; intros c; [reflexivity..|].
    rewrite eval_node. pose proof (cf_eval_list ch c IH) as H. destruct (eval_listx ch c) as [c1 vs].
    cbn in H; subst c1. now rewrite rule_ctx_free.
  Qed.

  Lemma cf_eval_list_eq l : eval_listx l c0 = (c0, map value_of l).
  Proof.
    induction l as [|x l IH]; cbn [eval_list map]; [reflexivity|].
    unfold value_of at 1. pose proof (cf_eval x c0) as H. destruct (evalx x c0) as [c1 v]. cbn in H; subst c1.
    now rewrite IH.
  Qed.

  Theorem run_tree_eval_ctx_free fuel :
    let '(rT, sT, outT) := run ptree _ g tbl opts buf cap lexer tree_term_f tree_err_f tree_rule_f fuel [] in
    let '(rA, sA, outA) := run V C g tbl opts buf cap lexer term_f err_f rule_f fuel c0 in
    rA = map_res value_of rT /\ ps_values sA = map value_of (ps_values sT) /\ ps_ctx sA = c0 /\
    st_shape sA = st_shape sT /\ outA = outT.
  Proof.
    unfold run. rewrite (run_gh_run _ _ _ _ _ _ _ _ _ _ _ fuel (init []) [] []), (run_gh_run _ _ _ _ _ _ _ _ _ _ _ fuel (init c0) [] []).
    pose proof (run_gh_hom ptree (list (nat * list ptree)) V C g tbl opts buf cap lexer tree_term_f tree_err_f tree_rule_f
                  term_f err_f rule_f value_of (fun _ => c0)) as H.
    specialize (H ltac:(reflexivity) ltac:(reflexivity)).
    assert (Hr : forall r (c : list (nat * list ptree)) args,
               rule_f r c0 (map value_of args) = (c0, value_of (snd (tree_rule_f r c args)))).
    { intros r c args. unfold tree_rule_f, value_of at 2. cbn [snd]. rewrite eval_node, cf_eval_list_eq.
      now rewrite !rule_ctx_free. }
    specialize (H Hr fuel (init []) [] []). change (map_st value_of (fun _ => c0) (init [])) with (@init V C c0) in H.
    cbn [map] in H. rewrite H.
    destruct (run_gh ptree _ g tbl opts buf cap lexer tree_term_f tree_err_f tree_rule_f fuel (init []) [] []) as [[[rT sT] outT] visT].
    repeat split. apply shape_map_st.
  Qed.
End CtxFree.
