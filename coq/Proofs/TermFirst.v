(* Soundness of the mirror's nullable / FIRST iteration (Model/LRGen.v: nterm_empty, nterm_first) with respect to
   derivation trees: every bit the iteration sets is witnessed by a tree. (Proofs/GenFirst.v proves the converse
   direction, closedness; Proofs/LRComplete.v uses only closedness.) FIRST bits are witnessed by TREES, so the
   nonterminals that follow the one contributing the term must derive something: the statement is about the
   nonterminals reachable from the root of a productive grammar. *)
Require Import Ctpg.Base.Prelude Ctpg.Model.Grammar Ctpg.Model.LRGen Ctpg.Model.Driver
               Ctpg.Spec.Cfg Ctpg.Spec.LRSpec Ctpg.Valid.LRValid
               Ctpg.Proofs.LRReflect Ctpg.Proofs.LRMachine Ctpg.Proofs.LRValidFacts Ctpg.Proofs.LRSound
               Ctpg.Proofs.LRComplete Ctpg.Proofs.ReportLang Ctpg.Proofs.ReportViable Ctpg.Proofs.GenLists.

Lemma tf_bset_test_set s i j : bset_test (bset_set s i) j = true -> j = i \/ bset_test s j = true.
Proof.
  unfold bset_test, bset_set. revert i j; induction s as [|b s IH]; intros [|i] [|j] H; cbn in *; auto.
  destruct (IH _ _ H) as [->|E]; auto.
Qed.

Lemma tf_bset_or_test a b j : bset_test (bset_or a b) j = true -> bset_test a j = true \/ bset_test b j = true.
Proof.
  unfold bset_test. revert b j; induction a as [|x a IH]; intros [|y b] [|j] H; cbn in *; auto.
  apply orb_true_iff in H. exact H.
Qed.

Lemma tf_bset_empty_test n j : bset_test (bset_empty n) j = false.
Proof.
  unfold bset_test, bset_empty. revert j; induction n as [|n IH]; intros [|j]; cbn; auto.
Qed.

Lemma tf_nth_repeat {A} (x : A) n k : nth k (repeat x n) x = x.
Proof. revert k; induction n as [|n IH]; intros [|k]; cbn; auto. Qed.

Section FirstSound.
  Variable g : grammar.
  Variable sts : list items.
  Variable tbl : table.
  Hypothesis SF : sound_facts g sts tbl.
  Hypothesis Hprod : productive g.

  Notation tc := (term_count g).
  Notation yields := (flat_map yield).

  Definition ne_just (ne : bset) : Prop :=
    forall l, bset_test ne l = true -> exists t, valid_tree g (NT l) t /\ yield t = [].
  Definition nf_just (nf : list bset) : Prop :=
    forall l a, reachable g l -> bset_test (nth l nf (bset_empty tc)) a = true ->
                exists t u, valid_tree g (NT l) t /\ yield t = a :: u.

  Lemma rule_of_In ri : In ri (rule_infos g) ->
    is_rule g (ri_r ri) (ri_l ri) (get_rhs g (ri_r ri)) /\
    firstn (ri_n ri) (get_rhs g (ri_r ri)) = get_rhs g (ri_r ri).
  Proof.
    intros Hin. destruct (In_nth _ _ dummy_ri Hin) as (i & Hi & E).
    rewrite (sf_len_ri _ _ _ SF) in Hi. change (get_ri g i = ri) in E. subst ri. split.
    - apply (is_rule_ri g sts tbl SF). exact Hi.
    - destruct (sf_ri _ _ _ SF i Hi) as (_ & _ & Hn). rewrite Hn. apply firstn_all.
  Qed.

  Lemma rule_nts_reachable ri : In ri (rule_infos g) -> reachable g (ri_l ri) ->
    nts_reachable g (get_rhs g (ri_r ri)).
  Proof.
    intros Hin Hl. destruct (rule_of_In ri Hin) as [Hrule _].
    unfold nts_reachable. apply Forall_forall. intros [a|m] Hm; [exact I|].
    eapply reach_rule; eassumption.
  Qed.

  (* ---------- nullable ---------- *)
  Lemma nullable_trees ne r : ne_just ne -> all_nullable ne r = true ->
    exists ts, Forall2 (valid_tree g) r ts /\ yields ts = [].
  Proof.
    intros Hj. induction r as [|[a|n] r IH]; cbn [all_nullable]; intros H.
    - exists []. split; [constructor|reflexivity].
    - discriminate.
    - apply andb_true_iff in H. destruct H as [H1 H2].
      destruct (Hj n H1) as (t & Ht & Hy). destruct (IH H2) as (ts & Hts & Hys).
      exists (t :: ts). split; [constructor; assumption|]. cbn. rewrite Hy, Hys. reflexivity.
  Qed.

  Lemma empty_pass_just ris : (forall ri, In ri ris -> In ri (rule_infos g)) ->
    forall ne ch, ne_just ne -> ne_just (fst (empty_pass g ris ne ch)).
  Proof.
    induction ris as [|ri ris IH]; intros Hin ne ch Hj; cbn [empty_pass]; [exact Hj|].
    assert (Hin' : forall ri0, In ri0 ris -> In ri0 (rule_infos g)) by (intros; apply Hin; right; assumption).
    destruct (bset_test ne (ri_l ri)); [apply IH; assumption|].
    destruct (all_nullable ne (firstn (ri_n ri) (get_rhs g (ri_r ri)))) eqn:En; [|apply IH; assumption].
    apply IH; [assumption|].
    destruct (rule_of_In ri (Hin ri (or_introl eq_refl))) as [Hrule Hfn]. rewrite Hfn in En.
    destruct (nullable_trees ne _ Hj En) as (ts & Hts & Hys).
    intros l Hl. apply tf_bset_test_set in Hl. destruct Hl as [->|Hl]; [|apply Hj; exact Hl].
    exists (Node (ri_r ri) ts). split; [econstructor; eassumption|exact Hys].
  Qed.

  Lemma empty_iter_just fuel : forall ne, ne_just ne -> ne_just (empty_iter fuel g ne).
  Proof.
    induction fuel as [|f IH]; intros ne Hj; cbn [empty_iter]; [exact Hj|].
    pose proof (empty_pass_just (rule_infos g) (fun _ H => H) ne false Hj) as Hp.
    destruct (empty_pass g (rule_infos g) ne false) as [ne' ch]. cbn [fst] in Hp.
    destruct ch; [apply IH|]; exact Hp.
  Qed.

  Lemma nterm_empty_just : ne_just (nterm_empty g).
  Proof.
    unfold nterm_empty. apply empty_iter_just. intros l Hl. rewrite tf_bset_empty_test in Hl. discriminate.
  Qed.

  (* ---------- FIRST ---------- *)
  Lemma fos_just ne nf : ne_just ne -> nf_just nf ->
    forall r, nts_reachable g r -> forall acc a,
      bset_test (first_of_syms g ne nf acc r) a = true ->
      bset_test acc a = true \/ exists ts u, Forall2 (valid_tree g) r ts /\ yields ts = a :: u.
  Proof.
    intros Hne Hnf. induction r as [|[i|n] r IH]; intros Hr acc a H; cbn [first_of_syms] in H.
    - left. exact H.
    - inversion Hr as [|? ? _ Hr']; subst.
      apply tf_bset_test_set in H. destruct H as [->|H]; [|left; exact H].
      right. destruct (prod_trees g Hprod r Hr') as [ts Hts].
      exists (Leaf i :: ts), (yields ts). split; [constructor; [constructor|assumption]|reflexivity].
    - inversion Hr as [|? ? Hn Hr']; subst.
      assert (Hor : bset_test (bset_or acc (nth n nf (bset_empty tc))) a = true ->
                    bset_test acc a = true \/ exists ts u, Forall2 (valid_tree g) (NT n :: r) ts /\ yields ts = a :: u).
      { intros Ho. apply tf_bset_or_test in Ho. destruct Ho as [Ho|Ho]; [left; exact Ho|right].
        destruct (Hnf n a Hn Ho) as (t & u & Ht & Hy). destruct (prod_trees g Hprod r Hr') as [ts Hts].
        exists (t :: ts), (u ++ yields ts). split; [constructor; assumption|]. cbn. rewrite Hy. reflexivity. }
      destruct (bset_test ne n) eqn:En; [|apply Hor; exact H].
      destruct (IH Hr' _ _ H) as [Ho|(ts & u & Hts & Hy)]; [apply Hor; exact Ho|right].
      destruct (Hne n En) as (t & Ht & Hyt).
      exists (t :: ts), u. split; [constructor; assumption|]. cbn. rewrite Hyt. exact Hy.
  Qed.

  Lemma first_pass_just ne : ne_just ne -> forall ris, (forall ri, In ri ris -> In ri (rule_infos g)) ->
    forall nf ch, nf_just nf -> nf_just (fst (first_pass g ne ris nf ch)).
  Proof.
    intros Hne. induction ris as [|ri ris IH]; intros Hin nf ch Hj; cbn [first_pass]; [exact Hj|].
    apply IH; [intros; apply Hin; right; assumption|].
    pose proof (Hin ri (or_introl eq_refl)) as Hri.
    destruct (rule_of_In ri Hri) as [Hrule Hfn]. rewrite Hfn.
    intros l a Hl Ha.
    destruct (Nat.eq_dec (ri_l ri) l) as [E|E]; [|rewrite nth_update_neq in Ha by exact E; apply Hj; assumption].
    destruct (Nat.lt_ge_cases (ri_l ri) (length nf)) as [Hlt|Hge];
      [|rewrite update_oob in Ha by exact Hge; apply Hj; assumption].
    subst l. rewrite nth_update_eq in Ha by exact Hlt.
    destruct (fos_just ne nf Hne Hj _ (rule_nts_reachable ri Hri Hl) _ _ Ha) as [Hb|(ts & u & Hts & Hy)].
    - apply Hj; assumption.
    - exists (Node (ri_r ri) ts), u. split; [econstructor; eassumption|exact Hy].
  Qed.

  Lemma first_iter_just ne : ne_just ne -> forall fuel nf, nf_just nf -> nf_just (first_iter fuel g ne nf).
  Proof.
    intros Hne. induction fuel as [|f IH]; intros nf Hj; cbn [first_iter]; [exact Hj|].
    pose proof (first_pass_just ne Hne (rule_infos g) (fun _ H => H) nf false Hj) as Hp.
    destruct (first_pass g ne (rule_infos g) nf false) as [nf' ch]. cbn [fst] in Hp.
    destruct ch; [apply IH|]; exact Hp.
  Qed.

  Lemma nterm_first_just ne : ne_just ne -> nf_just (nterm_first g ne).
  Proof.
    intros Hne. unfold nterm_first. apply first_iter_just; [exact Hne|].
    intros l a _ Ha. rewrite tf_nth_repeat, tf_bset_empty_test in Ha. discriminate.
  Qed.

  (* ---------- FIRST(beta t), as the validator and the generator compute it ---------- *)
  Theorem first_tail_just beta t b : nts_reachable g beta ->
    bset_test (first_tail g (nterm_empty g) (nterm_first g (nterm_empty g)) beta t) b = true ->
    (exists ts u, Forall2 (valid_tree g) beta ts /\ yields ts = b :: u) \/
    (b = t /\ exists ts, Forall2 (valid_tree g) beta ts /\ yields ts = []).
  Proof.
    intros Hr H. unfold first_tail in H.
    pose proof nterm_empty_just as Hne. pose proof (nterm_first_just _ Hne) as Hnf.
    assert (Hf : forall b', bset_test (first_of_syms g (nterm_empty g) (nterm_first g (nterm_empty g))
                                                     (bset_empty tc) beta) b' = true ->
                            exists ts u, Forall2 (valid_tree g) beta ts /\ yields ts = b' :: u).
    { intros b' Hb. destruct (fos_just _ _ Hne Hnf beta Hr _ _ Hb) as [Hb'|Hb']; [|exact Hb'].
      rewrite tf_bset_empty_test in Hb'. discriminate. }
    destruct (all_nullable (nterm_empty g) beta) eqn:En.
    - apply tf_bset_test_set in H. destruct H as [->|H]; [|left; apply Hf; exact H].
      right. split; [reflexivity|]. apply (nullable_trees _ _ Hne En).
    - left. apply Hf. exact H.
  Qed.
End FirstSound.

Print Assumptions first_tail_just.
