(* S2: the closure loop. With the generator's fuel the result of close_loop is closed under closure_children,
   extends the input list, has no duplicates, consists of well-formed items, and passes the validator's
   closure check (closure_ok). *)
Require Import Ctpg.Base.Prelude Ctpg.Model.Grammar Ctpg.Model.LRGen Ctpg.Valid.LRValid
               Ctpg.Proofs.LRReflect Ctpg.Proofs.LRValidFacts Ctpg.Proofs.GenLists Ctpg.Proofs.GenWf.

(* ---------- add_item ---------- *)

Lemma add_item_In l x y : In y (add_item l x) <-> In y l \/ y = x.
Proof.
  unfold add_item. destruct (mem_item x l) eqn:E.
  - apply mem_item_In in E. split; [auto|]. intros [H|H]; subst; assumption.
  - rewrite in_app_iff. cbn. split; intros [H|H]; auto. destruct H; [subst; auto|contradiction].
Qed.

Lemma add_item_ext l x : exists e, add_item l x = l ++ e /\ (forall y, In y e -> y = x).
Proof.
  unfold add_item. destruct (mem_item x l).
  - exists []. rewrite app_nil_r. split; [reflexivity|]. intros ? [].
  - exists [x]. split; [reflexivity|]. intros y [H|[]]; auto.
Qed.

Lemma NoDup_snoc {A} (l : list A) x : NoDup l -> ~ In x l -> NoDup (l ++ [x]).
Proof.
  intros H Hx. induction H as [|y l Hy H IH]; cbn.
  - constructor; [tauto|constructor].
  - constructor.
    + rewrite in_app_iff. cbn. intros [Hc|[Hc|[]]]; [contradiction|]. subst. apply Hx. cbn; auto.
    + apply IH. intros Hc. apply Hx. cbn; auto.
Qed.

Lemma add_item_NoDup l x : NoDup l -> NoDup (add_item l x).
Proof.
  intros H. unfold add_item. destruct (mem_item x l) eqn:E; [assumption|].
  apply NoDup_snoc; [assumption|]. intros Hc. apply mem_item_In in Hc. congruence.
Qed.

Lemma add_item_mem l x : In x l -> add_item l x = l.
Proof. intros H. unfold add_item. apply mem_item_In in H. rewrite H. reflexivity. Qed.

Lemma fold_add_In xs : forall l y, In y (fold_left add_item xs l) <-> In y l \/ In y xs.
Proof.
  induction xs as [|x xs IH]; intros l y; cbn.
  - tauto.
  - rewrite IH, add_item_In. intuition.
Qed.

Lemma fold_add_ext xs : forall l, exists e, fold_left add_item xs l = l ++ e /\ (forall y, In y e -> In y xs).
Proof.
  induction xs as [|x xs IH]; intros l; cbn.
  - exists []. rewrite app_nil_r. split; [reflexivity|]. intros ? [].
  - destruct (add_item_ext l x) as (e1 & E1 & H1). destruct (IH (add_item l x)) as (e2 & E2 & H2).
    exists (e1 ++ e2). rewrite E2, E1, app_assoc. split; [reflexivity|].
    intros y Hy. apply in_app_iff in Hy. destruct Hy as [Hy|Hy]; [left; symmetry; auto|right; auto].
Qed.

Lemma fold_add_NoDup xs : forall l, NoDup l -> NoDup (fold_left add_item xs l).
Proof. induction xs as [|x xs IH]; intros l H; cbn; [assumption|]. apply IH. apply add_item_NoDup. assumption. Qed.

Lemma fold_add_subset xs : forall l, (forall x, In x xs -> In x l) -> fold_left add_item xs l = l.
Proof.
  induction xs as [|x xs IH]; intros l H; cbn; [reflexivity|].
  rewrite add_item_mem by (apply H; cbn; auto). apply IH. intros; apply H; cbn; auto.
Qed.

(* ---------- well-formed items ---------- *)

Definition item_okP (g : grammar) (i : item) : Prop :=
  it_r i < rule_count g /\ it_d i <= ri_n (get_ri g (it_r i)) /\ it_t i < term_count g.

Lemma item_ok_P g i : item_ok g i = true <-> item_okP g i.
Proof.
  unfold item_ok, item_okP. rewrite !andb_true_iff, !Nat.ltb_lt, Nat.leb_le. tauto.
Qed.

Lemma bset_test_set s i j : bset_test (bset_set s i) j = true -> j = i \/ bset_test s j = true.
Proof.
  unfold bset_test, bset_set. revert i j; induction s as [|b s IH]; intros [|i] [|j] H; cbn in *; auto.
  destruct (IH _ _ H); auto.
Qed.

Section Closure.
  Variable g : grammar.
  Hypothesis WF : wf_facts g.
  Hypothesis WFX : wfx_facts g.
  Variable ne : bset.
  Variable nf : list bset.

  Lemma item_rhs_n i : it_r i < rule_count g ->
    firstn (ri_n (get_ri g (it_r i))) (get_rhs g (ri_r (get_ri g (it_r i)))) = rhs_of g i.
  Proof. intros H. unfold rhs_of. apply wf_firstn_rhs; assumption. Qed.

  Lemma item_n_length i : it_r i < rule_count g -> ri_n (get_ri g (it_r i)) = length (rhs_of g i).
  Proof. intros H. unfold rhs_of. apply (wf_ri _ WF). assumption. Qed.

  Lemma next_sym_complete i : it_r i < rule_count g ->
    (is_complete g i = true <-> next_sym g i = None).
  Proof.
    intros H. unfold is_complete, next_sym. rewrite Nat.leb_le, (item_n_length i H). symmetry. apply nth_error_None.
  Qed.

  Lemma next_sym_ok i x : it_r i < rule_count g -> next_sym g i = Some x ->
    sym_ok g x = true /\ x <> NT (fake_root_idx g) /\ x <> T (eof_idx g).
  Proof.
    intros H Hx. apply (wf_sym _ WF (rhs_of g i) x).
    - unfold rhs_of. apply wf_rhs_in; assumption.
    - eapply nth_error_In. exact Hx.
  Qed.

  (* the shape of closure_children *)
  Lemma closure_children_In i y : In y (closure_children g ne nf i) ->
    exists nt k t,
      next_sym g i = Some (NT nt) /\ is_complete g i = false /\
      k < snd (nth nt (slices g) (0, 0)) /\ y = mkItem (fst (nth nt (slices g) (0, 0)) + k) 0 t /\
      (t < term_count g \/ t = it_t i).
  Proof.
    unfold closure_children, next_sym, rhs_of, is_complete.
    destruct (Nat.leb (ri_n (get_ri g (it_r i))) (it_d i)) eqn:E; [intros []|].
    destruct (nth_error (get_rhs g (ri_r (get_ri g (it_r i)))) (it_d i)) as [[a|nt]|] eqn:En; try (intros []).
    destruct (nth nt (slices g) (0, 0)) as [st n] eqn:Esl. cbn [fst snd].
    intros H. apply in_app_iff in H. destruct H as [H|H].
    - apply in_flat_map in H. destruct H as (t & Ht & H). apply in_seq in Ht.
      destruct (bset_test _ t); [|destruct H]. apply in_map_iff in H. destruct H as (k & <- & Hk).
      apply in_seq in Hk. exists nt, k, t. rewrite Esl; cbn [fst snd]. repeat split; auto; lia.
    - destruct (_ && _); [|destruct H]. apply in_map_iff in H. destruct H as (k & <- & Hk).
      apply in_seq in Hk. exists nt, k, (it_t i). rewrite Esl; cbn [fst snd]. repeat split; auto; lia.
  Qed.

  Lemma closure_children_ok i y : item_okP g i -> In y (closure_children g ne nf i) ->
    item_okP g y /\ it_d y = 0 /\ it_r y <> root_rule_idx g.
  Proof.
    intros (Hr & Hd & Ht) H. destruct (closure_children_In _ _ H) as (nt & k & t & Hn & _ & Hk & -> & Ht').
    destruct (next_sym_ok _ _ Hr Hn) as (Hs & Hfr & _). cbn in Hs. apply Nat.ltb_lt in Hs.
    pose proof (wfx_slice _ WFX nt Hs) as Hb.
    assert (fst (nth nt (slices g) (0, 0)) + k < rule_count g) as Hlt by lia.
    split; [|split]; cbn.
    - unfold item_okP; cbn. repeat split; [assumption|lia|destruct Ht'; subst; assumption].
    - reflexivity.
    - intros E. assert (ri_l (get_ri g (fst (nth nt (slices g) (0, 0)) + k)) = nt) as El.
      { apply (wf_slice _ WF nt _ Hs Hlt). lia. }
      rewrite E, (wf_root_l _ WF) in El. apply Hfr. rewrite El. reflexivity.
  Qed.

  (* closure_children yields everything closure_ok asks for *)
  Lemma closure_children_complete i b k t' :
    item_okP g i -> next_sym g i = Some (NT b) ->
    k < snd (nth b (slices g) (0, 0)) -> t' < term_count g ->
    bset_test (first_tail g ne nf (skipn (S (it_d i)) (rhs_of g i)) (it_t i)) t' = true ->
    In (mkItem (fst (nth b (slices g) (0, 0)) + k) 0 t') (closure_children g ne nf i).
  Proof.
    intros (Hr & Hd & Ht) Hn Hk Ht' Hf.
    assert (is_complete g i = false) as Hc.
    { destruct (is_complete g i) eqn:E; [|reflexivity]. apply (next_sym_complete i Hr) in E. congruence. }
    unfold closure_children. unfold is_complete in Hc. rewrite Hc.
    unfold next_sym, rhs_of in Hn. rewrite Hn.
    unfold slice_empty, slice_first. rewrite (item_rhs_n i Hr).
    destruct (nth b (slices g) (0, 0)) as [st n]. cbn [fst snd] in *.
    set (beta := skipn (S (it_d i)) (rhs_of g i)) in *.
    set (f := first_of_syms g ne nf (bset_empty (term_count g)) beta) in *.
    apply in_app_iff. unfold first_tail in Hf. fold f in Hf.
    assert (In (mkItem (st + k) 0 t')
               (flat_map (fun t => if bset_test f t then map (fun k0 => mkItem (st + k0) 0 t) (seq 0 n) else [])
                         (seq 0 (term_count g))) <-> bset_test f t' = true) as Hfm.
    { rewrite in_flat_map. split.
      - intros (t & Hts & Hin). destruct (bset_test f t) eqn:E; [|destruct Hin].
        apply in_map_iff in Hin. destruct Hin as (k0 & Ek & _). inversion Ek; subst. assumption.
      - intros E. exists t'. split; [apply in_seq; lia|]. rewrite E. apply in_map_iff. exists k.
        split; [reflexivity|apply in_seq; lia]. }
    destruct (bset_test f t') eqn:Eft; [left; apply Hfm; reflexivity|].
    right. destruct (all_nullable ne beta) eqn:Ean; [|congruence].
    apply bset_test_set in Hf. destruct Hf as [->|Hf]; [|congruence].
    rewrite Eft. cbn. apply in_map_iff. exists k. split; [reflexivity|apply in_seq; lia].
  Qed.

  (* ---------- the bound on the number of distinct well-formed items ---------- *)

  Lemma item_idx_lt i : item_okP g i -> item_idx g i < address_space g.
  Proof.
    intros (Hr & Hd & Ht). pose proof (wfx_elems _ WFX _ Hr) as He.
    unfold item_idx, address_space, situation_size.
    set (ss := max_elems g + 1). set (tc := term_count g).
    assert (it_d i < ss) as Hd' by (unfold ss; lia).
    assert (it_r i * ss * tc + it_d i * tc + it_t i < (it_r i * ss + it_d i + 1) * tc) as H1 by (fold tc in Ht; nia).
    assert ((it_r i * ss + it_d i + 1) * tc <= (rule_count g * ss) * tc) as H2.
    { apply Nat.mul_le_mono_r. nia. }
    lia.
  Qed.

  Lemma item_idx_inj i j : item_okP g i -> item_okP g j -> item_idx g i = item_idx g j -> i = j.
  Proof.
    intros (Hr & Hd & Ht) (Hr' & Hd' & Ht') E.
    pose proof (wfx_elems _ WFX _ Hr) as He. pose proof (wfx_elems _ WFX _ Hr') as He'.
    unfold item_idx, situation_size in E.
    set (ss := max_elems g + 1) in *. set (tc := term_count g) in *.
    assert (tc * (it_r i * ss + it_d i) + it_t i = tc * (it_r j * ss + it_d j) + it_t j) as E1 by lia.
    apply Nat.div_mod_unique in E1; [|assumption|assumption]. destruct E1 as [E1 E2].
    assert (ss * it_r i + it_d i = ss * it_r j + it_d j) as E3 by lia.
    apply Nat.div_mod_unique in E3; [|unfold ss; lia|unfold ss; lia]. destruct E3 as [E3 E4].
    destruct i, j; cbn in *; subst; reflexivity.
  Qed.

  Lemma items_length_bound l : NoDup l -> Forall (item_okP g) l -> length l <= address_space g.
  Proof.
    intros Hnd Hok. rewrite <- (map_length (item_idx g) l). apply NoDup_bounded_length.
    - apply NoDup_map_inj; [|assumption]. rewrite Forall_forall in Hok.
      intros x y Hx Hy. apply item_idx_inj; auto.
    - intros x Hx. apply in_map_iff in Hx. destruct Hx as (i & <- & Hi). apply item_idx_lt.
      rewrite Forall_forall in Hok. auto.
  Qed.

  (* ---------- the loop ---------- *)

  Definition new_item (y : item) : Prop := it_d y = 0 /\ it_r y <> root_rule_idx g.
  Definition closed_at (all : list item) (x : item) : Prop :=
    forall y, In y (closure_children g ne nf x) -> In y all.

  Lemma close_loop_spec fuel : forall all i,
    NoDup all -> Forall (item_okP g) all ->
    (forall j x, j < i -> nth_error all j = Some x -> closed_at all x) ->
    address_space g < fuel + i ->
    let res := close_loop fuel g ne nf all i in
    (exists ext, res = all ++ ext /\ Forall new_item ext) /\
    NoDup res /\ Forall (item_okP g) res /\ (forall x, In x res -> closed_at res x).
  Proof.
    induction fuel as [|f IH]; intros all i Hnd Hok Hcl Hf; cbn [close_loop].
    - cbn zeta. split; [exists []; rewrite app_nil_r; auto|]. split; [assumption|]. split; [assumption|].
      intros x Hx. destruct (In_nth _ _ x Hx) as (j & Hj & Ej).
      pose proof (items_length_bound _ Hnd Hok). apply (Hcl j); [lia|].
      rewrite <- Ej. apply nth_error_nth'. assumption.
    - destruct (nth_error all i) as [x|] eqn:Ex.
      + set (ch := closure_children g ne nf x).
        destruct (fold_add_ext ch all) as (e & Ee & He).
        assert (item_okP g x) as Hxok.
        { rewrite Forall_forall in Hok. apply Hok. eapply nth_error_In; eassumption. }
        assert (Forall (item_okP g) (fold_left add_item ch all) /\ Forall new_item e) as (Hok' & Hnew).
        { rewrite Ee. split.
          - apply Forall_app. split; [assumption|]. apply Forall_forall. intros y Hy.
            apply (closure_children_ok x y Hxok). apply He. assumption.
          - apply Forall_forall. intros y Hy. apply (closure_children_ok x y Hxok). apply He. assumption. }
        destruct (IH (fold_left add_item ch all) (S i)) as ((ext & Eext & Hext) & B & C & D).
        * apply fold_add_NoDup. assumption.
        * assumption.
        * intros j z Hj Hz y Hy. apply fold_add_In.
          destruct (Nat.eq_dec j i) as [->|Hne].
          -- rewrite Ee in Hz. rewrite (nth_error_app_l _ e _ _ Ex) in Hz. inversion Hz; subst z. right. exact Hy.
          -- assert (j < length all) as Hjl by (apply nth_error_Some_lt in Ex; lia).
             rewrite Ee, nth_error_app1 in Hz by assumption. left. apply (Hcl j z); [lia|assumption|assumption].
        * lia.
        * cbn zeta. split; [|auto]. exists (e ++ ext). rewrite Eext, Ee, app_assoc. split; [reflexivity|].
          apply Forall_app. auto.
      + cbn zeta. split; [exists []; rewrite app_nil_r; auto|]. split; [assumption|]. split; [assumption|].
        intros x Hx. destruct (In_nth _ _ x Hx) as (j & Hj & Ej). apply nth_error_None in Ex.
        apply (Hcl j); [lia|]. rewrite <- Ej. apply nth_error_nth'. assumption.
  Qed.

  (* ---------- the validator's closure check on a list of items ---------- *)

  Definition closure_ok_list (its : list item) : bool :=
    forallb (fun i =>
      match next_sym g i with
      | Some (NT b) =>
          if is_complete g i then true else
          let beta := skipn (S (it_d i)) (rhs_of g i) in
          let f := first_tail g ne nf beta (it_t i) in
          let '(st, n) := nth b (slices g) (0, 0) in
          forallb (fun k => forallb (fun t' => negb (bset_test f t') || mem_item (mkItem (st + k) 0 t') its)
                                    (seq 0 (term_count g))) (seq 0 n)
      | _ => true
      end) its.

  Lemma closure_ok_is_list sts s : closure_ok g sts ne nf s = closure_ok_list (state_items sts s).
  Proof. reflexivity. Qed.

  Lemma closed_closure_ok its :
    Forall (item_okP g) its -> (forall x, In x its -> closed_at its x) -> closure_ok_list its = true.
  Proof.
    intros Hok Hcl. unfold closure_ok_list. apply forallb_forall. intros i Hi.
    destruct (next_sym g i) as [[a|b]|] eqn:En; try reflexivity.
    destruct (is_complete g i); [reflexivity|].
    destruct (nth b (slices g) (0, 0)) as [st n] eqn:Esl.
    apply forallb_forall. intros k Hk. apply in_seq in Hk.
    apply forallb_forall. intros t' Ht'. apply in_seq in Ht'.
    destruct (bset_test _ t') eqn:Et; [|reflexivity]. cbn [negb orb].
    apply mem_item_In. apply (Hcl i Hi).
    rewrite Forall_forall in Hok.
    pose proof (closure_children_complete i b k t' (Hok i Hi) En) as H. rewrite Esl in H. cbn [fst snd] in H.
    apply H; [lia|lia|assumption].
  Qed.

  (* the closure phase of one state *)
  Theorem close_loop_closure_ok all :
    NoDup all -> Forall (item_okP g) all ->
    let res := close_loop (S (address_space g)) g ne nf all 0 in
    closure_ok_list res = true /\ NoDup res /\ Forall (item_okP g) res /\
    (forall x, In x res -> closed_at res x) /\
    exists ext, res = all ++ ext /\ Forall new_item ext.
  Proof.
    intros Hnd Hok.
    destruct (close_loop_spec (S (address_space g)) all 0 Hnd Hok) as (A & B & C & D).
    - intros j x Hj. lia.
    - lia.
    - cbn zeta. split; [apply closed_closure_ok; assumption|]. auto.
  Qed.
End Closure.
