(* R1: failures are reported once and never silently (generic driver).
   With an empty error column ([no_error_symbol]) the two messages the driver writes regardless of options.verbose
   ([EvSyntaxError], [EvUnexpectedChar]) occur at most once in a run, never in an accepting run, and -- when the table
   has no SHIFT_ERROR cell outside the error column -- exactly once in a rejecting run.  After the syntax error every
   iteration is a stack pop; after an unexpected character the run stops at once. *)
Require Import Ctpg.Base.Prelude Ctpg.Model.Grammar Ctpg.Model.LRGen Ctpg.Model.Driver Ctpg.Valid.LRValid.
Require Import Ctpg.Proofs.DriverBasics Ctpg.Proofs.LRValidFacts.

(* the lines written regardless of verbosity *)
Definition nv (l : list event) : list event := filter is_nonverbose l.

Lemma nv_app a b : nv (a ++ b) = nv a ++ nv b.
Proof. apply filter_app. Qed.

Lemma nv_lex lx : nv (map EvLex lx) = [].
Proof. induction lx as [|x lx IH]; cbn; [reflexivity|exact IH]. Qed.

Lemma nv_visible opts ev : nv (filter (visible opts) ev) = nv ev.
Proof.
  induction ev as [|e ev IH]; cbn; [reflexivity|].
  unfold visible at 1. destruct (is_nonverbose e) eqn:E.
  - rewrite orb_true_r. cbn. rewrite E. f_equal. exact IH.
  - destruct (o_verbose opts); cbn; [rewrite E|]; exact IH.
Qed.

(* with verbose off the stream consists of these lines only *)
Lemma quiet_visible opts ev : o_verbose opts = false -> filter (visible opts) ev = nv ev.
Proof. intros H. apply filter_ext. intros e. unfold visible. rewrite H. reflexivity. Qed.

Lemma nv_idem l : nv (nv l) = nv l.
Proof.
  induction l as [|e l IH]; cbn; [reflexivity|]. destruct (is_nonverbose e) eqn:E; cbn; [rewrite E; f_equal|]; exact IH.
Qed.

(* hypotheses on the table, as propositions about [cell] *)
Definition err_col_error (g : grammar) (tbl : table) : Prop :=
  forall st e, cell tbl st (nterm_count g + err_idx g) = inl e -> e_kind e = KError.
(* SHIFT_ERROR occurs in the error symbol's column only (true of every table the generator writes, and of every
   row the validator checks) *)
Definition shifterr_only_err_col (g : grammar) (tbl : table) : Prop :=
  forall st t e, cell tbl st (nterm_count g + t) = inl e -> e_kind e = KShiftErr -> t = err_idx g.
Definition shifterr_only_err_colb (g : grammar) (tbl : table) : bool :=
  forallb (fun row => forallb (fun c => match nth_error row c with
                                        | Some e => negb (kind_eqb (e_kind e) KShiftErr) || Nat.eqb c (nterm_count g + err_idx g)
                                        | None => true
                                        end) (seq 0 (length row))) tbl.

Lemma shifterr_only_err_colb_ok g tbl : shifterr_only_err_colb g tbl = true -> shifterr_only_err_col g tbl.
Proof.
  intros H st t e Hc Hk. unfold cell in Hc.
  destruct (nth_error tbl st) as [row|] eqn:Hr; [|discriminate].
  destruct (nth_error row (nterm_count g + t)) as [e'|] eqn:He; [|discriminate]. inversion Hc; subst e'.
  unfold shifterr_only_err_colb in H. rewrite forallb_forall in H. specialize (H row (nth_error_In _ _ Hr)).
  rewrite forallb_forall in H.
  assert (Hlt : nterm_count g + t < length row) by (apply nth_error_Some; congruence).
  specialize (H (nterm_count g + t)). rewrite He, Hk in H. cbn in H.
  assert (Hin : In (nterm_count g + t) (seq 0 (length row))) by (apply in_seq; lia).
  apply H in Hin. apply Nat.eqb_eq in Hin. lia.
Qed.

Section Report.
  Variables V C : Type.
  Variable g : grammar.
  Variable tbl : table.
  Variable opts : options.
  Variable buf : list nat.
  Variable cap : option nat.
  Variable lexer : bool -> spoint -> list nat -> list lex_event * option (nat * nat).
  Variable term_f : nat -> nat -> nat -> spoint -> V.
  Variable err_f : spoint -> V.
  Variable rule_f : nat -> C -> list V -> C * V.

  Notation pst := (pstate V C).
  Notation stepx := (step V C g tbl opts buf cap lexer term_f err_f rule_f).
  Notation actx := (act V C g tbl buf cap term_f err_f rule_f).
  Notation gctx := (get_current_term V C g opts buf lexer).
  Notation gspec := (gct_spec V C g opts buf lexer).
  Notation reducex := (do_reduce V C g tbl cap rule_f).
  Notation consumex := (consume_term V C buf).
  Notation run_fromx := (run_from V C g tbl opts buf cap lexer term_f err_f rule_f).
  Notation run_ghx := (run_gh V C g tbl opts buf cap lexer term_f err_f rule_f).
  Notation runx := (run V C g tbl opts buf cap lexer term_f err_f rule_f).
  Notation outcome := ((pst + result V * pst) * list event)%type.

  Lemma nv_lc (s1 : pst) : nv (lc s1) = [].
  Proof. unfold lc. destruct (ps_cons s1); reflexivity. Qed.

  (* the pending lexeme of s' is that of s1, or there is none *)
  Definition same_pending (s1 s' : pst) : Prop :=
    ps_it s' = ps_end s' \/ (ps_it s' = ps_it s1 /\ ps_end s' = ps_end s1 /\ ps_term s' = ps_term s1).
  (* a pending lexeme has a term: holds of every loop-head state of a run *)
  Definition term_inv (s : pst) : Prop := ps_it s = ps_end s \/ ps_term s <> None.

  Lemma same_pending_inv s1 s' : term_inv s1 -> same_pending s1 s' -> term_inv s'.
  Proof. unfold term_inv, same_pending. intros [H|H] [H'|(H1 & H2 & H3)]; auto; [left|right]; congruence. Qed.

  (* ---------- act, by the kind of the cell it reads ---------- *)
  Inductive act_rep (s1 : pst) (cursor t : nat) : outcome -> Prop :=
  | ArCrash c :
      cell tbl cursor (nterm_count g + t) = inr c -> act_rep s1 cursor t (inr (Crash c, s1), [])
  | ArConsume e :
      cell tbl cursor (nterm_count g + t) = inl e -> e_kind e = KError ->
      ps_cons s1 = true -> ps_term s1 <> Some (eof_idx g) ->
      act_rep s1 cursor t (inl (consumex s1), [EvConsuming (ps_sp s1) (term_or0 s1)])
  | ArConsEof e :
      cell tbl cursor (nterm_count g + t) = inl e -> e_kind e = KError ->
      ps_cons s1 = true -> ps_term s1 = Some (eof_idx g) ->
      act_rep s1 cursor t (inr (Reject, s1), [])
  | ArEnter e :
      cell tbl cursor (nterm_count g + t) = inl e -> e_kind e = KError ->
      ps_cons s1 = false -> ps_rec s1 = false ->
      act_rep s1 cursor t (inl (set_modes s1 true (ps_cons s1)),
                           [EvSyntaxError (ps_sp s1) (term_or0 s1); EvEnterRecovery (ps_sp s1)])
  | ArPop e top cs :
      cell tbl cursor (nterm_count g + t) = inl e -> e_kind e = KError ->
      ps_cons s1 = false -> ps_rec s1 = true -> tl (ps_cursors s1) = top :: cs ->
      act_rep s1 cursor t (inl (set_stacks s1 (tl (ps_cursors s1)) (tl (ps_values s1))), [EvRecoveringTo (ps_sp s1) top])
  | ArPopFail e :
      cell tbl cursor (nterm_count g + t) = inl e -> e_kind e = KError ->
      ps_cons s1 = false -> ps_rec s1 = true -> tl (ps_cursors s1) = [] ->
      act_rep s1 cursor t (inr (Reject, set_stacks s1 (tl (ps_cursors s1)) (tl (ps_values s1))), [EvCouldNotRecover (ps_sp s1)])
  | ArShiftErr e o ev :
      cell tbl cursor (nterm_count g + t) = inl e -> e_kind e = KShiftErr -> nv ev = [] ->
      match o with
      | inl s' => ps_rec s' = false /\ ps_cons s' = true /\ same_pending s1 s'
      | inr (r, _) => r <> Reject /\ forall v, r <> Accept v
      end ->
      act_rep s1 cursor t (o, ev)
  | ArOther e o ev :
      cell tbl cursor (nterm_count g + t) = inl e -> e_kind e <> KError -> e_kind e <> KShiftErr -> nv ev = [] ->
      match o with
      | inl s' => ps_rec s' = ps_rec s1 /\ ps_cons s' = false /\ same_pending s1 s'
      | inr (r, _) => r <> Reject
      end ->
      act_rep s1 cursor t (o, ev).

  Lemma nv_lc_app (s1 : pst) l : nv (lc s1 ++ l) = nv l.
  Proof. rewrite nv_app, nv_lc. reflexivity. Qed.

  Lemma reduce_modes s r s3 ev : reducex s r = inl (s3, ev) ->
    ps_rec s3 = ps_rec s /\ ps_cons s3 = ps_cons s /\ nv ev = [] /\
    ps_it s3 = ps_it s /\ ps_end s3 = ps_end s /\ ps_term s3 = ps_term s.
  Proof.
    intros H. destruct (do_reduce_inl H) as (ri & nst & c' & v & _ & _ & _ & _ & -> & ->). cbn. repeat split; auto.
  Qed.

  Lemma reduce_not_reject s r res : reducex s r = inr res -> res <> Reject.
  Proof. intros H ->. apply do_reduce_inr in H. exact H. Qed.

  Lemma act_rep_holds s1 cursor t : act_rep s1 cursor t (actx s1 cursor t).
  Proof.
    unfold act.
    destruct (cell tbl cursor (nterm_count g + t)) as [e|c] eqn:Hcell.
    2:{ apply ArCrash. exact Hcell. }
    fold (clr s1). fold (lc s1).
    destruct (e_kind e) eqn:Hk.
    - (* KError *)
      destruct (ps_cons s1) eqn:Hcons.
      + destruct (ps_term s1) as [x|] eqn:Hterm.
        * destruct (Nat.eqb x (eof_idx g)) eqn:Hx.
          -- apply Nat.eqb_eq in Hx. subst x. eapply ArConsEof; eauto.
          -- eapply ArConsume; eauto. apply Nat.eqb_neq in Hx. congruence.
        * eapply ArConsume; eauto. congruence.
      + destruct (ps_rec s1) eqn:Hrec; cbn [negb].
        * unfold pop_stacks. destruct (tl (ps_cursors s1)) as [|top cs] eqn:Htl.
          -- rewrite <- Htl. eapply ArPopFail; eauto.
          -- rewrite <- Htl. eapply ArPop; eauto.
        * rewrite <- Hcons at 1. eapply ArEnter; eauto.
    - (* KSuccess *)
      destruct (rev (ps_values (clr s1))) as [|v rest];
        (eapply ArOther; [exact Hcell|congruence|congruence|rewrite nv_lc_app; reflexivity|discriminate]).
    - (* KShift *)
      destruct (e_arg e) as [nst|].
      2:{ eapply ArOther; [exact Hcell|congruence|congruence|apply nv_lc|discriminate]. }
      destruct (full cap (length (ps_cursors (clr s1)))).
      { eapply ArOther; [exact Hcell|congruence|congruence|rewrite nv_lc_app; reflexivity|discriminate]. }
      destruct (Nat.ltb (length buf) (ps_end (clr s1))).
      { eapply ArOther; [exact Hcell|congruence|congruence|rewrite nv_lc_app; reflexivity|discriminate]. }
      eapply ArOther; [exact Hcell|congruence|congruence|rewrite nv_lc_app; reflexivity|].
      simp_ps. repeat split; auto. left. reflexivity.
    - (* KShiftErr *)
      destruct (e_arg e) as [nst|].
      2:{ eapply ArShiftErr; [exact Hcell|assumption|apply nv_lc|split; [discriminate|intros v; discriminate]]. }
      destruct (full cap (length (ps_cursors (clr s1)))).
      { eapply ArShiftErr; [exact Hcell|assumption|rewrite nv_lc_app; reflexivity|split; [discriminate|intros v; discriminate]]. }
      eapply ArShiftErr; [exact Hcell|assumption| |].
      + rewrite nv_app, nv_lc_app. reflexivity.
      + simp_ps. repeat split; auto. right. auto.
    - (* KReduce *)
      destruct (e_arg e) as [r|].
      2:{ eapply ArOther; [exact Hcell|congruence|congruence|apply nv_lc|discriminate]. }
      destruct (reducex (clr s1) r) as [[s3 ev]|res] eqn:Hred.
      + destruct (reduce_modes _ _ _ _ Hred) as (H1 & H2 & H3 & H4 & H5 & H6).
        eapply ArOther; [exact Hcell|congruence|congruence|rewrite nv_lc_app; exact H3|].
        rewrite H1, H2, clr_rec, clr_cons. repeat split; auto. right. rewrite H4, H5, H6, clr_it, clr_end, clr_term. auto.
      + eapply ArOther; [exact Hcell|congruence|congruence|apply nv_lc|]. eapply reduce_not_reject; eassumption.
    - (* KRR *)
      destruct (e_arg e) as [r|].
      2:{ eapply ArOther; [exact Hcell|congruence|congruence|rewrite nv_lc_app; reflexivity|discriminate]. }
      destruct (reducex (clr s1) r) as [[s3 ev]|res] eqn:Hred.
      + destruct (reduce_modes _ _ _ _ Hred) as (H1 & H2 & H3 & H4 & H5 & H6).
        eapply ArOther; [exact Hcell|congruence|congruence|rewrite nv_lc_app; cbn; exact H3|].
        rewrite H1, H2, clr_rec, clr_cons. repeat split; auto. right. rewrite H4, H5, H6, clr_it, clr_end, clr_term. auto.
      + eapply ArOther; [exact Hcell|congruence|congruence|rewrite nv_lc_app; reflexivity|]. eapply reduce_not_reject; eassumption.
  Qed.

  Lemma step_rep (P : outcome -> Prop) s :
    (ps_cursors s = [] -> P (inr (Crash CrEmptyStack, s), [])) ->
    (forall s1 ev1, gctx s = (s1, None, ev1) -> gspec s (s1, None, ev1) -> P (inr (Reject, s1), ev1)) ->
    (forall cursor cs s1 t ev1 r ev2,
        ps_cursors s = cursor :: cs -> gctx s = (s1, Some t, ev1) -> gspec s (s1, Some t, ev1) ->
        act_rep s1 cursor t (r, ev2) -> P (r, ev1 ++ ev2)) ->
    P (stepx s).
  Proof.
    intros H1 H2 H3. unfold step. destruct (ps_cursors s) as [|cursor cs] eqn:Hcs; [auto|].
    pose proof (gct_spec_holds V C g opts buf lexer s) as Hg. destruct (gctx s) as [[s1 ot] ev1] eqn:E.
    destruct ot as [t|]; [|auto].
    pose proof (act_rep_holds s1 cursor t) as Ha. destruct (actx s1 cursor t) as [r ev2].
    eapply H3; eauto.
  Qed.

  Lemma step_not_oof s s' ev : stepx s <> (inr (OutOfFuel, s'), ev).
  Proof.
    revert s' ev. apply step_cases.
    - discriminate.
    - discriminate.
    - intros cursor cs s1 t ev1 r ev2 _ _ Ha s' ev E. inversion E; subst. inversion Ha; subst. cbn in *. contradiction.
  Qed.

  (* ---------- one iteration, outside and inside recovery mode ---------- *)
  (* the iteration that writes the syntax error: the cell of (top state, current term) is an error cell *)
  Definition enter_at (s s1 : pst) (cursor t : nat) (ev1 : list event) : Prop :=
    (exists cs, ps_cursors s = cursor :: cs) /\ gctx s = (s1, Some t, ev1) /\ nv ev1 = [] /\
    (exists e, cell tbl cursor (nterm_count g + t) = inl e /\ e_kind e = KError) /\
    ps_cons s1 = false /\ ps_rec s1 = false /\ ps_term s1 = Some t.

  Inductive stepA (s : pst) : outcome -> Prop :=
  | SaCont s' ev :
      nv ev = [] -> ps_rec s' = false -> term_inv s' ->
      (shifterr_only_err_col g tbl -> err_col_error g tbl -> ps_cons s = false -> ps_cons s' = false) ->
      stepA s (inl s', ev)
  | SaEnter s1 cursor t ev1 :
      enter_at s s1 cursor t ev1 ->
      stepA s (inl (set_modes s1 true (ps_cons s1)), ev1 ++ [EvSyntaxError (ps_sp s1) t; EvEnterRecovery (ps_sp s1)])
  | SaFinal r s' ev :
      nv ev = [] -> (r = Reject -> ps_cons s = true) -> stepA s (inr (r, s'), ev)
  | SaLexFail s1 pre p c :
      nv pre = [] -> gctx s = (s1, None, pre ++ [EvUnexpectedChar p c]) ->
      stepA s (inr (Reject, s1), pre ++ [EvUnexpectedChar p c]).

  Lemma gct_quiet s s1 t ev1 : gspec s (s1, Some t, ev1) -> nv ev1 = [].
  Proof. intros H; inversion H; subst; try reflexivity. rewrite nv_app, nv_lex. reflexivity. Qed.

  Lemma gct_term_inv s s1 t ev1 : gspec s (s1, Some t, ev1) -> term_inv s -> term_inv s1.
  Proof. intros H Hi; inversion H; subst; auto; right; cbn; discriminate. Qed.

  Lemma stepA_holds s : ps_rec s = false -> term_inv s -> stepA s (stepx s).
  Proof.
    intros Hrec Hti. apply step_rep.
    - intros _. apply SaFinal; [reflexivity|discriminate].
    - intros s1 ev1 Hgeq Hg. inversion Hg; subst.
      + destruct Hti; congruence.
      + apply SaLexFail; [apply nv_lex|assumption].
    - intros cursor cs s1 t ev1 r ev2 Hcs Hgeq Hg Ha.
      pose proof (gct_quiet _ _ _ _ Hg) as Hq.
      pose proof (gct_term_inv _ _ _ _ Hg Hti) as Hti1.
      destruct (gct_stacks Hg) as (_ & _ & _ & Hr1 & Hc1). rewrite Hrec in Hr1.
      destruct (gct_term Hg) as [[Hx _]|[_ Hterm]]; [congruence|].
      inversion Ha; subst.
      + apply SaFinal; [rewrite nv_app, Hq; reflexivity|discriminate].
      + apply SaCont; [rewrite nv_app, Hq; reflexivity|simp_ps; assumption|left; reflexivity|]. intros _ _ Hc. congruence.
      + apply SaFinal; [rewrite nv_app, Hq; reflexivity|]. intros _. congruence.
      + assert (Et : term_or0 s1 = t) by (unfold term_or0; rewrite Hterm; reflexivity). rewrite Et.
        apply SaEnter with (cursor := cursor). unfold enter_at. repeat split; eauto.
      + congruence.
      + congruence.
      + (* shift_error *)
        destruct r as [s'|[r s']].
        * match goal with H : _ /\ _ |- _ => destruct H as (Hr' & Hc' & Hsp) end.
          apply SaCont; [rewrite nv_app, Hq; assumption|assumption|eapply same_pending_inv; eassumption|].
          intros Hse Herr _. exfalso.
          match goal with Hc : cell _ _ _ = inl ?e, Hk : e_kind ?e = KShiftErr |- _ =>
            pose proof (Hse _ _ _ Hc Hk) as Et; subst t; rewrite (Herr _ _ Hc) in Hk; discriminate end.
        * match goal with H : _ /\ _ |- _ => destruct H as [Hr' _] end.
          apply SaFinal; [rewrite nv_app, Hq; assumption|]. intros E. contradiction.
      + destruct r as [s'|[r s']].
        * match goal with H : _ /\ _ |- _ => destruct H as (Hr' & Hc' & Hsp) end.
          apply SaCont; [rewrite nv_app, Hq; assumption|congruence|eapply same_pending_inv; eassumption|]. intros _ _ _. assumption.
        * apply SaFinal; [rewrite nv_app, Hq; assumption|]. intros E. contradiction.
  Qed.

  (* an iteration in recovery mode with an empty error column: pop one state, or give up *)
  Inductive popish (s : pst) : outcome -> Prop :=
  | PoPop top cs :
      tl (ps_cursors s) = top :: cs ->
      popish s (inl (set_stacks s (tl (ps_cursors s)) (tl (ps_values s))), [EvRecoveringTo (ps_sp s) top])
  | PoFail :
      (exists cur, ps_cursors s = [cur]) ->
      popish s (inr (Reject, set_stacks s (tl (ps_cursors s)) (tl (ps_values s))), [EvCouldNotRecover (ps_sp s)])
  | PoCrash c :
      (* the stack is empty, or its top is not a row of the table / the row is too short *)
      (ps_cursors s = [] /\ c = CrEmptyStack) \/
      (exists cur cs, ps_cursors s = cur :: cs /\ cell tbl cur (nterm_count g + err_idx g) = inr c) ->
      popish s (inr (Crash c, s), []).

  Definition pop_step (s : pst) : Prop := ps_rec s = true /\ ps_cons s = false /\ popish s (stepx s).

  Lemma stepB_holds s : err_col_error g tbl -> ps_rec s = true -> ps_cons s = false -> popish s (stepx s).
  Proof.
    intros Herr Hrec Hcons. apply step_rep.
    - intros Hcs. apply PoCrash. left. auto.
    - intros s1 ev1 _ Hg. inversion Hg; subst; congruence.
    - intros cursor cs s1 t ev1 r ev2 Hcs _ Hg Ha.
      assert (s1 = s /\ t = err_idx g /\ ev1 = []) as (-> & -> & ->).
      { inversion Hg; subst; try congruence. auto. }
      cbn [app].
      inversion Ha; subst; try congruence.
      + apply PoCrash. right. eauto.
      + eapply PoPop. eassumption.
      + apply PoFail. rewrite Hcs in *. cbn in *. subst cs. eauto.
      + match goal with Hc : cell _ _ _ = inl ?e, Hk : e_kind ?e = KShiftErr |- _ =>
          rewrite (Herr _ _ Hc) in Hk; discriminate end.
      + match goal with Hc : cell _ _ _ = inl ?e, Hk : e_kind ?e <> KError |- _ =>
          exfalso; apply Hk; apply (Herr _ _ Hc) end.
  Qed.

  (* ---------- the run ---------- *)
  (* results a run can end with once it is in recovery mode *)
  Definition resB (r : result V) : Prop := r = OutOfFuel \/ r = Reject \/ exists c, r = Crash c.

  Lemma resB_not_accept r : resB r -> forall v, r <> Accept v.
  Proof. intros [->|[->|[c ->]]] v; discriminate. Qed.

  Lemma runB fuel : err_col_error g tbl -> forall s out vis r s' out' vis',
    ps_rec s = true -> ps_cons s = false ->
    run_ghx fuel s out vis = (r, s', out', vis') ->
    exists vis2, vis' = vis ++ vis2 /\ Forall pop_step vis2 /\ nv out' = nv out /\ resB r /\ length vis2 <= fuel /\
                 (r = OutOfFuel -> length vis2 = fuel /\ ps_rec s' = true /\ ps_cons s' = false /\
                                   ps_cursors s' = skipn fuel (ps_cursors s) /\ (fuel = 0 \/ ps_cursors s' <> [])).
  Proof.
    intros Herr. induction fuel as [|f IH]; intros s out vis r s' out' vis' Hrec Hcons Hrun; cbn [run_gh] in Hrun.
    - inversion Hrun; subst. exists []. rewrite app_nil_r. repeat split; auto; try lia. left; reflexivity.
    - pose proof (stepB_holds s Herr Hrec Hcons) as Hp.
      assert (Hps : pop_step s) by (repeat split; assumption).
      destruct (stepx s) as [[s1|[r1 s1]] ev] eqn:Hs.
      + inversion Hp as [top cs Htl| |]; subst.
        apply IH in Hrun; [|exact Hrec|exact Hcons].
        destruct Hrun as (vis2 & -> & Hall & Hout & Hres & Hlen & Hoof).
        exists (s :: vis2). rewrite <- app_assoc. cbn [app].
        split; [reflexivity|]. split; [constructor; assumption|]. split.
        { rewrite Hout, nv_app, nv_visible. cbn. apply app_nil_r. }
        split; [assumption|]. split; [cbn; lia|].
        intros E. destruct (Hoof E) as (H1 & H2 & H3 & H4 & H5). cbn [length].
        split; [lia|]. split; [assumption|]. split; [assumption|]. split.
        * rewrite H4. cbn [ps_cursors set_stacks]. destruct (ps_cursors s); cbn; [rewrite skipn_nil|]; reflexivity.
        * right. destruct H5 as [->|Hne]; [|assumption].
          rewrite H4. cbn [ps_cursors set_stacks skipn]. rewrite Htl. discriminate.
      + inversion Hrun; subst. exists [s].
        split; [reflexivity|]. split; [constructor; [assumption|constructor]|]. split.
        { rewrite nv_app, nv_visible. inversion Hp; subst; cbn; apply app_nil_r. }
        split. { inversion Hp; subst; [right; left; reflexivity|right; right; eauto]. }
        split; [cbn; lia|]. intros ->. inversion Hp.
  Qed.

  Definition quiet_step (s : pst) : Prop := ps_rec s = false /\ nv (snd (stepx s)) = [].
  (* the iteration of loop-head state s writes the syntax error (p, t) *)
  Definition enter_step (s : pst) (p : spoint) (t : nat) : Prop :=
    ps_rec s = false /\
    exists s1 cursor ev1, enter_at s s1 cursor t ev1 /\ p = ps_sp s1 /\
      stepx s = (inl (set_modes s1 true (ps_cons s1)), ev1 ++ [EvSyntaxError p t; EvEnterRecovery p]).

  (* the three shapes of a run *)
  Inductive run_shape (out : list event) (vis : list pst) (r : result V) (s' : pst) (out' : list event) (vis' : list pst) : Prop :=
  | RsQuiet vis2 :
      vis' = vis ++ vis2 -> Forall quiet_step vis2 -> nv out' = nv out -> ps_rec s' = false \/ r <> OutOfFuel ->
      (r = Reject -> exists sl, In sl vis2 /\ ps_cons sl = true) ->
      run_shape out vis r s' out' vis'
  | RsLexFail vis2 sl pre p c :
      vis' = vis ++ vis2 ++ [sl] -> Forall quiet_step vis2 -> ps_rec sl = false ->
      r = Reject -> out' = pre ++ [EvUnexpectedChar p c] -> nv pre = nv out ->
      run_shape out vis r s' out' vis'
  | RsSyntax vis1 se vis2 p t :
      vis' = vis ++ vis1 ++ se :: vis2 -> Forall quiet_step vis1 -> enter_step se p t -> Forall pop_step vis2 ->
      nv out' = nv out ++ [EvSyntaxError p t] -> resB r ->
      (r = OutOfFuel -> ps_rec s' = true /\ ps_cons s' = false) ->
      run_shape out vis r s' out' vis'.

  Lemma runA fuel : err_col_error g tbl -> forall s out vis r s' out' vis',
    ps_rec s = false -> term_inv s ->
    run_ghx fuel s out vis = (r, s', out', vis') -> run_shape out vis r s' out' vis'.
  Proof.
    intros Herr. induction fuel as [|f IH]; intros s out vis r s' out' vis' Hrec Hti Hrun; cbn [run_gh] in Hrun.
    - inversion Hrun; subst. apply RsQuiet with (vis2 := []); auto.
      + symmetry; apply app_nil_r.
      + discriminate.
    - pose proof (stepA_holds s Hrec Hti) as Hp.
      destruct (stepx s) as [[s1|[r1 s1]] ev] eqn:Hs.
      + inversion Hp as [sx evx Hnvx Hrecx Htix Hconsx | s0 cursor t ev1 Hent | | ]; subst.
        * (* quiet iteration *)
          assert (Hq : quiet_step s) by (split; [assumption|rewrite Hs; assumption]).
          apply IH in Hrun; [|assumption|assumption].
          destruct Hrun as [vis2 -> Hall Hout Hres Hrej|vis2 sl pre p c -> Hall Hsl -> -> Hpre|vis1 se vis2 p t -> Hall Hent Hpop Hout Hres Hoof].
          -- apply RsQuiet with (vis2 := s :: vis2); auto.
             ++ rewrite <- app_assoc. reflexivity.
             ++ rewrite Hout, nv_app, nv_visible. rewrite Hnvx. apply app_nil_r.
             ++ intros E. destruct (Hrej E) as (sl & Hin & Hc). exists sl. split; [right; assumption|assumption].
          -- eapply RsLexFail with (vis2 := s :: vis2) (sl := sl) (pre := pre) (p := p) (c := c); auto.
             ++ rewrite <- app_assoc. reflexivity.
             ++ rewrite Hpre, nv_app, nv_visible, Hnvx. apply app_nil_r.
          -- eapply RsSyntax with (vis1 := s :: vis1) (se := se) (vis2 := vis2) (p := p) (t := t); auto.
             ++ rewrite <- app_assoc. reflexivity.
             ++ rewrite Hout, nv_app, nv_visible, Hnvx, app_nil_r. reflexivity.
        * (* the syntax error *)
          pose proof Hent as (_ & _ & Hq1 & _ & Hc1 & _ & _).
          eapply (runB f Herr) in Hrun; [|reflexivity|cbn; assumption].
          destruct Hrun as (vis2 & -> & Hall & Hout & Hres & _ & Hoof).
          eapply RsSyntax with (vis1 := []) (se := s) (vis2 := vis2) (p := ps_sp s0) (t := t); eauto.
          -- rewrite <- app_assoc. reflexivity.
          -- split; [assumption|]. exists s0, cursor, ev1. auto.
          -- rewrite Hout, nv_app, nv_visible, nv_app, Hq1. reflexivity.
          -- intros E. destruct (Hoof E) as (_ & H1 & H2 & _). auto.
      + inversion Hrun; subst. inversion Hp as [ | | rx sx evx Hnvx Hrejx | sx pre p c Hpre Hgf ]; subst.
        * apply RsQuiet with (vis2 := [s]); auto.
          -- constructor; [|constructor]. split; [assumption|rewrite Hs; assumption].
          -- rewrite nv_app, nv_visible, Hnvx. apply app_nil_r.
          -- right. intros ->. exact (step_not_oof _ _ _ Hs).
          -- intros E. exists s. split; [left; reflexivity|auto].
        * assert (Hvis : filter (visible opts) (pre ++ [EvUnexpectedChar p c]) =
                         filter (visible opts) pre ++ [EvUnexpectedChar p c]).
          { rewrite filter_app. cbn. unfold visible at 2. cbn. rewrite orb_true_r. reflexivity. }
          rewrite Hvis, app_assoc.
          eapply RsLexFail with (vis2 := []); eauto.
          -- reflexivity.
          -- rewrite nv_app, nv_visible. rewrite Hpre. apply app_nil_r.
  Qed.

  (* ---------- the theorems ---------- *)
  Hypothesis Hnoerr : no_error_symbol g tbl = true.

  Lemma err_col : err_col_error g tbl.
  Proof. exact (no_error_symbol_cell g tbl Hnoerr). Qed.

  (* full description of a run, with the loop-head states visited as a ghost *)
  Theorem one_message_trace fuel c :
    let '(r, s', out, vis) := run_ghx fuel (init c) [] [] in run_shape [] [] r s' out vis.
  Proof.
    destruct (run_ghx fuel (init c) [] []) as [[[r s'] out] vis] eqn:E.
    apply (runA fuel err_col (init c) [] [] r s' out vis eq_refl (or_introl eq_refl) E).
  Qed.

  (* the consume mode is never entered when SHIFT_ERROR occurs in the error column only *)
  Theorem cons_never fuel c : shifterr_only_err_col g tbl ->
    let '(_, _, _, vis) := run_ghx fuel (init c) [] [] in Forall (fun s => ps_cons s = false) vis.
  Proof.
    intros Hse.
    pose proof (run_gh_sinv V C g tbl opts buf cap lexer term_f err_f rule_f
                  (fun s => ps_cons s = false /\ (ps_rec s = false -> term_inv s)) (fun _ _ => True)) as H.
    specialize (H (fun _ _ => I)).
    assert (Hst : forall s, ps_cons s = false /\ (ps_rec s = false -> term_inv s) ->
               match fst (stepx s) with
               | inl s' => ps_cons s' = false /\ (ps_rec s' = false -> term_inv s')
               | inr (r, s') => True
               end).
    { intros s [Hc Hti]. destruct (ps_rec s) eqn:Hrec.
      - pose proof (stepB_holds s err_col Hrec Hc) as Hp. destruct (stepx s) as [[s'|[r s']] ev]; cbn [fst]; [|exact I].
        inversion Hp; subst. cbn. split; [assumption|congruence].
      - pose proof (stepA_holds s Hrec (Hti eq_refl)) as Hp. destruct (stepx s) as [[s'|[r s']] ev]; cbn [fst]; [|exact I].
        inversion Hp as [sx evx Hnvx Hrecx Htix Hconsx | s0 cursor t ev1 Hent | | ]; subst.
        + split; [apply Hconsx; auto using err_col|auto].
        + destruct Hent as (_ & _ & _ & _ & Hc1 & _). cbn. split; [assumption|discriminate]. }
    specialize (H Hst fuel (init c) [] []).
    destruct (run_ghx fuel (init c) [] []) as [[[r s'] out] vis].
    destruct H as [_ H]; [split; [reflexivity|left; reflexivity]|constructor|].
    eapply Forall_impl; [|exact H]. intros a [Ha _]. exact Ha.
  Qed.

  (* R1 *)
  Theorem one_message fuel c :
    let '(r, s, out) := runx fuel c in
    length (nv out) <= 1 /\
    (forall v, r = Accept v -> nv out = []) /\
    (shifterr_only_err_col g tbl -> r = Reject -> exists e, nv out = [e]).
  Proof.
    unfold run. rewrite (run_gh_run _ _ _ _ _ _ _ _ _ _ _ fuel (init c) [] []).
    pose proof (one_message_trace fuel c) as H. pose proof (cons_never fuel c) as Hc.
    destruct (run_ghx fuel (init c) [] []) as [[[r s'] out] vis].
    destruct H as [vis2 Hv Hall Hout Hres Hrej|vis2 sl pre p ch Hv Hall Hsl -> -> Hpre|vis1 se vis2 p t Hv Hall Hent Hpop Hout Hres Hoof].
    - rewrite Hout. cbn. split; [lia|]. split; [auto|]. intros Hse E. exfalso.
      destruct (Hrej E) as (sl & Hin & Hcs). specialize (Hc Hse). rewrite Forall_forall in Hc.
      cbn in Hv. subst vis2. rewrite (Hc sl Hin) in Hcs. discriminate.
    - rewrite nv_app, Hpre. cbn. split; [lia|]. split; [discriminate|]. eauto.
    - rewrite Hout. cbn. split; [lia|]. split; [|eauto].
      intros v E. exfalso. exact (resB_not_accept _ Hres v E).
  Qed.

  (* with verbose off nothing else reaches the stream *)
  Lemma quiet_out fuel c : o_verbose opts = false ->
    let '(_, _, out) := runx fuel c in nv out = out.
  Proof.
    intros Hq. unfold run. rewrite (run_gh_run _ _ _ _ _ _ _ _ _ _ _ fuel (init c) [] []).
    pose proof (run_gh_out V C g tbl opts buf cap lexer term_f err_f rule_f fuel (init c) [] [] [] eq_refl) as H.
    destruct (run_ghx fuel (init c) [] []) as [[[r s'] out] vis]. cbn [app] in H. subst out.
    rewrite quiet_visible by assumption. apply nv_idem.
  Qed.

  Corollary one_message_quiet fuel c : o_verbose opts = false ->
    let '(r, s, out) := runx fuel c in
    length out <= 1 /\
    (forall v, r = Accept v -> out = []) /\
    (shifterr_only_err_col g tbl -> r = Reject ->
     exists p x, out = [EvSyntaxError p x] \/ out = [EvUnexpectedChar p x]).
  Proof.
    intros Hq. pose proof (one_message fuel c) as H. pose proof (quiet_out fuel c Hq) as Ho.
    destruct (runx fuel c) as [[r s] out]. rewrite Ho in H. destruct H as (H1 & H2 & H3).
    split; [assumption|]. split; [assumption|]. intros Hse E. destruct (H3 Hse E) as (e & He).
    assert (Hn : is_nonverbose e = true).
    { assert (In e (nv out)) as Hin by (rewrite Ho, He; left; reflexivity). apply filter_In in Hin. tauto. }
    destruct e; try discriminate; eauto.
  Qed.

  (* continuing a run that ran out of fuel *)
  Lemma run_gh_split f1 f2 : forall s out vis s1 out1 vis1,
    run_ghx f1 s out vis = (OutOfFuel, s1, out1, vis1) -> run_ghx (f1 + f2) s out vis = run_ghx f2 s1 out1 vis1.
  Proof.
    induction f1 as [|f IH]; intros s out vis s1 out1 vis1 H; cbn [run_gh Nat.add] in *.
    - inversion H; subst. reflexivity.
    - destruct (stepx s) as [[sa|[ra sa]] ev] eqn:Hs.
      + apply IH. assumption.
      + inversion H; subst. exfalso. exact (step_not_oof _ _ _ Hs).
  Qed.

  (* an unexpected character ends the run at once: it is the last line written, the result is Reject,
     and the driver never was in recovery mode *)
  Theorem unexpected_char_stops fuel c :
    let '(r, s', out, vis) := run_ghx fuel (init c) [] [] in
    forall p ch, In (EvUnexpectedChar p ch) out ->
      r = Reject /\ (exists pre, out = pre ++ [EvUnexpectedChar p ch] /\ nv pre = []) /\
      Forall (fun s => ps_rec s = false) vis.
  Proof.
    pose proof (one_message_trace fuel c) as H.
    destruct (run_ghx fuel (init c) [] []) as [[[r s'] out] vis]. intros p ch Hin.
    assert (Hin' : In (EvUnexpectedChar p ch) (nv out)) by (apply filter_In; auto).
    destruct H as [vis2 Hv Hall Hout Hres Hrej|vis2 sl pre p0 c0 Hv Hall Hsl -> -> Hpre|vis1 se vis2 p0 t Hv Hall Hent Hpop Hout Hres Hoof].
    - rewrite Hout in Hin'. destruct Hin'.
    - rewrite nv_app, Hpre in Hin'. cbn in Hin'. destruct Hin' as [E|[]]. inversion E; subst p0 c0.
      split; [reflexivity|]. split; [eauto|]. cbn in Hv. subst vis. apply Forall_app. split.
      + eapply Forall_impl; [|exact Hall]. intros a [Ha _]. exact Ha.
      + constructor; [assumption|constructor].
    - rewrite Hout in Hin'. cbn in Hin'. destruct Hin' as [E|[]]. discriminate.
  Qed.

  (* after the syntax error every iteration pops one state; the run ends with Reject, or crashes on a stack entry
     that is not a row of the table -- and it does end: a run that stops for lack of fuel ends when continued
     with as much fuel as the stack is high *)
  Theorem syntax_error_then_pops fuel c :
    let '(r, s', out, vis) := run_ghx fuel (init c) [] [] in
    forall p t, In (EvSyntaxError p t) out ->
      nv out = [EvSyntaxError p t] /\
      (exists vis1 se vis2, vis = vis1 ++ se :: vis2 /\ Forall quiet_step vis1 /\ enter_step se p t /\ Forall pop_step vis2) /\
      resB r /\
      (r = OutOfFuel -> forall k, length (ps_cursors s') <= k -> 0 < k ->
         let '(r2, _, out2, _) := run_ghx (fuel + k) (init c) [] [] in
         r2 <> OutOfFuel /\ resB r2 /\ nv out2 = [EvSyntaxError p t]).
  Proof.
    pose proof (one_message_trace fuel c) as H.
    destruct (run_ghx fuel (init c) [] []) as [[[r s'] out] vis] eqn:Erun. intros p t Hin.
    assert (Hin' : In (EvSyntaxError p t) (nv out)) by (apply filter_In; auto).
    destruct H as [vis2 Hv Hall Hout Hres Hrej|vis2 sl pre p0 c0 Hv Hall Hsl -> -> Hpre|vis1 se vis2 p0 t0 Hv Hall Hent Hpop Hout Hres Hoof].
    - rewrite Hout in Hin'. destruct Hin'.
    - rewrite nv_app, Hpre in Hin'. cbn in Hin'. destruct Hin' as [E|[]]. discriminate.
    - rewrite Hout in Hin'. cbn in Hin'. destruct Hin' as [E|[]]. inversion E; subst p0 t0.
      split; [assumption|]. split; [cbn in Hv; eauto 8|]. split; [assumption|].
      intros -> k Hk Hk0. rewrite (run_gh_split fuel k _ _ _ _ _ _ Erun).
      destruct (Hoof eq_refl) as [Hr Hc].
      destruct (run_ghx k s' out vis) as [[[r2 s2] out2] vis2'] eqn:E2.
      destruct (runB k err_col _ _ _ _ _ _ _ Hr Hc E2) as (vis3 & _ & _ & Hout2 & Hres2 & _ & Hoof2).
      split; [|split; [assumption|rewrite Hout2, Hout; reflexivity]].
      intros ->. destruct (Hoof2 eq_refl) as (_ & _ & _ & Hsk & [->|Hne]); [lia|].
      apply Hne. rewrite Hsk. apply skipn_all2. assumption.
  Qed.

  Lemma recovery_ends fuel s out vis r s' out' vis' :
    ps_rec s = true -> ps_cons s = false -> length (ps_cursors s) <= fuel -> 0 < fuel ->
    run_ghx fuel s out vis = (r, s', out', vis') -> r <> OutOfFuel.
  Proof.
    intros Hr Hc Hl H0 Hrun ->.
    destruct (runB fuel err_col _ _ _ _ _ _ _ Hr Hc Hrun) as (vis3 & _ & _ & _ & _ & _ & Hoof).
    destruct (Hoof eq_refl) as (_ & _ & _ & Hsk & [->|Hne]); [lia|].
    apply Hne. rewrite Hsk. apply skipn_all2. assumption.
  Qed.

  (* the same without crash when every state on the stack is a row of the table with an error column *)
  Definition row_ok (st : nat) : Prop := exists e, cell tbl st (nterm_count g + err_idx g) = inl e.

  Lemma recovery_rejects fuel : forall s out vis r s' out' vis',
    ps_rec s = true -> ps_cons s = false -> ps_cursors s <> [] -> Forall row_ok (ps_cursors s) ->
    run_ghx fuel s out vis = (r, s', out', vis') -> r = Reject \/ r = OutOfFuel.
  Proof.
    induction fuel as [|f IH]; intros s out vis r s' out' vis' Hrec Hcons Hne Hrow Hrun; cbn [run_gh] in Hrun.
    - inversion Hrun; auto.
    - pose proof (stepB_holds s err_col Hrec Hcons) as Hp.
      destruct (stepx s) as [[s1|[r1 s1]] ev] eqn:Hs.
      + inversion Hp as [top cs Htl| |]; subst. eapply IH; [| | | |exact Hrun]; cbn; auto.
        * rewrite Htl. discriminate.
        * destruct (ps_cursors s); [constructor|]. inversion Hrow; assumption.
      + inversion Hrun; subst. inversion Hp as [|Hc|c0 [[Hc _]|(cur & cs & Hc & Hcell)]]; subst; auto.
        * contradiction.
        * rewrite Hc in Hrow. inversion Hrow as [|? ? [e He] _]; subst. congruence.
  Qed.
End Report.

(* ---------- at the right place: the position of the one message is the true position of the cursor ---------- *)
Require Import Ctpg.Spec.Eval Ctpg.Proofs.DriverPos.

Theorem one_message_pos V C g tbl opts buf cap lexer term_f err_f rule_f
  (lexer_len : forall v p rest t len, snd (lexer v p rest) = Some (t, len) -> len <= length rest)
  (no_eof_shift : eof_err_not_shifted g tbl \/ o_skip_ws opts = false) fuel c :
  let '(r, s, out) := run V C g tbl opts buf cap lexer term_f err_f rule_f fuel c in
  forall e, In e (nv out) ->
    match e with
    | EvSyntaxError p t => exists k, k <= length buf /\ p = true_pos buf k
    | EvUnexpectedChar p ch => exists k, k < length buf /\ p = true_pos buf k /\ nth_error buf k = Some ch
    | _ => False
    end.
Proof.
  pose proof (run_pos V C g tbl opts buf cap lexer term_f err_f rule_f lexer_len no_eof_shift fuel c) as H.
  destruct (run V C g tbl opts buf cap lexer term_f err_f rule_f fuel c) as [[r s] out].
  destruct H as (_ & _ & _ & _ & H). intros e He. apply filter_In in He. destruct He as [Hin Hnv].
  rewrite Forall_forall in H. specialize (H e Hin).
  destruct e; try discriminate.
  - apply event_pos_ok_syntax in H. exact H.
  - apply event_pos_ok_unexpected in H. exact H.
Qed.

(* ---------- the hypothesis on SHIFT_ERROR cannot be dropped from the "exactly one" part ---------- *)
(* terms a=0 <eof>=1 <err>=2; nonterminals S=0 ##=1; columns S ## a <eof> <err>. The error column is empty, but the
   cell (0, a) is a SHIFT_ERROR: the driver enters consume mode without having written anything, discards a, and
   rejects at <eof> silently. *)
Require Import Ctpg.Spec.Cfg Ctpg.Spec.LRSpec.

Definition cx_g := mkG 3 2 2 1 [[T 0]; [NT 0]] [mkRI 0 0 1; mkRI 1 1 1] [(0,1);(1,1)]
                       [0%Z;0%Z;0%Z] [NoAssoc;NoAssoc;NoAssoc] [0%Z;0%Z] [NoAssoc;NoAssoc] [Some 0; None].
Definition cx_E := entry_default.
Definition cx_tbl : table :=
  [[cx_E; cx_E; mkE KShiftErr (Some 1) false; cx_E; cx_E];
   [cx_E; cx_E; cx_E; cx_E; cx_E]].

Example silent_reject_cex :
  no_error_symbol cx_g cx_tbl = true /\
  shifterr_only_err_colb cx_g cx_tbl = false /\
  (let '(r, _, out) := run tree unit cx_g cx_tbl tree_opts [0] None id_lexer
                           (fun t _ _ _ => Leaf t) (fun _ => Leaf (err_idx cx_g)) (fun r c args => (c, Node r args)) 10 tt in
   (r, out)) = (Reject, []).
Proof. vm_compute. auto. Qed.

Print Assumptions one_message_trace.
Print Assumptions one_message.
Print Assumptions one_message_quiet.
Print Assumptions unexpected_char_stops.
Print Assumptions syntax_error_then_pops.
Print Assumptions recovery_rejects.
Print Assumptions cons_never.
Print Assumptions one_message_pos.
