(* S4: the invariant of states_loop and the final theorem: for every well-formed grammar, if the generator
   succeeds and the table carries no conflict mark (and no state hides the accept/reduce conflict D12),
   then the generated item sets and table pass the LR(1) validator. *)
Require Import Ctpg.Base.Prelude Ctpg.Model.Grammar Ctpg.Model.LRGen Ctpg.Valid.LRValid
               Ctpg.Proofs.LRReflect Ctpg.Proofs.LRValidFacts Ctpg.Proofs.GenLists Ctpg.Proofs.GenWf
               Ctpg.Proofs.GenFirst Ctpg.Proofs.GenClosure Ctpg.Proofs.GenScan Ctpg.Proofs.GenTrans.

(* no cell of a finished state carries a conflict mark *)
Definition conflict_free (g : grammar) (nstates : nat) (tbl : table) : bool :=
  forallb (fun s => forallb (fun c => let e := nth c (nth s tbl []) entry_default in
                                      negb (e_sr e) && negb (kind_eqb (e_kind e) KRR)) (seq 0 (symbol_count g))) (seq 0 nstates).
(* the accept/reduce conflict that the scan hides (known deviation D12): excluded by hypothesis *)
Definition accept_clean (g : grammar) (sts : list lrstate) : bool :=
  forallb (fun st => negb (existsb (fun i => Nat.eqb (it_r i) (root_rule_idx g) && is_complete g i) (st_all st)
                           && existsb (fun i => negb (Nat.eqb (it_r i) (root_rule_idx g)) && is_complete g i && Nat.eqb (it_t i) (eof_idx g)) (st_all st))) sts.

Lemma stn_update_eq sts n x : n < length sts -> stn (update sts n x) n = x.
Proof. intros H. unfold stn. apply nth_update_eq. assumption. Qed.

Lemma stn_update_neq sts n m x : n <> m -> stn (update sts n x) m = stn sts m.
Proof. intros H. unfold stn. apply nth_update_neq. assumption. Qed.

Lemma cell_at_repeat n m s c : cell_at (repeat (repeat entry_default n) m) s c = entry_default.
Proof.
  unfold cell_at. destruct (Nat.lt_ge_cases s m) as [Hs|Hs].
  - rewrite nth_repeat_lt by assumption. 
    destruct (Nat.lt_ge_cases c n) as [Hc|Hc].
    + apply nth_repeat_lt. assumption.
    + apply nth_overflow. rewrite repeat_length. assumption.
  - rewrite (nth_overflow _ _ (n:=s)) by (rewrite repeat_length; assumption). destruct c; reflexivity.
Qed.

Section Loop.
  Variable g : grammar.
  Hypothesis WF : wf_facts g.
  Hypothesis WFX : wfx_facts g.
  Variable lim : limits.
  Variable ne : bset.
  Variable nf : list bset.

  Record inv (cur : nat) (sts : list lrstate) (tb : table) : Prop := {
    iv_cur : cur <= length sts;
    iv_pos : 0 < length sts;
    iv_cap : length sts <= state_cap lim;
    iv_tbl : length tb = state_cap lim;
    iv_rows : forall s, s < length tb -> length (nth s tb []) = symbol_count g;
    iv_disc : all_disc g sts;
    iv_fin : forall s, s < cur -> closure_ok_list g ne nf (st_all (stn sts s)) = true /\
                                  forall c, c < symbol_count g -> cell_good g sts tb s c;
    iv_def : forall s c, cur <= s -> cell_at tb s c = entry_default
  }.

  (* the closure phase keeps the discipline of the state *)
  Lemma close_disc cur st :
    st_disc g cur st ->
    let res := close_loop (S (address_space g)) g ne nf (st_all st) 0 in
    st_disc g cur (mkSt res (st_kernel st)) /\ closure_ok_list g ne nf res = true.
  Proof.
    intros D. cbn zeta.
    destruct (close_loop_closure_ok g WF WFX ne nf (st_all st) (sd_nodup _ _ _ D))
      as (Hcl & Hnd & Hok & _ & ext & Eres & Hext).
    { apply Forall_forall. apply (sd_ok _ _ _ D). }
    split; [|assumption].
    set (res := close_loop (S (address_space g)) g ne nf (st_all st) 0) in *.
    rewrite Forall_forall in Hok, Hext.
    assert (forall i, In i res -> In i (st_all st) \/ (it_d i = 0 /\ it_r i <> root_rule_idx g)) as Hsplit.
    { intros i Hi. rewrite Eres in Hi. apply in_app_iff in Hi. destruct Hi as [Hi|Hi]; [left; assumption|].
      right. apply Hext. assumption. }
    constructor; cbn [st_all st_kernel].
    - assumption.
    - assumption.
    - intros i Hi Er. destruct (Hsplit i Hi) as [Ho|(_ & Hn)]; [|contradiction]. apply (sd_rootla _ _ _ D); assumption.
    - intros i Hi. rewrite Eres. apply in_app_iff. left. apply (sd_ker_all _ _ _ D). assumption.
    - intros i Hi Hd. destruct (Hsplit i Hi) as [Ho|(Hz & _)]; [|contradiction]. apply (sd_dot_ker _ _ _ D); assumption.
    - intros E. destruct (sd_zero _ _ _ D E) as (Hk & Hz). split; [assumption|].
      intros i Hi. destruct (Hsplit i Hi) as [Ho|(Hz' & _)]; auto.
    - intros E. destruct (sd_nonzero _ _ _ D E) as (Hk & Hz). split; [assumption|].
      intros i Hi Hd0. destruct (Hsplit i Hi) as [Ho|(_ & Hn)]; auto.
  Qed.

  Lemma step_inv cur sts tb st sts2 tb2 :
    inv cur sts tb -> nth_error sts cur = Some st ->
    trans_loop g lim cur (seq 0 (symbol_count g))
               (update sts cur (mkSt (close_loop (S (address_space g)) g ne nf (st_all st) 0) (st_kernel st))) tb
      = inl (sts2, tb2) ->
    inv (S cur) sts2 tb2.
  Proof.
    intros I Est H.
    assert (cur < length sts) as Hcur by (eapply nth_error_Some_lt; eassumption).
    assert (stn sts cur = st) as Estn by (unfold stn; apply nth_error_nth; assumption).
    pose proof (iv_disc _ _ _ I cur Hcur) as D. rewrite Estn in D.
    destruct (close_disc cur st D) as (D1 & Hclo).
    set (res := close_loop (S (address_space g)) g ne nf (st_all st) 0) in *.
    set (sts1 := update sts cur (mkSt res (st_kernel st))) in *.
    assert (length sts1 = length sts) as L1 by apply update_length.
    assert (forall s, s <> cur -> stn sts1 s = stn sts s) as O1
        by (intros s Hs; apply stn_update_neq; congruence).
    assert (stn sts1 cur = mkSt res (st_kernel st)) as C1 by (apply stn_update_eq; assumption).
    assert (forall s, st_kernel (stn sts1 s) = st_kernel (stn sts s)) as K1.
    { intros s. destruct (Nat.eq_dec s cur) as [->|Hs]; [rewrite C1, Estn; reflexivity|rewrite O1 by assumption; reflexivity]. }
    assert (all_disc g sts1) as Hd1.
    { intros s Hs. destruct (Nat.eq_dec s cur) as [->|Hne]; [rewrite C1; assumption|].
      rewrite O1 by assumption. apply (iv_disc _ _ _ I). lia. }
    pose proof (iv_cap _ _ _ I) as Hcap. pose proof (iv_tbl _ _ _ I) as Htbl.
    assert (cur < length tb) as Hrow by lia.
    destruct (trans_loop_spec g WF lim cur (seq 0 (symbol_count g)) sts1 tb sts2 tb2 Hd1)
      as (Hfr & Hd2 & Hcap2 & L2 & R2 & C2 & G2); try assumption; try lia.
    - apply seq_NoDup.
    - intros c Hc. apply in_seq in Hc. rewrite (iv_rows _ _ _ I cur Hrow). lia.
    - intros c _. apply (iv_def _ _ _ I). lia.
    - pose proof (fr_len _ _ Hfr) as Hl2.
      constructor.
      + lia.
      + pose proof (iv_pos _ _ _ I). lia.
      + assumption.
      + congruence.
      + intros s Hs. rewrite R2. apply (iv_rows _ _ _ I). lia.
      + assumption.
      + intros s Hs. destruct (Nat.eq_dec s cur) as [->|Hne].
        * rewrite (fr_old _ _ Hfr cur) by lia. rewrite C1. cbn [st_all]. split; [assumption|].
          intros c Hc. apply G2. apply in_seq. lia.
        * assert (s < cur) as Hlt by lia. destruct (iv_fin _ _ _ I s Hlt) as (A & B).
          assert (stn sts2 s = stn sts s) as Es by (rewrite (fr_old _ _ Hfr s) by lia; apply O1; assumption).
          rewrite Es. split; [assumption|]. intros c Hc.
          eapply cell_good_frame; [| | | |apply (B c Hc)].
          -- lia.
          -- intros s' Hs'. rewrite (fr_old _ _ Hfr s') by lia. apply K1.
          -- assumption.
          -- apply C2. left. assumption.
      + intros s c Hs. rewrite C2 by (left; lia). apply (iv_def _ _ _ I). lia.
  Qed.

  Lemma states_loop_inv fuel : forall cur sts tb sts' tb',
    inv cur sts tb -> states_loop fuel g lim ne nf cur sts tb = inl (sts', tb') ->
    inv (length sts') sts' tb'.
  Proof.
    induction fuel as [|f IH]; intros cur sts tb sts' tb' I H; cbn [states_loop] in H; [discriminate|].
    destruct (nth_error sts cur) as [st|] eqn:Est.
    - cbn zeta in H. destruct (Nat.ltb _ _); [discriminate|].
      destruct (trans_loop _ _ _ _ _ _) as [[sts2 tb2]|e] eqn:Et; [|discriminate].
      eapply IH; [|exact H]. eapply step_inv; eassumption.
    - inversion H; subst sts' tb'. apply nth_error_None in Est. pose proof (iv_cur _ _ _ I).
      replace (length sts) with cur by lia. assumption.
  Qed.

  Lemma init_disc : all_disc g [mkSt [root_item g] [root_item g]].
  Proof.
    intros s Hs. cbn in Hs. assert (s = 0) as -> by lia. unfold stn; cbn [nth].
    constructor; cbn [st_all st_kernel].
    - constructor; [intros []|constructor].
    - intros i [<-|[]]. unfold item_okP, root_item; cbn.
      split; [apply wf_root_lt; assumption|]. split; [lia|apply wf_eof_lt; assumption].
    - intros i [<-|[]] _. reflexivity.
    - auto.
    - intros i [<-|[]] H. cbn in H. congruence.
    - intros _. split; [reflexivity|]. intros i [<-|[]]. reflexivity.
    - intros H. congruence.
  Qed.

  Lemma init_inv : 0 < state_cap lim ->
    inv 0 [mkSt [root_item g] [root_item g]] (repeat (repeat entry_default (symbol_count g)) (state_cap lim)).
  Proof.
    intros Hcap. constructor; cbn [length]; try lia.
    - apply repeat_length.
    - intros s Hs. rewrite repeat_length in Hs. rewrite nth_repeat_lt by assumption. apply repeat_length.
    - apply init_disc.
    - intros s c _. apply cell_at_repeat.
  Qed.
End Loop.

(* ---------- from the shape of the cells to the validator's checks ---------- *)

Lemma state_items_map sts s : state_items (map st_all sts) s = st_all (stn sts s).
Proof. unfold state_items, stn. change (@nil item) with (st_all (mkSt [] [])). apply map_nth. Qed.

Section Final.
  Variable g : grammar.
  Hypothesis WF : wf_facts g.
  Variable sts : list lrstate.
  Variable tbl : table.
  Hypothesis Hdisc : all_disc g sts.
  Hypothesis Hshape : forall s c, s < length sts -> c < symbol_count g ->
                                  cell_shape g sts (st_all (stn sts s)) c (cell_at tbl s c).
  Let sl := map st_all sts.

  Lemma bucket_col_lt s i : s < length sts -> In i (st_all (stn sts s)) -> bucket_of g i < symbol_count g.
  Proof.
    intros Hs Hi. pose proof (sd_ok _ _ _ (Hdisc s Hs) i Hi) as Oi. unfold symbol_count.
    destruct (is_complete g i) eqn:Ci.
    - rewrite (bucket_complete g i Oi Ci). destruct Oi as (_ & _ & Ht). lia.
    - destruct (bucket_incomplete g WF i Oi Ci) as (x & Hx & ->). destruct Oi as (Hr & _).
      destruct (next_sym_ok g WF i x Hr Hx) as (Hsx & _). destruct x as [t|n]; cbn in *; apply Nat.ltb_lt in Hsx; lia.
  Qed.

  Lemma final_justified s c : s < length sts -> c < symbol_count g -> cell_justified g sl tbl s c = true.
  Proof.
    intros Hs Hc. unfold cell_justified. unfold sl. rewrite state_items_map.
    pose proof (Hdisc s Hs) as D.
    set (its := st_all (stn sts s)) in *. set (e := cell_at tbl s c) in *.
    destruct (Hshape s c Hs Hc) as [(EB & Ee)|[(HB & Hall & Hk & s' & Ea & Hs' & Hs0 & Hker)|[(i & EB & Ci & Ri & Hk & Ea)|(HB & Hall & Hk)]]];
      fold its in EB || fold its in HB; fold e in Hk || fold e in Ee.
    - rewrite Ee. cbn. apply orb_true_r.
    - fold its in Hall, Hker. fold e in Ea.
      assert (match e_kind e with KShift | KShiftErr => True | _ => False end) as Hkk
          by (rewrite Hk; unfold kd; destruct (Nat.eqb _ _); exact I).
      assert ((negb (kind_eqb (e_kind e) KShiftErr) || Nat.eqb c (col_of_term g (err_idx g))) = true) as Hfirst.
      { rewrite Hk. unfold kd, col_of_term. destruct (Nat.eqb c (nterm_count g + err_idx g)); reflexivity. }
      assert (Nat.ltb s' (length (map st_all sts)) = true) as H2a
          by (rewrite map_length; apply Nat.ltb_lt; assumption).
      assert (negb (Nat.eqb s' 0) = true) as H2b by (apply negb_true_iff; apply Nat.eqb_neq; assumption).
      assert (forallb (fun j => match it_d j with
                                | 0 => true
                                | S d => mem_item (mkItem (it_r j) d (it_t j)) its &&
                                         match nth_error (rhs_of g j) d with
                                         | Some x => Nat.eqb (sym_col g x) c
                                         | None => false
                                         end
                                end) (state_items (map st_all sts) s') = true) as Hthird.
      { rewrite state_items_map. apply forallb_forall. intros j Hj.
        destruct (it_d j) as [|d] eqn:Ed; [reflexivity|].
        assert (In j (st_kernel (stn sts s'))) as Hjk by (apply (sd_dot_ker _ _ _ (Hdisc s' Hs')); [assumption|lia]).
        apply Hker in Hjk. destruct Hjk as (i & Hi & Ej).
        apply bucket_In in Hi. destruct Hi as (Ii & Bi).
        pose proof (sd_ok _ _ _ D i Ii) as Oi.
        assert (is_complete g i = false) as Ci by (apply Hall; apply bucket_In; auto).
        destruct (bucket_incomplete g WF i Oi Ci) as (x & Hx & Ex).
        subst j. cbn in Ed. inversion Ed; subst d. cbn [it_r it_t adv].
        assert (mkItem (it_r i) (it_d i) (it_t i) = i) as -> by (destruct i; reflexivity).
        apply andb_true_iff. split; [apply mem_item_In; assumption|].
        change (rhs_of g (adv i)) with (rhs_of g i). unfold next_sym in Hx. rewrite Hx.
        apply Nat.eqb_eq. congruence. }
      rewrite Ea. destruct (e_kind e) eqn:Ekk; try contradiction;
        (apply andb_true_iff; split; [apply andb_true_iff; split; [apply andb_true_iff; split|]|]);
        try exact Hfirst; try exact H2a; try exact H2b; try exact Hthird.
    - fold e in Ea. rewrite Hk, Ea. assert (In i (bucket g its c)) as Hi by (rewrite EB; cbn; auto).
      apply bucket_In in Hi. destruct Hi as (Ii & Bi). pose proof (sd_ok _ _ _ D i Ii) as Oi.
      rewrite (bucket_complete g i Oi Ci) in Bi. destruct Oi as (Hr & _).
      apply andb_true_iff. split; [apply andb_true_iff; split; [apply andb_true_iff; split|]|].
      + apply Nat.ltb_lt. assumption.
      + apply negb_true_iff. apply Nat.eqb_neq. assumption.
      + apply Nat.leb_le. lia.
      + apply existsb_exists. exists i. split; [assumption|]. rewrite Nat.eqb_refl, Ci. reflexivity.
    - rewrite Hk. destruct (bucket g its c) as [|i rest] eqn:EB; [congruence|].
      assert (In i (bucket g its c)) as Hi by (rewrite EB; cbn; auto).
      destruct (Hall i Hi) as (Ci & Ri).
      apply bucket_In in Hi. destruct Hi as (Ii & Bi). pose proof (sd_ok _ _ _ D i Ii) as Oi.
      rewrite (bucket_complete g i Oi Ci), (sd_rootla _ _ _ D i Ii Ri) in Bi.
      apply andb_true_iff. split.
      + apply Nat.eqb_eq. unfold col_of_term. lia.
      + apply existsb_exists. exists i. split; [assumption|]. rewrite Ri, Nat.eqb_refl, Ci. reflexivity.
  Qed.

  Lemma final_goto s : s < length sts -> goto_ok g sl tbl s = true.
  Proof.
    intros Hs. unfold goto_ok, sl. rewrite state_items_map. pose proof (Hdisc s Hs) as D.
    set (its := st_all (stn sts s)) in *. apply forallb_forall. intros i Ii.
    destruct (is_complete g i) eqn:Ci; [reflexivity|].
    pose proof (sd_ok _ _ _ D i Ii) as Oi.
    destruct (bucket_incomplete g WF i Oi Ci) as (x & Hx & Ex). rewrite Hx.
    pose proof (bucket_col_lt s i Hs Ii) as Hc. rewrite Ex in Hc.
    assert (In i (bucket g its (sym_col g x))) as Hi by (apply bucket_In; auto).
    destruct Oi as (Hr & _). destruct (next_sym_ok g WF i x Hr Hx) as (Hsx & _).
    destruct (Hshape s (sym_col g x) Hs Hc) as [(EB & Ee)|[(HB & Hall & Hk & s' & Ea & Hs' & Hs0 & Hker)|[(i' & EB & Ci' & _)|(HB & Hall & Hk)]]];
      fold its in EB || fold its in HB.
    - rewrite EB in Hi. destruct Hi.
    - fold its in Hker.
      assert (goto_target g tbl s x = Some s') as ->.
      { unfold goto_target. rewrite Hk. unfold kd. destruct x as [t|n]; cbn [sym_col] in *.
        - destruct (Nat.eqb t (err_idx g)) eqn:Et.
          + apply Nat.eqb_eq in Et. subst t. rewrite Nat.eqb_refl. assumption.
          + assert (Nat.eqb (nterm_count g + t) (nterm_count g + err_idx g) = false) as ->.
            { apply Nat.eqb_neq. apply Nat.eqb_neq in Et. lia. }
            assumption.
        - cbn in Hsx. apply Nat.ltb_lt in Hsx.
          assert (Nat.eqb n (nterm_count g + err_idx g) = false) as -> by (apply Nat.eqb_neq; lia).
          assumption. }
      rewrite map_length, state_items_map. apply andb_true_iff. split; [apply Nat.ltb_lt; assumption|].
      apply mem_item_In. apply (sd_ker_all _ _ _ (Hdisc s' Hs')). apply Hker. exists i. auto.
    - rewrite EB in Hi. destruct Hi as [<-|[]]. congruence.
    - fold its in Hall. destruct (Hall i Hi). congruence.
  Qed.

  Lemma final_reduce s : s < length sts -> reduce_ok g sl tbl s = true.
  Proof.
    intros Hs. unfold reduce_ok, sl. rewrite state_items_map. pose proof (Hdisc s Hs) as D.
    set (its := st_all (stn sts s)) in *. apply forallb_forall. intros i Ii.
    destruct (is_complete g i) eqn:Ci; [|reflexivity].
    pose proof (sd_ok _ _ _ D i Ii) as Oi.
    pose proof (bucket_complete g i Oi Ci) as Ex.
    pose proof (bucket_col_lt s i Hs Ii) as Hc. rewrite Ex in Hc.
    assert (In i (bucket g its (nterm_count g + it_t i))) as Hi by (apply bucket_In; auto).
    unfold col_of_term.
    destruct (Hshape s (nterm_count g + it_t i) Hs Hc) as [(EB & Ee)|[(HB & Hall & _)|[(i' & EB & Ci' & Ri & Hk & Ea)|(HB & Hall & Hk)]]];
      fold its in EB || fold its in HB.
    - rewrite EB in Hi. destruct Hi.
    - fold its in Hall. rewrite (Hall i Hi) in Ci. discriminate.
    - rewrite EB in Hi. destruct Hi as [<-|[]].
      assert (Nat.eqb (it_r i') (root_rule_idx g) = false) as -> by (apply Nat.eqb_neq; assumption).
      rewrite Hk, Ea, Nat.eqb_refl. reflexivity.
    - fold its in Hall. destruct (Hall i Hi) as (_ & Ri). rewrite Ri, Nat.eqb_refl, Hk.
      rewrite (sd_rootla _ _ _ D i Ii Ri), Nat.eqb_refl. reflexivity.
  Qed.

  Lemma final_state0 : 0 < length sts -> state0_ok g sl = true.
  Proof.
    intros Hpos. unfold state0_ok, sl. rewrite state_items_map. pose proof (Hdisc 0 Hpos) as D0.
    destruct (sd_zero _ _ _ D0 eq_refl) as (Hk & Hz).
    apply andb_true_iff. split; [apply andb_true_iff; split|].
    - apply mem_item_In. apply (sd_ker_all _ _ _ D0). rewrite Hk. cbn; auto.
    - apply forallb_forall. intros i Hi. apply Nat.eqb_eq. apply Hz. assumption.
    - rewrite map_length. apply forallb_seq0. intros s Hs. destruct s as [|s]; [reflexivity|]. cbn [Nat.eqb orb].
      rewrite state_items_map. apply forallb_forall. intros i Hi. apply negb_true_iff.
      destruct (sd_nonzero _ _ _ (Hdisc (S s) Hs) ltac:(lia)) as (_ & Hn).
      destruct (Nat.eqb (it_d i) 0) eqn:Ed; [|apply andb_false_r]. apply Nat.eqb_eq in Ed.
      rewrite andb_true_r. apply Nat.eqb_neq. apply Hn; assumption.
  Qed.

  Lemma final_items s : s < length sts -> forallb (item_ok g) (state_items sl s) = true.
  Proof.
    intros Hs. unfold sl. rewrite state_items_map. apply forallb_forall. intros i Hi. apply item_ok_P.
    apply (sd_ok _ _ _ (Hdisc s Hs)). assumption.
  Qed.
End Final.

(* ---------- the theorem ---------- *)

Lemma gen_with_cap0 g lim sts tbl : state_cap lim = 0 -> gen_with g lim = inl (sts, tbl) -> False.
Proof.
  intros Hcap H. unfold gen_with in H. rewrite Hcap in H. cbn [states_loop nth_error] in H.
  destruct (Nat.ltb _ _); [discriminate|].
  destruct (trans_loop _ _ _ _ _ _) as [[? ?]|]; discriminate.
Qed.

Theorem gen_validates : forall g lim sts tbl,
  grammar_wf g = true ->
  grammar_wf_extra g = true ->
  gen_with g lim = inl (sts, tbl) ->
  conflict_free g (length sts) tbl = true ->
  accept_clean g sts = true ->
  validate g (map st_all sts) tbl = true.
Proof.
  intros g lim sts tbl Hwf Hwfx Hgen Hcf Hac.
  pose proof (wf_facts_of _ Hwf) as WF. pose proof (wfx_facts_of _ Hwfx) as WFX.
  destruct (Nat.eq_dec (state_cap lim) 0) as [Hcap|Hcap]; [exfalso; eapply gen_with_cap0; eassumption|].
  set (ne := nterm_empty g). set (nf := nterm_first g ne).
  assert (inv g lim ne nf (length sts) sts tbl) as I.
  { unfold gen_with in Hgen. fold ne nf in Hgen.
    eapply states_loop_inv; [assumption|assumption| |exact Hgen]. apply init_inv; [assumption|lia]. }
  pose proof (iv_disc _ _ _ _ _ _ _ I) as Hdisc.
  assert (forall s c, s < length sts -> c < symbol_count g ->
                      cell_shape g sts (st_all (stn sts s)) c (cell_at tbl s c)) as Hshape.
  { intros s c Hs Hc. destruct (iv_fin _ _ _ _ _ _ _ I s Hs) as (_ & Hgood). apply (Hgood c Hc).
    - unfold conflict_free in Hcf. rewrite forallb_seq0 in Hcf. specialize (Hcf s Hs).
      rewrite forallb_seq0 in Hcf. specialize (Hcf c Hc). cbn zeta in Hcf.
      apply andb_true_iff in Hcf. destruct Hcf as [H1 H2]. apply negb_true_iff in H1, H2.
      split; [exact H1|]. intros E. unfold cell_at in E. rewrite E in H2. discriminate.
    - unfold accept_clean in Hac. rewrite forallb_forall in Hac. apply (Hac (stn sts s)).
      apply nth_In. assumption. }
  pose proof (iv_pos _ _ _ _ _ _ _ I) as Hpos.
  unfold validate. fold ne nf. unfold table_ok, table_sound_ok.
  rewrite Hwf. cbn [andb].
  assert (dims_ok g (map st_all sts) tbl = true) as ->.
  { unfold dims_ok. rewrite map_length. pose proof (iv_cap _ _ _ _ _ _ _ I). pose proof (iv_tbl _ _ _ _ _ _ _ I).
    apply andb_true_iff. split; [apply andb_true_iff; split|].
    - apply Nat.leb_le. lia.
    - apply Nat.ltb_lt. assumption.
    - apply forallb_seq0. intros s Hs. apply Nat.eqb_eq. apply (iv_rows _ _ _ _ _ _ _ I). lia. }
  rewrite (final_state0 g sts Hdisc Hpos). cbn [andb].
  unfold nf, ne. rewrite (gen_tables_closed g Hwf). fold ne nf. rewrite andb_true_r.
  apply andb_true_iff. split.
  - rewrite map_length. apply forallb_seq0. intros s Hs. apply andb_true_iff. split.
    + apply final_items; assumption.
    + apply forallb_seq0. intros c Hc. apply final_justified; assumption.
  - rewrite map_length. apply forallb_seq0. intros s Hs.
    rewrite (final_goto g WF sts tbl Hdisc Hshape s Hs), (final_reduce g WF sts tbl Hdisc Hshape s Hs).
    rewrite !andb_true_r. rewrite (closure_ok_is_list g ne nf), state_items_map.
    apply (iv_fin _ _ _ _ _ _ _ I s Hs).
Qed.

Print Assumptions gen_validates.

Corollary gen_validates_default : forall g sts tbl,
  grammar_wf g = true -> grammar_wf_extra g = true ->
  gen g = inl (sts, tbl) ->
  conflict_free g (length sts) tbl = true -> accept_clean g sts = true ->
  validate g (map st_all sts) tbl = true.
Proof. intros g sts tbl. apply gen_validates. Qed.
