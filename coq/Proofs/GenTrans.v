(* S3: one column / all columns of one state: do_transitions and trans_loop.
   Frame: existing states are never changed by a transition (the kernel found equals the new kernel, so adding
   its items adds nothing); only the cell (cur, col) is written. Discipline: every state's items with dot > 0 are
   its kernel items. Cell: if the written cell carries no conflict mark (and the state is accept-clean), it has
   one of four shapes that the validator's goto_ok / reduce_ok / cell_justified accept. *)
Require Import Ctpg.Base.Prelude Ctpg.Model.Grammar Ctpg.Model.LRGen Ctpg.Valid.LRValid
               Ctpg.Proofs.LRReflect Ctpg.Proofs.LRValidFacts Ctpg.Proofs.GenLists Ctpg.Proofs.GenWf
               Ctpg.Proofs.GenClosure Ctpg.Proofs.GenScan.

Definition stn (sts : list lrstate) (s : nat) : lrstate := nth s sts (mkSt [] []).

(* ---------- set_cell ---------- *)

Lemma set_cell_length tb s c e : length (set_cell tb s c e) = length tb.
Proof. unfold set_cell. apply update_length. Qed.

Lemma set_cell_row_length tb s c e s' : length (nth s' (set_cell tb s c e) []) = length (nth s' tb []).
Proof.
  unfold set_cell. destruct (Nat.eq_dec s s') as [->|Hne].
  - destruct (Nat.lt_ge_cases s' (length tb)) as [Hlt|Hge].
    + rewrite nth_update_eq by assumption. apply update_length.
    + rewrite update_oob by assumption. reflexivity.
  - rewrite nth_update_neq by assumption. reflexivity.
Qed.

Lemma cell_at_set_same tb s c e : s < length tb -> c < length (nth s tb []) -> cell_at (set_cell tb s c e) s c = e.
Proof.
  intros Hs Hc. unfold cell_at, set_cell. rewrite nth_update_eq by assumption. apply nth_update_eq. assumption.
Qed.

Lemma cell_at_set_other tb s c e s' c' : s' <> s \/ c' <> c -> cell_at (set_cell tb s c e) s' c' = cell_at tb s' c'.
Proof.
  intros H. unfold cell_at, set_cell. destruct (Nat.eq_dec s s') as [->|Hne].
  - destruct (Nat.lt_ge_cases s' (length tb)) as [Hlt|Hge].
    + rewrite nth_update_eq by assumption. apply nth_update_neq. destruct H; congruence.
    + rewrite update_oob by assumption. reflexivity.
  - rewrite nth_update_neq by assumption. reflexivity.
Qed.

(* ---------- the discipline of states ---------- *)

Record st_disc (g : grammar) (s : nat) (st : lrstate) : Prop := {
  sd_nodup : NoDup (st_all st);
  sd_ok : forall i, In i (st_all st) -> item_okP g i;
  sd_rootla : forall i, In i (st_all st) -> it_r i = root_rule_idx g -> it_t i = eof_idx g;
  sd_ker_all : forall i, In i (st_kernel st) -> In i (st_all st);
  sd_dot_ker : forall i, In i (st_all st) -> it_d i <> 0 -> In i (st_kernel st);
  sd_zero : s = 0 -> st_kernel st = [root_item g] /\ forall i, In i (st_all st) -> it_d i = 0;
  sd_nonzero : s <> 0 -> (forall i, In i (st_kernel st) -> it_d i <> 0) /\
                         (forall i, In i (st_all st) -> it_d i = 0 -> it_r i <> root_rule_idx g)
}.
Definition all_disc (g : grammar) (sts : list lrstate) : Prop :=
  forall s, s < length sts -> st_disc g s (stn sts s).

Record frame (sts sts' : list lrstate) : Prop := {
  fr_len : length sts <= length sts';
  fr_old : forall s, s < length sts -> stn sts' s = stn sts s
}.

Lemma frame_refl sts : frame sts sts.
Proof. constructor; auto. Qed.

Lemma frame_trans a b c : frame a b -> frame b c -> frame a c.
Proof.
  intros [L1 O1] [L2 O2]. constructor; [lia|]. intros s Hs. rewrite O2 by lia. apply O1. assumption.
Qed.

(* ---------- find_kernel ---------- *)

Lemma same_items_In a b : same_items a b = true -> forall x, In x a <-> In x b.
Proof.
  unfold same_items, subset_items. intros H. apply andb_true_iff in H. destruct H as [H1 H2].
  rewrite forallb_forall in H1, H2. intros x. split; intros Hx; apply mem_item_In; auto.
Qed.

Lemma find_kernel_some sts k : forall i found idx, find_kernel sts k i found = Some idx ->
  found = Some idx \/
  (i <= idx < i + length sts /\ same_items (st_kernel (nth (idx - i) sts (mkSt [] []))) k = true).
Proof.
  induction sts as [|s t IH]; intros i found idx H; cbn in H; [left; assumption|].
  apply IH in H. destruct H as [H|[H1 H2]].
  - destruct (same_items (st_kernel s) k) eqn:E; [|left; assumption].
    inversion H; subst. right. split; [cbn; lia|]. rewrite Nat.sub_diag. exact E.
  - right. split; [cbn; lia|]. replace (idx - i) with (S (idx - S i)) by lia. exact H2.
Qed.

(* ---------- the shift branch of do_transitions ---------- *)

Definition kd (g : grammar) (col : nat) : kind :=
  if Nat.eqb col (nterm_count g + err_idx g) then KShiftErr else KShift.

Definition do_shift (g : grammar) (lim : limits) (cur col : nat) (sts : list lrstate) (tb : table)
           (k : list item) (sr : bool) : (list lrstate * table) + gen_error :=
  let '(idx, sts1, err) :=
    match find_kernel sts k 0 None with
    | Some i => (i, sts, false)
    | None => (length sts, sts ++ [mkSt [] []], Nat.ltb (state_cap lim) (S (length sts)))
    end in
  if err then inr StateCapExceeded else
  let old := nth idx sts1 (mkSt [] []) in
  let new_all := fold_left add_item k (st_all old) in
  let new_ker := fold_left (fun acc x => if mem_item x (st_all old) then acc else add_item acc x) k (st_kernel old) in
  if Nat.ltb (sit_cap lim) (length new_all) then inr VectorCapExceeded else
  inl (update sts1 idx (mkSt new_all new_ker), set_cell tb cur col (mkE (kd g col) (Some idx) sr)).

Lemma do_transitions_eq g lim cur col sts tb :
  do_transitions g lim cur col sts tb =
  match bucket g (st_all (stn sts cur)) col with
  | [] => inl (sts, tb)
  | _ =>
      let s := scan_cell g (bucket g (st_all (stn sts cur)) col) scan0 in
      match sc_kind s with
      | KShift => do_shift g lim cur col sts tb (sc_kernel s) (sc_sr s)
      | KReduce => inl (sts, set_cell tb cur col (mkE KReduce (sc_red s) (sc_has_shift s)))
      | k => inl (sts, set_cell tb cur col (mkE k None (sc_sr s)))
      end
  end.
Proof. reflexivity. Qed.

Lemma fold_keep_all (all : list item) k : forall ker,
  (forall x, In x k -> In x all) ->
  fold_left (fun acc x => if mem_item x all then acc else add_item acc x) k ker = ker.
Proof.
  induction k as [|x k IH]; intros ker H; cbn; [reflexivity|].
  assert (mem_item x all = true) as -> by (apply mem_item_In; apply H; cbn; auto).
  apply IH. intros; apply H; cbn; auto.
Qed.

Lemma fold_keep_none k : forall ker,
  fold_left (fun acc x => if mem_item x [] then acc else add_item acc x) k ker = fold_left add_item k ker.
Proof. induction k as [|x k IH]; intros ker; cbn; [reflexivity|apply IH]. Qed.

Lemma stn_app_l sts e s : s < length sts -> stn (sts ++ e) s = stn sts s.
Proof. intros H. unfold stn. apply app_nth1. assumption. Qed.

Lemma stn_app_last sts st : stn (sts ++ [st]) (length sts) = st.
Proof. unfold stn. rewrite app_nth2 by lia. rewrite Nat.sub_diag. reflexivity. Qed.

Lemma update_app_last {A} (l : list A) y x : update (l ++ [y]) (length l) x = l ++ [x].
Proof. induction l as [|z l IH]; cbn; [reflexivity|]. f_equal. apply IH. Qed.

Section Shift.
  Variable g : grammar.
  Hypothesis WF : wf_facts g.

  Definition kitem_ok (j : item) : Prop :=
    it_d j <> 0 /\ item_okP g j /\ (it_r j = root_rule_idx g -> it_t j = eof_idx g).

  Lemma do_shift_spec lim cur col sts tb K sr sts' tb' :
    all_disc g sts -> 0 < length sts ->
    K <> [] -> (forall j, In j K -> kitem_ok j) ->
    do_shift g lim cur col sts tb K sr = inl (sts', tb') ->
    exists idx, tb' = set_cell tb cur col (mkE (kd g col) (Some idx) sr) /\
      idx < length sts' /\ idx <> 0 /\ (forall j, In j (st_kernel (stn sts' idx)) <-> In j K) /\
      frame sts sts' /\ all_disc g sts' /\
      (length sts' = length sts \/ (length sts' = S (length sts) /\ S (length sts) <= state_cap lim)).
  Proof.
    intros Hd Hlen HK HKok H. unfold do_shift in H.
    destruct (find_kernel sts K 0 None) as [idx|] eqn:Ef.
    - (* an existing state has this kernel: nothing changes *)
      apply find_kernel_some in Ef. destruct Ef as [Ef|[Hidx Hsame]]; [discriminate|].
      rewrite Nat.sub_0_r in Hsame. fold (stn sts idx) in Hsame, H.
      pose proof (same_items_In _ _ Hsame) as Hiff.
      assert (idx < length sts) as Hlt by lia.
      pose proof (Hd idx Hlt) as D.
      assert (forall x, In x K -> In x (st_all (stn sts idx))) as Hsub.
      { intros x Hx. apply (sd_ker_all _ _ _ D). apply Hiff. assumption. }
      rewrite (fold_add_subset K _ Hsub) in H. rewrite (fold_keep_all _ K _ Hsub) in H.
      assert (mkSt (st_all (stn sts idx)) (st_kernel (stn sts idx)) = stn sts idx) as Eeta
          by (destruct (stn sts idx); reflexivity).
      rewrite Eeta in H. unfold stn in H at 2. rewrite update_nth_same in H.
      destruct (Nat.ltb _ _); [discriminate|]. inversion H; subst sts' tb'. clear H.
      exists idx. split; [reflexivity|]. split; [assumption|]. split.
      + intros ->. destruct (sd_zero _ _ _ D eq_refl) as (Ek & _).
        destruct K as [|x K]; [congruence|].
        assert (In x (st_kernel (stn sts 0))) as Hx by (apply Hiff; cbn; auto).
        rewrite Ek in Hx. destruct Hx as [<-|[]]. destruct (HKok (root_item g) (or_introl eq_refl)) as (Hc & _).
        apply Hc. reflexivity.
      + split; [exact Hiff|]. split; [apply frame_refl|]. split; [assumption|]. left; reflexivity.
    - (* a new state *)
      destruct (Nat.ltb (state_cap lim) (S (length sts))) eqn:Ecap; [discriminate|].
      apply Nat.ltb_ge in Ecap.
      assert (nth (length sts) (sts ++ [mkSt [] []]) (mkSt [] []) = mkSt [] []) as Eold
          by (apply (stn_app_last sts (mkSt [] []))).
      rewrite Eold in H. cbn [st_all st_kernel] in H. try rewrite fold_keep_none in H.
      destruct (Nat.ltb _ _); [discriminate|].
      rewrite update_app_last in H.
      inversion H; subst sts' tb'. clear H.
      set (KK := fold_left add_item K []).
      assert (forall j, In j KK <-> In j K) as HKK.
      { intros j. unfold KK. rewrite fold_add_In. cbn. tauto. }
      exists (length sts). split; [reflexivity|]. split; [rewrite app_length; cbn; lia|]. split; [lia|].
      split; [rewrite stn_app_last; cbn [st_kernel]; exact HKK|].
      split; [constructor; [rewrite app_length; lia|intros s Hs; apply stn_app_l; assumption]|].
      split; [|right; rewrite app_length; cbn; split; lia].
      intros s Hs. rewrite app_length in Hs. cbn in Hs.
      destruct (Nat.eq_dec s (length sts)) as [->|Hne].
      + rewrite stn_app_last. constructor; cbn [st_all st_kernel].
        * apply fold_add_NoDup. constructor.
        * intros i Hi. apply HKK in Hi. apply HKok in Hi. apply Hi.
        * intros i Hi. apply HKK in Hi. apply HKok in Hi. apply Hi.
        * auto.
        * auto.
        * intros E. lia.
        * intros _. split.
          -- intros i Hi. apply HKK in Hi. apply HKok in Hi. apply Hi.
          -- intros i Hi E. apply HKK in Hi. apply HKok in Hi. destruct Hi as (Hi & _). congruence.
      + rewrite stn_app_l by lia. apply Hd. lia.
  Qed.
End Shift.

(* ---------- the shape of a conflict-free cell ---------- *)

Definition cf_entry (e : entry) : Prop := e_sr e = false /\ e_kind e <> KRR.

Definition st_clean (g : grammar) (its : list item) : bool :=
  negb (existsb (fun i => Nat.eqb (it_r i) (root_rule_idx g) && is_complete g i) its
        && existsb (fun i => negb (Nat.eqb (it_r i) (root_rule_idx g)) && is_complete g i && Nat.eqb (it_t i) (eof_idx g)) its).

Definition cell_shape (g : grammar) (sts : list lrstate) (its : list item) (c : nat) (e : entry) : Prop :=
  let B := bucket g its c in
  (B = [] /\ e = entry_default) \/
  (B <> [] /\ (forall i, In i B -> is_complete g i = false) /\ e_kind e = kd g c /\
   exists s', e_arg e = Some s' /\ s' < length sts /\ s' <> 0 /\
              forall j, In j (st_kernel (stn sts s')) <-> exists i, In i B /\ j = adv i) \/
  (exists i, B = [i] /\ is_complete g i = true /\ it_r i <> root_rule_idx g /\
             e_kind e = KReduce /\ e_arg e = Some (it_r i)) \/
  (B <> [] /\ (forall i, In i B -> is_complete g i = true /\ it_r i = root_rule_idx g) /\ e_kind e = KSuccess).

Definition cell_good (g : grammar) (sts : list lrstate) (tb : table) (s c : nat) : Prop :=
  cf_entry (cell_at tb s c) -> st_clean g (st_all (stn sts s)) = true ->
  cell_shape g sts (st_all (stn sts s)) c (cell_at tb s c).

Lemma cell_shape_frame g sts sts' its c e :
  length sts <= length sts' ->
  (forall s, s < length sts -> st_kernel (stn sts' s) = st_kernel (stn sts s)) ->
  cell_shape g sts its c e -> cell_shape g sts' its c e.
Proof.
  intros Hl Hk H. unfold cell_shape in *. destruct H as [H|[H|[H|H]]]; auto.
  right; left. destruct H as (A & B & C & s' & D & E & F & G). repeat split; auto.
  exists s'. repeat split; auto; try lia; rewrite Hk in * by assumption; apply G; assumption.
Qed.

Lemma cell_good_frame g sts sts' tb tb' s c :
  length sts <= length sts' ->
  (forall s, s < length sts -> st_kernel (stn sts' s) = st_kernel (stn sts s)) ->
  stn sts' s = stn sts s -> cell_at tb' s c = cell_at tb s c ->
  cell_good g sts tb s c -> cell_good g sts' tb' s c.
Proof.
  intros Hl Hk Hs Hc H. unfold cell_good in *. rewrite Hs, Hc. intros A B.
  eapply cell_shape_frame; eauto.
Qed.

Section Cells.
  Variable g : grammar.
  Hypothesis WF : wf_facts g.

  Lemma bucket_In its c i : In i (bucket g its c) <-> In i its /\ bucket_of g i = c.
  Proof. unfold bucket. rewrite filter_In, Nat.eqb_eq. tauto. Qed.

  Lemma bucket_complete i : item_okP g i -> is_complete g i = true -> bucket_of g i = nterm_count g + it_t i.
  Proof.
    intros (Hr & _) Hc. unfold bucket_of. rewrite Hc. destruct (next_sym g i); reflexivity.
  Qed.

  Lemma bucket_incomplete i : item_okP g i -> is_complete g i = false ->
    exists x, next_sym g i = Some x /\ bucket_of g i = sym_col g x.
  Proof.
    intros (Hr & _) Hc. unfold bucket_of. rewrite Hc. destruct (next_sym g i) as [x|] eqn:En.
    - exists x. auto.
    - apply (next_sym_complete g WF i Hr) in En. congruence.
  Qed.

  Lemma is_rootred_iff i : it_r i < rule_count g -> (is_rootred g i = true <-> it_r i = root_rule_idx g).
  Proof.
    intros Hr. unfold is_rootred. rewrite Nat.eqb_eq. split.
    - intros E. apply (wf_distinct _ WF); [assumption|apply wf_root_lt; assumption|].
      rewrite (wf_root_r _ WF). assumption.
    - intros ->. apply (wf_root_r _ WF).
  Qed.

  Lemma adv_ok i : item_okP g i -> is_complete g i = false -> item_okP g (adv i).
  Proof.
    intros (Hr & Hd & Ht) Hc. unfold is_complete in Hc. apply Nat.leb_gt in Hc.
    unfold item_okP, adv; cbn. repeat split; auto.
  Qed.

  Lemma st_clean_root its i j : st_clean g its = true ->
    In i its -> it_r i = root_rule_idx g -> is_complete g i = true ->
    In j its -> is_complete g j = true -> it_t j = eof_idx g -> it_r j = root_rule_idx g.
  Proof.
    unfold st_clean. intros H Hi Ei Ci Hj Cj Ej. apply negb_true_iff in H. apply andb_false_iff in H.
    destruct H as [H|H].
    - pose proof (existsb_false_all _ _ H i Hi) as Hf. cbn in Hf. rewrite Ei, Nat.eqb_refl, Ci in Hf. discriminate.
    - pose proof (existsb_false_all _ _ H j Hj) as Hf. cbn in Hf. rewrite Cj, Ej, Nat.eqb_refl in Hf.
      rewrite !andb_true_r in Hf. apply negb_false_iff in Hf. apply Nat.eqb_eq. assumption.
  Qed.

  Section OneState.
    Variable s : nat.
    Variable st : lrstate.
    Hypothesis D : st_disc g s st.
    Variable c : nat.
    Let its := st_all st.
    Let B := bucket g its c.

    Lemma B_in i : In i B -> In i its /\ item_okP g i /\ bucket_of g i = c.
    Proof.
      intros H. apply bucket_In in H. destruct H as [H1 H2]. split; [assumption|]. split; [|assumption].
      apply (sd_ok _ _ _ D). assumption.
    Qed.

    (* the bucket of the completed root item contains nothing else *)
    Lemma root_bucket i : st_clean g its = true ->
      In i B -> is_complete g i = true -> it_r i = root_rule_idx g ->
      forall j, In j B -> is_complete g j = true /\ it_r j = root_rule_idx g.
    Proof.
      intros Hcl Hi Ci Ri j Hj.
      destruct (B_in i Hi) as (Ii & Oi & Bi). destruct (B_in j Hj) as (Ij & Oj & Bj).
      rewrite (bucket_complete i Oi Ci), (sd_rootla _ _ _ D i Ii Ri) in Bi.
      destruct (is_complete g j) eqn:Cj.
      - split; [reflexivity|]. rewrite (bucket_complete j Oj Cj) in Bj.
        apply (st_clean_root its i j Hcl Ii Ri Ci Ij Cj). lia.
      - exfalso. destruct (bucket_incomplete j Oj Cj) as (x & Hx & Ex). rewrite Ex in Bj.
        destruct Oj as (Hr & _). destruct (next_sym_ok g WF j x Hr Hx) as (Hs & _ & Hne).
        destruct x as [t|n]; cbn in Bj, Hs.
        + apply Hne. f_equal. lia.
        + apply Nat.ltb_lt in Hs. lia.
    Qed.

    Definition scan_class (S : scan) : Prop :=
      bad S \/
      ((forall i, In i B -> is_complete g i = false) /\
       S = mkScan KShift false false true None (fold_left add_item (map adv B) [])) \/
      (exists i, B = [i] /\ is_complete g i = true /\ it_r i <> root_rule_idx g /\
                 S = mkScan KReduce false true false (Some (it_r i)) []) \/
      ((forall i, In i B -> is_complete g i = true /\ it_r i = root_rule_idx g) /\
       S = mkScan KSuccess false false false None []).

    Lemma bucket_classify : B <> [] -> st_clean g its = true -> scan_class (scan_cell g B scan0).
    Proof.
      intros Hne Hcl. unfold scan_class.
      destruct (existsb (fun i => is_complete g i && is_rootred g i) B) eqn:Ex.
      - apply existsb_exists in Ex. destruct Ex as (i & Hi & Hp). apply andb_true_iff in Hp. destruct Hp as [Ci Ri].
        destruct (B_in i Hi) as (_ & (Hr & _) & _). apply (is_rootred_iff i Hr) in Ri.
        pose proof (root_bucket i Hcl Hi Ci Ri) as Hall.
        right. right. right. split; [assumption|].
        destruct B as [|j rest] eqn:EB; [congruence|].
        destruct (Hall j (or_introl eq_refl)) as (Cj & Rj).
        apply scan_root; [assumption|]. apply is_rootred_iff; [|assumption].
        rewrite Rj. apply wf_root_lt; assumption.
      - assert (norootred g B) as Hn.
        { intros i Hi Ci. pose proof (existsb_false_all _ _ Ex i Hi) as Hf. cbn in Hf. rewrite Ci in Hf. exact Hf. }
        destruct (scan_classify g B Hne Hn) as [H|[H|H]]; auto.
        right. right. left. destruct H as (i & EB & Ci & ES). exists i. repeat split; auto.
        intros Ri. assert (In i B) as Hi by (rewrite EB; cbn; auto).
        destruct (B_in i Hi) as (_ & (Hr & _) & _).
        apply (is_rootred_iff i Hr) in Ri. rewrite (Hn i Hi Ci) in Ri. discriminate.
    Qed.

    (* the entry written for a scan result that is not a shift *)
    Definition nonshift_entry (S : scan) : entry :=
      match sc_kind S with
      | KReduce => mkE KReduce (sc_red S) (sc_has_shift S)
      | k => mkE k None (sc_sr S)
      end.

    Lemma nonshift_cell_shape sts S :
      B <> [] -> scan_class S -> sc_kind S <> KShift -> cf_entry (nonshift_entry S) ->
      cell_shape g sts its c (nonshift_entry S).
    Proof.
      intros Hne HC Hk (Hsr & Hrr). unfold cell_shape. fold B. unfold nonshift_entry in *.
      destruct HC as [Hbad|[(Hall & ES)|[(i & EB & Ci & Ri & ES)|(Hall & ES)]]].
      - exfalso. destruct Hbad as [Hb|(Hb1 & Hb2 & [Hb3|Hb3])].
        + rewrite Hb in Hrr. cbn in Hrr. congruence.
        + congruence.
        + rewrite Hb3 in Hsr. cbn in Hsr. congruence.
      - exfalso. rewrite ES in Hk. cbn in Hk. congruence.
      - right. right. left. exists i. rewrite ES. cbn. auto.
      - right. right. right. rewrite ES. cbn. auto.
    Qed.

    Lemma shift_cell_shape sts S idx :
      B <> [] -> scan_class S -> sc_kind S = KShift ->
      cf_entry (mkE (kd g c) (Some idx) (sc_sr S)) ->
      idx < length sts -> idx <> 0 ->
      (forall j, In j (st_kernel (stn sts idx)) <-> In j (sc_kernel S)) ->
      cell_shape g sts its c (mkE (kd g c) (Some idx) (sc_sr S)).
    Proof.
      intros Hne HC Hk (Hsr & Hrr) Hidx Hidx0 Hker. unfold cell_shape. fold B. cbn in Hsr.
      destruct HC as [Hbad|[(Hall & ES)|[(i & EB & Ci & Ri & ES)|(Hall & ES)]]].
      - exfalso. destruct Hbad as [Hb|(Hb1 & Hb2 & _)]; congruence.
      - right. left. split; [assumption|]. split; [assumption|]. split; [reflexivity|].
        exists idx. cbn. repeat split; auto.
        + intros Hj. apply Hker in Hj. rewrite ES in Hj. cbn in Hj. apply fold_adv_In. assumption.
        + intros Hj. apply Hker. rewrite ES. cbn. apply fold_adv_In. assumption.
      - exfalso. rewrite ES in Hk. cbn in Hk. congruence.
      - exfalso. rewrite ES in Hk. cbn in Hk. congruence.
    Qed.

    (* kernel items produced by any scan of the bucket are well-formed *)
    Lemma scan_kernel_ok j : In j (sc_kernel (scan_cell g B scan0)) -> kitem_ok g j.
    Proof.
      intros H. apply scan_kernel_prov in H. destruct H as [[]|(i & Hi & Ci & ->)].
      destruct (B_in i Hi) as (Ii & Oi & _). unfold kitem_ok. split; [cbn; lia|]. split; [apply adv_ok; assumption|].
      cbn. intros E. apply (sd_rootla _ _ _ D i Ii E).
    Qed.
  End OneState.

  (* ---------- one column ---------- *)

  Lemma do_transitions_spec lim cur col sts tb sts' tb' :
    all_disc g sts -> cur < length sts ->
    cur < length tb -> col < length (nth cur tb []) ->
    cell_at tb cur col = entry_default ->
    do_transitions g lim cur col sts tb = inl (sts', tb') ->
    frame sts sts' /\ all_disc g sts' /\
    (length sts' = length sts \/ (length sts' = S (length sts) /\ S (length sts) <= state_cap lim)) /\
    (tb' = tb \/ exists e, tb' = set_cell tb cur col e) /\
    cell_good g sts' tb' cur col.
  Proof.
    intros Hd Hcur Hrow Hcol Hdef H. rewrite do_transitions_eq in H.
    pose proof (Hd cur Hcur) as D.
    set (its := st_all (stn sts cur)) in *. set (B := bucket g its col) in *.
    destruct B as [|b0 B0] eqn:EB.
    - inversion H; subst sts' tb'. split; [apply frame_refl|]. split; [assumption|]. split; [left; reflexivity|].
      split; [left; reflexivity|]. intros _ _. left. fold its. fold B. rewrite EB, Hdef. auto.
    - assert (B <> []) as Hne by (rewrite EB; discriminate). rewrite <- EB in H. cbn zeta in H.
      set (S := scan_cell g B scan0) in *.
      assert (sc_kind S = KShift \/ sc_kind S <> KShift) as [Ek|Ek] by (destruct (sc_kind S); auto; right; discriminate).
      + rewrite Ek in H.
        destruct (do_shift_spec g lim cur col sts tb (sc_kernel S) (sc_sr S) sts' tb' Hd ltac:(lia)) as
            (idx & Etb & Hidx & Hidx0 & Hker & Hfr & Hd' & Hlen).
        * apply scan0_kshift_kernel. assumption.
        * intros j Hj. eapply scan_kernel_ok; eassumption.
        * assumption.
        * split; [assumption|]. split; [assumption|]. split; [assumption|]. split; [right; eauto|].
          unfold cell_good. rewrite (fr_old _ _ Hfr cur Hcur). fold its.
          rewrite Etb, cell_at_set_same by assumption. intros Hcf Hcl.
          eapply shift_cell_shape; eauto. eapply bucket_classify; eauto.
      + assert (sts' = sts /\ tb' = set_cell tb cur col (nonshift_entry S)) as (-> & ->).
        { unfold nonshift_entry. destruct (sc_kind S); try congruence; inversion H; auto. }
        split; [apply frame_refl|]. split; [assumption|]. split; [left; reflexivity|]. split; [right; eauto|].
        unfold cell_good. fold its. rewrite cell_at_set_same by assumption. intros Hcf Hcl.
        eapply nonshift_cell_shape; eauto. eapply bucket_classify; eauto.
  Qed.
End Cells.

(* ---------- all columns of one state ---------- *)

Lemma tb_step_facts tb tb' cur col :
  (tb' = tb \/ exists e, tb' = set_cell tb cur col e) ->
  length tb' = length tb /\ (forall s, length (nth s tb' []) = length (nth s tb [])) /\
  (forall s c, s <> cur \/ c <> col -> cell_at tb' s c = cell_at tb s c).
Proof.
  intros [->|(e & ->)]; [auto|].
  split; [apply set_cell_length|]. split; [intros; apply set_cell_row_length|].
  intros s c H. apply cell_at_set_other. assumption.
Qed.

Section Columns.
  Variable g : grammar.
  Hypothesis WF : wf_facts g.

  Lemma trans_loop_spec lim cur cols : forall sts tb sts' tb',
    all_disc g sts -> cur < length sts -> cur < length tb ->
    NoDup cols -> (forall c, In c cols -> c < length (nth cur tb [])) ->
    (forall c, In c cols -> cell_at tb cur c = entry_default) ->
    length sts <= state_cap lim ->
    trans_loop g lim cur cols sts tb = inl (sts', tb') ->
    frame sts sts' /\ all_disc g sts' /\ length sts' <= state_cap lim /\
    length tb' = length tb /\ (forall s, length (nth s tb' []) = length (nth s tb [])) /\
    (forall s c, s <> cur \/ ~ In c cols -> cell_at tb' s c = cell_at tb s c) /\
    (forall c, In c cols -> cell_good g sts' tb' cur c).
  Proof.
    induction cols as [|c t IH]; intros sts tb sts' tb' Hd Hcur Hrow Hnd Hcols Hdef Hcap H; cbn [trans_loop] in H.
    - inversion H; subst. split; [apply frame_refl|]. split; [assumption|]. split; [assumption|].
      split; [reflexivity|]. split; [reflexivity|]. split; [reflexivity|]. intros c [].
    - destruct (do_transitions g lim cur c sts tb) as [[sts1 tb1]|err] eqn:E1; [|discriminate].
      inversion Hnd as [|? ? Hc_notin Hnd_t]; subst.
      destruct (do_transitions_spec g WF lim cur c sts tb sts1 tb1 Hd Hcur Hrow
                  (Hcols c (or_introl eq_refl)) (Hdef c (or_introl eq_refl)) E1)
        as (Hfr1 & Hd1 & Hlen1 & Htb1 & Hgood1).
      destruct (tb_step_facts _ _ _ _ Htb1) as (L1 & R1 & C1).
      pose proof (fr_len _ _ Hfr1) as Hl1.
      destruct (IH sts1 tb1 sts' tb') as (Hfr2 & Hd2 & Hcap2 & L2 & R2 & C2 & G2); try assumption.
      + lia.
      + lia.
      + intros c' Hc'. rewrite R1. apply Hcols. cbn; auto.
      + intros c' Hc'. rewrite C1; [apply Hdef; cbn; auto|]. right. intros ->. contradiction.
      + destruct Hlen1 as [Hlen1|[Hlen1 Hlen2]]; lia.
      + split; [eapply frame_trans; eassumption|]. split; [assumption|]. split; [assumption|].
        split; [congruence|]. split; [intros s; rewrite R2; apply R1|].
        split.
        * intros s c0 Hsc. cbn in Hsc. rewrite C2; [apply C1|];
            (destruct Hsc as [Hsc|Hsc]; [left; assumption|right; intros Hx; apply Hsc; first [left; congruence | right; assumption]]).
        * intros c0 [<-|Hc0]; [|apply G2; assumption].
          eapply cell_good_frame; [| | | |exact Hgood1].
          -- apply (fr_len _ _ Hfr2).
          -- intros s Hs. rewrite (fr_old _ _ Hfr2 s Hs). reflexivity.
          -- apply (fr_old _ _ Hfr2). lia.
          -- apply C2. right. assumption.
  Qed.
End Columns.
