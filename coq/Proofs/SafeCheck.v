(* Part 1 sanity: tables produced by the mirror generator pass [validate_safe] / [table_wfb]. *)
Require Import Ctpg.Base.Prelude Ctpg.Model.Grammar Ctpg.Model.LRGen Ctpg.Model.Driver Ctpg.Spec.Cfg Ctpg.Spec.LRSpec
               Ctpg.Model.RegexFront Ctpg.Valid.LRValid Ctpg.Valid.LRSafe Ctpg.Proofs.LRValidCex.

Definition chk_safe (g : grammar) : option (bool * bool * bool * bool) :=
  match gen g with
  | inl (sts, tb) => Some (validate_safe g (map st_all sts) tb, safe_ok g (map st_all sts) tb, closure_min_ok g (map st_all sts),
                           table_wfb g tb (length sts))
  | inr _ => None
  end.

Definition chk_safe_raw (rg : raw_grammar) : option (bool * bool * bool * bool) :=
  match analyze rg with Some g => chk_safe g | None => None end.

(* (validate_safe, safe_ok, closure_min_ok, table_wfb) *)
Example gen_tables_safe :
  (chk_safe g1, chk_safe g2, chk_safe g3) =
  (Some (true, true, true, true), Some (true, true, true, true), Some (true, true, true, true)).
Proof. vm_compute. reflexivity. Qed.
(* the pattern grammar has a resolved shift/reduce conflict (alt | alt): the full validator says no, [safe_ok] yes *)
Example regex_table_safe : chk_safe_raw regex_raw_grammar = Some (false, true, true, true).
Proof. vm_compute. reflexivity. Qed.

(* ---------- [validate] alone does not give memory safety: [closure_min_ok] is needed ----------
   g2 of LRValidCex.v (S -> a ; A -> (empty), A unreachable) with the stray item [A -> ., <eof>] in state 0 and an
   honest ERROR cell (no target) in the goto column of A.  The full validator accepts (nothing forbids extra
   dot-0 items); on the empty input the driver reduces A -> (empty) and reads the uninitialised goto. *)
Definition tbl2' : table :=
  [[mkE KShift (Some 2) false; E; E; mkE KShift (Some 1) false; mkE KReduce (Some 1) false; E];
   [E; E; E; E; mkE KReduce (Some 0) false; E];
   [E; E; E; E; mkE KSuccess None false; E]].
Example validate_not_enough :
  validate g2 sts2 tbl2' = true /\ no_error_symbol g2 tbl2' = true /\
  closure_min_ok g2 sts2 = false /\ validate_safe g2 sts2 tbl2' = false /\
  tree_run g2 tbl2' [] 20 = Crash CrGotoUninit.
Proof. vm_compute. repeat split. Qed.

(* the same table shows why the tight form of capacity independence needs "the unbounded run does not crash":
   with capacity 1 the stack never exceeds 1 entry in either run, yet the bounded run throws where the unbounded one
   crashes (the capacity check comes before the goto target is inspected) *)
Example tight_capacity_needs_no_crash :
  let runc cap := fst (fst (run tree unit g2 tbl2' tree_opts [] cap id_lexer
                              (fun t _ _ _ => Leaf t) (fun _ => Leaf (err_idx g2)) (fun r c args => (c, Node r args)) 20 tt)) in
  runc None = Crash CrGotoUninit /\ runc (Some 1) = Throw /\ runc (Some 2) = Crash CrGotoUninit.
Proof. vm_compute. repeat split. Qed.

(* ---------- [table_wfb] holds of tables with conflicts; the other crash kinds then do occur ----------
   S -> A | B ; A -> a ; B -> a : reduce/reduce conflict on <eof> after a; the cell is KRR without argument. *)
Definition rr_raw : raw_grammar :=
  mkRG [83] [mkRT [97] 0 NoAssoc] [[83]; [65]; [66]]
       [mkRR [83] [RNterm [65]] None; mkRR [83] [RNterm [66]] None;
        mkRR [65] [RTerm [97]] None; mkRR [66] [RTerm [97]] None].
Definition rr_check : option (bool * bool * result tree) :=
  match analyze rr_raw with
  | Some g => match gen g with
              | inl (sts, tb) => Some (table_wfb g tb (length sts), safe_ok g (map st_all sts) tb, tree_run g tb [0] 20)
              | inr _ => None
              end
  | None => None
  end.
Example rr_conflict_table : rr_check = Some (true, false, Crash CrRRArg).
Proof. vm_compute. reflexivity. Qed.
