(* MAIN THEOREM of the grouping property (C05, "consequently operator expressions group by precedence, then by
   associativity, for every expression"):

     grouping : validate_resolved g sts tbl = true -> no_error_symbol g tbl = true -> tokens_ok g w ->
                accepts g tbl w tr -> well_grouped g tr

   for every grammar (any rules besides the binary operator rules), every validated table with resolved
   shift/reduce conflicts, every input of any length.

   Proof: an invariant of the abstract LR machine (Proofs/LRMachine.v) that extends the one of Proofs/LRSound.v by
   - [path]     : consecutive stack states are linked by the table's transitions ([goto_target]),
   - every tree on the tree stack is [well_grouped],
   - [top_ok]   : if the top tree is an operator node (rule i0) and the lookahead a is an operator of the same
                  nonterminal then [sr_choice g i0 a = KReduce]   (the node was reduced on this lookahead: in the
                  state before that reduction the closure put a shift item on a next to the completed item),
   - [adj_ok]   : the same for every leaf [Leaf a] lying directly on an operator node, deeper in the stack,
   - [right_ok] : for every stack entry that is an operator node [b t2 c], the state above it shifts t2 (it is the state
                  in which t2 was shifted after b).
   When [L t R] is reduced by rule i, [adj_ok] gives the left condition; for the right condition the completed item
   [i, 3, y] of the top state leads back to [i, 0, y] under the three symbols, closure gives [i2, 0, t] and then
   [i, 0, t2] there, transitions carry it to the completed item [i, 3, t2] of the top state, whose cell on t2 is a shift
   by [right_ok]: the resolved cell says [sr_choice g i t2 = KShift]. *)
Require Import Ctpg.Base.Prelude Ctpg.Model.Grammar Ctpg.Model.LRGen Ctpg.Model.Driver
               Ctpg.Spec.Cfg Ctpg.Spec.LRSpec Ctpg.Spec.Conflict Ctpg.Spec.Grouping
               Ctpg.Valid.LRValid Ctpg.Valid.LRResolved
               Ctpg.Proofs.LRReflect Ctpg.Proofs.LRMachine Ctpg.Proofs.LRValidFacts Ctpg.Proofs.LRSound
               Ctpg.Proofs.GroupingFacts.

Lemma Forall_firstn' {A} (P : A -> Prop) n : forall l, Forall P l -> Forall P (firstn n l).
Proof. induction n as [|n IH]; intros [|x l] H; cbn; try constructor; inversion H; subst; auto. Qed.

Lemma Forall_skipn' {A} (P : A -> Prop) n : forall l, Forall P l -> Forall P (skipn n l).
Proof. induction n as [|n IH]; intros [|x l] H; cbn; try assumption. inversion H; subst; auto. Qed.

Lemma Forall_rev' {A} (P : A -> Prop) l : Forall P l -> Forall P (rev l).
Proof. rewrite !Forall_forall. intros H x Hx. apply H. apply in_rev. assumption. Qed.

Section Grouping.
  Variable g : grammar.
  Variable sts : list items.
  Variable tbl : table.
  Variable w : list nat.
  Variable ne : bset.
  Variable nf : list bset.
  Hypothesis RF : resolved_facts g sts tbl ne nf.
  Hypothesis Hw : tokens_ok g w.

  Let SF : sound_facts g sts tbl := rf_sound _ _ _ _ _ RF.
  Notation items_of := (state_items sts).
  Notation tc := (term_count g).

  (* ================================================================== *)
  (* binary operator rules                                               *)
  (* ================================================================== *)

  Lemma binop_facts i r e t : binop_at g i r e t ->
    i < rule_count g /\ ri_r (get_ri g i) = r /\ ri_l (get_ri g i) = e /\
    get_rhs g r = [NT e; T t; NT e] /\ ri_n (get_ri g i) = 3 /\ t < tc /\ e < nterm_count g /\
    i <> root_rule_idx g.
  Proof.
    intros (ri & Hi & Hr & Hl & Hrhs).
    destruct (get_ri_nth_error _ _ _ SF i ri Hi) as [Eri Hlt].
    assert (get_rhs g r = [NT e; T t; NT e]) as Eg by (unfold get_rhs; apply nth_error_nth; assumption).
    destruct (sf_ri _ _ _ SF i Hlt) as (_ & Hll & Hn). rewrite Eri, Hr, Eg in Hn. rewrite Eri, Hl in Hll.
    split; [assumption|]. rewrite Eri. split; [assumption|]. split; [assumption|]. split; [assumption|].
    split; [assumption|]. split; [|split; [assumption|]].
    - apply nth_error_In in Hrhs.
      destruct (sf_sym _ _ _ SF _ (T t) Hrhs) as (Hs & _); [cbn; tauto|]. cbn in Hs. apply Nat.ltb_lt. assumption.
    - intros E. subst i. destruct (sf_root_rhs _ _ _ SF) as (x & Hx).
      pose proof (sf_root_r _ _ _ SF) as Hrr. rewrite Eri in Hrr. rewrite Hr in Hrr.
      rewrite Hrr, Hx in Eg. discriminate.
  Qed.

  Lemma binop_unique i i' r e e' t t' : binop_at g i r e t -> binop_at g i' r e' t' -> i = i'.
  Proof.
    intros H1 H2. destruct (binop_facts _ _ _ _ H1) as (L1 & R1 & _). destruct (binop_facts _ _ _ _ H2) as (L2 & R2 & _).
    apply (rf_distinct _ _ _ _ _ RF); try assumption. congruence.
  Qed.

  (* the machine's rule r (a rule_info index) is the operator rule under which the node is looked at *)
  Lemma binop_machine r i e t : r < rule_count g -> binop_at g i (ri_r (get_ri g r)) e t -> i = r.
  Proof.
    intros Hr H. destruct (binop_facts _ _ _ _ H) as (L1 & R1 & _).
    apply (rf_distinct _ _ _ _ _ RF); assumption.
  Qed.

  (* ================================================================== *)
  (* consequences of the validator's checks                              *)
  (* ================================================================== *)

  Lemma first_tail_term t beta la : t < tc -> bset_test (first_tail g ne nf (T t :: beta) la) t = true.
  Proof.
    intros Ht. unfold first_tail. cbn [first_of_syms all_nullable]. apply bset_set_same.
    rewrite bset_empty_length. assumption.
  Qed.

  Lemma first_tail_nil la : la < tc -> bset_test (first_tail g ne nf [] la) la = true.
  Proof.
    intros Ht. unfold first_tail. cbn [first_of_syms all_nullable]. apply bset_set_same.
    rewrite bset_empty_length. assumption.
  Qed.

  (* closure: every rule i of the nonterminal after the dot, with every lookahead of FIRST(beta la) *)
  Lemma closure_rule s j b i t' :
    s < length sts -> In j (items_of s) -> next_sym g j = Some (NT b) ->
    i < rule_count g -> ri_l (get_ri g i) = b -> t' < tc ->
    bset_test (first_tail g ne nf (skipn (S (it_d j)) (rhs_of g j)) (it_t j)) t' = true ->
    In (mkItem i 0 t') (items_of s).
  Proof.
    intros Hs Hj Hnx Hi Hl Ht' Hb.
    pose proof (next_sym_incomplete _ _ _ SF _ _ _ Hs Hj Hnx) as Hic.
    assert (b < nterm_count g) as Hbn by (rewrite <- Hl; apply (sf_ri _ _ _ SF i Hi)).
    destruct (proj1 (sf_slice _ _ _ SF b i Hbn Hi) Hl) as [Hlo Hhi].
    replace i with (fst (nth b (slices g) (0, 0)) + (i - fst (nth b (slices g) (0, 0)))) by lia.
    apply (rf_closure _ _ _ _ _ RF s j b); try assumption. lia.
  Qed.

  (* transitions on nonterminals carry every item *)
  Lemma goto_nt_adv s j b s' :
    s < length sts -> In j (items_of s) -> next_sym g j = Some (NT b) ->
    goto_target g tbl s (NT b) = Some s' -> In (advance j) (items_of s').
  Proof.
    intros Hs Hj Hnx Hg.
    pose proof (next_sym_incomplete _ _ _ SF _ _ _ Hs Hj Hnx) as Hic.
    destruct (rf_goto_nt _ _ _ _ _ RF s j b Hs Hj Hnx Hic) as (s1 & E & _ & Hall).
    assert (s1 = s') by congruence. subst s1. apply Hall. left. reflexivity.
  Qed.

  Lemma goto_kind_reduce s t s' :
    goto_target g tbl s (T t) = Some s' -> e_kind (cell_at tbl s (col_of_term g t)) = KReduce -> False.
  Proof.
    unfold goto_target, col_of_term. cbn [sym_col]. intros H E. rewrite E in H. discriminate.
  Qed.

  (* if the cell (s, t) is a shift, its target holds the advanced item of every item with t after the dot *)
  Lemma shift_adv s t j s' :
    s < length sts -> t < tc -> In j (items_of s) -> next_sym g j = Some (T t) ->
    goto_target g tbl s (T t) = Some s' -> In (advance j) (items_of s').
  Proof.
    intros Hs Ht Hj Hnx Hg.
    pose proof (next_sym_incomplete _ _ _ SF _ _ _ Hs Hj Hnx) as Hic.
    assert (In j (sh_items g sts s t)) as Hsh by (apply in_sh_items; auto).
    assert (sh_items g sts s t <> []) as Hne by (intros E; rewrite E in Hsh; destruct Hsh).
    destruct (rf_cell _ _ _ _ _ RF s t Hs Ht) as (_ & Honly & _ & Hsr).
    destruct (red_items g sts s t) as [|i R'] eqn:ER.
    - destruct (Honly eq_refl Hne) as (s1 & E & _ & Hall). assert (s1 = s') by congruence. subst s1. auto.
    - destruct (Hsr i (or_introl eq_refl) Hne) as [[_ [Hk _]]|[_ (s1 & E & _ & Hall)]].
      + exfalso. eapply goto_kind_reduce; eassumption.
      + assert (s1 = s') by congruence. subst s1. auto.
  Qed.

  (* a reduction in a cell that also has a shift item was chosen by the documented rule *)
  Lemma reduce_won s t r j :
    s < length sts -> t < tc -> is_reduce g tbl s t r ->
    In j (items_of s) -> next_sym g j = Some (T t) -> sr_choice g r t = KReduce.
  Proof.
    intros Hs Ht [Hk Ha] Hj Hnx.
    pose proof (next_sym_incomplete _ _ _ SF _ _ _ Hs Hj Hnx) as Hic.
    assert (In j (sh_items g sts s t)) as Hsh by (apply in_sh_items; auto).
    assert (sh_items g sts s t <> []) as Hne by (intros E; rewrite E in Hsh; destruct Hsh).
    destruct (rf_cell _ _ _ _ _ RF s t Hs Ht) as (_ & Honly & _ & Hsr).
    destruct (red_items g sts s t) as [|i R'] eqn:ER.
    - destruct (Honly eq_refl Hne) as (s1 & E & _). exfalso. eapply goto_kind_reduce; eassumption.
    - destruct (Hsr i (or_introl eq_refl) Hne) as [[Hc [_ Ha']]|[_ (s1 & E & _)]].
      + assert (it_r i = r) by congruence. subst r. assumption.
      + exfalso. eapply goto_kind_reduce; eassumption.
  Qed.

  (* a shift in a cell that also has a completed item (lookahead t) was chosen by the documented rule *)
  Lemma shift_won s t j s' :
    s < length sts -> t < tc -> goto_target g tbl s (T t) = Some s' ->
    In j (items_of s) -> is_complete g j = true -> it_r j <> root_rule_idx g -> it_t j = t ->
    sr_choice g (it_r j) t = KShift.
  Proof.
    intros Hs Ht Hg Hj Hic Hnr Hjt.
    assert (In j (red_items g sts s t)) as Hred by (apply in_red_items; auto).
    destruct (rf_cell _ _ _ _ _ RF s t Hs Ht) as (_ & _ & Hro & Hsr).
    destruct (sh_items g sts s t) as [|x Sh'] eqn:ES.
    - destruct (Hro j Hred eq_refl) as [Hk _]. exfalso. eapply goto_kind_reduce; eassumption.
    - destruct (Hsr j Hred) as [[_ [Hk _]]|[Hc _]]; [discriminate| |assumption].
      exfalso. eapply goto_kind_reduce; eassumption.
  Qed.

  (* ================================================================== *)
  (* the stack is a path of transitions                                  *)
  (* ================================================================== *)

  Inductive path : list nat -> list symbol -> Prop :=
  | path_bot s : path [s] []
  | path_push s ss syms s' X :
      path (s :: ss) syms -> goto_target g tbl s X = Some s' -> path (s' :: s :: ss) (X :: syms).

  Lemma path_skip ss syms k : path ss syms -> k <= length syms -> path (skipn k ss) (skipn k syms).
  Proof.
    intros H; revert k. induction H as [s|s ss syms s' X H IH Hg]; intros k Hk; cbn in *.
    - assert (k = 0) by lia. subst. cbn. constructor.
    - destruct k as [|k]; cbn.
      + econstructor; eassumption.
      + apply IH. lia.
  Qed.

  Definition Base (ss : list nat) (syms : list symbol) (trs : list tree) (rest : list nat) : Prop :=
    stk_ok g sts ss syms /\ path ss syms /\ Forall2 (valid_tree g) syms trs /\
    Forall (fun a => a < eof_idx g) rest.

  Lemma look_le_eof rest : Forall (fun a => a < eof_idx g) rest -> look g rest <= eof_idx g.
  Proof. intros H. destruct rest as [|a r]; cbn; [lia|]. inversion H; subst. lia. Qed.

  (* what one step of the machine does, with everything the validator tells about it *)
  Inductive step_to (ss : list nat) (syms : list symbol) (trs : list tree) (rest : list nat) : cfg -> Prop :=
  | ST_shift cur ss0 nst :
      ss = cur :: ss0 ->
      goto_target g tbl cur (T (look g rest)) = Some nst ->
      Base (nst :: ss) (T (look g rest) :: syms) (Leaf (look g rest) :: trs) (tl rest) ->
      step_to ss syms trs rest (nst :: ss, Leaf (look g rest) :: trs, tl rest)
  | ST_reduce cur ss0 r i nst :
      ss = cur :: ss0 -> r < rule_count g -> r <> root_rule_idx g ->
      is_reduce g tbl cur (look g rest) r ->
      In i (items_of cur) -> it_r i = r -> it_d i = ri_n (get_ri g r) ->
      ri_n (get_ri g r) <= length syms ->
      rev (firstn (ri_n (get_ri g r)) syms) = get_rhs g (ri_r (get_ri g r)) ->
      goto_target g tbl (hd 0 (skipn (ri_n (get_ri g r)) ss)) (NT (ri_l (get_ri g r))) = Some nst ->
      Base (nst :: skipn (ri_n (get_ri g r)) ss) (NT (ri_l (get_ri g r)) :: skipn (ri_n (get_ri g r)) syms)
           (Node (ri_r (get_ri g r)) (rev (firstn (ri_n (get_ri g r)) trs)) :: skipn (ri_n (get_ri g r)) trs) rest ->
      step_to ss syms trs rest
              (nst :: skipn (ri_n (get_ri g r)) ss,
               Node (ri_r (get_ri g r)) (rev (firstn (ri_n (get_ri g r)) trs)) :: skipn (ri_n (get_ri g r)) trs, rest).

  Lemma step_cases ss syms trs rest c' :
    Base ss syms trs rest -> mstep g tbl (ss, trs, rest) = Next c' -> step_to ss syms trs rest c'.
  Proof.
    intros (Hst & Hpa & Hv & Hr). unfold mstep.
    destruct ss as [|cur ss]; [discriminate|].
    pose proof (stk_top_lt _ _ _ SF _ _ _ Hst) as Hcur. pose proof (look_lt _ _ _ SF _ Hr) as Hla.
    pose proof (look_le_eof _ Hr) as Hle.
    destruct (cell tbl cur (nterm_count g + look g rest)) as [e|c] eqn:Ec; [|discriminate].
    pose proof (cell_cell_at _ _ _ _ Ec) as Ee.
    pose proof (sf_cell _ _ _ SF cur _ Hcur (col_lt _ _ Hla)) as Hcj.
    destruct (e_kind e) eqn:Ek; try discriminate.
    - destruct (rev trs); discriminate.
    - (* shift *)
      destruct (e_arg e) as [nst|] eqn:Ea; [|discriminate]. intros Hn; inversion Hn; subst c'; clear Hn.
      rewrite Ee in Ek, Ea. destruct (cj_shift _ _ _ _ _ Hcj (or_introl Ek)) as (s' & Ha' & Hsj & _).
      assert (s' = nst) as Es by congruence. rewrite Es in Hsj. clear Es Ha' s'.
      assert (goto_target g tbl cur (T (look g rest)) = Some nst) as Hg.
      { unfold goto_target. cbn [sym_col]. rewrite Ek.
        pose proof (err_eq _ _ _ SF) as Herr.
        replace (Nat.eqb (look g rest) (err_idx g)) with false by (symmetry; apply Nat.eqb_neq; lia).
        assumption. }
      eapply ST_shift; [reflexivity|exact Hg|]. split; [|split; [|split]].
      + apply (push_ok _ _ _ SF); [assumption| |exact Hsj]. cbn. apply Nat.ltb_lt. assumption.
      + constructor; assumption.
      + constructor; [constructor|assumption].
      + destruct rest as [|a r]; cbn; [constructor|]. inversion Hr; assumption.
    - (* reduce *)
      destruct (e_arg e) as [r|] eqn:Ea; [|discriminate]. rewrite Ee in Ek, Ea.
      destruct (cj_reduce _ _ _ _ _ Hcj Ek) as (r' & Ha' & Hrlt & Hrnr & _ & i & Hi & Hir & Hic).
      assert (r' = r) as Er by congruence. rewrite Er in Hrlt, Hrnr, Hir. clear Er Ha' r'.
      unfold mreduce. rewrite (nth_error_get_ri _ _ _ SF r Hrlt).
      set (ri := get_ri g r). set (n := ri_n ri).
      destruct (Nat.ltb (length (cur :: ss)) n); [discriminate|].
      destruct (sf_item _ _ _ SF cur i Hcur Hi) as (_ & Hdle & _).
      unfold is_complete in Hic. apply Nat.leb_le in Hic. rewrite Hir in Hdle, Hic. fold ri in Hdle, Hic. fold n in Hdle, Hic.
      assert (it_d i = n) as Hd by lia.
      destruct (stk_item _ _ _ SF n _ _ _ i Hst Hi Hd) as (Hnle & Hrev & _).
      destruct (sf_ri _ _ _ SF r Hrlt) as (Hrr & Hrl & Hrn). fold ri in Hrr, Hrl, Hrn. fold n in Hrn.
      assert (rhs_of g i = get_rhs g (ri_r ri)) as Erhs by (unfold rhs_of; rewrite Hir; reflexivity).
      rewrite Erhs in Hrev. rewrite Hrn in Hrev at 2. rewrite firstn_all in Hrev.
      pose proof (stk_skip _ _ _ _ n Hst Hnle) as Hst'.
      pose proof (path_skip _ _ n Hpa Hnle) as Hpa'.
      destruct (skipn n (cur :: ss)) as [|top ss'] eqn:Esk; [discriminate|].
      pose proof (stk_top_lt _ _ _ SF _ _ _ Hst') as Htop.
      destruct (cell tbl top (ri_l ri)) as [e'|] eqn:Ec'; [|discriminate].
      pose proof (cell_cell_at _ _ _ _ Ec') as Ee'.
      assert (ri_l ri < symbol_count g) as Hlc by (unfold symbol_count; lia).
      pose proof (sf_cell _ _ _ SF top _ Htop Hlc) as Hcj'.
      destruct (e_arg e') as [nst|] eqn:Ea'; [|discriminate].
      destruct (Nat.ltb (length trs) n); [discriminate|].
      intros Hn; inversion Hn; subst c'; clear Hn.
      rewrite Ee' in Ea'.
      assert (shift_just g sts top (ri_l ri) nst /\ goto_target g tbl top (NT (ri_l ri)) = Some nst) as [Hsj Hg].
      { unfold goto_target. cbn [sym_col]. destruct (e_kind (cell_at tbl top (ri_l ri))) eqn:Ek'.
        - rewrite (cj_error _ _ _ _ _ Hcj' Ek' Hrl) in Ea'. discriminate.
        - destruct (cj_success _ _ _ _ _ Hcj' Ek') as [Hc _]. unfold col_of_term in Hc. lia.
        - destruct (cj_shift _ _ _ _ _ Hcj' (or_introl Ek')) as (s' & Ha' & Hsj & _).
          split; [|assumption]. congruence.
        - destruct (cj_shift _ _ _ _ _ Hcj' (or_intror Ek')) as (s' & Ha' & Hsj & Hc).
          specialize (Hc Ek'). unfold col_of_term in Hc. lia.
        - destruct (cj_reduce _ _ _ _ _ Hcj' Ek') as (? & _ & _ & _ & Hc & _). lia.
        - destruct (cj_rr _ _ _ _ _ Hcj' Ek'). }
      rewrite <- Esk.
      eapply (ST_reduce (cur :: ss) syms trs rest cur ss r i nst); try eassumption; try reflexivity.
      + split; assumption.
      + fold ri. fold n. rewrite Esk. cbn [hd]. assumption.
      + fold ri. fold n. rewrite Esk. split; [|split; [|split]].
        * apply (push_ok _ _ _ SF); [assumption|cbn; apply Nat.ltb_lt; assumption|exact Hsj].
        * constructor; assumption.
        * constructor; [|apply Forall2_skipn; assumption].
          econstructor; [apply (is_rule_ri _ _ _ SF r Hrlt)|]. fold ri. rewrite <- Hrev.
          apply Forall2_rev. apply Forall2_firstn. assumption.
        * assumption.
  Qed.

  (* ================================================================== *)
  (* trees                                                               *)
  (* ================================================================== *)

  Lemma subtree_inv n r ch : subtree n (Node r ch) -> n = Node r ch \/ exists c, In c ch /\ subtree n c.
  Proof. intros H. inversion H; subst; [left; reflexivity|right; eauto]. Qed.

  Lemma wg_leaf a : well_grouped g (Leaf a).
  Proof. intros n H. inversion H; subst. exact I. Qed.

  Lemma wg_node r ch : node_ok g (Node r ch) -> Forall (well_grouped g) ch -> well_grouped g (Node r ch).
  Proof.
    intros Hn Hch n H. apply subtree_inv in H. destruct H as [->|(c & Hc & Hs)]; [assumption|].
    rewrite Forall_forall in Hch. exact (Hch c Hc n Hs).
  Qed.

  Lemma binop_rhs_of i r e t d y : binop_at g i r e t -> rhs_of g (mkItem i d y) = [NT e; T t; NT e].
  Proof.
    intros H. destruct (binop_facts _ _ _ _ H) as (_ & Hr & _ & Hrhs & _). unfold rhs_of. cbn [it_r].
    rewrite Hr. assumption.
  Qed.

  (* ================================================================== *)
  (* the additional invariants                                           *)
  (* ================================================================== *)

  (* [tr], if an operator node, was reduced by a rule that wins against the operator a *)
  Definition lpend (a : nat) (tr : tree) : Prop :=
    match tr with
    | Node r0 _ => forall i0 e t0 i r, binop_at g i0 r0 e t0 -> binop_at g i r e a -> sr_choice g i0 a = KReduce
    | Leaf _ => True
    end.

  Definition top_ok (trs : list tree) (rest : list nat) : Prop :=
    match trs with tr :: _ => lpend (look g rest) tr | [] => True end.

  Fixpoint adj_ok (trs : list tree) : Prop :=
    match trs with
    | [] => True
    | Leaf a :: tl => match tl with tr :: _ => lpend a tr | [] => True end /\ adj_ok tl
    | Node _ _ :: tl => adj_ok tl
    end.

  (* the state s above an operator node [b t2 c] shifts t2 *)
  Definition rpend (s : nat) (tr : tree) : Prop :=
    match tr with
    | Node r2 [_; Leaf t2; _] =>
        forall i2 e, binop_at g i2 r2 e t2 -> exists s', goto_target g tbl s (T t2) = Some s'
    | _ => True
    end.

  Fixpoint right_ok (ss : list nat) (trs : list tree) : Prop :=
    match ss, trs with
    | s :: ss', tr :: trs' => rpend s tr /\ right_ok ss' trs'
    | _, _ => True
    end.

  Lemma adj_ok_tl x trs : adj_ok (x :: trs) -> adj_ok trs.
  Proof. destruct x; cbn [adj_ok]; tauto. Qed.

  Lemma adj_ok_skipn n : forall trs, adj_ok trs -> adj_ok (skipn n trs).
  Proof.
    induction n as [|n IH]; intros trs H; [assumption|]. destruct trs as [|x trs]; [exact I|].
    cbn [skipn]. apply IH. eapply adj_ok_tl; eassumption.
  Qed.

  Lemma right_ok_skipn n : forall ss trs, right_ok ss trs -> right_ok (skipn n ss) (skipn n trs).
  Proof.
    induction n as [|n IH]; intros ss trs H; [assumption|]. destruct ss as [|s ss]; [destruct (skipn _ trs); exact I|].
    destruct trs as [|x trs]; [cbn; destruct (skipn n ss); exact I|].
    cbn [skipn]. apply IH. cbn [right_ok] in H. tauto.
  Qed.

  Definition Extra (ss : list nat) (trs : list tree) (rest : list nat) : Prop :=
    Forall (well_grouped g) trs /\ top_ok trs rest /\ adj_ok trs /\ right_ok ss trs.

  (* ---------- the top four states under an operator rule's right side ---------- *)
  Definition back_items (s' s : nat) (X : symbol) : Prop :=
    forall j d, In j (items_of s') -> it_d j = S d ->
                In (mkItem (it_r j) d (it_t j)) (items_of s) /\ nth_error (rhs_of g j) d = Some X.

  Lemma stack3 ss syms X1 X2 X3 :
    stk_ok g sts ss syms -> path ss syms -> 3 <= length syms -> rev (firstn 3 syms) = [X1; X2; X3] ->
    exists cur s2 s1 q ss' syms',
      ss = cur :: s2 :: s1 :: q :: ss' /\ syms = X3 :: X2 :: X1 :: syms' /\
      goto_target g tbl q X1 = Some s1 /\ goto_target g tbl s1 X2 = Some s2 /\ goto_target g tbl s2 X3 = Some cur /\
      q < length sts /\ s1 < length sts /\ s2 < length sts /\ cur < length sts /\
      back_items cur s2 X3 /\ back_items s2 s1 X2 /\ back_items s1 q X1.
  Proof.
    intros Hst Hpa Hlen Hrev. destruct syms as [|a [|b [|c syms']]]; cbn in Hlen; try lia.
    cbn in Hrev. inversion Hrev; subst X1 X2 X3. clear Hrev Hlen.
    inversion Hpa as [|s2 ss2 syms2 cur X Hpa2 Hg3]; subst.
    inversion Hpa2 as [|s1 ss1 syms1 ? X Hpa1 Hg2]; subst.
    inversion Hpa1 as [|q ss0 syms0 ? X Hpa0 Hg1]; subst.
    inversion Hst as [|? ? ? ? ? Hst2 Hl3 _ Hb3]; subst.
    inversion Hst2 as [|? ? ? ? ? Hst1 Hl2 _ Hb2]; subst.
    inversion Hst1 as [|? ? ? ? ? Hst0 Hl1 _ Hb1]; subst.
    pose proof (stk_top_lt _ _ _ SF _ _ _ Hst0) as Hl0.
    exists cur, s2, s1, q, ss0, syms'. repeat split; try assumption; try reflexivity.
    - apply Hb3; assumption.
    - apply Hb3; assumption.
    - apply Hb2; assumption.
    - apply Hb2; assumption.
    - apply Hb1; assumption.
    - apply Hb1; assumption.
  Qed.

  (* ---------- the three facts established when an operator rule is reduced ---------- *)
  Section Reduce.
    Variables (ss : list nat) (syms : list symbol) (trs : list tree) (rest : list nat).
    Variables (r nst : nat) (im : item).
    Notation n := (ri_n (get_ri g r)).
    Hypothesis Hst : stk_ok g sts ss syms.
    Hypothesis Hpa : path ss syms.
    Hypothesis Hrest : Forall (fun a => a < eof_idx g) rest.
    Hypothesis Hrlt : r < rule_count g.
    Hypothesis Hrnr : r <> root_rule_idx g.
    Hypothesis Hred : is_reduce g tbl (hd 0 ss) (look g rest) r.
    Hypothesis Him : In im (items_of (hd 0 ss)).
    Hypothesis Himr : it_r im = r.
    Hypothesis Himd : it_d im = n.
    Hypothesis Hnle : n <= length syms.
    Hypothesis Hrev : rev (firstn n syms) = get_rhs g (ri_r (get_ri g r)).
    Hypothesis Hgoto : goto_target g tbl (hd 0 (skipn n ss)) (NT (ri_l (get_ri g r))) = Some nst.

    (* the stack under an operator rule r *)
    Lemma reduce_stack e t : binop_at g r (ri_r (get_ri g r)) e t ->
      n = 3 /\
      exists cur s2 s1 q ss' syms',
        ss = cur :: s2 :: s1 :: q :: ss' /\ syms = NT e :: T t :: NT e :: syms' /\
        goto_target g tbl q (NT e) = Some s1 /\ goto_target g tbl s1 (T t) = Some s2 /\
        goto_target g tbl s2 (NT e) = Some cur /\
        q < length sts /\ s1 < length sts /\ s2 < length sts /\ cur < length sts /\
        In (mkItem r 3 (it_t im)) (items_of cur) /\ In (mkItem r 2 (it_t im)) (items_of s2) /\
        In (mkItem r 1 (it_t im)) (items_of s1) /\ In (mkItem r 0 (it_t im)) (items_of q) /\
        it_t im < tc /\ nst = s1.
    Proof.
      intros Hb. destruct (binop_facts _ _ _ _ Hb) as (_ & _ & Hl & Hrhs & Hn3 & Ht & He & _).
      split; [assumption|]. rewrite Hn3 in *. rewrite Hrhs in Hrev.
      destruct (stack3 _ _ _ _ _ Hst Hpa Hnle Hrev)
        as (cur & s2 & s1 & q & ss' & syms' & Ess & Esy & G1 & G2 & G3 & Lq & L1 & L2 & Lc & B3 & B2 & B1).
      exists cur, s2, s1, q, ss', syms'. subst ss. cbn [hd skipn] in *.
      destruct im as [r' d y]. cbn [it_r it_d it_t] in *. subst r' d.
      destruct (B3 _ 2 Him eq_refl) as [I2 _]. cbn [it_r it_d it_t] in I2.
      destruct (B2 _ 1 I2 eq_refl) as [I1 _]. cbn [it_r it_d it_t] in I1.
      destruct (B1 _ 0 I1 eq_refl) as [I0 _]. cbn [it_r it_d it_t] in I0.
      destruct (sf_item _ _ _ SF cur _ Lc Him) as (_ & _ & Hy). cbn [it_t] in Hy.
      repeat split; try assumption; try reflexivity.
      rewrite Hl in Hgoto. congruence.
    Qed.

    (* LEFT: the new node wins against the lookahead, if that is an operator of the same nonterminal *)
    Lemma reduce_top_ok kids : lpend (look g rest) (Node (ri_r (get_ri g r)) kids).
    Proof.
      intros i0 e t0 i r' Hb0 Hb.
      assert (i0 = r) by (eapply binop_machine; eassumption). subst i0.
      destruct (reduce_stack _ _ Hb0)
        as (_ & cur & s2 & s1 & q & ss' & syms' & Ess & Esy & G1 & G2 & G3 & Lq & L1 & L2 & Lc & I3 & I2 & I1 & I0 & Hy & _).
      destruct (binop_facts _ _ _ _ Hb) as (Hilt & _ & Hil & _ & _ & Ha & _).
      set (y := it_t im) in *.
      (* closure in the state after [e t0]: the dot-0 item of rule i with lookahead y *)
      assert (In (mkItem i 0 y) (items_of s2)) as J0.
      { apply (closure_rule s2 (mkItem r 2 y) e); try assumption.
        - unfold next_sym. rewrite (binop_rhs_of _ _ _ _ _ _ Hb0). reflexivity.
        - rewrite (binop_rhs_of _ _ _ _ _ _ Hb0). cbn [it_d it_t skipn]. apply first_tail_nil. assumption. }
      assert (In (mkItem i 1 y) (items_of cur)) as J1.
      { apply (goto_nt_adv s2 (mkItem i 0 y) e cur); try assumption.
        unfold next_sym. rewrite (binop_rhs_of _ _ _ _ _ _ Hb). reflexivity. }
      subst ss. cbn [hd] in Hred.
      apply (reduce_won cur (look g rest) r (mkItem i 1 y)); try assumption.
      unfold next_sym. rewrite (binop_rhs_of _ _ _ _ _ _ Hb). reflexivity.
    Qed.

    (* RIGHT, recorded: the state above the new operator node [b t2 c] shifts t2 *)
    Lemma reduce_rpend : rpend nst (Node (ri_r (get_ri g r)) (rev (firstn n trs))).
    Proof.
      unfold rpend. destruct (rev (firstn n trs)) as [|b [|[t2|? ?] [|c [|? ?]]]]; try exact I.
      intros i2 e Hb2.
      assert (i2 = r) by (eapply binop_machine; eassumption). subst i2.
      destruct (reduce_stack _ _ Hb2)
        as (_ & cur & s2 & s1 & q & ss' & syms' & Ess & Esy & G1 & G2 & G3 & Lq & L1 & L2 & Lc & I3 & I2 & I1 & I0 & Hy & En).
      subst nst. exists s2. assumption.
    Qed.

    (* the new node is grouped as documented *)
    Lemma reduce_node_ok : adj_ok trs -> right_ok ss trs ->
      node_ok g (Node (ri_r (get_ri g r)) (rev (firstn n trs))).
    Proof.
      intros Hadj Hright. unfold node_ok.
      destruct (rev (firstn n trs)) as [|L [|[t|? ?] [|R [|? ?]]]] eqn:Ekids; try exact I.
      intros i e Hb.
      assert (i = r) by (eapply binop_machine; eassumption). subst i.
      destruct (reduce_stack _ _ Hb)
        as (Hn3 & cur & s2 & s1 & q & ss' & syms' & Ess & Esy & G1 & G2 & G3 & Lq & L1 & L2 & Lc & I3 & I2 & I1 & I0 & Hy & En).
      destruct (binop_facts _ _ _ _ Hb) as (_ & _ & Hl & _ & _ & Ht & _).
      assert (firstn n trs = [R; Leaf t; L]) as Ef.
      { rewrite <- (rev_involutive (firstn n trs)), Ekids. reflexivity. }
      rewrite Hn3 in Ef. destruct trs as [|R' [|Lt [|L' trs']]]; cbn in Ef; try discriminate.
      inversion Ef; subst R' Lt L'. clear Ef.
      split.
      - (* left operand *)
        apply adj_ok_tl in Hadj. cbn [adj_ok] in Hadj. destruct Hadj as [Hl0 _].
        unfold left_operand_ok. destruct L as [a|r0 ch0]; [exact I|].
        intros i0 t0 Hb0. exact (Hl0 i0 e t0 r _ Hb0 Hb).
      - (* right operand *)
        unfold right_operand_ok. destruct R as [a|r2 [|b [|[t2|? ?] [|c [|? ?]]]]]; try exact I.
        intros i2 Hb2. subst ss. cbn [right_ok] in Hright. destruct Hright as [Hrp _].
        destruct (Hrp i2 e Hb2) as (s' & Hsh).
        destruct (binop_facts _ _ _ _ Hb2) as (Hi2lt & _ & Hi2l & _ & _ & Ht2 & _).
        set (y := it_t im) in *.
        (* under the three symbols: [r, 0, y]; closure gives [i2, 0, t], then [r, 0, t2] *)
        assert (In (mkItem i2 0 t) (items_of q)) as J0.
        { apply (closure_rule q (mkItem r 0 y) e); try assumption.
          - unfold next_sym. rewrite (binop_rhs_of _ _ _ _ _ _ Hb). reflexivity.
          - rewrite (binop_rhs_of _ _ _ _ _ _ Hb). cbn [it_d it_t skipn]. apply first_tail_term. assumption. }
        assert (In (mkItem r 0 t2) (items_of q)) as K0.
        { apply (closure_rule q (mkItem i2 0 t) e); try assumption.
          - unfold next_sym. rewrite (binop_rhs_of _ _ _ _ _ _ Hb2). reflexivity.
          - rewrite (binop_rhs_of _ _ _ _ _ _ Hb2). cbn [it_d it_t skipn]. apply first_tail_term. assumption. }
        (* the transitions carry it to the top state *)
        assert (In (mkItem r 1 t2) (items_of s1)) as K1.
        { apply (goto_nt_adv q (mkItem r 0 t2) e s1); try assumption.
          unfold next_sym. rewrite (binop_rhs_of _ _ _ _ _ _ Hb). reflexivity. }
        assert (In (mkItem r 2 t2) (items_of s2)) as K2.
        { apply (shift_adv s1 t (mkItem r 1 t2) s2); try assumption.
          unfold next_sym. rewrite (binop_rhs_of _ _ _ _ _ _ Hb). reflexivity. }
        assert (In (mkItem r 3 t2) (items_of cur)) as K3.
        { apply (goto_nt_adv s2 (mkItem r 2 t2) e cur); try assumption.
          unfold next_sym. rewrite (binop_rhs_of _ _ _ _ _ _ Hb). reflexivity. }
        (* the top state shifts t2 although [r, 3, t2] is complete in it *)
        apply (shift_won cur t2 (mkItem r 3 t2) s'); try assumption; try reflexivity.
        unfold is_complete. cbn [it_r it_d]. rewrite Hn3. reflexivity.
    Qed.
  End Reduce.

  (* ================================================================== *)
  (* the invariant and its preservation                                  *)
  (* ================================================================== *)

  Definition GInv (c : cfg) : Prop :=
    let '(ss, trs, rest) := c in
    exists syms, Base ss syms trs rest /\ Extra ss trs rest.

  Lemma GInv_init : GInv ([0], [], w).
  Proof.
    exists []. split.
    - split; [constructor|]. split; [constructor|]. split; [constructor|exact Hw].
    - split; [constructor|]. split; [exact I|]. split; exact I.
  Qed.

  Lemma GInv_next c c' : GInv c -> mstep g tbl c = Next c' -> GInv c'.
  Proof.
    destruct c as [[ss trs] rest]. intros (syms & HB & Hwg & Htop & Hadj & Hright) Hstep.
    destruct (step_cases _ _ _ _ _ HB Hstep)
      as [cur ss0 nst Ess Hg HB' | cur ss0 r i nst Ess Hrlt Hrnr Hred Hi Hir Hid Hnle Hrev Hg HB'].
    - (* shift *)
      exists (T (look g rest) :: syms). split; [assumption|]. split; [|split; [|split]].
      + constructor; [apply wg_leaf|assumption].
      + exact I.
      + cbn [adj_ok]. split; [|assumption]. destruct trs as [|tr trs']; [exact I|exact Htop].
      + subst ss. cbn [right_ok]. split; [exact I|assumption].
    - (* reduce *)
      destruct HB as (Hst & Hpa & Hv & Hr).
      exists (NT (ri_l (get_ri g r)) :: skipn (ri_n (get_ri g r)) syms). split; [assumption|].
      subst ss. split; [|split; [|split]].
      + constructor.
        * apply wg_node.
          -- eapply reduce_node_ok with (im := i) (syms := syms) (rest := rest); eassumption.
          -- apply Forall_rev'. apply Forall_firstn'. assumption.
        * apply Forall_skipn'. assumption.
      + cbn [top_ok]. eapply reduce_top_ok with (im := i) (syms := syms) (ss := cur :: ss0); eassumption.
      + cbn [adj_ok]. apply adj_ok_skipn. assumption.
      + cbn [right_ok]. split.
        * eapply reduce_rpend with (im := i) (syms := syms) (ss := cur :: ss0); eassumption.
        * apply right_ok_skipn. assumption.
  Qed.

  Lemma mstep_acc_in ss trs rest t : mstep g tbl (ss, trs, rest) = Acc t -> In t trs.
  Proof.
    unfold mstep. destruct ss as [|cur ss]; [discriminate|].
    destruct (cell tbl cur (nterm_count g + look g rest)) as [e|c]; [|discriminate].
    destruct (e_kind e); try discriminate.
    - destruct (rev trs) as [|v vs] eqn:E; [discriminate|]. intros H; inversion H; subst v.
      apply in_rev. rewrite E. left. reflexivity.
    - destruct (e_arg e); discriminate.
    - destruct (e_arg e) as [r|]; [|discriminate]. unfold mreduce.
      destruct (nth_error (rule_infos g) r) as [ri|]; [|discriminate].
      destruct (Nat.ltb (length (cur :: ss)) (ri_n ri)); [discriminate|].
      destruct (skipn (ri_n ri) (cur :: ss)) as [|top ?]; [discriminate|].
      destruct (cell tbl top (ri_l ri)) as [e'|]; [|discriminate].
      destruct (e_arg e'); [|discriminate]. destruct (Nat.ltb (length trs) (ri_n ri)); discriminate.
  Qed.

  Lemma GInv_acc c t : GInv c -> mstep g tbl c = Acc t -> well_grouped g t.
  Proof.
    destruct c as [[ss trs] rest]. intros (syms & _ & Hwg & _) H. apply mstep_acc_in in H.
    rewrite Forall_forall in Hwg. apply Hwg. assumption.
  Qed.

  Lemma mrun_grouped n : forall c t, GInv c -> mrun g tbl n c = Some t -> well_grouped g t.
  Proof.
    induction n as [|n IH]; intros c t Hi Hm; cbn [mrun] in Hm; [discriminate|].
    destruct (mstep g tbl c) as [c'|v| |] eqn:Em; try discriminate.
    - apply (IH c' t); [eapply GInv_next; eassumption|assumption].
    - inversion Hm; subst v. eapply GInv_acc; eassumption.
  Qed.
End Grouping.

(* ================================================================== *)
(* MAIN THEOREM                                                        *)
(* ================================================================== *)

Theorem grouping_facts : forall g sts tbl ne nf w tr,
  resolved_facts g sts tbl ne nf ->
  no_error_symbol g tbl = true ->
  tokens_ok g w ->
  accepts g tbl w tr ->
  well_grouped g tr.
Proof.
  intros g sts tbl ne nf w tr RF Hne Hw Hacc.
  pose proof (rf_sound _ _ _ _ _ RF) as SF.
  destruct (accepts_mrun g tbl w (SInv g sts w)) with (t := tr) as (n & Hn).
  - intros c. apply SInv_not_bad; assumption.
  - intros c c'. apply SInv_next; assumption.
  - exact (no_error_symbol_cell g tbl Hne).
  - apply SInv_init. assumption.
  - assumption.
  - eapply mrun_grouped; try eassumption. apply GInv_init. assumption.
Qed.

Theorem grouping : forall g sts tbl w tr,
  validate_resolved g sts tbl = true ->
  no_error_symbol g tbl = true ->
  tokens_ok g w ->
  accepts g tbl w tr ->
  well_grouped g tr.
Proof.
  intros g sts tbl w tr Hv. eapply grouping_facts. apply validate_resolved_facts. exact Hv.
Qed.

(* the accepted tree is moreover a derivation tree of the input (Proofs/LRSound.v), so the theorem speaks about the
   derivation tree that the parser picks among those of an ambiguous grammar *)
Corollary grouping_derivation : forall g sts tbl w tr,
  validate_resolved g sts tbl = true ->
  no_error_symbol g tbl = true ->
  tokens_ok g w ->
  accepts g tbl w tr ->
  derives_tree g tr w /\ well_grouped g tr.
Proof.
  intros g sts tbl w tr Hv Hne Hw Hacc. split.
  - apply (lr_sound g sts tbl w tr); try assumption. apply validate_resolved_sound. assumption.
  - eapply grouping; eassumption.
Qed.

Print Assumptions grouping.
Print Assumptions grouping_derivation.
