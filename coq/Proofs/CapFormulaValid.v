(* (K3) for validated tables: the hypotheses of Proofs/CapFormula.v about the table follow from the validator.
   A table that passes [validate_sound] may have more rows than states, and nothing is known of the extra rows;
   the counting theorem is therefore instantiated with the state set  Q s := s < length sts , which is closed under
   the targets the driver reads (every shift / goto target of a justified cell is a state).
   With [no_error_symbol] a justified table has no shift-on-error cell, and its error column is empty.
   That <eof> is never shifted is true of the generator's tables ([lookahead_generated], [states_nonempty], checked
   by [term_checks]) but not implied by [validate_sound] alone (a state without items may be a shift target). *)
Require Import Ctpg.Base.Prelude Ctpg.Model.Grammar Ctpg.Model.LRGen Ctpg.Model.Driver
               Ctpg.Spec.Cfg Ctpg.Spec.LRSpec Ctpg.Spec.Eval Ctpg.Valid.LRValid Ctpg.Valid.LRProductive
               Ctpg.Proofs.LRReflect Ctpg.Proofs.LRValidFacts Ctpg.Proofs.LRComplete
               Ctpg.Proofs.DriverBasics Ctpg.Proofs.SafeBasics Ctpg.Proofs.SafeCap
               Ctpg.Proofs.ReportViable Ctpg.Proofs.TermViable Ctpg.Proofs.TermAll
               Ctpg.Proofs.CapFormula.

Section Valid.
  Variable g : grammar.
  Variable sts : list items.
  Variable tbl : table.
  Hypothesis SF : sound_facts g sts tbl.
  Hypothesis Hne : no_error_symbol g tbl = true.

  Lemma cell_col_lt st col e : st < length sts -> cell tbl st col = inl e -> col < symbol_count g.
  Proof.
    intros Hs Hc. unfold cell in Hc. destruct (nth_error tbl st) as [row|] eqn:Hr; [|discriminate].
    destruct (nth_error row col) as [e'|] eqn:He; [|discriminate].
    rewrite <- (sf_dims3 _ _ _ SF st Hs). rewrite (nth_error_nth _ _ [] Hr). apply nth_error_Some. congruence.
  Qed.

  Lemma Qshift_valid st col e nst : st < length sts -> cell tbl st col = inl e -> e_kind e = KShift ->
    e_arg e = Some nst -> nst < length sts.
  Proof.
    intros Hs Hc Hk Ha. pose proof (cell_col_lt _ _ _ Hs Hc) as Hcol.
    pose proof (cell_cell_at _ _ _ _ Hc) as Ee. subst e.
    pose proof (sf_cell _ _ _ SF st col Hs Hcol) as Hcj.
    destruct (cj_shift _ _ _ _ _ Hcj (or_introl Hk)) as (s' & Ha' & (Hlt & _) & _). congruence.
  Qed.

  Lemma Qgoto_valid st r ri e nst : st < length sts -> nth_error (rule_infos g) r = Some ri ->
    cell tbl st (ri_l ri) = inl e -> e_arg e = Some nst -> nst < length sts.
  Proof.
    intros Hs Hri Hc Ha.
    assert (Hr : r < rule_count g).
    { rewrite <- (sf_len_ri _ _ _ SF). apply nth_error_Some. congruence. }
    rewrite (nth_error_get_ri _ _ _ SF r Hr) in Hri. inversion Hri; subst ri.
    destruct (sf_ri _ _ _ SF r Hr) as (_ & Hl & _).
    pose proof (cell_col_lt _ _ _ Hs Hc) as Hcol.
    pose proof (cell_cell_at _ _ _ _ Hc) as Ee. subst e.
    pose proof (sf_cell _ _ _ SF st _ Hs Hcol) as Hcj.
    destruct (e_kind (cell_at tbl st (ri_l (get_ri g r)))) eqn:Ek.
    - rewrite (cj_error _ _ _ _ _ Hcj Ek Hl) in Ha. discriminate.
    - destruct (cj_success _ _ _ _ _ Hcj Ek) as [Hc' _]. unfold col_of_term in Hc'. lia.
    - destruct (cj_shift _ _ _ _ _ Hcj (or_introl Ek)) as (s' & Ha' & (Hlt & _) & _). congruence.
    - destruct (cj_shift _ _ _ _ _ Hcj (or_intror Ek)) as (s' & Ha' & (Hlt & _) & _). congruence.
    - destruct (cj_reduce _ _ _ _ _ Hcj Ek) as (? & _ & _ & _ & Hc' & _). lia.
    - destruct (cj_rr _ _ _ _ _ Hcj Ek).
  Qed.

  Lemma no_err_shift_valid st e : cell tbl st (nterm_count g + err_idx g) = inl e -> e_kind e <> KShift.
  Proof. intros Hc Hk. rewrite (no_error_symbol_cell g tbl Hne _ _ Hc) in Hk. discriminate. Qed.

  Lemma no_shifterr_valid st t e : st < length sts -> cell tbl st (nterm_count g + t) = inl e -> e_kind e <> KShiftErr.
  Proof.
    intros Hs Hc Hk. pose proof (cell_col_lt _ _ _ Hs Hc) as Hcol.
    pose proof (cell_cell_at _ _ _ _ Hc) as Ee.
    pose proof (sf_cell _ _ _ SF st _ Hs Hcol) as Hcj.
    rewrite Ee in Hk. destruct (cj_shift _ _ _ _ _ Hcj (or_intror Hk)) as (s' & _ & _ & Hcl).
    specialize (Hcl Hk). unfold col_of_term in Hcl. assert (t = err_idx g) by lia. subst t.
    rewrite <- Ee in Hk. rewrite (no_error_symbol_cell g tbl Hne _ _ Hc) in Hk. discriminate.
  Qed.
End Valid.

(* (K3) for a soundly validated table without error symbol that never shifts <eof> from a state:
   any semantic algebra, any options, any lexer with non-empty lexemes *)
Theorem cstring_capacity_suffices_validated :
  forall (V C : Type) g sts tbl opts buf lexer
         (term_f : nat -> nat -> nat -> spoint -> V) (err_f : spoint -> V) (rule_f : nat -> C -> list V -> C * V),
  validate_sound g sts tbl = true ->
  no_error_symbol g tbl = true ->
  (forall s, s < length sts -> e_kind (cell_at tbl s (nterm_count g + eof_idx g)) <> KShift) ->
  empty_rules g = 0 ->
  lexer_in_range lexer ->
  forall fuel c,
    run V C g tbl opts buf (Some (cstring_cap g (length buf))) lexer term_f err_f rule_f fuel c =
    run V C g tbl opts buf None lexer term_f err_f rule_f fuel c /\
    fst (fst (run V C g tbl opts buf (Some (cstring_cap g (length buf))) lexer term_f err_f rule_f fuel c)) <> Throw /\
    never_above V C g tbl opts buf lexer term_f err_f rule_f (length buf + 1) fuel c.
Proof.
  intros V C g sts tbl opts buf lexer term_f err_f rule_f Hv Hne Heof Hempty Hlex fuel c.
  pose proof (sound_facts_of g sts tbl Hv) as SF.
  assert (Hlex' : forall v p rest t len, snd (lexer v p rest) = Some (t, len) -> 0 < len)
    by (intros v p rest t len H; exact (proj1 (Hlex v p rest t len H))).
  assert (Heof' : forall st e, st < length sts -> cell tbl st (nterm_count g + eof_idx g) = inl e -> e_kind e <> KShift).
  { intros st e Hs Hc Hk. apply (Heof st Hs). rewrite <- (cell_cell_at _ _ _ _ Hc). exact Hk. }
  assert (Herr' : forall st e, st < length sts -> cell tbl st (nterm_count g + err_idx g) = inl e -> e_kind e <> KShift)
    by (intros st e _ Hc; exact (no_err_shift_valid g tbl Hne st e Hc)).
  destruct (cstring_capacity_suffices_Q V C g tbl opts buf lexer term_f err_f rule_f (fun s => s < length sts)
              (sf_dims2 _ _ _ SF) (Qshift_valid g sts tbl SF) (Qgoto_valid g sts tbl SF) Hempty Heof' Herr'
              (no_shifterr_valid g sts tbl SF Hne) Hlex' fuel c) as [E Ht].
  split; [exact E|]. split; [exact Ht|].
  exact (height_le_bytes V C g tbl opts buf lexer term_f err_f rule_f (fun s => s < length sts)
           (sf_dims2 _ _ _ SF) (Qshift_valid g sts tbl SF) (Qgoto_valid g sts tbl SF) Hempty Heof' Herr'
           (no_shifterr_valid g sts tbl SF Hne) Hlex' fuel c).
Qed.

(* ... in particular for tables whose item sets are generated ([lookahead_generated], [states_nonempty]: true of the
   mirror generator's output, Proofs/GenTermChecks.v): there <eof> is never shifted (Proofs/TermViable.v) *)
Theorem cstring_capacity_suffices_generated :
  forall (V C : Type) g sts tbl opts buf lexer
         (term_f : nat -> nat -> nat -> spoint -> V) (err_f : spoint -> V) (rule_f : nat -> C -> list V -> C * V),
  validate_sound g sts tbl = true ->
  no_error_symbol g tbl = true ->
  lookahead_generated g sts -> states_nonempty sts ->
  empty_rules g = 0 ->
  lexer_in_range lexer ->
  forall fuel c,
    run V C g tbl opts buf (Some (cstring_cap g (length buf))) lexer term_f err_f rule_f fuel c =
    run V C g tbl opts buf None lexer term_f err_f rule_f fuel c /\
    fst (fst (run V C g tbl opts buf (Some (cstring_cap g (length buf))) lexer term_f err_f rule_f fuel c)) <> Throw /\
    never_above V C g tbl opts buf lexer term_f err_f rule_f (length buf + 1) fuel c.
Proof.
  intros V C g sts tbl opts buf lexer term_f err_f rule_f Hv Hne Hgen Hnon Hempty Hlex fuel c.
  apply (cstring_capacity_suffices_validated V C g sts tbl); try assumption.
  intros s Hs Hk. exact (no_eof_shift g sts tbl (sound_facts_of g sts tbl Hv) Hgen Hnon s Hs Hk).
Qed.

(* ... with the boolean checks of Valid/LRProductive.v *)
Corollary cstring_capacity_suffices_checked :
  forall (V C : Type) g sts tbl opts buf lexer
         (term_f : nat -> nat -> nat -> spoint -> V) (err_f : spoint -> V) (rule_f : nat -> C -> list V -> C * V),
  term_checks g sts tbl = true ->
  no_error_symbol g tbl = true ->
  empty_rules g = 0 ->
  lexer_in_range lexer ->
  forall fuel c,
    run V C g tbl opts buf (Some (cstring_cap g (length buf))) lexer term_f err_f rule_f fuel c =
    run V C g tbl opts buf None lexer term_f err_f rule_f fuel c /\
    fst (fst (run V C g tbl opts buf (Some (cstring_cap g (length buf))) lexer term_f err_f rule_f fuel c)) <> Throw.
Proof.
  intros V C g sts tbl opts buf lexer term_f err_f rule_f Hc Hne Hempty Hlex fuel c.
  destruct (term_checks_facts _ _ _ Hc) as (H1 & H2 & H3 & _ & _).
  destruct (cstring_capacity_suffices_generated V C g sts tbl opts buf lexer term_f err_f rule_f
              (validate_validate_sound _ _ _ H1) Hne H2 H3 Hempty Hlex fuel c) as (E & Ht & _).
  split; assumption.
Qed.

(* the tree driver of Spec/LRSpec.v on token lists: the statement of the task *)
Corollary cstring_capacity_suffices_tree_validated : forall g sts tbl w fuel,
  validate_sound g sts tbl = true ->
  no_error_symbol g tbl = true ->
  lookahead_generated g sts -> states_nonempty sts ->
  empty_rules g = 0 ->
  tree_run_cap g tbl (Some (cstring_cap g (length w))) w fuel = tree_run_cap g tbl None w fuel /\
  fst (fst (tree_run_cap g tbl (Some (cstring_cap g (length w))) w fuel)) <> Throw /\
  fst (fst (tree_run_cap g tbl (Some (cstring_cap g (length w))) w fuel)) = tree_run g tbl w fuel.
Proof.
  intros g sts tbl w fuel Hv Hne Hgen Hnon Hempty. unfold tree_run_cap.
  destruct (cstring_capacity_suffices_generated tree unit g sts tbl tree_opts w id_lexer
              (fun t _ _ _ => Leaf t) (fun _ => Leaf (err_idx g)) (fun r c args => (c, Node r args))
              Hv Hne Hgen Hnon Hempty id_lexer_in_range fuel tt) as (E & Ht & _).
  split; [exact E|]. split; [exact Ht|]. rewrite E. reflexivity.
Qed.

Print Assumptions cstring_capacity_suffices_validated.
Print Assumptions cstring_capacity_suffices_generated.
Print Assumptions cstring_capacity_suffices_checked.
Print Assumptions cstring_capacity_suffices_tree_validated.
