(* Termination with ERROR RECOVERY, part 3: the theorems.
   For validated LR(1) tables WITH error symbol (rules that mention the error token; shift_error cells in the
   column of the error symbol) that pass the checks of Valid/LRProductive.v, the driver model halts on EVERY input:
     tree_run_halts_recovery            the tree instance on a sequence of terms (Spec/LRSpec.v);
     generic_tree_run_halts_recovery    the tree instance with any options / buffer / lexer that tokenises the buffer;
     generic_run_halts_recovery         every semantic algebra (same path as the tree instance, Proofs/DriverEval.v);
     *_checked                          the same with the boolean check [term_checks].
   No further decidable check is needed: [term_checks] (= validate, lookahead_generatedb, states_nonempty_b,
   reduce_lookaheadb, productiveb) suffices; [no_error_symbol] is NOT assumed.
   Proofs/TermRecMachine.v : the table walk between two shifts from an arbitrary stack ([finish]);
   Proofs/TermRecDriver.v  : the driver's three modes against it ([halts_all]). *)
Require Import Ctpg.Base.Prelude Ctpg.Model.Grammar Ctpg.Model.LRGen Ctpg.Model.Driver
               Ctpg.Spec.Cfg Ctpg.Spec.LRSpec Ctpg.Spec.Eval Ctpg.Valid.LRValid Ctpg.Valid.LRProductive
               Ctpg.Proofs.LRReflect Ctpg.Proofs.LRMachine Ctpg.Proofs.LRValidFacts Ctpg.Proofs.LRSound
               Ctpg.Proofs.LRComplete Ctpg.Proofs.DriverBasics Ctpg.Proofs.DriverEval Ctpg.Proofs.SafeDriver
               Ctpg.Proofs.ReportLang Ctpg.Proofs.ReportViable
               Ctpg.Proofs.TermViable Ctpg.Proofs.TermAll Ctpg.Proofs.TermGeneric
               Ctpg.Proofs.TermRecMachine Ctpg.Proofs.TermRecDriver.

(* the lexer tokenises the buffer at hand: on every suffix of buf it answers with a proper term (not <eof>, not the
   error token) and a lexeme of positive length inside the remaining input *)
Definition lexer_tokenises (g : grammar) (buf : list nat)
  (lexer : bool -> spoint -> list nat -> list lex_event * option (nat * nat)) : Prop :=
  forall v p k t len, snd (lexer v p (skipn k buf)) = Some (t, len) ->
    t < eof_idx g /\ 0 < len /\ len <= length (skipn k buf).

Lemma lexer_ok_tokenises g buf lexer : lexer_ok_for g lexer -> lexer_in_range lexer -> lexer_tokenises g buf lexer.
Proof.
  intros H1 H2 v p k t len E. destruct (H1 _ _ _ _ _ E) as [Ht Hl]. destruct (H2 _ _ _ _ _ E) as [Hp _]. auto.
Qed.

(* the identity lexer of the tree instance, on an input made of proper terms *)
Lemma id_lexer_tokenises g w : tokens_ok g w -> lexer_tokenises g w id_lexer.
Proof.
  intros Hw v p k t len E. destruct (skipn k w) as [|c r] eqn:Hsk; cbn in E; [discriminate|].
  inversion E; subst t len. cbn [length]. split; [|lia].
  unfold tokens_ok in Hw. rewrite Forall_forall in Hw. apply Hw.
  rewrite <- (firstn_skipn k w), Hsk. apply in_or_app. right. left. reflexivity.
Qed.

(* ================================================================================================= *)
(* the tree instance with any lexer                                                                  *)
(* ================================================================================================= *)
Theorem generic_tree_run_halts_recovery : forall g sts tbl opts buf lexer,
  validate g sts tbl = true -> lookahead_generated g sts -> states_nonempty sts -> reduce_lookahead g sts tbl ->
  productive g -> lexer_tokenises g buf lexer ->
  exists fuel, fst (fst (run tree unit g tbl opts buf None lexer tf (ef g) rlf fuel tt)) <> OutOfFuel.
Proof.
  intros g sts tbl opts buf lexer Hval Hgen Hne Hred Hprod Hlex.
  exact (tree_driver_halts_recovery g sts tbl opts buf lexer Hval Hgen Hne Hred Hprod Hlex).
Qed.

(* ================================================================================================= *)
(* every semantic algebra                                                                            *)
(* ================================================================================================= *)
Theorem generic_run_halts_recovery : forall (V C : Type) g sts tbl opts buf lexer
    (term_f : nat -> nat -> nat -> spoint -> V) (err_f : spoint -> V) (rule_f : nat -> C -> list V -> C * V) (c0 : C),
  validate g sts tbl = true -> lookahead_generated g sts -> states_nonempty sts -> reduce_lookahead g sts tbl ->
  productive g -> lexer_tokenises g buf lexer ->
  exists fuel, forall fuel', fuel <= fuel' ->
    fst (fst (run V C g tbl opts buf None lexer term_f err_f rule_f fuel' c0)) =
    fst (fst (run V C g tbl opts buf None lexer term_f err_f rule_f fuel c0)) /\
    fst (fst (run V C g tbl opts buf None lexer term_f err_f rule_f fuel c0)) <> OutOfFuel.
Proof.
  intros V C g sts tbl opts buf lexer term_f err_f rule_f c0 Hval Hgen Hnonempty Hred Hprod Hlex.
  destruct (generic_tree_run_halts_recovery g sts tbl opts buf lexer Hval Hgen Hnonempty Hred Hprod Hlex) as (fuel & Hf).
  exists fuel.
  assert (Hnoof : fst (fst (run V C g tbl opts buf None lexer term_f err_f rule_f fuel c0)) <> OutOfFuel).
  { pose proof (run_same_path tree unit g tbl opts buf None lexer tf (ef g) rlf tt fuel) as H1.
    pose proof (run_same_path V C g tbl opts buf None lexer term_f err_f rule_f c0 fuel) as H2.
    destruct (run ptree (list (nat * list ptree)) g tbl opts buf None lexer tree_term_f tree_err_f tree_rule_f fuel [])
      as [[rT sT] oT].
    destruct (run tree unit g tbl opts buf None lexer tf (ef g) rlf fuel tt) as [[r1 s1] o1].
    destruct (run V C g tbl opts buf None lexer term_f err_f rule_f fuel c0) as [[r2 s2] o2].
    cbn [fst] in *. destruct H1 as [H1 _]. destruct H2 as [H2 _].
    intros E. subst r2. apply Hf. destruct rT, r1; cbn in *; congruence. }
  intros fuel' Hle. split; [|exact Hnoof].
  unfold run in *.
  destruct (run_from V C g tbl opts buf None lexer term_f err_f rule_f fuel (init c0) []) as [[r s] o] eqn:E.
  cbn [fst] in Hnoof |- *. replace fuel' with (fuel + (fuel' - fuel)) by lia.
  rewrite (run_from_mono _ _ _ _ _ _ _ _ _ _ _ _ _ _ _ _ _ _ E Hnoof). reflexivity.
Qed.

(* in the style of generic_run_halts (Proofs/TermGeneric.v): lexer_ok_for / lexer_in_range, cap = None *)
Corollary generic_run_halts_recovery_lexer_ok : forall (V C : Type) g sts tbl opts buf lexer
    (term_f : nat -> nat -> nat -> spoint -> V) (err_f : spoint -> V) (rule_f : nat -> C -> list V -> C * V) (c0 : C),
  validate g sts tbl = true -> lookahead_generated g sts -> states_nonempty sts -> reduce_lookahead g sts tbl ->
  productive g -> lexer_ok_for g lexer -> lexer_in_range lexer ->
  exists fuel, forall fuel', fuel <= fuel' ->
    fst (fst (run V C g tbl opts buf None lexer term_f err_f rule_f fuel' c0)) =
    fst (fst (run V C g tbl opts buf None lexer term_f err_f rule_f fuel c0)) /\
    fst (fst (run V C g tbl opts buf None lexer term_f err_f rule_f fuel c0)) <> OutOfFuel.
Proof.
  intros V C g sts tbl opts buf lexer term_f err_f rule_f c0 Hval Hgen Hnonempty Hred Hprod Hlex Hpos.
  apply (generic_run_halts_recovery V C g sts tbl); try assumption. apply lexer_ok_tokenises; assumption.
Qed.

(* ================================================================================================= *)
(* the tree instance on a sequence of terms                                                          *)
(* ================================================================================================= *)
Theorem tree_run_halts_recovery : forall g sts tbl w,
  validate g sts tbl = true -> lookahead_generated g sts -> states_nonempty sts -> reduce_lookahead g sts tbl ->
  productive g -> tokens_ok g w ->
  exists fuel, forall fuel', fuel <= fuel' ->
    tree_run g tbl w fuel' = tree_run g tbl w fuel /\ tree_run g tbl w fuel <> OutOfFuel.
Proof.
  intros g sts tbl w Hval Hgen Hne Hred Hprod Hw.
  destruct (generic_tree_run_halts_recovery g sts tbl tree_opts w id_lexer Hval Hgen Hne Hred Hprod
              (id_lexer_tokenises g w Hw)) as (fuel & Hf).
  exists fuel. intros fuel' Hle.
  assert (Hn : tree_run g tbl w fuel <> OutOfFuel) by exact Hf.
  split; [|exact Hn]. apply tree_run_mono; assumption.
Qed.

(* ================================================================================================= *)
(* with the boolean checks                                                                           *)
(* ================================================================================================= *)
Theorem tree_run_halts_recovery_checked : forall g sts tbl w,
  term_checks g sts tbl = true -> tokens_ok g w ->
  exists fuel, forall fuel', fuel <= fuel' ->
    tree_run g tbl w fuel' = tree_run g tbl w fuel /\ tree_run g tbl w fuel <> OutOfFuel.
Proof.
  intros g sts tbl w Hc Hw. destruct (term_checks_facts _ _ _ Hc) as (H1 & H2 & H3 & H4 & H5).
  apply (tree_run_halts_recovery g sts tbl w); assumption.
Qed.

Theorem generic_run_halts_recovery_checked : forall (V C : Type) g sts tbl opts buf lexer
    (term_f : nat -> nat -> nat -> spoint -> V) (err_f : spoint -> V) (rule_f : nat -> C -> list V -> C * V) (c0 : C),
  term_checks g sts tbl = true -> lexer_ok_for g lexer -> lexer_in_range lexer ->
  exists fuel, forall fuel', fuel <= fuel' ->
    fst (fst (run V C g tbl opts buf None lexer term_f err_f rule_f fuel' c0)) =
    fst (fst (run V C g tbl opts buf None lexer term_f err_f rule_f fuel c0)) /\
    fst (fst (run V C g tbl opts buf None lexer term_f err_f rule_f fuel c0)) <> OutOfFuel.
Proof.
  intros V C g sts tbl opts buf lexer term_f err_f rule_f c0 Hc Hlex Hpos.
  destruct (term_checks_facts _ _ _ Hc) as (H1 & H2 & H3 & H4 & H5).
  apply (generic_run_halts_recovery_lexer_ok V C g sts tbl); assumption.
Qed.

(* ================================================================================================= *)
(* one recovery cycle consumes a term (machine level; the driver-level form is inside halts_all)      *)
(* ================================================================================================= *)
(* After recovery has shifted the error token (from ANY stack that satisfies the invariant, e.g. one obtained by
   popping), let a be the first term that is not discarded, i.e. whose cell in the new top state is not an error
   cell.  Then a is SHIFTED after finitely many reductions: no error cell is met (no further syntax error is
   reported) before a has been consumed. *)
Theorem recovery_cycle_progress : forall g sts tbl cur ss trs a v cur1 ss1 trs1 e,
  validate g sts tbl = true -> lookahead_generated g sts -> states_nonempty sts -> reduce_lookahead g sts tbl ->
  productive g ->
  MInv g sts (cur :: ss) trs ->
  mshift g tbl (cur :: ss, trs, err_idx g :: a :: v) = Some (cur1 :: ss1, trs1, a :: v) ->
  a < eof_idx g -> cell tbl cur1 (nterm_count g + a) = inl e -> e_kind e <> KError ->
  exists n c1 c2, rsteps g tbl n (cur1 :: ss1, trs1, a :: v) c1 /\ mshift g tbl c1 = Some c2 /\ snd c2 = v.
Proof.
  intros g sts tbl cur ss trs a v cur1 ss1 trs1 e Hval Hgen Hne Hred Hprod HM Hsh Ha Hc Hk.
  pose proof (sound_facts_of g sts tbl (validate_validate_sound _ _ _ Hval)) as SF.
  pose proof (sf_tc _ _ _ SF) as Htc. pose proof (eof_lt_tc _ _ _ SF) as Heof.
  assert (HM1 : MInv g sts (cur1 :: ss1) trs1).
  { eapply (MInv_mshift g sts tbl SF); [exact HM| |exact Hsh]. cbn. unfold err_idx. lia. }
  assert (Hla : look g (a :: v) < term_count g) by (cbn; lia).
  destruct (finish g sts tbl Hval Hgen Hne Hred Hprod cur1 ss1 trs1 (a :: v) e HM1 Hla Hc Hk)
    as (n & c1 & Hr & [(c2 & Hs2 & _)|Hsucc]).
  - exists n, c1, c2. split; [exact Hr|]. split; [exact Hs2|].
    rewrite (mshift_rest g tbl _ _ Hs2), (rsteps_rest g tbl _ _ _ Hr). reflexivity.
  - exfalso. destruct c1 as [[ss2 trs2] rest2].
    pose proof (rsteps_rest g tbl _ _ _ Hr) as Er. cbn [snd] in Er. subst rest2.
    pose proof (MInv_rsteps g sts tbl SF n _ _ _ _ _ _ HM1 Hla Hr) as HM2.
    destruct Hsucc as (cur2 & ss2' & e2 & -> & Hc2 & Hk2).
    destruct (MInv_nonempty g sts tbl SF _ _ HM2) as (cur2' & ss2'' & E & Hcur2). inversion E; subst cur2' ss2''.
    pose proof (cell_cell_at _ _ _ _ Hc2) as Ee. rewrite Ee in Hk2.
    pose proof (sf_cell _ _ _ SF cur2 _ Hcur2 (col_lt g _ Hla)) as Hcj.
    destruct (cj_success _ _ _ _ _ Hcj Hk2) as [Hcol _]. unfold col_of_term in Hcol. cbn [look hd] in Hcol. lia.
Qed.

Print Assumptions finish.
Print Assumptions recovery_cycle_progress.
Print Assumptions halts_all.
Print Assumptions generic_tree_run_halts_recovery.
Print Assumptions generic_run_halts_recovery.
Print Assumptions tree_run_halts_recovery.
Print Assumptions tree_run_halts_recovery_checked.
Print Assumptions generic_run_halts_recovery_checked.

(* ================================================================================================= *)
(* non-vacuity: a conflict-free grammar WITH error rules whose generated table passes all checks      *)
(* ================================================================================================= *)
(*   stmts -> (empty) | stmts stmt ';' | stmts error ';'          stmt -> '(' stmt ')' | '(' error ')' | num
     terms: num = 0, ';' = 1, '(' = 2, ')' = 3, <eof> = 4, <error_recovery_token> = 5 *)
Module RecEx.
  Definition id_num := [110]. Definition id_semi := [59]. Definition id_lp := [40]. Definition id_rp := [41].
  Definition id_stmts := [115;115]. Definition id_stmt := [115].
  Definition raw : raw_grammar :=
    mkRG id_stmts
      [mkRT id_num 0%Z NoAssoc; mkRT id_semi 0%Z NoAssoc; mkRT id_lp 0%Z NoAssoc; mkRT id_rp 0%Z NoAssoc]
      [id_stmts; id_stmt]
      [mkRR id_stmts [] None;
       mkRR id_stmts [RNterm id_stmts; RNterm id_stmt; RTerm id_semi] None;
       mkRR id_stmts [RNterm id_stmts; RTerm id_error; RTerm id_semi] None;
       mkRR id_stmt [RTerm id_lp; RNterm id_stmt; RTerm id_rp] None;
       mkRR id_stmt [RTerm id_lp; RTerm id_error; RTerm id_rp] None;
       mkRR id_stmt [RTerm id_num] None].
  Definition dummy_g : grammar := mkG 0 0 0 0 [] [] [] [] [] [] [] [].
  Definition g : grammar := match analyze raw with Some g => g | None => dummy_g end.
  Definition tbl : table := match gen g with inl (sts, tbl) => firstn (length sts) tbl | inr _ => [] end.
  Definition sts : list items := match gen g with inl (sts, tbl) => map st_all sts | inr _ => [] end.

  Example checks_pass : term_checks g sts tbl = true /\ no_error_symbol g tbl = false /\ err_idx g = 5.
  Proof. vm_compute. repeat split. Qed.

  (* runs that go through recovery:  num ; ; num ;   and   ( ; ) ;   are repaired,  ) ) )  and  num num  are given up *)
  Example runs :
    (exists t, tree_run g tbl [0;1;1;0;1] 100 = Accept t) /\ (exists t, tree_run g tbl [2;1;3;1] 100 = Accept t) /\
    tree_run g tbl [3;3;3] 100 = Reject /\ tree_run g tbl [0;0] 100 = Reject.
  Proof. vm_compute. repeat split; eexists; reflexivity. Qed.

  (* the theorem applies to this table: every input of proper terms *)
  Example halts_on_every_input : forall w, tokens_ok g w ->
    exists fuel, forall fuel', fuel <= fuel' ->
      tree_run g tbl w fuel' = tree_run g tbl w fuel /\ tree_run g tbl w fuel <> OutOfFuel.
  Proof. intros w Hw. apply (tree_run_halts_recovery_checked g sts tbl w); [vm_compute; reflexivity|exact Hw]. Qed.
End RecEx.
