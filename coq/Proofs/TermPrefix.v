(* Completeness of the LR machine on PREFIXES of sentences: if u a z is a sentence (u, a proper tokens; z arbitrary,
   it may even contain the error term), then on any input u a v the machine shifts a, i.e. reaches a configuration
   whose remaining input is v. Same induction as [parses_all] of Proofs/LRComplete.v, but the tree is left at the
   leaf a. *)
Require Import Ctpg.Base.Prelude Ctpg.Model.Grammar Ctpg.Model.LRGen Ctpg.Model.Driver
               Ctpg.Spec.Cfg Ctpg.Spec.LRSpec Ctpg.Valid.LRValid
               Ctpg.Proofs.LRReflect Ctpg.Proofs.LRMachine Ctpg.Proofs.LRValidFacts Ctpg.Proofs.LRSound
               Ctpg.Proofs.LRComplete.

Lemma flat_map_split {A B} (f : A -> list B) l : forall p a q, flat_map f l = p ++ a :: q ->
  exists l1 x l2 p2 q2, l = l1 ++ x :: l2 /\ p = flat_map f l1 ++ p2 /\ f x = p2 ++ a :: q2 /\ q = q2 ++ flat_map f l2.
Proof.
  induction l as [|y l IH]; intros p a q H; cbn in H.
  - destruct p; discriminate.
  - (* does the position of a fall into f y ? *)
    destruct (Nat.lt_ge_cases (length p) (length (f y))) as [Hlt|Hge].
    + exists [], y, l, p, (skipn (S (length p)) (f y)). cbn [app flat_map].
      assert (E1 : firstn (length p) (f y ++ flat_map f l) = p) by (rewrite H; apply firstn_app_exact).
      rewrite firstn_app in E1. replace (length p - length (f y)) with 0 in E1 by lia.
      cbn [firstn] in E1. rewrite app_nil_r in E1.
      assert (E2 : skipn (length p) (f y ++ flat_map f l) = a :: q) by (rewrite H; apply skipn_app_exact).
      rewrite skipn_app in E2. replace (length p - length (f y)) with 0 in E2 by lia. cbn [skipn] in E2.
      destruct (skipn (length p) (f y)) as [|b r] eqn:Es.
      { apply skipn_nil_length in Es. lia. }
      cbn [app] in E2. inversion E2; subst b.
      apply skipn_cons_nth_error in Es. destruct Es as [Hn Hs].
      split; [reflexivity|]. split; [reflexivity|]. split.
      * rewrite <- (firstn_skipn (length p) (f y)) at 1. rewrite E1. f_equal.
        rewrite (skipn_nth_error_cons _ _ _ Hn). reflexivity.
      * rewrite Hs. reflexivity.
    + assert (E1 : firstn (length (f y)) (p ++ a :: q) = f y) by (rewrite <- H; apply firstn_app_exact).
      rewrite firstn_app in E1. replace (length (f y) - length p) with 0 in E1 by lia.
      cbn [firstn] in E1. rewrite app_nil_r in E1.
      assert (E2 : flat_map f l = skipn (length (f y)) p ++ a :: q).
      { assert (E : skipn (length (f y)) (f y ++ flat_map f l) = flat_map f l) by apply skipn_app_exact.
        rewrite H in E. rewrite skipn_app in E. replace (length (f y) - length p) with 0 in E by lia.
        cbn [skipn] in E. symmetry. exact E. }
      destruct (IH _ _ _ E2) as (l1 & x & l2 & p2 & q2 & -> & Hp & Hx & Hq).
      exists (y :: l1), x, l2, p2, q2. split; [reflexivity|]. split; [|auto].
      cbn [flat_map]. rewrite <- app_assoc, <- Hp, <- E1 at 1. symmetry. apply firstn_skipn.
Qed.

Section Prefix.
  Variable g : grammar.
  Variable sts : list items.
  Variable tbl : table.
  Variable ne : bset.
  Variable nf : list bset.
  Hypothesis CF : complete_facts g sts tbl ne nf.

  Let SF : sound_facts g sts tbl := cf_sound _ _ _ _ _ CF.
  Notation items_of := (state_items sts).
  Notation tc := (term_count g).
  Notation yields := (flat_map yield).
  Notation lt_eof := (fun a => a < eof_idx g).
  Notation lt_tc := (fun a => a < term_count g).

  (* the leaves of a derivation tree are terms *)
  Lemma valid_yield_lt t : forall X, valid_tree g X t -> (forall b, X = T b -> b < tc) -> Forall lt_tc (yield t).
  Proof.
    induction t as [a|r ch IH] using tree_ind'; intros X Hv HX.
    - inversion Hv; subst. cbn. constructor; [apply HX; reflexivity|constructor].
    - inversion Hv as [|r' l rhs ch' Hrule Hch]; subst. cbn [yield].
      destruct Hrule as (i & ri & Hi & Hr & Hl & Hrhs). apply nth_error_In in Hrhs.
      assert (Hok : forall x, In x rhs -> sym_ok g x = true).
      { intros x Hx. apply (sf_sym _ _ _ SF rhs x Hrhs Hx). }
      clear Hv Hi Hrhs HX. revert rhs Hch Hok. induction IH as [|c ch Hc _ IHch]; intros rhs Hch Hok.
      + constructor.
      + inversion Hch as [|x ? rhs' ? Hx Hrest]; subst. cbn [flat_map]. apply Forall_app. split.
        * apply (Hc x Hx). intros b ->. specialize (Hok (T b) (or_introl eq_refl)). cbn in Hok.
          apply Nat.ltb_lt. exact Hok.
        * apply (IHch rhs' Hrest). intros y Hy. apply Hok. right. exact Hy.
  Qed.

  Lemma look_app_cong p v1 v2 : look g v1 = look g v2 -> look g (p ++ v1) = look g (p ++ v2).
  Proof. destruct p; cbn; auto. Qed.

  Lemma look_prefix x y z : x <> [] -> look g (x ++ y) = look g (x ++ z).
  Proof. destruct x; [congruence|reflexivity]. Qed.

  Lemma look_lt_tc l : Forall lt_tc l -> look g l < tc.
  Proof.
    intros H. destruct l as [|a l]; cbn; [apply (eof_lt_tc g sts tbl SF)|]. inversion H; assumption.
  Qed.

  (* [parse_children] of LRComplete.v for a PREFIX chs of the remaining children: the others are given as trees *)
  Lemma parse_children_gen r la rest_trees v :
    Forall lt_eof v -> la < tc -> Forall lt_tc (yields rest_trees) ->
    look g v = look g (yields rest_trees ++ [la]) ->
    forall chs, Forall lt_eof (yields chs) ->
    forall d s ss trs,
      Forall2 (valid_tree g) (skipn d (get_rhs g (ri_r (get_ri g r)))) (chs ++ rest_trees) ->
      s < length sts -> In (mkItem r d la) (items_of s) ->
      exists n sf stk, msteps g tbl n (s :: ss, trs, yields chs ++ v) (sf :: stk, rev chs ++ trs, v) /\
                       skipn (length chs) (sf :: stk) = s :: ss /\
                       sf < length sts /\ In (mkItem r (d + length chs) la) (items_of sf).
  Proof.
    intros Hv Hlt Hrt Hlook. induction chs as [|c chs IH]; intros Hy d s ss trs Hval Hs Hi.
    - exists 0, s, ss. cbn. rewrite Nat.add_0_r. auto.
    - cbn [app] in Hval. apply Forall2_cons_r_inv in Hval. destruct Hval as (x & rest & Esk & Hx & Hrest).
      apply skipn_cons_nth_error in Esk. destruct Esk as [Hnth Esk]. subst rest.
      cbn [flat_map] in Hy. apply Forall_app in Hy. destruct Hy as [Hy1 Hy2].
      assert (Forall lt_eof (yields chs ++ v)) as Hv' by (apply Forall_app; split; assumption).
      assert (next_sym g (mkItem r d la) = Some x) as Hnx by exact Hnth.
      assert (bset_test (first_tail g ne nf (skipn (S (it_d (mkItem r d la))) (rhs_of g (mkItem r d la)))
                                    (it_t (mkItem r d la))) (look g (yields chs ++ v)) = true) as Hft.
      { cbn [it_d it_t]. unfold rhs_of; cbn [it_r].
        rewrite (look_app_cong _ _ _ Hlook), app_assoc, <- flat_map_app.
        apply (first_tail_sound g sts tbl ne nf CF); try assumption; [|reflexivity].
        rewrite flat_map_app. apply Forall_app. split; [|assumption].
        apply (lt_eof_tc g sts tbl ne nf CF). assumption. }
      destruct (parses_all g sts tbl ne nf CF c x s ss trs (mkItem r d la) (yields chs ++ v) Hx Hy1 Hv' Hs Hi Hnx Hft)
        as (n1 & s1 & Hm1 & Hs1 & Hi1).
      cbn [it_r it_d it_t] in Hi1.
      destruct (IH Hy2 (S d) s1 (s :: ss) (c :: trs) Hrest Hs1 Hi1) as (n2 & sf & stk & Hm2 & Hsk & Hsf & Hif).
      exists (n1 + n2), sf, stk. split; [|split; [|split]].
      + cbn [flat_map rev]. rewrite <- !app_assoc. cbn [app].
        eapply msteps_trans; eassumption.
      + cbn [length]. apply skipn_cons_nth_error in Hsk. destruct Hsk as [_ Hsk]. exact Hsk.
      + assumption.
      + cbn [length]. rewrite Nat.add_succ_r. exact Hif.
  Qed.

  (* the tree tau, entered in state s by an item with the dot before its root symbol, is parsed up to the shift
     of its leaf a *)
  Definition pparses (tau : tree) : Prop :=
    forall X s ss trs i p a q v,
      valid_tree g X tau -> yield tau = p ++ a :: q -> Forall lt_tc (yield tau) ->
      Forall lt_eof p -> a < eof_idx g -> Forall lt_eof v ->
      s < length sts -> In i (items_of s) -> next_sym g i = Some X ->
      (exists t', t' < tc /\
                  bset_test (first_tail g ne nf (skipn (S (it_d i)) (rhs_of g i)) (it_t i)) t' = true) ->
      exists n ss' trs', msteps g tbl n (s :: ss, trs, p ++ a :: v) (ss', trs', v).

  Lemma pparses_all tau : pparses tau.
  Proof.
    induction tau as [b|r ch IH] using tree_ind'; intros X s ss trs i p a q v Hval Hy Hytc Hp Ha Hv Hs Hi Hnx Hft.
    - (* the leaf is a itself: shift *)
      inversion Hval; subst. cbn in Hy.
      assert (p = [] /\ b = a) as [-> ->].
      { destruct p as [|b' p]; cbn in Hy; [inversion Hy; auto|]. inversion Hy. destruct p; discriminate. }
      pose proof (next_sym_incomplete _ _ _ SF s i _ Hs Hi Hnx) as Hic.
      destruct (cf_goto _ _ _ _ _ CF s i Hs Hi Hic) as (x & s' & Hnx' & Hg & Hs' & Hi').
      rewrite Hnx in Hnx'. inversion Hnx'; subst x.
      pose proof (err_eq _ _ _ SF) as Herr. pose proof (eof_lt_tc _ _ _ SF) as Heof.
      destruct (goto_T g tbl _ _ _ Hg) as [Hk Harg]; [lia|].
      exists 1, (s' :: s :: ss), (Leaf a :: trs). cbn [msteps app].
      eexists. split; [|reflexivity]. unfold mstep. cbn [look hd tl].
      rewrite (cell_in_range _ _ _ SF s (nterm_count g + a) Hs); [|unfold symbol_count; lia].
      rewrite Hk, Harg. reflexivity.
    - (* a node: closure item, the children before the one that holds a, then that child *)
      inversion Hval as [|r' l rhs ch' Hrule Hch]; subst. cbn [yield] in *.
      destruct Hrule as (i' & ri & Hi' & Hr & Hl & Hrhs).
      destruct (get_ri_nth_error _ _ _ SF _ _ Hi') as [Eri Hi'lt].
      assert (get_rhs g (ri_r ri) = rhs) as Erhs by (rewrite Hr; apply nth_error_nth; assumption).
      destruct (sf_ri _ _ _ SF i' Hi'lt) as (_ & Hllt & Hn). rewrite Eri in Hllt, Hn. rewrite Hl in Hllt.
      pose proof (next_sym_incomplete _ _ _ SF s i _ Hs Hi Hnx) as Hic.
      destruct Hft as (t' & Ht' & Hft).
      (* a dot-0 item of rule i' is in s *)
      assert (In (mkItem i' 0 t') (items_of s)) as Hi0.
      { destruct (proj1 (sf_slice _ _ _ SF l i' Hllt Hi'lt)) as [Hlo Hhi]; [rewrite Eri; assumption|].
        replace i' with (fst (nth l (slices g) (0, 0)) + (i' - fst (nth l (slices g) (0, 0)))) by lia.
        apply (cf_closure _ _ _ _ _ CF s i l Hs Hi Hnx Hic); [lia|assumption|assumption]. }
      destruct (flat_map_split yield ch p a q Hy) as (ch1 & c & ch2 & p2 & q2 & -> & -> & Hyc & ->).
      apply Forall_app in Hp. destruct Hp as [Hp1 Hp2].
      rewrite flat_map_app in Hytc. cbn [flat_map] in Hytc.
      apply Forall_app in Hytc. destruct Hytc as [Hytc1 Hytc2].
      pose proof Hytc2 as Hytc2'. apply Forall_app in Hytc2'. destruct Hytc2' as [Hytcc Hytc3].
      (* the right side splits accordingly *)
      pose proof Hch as Hch'. apply Forall2_app_inv_r in Hch'.
      destruct Hch' as (r1 & r2 & Hr1 & Hr2 & Erhs').
      apply Forall2_cons_r_inv in Hr2. destruct Hr2 as (xc & r2' & -> & Hxc & Hr2').
      pose proof (Forall2_length' _ _ _ Hr1) as Hlen1.
      assert (Hnthc : nth_error rhs (length ch1) = Some xc).
      { rewrite Erhs', nth_error_app2 by lia. rewrite Hlen1, Nat.sub_diag. reflexivity. }
      assert (Hskc : skipn (S (length ch1)) rhs = r2').
      { rewrite Erhs', <- Hlen1, skipn_app, skipn_all2 by lia.
        replace (S (length r1) - length r1) with 1 by lia. reflexivity. }
      (* the children before c *)
      destruct (parse_children_gen i' t' (c :: ch2) (p2 ++ a :: v)) with (chs := ch1) (d := 0) (s := s) (ss := ss) (trs := trs)
        as (n1 & sf & stk & Hm1 & _ & Hsf & Hif); try assumption.
      { apply Forall_app. split; [assumption|]. constructor; assumption. }
      { cbn [flat_map]. rewrite Hyc.
        replace (p2 ++ a :: v) with ((p2 ++ [a]) ++ v) by (rewrite <- app_assoc; reflexivity).
        replace (((p2 ++ a :: q2) ++ yields ch2) ++ [t']) with ((p2 ++ [a]) ++ (q2 ++ yields ch2 ++ [t']))
          by (repeat rewrite <- app_assoc; reflexivity).
        apply look_prefix. destruct p2; discriminate. }
      { rewrite Eri, Erhs. cbn [skipn]. exact Hch. }
      cbn [Nat.add] in Hif.
      (* the child c *)
      assert (Hc : pparses c).
      { rewrite Forall_forall in IH. apply IH. apply in_or_app. right. left. reflexivity. }
      assert (Erhsi : rhs_of g (mkItem i' (length ch1) t') = rhs).
      { unfold rhs_of; cbn [it_r]. rewrite Eri. exact Erhs. }
      destruct (Hc xc sf stk (rev ch1 ++ trs) (mkItem i' (length ch1) t') p2 a q2 v) as (n2 & ss' & trs' & Hm2);
        try assumption.
      { unfold next_sym. rewrite Erhsi. exact Hnthc. }
      { cbn [it_d it_t]. rewrite Erhsi, Hskc.
        exists (look g (yields ch2 ++ [t'])). split.
        - apply look_lt_tc. apply Forall_app. split; [assumption|]. constructor; [assumption|constructor].
        - apply (first_tail_sound g sts tbl ne nf CF); try assumption. reflexivity. }
      exists (n1 + n2), ss', trs'. rewrite <- app_assoc. eapply msteps_trans; eassumption.
  Qed.

  (* if u a z is a sentence, the machine shifts a on every input u a v *)
  Theorem prefix_shift u a z t v :
    derives_tree g t (u ++ a :: z) -> tokens_ok g u -> a < eof_idx g -> tokens_ok g v ->
    exists n ss' trs', msteps g tbl n ([0], [], u ++ a :: v) (ss', trs', v).
  Proof.
    intros (X & Hroot & Hval & Hy) Hu Ha Hv.
    destruct (sf_root_rhs _ _ _ SF) as (x & Hrhs).
    rewrite (root_symbol_eq _ _ _ SF x Hrhs) in Hroot. inversion Hroot; subst X.
    pose proof (eof_lt_tc _ _ _ SF) as Heof.
    assert (rhs_of g (root_item g) = [NT x]) as Erhs.
    { unfold rhs_of, root_item; cbn [it_r]. rewrite (sf_root_r _ _ _ SF). assumption. }
    apply (pparses_all t (NT x) 0 [] [] (root_item g) u a z v); try assumption.
    - apply (valid_yield_lt t (NT x) Hval). intros b E; discriminate.
    - apply (sf_dims2 _ _ _ SF).
    - apply (sf_st0_root _ _ _ SF).
    - unfold next_sym. rewrite Erhs. reflexivity.
    - exists (eof_idx g). split; [exact Heof|]. rewrite Erhs. cbn. apply bset_set_same.
      rewrite bset_empty_length. assumption.
  Qed.
End Prefix.

Print Assumptions prefix_shift.
