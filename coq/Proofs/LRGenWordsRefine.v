(* The word-level nullable / FIRST computation (Model/LRGenWords.v, on cbitset objects: 64-bit words, checked
   test()/set(), add(), operator==) refines the abstract one (Model/LRGen.v, on Prelude.bset), for every grammar whose
   symbol indices are in range: it never throws, and its results abstract (cb_abs) to exactly nterm_empty / nterm_first.
   The invariant carried through the FIRST passes: every table entry is well-formed, has clean padding bits (only
   cb_new / cb_set / cb_add touch it, never a whole-set operation) and has term_count bits; under it operator== on the
   words is set equality (ContainersBits.cb_eqb_iff_same_set), so the `changed` flags of both levels agree. *)
From Ctpg Require Import Base.Prelude Model.Grammar Model.LRGen Model.Containers Model.LRGenWords Proofs.ContainersBits.
From Coq Require Import NArith Lia List Bool.

(* ------------------------------------------------------------------ the range condition *)
Definition sym_ok (g : grammar) (s : symbol) : Prop :=
  match s with T i => i < term_count g | NT n => n < nterm_count g end.
Definition ri_ok (g : grammar) (ri : rule_info) : Prop :=
  ri_l ri < nterm_count g /\ Forall (sym_ok g) (firstn (ri_n ri) (get_rhs g (ri_r ri))).
Definition syms_in_range (g : grammar) : Prop := Forall (ri_ok g) (rule_infos g).

Definition sym_okb (g : grammar) (s : symbol) : bool :=
  match s with T i => Nat.ltb i (term_count g) | NT n => Nat.ltb n (nterm_count g) end.
Definition syms_in_rangeb (g : grammar) : bool :=
  forallb (fun ri => Nat.ltb (ri_l ri) (nterm_count g) &&
                     forallb (sym_okb g) (firstn (ri_n ri) (get_rhs g (ri_r ri)))) (rule_infos g).

Lemma syms_in_rangeb_sound : forall g, syms_in_rangeb g = true -> syms_in_range g.
Proof.
  intros g Hb. unfold syms_in_rangeb in Hb. rewrite forallb_forall in Hb.
  unfold syms_in_range. apply Forall_forall. intros ri Hin. specialize (Hb ri Hin).
  apply andb_true_iff in Hb. destruct Hb as [Hl Hs]. split.
  - apply Nat.ltb_lt. exact Hl.
  - rewrite forallb_forall in Hs. apply Forall_forall. intros s Hsin. specialize (Hs s Hsin).
    destruct s as [i | n]; cbn [sym_ok sym_okb] in *; apply Nat.ltb_lt; exact Hs.
Qed.

(* ------------------------------------------------------------------ cbitset operations with nat indices *)
Lemma test_ok : forall b i, (i < cb_n b)%N -> cb_test b i = Ok (cb_mem b i).
Proof. intros b i Hi. unfold cb_mem, cb_test. rewrite (proj2 (N.ltb_lt _ _) Hi). reflexivity. Qed.

Lemma test_abs : forall b k n, cb_n b = N.of_nat n -> k < n ->
  cb_test b (N.of_nat k) = Ok (bset_test (cb_abs b) k).
Proof.
  intros b k n Hn Hk. assert (Hi : (N.of_nat k < cb_n b)%N) by lia.
  rewrite test_ok by exact Hi. pose proof (cb_abs_test b (N.of_nat k) Hi) as E. rewrite Nat2N.id in E.
  rewrite E. reflexivity.
Qed.

Lemma set_ok : forall b k n, cb_wf b -> cb_n b = N.of_nat n -> k < n ->
  exists b', cb_set b (N.of_nat k) = Ok b' /\ cb_wf b' /\ cb_n b' = cb_n b /\ (cb_clean b -> cb_clean b') /\
             cb_abs b' = bset_set (cb_abs b) k.
Proof.
  intros b k n Hwf Hn Hk. assert (Hi : (N.of_nat k < cb_n b)%N) by lia.
  destruct (cb_set b (N.of_nat k)) as [b' | |] eqn:Hs.
  - exists b'.
    assert (Hb' : b' = cb_step b (BSet (N.of_nat k))). { unfold cb_step. cbn [cb_apply]. rewrite Hs. reflexivity. }
    split; [reflexivity |]. split; [rewrite Hb'; apply cb_step_wf; exact Hwf |].
    split; [rewrite Hb'; apply cb_step_wf; exact Hwf |]. split.
    + intros Hc. rewrite Hb'. apply cb_step_clean; [exact Hwf | exact Hc | reflexivity].
    + pose proof (cb_abs_set b b' _ Hwf Hs) as E. rewrite Nat2N.id in E. exact E.
  - exfalso. unfold cb_set in Hs. rewrite cb_upd_ok in Hs by exact Hi. discriminate Hs.
  - exfalso. unfold cb_set in Hs. rewrite cb_upd_ok in Hs by exact Hi. discriminate Hs.
Qed.

Lemma cb_add_clean : forall a b, cb_wf a -> cb_wf b -> cb_n a = cb_n b -> cb_clean a -> cb_clean b ->
  cb_clean (cb_add a b).
Proof.
  intros a b Ha Hb Hn Hca Hcb i Hi. change (cb_n (cb_add a b)) with (cb_n a) in Hi.
  change (cb_bitat (cb_add a b) i = false).
  rewrite add_bitat by (rewrite (proj1 Ha), (proj1 Hb), Hn; reflexivity).
  pose proof (Hca i Hi) as H1. rewrite Hn in Hi. pose proof (Hcb i Hi) as H2.
  change (cb_bitat a i = false) in H1. change (cb_bitat b i = false) in H2. rewrite H1, H2. reflexivity.
Qed.

Lemma cb_abs_new_nat : forall n, cb_abs (cb_new (N.of_nat n)) = bset_empty n.
Proof. intros n. rewrite cb_abs_new, Nat2N.id. reflexivity. Qed.

(* ------------------------------------------------------------------ lists *)
Lemma map_update : forall A B (f : A -> B) (l : list A) k x, map f (update l k x) = update (map f l) k (f x).
Proof.
  intros A B f l. induction l as [| y l IH]; intros k x.
  - reflexivity.
  - destruct k as [| k]; simpl; [reflexivity | rewrite IH; reflexivity].
Qed.

Lemma map_repeat' : forall A B (f : A -> B) x n, map f (repeat x n) = repeat (f x) n.
Proof. intros A B f x n. induction n as [| n IH]; simpl; [reflexivity | rewrite IH; reflexivity]. Qed.

Lemma list_eqb_bool : forall a b : list bool, list_eqb Bool.eqb a b = true <-> a = b.
Proof.
  intros a. induction a as [| x a IH]; intros b; destruct b as [| y b]; simpl.
  - split; reflexivity.
  - split; discriminate.
  - split; discriminate.
  - rewrite andb_true_iff, IH, Bool.eqb_true_iff. split.
    + intros [H1 H2]. subst. reflexivity.
    + intros H. injection H as H1 H2. split; assumption.
Qed.

(* ------------------------------------------------------------------ the per-entry invariant of the FIRST table *)
Definition good (g : grammar) (b : cbitset) : Prop :=
  cb_wf b /\ cb_clean b /\ cb_n b = N.of_nat (term_count g).

Lemma good_dflt : forall g, good g (w_empty_terms g).
Proof. intros g. unfold w_empty_terms. split; [apply cb_new_wf | split; [apply cb_new_clean | reflexivity]]. Qed.

Lemma abs_dflt : forall g, cb_abs (w_empty_terms g) = bset_empty (term_count g).
Proof. intros g. apply cb_abs_new_nat. Qed.

Lemma nth_abs : forall g nf n,
  nth n (map cb_abs nf) (bset_empty (term_count g)) = cb_abs (nth n nf (w_empty_terms g)).
Proof. intros g nf n. rewrite <- abs_dflt. apply map_nth. Qed.

Lemma good_nth : forall g nf n, Forall (good g) nf -> good g (nth n nf (w_empty_terms g)).
Proof. intros g nf n Hnf. apply Forall_nth_d; [exact Hnf | apply good_dflt]. Qed.

Lemma good_add : forall g a b, good g a -> good g b -> good g (cb_add a b).
Proof.
  intros g a b (Hwa & Hca & Hna) (Hwb & Hcb & Hnb).
  assert (Hn : cb_n a = cb_n b) by congruence.
  split; [apply cb_add_wf; assumption |]. split; [apply cb_add_clean; assumption | exact Hna].
Qed.

(* operator== on the words is the list comparison of the abstractions *)
Lemma eqb_agree : forall g a b, good g a -> good g b -> cb_eqb a b = bset_eqb (cb_abs a) (cb_abs b).
Proof.
  intros g a b (Hwa & Hca & Hna) (Hwb & Hcb & Hnb).
  apply Bool.eq_true_iff_eq. unfold bset_eqb. rewrite list_eqb_bool.
  apply cb_eqb_iff_same_set; try assumption. congruence.
Qed.

(* ------------------------------------------------------------------ nullable *)
Section Refine.
Variable g : grammar.

Lemma w_all_nullable_ok : forall ne r, cb_n ne = N.of_nat (nterm_count g) -> Forall (sym_ok g) r ->
  w_all_nullable ne r = Ok (all_nullable (cb_abs ne) r).
Proof.
  intros ne r Hn. induction r as [| s r IH]; intros Hr.
  - reflexivity.
  - inversion Hr as [| s' r' Hs Hr']; subst. destruct s as [i | n]; cbn [w_all_nullable all_nullable].
    + reflexivity.
    + cbn [sym_ok] in Hs. rewrite (test_abs ne n _ Hn Hs). cbn [rbind].
      destruct (bset_test (cb_abs ne) n); cbn [andb]; [apply IH; exact Hr' | reflexivity].
Qed.

Lemma w_empty_pass_ok : forall ris ne ch, cb_wf ne -> cb_n ne = N.of_nat (nterm_count g) -> Forall (ri_ok g) ris ->
  exists ne', w_empty_pass g ris ne ch = Ok (ne', snd (empty_pass g ris (cb_abs ne) ch)) /\
              cb_wf ne' /\ cb_n ne' = N.of_nat (nterm_count g) /\
              cb_abs ne' = fst (empty_pass g ris (cb_abs ne) ch).
Proof.
  intros ris. induction ris as [| ri ris IH]; intros ne ch Hwf Hn Hr.
  - exists ne. cbn. auto.
  - inversion Hr as [| ri' ris' [Hl Hsy] Hr']; subst. cbn [w_empty_pass empty_pass].
    rewrite (test_abs ne _ _ Hn Hl). cbn [rbind].
    destruct (bset_test (cb_abs ne) (ri_l ri)).
    + apply IH; assumption.
    + rewrite (w_all_nullable_ok ne _ Hn Hsy). cbn [rbind].
      destruct (all_nullable (cb_abs ne) (firstn (ri_n ri) (get_rhs g (ri_r ri)))).
      * destruct (set_ok ne _ _ Hwf Hn Hl) as (ne' & Hs & Hwf' & Hn' & _ & Habs). rewrite Hs. cbn [rbind].
        rewrite <- Habs. apply IH; [exact Hwf' | congruence | exact Hr'].
      * apply IH; assumption.
Qed.

Lemma w_empty_iter_ok : forall fuel ne, cb_wf ne -> cb_n ne = N.of_nat (nterm_count g) -> syms_in_range g ->
  exists b, w_empty_iter fuel g ne = Ok b /\ cb_wf b /\ cb_n b = N.of_nat (nterm_count g) /\
            cb_abs b = empty_iter fuel g (cb_abs ne).
Proof.
  intros fuel. induction fuel as [| fuel IH]; intros ne Hwf Hn Hr.
  - exists ne. cbn. auto.
  - cbn [w_empty_iter empty_iter].
    destruct (w_empty_pass_ok (rule_infos g) ne false Hwf Hn Hr) as (ne' & Hp & Hwf' & Hn' & Habs).
    rewrite Hp. cbn [rbind]. revert Habs.
    destruct (empty_pass g (rule_infos g) (cb_abs ne) false) as [a ch]. cbn [fst snd]. intros Habs.
    destruct ch.
    + rewrite <- Habs. apply IH; assumption.
    + exists ne'. auto.
Qed.

(* ------------------------------------------------------------------ FIRST *)
Lemma w_first_of_syms_ok : forall ne nf, cb_n ne = N.of_nat (nterm_count g) -> Forall (good g) nf ->
  forall r acc, good g acc -> Forall (sym_ok g) r ->
  exists a, w_first_of_syms g ne nf acc r = Ok a /\ good g a /\
            cb_abs a = first_of_syms g (cb_abs ne) (map cb_abs nf) (cb_abs acc) r.
Proof.
  intros ne nf Hn Hnf r. induction r as [| s r IH]; intros acc Hacc Hr.
  - exists acc. cbn. auto.
  - inversion Hr as [| s' r' Hs Hr']; subst. destruct s as [i | n]; cbn [w_first_of_syms first_of_syms]; cbv zeta.
    + cbn [sym_ok] in Hs. destruct Hacc as (Hw & Hc & Hna).
      destruct (set_ok acc i _ Hw Hna Hs) as (b' & Hs' & Hw' & Hn' & Hc' & Ha).
      exists b'. split; [exact Hs' |]. split; [| exact Ha].
      split; [exact Hw' |]. split; [apply Hc'; exact Hc | congruence].
    + cbn [sym_ok] in Hs.
      assert (Ho : good g (nth n nf (w_empty_terms g))) by (apply good_nth; exact Hnf).
      assert (Hacc' : good g (cb_add acc (nth n nf (w_empty_terms g)))) by (apply good_add; assumption).
      assert (Habs' : cb_abs (cb_add acc (nth n nf (w_empty_terms g)))
                      = bset_or (cb_abs acc) (nth n (map cb_abs nf) (bset_empty (term_count g)))).
      { rewrite nth_abs. destruct Hacc as (Hw & _ & Hna). destruct Ho as (Hwo & _ & Hno).
        apply cb_abs_add; [exact Hw | exact Hwo | congruence]. }
      rewrite (test_abs ne n _ Hn Hs). cbn [rbind]. rewrite <- Habs'.
      destruct (bset_test (cb_abs ne) n).
      * apply IH; assumption.
      * exists (cb_add acc (nth n nf (w_empty_terms g))). auto.
Qed.

Lemma w_first_pass_ok : forall ne, cb_n ne = N.of_nat (nterm_count g) ->
  forall ris nf ch, Forall (good g) nf -> Forall (ri_ok g) ris ->
  exists nf', w_first_pass g ne ris nf ch = Ok (nf', snd (first_pass g (cb_abs ne) ris (map cb_abs nf) ch)) /\
              Forall (good g) nf' /\
              map cb_abs nf' = fst (first_pass g (cb_abs ne) ris (map cb_abs nf) ch).
Proof.
  intros ne Hn ris. induction ris as [| ri ris IH]; intros nf ch Hnf Hr.
  - exists nf. cbn. auto.
  - inversion Hr as [| ri' ris' [Hl Hsy] Hr']; subst. cbn [w_first_pass first_pass]; cbv zeta.
    assert (Hb : good g (nth (ri_l ri) nf (w_empty_terms g))) by (apply good_nth; exact Hnf).
    destruct (w_first_of_syms_ok ne nf Hn Hnf _ _ Hb Hsy) as (after & Hf & Hga & Habs).
    rewrite Hf. cbn [rbind]. rewrite nth_abs. rewrite <- Habs. rewrite <- map_update.
    rewrite <- (eqb_agree g _ _ Hb Hga).
    apply IH; [apply Forall_update; assumption | exact Hr'].
Qed.

Lemma w_first_iter_ok : forall ne, cb_n ne = N.of_nat (nterm_count g) -> syms_in_range g ->
  forall fuel nf, Forall (good g) nf ->
  exists t, w_first_iter fuel g ne nf = Ok t /\ Forall (good g) t /\
            map cb_abs t = first_iter fuel g (cb_abs ne) (map cb_abs nf).
Proof.
  intros ne Hn Hr fuel. induction fuel as [| fuel IH]; intros nf Hnf.
  - exists nf. cbn. auto.
  - cbn [w_first_iter first_iter].
    destruct (w_first_pass_ok ne Hn (rule_infos g) nf false Hnf Hr) as (nf' & Hp & Hnf' & Habs).
    rewrite Hp. cbn [rbind]. revert Habs.
    destruct (first_pass g (cb_abs ne) (rule_infos g) (map cb_abs nf) false) as [a ch]. cbn [fst snd]. intros Habs.
    destruct ch.
    + rewrite <- Habs. apply IH; assumption.
    + exists nf'. auto.
Qed.

(* ------------------------------------------------------------------ the refinement theorems *)
Theorem w_nterm_empty_refines : syms_in_range g ->
  exists b, w_nterm_empty g = Ok b /\ cb_wf b /\ cb_n b = N.of_nat (nterm_count g) /\ cb_abs b = nterm_empty g.
Proof.
  intros Hr. unfold w_nterm_empty, nterm_empty. rewrite <- cb_abs_new_nat.
  apply w_empty_iter_ok; [apply cb_new_wf | reflexivity | exact Hr].
Qed.

Theorem w_nterm_first_refines : syms_in_range g ->
  forall ne_w, cb_wf ne_w -> cb_n ne_w = N.of_nat (nterm_count g) ->
  exists t, w_nterm_first g ne_w = Ok t /\ map cb_abs t = nterm_first g (cb_abs ne_w) /\
            Forall (fun b => cb_wf b /\ cb_clean b /\ cb_n b = N.of_nat (term_count g)) t.
Proof.
  intros Hr ne_w _ Hn. unfold w_nterm_first, nterm_first.
  rewrite <- abs_dflt, <- (map_repeat' _ _ cb_abs (w_empty_terms g)).
  destruct (w_first_iter_ok ne_w Hn Hr (S (nterm_count g * term_count g))
              (repeat (w_empty_terms g) (nterm_count g))) as (t & Ht & Hgood & Habs).
  - apply Forall_forall. intros b Hb. apply repeat_spec in Hb. subst b. apply good_dflt.
  - exists t. split; [exact Ht |]. split; [exact Habs | exact Hgood].
Qed.

Corollary w_first_sets_refine : syms_in_range g ->
  exists b t, w_nterm_empty g = Ok b /\ w_nterm_first g b = Ok t /\
              cb_abs b = nterm_empty g /\ map cb_abs t = nterm_first g (nterm_empty g).
Proof.
  intros Hr. destruct (w_nterm_empty_refines Hr) as (b & Hb & Hwf & Hn & Habs).
  destruct (w_nterm_first_refines Hr b Hwf Hn) as (t & Ht & Hmap & _).
  exists b, t. rewrite <- Habs. auto.
Qed.

(* the table has one entry per nonterminal *)
Corollary w_nterm_first_length : syms_in_range g ->
  forall ne_w, cb_wf ne_w -> cb_n ne_w = N.of_nat (nterm_count g) ->
  forall t, w_nterm_first g ne_w = Ok t -> length t = length (nterm_first g (cb_abs ne_w)).
Proof.
  intros Hr ne_w Hwf Hn t Ht. destruct (w_nterm_first_refines Hr ne_w Hwf Hn) as (t' & Ht' & Hmap & _).
  rewrite Ht in Ht'. injection Ht' as Ht'. subst t'. rewrite <- Hmap, map_length. reflexivity.
Qed.
End Refine.

(* ------------------------------------------------------------------ non-vacuity *)
(* S -> A B c ; A -> a A | <empty> ; B -> b | <empty>.
   terms: a = 0, b = 1, c = 2, <eof> = 3, <error_recovery_token> = 4; nonterminals: S = 0, A = 1, B = 2, ## = 3 *)
Definition ex_S := [83]. Definition ex_A := [65]. Definition ex_B := [66].
Definition ex_a := [97]. Definition ex_b := [98]. Definition ex_c := [99].
Definition ex_raw : raw_grammar :=
  mkRG ex_S [mkRT ex_a 0%Z NoAssoc; mkRT ex_b 0%Z NoAssoc; mkRT ex_c 0%Z NoAssoc] [ex_S; ex_A; ex_B]
    [mkRR ex_S [RNterm ex_A; RNterm ex_B; RTerm ex_c] None;
     mkRR ex_A [RTerm ex_a; RNterm ex_A] None;
     mkRR ex_A [] None;
     mkRR ex_B [RTerm ex_b] None;
     mkRR ex_B [] None].
Definition ex_dummy : grammar := mkG 0 0 0 0 [] [] [] [] [] [] [] [].
Definition ex_g : grammar := match analyze ex_raw with Some g => g | None => ex_dummy end.

Definition res_map {A B} (f : A -> B) (r : res A) : res B :=
  match r with Ok a => Ok (f a) | Throw => Throw | Undef => Undef end.

Example ex_refines :
  analyze ex_raw = Some ex_g /\ syms_in_rangeb ex_g = true /\
  res_map cb_abs (w_nterm_empty ex_g) = Ok (nterm_empty ex_g) /\
  nterm_empty ex_g = [false; true; true; false] /\
  res_map (map cb_abs) (rbind (w_nterm_empty ex_g) (w_nterm_first ex_g)) = Ok (nterm_first ex_g (nterm_empty ex_g)) /\
  nterm_first ex_g (nterm_empty ex_g) =
    [[true; true; true; false; false];        (* FIRST(S) = {a, b, c} *)
     [true; false; false; false; false];      (* FIRST(A) = {a} *)
     [false; true; false; false; false];      (* FIRST(B) = {b} *)
     [true; true; true; false; false]].       (* FIRST(##) = {a, b, c} *)
Proof. vm_compute. repeat split. Qed.

Example ex_in_range : syms_in_range ex_g.
Proof. apply syms_in_rangeb_sound. vm_compute. reflexivity. Qed.

(* more than one word per set, with padding bits in the last word: 70 terms, X -> t69 | t3 X | Y t64 ; Y -> <empty> *)
Definition ex70_g : grammar :=
  mkG 70 3 4 2
      [[T 69]; [T 3; NT 0]; [NT 1; T 64]; []; [NT 0]]
      [mkRI 0 0 1; mkRI 0 1 2; mkRI 0 2 2; mkRI 1 3 0; mkRI 2 4 1]
      [(0, 3); (3, 1); (4, 1)] [] [] [] [] [].

Example ex70_refines :
  syms_in_rangeb ex70_g = true /\
  res_map (map cb_data) (rbind (w_nterm_empty ex70_g) (w_nterm_first ex70_g))
    = Ok [[8%N; 33%N]; [0%N; 0%N]; [8%N; 33%N]] /\
  res_map (map cb_abs) (rbind (w_nterm_empty ex70_g) (w_nterm_first ex70_g))
    = Ok (nterm_first ex70_g (nterm_empty ex70_g)).
Proof. vm_compute. repeat split. Qed.

(* outside the range condition the two levels do differ: the list model ignores the out-of-range index, the words throw *)
Definition exbad_g : grammar := mkG 2 1 1 1 [[T 5]] [mkRI 0 0 1] [(0, 1)] [] [] [] [] [].
Example out_of_range_throws :
  syms_in_rangeb exbad_g = false /\
  rbind (w_nterm_empty exbad_g) (w_nterm_first exbad_g) = Throw /\
  nterm_first exbad_g (nterm_empty exbad_g) = [[false; false]].
Proof. vm_compute. repeat split. Qed.

Print Assumptions w_nterm_empty_refines.
Print Assumptions w_nterm_first_refines.
Print Assumptions w_first_sets_refine.
