(* Termination facts about the driver.
   (S3) an accepting run of the tree instance: fuel monotonicity, and -- with a soundly validated table without error
        symbol -- the EXACT number of loop iterations: size of the tree + 1 = length of the input + number of
        inner nodes + 1.
   (S4) after a syntax error: without error rules the run rejects within (stack height) iterations of recovery
        mode; with error rules, the per-iteration progress lemmas of consume mode and recovery mode. *)
Require Import Ctpg.Base.Prelude Ctpg.Model.Grammar Ctpg.Model.LRGen Ctpg.Model.Driver
               Ctpg.Spec.Cfg Ctpg.Spec.LRSpec Ctpg.Valid.LRValid Ctpg.Valid.LRSafe
               Ctpg.Proofs.LRReflect Ctpg.Proofs.LRMachine Ctpg.Proofs.LRValidFacts Ctpg.Proofs.LRSound
               Ctpg.Proofs.DriverBasics Ctpg.Proofs.SafeBasics Ctpg.Proofs.SafeDriver.

(* ================================================================================================= *)
(* (S3)                                                                                              *)
(* ================================================================================================= *)
Theorem terminates_accepted : forall g tbl w t,
  accepts g tbl w t -> exists fuel, forall fuel', fuel <= fuel' -> tree_run g tbl w fuel' = Accept t.
Proof.
  intros g tbl w t [fuel Hf]. exists fuel. intros fuel' Hle.
  rewrite tree_run_eq in *.
  destruct (run_from tree unit g tbl tree_opts w None id_lexer tf (ef g) rlf fuel (init tt) []) as [[r s] o] eqn:E.
  cbn in Hf. subst r.
  replace fuel' with (fuel + (fuel' - fuel)) by lia.
  rewrite (run_from_mono _ _ _ _ _ _ _ _ _ _ _ _ _ _ _ _ _ _ E); [reflexivity|discriminate].
Qed.

(* number of constructors / of inner nodes of a tree *)
Fixpoint tsize (t : tree) : nat :=
  match t with Leaf _ => 1 | Node _ ch => S (list_sum (map tsize ch)) end.
Fixpoint nodes (t : tree) : nat :=
  match t with Leaf _ => 0 | Node _ ch => S (list_sum (map nodes ch)) end.

Lemma list_sum_rev l : list_sum (rev l) = list_sum l.
Proof.
  induction l as [|x l IH]; [reflexivity|]. cbn [rev]. rewrite list_sum_app, IH.
  change (list_sum (x :: l)) with (x + list_sum l). change (list_sum [x]) with (x + 0). lia.
Qed.

Lemma tsize_yield t : tsize t = length (yield t) + nodes t.
Proof.
  induction t as [a|r ch IH] using tree_ind'; [reflexivity|].
  change (tsize (Node r ch)) with (S (list_sum (map tsize ch))).
  change (nodes (Node r ch)) with (S (list_sum (map nodes ch))).
  change (yield (Node r ch)) with (flat_map yield ch).
  assert (list_sum (map tsize ch) = length (flat_map yield ch) + list_sum (map nodes ch)) as E.
  { induction IH as [|c ch Hc _ IHch]; [reflexivity|].
    cbn [map flat_map]. rewrite app_length.
    change (list_sum (tsize c :: map tsize ch)) with (tsize c + list_sum (map tsize ch)).
    change (list_sum (nodes c :: map nodes ch)) with (nodes c + list_sum (map nodes ch)).
    rewrite Hc, IHch. lia. }
  rewrite E. lia.
Qed.

Section Steps.
  Variable g : grammar.
  Variable sts : list items.
  Variable tbl : table.
  Variable w : list nat.
  Hypothesis SF : sound_facts g sts tbl.

  Notation dstep := (step tree unit g tbl tree_opts w None id_lexer tf (ef g) rlf).
  Notation drun := (run_from tree unit g tbl tree_opts w None id_lexer tf (ef g) rlf).

  Definition msz (c : cfg) : nat := let '(_, trs, _) := c in list_sum (map tsize trs).

  (* every machine step adds exactly one constructor to the forest on the stack *)
  Lemma mstep_size c c' : mstep g tbl c = Next c' -> msz c' = S (msz c).
  Proof.
    destruct c as [[ss trs] rest]. unfold mstep. destruct ss as [|cur ss]; [discriminate|].
    destruct (cell tbl cur (nterm_count g + look g rest)) as [e|c]; [|discriminate].
    destruct (e_kind e); try discriminate.
    - destruct (rev trs); discriminate.
    - destruct (e_arg e); [|discriminate]. intros H; inversion H; subst. cbn. reflexivity.
    - destruct (e_arg e) as [r|]; [|discriminate]. unfold mreduce.
      destruct (nth_error (rule_infos g) r) as [ri|]; [|discriminate].
      destruct (Nat.ltb (length (cur :: ss)) (ri_n ri)); [discriminate|].
      destruct (skipn (ri_n ri) (cur :: ss)) as [|top ?]; [discriminate|].
      destruct (cell tbl top (ri_l ri)) as [e'|]; [|discriminate].
      destruct (e_arg e'); [|discriminate]. destruct (Nat.ltb (length trs) (ri_n ri)); [discriminate|].
      intros H; inversion H; subst. cbn [msz map list_sum tsize].
      rewrite map_rev, list_sum_rev.
      assert (E : list_sum (map tsize trs) =
                  list_sum (map tsize (firstn (ri_n ri) trs)) + list_sum (map tsize (skipn (ri_n ri) trs)))
        by (rewrite <- list_sum_app, <- map_app, firstn_skipn; reflexivity).
      rewrite E.
      change (list_sum (?a :: ?b)) with (a + list_sum b). lia.
  Qed.

  Lemma msteps_size k : forall c c', msteps g tbl k c c' -> msz c' = k + msz c.
  Proof.
    induction k as [|k IH]; intros c c' H; cbn [msteps] in H.
    - subst. reflexivity.
    - destruct H as (c1 & Hs & H). apply IH in H. apply mstep_size in Hs. lia.
  Qed.

  Lemma msteps_SInv k : forall c c', msteps g tbl k c c' -> SInv g sts w c -> SInv g sts w c'.
  Proof.
    induction k as [|k IH]; intros c c' H Hi; cbn [msteps] in H.
    - subst. assumption.
    - destruct H as (c1 & Hs & H). eapply IH; [exact H|]. eapply SInv_next; eassumption.
  Qed.

  Lemma mrun_steps n : forall c t, mrun g tbl n c = Some t ->
    exists k c', k < n /\ msteps g tbl k c c' /\ mstep g tbl c' = Acc t.
  Proof.
    induction n as [|n IH]; intros c t H; cbn [mrun] in H; [discriminate|].
    destruct (mstep g tbl c) as [c1|v| |] eqn:Em; try discriminate.
    - destruct (IH _ _ H) as (k & c' & Hk & Hs & Ha). exists (S k), c'. split; [lia|]. split; [|exact Ha].
      cbn. exists c1. auto.
    - inversion H; subst v. exists 0, c. split; [lia|]. split; [reflexivity|exact Em].
  Qed.

  (* at acceptance the value stack holds exactly the accepted tree (re-proved from [SInv_acc]) *)
  Lemma SInv_acc_single ss trs rest t :
    SInv g sts w (ss, trs, rest) -> mstep g tbl (ss, trs, rest) = Acc t -> trs = [t].
  Proof.
    intros (syms & Hst & Hv & (k & Hy) & Hr). unfold mstep.
    destruct ss as [|cur ss]; [discriminate|].
    pose proof (stk_top_lt _ _ _ SF _ _ _ Hst) as Hcur. pose proof (look_lt _ _ _ SF _ Hr) as Hla.
    destruct (cell tbl cur (nterm_count g + look g rest)) as [e|c] eqn:Ec; [|discriminate].
    pose proof (cell_cell_at _ _ _ _ Ec) as Ee.
    pose proof (sf_cell _ _ _ SF cur _ Hcur (col_lt _ _ Hla)) as Hcj.
    destruct (e_kind e) eqn:Ek; try discriminate.
    - rewrite Ee in Ek. destruct (cj_success _ _ _ _ _ Hcj Ek) as (Hcol & i & Hi & Hir & Hic).
      destruct (sf_root_rhs _ _ _ SF) as (x & Hroot).
      pose proof (root_lt _ _ _ SF) as Hrl.
      destruct (sf_ri _ _ _ SF _ Hrl) as (_ & _ & Hn). rewrite (sf_root_r _ _ _ SF), Hroot in Hn. cbn in Hn.
      destruct (sf_item _ _ _ SF cur i Hcur Hi) as (_ & Hdle & _).
      unfold is_complete in Hic. apply Nat.leb_le in Hic. rewrite Hir, Hn in Hdle, Hic.
      assert (it_d i = 1) as Hd by lia.
      destruct (stk_item _ _ _ SF 1 _ _ _ i Hst Hi Hd) as (Hle & Hrev & s0 & Hs0 & Hin0).
      assert (s0 < length sts) as Hs0lt.
      { pose proof (stk_all_lt _ _ _ SF _ _ Hst) as Hall. rewrite Forall_forall in Hall. apply Hall.
        eapply nth_error_In; eassumption. }
      assert (s0 = 0) as Hz.
      { apply (sf_root_st0 _ _ _ SF s0 _ Hs0lt Hin0); [cbn; assumption|reflexivity]. }
      assert (length syms = 1) as Hlen.
      { destruct (Nat.eq_dec (length syms) 1) as [|Hne]; [assumption|]. exfalso.
        assert (1 < length syms) as Hlt by lia.
        apply (stk_nonzero _ _ _ _ Hst 1 Hlt). rewrite (nth_error_nth _ _ 0 Hs0). assumption. }
      destruct syms as [|X [|? ?]]; cbn in Hlen; try discriminate.
      inversion Hv as [|? v ? trs' Hvx Hnil]; subst. inversion Hnil; subst.
      cbn. intros Ht; inversion Ht; reflexivity.
    - destruct (e_arg e); discriminate.
    - destruct (e_arg e) as [r|]; [|discriminate]. unfold mreduce.
      destruct (nth_error (rule_infos g) r) as [ri|]; [|discriminate].
      destruct (Nat.ltb (length (cur :: ss)) (ri_n ri)); [discriminate|].
      destruct (skipn (ri_n ri) (cur :: ss)) as [|top ?]; [discriminate|].
      destruct (cell tbl top (ri_l ri)) as [e'|]; [|discriminate].
      destruct (e_arg e'); [|discriminate]. destruct (Nat.ltb (length trs) (ri_n ri)); discriminate.
  Qed.

  (* the simulation of LRMachine.v with the fuel made explicit *)
  Lemma sim_complete_exact n : forall s t, normal w s -> mrun g tbl n (abs w s) = Some t ->
    forall out, fst (fst (drun n s out)) = Accept t.
  Proof.
    induction n as [|n IH]; intros s t Hn Hm out; cbn [mrun] in Hm; [discriminate|].
    pose proof (step_sim g tbl w s Hn) as Hs. destruct (mstep g tbl (abs w s)) as [c'|v| |]; try discriminate.
    - destruct Hs as (s' & ev & Hs & Hn' & Ha). subst c'. cbn [run_from]. rewrite Hs. apply IH; assumption.
    - inversion Hm; subst v. destruct Hs as (s' & ev & Hs). cbn [run_from]. rewrite Hs. reflexivity.
  Qed.

  Lemma sim_out_of_fuel k : forall s c', normal w s -> msteps g tbl k (abs w s) c' ->
    forall fuel out, fuel <= k -> fst (fst (drun fuel s out)) = OutOfFuel.
  Proof.
    induction k as [|k IH]; intros s c' Hn Hm fuel out Hle.
    - assert (fuel = 0) by lia. subst. reflexivity.
    - destruct fuel as [|f]; [reflexivity|]. cbn [msteps] in Hm. destruct Hm as (c1 & Hs1 & Hm).
      pose proof (step_sim g tbl w s Hn) as Hs. rewrite Hs1 in Hs.
      destruct Hs as (s' & ev & Hs & Hn' & Ha). subst c1. cbn [run_from]. rewrite Hs.
      eapply IH; [exact Hn'|exact Hm|lia].
  Qed.
End Steps.

(* the loop runs exactly (size of the tree + 1) times: one iteration per leaf (shift), one per inner node (reduce),
   one for the success cell *)
Theorem accepted_fuel_exact : forall g sts tbl w t,
  validate_sound g sts tbl = true -> no_error_symbol g tbl = true -> tokens_ok g w ->
  accepts g tbl w t ->
  tsize t = length w + nodes t /\
  forall fuel, (tsize t < fuel -> tree_run g tbl w fuel = Accept t) /\
               (fuel <= tsize t -> tree_run g tbl w fuel = OutOfFuel).
Proof.
  intros g sts tbl w t Hv Hne Hw Hacc.
  pose proof (sound_facts_of g sts tbl Hv) as SF.
  split.
  { destruct (lr_sound g sts tbl w t Hv Hne Hw Hacc) as (s & _ & _ & Hy). rewrite tsize_yield, Hy. reflexivity. }
  destruct (accepts_mrun g tbl w (SInv g sts w)) with (t := t) as (n & Hn).
  { intros c. apply SInv_not_bad; assumption. }
  { intros c c'. apply SInv_next; assumption. }
  { exact (no_error_symbol_cell g tbl Hne). }
  { apply SInv_init. assumption. }
  { assumption. }
  destruct (mrun_steps g tbl n _ _ Hn) as (k & c' & Hk & Hs & Ha).
  pose proof (msteps_SInv g sts tbl w SF k _ _ Hs (SInv_init g sts w Hw)) as Hi.
  destruct c' as [[ss trs] rest].
  pose proof (SInv_acc_single g sts tbl w SF _ _ _ _ Hi Ha) as Et. subst trs.
  pose proof (msteps_size g tbl k _ _ Hs) as Hz. cbn in Hz. rewrite !Nat.add_0_r in Hz.
  assert (Hm : mrun g tbl (k + 1) ([0], [], w) = Some t).
  { eapply msteps_mrun; [exact Hs|]. cbn [mrun]. rewrite Ha. reflexivity. }
  intros fuel. split; intros Hf.
  - rewrite tree_run_eq.
    rewrite <- (init_abs w) in Hm.
    pose proof (sim_complete_exact g tbl w (k + 1) _ _ (init_normal w) Hm []) as Hr.
    destruct (run_from tree unit g tbl tree_opts w None id_lexer tf (ef g) rlf (k + 1) (init tt) []) as [[r s] o] eqn:E.
    cbn in Hr. subst r.
    replace fuel with ((k + 1) + (fuel - (k + 1))) by lia.
    rewrite (run_from_mono _ _ _ _ _ _ _ _ _ _ _ _ _ _ _ _ _ _ E); [reflexivity|discriminate].
  - rewrite tree_run_eq. rewrite <- (init_abs w) in Hs.
    eapply sim_out_of_fuel; [apply init_normal|exact Hs|lia].
Qed.

Corollary terminates_accepted_bound : forall g sts tbl w t,
  validate_sound g sts tbl = true -> no_error_symbol g tbl = true -> tokens_ok g w ->
  accepts g tbl w t ->
  forall fuel, length w + nodes t + 1 <= fuel -> tree_run g tbl w fuel = Accept t.
Proof.
  intros g sts tbl w t Hv Hne Hw Hacc fuel Hf.
  destruct (accepted_fuel_exact g sts tbl w t Hv Hne Hw Hacc) as [E H]. apply H. lia.
Qed.

(* ================================================================================================= *)
(* (S4)                                                                                              *)
(* ================================================================================================= *)
Lemma cell_inr tbl s c x : cell tbl s c = inr x -> x = CrTableRow \/ x = CrTableCol.
Proof.
  unfold cell. destruct (nth_error tbl s) as [row|]; [|intros H; inversion H; auto].
  destruct (nth_error row c); intros H; inversion H; auto.
Qed.

Section Recovery.
  Variables V C : Type.
  Variable g : grammar.
  Variable tbl : table.
  Variable opts : options.
  Variable buf : list nat.
  Variable cap : option nat.
  Variable lexer : bool -> spoint -> list nat -> list lex_event * option (nat * nat).
  Variable term_f : nat -> nat -> nat -> spoint -> V.
  Variable err_f : spoint -> V.
  Variable rule_f : nat -> C -> list V -> C * V.

  Notation pst := (pstate V C).
  Notation stepx := (step V C g tbl opts buf cap lexer term_f err_f rule_f).
  Notation run_ghx := (run_gh V C g tbl opts buf cap lexer term_f err_f rule_f).
  Notation run_fromx := (run_from V C g tbl opts buf cap lexer term_f err_f rule_f).
  Notation runx := (run V C g tbl opts buf cap lexer term_f err_f rule_f).
  Notation gspec := (gct_spec V C g opts buf lexer).
  Notation aspec := (act_spec2 V C g tbl buf cap term_f err_f rule_f).
  Notation consumex := (consume_term V C buf).

  Definition err_col := nterm_count g + err_idx g.

  (* in recovery mode get_current_term hands out the error token and leaves the state alone *)
  Lemma gct_rec s s1 ot ev : ps_rec s = true -> gspec s (s1, ot, ev) -> s1 = s /\ ot = Some (err_idx g).
  Proof. intros Hr H. inversion H; subst; try congruence. auto. Qed.

  (* ---------- without error rules: recovery mode only pops ---------- *)
  Lemma rec_step s : err_col_empty g tbl -> ps_rec s = true -> ps_cons s = false ->
    match fst (stepx s) with
    | inl s' => ps_rec s' = true /\ ps_cons s' = false /\
                ps_cursors s' = tl (ps_cursors s) /\ ps_values s' = tl (ps_values s) /\ ps_cursors s' <> []
    | inr (r, _) =>
        (r = Reject /\ length (ps_cursors s) = 1) \/
        (r = Crash CrEmptyStack /\ ps_cursors s = []) \/
        ((r = Crash CrTableRow \/ r = Crash CrTableCol) /\
         exists cur x, hd_error (ps_cursors s) = Some cur /\ cell tbl cur err_col = inr x)
    end.
  Proof.
    intros Herr Hr Hc. apply step_cases2.
    - intros E. right. left. auto.
    - intros s1 ev1 Hg. destruct (gct_rec _ _ _ _ Hr Hg) as [_ E]. discriminate.
    - intros cur cs s1 t ev1 r Hcs Hg Ha. destruct (gct_rec _ _ _ _ Hr Hg) as [-> E]. inversion E; subst t.
      inversion Ha as [c Hce|e Hce Hk Hcn Htm|e Hce Hk Hcn Htm|e Hce Hk Hcn Hrc|e top cs' Hce Hk Hcn Hrc Htl|e Hce Hk Hcn Hrc Htl
                      |e Hce Hk Harg|e nst Hce Hk Harg Hf|e nst Hce Hk Harg Hf Hov|e nst Hce Hk Harg Hf Hov
                      |e nst Hce Hk Harg Hf|e Hce Hk Harg|e r0 s3 ev Hce Hk Harg Hred|e r0 res Hce Hk Harg Hred
                      |e Hce Hk Hrv|e v rest Hce Hk Hrv];
        subst r; try congruence;
        try (pose proof (Herr _ _ Hce) as Hk'; unfold is_shift_kind, is_reduce_kind in *;
             first [congruence | destruct Hk; congruence]).
      + right. right. split.
        * destruct (cell_inr _ _ _ _ Hce); subst; auto.
        * exists cur, c. rewrite Hcs. auto.
      + simp_ps. repeat split; auto. rewrite Htl. discriminate.
      + left. split; [reflexivity|]. rewrite Hcs in Htl |- *. cbn in Htl. subst cs. reflexivity.
  Qed.

  Definition rec_outcome (s : pst) (r : result V) : Prop :=
    r = Reject \/
    (r = Crash CrEmptyStack /\ ps_cursors s = []) \/
    ((r = Crash CrTableRow \/ r = Crash CrTableCol) /\
     exists cur x, In cur (ps_cursors s) /\ cell tbl cur err_col = inr x).

  (* within (stack height) iterations the run is over: it rejects, unless the stack holds an invalid row *)
  Lemma rec_run_ends : err_col_empty g tbl -> forall fuel s out,
    ps_rec s = true -> ps_cons s = false -> 0 < fuel -> length (ps_cursors s) <= fuel ->
    rec_outcome s (fst (fst (run_fromx fuel s out))).
  Proof.
    intros Herr. induction fuel as [|f IH]; intros s out Hr Hc Hpos Hle; [lia|].
    cbn [run_from]. pose proof (rec_step s Herr Hr Hc) as Hs.
    destruct (stepx s) as [[s'|[r s']] ev]; cbn [fst] in Hs.
    - destruct Hs as (Hr' & Hc' & Hcs & Hvs & Hne).
      assert (Hlen : length (ps_cursors s) = S (length (ps_cursors s'))).
      { rewrite Hcs. destruct (ps_cursors s) as [|a l]; [cbn in Hcs; congruence|reflexivity]. }
      assert (Hpos' : 0 < length (ps_cursors s')) by (destruct (ps_cursors s'); [congruence|cbn; lia]).
      specialize (IH s' (out ++ filter (visible opts) ev) Hr' Hc' ltac:(lia) ltac:(lia)).
      destruct IH as [IH|[[IH1 IH2]|[IH1 (cur & x & Hin & Hx)]]].
      + left. exact IH.
      + congruence.
      + right. right. split; [exact IH1|]. exists cur, x. split; [|exact Hx].
        rewrite Hcs in Hin. destruct (ps_cursors s); [destruct Hin|right; exact Hin].
    - cbn [fst]. destruct Hs as [[-> _]|[[-> E]|[Hrr (cur & x & Hh & Hx)]]].
      + left. reflexivity.
      + right. left. auto.
      + right. right. split; [exact Hrr|]. exists cur, x. split; [|exact Hx].
        destruct (ps_cursors s); cbn in Hh; [discriminate|]. inversion Hh; subst. left. reflexivity.
  Qed.

  (* ---------- a run passes through its visited states ---------- *)
  Lemma run_gh_vis_ext fuel : forall s out vis, exists v, snd (run_ghx fuel s out vis) = vis ++ v.
  Proof.
    induction fuel as [|f IH]; intros s out vis; cbn [run_gh].
    - exists []. cbn. now rewrite app_nil_r.
    - destruct (stepx s) as [[s'|[r s']] ev].
      + destruct (IH s' (out ++ filter (visible opts) ev) (vis ++ [s])) as (v & E). exists (s :: v).
        rewrite E, <- app_assoc. reflexivity.
      + exists [s]. reflexivity.
  Qed.

  Lemma run_gh_nth fuel : forall s0 out0 vis0 i s,
    nth_error (snd (run_ghx fuel s0 out0 vis0)) (length vis0 + i) = Some s ->
    exists out_i, forall m, run_fromx (i + m) s0 out0 = run_fromx m s out_i.
  Proof.
    induction fuel as [|f IH]; intros s0 out0 vis0 i s H; cbn [run_gh] in H.
    - cbn in H. exfalso. assert (nth_error vis0 (length vis0 + i) = None) as E by (apply nth_error_None; lia). congruence.
    - destruct (stepx s0) as [[s'|[r s']] ev] eqn:Es.
      + destruct i as [|i].
        * destruct (run_gh_vis_ext f s' (out0 ++ filter (visible opts) ev) (vis0 ++ [s0])) as (v & E).
          rewrite E, Nat.add_0_r, <- app_assoc, nth_error_app2, Nat.sub_diag in H by lia. cbn in H. inversion H; subst.
          exists out0. intros m. reflexivity.
        * replace (length vis0 + S i) with (length (vis0 ++ [s0]) + i) in H by (rewrite app_length; cbn; lia).
          destruct (IH _ _ _ _ _ H) as (out_i & Ho). exists out_i. intros m.
          cbn [Nat.add run_from]. rewrite Es. apply Ho.
      + cbn [snd] in H. destruct i as [|i].
        * rewrite Nat.add_0_r, nth_error_app2, Nat.sub_diag in H by lia. cbn in H. inversion H; subst.
          exists out0. intros m. reflexivity.
        * exfalso. assert (nth_error (vis0 ++ [s0]) (length vis0 + S i) = None) as E.
          { apply nth_error_None. rewrite app_length. cbn. lia. }
          congruence.
  Qed.

  (* recovery mode and consume mode exclude each other, for every table *)
  Definition modes_inv (s : pst) : Prop := ps_rec s = true -> ps_cons s = false.

  Lemma step_modes s : modes_inv s ->
    match fst (stepx s) with inl s' => modes_inv s' | inr _ => True end.
  Proof.
    intros Hm. apply step_cases2; [auto|auto|].
    intros cur cs s1 t ev1 r Hcs Hg Ha.
    destruct (gct_stacks Hg) as (_ & _ & _ & Hr1 & Hc1).
    assert (Hm1 : modes_inv s1) by (unfold modes_inv; rewrite Hr1, Hc1; exact Hm).
    inversion Ha as [c Hce|e Hce Hk Hcn Htm|e Hce Hk Hcn Htm|e Hce Hk Hcn Hrc|e top cs' Hce Hk Hcn Hrc Htl|e Hce Hk Hcn Hrc Htl
                    |e Hce Hk Harg|e nst Hce Hk Harg Hf|e nst Hce Hk Harg Hf Hov|e nst Hce Hk Harg Hf Hov
                    |e nst Hce Hk Harg Hf|e Hce Hk Harg|e r0 s3 ev Hce Hk Harg Hred|e r0 res Hce Hk Harg Hred
                    |e Hce Hk Hrv|e v rest Hce Hk Hrv];
      subst r; try exact I; unfold modes_inv; simp_ps; auto.
    inversion Hred; subst. simp_ps. reflexivity.
  Qed.

  Lemma visited_modes fuel c : Forall modes_inv (snd (run_ghx fuel (init c) [] [])).
  Proof.
    pose proof (run_gh_sinv V C g tbl opts buf cap lexer term_f err_f rule_f modes_inv (fun _ _ => True)) as H.
    specialize (H (fun _ _ => I)).
    assert (Hst : forall s, modes_inv s -> match fst (stepx s) with inl s' => modes_inv s' | inr (r, s') => True end).
    { intros s Hs. pose proof (step_modes s Hs) as H1. destruct (fst (stepx s)) as [s'|[r s']]; auto. }
    specialize (H Hst fuel (init c) [] []).
    destruct (run_ghx fuel (init c) [] []) as [[[r s] out] vis]. cbn.
    apply H; [intros E; discriminate E|constructor].
  Qed.

  (* ---------- with error rules: progress of consume mode ---------- *)
  (* every iteration in consume mode ends the run, leaves consume mode, or consumes the pending term (a term other
     than <eof>) and nothing else; the last alternative is a (second) shift of the error token, possible only when
     the pending term's own column says "shift error" -- excluded by [cell_justified] and [lexer_ok_for] *)
  Lemma consume_progress s : ps_cons s = true -> ps_rec s = false ->
    match fst (stepx s) with
    | inr _ => True
    | inl s' =>
        ps_cons s' = false \/
        (exists s1 t ev, gspec s (s1, Some t, ev) /\ ps_term s1 = Some t /\ t <> eof_idx g /\ s' = consumex s1 /\
                         ps_cons s' = true /\ ps_rec s' = false /\
                         ps_cursors s' = ps_cursors s /\ ps_values s' = ps_values s /\
                         ps_it s' = ps_end s1 /\ ps_end s' = ps_end s1) \/
        (exists cur t e, hd_error (ps_cursors s) = Some cur /\ cell tbl cur (nterm_count g + t) = inl e /\
                         e_kind e = KShiftErr /\ ps_cons s' = true /\ ps_rec s' = false)
    end.
  Proof.
    intros Hc Hr. apply step_cases2; [auto|auto|].
    intros cur cs s1 t ev1 r Hcs Hg Ha.
    destruct (gct_stacks Hg) as (Hcs1 & Hvs1 & _ & Hr1 & Hc1).
    destruct (gct_term Hg) as [[E _]|[_ Htm]]; [congruence|].
    inversion Ha as [c Hce|e Hce Hk Hcn Htm'|e Hce Hk Hcn Htm'|e Hce Hk Hcn Hrc|e top cs' Hce Hk Hcn Hrc Htl|e Hce Hk Hcn Hrc Htl
                    |e Hce Hk Harg|e nst Hce Hk Harg Hf|e nst Hce Hk Harg Hf Hov|e nst Hce Hk Harg Hf Hov
                    |e nst Hce Hk Harg Hf|e Hce Hk Harg|e r0 s3 ev Hce Hk Harg Hred|e r0 res Hce Hk Harg Hred
                    |e Hce Hk Hrv|e v rest Hce Hk Hrv];
      subst r; try exact I; try congruence.
    - right. left. exists s1, t, ev1. simp_ps. repeat split; auto; congruence.
    - left. simp_ps. reflexivity.
    - right. right. exists cur, t, e. rewrite Hcs. simp_ps. repeat split; auto; congruence.
    - left. inversion Hred; subst. simp_ps. reflexivity.
  Qed.

  (* ... and with a lexer that never returns an empty lexeme the cursor strictly advances *)
  Lemma consume_advances s s1 t ev :
    (forall v p rest t len, snd (lexer v p rest) = Some (t, len) -> 0 < len) ->
    ps_rec s = false -> ps_it s <= ps_end s -> gspec s (s1, Some t, ev) -> t <> eof_idx g ->
    ps_it s < ps_end s1.
  Proof.
    intros Hpos Hr Hle Hg Hne.
    inversion Hg as [Hr'|Hr' Hn|sp1 it1 Hr' He Hit1 Hsp1 Hsk|sp1 it1 c rest lx Hr' He Hit1 Hsp1 Hsk Hl|sp1 it1 c rest lx t0 len Hr' He Hit1 Hsp1 Hsk Hl];
      subst; try congruence.
    - lia.
    - simp_ps. assert (0 < len) by (eapply (Hpos _ _ _ t len); rewrite Hl; reflexivity). lia.
  Qed.

  (* ---------- with error rules: progress of recovery mode ---------- *)
  (* every iteration in recovery mode ends the run, pops one entry, shifts the error token (and goes to consume
     mode), or reduces; the last alternative, a plain shift in the error column, does not occur in generated tables *)
  Lemma recovery_progress s : ps_rec s = true -> ps_cons s = false ->
    match fst (stepx s) with
    | inr _ => True
    | inl s' =>
        (* pop *)
        (ps_rec s' = true /\ ps_cons s' = false /\
         ps_cursors s' = tl (ps_cursors s) /\ ps_values s' = tl (ps_values s) /\ ps_cursors s' <> []) \/
        (* shift of the error token *)
        (ps_rec s' = false /\ ps_cons s' = true /\
         exists nst, ps_cursors s' = nst :: ps_cursors s /\ ps_values s' = err_f (ps_sp s) :: ps_values s) \/
        (* reduce *)
        (ps_rec s' = true /\ ps_cons s' = false /\
         exists r ri nst v, nth_error (rule_infos g) r = Some ri /\
           ri_n ri <= length (ps_cursors s) /\ ri_n ri <= length (ps_values s) /\
           ps_cursors s' = nst :: skipn (ri_n ri) (ps_cursors s) /\
           ps_values s' = v :: skipn (ri_n ri) (ps_values s)) \/
        (* a plain shift in the error column *)
        (exists cur e, hd_error (ps_cursors s) = Some cur /\ cell tbl cur err_col = inl e /\ e_kind e = KShift)
    end.
  Proof.
    intros Hr Hc. apply step_cases2; [auto|auto|].
    intros cur cs s1 t ev1 r Hcs Hg Ha. destruct (gct_rec _ _ _ _ Hr Hg) as [-> E]. inversion E; subst t.
    inversion Ha as [c Hce|e Hce Hk Hcn Htm'|e Hce Hk Hcn Htm'|e Hce Hk Hcn Hrc|e top cs' Hce Hk Hcn Hrc Htl|e Hce Hk Hcn Hrc Htl
                    |e Hce Hk Harg|e nst Hce Hk Harg Hf|e nst Hce Hk Harg Hf Hov|e nst Hce Hk Harg Hf Hov
                    |e nst Hce Hk Harg Hf|e Hce Hk Harg|e r0 s3 ev Hce Hk Harg Hred|e r0 res Hce Hk Harg Hred
                    |e Hce Hk Hrv|e v rest Hce Hk Hrv];
      subst r; try exact I; try congruence.
    - left. simp_ps. repeat split; auto. rewrite Htl. discriminate.
    - right. right. right. exists cur, e. rewrite Hcs. auto.
    - right. left. simp_ps. repeat split; auto. exists nst. auto.
    - right. right. left.
      inversion Hred as [| | | | | | | |ri top cs' e' nst c' v (Hn & Hle & Hsk) Hc' Hf Ha' Hv Hrf Hf2]; subst.
      simp_ps. rewrite clr_cursors in Hle, Hsk. rewrite clr_values in Hv.
      repeat split; auto. exists r0, ri, nst, v. rewrite Hsk. repeat split; auto.
  Qed.

End Recovery.

(* (S4) for the whole run: once a state in recovery mode has been reached (the syntax error was reported in the
   iteration before, which left the stacks alone), at most (stack height) further iterations are made and the result
   is Reject -- for a table without error symbol that passes [safe_ok] *)
Theorem error_run_terminates :
  forall (V C : Type) g sts tbl opts buf cap lexer
         (term_f : nat -> nat -> nat -> spoint -> V) (err_f : spoint -> V) (rule_f : nat -> C -> list V -> C * V),
  safe_ok g sts tbl = true -> lexer_ok_on g buf lexer -> no_error_symbol g tbl = true ->
  forall fuel c i s,
    nth_error (snd (run_gh V C g tbl opts buf cap lexer term_f err_f rule_f fuel (init c) [] [])) i = Some s ->
    ps_rec s = true ->
    forall fuel', i + length (ps_cursors s) <= fuel' ->
      fst (fst (run V C g tbl opts buf cap lexer term_f err_f rule_f fuel' c)) = Reject.
Proof.
  intros V C g sts tbl opts buf cap lexer term_f err_f rule_f Hs Hl Hne fuel c i s Hnth Hr fuel' Hf.
  pose proof (no_error_symbol_cell g tbl Hne) as Herr.
  pose proof (safe_facts_of _ _ _ Hs) as SA.
  (* the visited state satisfies the stack invariant and the mode invariant *)
  pose proof (run_gh_safe V C g sts tbl opts buf cap lexer term_f err_f rule_f SA Hl fuel c) as Hsafe.
  pose proof (visited_modes V C g tbl opts buf cap lexer term_f err_f rule_f fuel c) as Hmodes.
  destruct (run_gh V C g tbl opts buf cap lexer term_f err_f rule_f fuel (init c) [] []) as [[[r0 s0] out0] vis] eqn:Erun.
  cbn [snd] in *. destruct Hsafe as [_ Hsafe].
  pose proof (nth_error_In _ _ Hnth) as Hin.
  rewrite Forall_forall in Hsafe, Hmodes. pose proof (Hsafe s Hin) as Hinv. pose proof (Hmodes s Hin Hr) as Hc.
  destruct (sinv_facts V C g sts tbl buf SA s Hinv) as (Hnil & _ & _).
  assert (Hpos : 0 < length (ps_cursors s)) by (destruct (ps_cursors s); [congruence|cbn; lia]).
  (* the run from the start passes through s *)
  assert (Hnth' : nth_error (snd (run_gh V C g tbl opts buf cap lexer term_f err_f rule_f fuel (init c) [] [])) (length (@nil (pstate V C)) + i) = Some s)
    by (rewrite Erun; exact Hnth).
  destruct (run_gh_nth V C g tbl opts buf cap lexer term_f err_f rule_f fuel _ _ _ _ _ Hnth') as (out_i & Ho).
  unfold run. replace fuel' with (i + (fuel' - i)) by lia. rewrite Ho.
  pose proof (rec_run_ends V C g tbl opts buf cap lexer term_f err_f rule_f Herr (fuel' - i) s out_i Hr Hc ltac:(lia) ltac:(lia)) as Hout.
  (* the run does not crash *)
  pose proof (no_crash_safe_ok V C g sts tbl opts buf cap lexer term_f err_f rule_f Hs Hl (i + (fuel' - i)) c) as Hnc.
  unfold run in Hnc. rewrite Ho in Hnc.
  destruct Hout as [E|[[E _]|[[E|E] _]]]; [exact E|exfalso; eapply Hnc; exact E ..].
Qed.

(* the same at the level of one state, for ANY table whose error column is empty: from a state in recovery mode
   the run is over within (stack height) iterations and can only reject (or hit an invalid row / an empty stack) *)
Theorem recovery_ends_any_table :
  forall (V C : Type) g tbl opts buf cap lexer
         (term_f : nat -> nat -> nat -> spoint -> V) (err_f : spoint -> V) (rule_f : nat -> C -> list V -> C * V),
  no_error_symbol g tbl = true ->
  forall fuel s out, ps_rec s = true -> ps_cons s = false -> 0 < fuel -> length (ps_cursors s) <= fuel ->
    let r := fst (fst (run_from V C g tbl opts buf cap lexer term_f err_f rule_f fuel s out)) in
    r = Reject \/ r = Crash CrEmptyStack \/ r = Crash CrTableRow \/ r = Crash CrTableCol.
Proof.
  intros V C g tbl opts buf cap lexer term_f err_f rule_f Hne fuel s out Hr Hc Hpos Hle.
  pose proof (rec_run_ends V C g tbl opts buf cap lexer term_f err_f rule_f (no_error_symbol_cell g tbl Hne) fuel s out Hr Hc Hpos Hle) as H.
  cbv zeta. destruct H as [H|[[H _]|[[H|H] _]]]; auto.
Qed.

Print Assumptions terminates_accepted.
Print Assumptions accepted_fuel_exact.
Print Assumptions terminates_accepted_bound.
Print Assumptions error_run_terminates.
Print Assumptions recovery_ends_any_table.
Print Assumptions consume_progress.
Print Assumptions consume_advances.
Print Assumptions recovery_progress.
