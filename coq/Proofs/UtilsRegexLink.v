(* The pattern front end of the model (Model/RegexFront.v) classifies bytes and decodes hex escapes with unsigned comparisons on
   0..255; the real utils functions work on signed chars (Model/Utils.v mirrors that, tied to the real code exhaustively). They agree on
   every byte - by reflection over the finite domain, the bound stated in each theorem. *)
From Ctpg Require Import Base.Prelude Model.Containers Model.Utils Model.RegexFront.
From Coq Require Import List Bool Lia.

Definition class_agree (b : nat) : bool :=
  Bool.eqb (RegexFront.is_printable b) (Utils.is_printable b)
  && Bool.eqb (RegexFront.is_dec_digit b) (Utils.is_dec_digit b)
  && Bool.eqb (RegexFront.is_hex_digit b) (Utils.is_hex_digit b).

Lemma class_agree_all : forallb class_agree (seq 0 256) = true.
Proof. vm_compute. reflexivity. Qed.

Theorem front_end_classes_are_the_signed_char_classes : forall b, b < 256 ->
  RegexFront.is_printable b = Utils.is_printable b /\ RegexFront.is_dec_digit b = Utils.is_dec_digit b /\ RegexFront.is_hex_digit b = Utils.is_hex_digit b.
Proof.
  intros b Hb. pose proof class_agree_all as H. rewrite forallb_forall in H.
  specialize (H b). assert (Hin : In b (seq 0 256)) by (apply in_seq; lia). specialize (H Hin).
  unfold class_agree in H. apply andb_prop in H. destruct H as [H H3]. apply andb_prop in H. destruct H as [H1 H2].
  apply Bool.eqb_prop in H1. apply Bool.eqb_prop in H2. apply Bool.eqb_prop in H3. auto.
Qed.

Definition hex_agree (d1 : nat) : bool :=
  forallb (fun d2 => if RegexFront.is_hex_digit d1 && RegexFront.is_hex_digit d2
                     then Nat.eqb (RegexFront.hex_digits_to_char d1 d2) (Utils.hex_digits_to_char d1 d2) else true) (seq 0 256).

Lemma hex_agree_all : forallb hex_agree (seq 0 256) = true.
Proof. vm_compute. reflexivity. Qed.

(* \xHH (and \xH, decoded as the pair ('0', H)) *)
Theorem front_end_hex_decoding_is_the_real_one : forall d1 d2, d1 < 256 -> d2 < 256 ->
  RegexFront.is_hex_digit d1 = true -> RegexFront.is_hex_digit d2 = true ->
  RegexFront.hex_digits_to_char d1 d2 = Utils.hex_digits_to_char d1 d2.
Proof.
  intros d1 d2 H1 H2 X1 X2. pose proof hex_agree_all as H. rewrite forallb_forall in H.
  specialize (H d1). assert (Hin : In d1 (seq 0 256)) by (apply in_seq; lia). specialize (H Hin).
  unfold hex_agree in H. rewrite forallb_forall in H. specialize (H d2).
  assert (Hin2 : In d2 (seq 0 256)) by (apply in_seq; lia). specialize (H Hin2).
  rewrite X1, X2 in H. cbn [andb] in H. apply PeanoNat.Nat.eqb_eq in H. exact H.
Qed.

Print Assumptions front_end_classes_are_the_signed_char_classes.
Print Assumptions front_end_hex_decoding_is_the_real_one.
