(* Correctness of the derivative-based decider of Valid/SpecMatch.v with respect to the longest-match
   specification of Spec/Lang.v. No automaton is involved: after consuming the prefix [pre], component i of the
   derivative vector denotes { u | term i matches pre ++ u } (the invariant [vec_ok] of Proofs/DfaValidSound.v). *)
Require Import Ctpg.Base.Prelude Ctpg.Model.Driver Ctpg.Model.Dfa Ctpg.Spec.Lang Ctpg.Valid.DfaValid
               Ctpg.Valid.SpecMatch Ctpg.Proofs.DfaRe Ctpg.Proofs.DfaValidSound.

(* one step of [spec_aux]: the update of the best recognition so far *)
Definition spec_step (v : vec) (len : nat) (best : option (nat * nat)) : option (nat * nat) :=
  match first_nullable 0 v with Some i => Some (i, len) | None => best end.

Lemma spec_aux_eq : forall D v len s b,
  spec_aux D v len s b =
  match s with
  | [] => spec_step v len b
  | c :: t => spec_aux D (map (deriv D c) v) (S len) t (spec_step v len b)
  end.
Proof. intros. destruct s; reflexivity. Qed.

(* [spec_step] is the [rec_step] of a fictitious state whose first recognition slot is the least nullable index *)
Definition fake_state (v : vec) : dstate :=
  set_rec dstate0 (match first_nullable 0 v with Some i => [i] | None => [] end).

Lemma fake_state_hd : forall v, hd_error (d_rec (fake_state v)) = first_nullable 0 v.
Proof. intros v. unfold fake_state. cbn. destruct (first_nullable 0 v); reflexivity. Qed.

Lemma fake_state_step : forall v len b, rec_step (fake_state v) len b = spec_step v len b.
Proof. intros. unfold rec_step, spec_step, fake_state. cbn. destruct (first_nullable 0 v); reflexivity. Qed.

Lemma spec_step_best : forall terms pre rest v rt,
  vec_ok terms pre v ->
  best terms (pre ++ rest) (length pre) rt ->
  best terms (pre ++ rest) (S (length pre)) (spec_step v (length pre) rt).
Proof.
  intros terms pre rest v rt Hv Hb. rewrite <- fake_state_step.
  eapply rec_step_best; eauto. apply fake_state_hd.
Qed.

Lemma spec_aux_ok : forall terms rest pre v rt len,
  vec_ok terms pre v -> len = length pre ->
  best terms (pre ++ rest) len rt ->
  is_longest_match terms (pre ++ rest) (spec_aux (dict_of terms) v len rest rt).
Proof.
  intros terms. induction rest as [|c rest IH]; intros pre v rt len Hv Hlen Hbest; subst len;
    pose proof (spec_step_best terms pre _ v rt Hv Hbest) as Hb1; rewrite spec_aux_eq.
  - apply best_final. rewrite app_nil_r in *. exact Hb1.
  - assert (Es : pre ++ c :: rest = (pre ++ [c]) ++ rest) by (rewrite <- app_assoc; reflexivity).
    assert (El : length (pre ++ [c]) = S (length pre)) by (rewrite app_length; cbn; lia).
    rewrite Es. apply IH.
    + apply step_ok. exact Hv.
    + symmetry. exact El.
    + rewrite <- Es. exact Hb1.
Qed.

(* The decider computes the longest match with first-listed priority. The hypothesis [bytes_ok s] of the
   requested statement is not needed; both forms are given. *)
Theorem spec_longest_correct_any : forall terms s, is_longest_match terms s (spec_longest terms s).
Proof.
  intros terms s. unfold spec_longest. cbv zeta.
  apply (spec_aux_ok terms s [] (v0_of (dict_of terms) terms) None 0).
  - apply v0_ok.
  - reflexivity.
  - cbn. intros; lia.
Qed.

Theorem spec_longest_correct : forall terms s, bytes_ok s -> is_longest_match terms s (spec_longest terms s).
Proof. intros terms s _. apply spec_longest_correct_any. Qed.

Theorem spec_matches_correct_any : forall r s, spec_matches r s = true <-> matches r s.
Proof.
  intros r s. pose proof (spec_longest_correct_any [TRegex r] s) as L.
  unfold spec_matches. destruct (spec_longest [TRegex r] s) as [[i len]|]; cbn [is_longest_match] in L.
  - destruct L as (Hle & (t & Ht & Hm) & _ & Hlong).
    assert (i = 0).
    { destruct i; auto. cbn in Ht. destruct i; discriminate. }
    subst i. cbn in Ht. inversion Ht; subst t. unfold term_matches in Hm. cbn [regex_of_term] in Hm.
    split.
    + intros E. apply Nat.eqb_eq in E. subst len. rewrite firstn_all in Hm. exact Hm.
    + intros Hr. apply Nat.eqb_eq. destruct (Nat.eq_dec len (length s)) as [|Hne]; auto.
      exfalso. apply (Hlong (length s) 0 (TRegex r)); try lia; auto.
      unfold term_matches. cbn [regex_of_term]. rewrite firstn_all. exact Hr.
  - split; [discriminate|]. intros Hr. exfalso.
    apply (L (length s) 0 (TRegex r)); auto. unfold term_matches. cbn [regex_of_term].
    rewrite firstn_all. exact Hr.
Qed.

Theorem spec_matches_correct : forall r s, bytes_ok s -> (spec_matches r s = true <-> matches r s).
Proof. intros r s _. apply spec_matches_correct_any. Qed.

(* the result of the specification decider is unique: any two answers satisfying the specification agree *)
Lemma is_longest_match_unique : forall terms s r1 r2,
  is_longest_match terms s r1 -> is_longest_match terms s r2 -> r1 = r2.
Proof.
  intros terms s [[i1 l1]|] [[i2 l2]|]; cbn [is_longest_match].
  - intros (A1 & (t1 & A2 & A3) & A4 & A5) (B1 & (t2 & B2 & B3) & B4 & B5).
    assert (l1 = l2).
    { destruct (Nat.lt_trichotomy l1 l2) as [H|[H|H]]; auto; exfalso.
      - eapply (A5 l2 i2 t2); eauto.
      - eapply (B5 l1 i1 t1); eauto. }
    subst l2.
    assert (i1 = i2).
    { destruct (Nat.lt_trichotomy i1 i2) as [H|[H|H]]; auto; exfalso.
      - eapply (B4 i1 t1); eauto.
      - eapply (A4 i2 t2); eauto. }
    subst. reflexivity.
  - intros (A1 & (t1 & A2 & A3) & A4 & A5) B. exfalso. eapply (B l1 i1 t1); eauto.
  - intros A (B1 & (t2 & B2 & B3) & B4 & B5). exfalso. eapply (A l2 i2 t2); eauto.
  - reflexivity.
Qed.

Corollary spec_longest_complete : forall terms s r, is_longest_match terms s r -> r = spec_longest terms s.
Proof. intros. eapply is_longest_match_unique; eauto. apply spec_longest_correct_any. Qed.

Print Assumptions spec_longest_correct.
Print Assumptions spec_matches_correct.
Print Assumptions spec_longest_complete.
