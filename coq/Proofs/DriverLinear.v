(* C14: ownership of semantic values. With the id algebra every value created by the driver (a shifted term or the
   result of a functor call) is moved into at most one functor call, never used after the move, and at the end of the
   run sits in exactly one place: an argument list, the final value stack, or the values discarded by error recovery. *)
Require Import Ctpg.Base.Prelude Ctpg.Model.Grammar Ctpg.Model.LRGen Ctpg.Model.Driver Ctpg.Spec.Eval.
Require Import Ctpg.Proofs.DriverBasics Ctpg.Proofs.DriverPos.
Require Import Permutation.

Definition vid_eq_dec (x y : vid) : {x = y} + {x <> y}.
Proof. decide equality; apply Nat.eq_dec. Defined.

Definition non_err (v : vid) : bool := match v with IdErr => false | _ => true end.
Definition livef (l : list vid) : list vid := filter non_err l.
Definition call_args (c : nat * list vid * vid) : list vid := livef (snd (fst c)).
Definition call_res (c : nat * list vid * vid) : vid := snd c.
(* ids moved into a functor call so far, in call order; results of the calls *)
Definition consumed (lg : ledger) : list vid := flat_map call_args (lg_calls lg).
Definition results (lg : ledger) : list vid := map call_res (lg_calls lg).
Definition shift_ids (ev : list event) : list vid :=
  flat_map (fun e => match e with EvShift _ _ a _ => [IdLeaf a] | _ => [] end) ev.

Notation cnt := (count_occ vid_eq_dec).

Lemma livef_app a b : livef (a ++ b) = livef a ++ livef b.
Proof. apply filter_app. Qed.
Lemma cnt_livef_split n l x : cnt (livef l) x = cnt (livef (firstn n l)) x + cnt (livef (skipn n l)) x.
Proof. rewrite <- (firstn_skipn n l) at 1. now rewrite livef_app, count_occ_app. Qed.
Lemma cnt_livef_rev l x : cnt (livef (rev l)) x = cnt (livef l) x.
Proof.
  induction l as [|y l IH]; [reflexivity|]. cbn [rev]. rewrite livef_app, count_occ_app, IH.
  unfold livef. cbn [filter]. destruct (non_err y); cbn [filter count_occ]; try destruct (vid_eq_dec y x); lia.
Qed.
Lemma shift_ids_app a b : shift_ids (a ++ b) = shift_ids a ++ shift_ids b.
Proof. apply flat_map_app. Qed.
Lemma shift_ids_lex lx : shift_ids (map EvLex lx) = [].
Proof. induction lx; cbn; auto. Qed.
Lemma pop_lex lx : existsb is_pop_ev (map EvLex lx) = false.
Proof. induction lx; cbn; auto. Qed.

Lemma NoDup_app_intro {A} (a b : list A) : NoDup a -> NoDup b -> (forall x, In x a -> In x b -> False) -> NoDup (a ++ b).
Proof.
  intros Ha Hb Hd. induction Ha as [|x a Hx Ha IH]; cbn; [assumption|]. constructor.
  - intros Hin. apply in_app_or in Hin as [Hin|Hin]; [auto|]. apply (Hd x); [left; reflexivity|assumption].
  - apply IH. intros y Hy. apply Hd. right; assumption.
Qed.

Lemma NoDup_app_inv {A} (a b : list A) : NoDup (a ++ b) -> NoDup a /\ NoDup b /\ (forall x, In x a -> ~ In x b).
Proof.
  induction a as [|x a IH]; cbn; intros H.
  - repeat split; [constructor|assumption|intros ? []].
  - inversion H as [|? ? Hx Hn]; subst. destruct (IH Hn) as (Ha & Hb & Hd). repeat split; [|assumption|].
    + constructor; [|assumption]. intros Hin. apply Hx, in_or_app. auto.
    + intros y [->|Hy]; [|auto]. intros Hin. apply Hx, in_or_app. auto.
Qed.

(* what NoDup of a flat_map says: each piece duplicate-free, pieces at different positions disjoint *)
Lemma NoDup_flat_map_inv {A B} (f : A -> list B) l : NoDup (flat_map f l) ->
  (forall x, In x l -> NoDup (f x)) /\
  (forall l1 x l2 y l3, l = l1 ++ x :: l2 ++ y :: l3 -> forall v, In v (f x) -> ~ In v (f y)).
Proof.
  induction l as [|a l IH]; cbn [flat_map]; intros H.
  - split; [intros ? []|]. intros [|? ?] ? ? ? ? Heq; discriminate.
  - apply NoDup_app_inv in H as (Ha & Hl & Hd). destruct (IH Hl) as [IH1 IH2]. split.
    + intros x [->|Hx]; auto.
    + intros [|z l1] x l2 y l3 Heq v Hv; cbn in Heq; inversion Heq; subst.
      * intros Hy. apply (Hd v Hv). apply in_flat_map. exists y. split; [|assumption].
        apply in_or_app. right. left. reflexivity.
      * eapply IH2; eauto.
Qed.

Section Linear.
  Variable g : grammar.
  Variable tbl : table.
  Variable opts : options.
  Variable buf : list nat.
  Variable cap : option nat.
  Variable lexer : bool -> spoint -> list nat -> list lex_event * option (nat * nat).
  Hypothesis lexer_ok : lexer_in_range lexer.
  (* a table shifting <eof> (a zero-length lexeme) or shifting on the error token creates the same leaf twice *)
  Hypothesis no_eof_shift : eof_err_not_shifted g tbl.

  Notation pst := (pstate vid ledger).
  Notation stepx := (step vid ledger g tbl opts buf cap lexer id_term_f id_err_f id_rule_f).
  Notation run_ghx := (run_gh vid ledger g tbl opts buf cap lexer id_term_f id_err_f id_rule_f).
  Notation poppedx := (popped vid ledger g tbl opts buf cap lexer id_term_f id_err_f id_rule_f).
  Notation gspec := (gct_spec vid ledger g opts buf lexer).
  Notation aspec := (act_spec vid ledger g tbl buf cap id_term_f id_err_f id_rule_f).
  Notation pinv := (pos_inv vid ledger g tbl buf).

  Lemma lexer_len : forall v p rest t len, snd (lexer v p rest) = Some (t, len) -> len <= length rest.
  Proof. intros v p rest t len H. apply lexer_ok in H. tauto. Qed.

  (* ghost: the leaf ids created, i.e. the shifts of the iterations that went on *)
  Definition leaves_at (s : pst) : list vid := match stepx s with (inl _, ev) => shift_ids ev | _ => [] end.
  Definition leaves (vis : list pst) : list vid := flat_map leaves_at vis.

  (* lv: leaves created so far; pp: live ids popped so far *)
  Definition lin_inv (lv pp : list vid) (s : pst) : Prop :=
    results (ps_ctx s) = map IdNode (seq 0 (lg_next (ps_ctx s))) /\
    (forall x, cnt (results (ps_ctx s) ++ lv) x = cnt (consumed (ps_ctx s) ++ livef (ps_values s) ++ pp) x) /\
    Forall (fun v => exists a, v = IdLeaf a /\ a < ps_it s) lv /\
    NoDup lv.

  Lemma lin_inv_same lv pp (s s' : pst) :
    ps_values s' = ps_values s -> ps_ctx s' = ps_ctx s -> ps_it s <= ps_it s' -> lin_inv lv pp s -> lin_inv lv pp s'.
  Proof.
    intros Hv Hc Hit (H1 & H2 & H3 & H4). unfold lin_inv. rewrite Hv, Hc. repeat split; auto.
    eapply Forall_impl; [|exact H3]. intros v (a & -> & Ha). exists a. split; [reflexivity|lia].
  Qed.

  Definition pop_of (s : pst) (ev : list event) : list vid :=
    livef (if existsb is_pop_ev ev then firstn 1 (ps_values s) else []).

  Lemma gct_lin s s1 ot ev : gspec s (s1, ot, ev) ->
    shift_ids ev = [] /\ existsb is_pop_ev ev = false /\ ps_it s <= ps_it s1.
  Proof.
    intros H; inversion H; subst; simp_ps; rewrite ?shift_ids_app, ?existsb_app, ?shift_ids_lex, ?pop_lex; cbn; repeat split; lia.
  Qed.

  Lemma lc_lin (s1 : pst) : shift_ids (lc s1) = [] /\ existsb is_pop_ev (lc s1) = false.
  Proof. unfold lc. destruct (ps_cons s1); cbn; auto. Qed.

  Lemma plain_no_pop (s1 : pst) ev : Forall (plain_ev s1) ev -> existsb is_pop_ev ev = false.
  Proof.
    induction 1 as [|e ev He _ IH]; cbn; [reflexivity|]. rewrite IH, orb_false_r.
    destruct He as [->|[[? ->]|[->|[->|[? ->]]]]]; reflexivity.
  Qed.

  (* a term that is really shifted has a non-empty lexeme *)
  Lemma gct_nonempty s s1 t ev : pinv s -> gspec s (s1, Some t, ev) ->
    ps_rec s1 = false -> t <> eof_idx g -> ps_it s1 < ps_end s1.
  Proof.
    intros [_ Hgap] H Hr Ht.
    inversion H as [Hr'|Hr' Hne|sp1 it1 Hr' He Hit1 Hsp1 Hsk|sp1 it1 c rest lx Hr' He Hit1 Hsp1 Hsk Hlx|sp1 it1 c rest lx t' len Hr' He Hit1 Hsp1 Hsk Hlx];
      subst; simp_ps.
    - congruence.
    - destruct Hgap as [Hle|[Hterm _]]; [lia|]. congruence.
    - congruence.
    - match type of Hlx with lexer ?a ?b ?c = _ => pose proof (lexer_ok a b c t len) as Hl end.
      rewrite Hlx in Hl. specialize (Hl eq_refl). lia.
  Qed.

  Lemma seq_results n : map IdNode (seq 0 (S n)) = map IdNode (seq 0 n) ++ [IdNode n].
  Proof. now rewrite seq_S, map_app. Qed.

  Lemma step_lin lv pp s : pinv s -> lin_inv lv pp s ->
    match stepx s with
    | (inl s', ev) => lin_inv (lv ++ shift_ids ev) (pp ++ pop_of s ev) s'
    | (inr (_, s'), ev) => lin_inv lv (pp ++ pop_of s ev) s'
    end.
  Proof.
    intros Hpos Hinv. apply step_cases.
    - intros _. unfold pop_of; cbn. now rewrite app_nil_r.
    - intros s1 ev1 Hg. pose proof (gct_lin _ _ _ _ Hg) as (_ & Hp & Hit). unfold pop_of. rewrite Hp. cbn. rewrite app_nil_r.
      apply gct_stacks in Hg as (_ & Hv & Hc & _). eapply lin_inv_same; eauto.
    - intros cursor cs s1 t ev1 r ev2 _ Hg Ha.
      pose proof (gct_lin _ _ _ _ Hg) as (Hs1 & Hp1 & Hit).
      pose proof (gct_term Hg) as Hterm.
      pose proof (gct_nonempty _ _ _ _ Hpos Hg) as Hne.
      pose proof (gct_pos _ _ g tbl opts buf lexer lexer_len (or_introl no_eof_shift) _ _ _ _ Hpos Hg) as (_ & _ & _ & Hgap).
      specialize (Hgap ltac:(discriminate)).
      pose proof (gct_stacks Hg) as (_ & Hv & Hc & _).
      assert (H1 : lin_inv lv pp s1) by (eapply lin_inv_same; eauto).
      unfold pop_of. rewrite shift_ids_app, existsb_app, Hs1, Hp1, <- Hv. cbn [app orb]. clear Hinv Hg Hs1 Hp1 Hit Hv Hc Hpos.
      destruct (lc_lin s1) as [Hlc1 Hlc2].
      inversion Ha as [r0 s' ev0 Hs' Hr Hev|Hcn Hne'|Hcn Hr|top cs' Hcn Hr Htl|Hcn Hr Htl|e nst Hcell Hk Hend|nst|r0 s3 pre ev0 Hred Hpre];
        subst.
      + rewrite (plain_no_pop _ _ Hev). cbn. rewrite app_nil_r.
        destruct Hs' as [->| ->]; [assumption|]. eapply lin_inv_same; [..|exact H1]; simp_ps; auto.
      + cbn. rewrite !app_nil_r. eapply lin_inv_same; [..|exact H1]; simp_ps; auto.
        destruct Hgap as [Hle|[Hterm' _]]; [lia|contradiction].
      + cbn. rewrite !app_nil_r. eapply lin_inv_same; [..|exact H1]; simp_ps; auto.
      + cbn [shift_ids flat_map existsb is_pop_ev orb]. rewrite app_nil_r.
        destruct H1 as (Ha1 & Ha2 & Ha3 & Ha4). unfold lin_inv; simp_ps. repeat split; auto.
        intros x. specialize (Ha2 x). rewrite !count_occ_app in *.
        destruct (ps_values s1) as [|v vs]; cbn [tl firstn]; [cbn in Ha2 |- *; lia|].
        change (v :: vs) with ([v] ++ vs) in Ha2. rewrite livef_app, count_occ_app in Ha2. lia.
      + cbn [shift_ids flat_map existsb is_pop_ev orb].
        destruct H1 as (Ha1 & Ha2 & Ha3 & Ha4). unfold lin_inv; simp_ps. repeat split; auto.
        intros x. specialize (Ha2 x). rewrite !count_occ_app in *.
        destruct (ps_values s1) as [|v vs]; cbn [tl firstn]; [cbn in Ha2 |- *; lia|].
        change (v :: vs) with ([v] ++ vs) in Ha2. rewrite livef_app, count_occ_app in Ha2. lia.
      + (* shift *)
        assert (Hrec : ps_rec s1 = false /\ t <> eof_idx g).
        { destruct no_eof_shift as [Hn1 Hn2]. destruct Hterm as [[_ ->]|[Hr _]]; [exfalso; eapply Hn2; eauto|].
          split; [assumption|]. intros ->. eapply Hn1; eauto. }
        destruct Hrec as [Hrec Hteof]. specialize (Hne Hrec Hteof).
        rewrite shift_ids_app, existsb_app, Hlc1, Hlc2. simp_ps. cbn [shift_ids flat_map existsb is_pop_ev orb app].
        rewrite app_nil_r.
        destruct H1 as (Ha1 & Ha2 & Ha3 & Ha4). unfold lin_inv; simp_ps. unfold id_term_f. repeat split; auto.
        * intros x. specialize (Ha2 x). rewrite !count_occ_app in *. unfold livef in *. cbn [filter non_err count_occ].
          destruct (vid_eq_dec (IdLeaf (ps_it s1)) x); lia.
        * apply Forall_app; split.
          -- eapply Forall_impl; [|exact Ha3]. intros v (a & -> & Hlt). exists a. split; [reflexivity|lia].
          -- constructor; [|constructor]. exists (ps_it s1). split; [reflexivity|lia].
        * apply NoDup_app_intro; [assumption|constructor; [intros []|constructor]|].
          intros x Hx [<-|[]]. rewrite Forall_forall in Ha3. destruct (Ha3 _ Hx) as (a & Heq & Hlt). inversion Heq. lia.
      + (* shift error token *)
        rewrite !shift_ids_app, !existsb_app, Hlc1, Hlc2. simp_ps. cbn. rewrite !app_nil_r.
        destruct H1 as (Ha1 & Ha2 & Ha3 & Ha4). unfold lin_inv; simp_ps. unfold id_err_f. repeat split; auto.
      + (* reduce *)
        apply do_reduce_inl in Hred as (ri & nst & c' & v & _ & Hn & _ & Hf & -> & ->).
        rewrite clr_values in Hn. rewrite clr_values, clr_ctx in Hf. unfold id_rule_f in Hf. inversion Hf; subst c' v. clear Hf.
        rewrite !shift_ids_app, !existsb_app, Hlc1, Hlc2.
        assert (Hpre' : shift_ids pre = [] /\ existsb is_pop_ev pre = false) by (destruct Hpre as [->| ->]; cbn; auto).
        destruct Hpre' as [-> ->]. cbn. rewrite !app_nil_r.
        destruct H1 as (Ha1 & Ha2 & Ha3 & Ha4). unfold lin_inv; simp_ps.
        unfold results, consumed in *. cbn [lg_next lg_calls]. rewrite map_app, flat_map_app. cbn [map flat_map call_res call_args fst snd].
        rewrite app_nil_r. repeat split; auto.
        * rewrite seq_results, Ha1. reflexivity.
        * intros x. specialize (Ha2 x). rewrite !count_occ_app in *.
          rewrite (cnt_livef_split (ri_n ri) (ps_values s1)) in Ha2.
          change (call_args (ri_r ri, rev (firstn (ri_n ri) (ps_values s1)), IdNode (lg_next (ps_ctx s1))))
            with (livef (rev (firstn (ri_n ri) (ps_values s1)))).
          rewrite cnt_livef_rev.
          unfold livef in *. cbn [filter non_err count_occ].
          destruct (vid_eq_dec (IdNode (lg_next (ps_ctx s1))) x); lia.
  Qed.

  (* ---------- the invariant over the run ---------- *)
  Lemma leaves_snoc vis s : leaves (vis ++ [s]) = leaves vis ++ leaves_at s.
  Proof. unfold leaves. rewrite flat_map_app. cbn. now rewrite app_nil_r. Qed.
  Lemma popped_snoc vis s : livef (poppedx (vis ++ [s])) = livef (poppedx vis) ++ pop_of s (snd (stepx s)).
  Proof. unfold popped. rewrite flat_map_app. cbn. now rewrite app_nil_r, livef_app. Qed.

  Lemma run_lin_inv fuel :
    let '(_, s, _, vis) := run_ghx fuel (init ledger0) [] [] in
    lin_inv (leaves vis) (livef (poppedx vis)) s.
  Proof.
    pose proof (run_gh_inv vid ledger g tbl opts buf cap lexer id_term_f id_err_f id_rule_f
                  (fun vis s => pinv s /\ lin_inv (leaves vis) (livef (poppedx vis)) s)
                  (fun vis _ s => lin_inv (leaves vis) (livef (poppedx vis)) s)) as H.
    specialize (H ltac:(intros vis s [_ Hs]; exact Hs)).
    assert (Hst : forall vis s, pinv s /\ lin_inv (leaves vis) (livef (poppedx vis)) s ->
              match fst (stepx s) with
              | inl s' => pinv s' /\ lin_inv (leaves (vis ++ [s])) (livef (poppedx (vis ++ [s]))) s'
              | inr (_, s') => lin_inv (leaves (vis ++ [s])) (livef (poppedx (vis ++ [s]))) s'
              end).
    { intros vis s [Hp Hl]. rewrite leaves_snoc, popped_snoc. unfold leaves_at.
      pose proof (step_pos _ _ g tbl opts buf cap lexer id_term_f id_err_f id_rule_f lexer_len (or_introl no_eof_shift) s Hp) as [_ Hp'].
      pose proof (step_lin _ _ s Hp Hl) as Hl'.
      destruct (stepx s) as [[s'|[r s']] ev]; cbn [fst snd] in *; [auto|]. now rewrite app_nil_r. }
    specialize (H Hst fuel (init ledger0) [] []).
    destruct (run_ghx fuel (init ledger0) [] []) as [[[r s] out] vis]. apply H. split; [apply pos_inv_init|].
    unfold lin_inv. cbn. repeat split; auto; constructor.
  Qed.

  Lemma leaves_are_leaves lv (s : pst) : Forall (fun v => exists a, v = IdLeaf a /\ a < ps_it s) lv ->
    forall x, In x lv -> exists a, x = IdLeaf a.
  Proof. intros H x Hx. rewrite Forall_forall in H. destruct (H x Hx) as (a & -> & _). eauto. Qed.

  (* C14, at every reachable state (the final state of the run for the given fuel):
     - the results of the functor calls are IdNode 0 .. IdNode (lg_next-1), one call each;
     - leak-freedom: the ids created (those results, and a leaf per shift) are, as a multiset, exactly the ids moved
       into calls + the ids on the value stack + the ids removed by pop_stacks;
     - that multiset has no duplicates: nothing is consumed twice, nothing consumed or popped is still on the stack. *)
  Theorem run_linear fuel :
    let '(_, s, _, vis) := run_ghx fuel (init ledger0) [] [] in
    let lg := ps_ctx s in
    results lg = map IdNode (seq 0 (lg_next lg)) /\
    Permutation (results lg ++ leaves vis) (consumed lg ++ livef (ps_values s) ++ livef (poppedx vis)) /\
    NoDup (results lg ++ leaves vis) /\
    NoDup (consumed lg ++ livef (ps_values s) ++ livef (poppedx vis)) /\
    (forall k, In (IdNode k) (consumed lg ++ livef (ps_values s) ++ livef (poppedx vis)) -> k < lg_next lg).
  Proof.
    pose proof (run_lin_inv fuel) as H. destruct (run_ghx fuel (init ledger0) [] []) as [[[r s] out] vis].
    destruct H as (H1 & H2 & H3 & H4). cbn zeta.
    assert (Hperm : Permutation (results (ps_ctx s) ++ leaves vis)
                      (consumed (ps_ctx s) ++ livef (ps_values s) ++ livef (poppedx vis))).
    { apply (Permutation_count_occ vid_eq_dec). exact H2. }
    assert (Hnd : NoDup (results (ps_ctx s) ++ leaves vis)).
    { apply NoDup_app_intro; [| assumption |].
      - rewrite H1. apply FinFun.Injective_map_NoDup; [|apply seq_NoDup]. intros a b Hab. now inversion Hab.
      - intros x Hr Hl. rewrite H1 in Hr. apply in_map_iff in Hr as (k & <- & _).
        destruct (leaves_are_leaves _ _ H3 _ Hl) as (a & Ha). discriminate. }
    repeat split; auto.
    - eapply Permutation_NoDup; eassumption.
    - intros k Hk. apply (Permutation_in _ (Permutation_sym Hperm)) in Hk. apply in_app_or in Hk as [Hk|Hk].
      + rewrite H1 in Hk. apply in_map_iff in Hk as (k' & Heq & Hin). inversion Heq; subst. apply in_seq in Hin. lia.
      + destruct (leaves_are_leaves _ _ H3 _ Hk) as (a & Ha). discriminate.
  Qed.

  (* the itemised reading of the NoDup part *)
  Corollary run_linear_items fuel :
    let '(_, s, _, vis) := run_ghx fuel (init ledger0) [] [] in
    let lg := ps_ctx s in
    (* the live values on the stack are pairwise distinct *)
    NoDup (livef (ps_values s)) /\
    (* no live value was moved into an earlier call, none was popped *)
    (forall v, In v (livef (ps_values s)) -> ~ In v (consumed lg) /\ ~ In v (livef (poppedx vis))) /\
    (* no popped value had been, or is later, moved into a call *)
    (forall v, In v (livef (poppedx vis)) -> ~ In v (consumed lg)) /\
    (* each call's argument list is duplicate-free; the lists of two different calls are disjoint *)
    (forall c, In c (lg_calls lg) -> NoDup (call_args c)) /\
    (forall l1 c1 l2 c2 l3, lg_calls lg = l1 ++ c1 :: l2 ++ c2 :: l3 ->
        forall v, In v (call_args c1) -> ~ In v (call_args c2)) /\
    (* every node id around is the result of exactly one call *)
    (forall k, In (IdNode k) (consumed lg ++ livef (ps_values s) ++ livef (poppedx vis)) ->
        k < lg_next lg /\ cnt (results lg) (IdNode k) = 1).
  Proof.
    pose proof (run_linear fuel) as H. destruct (run_ghx fuel (init ledger0) [] []) as [[[r s] out] vis].
    cbn zeta in *. destruct H as (H1 & H2 & H3 & H4 & H5).
    apply NoDup_app_inv in H4 as (Hc & Hrest & Hd1). apply NoDup_app_inv in Hrest as (Hl & Hp & Hd2).
    destruct (NoDup_flat_map_inv call_args (lg_calls (ps_ctx s)) Hc) as [Hc1 Hc2].
    split; [assumption|]. split.
    { intros v Hv. split; intros Hin.
      - apply (Hd1 v Hin). apply in_or_app; auto.
      - apply (Hd2 v Hv Hin). }
    split.
    { intros v Hv Hin. apply (Hd1 v Hin). apply in_or_app; auto. }
    split; [exact Hc1|]. split; [exact Hc2|].
    intros k Hk.
    assert (Hlt : k < lg_next (ps_ctx s)).
    { apply H5. assumption. }
    split; [assumption|]. rewrite H1.
    assert (Hin : In (IdNode k) (map IdNode (seq 0 (lg_next (ps_ctx s))))) by (apply in_map, in_seq; lia).
    assert (Hnd : NoDup (map IdNode (seq 0 (lg_next (ps_ctx s))))).
    { apply FinFun.Injective_map_NoDup; [|apply seq_NoDup]. intros a b Hab. now inversion Hab. }
    apply (count_occ_In vid_eq_dec) in Hin. rewrite (NoDup_count_occ vid_eq_dec) in Hnd. specialize (Hnd (IdNode k)). lia.
  Qed.
End Linear.

(* the hypothesis on the table cannot be dropped: a table that shifts <eof> (zero-length lexeme, the cursor does not
   move) creates the leaf with id [IdLeaf start] again and again *)
Module EofShiftCounterexample.
  Definition g := mkG 3 0 0 1 [] [] [] [] [] [] [] [].
  Definition sh := mkE KShift (Some 0) false.
  Definition er := mkE KError None false.
  Definition tbl : table := [[er; sh; er]].
  Definition lexer (v : bool) (p : spoint) (rest : list nat) : list lex_event * option (nat * nat) := ([], Some (0, 1)).
  Definition o := mkOpt true true true.
  Example duplicate_ids :
    let '(_, s, _) := run vid ledger g tbl o [] None lexer id_term_f id_err_f id_rule_f 3 ledger0 in
    ps_values s = [IdLeaf 0; IdLeaf 0; IdLeaf 0].
  Proof. vm_compute. reflexivity. Qed.
End EofShiftCounterexample.
