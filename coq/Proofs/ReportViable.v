(* R4 (partial): the "no earlier than necessary" half under productivity.
   [validate] alone does not give it (Proofs/ReportCex.v, shifted_prefix_not_viable): the validator tolerates items
   that no closure put into a state, and shift cells into empty states. With two more (decidable) checks on the
   item sets --
     closure_generated : every dot-0 item of a state other than the root item of state 0 comes after an item of
                         the same state whose dot stands before its left side (the order closure produces);
     states_nonempty   : every state other than 0 has an item --
   every configuration the machine reaches has a stack whose yield (the tokens shifted so far) is a prefix of a
   sentence, provided every reachable nonterminal derives a terminal string. *)
Require Import Ctpg.Base.Prelude Ctpg.Model.Grammar Ctpg.Model.LRGen Ctpg.Model.Driver
               Ctpg.Spec.Cfg Ctpg.Spec.LRSpec Ctpg.Valid.LRValid
               Ctpg.Proofs.LRReflect Ctpg.Proofs.LRMachine Ctpg.Proofs.LRValidFacts Ctpg.Proofs.LRSound
               Ctpg.Proofs.LRComplete Ctpg.Proofs.ReportLang.

Definition lhs_of (g : grammar) (i : item) : nat := ri_l (get_ri g (it_r i)).

Definition closure_generated (g : grammar) (sts : list items) : Prop :=
  forall s j i, nth_error (state_items sts s) j = Some i -> it_d i = 0 ->
    (s = 0 /\ i = root_item g) \/
    exists k ik, k < j /\ nth_error (state_items sts s) k = Some ik /\ next_sym g ik = Some (NT (lhs_of g i)).
Definition states_nonempty (sts : list items) : Prop :=
  forall s, s < length sts -> state_items sts s <> [].

Definition closure_generatedb (g : grammar) (sts : list items) : bool :=
  forallb (fun s =>
    let its := state_items sts s in
    forallb (fun j =>
      match nth_error its j with
      | Some i =>
          negb (Nat.eqb (it_d i) 0) || (Nat.eqb s 0 && item_eqb i (root_item g)) ||
          existsb (fun k => match nth_error its k with
                            | Some ik => match next_sym g ik with
                                         | Some (NT b) => Nat.eqb b (lhs_of g i)
                                         | _ => false
                                         end
                            | None => false
                            end) (seq 0 j)
      | None => true
      end) (seq 0 (length its))) (seq 0 (length sts)).
Definition states_nonemptyb (sts : list items) : bool :=
  forallb (fun its => negb (Nat.eqb (length its) 0)) sts.

Lemma closure_generatedb_ok g sts : closure_generatedb g sts = true -> closure_generated g sts.
Proof.
  intros H s j i Hj Hd. unfold closure_generatedb in H. rewrite forallb_seq0 in H.
  assert (Hs : s < length sts).
  { destruct (Nat.lt_ge_cases s (length sts)) as [|Hge]; [assumption|].
    unfold state_items in Hj. rewrite (nth_overflow sts [] Hge) in Hj. destruct j; discriminate. }
  specialize (H s Hs). cbv zeta in H. rewrite forallb_seq0 in H.
  assert (Hjl : j < length (state_items sts s)) by (apply nth_error_Some; congruence).
  specialize (H j Hjl). rewrite Hj, Hd in H. cbn [Nat.eqb negb orb] in H.
  apply orb_true_iff in H. destruct H as [H|H].
  - left. apply andb_true_iff in H. destruct H as [H1 H2]. apply Nat.eqb_eq in H1. apply item_eqb_eq in H2. auto.
  - right. apply existsb_exists in H. destruct H as (k & Hk & H). apply in_seq in Hk.
    destruct (nth_error (state_items sts s) k) as [ik|] eqn:Ek; [|discriminate].
    exists k, ik. split; [lia|]. split; [exact Ek|].
    destruct (next_sym g ik) as [[a|b]|]; try discriminate. apply Nat.eqb_eq in H. subst b. reflexivity.
Qed.

Lemma states_nonemptyb_ok sts : states_nonemptyb sts = true -> states_nonempty sts.
Proof.
  intros H s Hs E. unfold states_nonemptyb in H. rewrite forallb_forall in H.
  unfold state_items in E. specialize (H (nth s sts []) (nth_In _ _ Hs)). rewrite E in H. discriminate.
Qed.

Section Viable.
  Variable g : grammar.
  Variable sts : list items.
  Variable tbl : table.
  Hypothesis SF : sound_facts g sts tbl.
  Hypothesis Hprod : productive g.
  Hypothesis Hgen : closure_generated g sts.
  Hypothesis Hnonempty : states_nonempty sts.

  Notation items_of := (state_items sts).
  Notation yields := (flat_map yield).
  Notation lhs := (lhs_of g).

  Definition nts_reachable (l : list symbol) : Prop :=
    Forall (fun x => match x with NT m => reachable g m | T _ => True end) l.

  (* delta A is a viable left context: whatever delta and A derive can be completed to a sentence *)
  Definition lviable (delta : list symbol) (A : nat) : Prop :=
    forall ts tA, Forall2 (valid_tree g) delta ts -> valid_tree g (NT A) tA ->
                  sentence_prefix g (yields ts ++ yield tA).

  (* the item is valid for the stack contents gamma (bottom first) *)
  Definition ivalid (gamma : list symbol) (i : item) : Prop :=
    it_r i < rule_count g /\ nts_reachable (rhs_of g i) /\
    exists delta, gamma = delta ++ firstn (it_d i) (rhs_of g i) /\ it_d i <= length (rhs_of g i) /\
                  lviable delta (lhs i).

  Lemma prod_trees l : nts_reachable l -> exists ts, Forall2 (valid_tree g) l ts.
  Proof.
    induction 1 as [|x l Hx _ IH]; [exists []; constructor|].
    destruct IH as [ts Hts]. destruct x as [a|m].
    - exists (Leaf a :: ts). constructor; [constructor|assumption].
    - destruct (Hprod m Hx) as [t Ht]. exists (t :: ts). constructor; assumption.
  Qed.

  Lemma nts_reachable_skipn n l : nts_reachable l -> nts_reachable (skipn n l).
  Proof.
    unfold nts_reachable. rewrite !Forall_forall. intros H x Hx. apply H.
    rewrite <- (firstn_skipn n l). apply in_or_app. right. assumption.
  Qed.

  Lemma item_rule i : it_r i < rule_count g ->
    is_rule g (ri_r (get_ri g (it_r i))) (lhs i) (rhs_of g i).
  Proof. intros H. apply (is_rule_ri g sts tbl SF). assumption. Qed.

  (* a valid item makes its stack contents viable *)
  Lemma ivalid_viable gamma i : ivalid gamma i ->
    forall ts, Forall2 (valid_tree g) gamma ts -> sentence_prefix g (yields ts).
  Proof.
    intros (Hr & Hreach & delta & -> & Hd & Hlv) ts Hts.
    apply Forall2_app_inv_l in Hts. destruct Hts as (ts1 & ts2 & H1 & H2 & ->).
    destruct (prod_trees _ (nts_reachable_skipn (it_d i) _ Hreach)) as [ts3 H3].
    assert (Hnode : valid_tree g (NT (lhs i)) (Node (ri_r (get_ri g (it_r i))) (ts2 ++ ts3))).
    { econstructor; [apply item_rule; assumption|].
      rewrite <- (firstn_skipn (it_d i) (rhs_of g i)). apply Forall2_app; assumption. }
    destruct (Hlv ts1 _ H1 Hnode) as (v & t & Hder).
    exists (yields ts3 ++ v), t. cbn [yield] in Hder. rewrite ?flat_map_app in Hder. rewrite ?flat_map_app.
    repeat rewrite <- app_assoc in Hder. repeat rewrite <- app_assoc. exact Hder.
  Qed.

  Lemma rhs_of_mk i d t : rhs_of g (mkItem (it_r i) d t) = rhs_of g i.
  Proof. reflexivity. Qed.

  Lemma ivalid_advance gamma i X : ivalid gamma i -> next_sym g i = Some X ->
    ivalid (gamma ++ [X]) (mkItem (it_r i) (S (it_d i)) (it_t i)).
  Proof.
    intros (Hr & Hreach & delta & -> & Hd & Hlv) Hx. unfold next_sym in Hx.
    split; [assumption|]. split; [assumption|]. exists delta. cbn [it_d it_r]. rewrite rhs_of_mk.
    split; [|split].
    - rewrite (firstn_S_nth_error _ _ _ Hx), app_assoc. reflexivity.
    - apply Nat.le_succ_l. apply nth_error_Some. congruence.
    - exact Hlv.
  Qed.

  Lemma ivalid_closure gamma i B j : ivalid gamma i -> next_sym g i = Some (NT B) ->
    it_r j < rule_count g -> lhs j = B -> it_d j = 0 -> ivalid gamma j.
  Proof.
    intros (Hr & Hreach & delta & -> & Hd & Hlv) Hx Hrj Hl Hdj. unfold next_sym in Hx.
    assert (HB : reachable g B).
    { unfold nts_reachable in Hreach. rewrite Forall_forall in Hreach.
      exact (Hreach _ (nth_error_In _ _ Hx)). }
    split; [assumption|]. split.
    - unfold nts_reachable. apply Forall_forall. intros [a|m] Hin; [exact I|].
      eapply reach_rule; [exact HB| |exact Hin]. rewrite <- Hl. apply item_rule. assumption.
    - exists (delta ++ firstn (it_d i) (rhs_of g i)). rewrite Hdj. cbn [firstn]. rewrite app_nil_r.
      split; [reflexivity|]. split; [lia|]. rewrite Hl.
      intros ts tB Hts HtB.
      apply Forall2_app_inv_l in Hts. destruct Hts as (ts1 & ts2 & H1 & H2 & ->).
      destruct (prod_trees _ (nts_reachable_skipn (S (it_d i)) _ Hreach)) as [ts3 H3].
      assert (Hnode : valid_tree g (NT (lhs i)) (Node (ri_r (get_ri g (it_r i))) (ts2 ++ tB :: ts3))).
      { econstructor; [apply item_rule; assumption|].
        rewrite <- (firstn_skipn (it_d i) (rhs_of g i)). apply Forall2_app; [assumption|].
        rewrite (skipn_nth_error_cons _ _ _ Hx). constructor; assumption. }
      destruct (Hlv ts1 _ H1 Hnode) as (v & t & Hder).
      exists (yields ts3 ++ v), t. cbn [yield] in Hder. rewrite ?flat_map_app in Hder. rewrite ?flat_map_app.
      cbn [flat_map] in Hder. repeat rewrite <- app_assoc in Hder. repeat rewrite <- app_assoc. exact Hder.
  Qed.

  Lemma root_rule_only r rhs : is_rule g r (fake_root_idx g) rhs ->
    exists x, rhs = [NT x] /\ root_symbol g = Some (NT x).
  Proof.
    intros (i & ri & Hi & Hr & Hl & Hrhs).
    destruct (get_ri_nth_error g sts tbl SF _ _ Hi) as [Eri Hlt]. subst ri.
    pose proof (sf_root_only _ _ _ SF i Hlt Hl) as Ei. subst i.
    rewrite (sf_root_r _ _ _ SF) in Hr. subst r.
    destruct (sf_root_rhs _ _ _ SF) as [x Hx]. exists x. split; [|apply (root_symbol_eq g sts tbl SF); assumption].
    unfold get_rhs in Hx. rewrite (nth_error_nth _ _ [] Hrhs) in Hx. assumption.
  Qed.

  Lemma ivalid_root : ivalid [] (root_item g).
  Proof.
    pose proof (root_lt g sts tbl SF) as Hlt. destruct (sf_root_rhs _ _ _ SF) as [x Hx].
    assert (Erhs : rhs_of g (root_item g) = [NT x]).
    { unfold rhs_of, root_item; cbn [it_r]. rewrite (sf_root_r _ _ _ SF). assumption. }
    split; [exact Hlt|]. split.
    - rewrite Erhs. constructor; [|constructor]. apply reach_root. apply (root_symbol_eq g sts tbl SF). assumption.
    - exists []. cbn. split; [reflexivity|]. split; [lia|].
      intros ts tA Hts HtA. inversion Hts; subst. cbn [flat_map app].
      unfold lhs_of, root_item in HtA; cbn [it_r] in HtA. rewrite (sf_root_l _ _ _ SF) in HtA.
      inversion HtA as [|r l rhs ch Hrule Hch]; subst.
      destruct (root_rule_only _ _ Hrule) as (y & -> & Hroot).
      inversion Hch as [|? c ? ch' Hc Hnil]; subst. inversion Hnil; subst.
      exists [], c. exists (NT y). cbn. rewrite !app_nil_r. auto.
  Qed.

  (* ---------- all items of a state ---------- *)
  Definition all_valid (gamma : list symbol) (s : nat) : Prop := forall i, In i (items_of s) -> ivalid gamma i.

  Lemma state_valid gamma s : s < length sts ->
    (forall i, In i (items_of s) -> it_d i <> 0 -> ivalid gamma i) -> (s = 0 -> gamma = []) -> all_valid gamma s.
  Proof.
    intros Hs Hker H0.
    assert (Hpos : forall j i, nth_error (items_of s) j = Some i -> ivalid gamma i).
    { intros j. induction j as [j IH] using lt_wf_ind. intros i Hj.
      destruct (Nat.eq_dec (it_d i) 0) as [Hd|Hd]; [|apply Hker; [eapply nth_error_In; eassumption|assumption]].
      destruct (Hgen s j i Hj Hd) as [[Es Ei]|(k & ik & Hk & Hik & Hnx)].
      - subst i. rewrite (H0 Es). apply ivalid_root.
      - eapply ivalid_closure; [exact (IH k Hk ik Hik)|exact Hnx| |reflexivity|exact Hd].
        apply (sf_item _ _ _ SF s i Hs). eapply nth_error_In; eassumption. }
    intros i Hi. apply In_nth_error in Hi. destruct Hi as [j Hj]. eauto.
  Qed.

  (* every state on the stack is valid for the symbols below it *)
  Definition vstk (ss : list nat) (syms : list symbol) : Prop :=
    forall k s, nth_error ss k = Some s -> all_valid (rev (skipn k syms)) s.

  Lemma nth_error_skipn {A} n (l : list A) k : nth_error (skipn n l) k = nth_error l (n + k).
  Proof. revert l; induction n as [|n IH]; intros l; [reflexivity|]. destruct l; [destruct k; reflexivity|apply IH]. Qed.

  Lemma skipn_skipn {A} n k (l : list A) : skipn k (skipn n l) = skipn (n + k) l.
  Proof. revert l; induction n as [|n IH]; intros l; [reflexivity|]. destruct l; [apply skipn_nil|apply IH]. Qed.

  Lemma vstk_skip n ss syms : vstk ss syms -> vstk (skipn n ss) (skipn n syms).
  Proof. intros H k s Hk. rewrite nth_error_skipn in Hk. rewrite skipn_skipn. apply H. assumption. Qed.

  Lemma vstk_push s ss syms X : vstk ss syms -> all_valid (rev (X :: syms)) s -> vstk (s :: ss) (X :: syms).
  Proof.
    intros H Hs k s' Hk. destruct k as [|k]; cbn in Hk |- *.
    - inversion Hk; subst. exact Hs.
    - apply H. assumption.
  Qed.

  Lemma vstk_top s ss syms : vstk (s :: ss) syms -> all_valid (rev syms) s.
  Proof. intros H. apply (H 0 s eq_refl). Qed.

  Lemma push_valid s syms X s' :
    s < length sts -> all_valid (rev syms) s -> sym_ok g X = true -> shift_just g sts s (sym_col g X) s' ->
    all_valid (rev (X :: syms)) s'.
  Proof.
    intros Hs Hv HX (Hlt & Hnz & Hj). cbn [rev]. apply state_valid; [assumption| |intros E; contradiction].
    intros j Hin Hd. destruct (it_d j) as [|d] eqn:Ed; [contradiction|].
    destruct (Hj j d Hin Ed) as (Hin' & x & Hx & Hcol).
    assert (x = X) as ->.
    { apply (sym_col_inj g); try assumption. eapply item_next_sym_ok; [exact SF|exact Hlt|exact Hin|exact Hx]. }
    pose proof (ivalid_advance _ _ X (Hv _ Hin') Hx) as Ha. cbn [it_r it_d it_t] in Ha.
    destruct j as [r d' t]. cbn in *. subst d'. exact Ha.
  Qed.

  (* ---------- the invariant of the machine ---------- *)
  Definition VInv (c : cfg) : Prop :=
    let '(ss, trs, rest) := c in
    exists syms, stk_ok g sts ss syms /\ vstk ss syms /\ Forall2 (valid_tree g) syms trs /\
                 Forall (fun a => a < eof_idx g) rest.

  Lemma VInv_init w : tokens_ok g w -> VInv ([0], [], w).
  Proof.
    intros Hw. exists []. split; [constructor|]. split; [|split; [constructor|exact Hw]].
    intros k s Hk. destruct k as [|k]; [|destruct k; discriminate]. inversion Hk; subst s. cbn.
    apply state_valid; [apply (sf_dims2 _ _ _ SF)| |reflexivity].
    intros i Hi Hd. exfalso. apply Hd. apply (sf_st0_dot _ _ _ SF). assumption.
  Qed.

  Lemma VInv_next c c' : VInv c -> mstep g tbl c = Next c' -> VInv c'.
  Proof.
    destruct c as [[ss trs] rest]. intros (syms & Hst & Hvs & Hv & Hr). unfold mstep.
    destruct ss as [|cur ss]; [discriminate|].
    pose proof (stk_top_lt g sts tbl SF _ _ _ Hst) as Hcur. pose proof (look_lt g sts tbl SF _ Hr) as Hla.
    destruct (cell tbl cur (nterm_count g + look g rest)) as [e|c] eqn:Ec; [|discriminate].
    pose proof (cell_cell_at _ _ _ _ Ec) as Ee.
    pose proof (sf_cell _ _ _ SF cur _ Hcur (col_lt g _ Hla)) as Hcj.
    destruct (e_kind e) eqn:Ek; try discriminate.
    - destruct (rev trs); discriminate.
    - (* shift *)
      destruct (e_arg e) as [nst|] eqn:Ea; [|discriminate]. intros Hn; inversion Hn; subst c'; clear Hn.
      rewrite Ee in Ek, Ea. destruct (cj_shift _ _ _ _ _ Hcj (or_introl Ek)) as (s' & Ha' & Hsj & _).
      assert (s' = nst) as Es by congruence. rewrite Es in Hsj. clear Es Ha' s'.
      assert (HX : sym_ok g (T (look g rest)) = true) by (cbn; apply Nat.ltb_lt; assumption).
      exists (T (look g rest) :: syms). split; [|split; [|split]].
      + apply (push_ok g sts tbl SF); assumption.
      + apply vstk_push; [assumption|]. eapply push_valid; [exact Hcur|apply (vstk_top _ _ _ Hvs)|exact HX|exact Hsj].
      + constructor; [constructor|assumption].
      + destruct rest as [|a r]; cbn; [constructor|]. inversion Hr; assumption.
    - (* reduce *)
      destruct (e_arg e) as [r|] eqn:Ea; [|discriminate]. rewrite Ee in Ek, Ea.
      destruct (cj_reduce _ _ _ _ _ Hcj Ek) as (r' & Ha' & Hrlt & Hrnr & _ & i & Hi & Hir & Hic).
      assert (r' = r) as Er by congruence. rewrite Er in Hrlt, Hrnr, Hir. clear Er Ha' r'.
      unfold mreduce. rewrite (nth_error_get_ri _ _ _ SF r Hrlt).
      set (ri := get_ri g r). set (n := ri_n ri).
      destruct (Nat.ltb (length (cur :: ss)) n); [discriminate|].
      destruct (sf_item _ _ _ SF cur i Hcur Hi) as (_ & Hdle & _).
      unfold is_complete in Hic. apply Nat.leb_le in Hic. rewrite Hir in Hdle, Hic. fold ri in Hdle, Hic. fold n in Hdle, Hic.
      assert (it_d i = n) as Hd by lia.
      destruct (stk_item g sts tbl SF n _ _ _ i Hst Hi Hd) as (Hnle & Hrev & _).
      destruct (sf_ri _ _ _ SF r Hrlt) as (Hrr & Hrl & Hrn). fold ri in Hrr, Hrl, Hrn. fold n in Hrn.
      assert (rhs_of g i = get_rhs g (ri_r ri)) as Erhs by (unfold rhs_of; rewrite Hir; reflexivity).
      rewrite Erhs in Hrev. rewrite Hrn in Hrev at 2. rewrite firstn_all in Hrev.
      pose proof (stk_skip g sts _ _ n Hst Hnle) as Hst'.
      pose proof (vstk_skip n _ _ Hvs) as Hvs'.
      destruct (skipn n (cur :: ss)) as [|top ss'] eqn:Esk; [discriminate|].
      pose proof (stk_top_lt g sts tbl SF _ _ _ Hst') as Htop.
      destruct (cell tbl top (ri_l ri)) as [e'|] eqn:Ec'; [|discriminate].
      pose proof (cell_cell_at _ _ _ _ Ec') as Ee'.
      assert (ri_l ri < symbol_count g) as Hlc by (unfold symbol_count; lia).
      pose proof (sf_cell _ _ _ SF top _ Htop Hlc) as Hcj'.
      destruct (e_arg e') as [nst|] eqn:Ea'; [|discriminate].
      destruct (Nat.ltb (length trs) n); [discriminate|].
      intros Hn; inversion Hn; subst c'; clear Hn.
      rewrite Ee' in Ea'.
      assert (shift_just g sts top (ri_l ri) nst) as Hsj.
      { destruct (e_kind (cell_at tbl top (ri_l ri))) eqn:Ek'.
        - rewrite (cj_error _ _ _ _ _ Hcj' Ek' Hrl) in Ea'. discriminate.
        - destruct (cj_success _ _ _ _ _ Hcj' Ek') as [Hc _]. unfold col_of_term in Hc. lia.
        - destruct (cj_shift _ _ _ _ _ Hcj' (or_introl Ek')) as (s' & Ha' & Hsj & _). congruence.
        - destruct (cj_shift _ _ _ _ _ Hcj' (or_intror Ek')) as (s' & Ha' & Hsj & _). congruence.
        - destruct (cj_reduce _ _ _ _ _ Hcj' Ek') as (? & _ & _ & _ & Hc & _). lia.
        - destruct (cj_rr _ _ _ _ _ Hcj' Ek'). }
      assert (HX : sym_ok g (NT (ri_l ri)) = true) by (cbn; apply Nat.ltb_lt; assumption).
      exists (NT (ri_l ri) :: skipn n syms). split; [|split; [|split]].
      + apply (push_ok g sts tbl SF); assumption.
      + apply vstk_push; [assumption|]. eapply push_valid; [exact Htop|apply (vstk_top _ _ _ Hvs')|exact HX|exact Hsj].
      + constructor; [|apply Forall2_skipn; assumption].
        econstructor; [apply (is_rule_ri _ _ _ SF r Hrlt)|]. fold ri. rewrite <- Hrev.
        apply Forall2_rev. apply Forall2_firstn. assumption.
      + assumption.
  Qed.

  Lemma VInv_reach w c : tokens_ok g w -> reach g tbl w c -> VInv c.
  Proof.
    intros Hw [n H]. revert H. generalize (VInv_init w Hw). generalize ([0], @nil tree, w).
    induction n as [|n IH]; intros c0 Hi H; cbn [msteps] in H.
    - subst. assumption.
    - destruct H as (c1 & Hs & H). eapply IH; [|exact H]. eapply VInv_next; eassumption.
  Qed.

  (* the top state has a valid item *)
  Lemma VInv_viable ss trs rest : VInv (ss, trs, rest) -> sentence_prefix g (yields (rev trs)).
  Proof.
    intros (syms & Hst & Hvs & Hv & _).
    destruct ss as [|top ss]; [inversion Hst|].
    pose proof (stk_top_lt g sts tbl SF _ _ _ Hst) as Htop.
    destruct (items_of top) as [|i its] eqn:Ei; [exfalso; exact (Hnonempty top Htop Ei)|].
    assert (Hi : ivalid (rev syms) i) by (apply (vstk_top _ _ _ Hvs); rewrite Ei; left; reflexivity).
    apply (ivalid_viable _ _ Hi). apply Forall2_rev. assumption.
  Qed.
End Viable.

(* R4, partial: needs the two extra checks on the item sets *)
Theorem shifted_prefix_viable_partial g sts tbl w ss trs rest :
  validate g sts tbl = true -> closure_generated g sts -> states_nonempty sts ->
  productive g -> tokens_ok g w ->
  reach g tbl w (ss, trs, rest) ->
  let u := flat_map yield (rev trs) in      (* the tokens shifted so far *)
  (exists k, u ++ rest = w ++ repeat (eof_idx g) k) /\ sentence_prefix g u.
Proof.
  intros Hval Hgen Hne Hprod Hw Hr.
  pose proof (sound_facts_of g sts tbl (validate_validate_sound _ _ _ Hval)) as SF.
  split.
  - assert (Hs : SInv g sts w (ss, trs, rest)).
    { destruct Hr as [n H]. revert H. generalize (SInv_init g sts w Hw). generalize ([0], @nil tree, w).
      induction n as [|n IH]; intros c0 Hi H; cbn [msteps] in H.
      - subst. assumption.
      - destruct H as (c1 & Hs & H). eapply IH; [|exact H]. eapply SInv_next; eassumption. }
    destruct Hs as (syms & _ & _ & Hk & _). exact Hk.
  - eapply VInv_viable; try eassumption. eapply VInv_reach; eassumption.
Qed.

Print Assumptions shifted_prefix_viable_partial.

(* ---------- the two checks on concrete item sets ---------- *)
Require Ctpg.Proofs.LRValidCex Ctpg.Proofs.ReportCex.

Definition gen_checks (g : grammar) : option (bool * bool * bool) :=
  match gen g with
  | inl (st, tb) => let sts := map st_all st in
                    Some (validate g sts tb, closure_generatedb g sts, states_nonemptyb sts)
  | inr _ => None
  end.

(* E -> E + T | T ; T -> T * F | F ; F -> ( E ) | id.  terms + * ( ) id <eof> <err>; nonterminals E T F ## *)
Definition g_expr :=
  mkG 7 4 7 3
      [[NT 0; T 0; NT 1]; [NT 1]; [NT 1; T 1; NT 2]; [NT 2]; [T 2; NT 0; T 3]; [T 4]; [NT 0]]
      [mkRI 0 0 3; mkRI 0 1 1; mkRI 1 2 3; mkRI 1 3 1; mkRI 2 4 3; mkRI 2 5 1; mkRI 3 6 1]
      [(0,2);(2,2);(4,2);(6,1)]
      [0%Z;0%Z;0%Z;0%Z;0%Z;0%Z;0%Z] [NoAssoc;NoAssoc;NoAssoc;NoAssoc;NoAssoc;NoAssoc;NoAssoc]
      [0%Z;0%Z;0%Z;0%Z;0%Z;0%Z;0%Z] [NoAssoc;NoAssoc;NoAssoc;NoAssoc;NoAssoc;NoAssoc;NoAssoc]
      [Some 0; None; Some 1; None; Some 3; Some 4; None].

(* the tables the mirror generator writes pass both checks; the item sets of the counterexamples do not *)
Example generated_pass :
  (gen_checks LRValidCex.g1, gen_checks LRValidCex.g2, gen_checks ReportCex.g2, gen_checks g_expr) =
  (Some (true, true, true), Some (true, true, true), Some (true, true, true), Some (true, true, true)).
Proof. vm_compute. reflexivity. Qed.

Example junk_fails :
  closure_generatedb ReportCex.g1 ReportCex.sts1 = false /\ closure_generatedb ReportCex.g2 ReportCex.sts2 = false.
Proof. vm_compute. auto. Qed.
