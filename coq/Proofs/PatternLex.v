(* The pattern scanner (regex_lexer of Model/RegexFront.v): no over-read (P1), results in range (P2).
   One inversion lemma per helper; everything else is built on those. *)
Require Import Ctpg.Base.Prelude Ctpg.Model.Grammar Ctpg.Model.LRGen Ctpg.Model.Driver Ctpg.Model.Dfa
               Ctpg.Model.RegexFront Ctpg.Spec.Eval.

Section LexFacts.
  Variable p : list nat.
  Notation E := (length p).
  (* the unchecked read: the byte at i, the terminator 0 at and beyond the end *)
  Definition pr (i : nat) : nat := nth i p 0.

  Lemma e_len : e p = length p. Proof. reflexivity. Qed.

  Lemma rd_le i : i <= E -> rd p i = Some (pr i).
  Proof.
    intros H. unfold rd, pr, RegexFront.e. destruct (Nat.ltb_spec i E) as [Hlt|Hge].
    - apply nth_error_nth'. exact Hlt.
    - assert (i = E) by lia. subst i. rewrite Nat.eqb_refl. rewrite nth_overflow by lia. reflexivity.
  Qed.

  Lemma rd_gt i : E < i -> rd p i = None.
  Proof.
    intros H. unfold rd, RegexFront.e. destruct (Nat.ltb_spec i E); [lia|].
    destruct (Nat.eqb_spec i E); [lia|reflexivity].
  Qed.

  Lemma rd_none i : rd p i = None -> E < i.
  Proof. intros H. destruct (Nat.le_gt_cases i E) as [Hle|Hgt]; [|exact Hgt]. rewrite rd_le in H by assumption. discriminate. Qed.

  Lemma pr_end i : E <= i -> pr i = 0.
  Proof. intros H. unfold pr. apply nth_overflow. exact H. Qed.

  Lemma pr_nz i : pr i <> 0 -> i < E.
  Proof. intros H. destruct (Nat.lt_ge_cases i E); [assumption|]. exfalso. apply H. apply pr_end. assumption. Qed.

  Ltac rd_step := match goal with
    | |- context [rd p ?j] => rewrite (rd_le j) by (unfold RegexFront.e in *; lia)
    end.
  Ltac eqb_step := match goal with
    | |- context [Nat.eqb ?a ?b] => destruct (Nat.eqb_spec a b)
    end.

  (* ---------- match_escaped ---------- *)
  (* the length of a \x escape at i: 2 + the number of hex digits (at most two) that follow before the end *)
  Definition xlen (i l : nat) : Prop :=
    (l = 2 /\ (i + 2 = E \/ (i + 2 < E /\ is_hex_digit (pr (i + 2)) = false))) \/
    (l = 3 /\ i + 2 < E /\ is_hex_digit (pr (i + 2)) = true /\
       (i + 3 = E \/ (i + 3 < E /\ is_hex_digit (pr (i + 3)) = false))) \/
    (l = 4 /\ i + 3 < E /\ is_hex_digit (pr (i + 2)) = true /\ is_hex_digit (pr (i + 3)) = true).

  Inductive esc_case (i l0 : nat) : lres -> Prop :=
  | EscNone : pr i <> 92 -> esc_case i l0 (LOk true l0)
  | EscTrail : pr i = 92 -> S i = E -> esc_case i l0 (LOk false l0)
  | EscChar : pr i = 92 -> S i < E -> pr (S i) <> 120 -> esc_case i l0 (LOk (is_printable (pr (S i))) 2)
  | EscHex l : pr i = 92 -> S i < E -> pr (S i) = 120 -> xlen i l -> esc_case i l0 (LOk true l).

  Lemma match_escaped_inv i l0 : i <= E -> esc_case i l0 (match_escaped p i l0).
  Proof.
    intros Hi. unfold match_escaped. rd_step. eqb_step; [|apply EscNone; assumption].
    assert (Hlt : i < E) by (apply pr_nz; lia).
    unfold RegexFront.e. eqb_step; [apply EscTrail; assumption|].
    rd_step. eqb_step; [|apply EscChar; auto; lia].
    eqb_step; [apply EscHex; auto; try lia; left; auto|].
    rd_step. destruct (is_hex_digit (pr (i + 2))) eqn:H2; cbn [negb];
      [|apply EscHex; auto; try lia; left; split; auto; right; split; [lia|assumption]].
    eqb_step; [apply EscHex; auto; try lia; right; left; repeat split; auto; lia|].
    rd_step. destruct (is_hex_digit (pr (i + 3))) eqn:H3; cbn [negb].
    - apply EscHex; auto; try lia. right; right. repeat split; auto; lia.
    - apply EscHex; auto; try lia. right; left. repeat split; auto; try lia. right. split; [lia|assumption].
  Qed.

  Lemma match_escaped_no_over i l0 : i <= E -> match_escaped p i l0 <> LOver.
  Proof. intros Hi. destruct (match_escaped_inv i l0 Hi); discriminate. Qed.

  (* ---------- character units ---------- *)
  (* a character unit the scanner accepts at i: one printable byte other than '\', or an escape *)
  Inductive unit_at (i : nat) : nat -> Prop :=
  | UPlain : i < E -> pr i <> 92 -> is_printable (pr i) = true -> unit_at i 1
  | UEsc : pr i = 92 -> S i < E -> pr (S i) <> 120 -> is_printable (pr (S i)) = true -> unit_at i 2
  | UHex l : pr i = 92 -> S i < E -> pr (S i) = 120 -> xlen i l -> unit_at i l.

  Lemma xlen_bounds i l : xlen i l -> 2 <= l <= 4 /\ i + l <= E.
  Proof. unfold xlen. intros H. lia. Qed.

  Lemma unit_at_bounds i l : unit_at i l -> 0 < l <= 4 /\ i + l <= E.
  Proof. intros [H1 H2 H3|H1 H2 H3 H4|l' H1 H2 H3 H4]; try lia. apply xlen_bounds in H4. lia. Qed.

  Lemma printable_nz c : is_printable c = true -> 32 <= c <= 126.
  Proof. unfold is_printable. intros H. apply andb_true_iff in H as [H1 H2]. apply Nat.leb_le in H1, H2. lia. Qed.

  (* what a successful match_escaped k 0 says about the unit at k *)
  Lemma esc_unit k : k <= E ->
    match match_escaped p k 0 with
    | LOver => False
    | LOk false _ => True
    | LOk true rl => if Nat.eqb rl 0 then pr k <> 92 else (pr k = 92 /\ unit_at k rl)
    end.
  Proof.
    intros Hk. destruct (match_escaped_inv k 0 Hk) as [H1|H1 H2|H1 H2 H3|l H1 H2 H3 H4]; cbn [Nat.eqb]; auto.
    - destruct (is_printable (pr (S k))) eqn:Hp; [|exact I]. cbn [Nat.eqb]. split; [assumption|]. apply UEsc; assumption.
    - pose proof (xlen_bounds _ _ H4) as Hb. destruct (Nat.eqb_spec l 0); [lia|]. split; [assumption|]. apply UHex; assumption.
  Qed.

  (* ---------- match_range_item ---------- *)
  Definition item_first (i : nat) : lres :=
    match match_escaped p i 0 with
    | LOver => LOver
    | LOk false l => LOk false l
    | LOk true l =>
        if Nat.eqb l 0
        then match rd p i with None => LOver | Some c => if is_printable c then LOk true 1 else LOk false 0 end
        else LOk true l
    end.

  Definition item_tail (i l1 : nat) : lres :=
    let j := i + l1 in
    match rd p j with
    | None => LOver
    | Some c =>
        if Nat.eqb c 45 then
          let l2 := S l1 in
          let k := S j in
          if Nat.eqb k (e p) then LOk false l2 else
          match rd p k with
          | None => LOver
          | Some c2 =>
              if Nat.eqb c2 93 then LOk false l2 else
              match match_escaped p k 0 with
              | LOver => LOver
              | LOk false _ => LOk false l2
              | LOk true rl =>
                  if Nat.eqb rl 0
                  then (if is_printable c2 then LOk true (S l2) else LOk false l2)
                  else LOk true (l2 + rl)
              end
          end
        else LOk true l1
    end.

  Lemma match_range_item_split i :
    match_range_item p i =
    match item_first i with LOver => LOver | LOk false l => LOk false l | LOk true l1 => item_tail i l1 end.
  Proof.
    unfold match_range_item, item_first, item_tail.
    destruct (match_escaped p i 0) as [[|] l|]; reflexivity.
  Qed.

  Lemma item_first_inv i : i <= E ->
    match item_first i with
    | LOver => False
    | LOk false _ => True
    | LOk true l1 => unit_at i l1
    end.
  Proof.
    intros Hi. unfold item_first. pose proof (esc_unit i Hi) as H.
    destruct (match_escaped p i 0) as [[|] l|]; [|exact I|exact H].
    destruct (Nat.eqb l 0); [|tauto].
    rd_step. destruct (is_printable (pr i)) eqn:Hp; [|exact I].
    apply UPlain; auto. apply pr_nz. apply printable_nz in Hp. lia.
  Qed.

  Inductive item_case (i : nat) : lres -> Prop :=
  | ItFalse l : item_case i (LOk false l)
  | ItSingle l1 : unit_at i l1 -> pr (i + l1) <> 45 -> item_case i (LOk true l1)
  | ItRange l1 rl : unit_at i l1 -> pr (i + l1) = 45 -> S (i + l1) < E -> pr (S (i + l1)) <> 93 ->
                    unit_at (S (i + l1)) rl -> item_case i (LOk true (l1 + 1 + rl)).

  Lemma item_tail_inv i l1 : unit_at i l1 -> item_case i (item_tail i l1).
  Proof.
    intros Hu. pose proof (unit_at_bounds _ _ Hu) as Hb. unfold item_tail. cbv zeta.
    rd_step. eqb_step; [|apply ItSingle; assumption].
    assert (Hlt : i + l1 < E) by (apply pr_nz; lia).
    unfold RegexFront.e. eqb_step; [apply ItFalse|].
    rd_step. eqb_step; [apply ItFalse|].
    pose proof (esc_unit (S (i + l1)) ltac:(lia)) as He.
    destruct (match_escaped p (S (i + l1)) 0) as [[|] rl|]; [|apply ItFalse|contradiction].
    destruct (Nat.eqb_spec rl 0) as [Hrl|Hrl].
    - subst rl. destruct (is_printable (pr (S (i + l1)))) eqn:Hp; [|apply ItFalse].
      replace (S (S l1)) with (l1 + 1 + 1) by lia. apply ItRange; auto; try lia.
      apply UPlain; auto. lia.
    - replace (S l1 + rl) with (l1 + 1 + rl) by lia. apply ItRange; auto; try lia. tauto.
  Qed.

  Lemma match_range_item_inv i : i <= E -> item_case i (match_range_item p i).
  Proof.
    intros Hi. rewrite match_range_item_split. pose proof (item_first_inv i Hi) as H.
    destruct (item_first i) as [[|] l|]; [|apply ItFalse|contradiction].
    apply item_tail_inv. exact H.
  Qed.

  Lemma match_range_item_no_over i : i <= E -> match_range_item p i <> LOver.
  Proof. intros Hi. destruct (match_range_item_inv i Hi); discriminate. Qed.

  Lemma item_true_bounds i il : i <= E -> match_range_item p i = LOk true il -> 0 < il /\ i + il <= E.
  Proof.
    intros Hi H. pose proof (match_range_item_inv i Hi) as Hc. rewrite H in Hc.
    inversion Hc as [|l1 Hu Hn|l1 rl Hu H45 Hlt H93 Hu2]; subst.
    - apply unit_at_bounds in Hu. lia.
    - apply unit_at_bounds in Hu. apply unit_at_bounds in Hu2. lia.
  Qed.

  (* ---------- the loop of match_range ---------- *)
  (* from i the loop accepts items up to the closing ']' at k *)
  Inductive items_to : nat -> nat -> Prop :=
  | ItsEnd i : i < E -> pr i = 93 -> items_to i i
  | ItsStep i il k : i < E -> pr i <> 93 -> match_range_item p i = LOk true il -> items_to (i + il) k -> items_to i k.

  Lemma items_to_bounds i k : items_to i k -> i <= k /\ k < E /\ pr k = 93.
  Proof.
    induction 1 as [i H1 H2|i il k H1 H2 H3 H4 IH]; [lia|].
    apply item_true_bounds in H3; lia.
  Qed.

  Lemma range_items_no_over f : forall i len, i <= E -> range_items p f i len <> LOver.
  Proof.
    induction f as [|f IH]; intros i len Hi; cbn [range_items]; [discriminate|].
    unfold RegexFront.e. eqb_step; [discriminate|]. rd_step. eqb_step; [discriminate|].
    pose proof (match_range_item_no_over i Hi) as Hno.
    destruct (match_range_item p i) as [[|] il|] eqn:Hit; [|discriminate|contradiction].
    eqb_step; [discriminate|]. apply IH. apply item_true_bounds in Hit; lia.
  Qed.

  Lemma range_items_inv f : forall i len L, i <= E -> range_items p f i len = LOk true L ->
    exists k, items_to i k /\ L = len + (k - i) + 1.
  Proof.
    induction f as [|f IH]; intros i len L Hi H; cbn [range_items] in H; [discriminate|].
    revert H. unfold RegexFront.e. eqb_step; [discriminate|]. rd_step. eqb_step.
    - intros H. inversion H; subst. exists i. split; [apply ItsEnd; [lia|assumption]|lia].
    - destruct (match_range_item p i) as [[|] il|] eqn:Hit; try discriminate.
      eqb_step; [discriminate|]. intros H.
      pose proof (item_true_bounds i il Hi Hit) as Hb.
      assert (Hle : i + il <= E) by lia. destruct (IH _ _ _ Hle H) as (k & Hk & HL). exists k. split.
      + eapply ItsStep; eauto. lia.
      + apply items_to_bounds in Hk. lia.
  Qed.

  (* the fuel never runs out: any fuel above the remaining length gives the same answer *)
  Lemma range_items_fuel f1 : forall f2 i len, i <= E -> E - i < f1 -> E - i < f2 ->
    range_items p f1 i len = range_items p f2 i len.
  Proof.
    induction f1 as [|f1 IH]; intros f2 i len Hi H1 H2; [lia|]. destruct f2 as [|f2]; [lia|].
    cbn [range_items]. unfold RegexFront.e. eqb_step; [reflexivity|]. rd_step. eqb_step; [reflexivity|].
    destruct (match_range_item p i) as [[|] il|] eqn:Hit; try reflexivity.
    eqb_step; [reflexivity|]. pose proof (item_true_bounds i il Hi Hit) as Hb.
    apply IH; lia.
  Qed.

  Corollary range_items_fuel_enough f i len : i <= E -> S E <= f ->
    range_items p f i len = range_items p (S E) i len.
  Proof. intros Hi Hf. apply range_items_fuel; lia. Qed.

  (* ---------- match_range ---------- *)
  Definition set_hd (i : nat) : nat := if Nat.eqb (pr (S i)) 94 then 2 else 1.

  Inductive range_case (i : nat) : lres -> Prop :=
  | RgNot : pr i <> 91 -> range_case i (LOk true 0)
  | RgFalse l : pr i = 91 -> range_case i (LOk false l)
  | RgSet k : pr i = 91 -> S i < E -> items_to (i + set_hd i) k -> range_case i (LOk true (S k - i)).

  Lemma match_range_inv i : i <= E -> range_case i (match_range p i).
  Proof.
    intros Hi. unfold match_range. rd_step. eqb_step; [|apply RgNot; assumption].
    assert (Hlt : i < E) by (apply pr_nz; lia).
    unfold RegexFront.e. eqb_step; [apply RgFalse; assumption|]. rd_step.
    assert (Hhd : (if Nat.eqb (pr (S i)) 94 then (i + 2, 2) else (S i, 1)) = (i + set_hd i, set_hd i)).
    { unfold set_hd. destruct (Nat.eqb (pr (S i)) 94); f_equal; lia. }
    rewrite Hhd. assert (Hs : 1 <= set_hd i <= 2) by (unfold set_hd; destruct (Nat.eqb (pr (S i)) 94); lia).
    eqb_step; [apply RgFalse; assumption|].
    assert (Hle : i + set_hd i <= E).
    { unfold set_hd in *. destruct (Nat.eqb (pr (S i)) 94); lia. }
    pose proof (range_items_no_over (S E) (i + set_hd i) (set_hd i) Hle) as Hno.
    destruct (range_items p (S E) (i + set_hd i) (set_hd i)) as [[|] L|] eqn:Hr; [|apply RgFalse; assumption|contradiction].
    destruct (range_items_inv _ _ _ _ Hle Hr) as (k & Hk & HL).
    pose proof (items_to_bounds _ _ Hk) as Hb.
    replace L with (S k - i) by lia. apply RgSet; auto. lia.
  Qed.

  Lemma match_range_no_over i : i <= E -> match_range p i <> LOver.
  Proof. intros Hi. destruct (match_range_inv i Hi); discriminate. Qed.

  (* ---------- match_primary ---------- *)
  (* the lexemes of term 1 (regex_primary) *)
  Inductive prim_at (i : nat) : nat -> Prop :=
  | PrEsc l : pr i = 92 -> unit_at i l -> prim_at i l
  | PrSet k : pr i = 91 -> S i < E -> items_to (i + set_hd i) k -> prim_at i (S k - i)
  | PrChar : i < E -> pr i <> 92 -> pr i <> 91 -> is_printable (pr i) = true -> prim_at i 1.

  Lemma match_primary_inv i : i <= E ->
    match match_primary p i with
    | LOver => False
    | LOk false _ => True
    | LOk true l => prim_at i l
    end.
  Proof.
    intros Hi. unfold match_primary. pose proof (esc_unit i Hi) as He.
    destruct (match_escaped p i 0) as [[|] l|]; [|exact I|exact He].
    destruct (Nat.eqb_spec l 0) as [Hl|Hl]; cbn [negb]; [|apply PrEsc; tauto].
    subst l. cbn [Nat.eqb] in He.
    destruct (match_range_inv i Hi) as [H1|l H1|k H1 H2 H3]; [|exact I|].
    - cbn [Nat.eqb negb]. rd_step. destruct (is_printable (pr i)) eqn:Hp; [|exact I].
      apply PrChar; auto. apply pr_nz. apply printable_nz in Hp. lia.
    - pose proof (items_to_bounds _ _ H3) as Hb. destruct (Nat.eqb_spec (S k - i) 0); [lia|]. cbn [negb].
      apply PrSet; assumption.
  Qed.

  Lemma prim_at_bounds i l : prim_at i l -> 0 < l /\ i + l <= E.
  Proof.
    intros [l' H1 H2|k H1 H2 H3|H1 H2 H3 H4].
    - apply unit_at_bounds in H2. lia.
    - apply items_to_bounds in H3. unfold set_hd in H3. destruct (Nat.eqb (pr (S i)) 94); lia.
    - lia.
  Qed.

  Lemma match_primary_no_over i : i <= E -> match_primary p i <> LOver.
  Proof. intros Hi H. pose proof (match_primary_inv i Hi) as H'. rewrite H in H'. exact H'. Qed.

  (* ---------- lex_at ---------- *)
  Lemma special_range c t : special c = Some t -> 2 <= t <= 9.
  Proof.
    unfold special. intros H.
    repeat (destruct c as [|c]; [try discriminate; inversion H; lia|]). discriminate.
  Qed.

  Inductive lex_case (i : nat) : tok_res -> Prop :=
  | LxNone : lex_case i TokNone
  | LxSpecial t : i < E -> special (pr i) = Some t -> lex_case i (Tok t 1)
  | LxDigit : i < E -> special (pr i) = None -> is_dec_digit (pr i) = true -> lex_case i (Tok 0 1)
  | LxPrim l : i < E -> special (pr i) = None -> is_dec_digit (pr i) = false -> prim_at i l -> lex_case i (Tok 1 l).

  Lemma lex_at_inv i : lex_case i (lex_at p i).
  Proof.
    unfold lex_at, RegexFront.e. destruct (Nat.leb_spec E i) as [Hge|Hlt]; [apply LxNone|].
    rd_step. destruct (special (pr i)) as [t|] eqn:Hs; [apply LxSpecial; assumption|].
    destruct (is_dec_digit (pr i)) eqn:Hd; [apply LxDigit; assumption|].
    pose proof (match_primary_inv i ltac:(lia)) as H.
    destruct (match_primary p i) as [[|] l|]; [|apply LxNone|contradiction].
    apply LxPrim; assumption.
  Qed.

  (* (P1) *)
  Theorem lex_at_no_over i : lex_at p i <> TokOver.
  Proof. destruct (lex_at_inv i); discriminate. Qed.

  (* (P2) *)
  Theorem lex_at_in_range i t len : lex_at p i = Tok t len -> 0 < len /\ i + len <= E /\ t < 10.
  Proof.
    intros H. pose proof (lex_at_inv i) as Hc. rewrite H in Hc.
    inversion Hc as [|t' H1 H2|H1 H2 H3|l H1 H2 H3 H4]; subst.
    - apply special_range in H2. lia.
    - lia.
    - apply prim_at_bounds in H4. lia.
  Qed.

  Lemma lex_at_tok1 i len : lex_at p i = Tok 1 len -> prim_at i len.
  Proof.
    intros H. pose proof (lex_at_inv i) as Hc. rewrite H in Hc.
    inversion Hc as [|t' H1 H2|H1 H2 H3|l H1 H2 H3 H4]; subst; [|assumption].
    apply special_range in H2. lia.
  Qed.

  (* ---------- every byte of a delivered lexeme is printable ---------- *)
  Lemma hex_printable c : is_hex_digit c = true -> is_printable c = true.
  Proof.
    unfold is_hex_digit, is_dec_digit, is_printable. intros H.
    repeat (apply orb_true_iff in H as [H|H]); apply andb_true_iff in H as [H1 H2];
      apply Nat.leb_le in H1, H2; apply andb_true_iff; split; apply Nat.leb_le; lia.
  Qed.

  Lemma dec_printable c : is_dec_digit c = true -> is_printable c = true.
  Proof.
    unfold is_dec_digit, is_printable. intros H. apply andb_true_iff in H as [H1 H2].
    apply Nat.leb_le in H1, H2. apply andb_true_iff; split; apply Nat.leb_le; lia.
  Qed.

  Lemma special_cases c t : special c = Some t -> In c [42;43;63;124;40;41;123;125].
  Proof.
    intros H. destruct (Nat.lt_ge_cases c 126) as [Hlt|Hge].
    - assert (Hall : forallb (fun c => match special c with
                                       | Some _ => mem_nat c [42;43;63;124;40;41;123;125]
                                       | None => true end) (seq 0 126) = true) by (vm_compute; reflexivity).
      rewrite forallb_forall in Hall. specialize (Hall c ltac:(apply in_seq; lia)). rewrite H in Hall.
      clear H. cbn in Hall.
      repeat match type of Hall with
             | (if Nat.eqb ?a ?b then _ else _) = true => destruct (Nat.eqb_spec a b); [subst; cbn; tauto|]
             end.
      discriminate.
    - exfalso. replace c with (126 + (c - 126)) in H by lia. cbn in H. discriminate.
  Qed.

  Lemma special_printable c t : special c = Some t -> is_printable c = true.
  Proof.
    intros H. apply special_cases in H. cbn in H.
    repeat (destruct H as [H|H]; [subst c; reflexivity|]). contradiction.
  Qed.

  Lemma unit_printable i l : unit_at i l -> forall k, i <= k < i + l -> is_printable (pr k) = true.
  Proof.
    intros [H1 H2 H3|H1 H2 H3 H4|l' H1 H2 H3 H4] k Hk.
    - replace k with i by lia. assumption.
    - assert (Hc : k = i \/ k = S i) by lia. destruct Hc as [->| ->]; [rewrite H1; reflexivity|assumption].
    - assert (Hc : k = i \/ k = S i \/ (k = i + 2 /\ 3 <= l') \/ (k = i + 3 /\ l' = 4)) by (apply xlen_bounds in H4; lia).
      destruct Hc as [->|[->|[[-> Hl]|[-> Hl]]]].
      + rewrite H1; reflexivity.
      + rewrite H3; reflexivity.
      + apply hex_printable. unfold xlen in H4. destruct H4 as [H4|[H4|H4]]; [lia|tauto|tauto].
      + apply hex_printable. unfold xlen in H4. destruct H4 as [H4|[H4|H4]]; [lia|lia|tauto].
  Qed.

  Lemma item_printable i il : i <= E -> match_range_item p i = LOk true il ->
    forall k, i <= k < i + il -> is_printable (pr k) = true.
  Proof.
    intros Hi H k Hk. pose proof (match_range_item_inv i Hi) as Hc. rewrite H in Hc.
    inversion Hc as [|l1 Hu Hn|l1 rl Hu H45 Hlt H93 Hu2]; subst.
    - apply (unit_printable _ _ Hu). lia.
    - assert (Hcs : k < i + l1 \/ k = i + l1 \/ S (i + l1) <= k) by lia. destruct Hcs as [Hcs|[->|Hcs]].
      + apply (unit_printable _ _ Hu). lia.
      + rewrite H45. reflexivity.
      + apply (unit_printable _ _ Hu2). lia.
  Qed.

  Lemma items_printable i k : items_to i k -> forall j, i <= j <= k -> is_printable (pr j) = true.
  Proof.
    induction 1 as [i H1 H2|i il k H1 H2 H3 H4 IH]; intros j Hj.
    - replace j with i by lia. rewrite H2. reflexivity.
    - destruct (Nat.lt_ge_cases j (i + il)) as [Hlt|Hge].
      + apply (item_printable i il ltac:(lia) H3). lia.
      + apply IH. lia.
  Qed.

  Lemma prim_printable i l : prim_at i l -> forall k, i <= k < i + l -> is_printable (pr k) = true.
  Proof.
    intros [l' H1 H2|k' H1 H2 H3|H1 H2 H3 H4] k Hk.
    - apply (unit_printable _ _ H2). lia.
    - pose proof (items_to_bounds _ _ H3) as Hb.
      destruct (Nat.lt_ge_cases k (i + set_hd i)) as [Hlt|Hge].
      + unfold set_hd in *. destruct (Nat.eqb_spec (pr (S i)) 94) as [H94|H94].
        * assert (Hc : k = i \/ k = S i) by lia. destruct Hc as [->| ->]; [rewrite H1|rewrite H94]; reflexivity.
        * replace k with i by lia. rewrite H1. reflexivity.
      + apply (items_printable _ _ H3). lia.
    - replace k with i by lia. assumption.
  Qed.

  Theorem lexeme_printable i t len : lex_at p i = Tok t len ->
    forall k, i <= k < i + len -> is_printable (pr k) = true.
  Proof.
    intros H k Hk. pose proof (lex_at_inv i) as Hc. rewrite H in Hc.
    inversion Hc as [|t' H1 H2|H1 H2 H3|l H1 H2 H3 H4]; subst.
    - replace k with i by lia. eapply special_printable; eauto.
    - replace k with i by lia. apply dec_printable; assumption.
    - apply (prim_printable _ _ H4). lia.
  Qed.

  (* a set lexeme ends with its closing bracket, and that bracket exists *)
  Lemma lexeme_set_closed i t len : lex_at p i = Tok t len -> pr i = 91 ->
    t = 1 /\ 2 <= len /\ pr (i + len - 1) = 93.
  Proof.
    intros H H91. pose proof (lex_at_inv i) as Hc. rewrite H in Hc.
    inversion Hc as [|t' H1 H2|H1 H2 H3|l H1 H2 H3 H4]; subst.
    - rewrite H91 in H2. discriminate.
    - rewrite H91 in H3. discriminate.
    - split; [reflexivity|]. destruct H4 as [l' Ha Hb|k' Ha Hb Hc'|Ha Hb Hc' Hd]; try congruence.
      pose proof (items_to_bounds _ _ Hc') as Hb'.
      assert (Hs : 1 <= set_hd i) by (unfold set_hd; destruct (Nat.eqb (pr (S i)) 94); lia).
      split; [lia|]. replace (i + (S k' - i) - 1) with k' by lia. tauto.
  Qed.

  (* without '\' or '[' at i the token is one byte long *)
  Lemma lexeme_single i t len : lex_at p i = Tok t len -> pr i <> 92 -> pr i <> 91 -> len = 1.
  Proof.
    intros H H92 H91. pose proof (lex_at_inv i) as Hc. rewrite H in Hc.
    inversion Hc as [|t' H1 H2|H1 H2 H3|l H1 H2 H3 H4]; subst; try reflexivity.
    destruct H4 as [l' Ha Hb|k' Ha Hb Hc'|Ha Hb Hc' Hd]; congruence.
  Qed.
End LexFacts.

(* ---------- the preconditions are exact: beyond the terminator every helper over-reads at once ---------- *)
Lemma match_escaped_over_iff p i l0 : match_escaped p i l0 = LOver <-> length p < i.
Proof.
  split.
  - intros H. destruct (Nat.le_gt_cases i (length p)) as [Hle|Hgt]; [|exact Hgt].
    exfalso. exact (match_escaped_no_over p i l0 Hle H).
  - intros H. unfold match_escaped. now rewrite rd_gt.
Qed.

Lemma match_range_item_over_iff p i : match_range_item p i = LOver <-> length p < i.
Proof.
  split.
  - intros H. destruct (Nat.le_gt_cases i (length p)) as [Hle|Hgt]; [|exact Hgt].
    exfalso. exact (match_range_item_no_over p i Hle H).
  - intros H. unfold match_range_item. now rewrite (proj2 (match_escaped_over_iff p i 0) H).
Qed.

Lemma match_range_over_iff p i : match_range p i = LOver <-> length p < i.
Proof.
  split.
  - intros H. destruct (Nat.le_gt_cases i (length p)) as [Hle|Hgt]; [|exact Hgt].
    exfalso. exact (match_range_no_over p i Hle H).
  - intros H. unfold match_range. now rewrite rd_gt.
Qed.

Lemma match_primary_over_iff p i : match_primary p i = LOver <-> length p < i.
Proof.
  split.
  - intros H. destruct (Nat.le_gt_cases i (length p)) as [Hle|Hgt]; [|exact Hgt].
    exfalso. exact (match_primary_no_over p i Hle H).
  - intros H. unfold match_primary. now rewrite (proj2 (match_escaped_over_iff p i 0) H).
Qed.

Lemma range_items_over_iff p f i len : range_items p (S f) i len = LOver <-> length p < i.
Proof.
  split.
  - intros H. destruct (Nat.le_gt_cases i (length p)) as [Hle|Hgt]; [|exact Hgt].
    exfalso. exact (range_items_no_over p (S f) i len Hle H).
  - intros H. cbn [range_items]. unfold RegexFront.e. destruct (Nat.eqb_spec i (length p)); [lia|]. now rewrite rd_gt.
Qed.

(* (P1) the unconditional statement, with the helpers' conditions *)
Theorem no_over_read :
  (forall p i, lex_at p i <> TokOver) /\
  (forall p i l0, i <= length p -> match_escaped p i l0 <> LOver) /\
  (forall p i, i <= length p -> match_range_item p i <> LOver) /\
  (forall p f i len, i <= length p -> range_items p f i len <> LOver) /\
  (forall p i, i <= length p -> match_range p i <> LOver) /\
  (forall p i, i <= length p -> match_primary p i <> LOver) /\
  (* the fuel S e of the loop never runs out *)
  (forall p f i len, i <= length p -> S (length p) <= f -> range_items p f i len = range_items p (S (length p)) i len).
Proof.
  repeat split.
  - apply lex_at_no_over.
  - apply match_escaped_no_over.
  - apply match_range_item_no_over.
  - intros. apply range_items_no_over. assumption.
  - apply match_range_no_over.
  - apply match_primary_no_over.
  - apply range_items_fuel_enough.
Qed.

(* ---------- (P2) the lexer oracle ---------- *)
Lemma regex_lexer_inv v sp rest t len :
  snd (regex_lexer v sp rest) = Some (t, len) -> lex_at rest 0 = Tok t len.
Proof.
  unfold regex_lexer. destruct (lex_at rest 0) as [| |t' len']; cbn [snd]; try discriminate.
  intros H. inversion H. reflexivity.
Qed.

Lemma regex_lexer_snd v sp rest :
  snd (regex_lexer v sp rest) = match lex_at rest 0 with Tok t len => Some (t, len) | _ => None end.
Proof. unfold regex_lexer. destruct (lex_at rest 0); reflexivity. Qed.

Theorem regex_lexer_range v sp rest t len :
  snd (regex_lexer v sp rest) = Some (t, len) -> 0 < len /\ len <= length rest /\ t < 10.
Proof. intros H. apply regex_lexer_inv in H. apply lex_at_in_range in H. lia. Qed.

Theorem regex_lexer_in_range : lexer_in_range regex_lexer.
Proof. intros v sp rest t len H. apply regex_lexer_range in H. lia. Qed.

Print Assumptions no_over_read.
Print Assumptions lex_at_in_range.
Print Assumptions regex_lexer_in_range.
