(* G5 on examples: the grammars (a)-(d) of Proofs/GroupingExamples.v are of the pure operator family; completeness
   applies to all four, uniqueness to (a)-(c); and the COUNTEREXAMPLE to uniqueness when operator rules carry explicit
   precedences ([unique_refuted_explicit_prec]). *)
Require Import Ctpg.Base.Prelude Ctpg.Model.Grammar Ctpg.Model.LRGen Ctpg.Model.Driver
               Ctpg.Spec.Cfg Ctpg.Spec.LRSpec Ctpg.Spec.Conflict Ctpg.Spec.Grouping
               Ctpg.Valid.LRValid Ctpg.Valid.LRResolved
               Ctpg.Proofs.LRSound Ctpg.Proofs.GroupingSpec Ctpg.Proofs.Grouping
               Ctpg.Proofs.GroupingUnique Ctpg.Proofs.GroupingPure Ctpg.Proofs.GroupingExamples.

(* nonterminal E = 0, atom n = 2 *)
Example families :
  map (fun g => pure_familyb g 0 2) [ga; gb; gc; gd] = [true; true; true; true] /\
  map (fun g => plain_familyb g 0) [ga; gb; gc; gd] = [true; true; true; false] /\
  pure_familyb ge 1 3 = false.       (* (e) has parentheses and a unary minus: not of the family *)
Proof. vm_compute. repeat split. Qed.

(* (a): every sentence n (op n)* is accepted, and the accepted tree is its only well grouped derivation tree *)
Theorem ga_complete_unique : forall w, tokens_ok ga w -> opseq ga 0 2 w ->
  exists tr, accepts ga (tbl_of ga) w tr /\ derives_tree ga tr w /\ well_grouped ga tr /\
             forall tr', derives_tree ga tr' w -> well_grouped ga tr' -> tr' = tr.
Proof.
  intros w. apply (pure_unique ga (sts_of ga)).
  - exact ga_resolved.
  - exact ga_noerr.
  - apply pure_familyb_sound. vm_compute. reflexivity.
  - apply plain_familyb_sound. vm_compute. reflexivity.
Qed.

Theorem gb_complete_unique : forall w, tokens_ok gb w -> opseq gb 0 2 w ->
  exists tr, accepts gb (tbl_of gb) w tr /\ derives_tree gb tr w /\ well_grouped gb tr /\
             forall tr', derives_tree gb tr' w -> well_grouped gb tr' -> tr' = tr.
Proof.
  intros w. apply (pure_unique gb (sts_of gb)).
  - exact gb_resolved.
  - exact gb_noerr.
  - apply pure_familyb_sound. vm_compute. reflexivity.
  - apply plain_familyb_sound. vm_compute. reflexivity.
Qed.

(* (d) has an explicit rule precedence: completeness still holds *)
Theorem gd_complete : forall w, tokens_ok gd w -> opseq gd 0 2 w -> exists tr, accepts gd (tbl_of gd) w tr.
Proof.
  intros w. apply (pure_complete gd (sts_of gd)); [exact gd_resolved|].
  apply pure_familyb_sound. vm_compute. reflexivity.
Qed.

(* the hypotheses are satisfiable: a + b * c *)
Example ga_w1_sentence : tokens_ok ga w1 /\ opseq ga 0 2 w1.
Proof. split; [apply tokens_okb_sound|apply opseqb_sound]; vm_compute; reflexivity. Qed.

(* ================================================================== *)
(* uniqueness fails with explicit rule precedences                     *)
(* ================================================================== *)

(* terms + = 0 [prec 0], * = 1 [prec 3], ^ = 2 [prec 1], n = 3; rules  0: E -> E + E [2]   1: E -> E * E [0]
   2: E -> E ^ E (precedence of ^ = 1)   3: E -> n.
   rule + against * : 2 < 3 shift;  rule * against ^ : 0 < 1 shift;  rule + against ^ : 2 > 1 REDUCE  (not transitive).
   a + b * c ^ d : the parser builds a + (b * (c ^ d));  but (a + (b * c)) ^ d is well grouped too: [well_grouped] looks at
   direct operands only, and  b * c  is not a direct operand of  ^ . *)
Definition gf : grammar :=
  match analyze (mkRG [69] [mkRT [43] 0%Z NoAssoc; mkRT [42] 3%Z NoAssoc; mkRT [94] 1%Z NoAssoc; mkRT [110] 0%Z NoAssoc] [[69]]
                      [mkRR [69] [RNterm [69]; RTerm [43]; RNterm [69]] (Some 2%Z);
                       mkRR [69] [RNterm [69]; RTerm [42]; RNterm [69]] (Some 0%Z);
                       mkRR [69] [RNterm [69]; RTerm [94]; RNterm [69]] None;
                       mkRR [69] [RTerm [110]] None])
  with Some g => g | None => dummy_g end.

Definition fn := Node 3 [Leaf 3].
Definition fplus (a b : tree) := Node 0 [a; Leaf 0; b].
Definition ftimes (a b : tree) := Node 1 [a; Leaf 1; b].
Definition fpow (a b : tree) := Node 2 [a; Leaf 2; b].
Definition wf := [3; 0; 3; 1; 3; 2; 3].                            (* a + b * c ^ d *)
Definition tf_parser := fplus fn (ftimes fn (fpow fn fn)).          (* a + (b * (c ^ d)) *)
Definition tf_other := fpow (fplus fn (ftimes fn fn)) fn.           (* (a + (b * c)) ^ d *)

Example gf_choices :
  (sr_choice gf 0 1, sr_choice gf 1 2, sr_choice gf 0 2) = (KShift, KShift, KReduce).
Proof. vm_compute. reflexivity. Qed.

Theorem unique_refuted_explicit_prec :
  validate_resolved gf (sts_of gf) (tbl_of gf) = true /\ no_error_symbol gf (tbl_of gf) = true /\
  pure_family gf 0 3 /\ tokens_ok gf wf /\ opseq gf 0 3 wf /\
  accepts gf (tbl_of gf) wf tf_parser /\
  derives_tree gf tf_other wf /\ well_grouped gf tf_other /\ tf_other <> tf_parser.
Proof.
  split; [vm_compute; reflexivity|]. split; [vm_compute; reflexivity|].
  split; [apply pure_familyb_sound; vm_compute; reflexivity|].
  split; [apply tokens_okb_sound; vm_compute; reflexivity|].
  split; [apply opseqb_sound; vm_compute; reflexivity|].
  split; [exists 100; vm_compute; reflexivity|].
  split; [apply derivesb_sound; vm_compute; reflexivity|].
  split; [apply well_groupedb_iff; vm_compute; reflexivity|discriminate].
Qed.

(* hence the conclusion of [pure_unique] is false for gf: the hypothesis on explicit precedences cannot be dropped *)
Corollary pure_unique_needs_plain :
  ~ (forall tr', derives_tree gf tr' wf -> well_grouped gf tr' -> tr' = tf_parser).
Proof.
  intros H. destruct unique_refuted_explicit_prec as (_ & _ & _ & _ & _ & _ & Hd & Hwg & Hne).
  exact (Hne (H _ Hd Hwg)).
Qed.

Print Assumptions ga_complete_unique.
Print Assumptions gd_complete.
Print Assumptions unique_refuted_explicit_prec.
