(* Part of the tie between the hand-written model and the facts tools/source_facts.py read out of ctpg.hpp on this run. *)
(* white space, newline and initial source point (C04 C09 C10) *)
Require Import Ctpg.Base.Prelude Ctpg.Model.Grammar Ctpg.Model.LRGen Ctpg.Model.Driver Ctpg.Model.Dfa
               Ctpg.Model.RegexFront Ctpg.Model.SourceFacts.

Lemma tie_ws_newline : sf_ws_newline = ws_newline. Proof. reflexivity. Qed.
Lemma tie_ws_no_newline : sf_ws_no_newline = ws_no_newline. Proof. reflexivity. Qed.
Lemma tie_sp0 : sf_sp0 = (sp_line sp0, sp_col sp0). Proof. reflexivity. Qed.
Lemma tie_newline : forall p b, sp_update p [b] = if Nat.eqb b sf_newline then mkSp (S (sp_line p)) 1 else mkSp (sp_line p) (S (sp_col p)).
Proof. reflexivity. Qed.

