(* Forward simulation: the driver on BYTES with a scanner, building parse trees with lexeme extents ([ptree], Spec/Eval.v),
   follows the abstract LR machine (Proofs/LRMachine.v) on the TERM sequence the scanner defines, step for step.
   (Proofs/PatternParse.v has the other direction, for the soundness theorem.)
   Result ([fwd_accept]): if the machine accepts the tree t after n steps, the driver accepts after n + 1 iterations a
   parse tree whose shape is t and whose leaves carry exactly the scanner's tokens (term, start, length). *)
Require Import Ctpg.Base.Prelude Ctpg.Model.Grammar Ctpg.Model.LRGen Ctpg.Model.Driver Ctpg.Model.Dfa
               Ctpg.Model.RegexFront Ctpg.Spec.Cfg Ctpg.Spec.LRSpec Ctpg.Spec.Eval
               Ctpg.Proofs.LRReflect Ctpg.Proofs.LRMachine Ctpg.Proofs.DriverBasics Ctpg.Proofs.DriverEval
               Ctpg.Proofs.PatternLex Ctpg.Proofs.PatternParse.

Lemma map_flat_map {A B C} (f : B -> C) (h : A -> list B) l : map f (flat_map h l) = flat_map (fun x => map f (h x)) l.
Proof. induction l as [|x l IH]; cbn; [reflexivity|]. now rewrite map_app, IH. Qed.

Lemma flat_map_map {A B C} (f : A -> B) (h : B -> list C) l : flat_map h (map f l) = flat_map (fun x => h (f x)) l.
Proof. induction l as [|x l IH]; cbn; [reflexivity|]. now rewrite IH. Qed.

Lemma flat_map_ext_Forall {A B} (f h : A -> list B) l : Forall (fun x => f x = h x) l -> flat_map f l = flat_map h l.
Proof. induction 1 as [|x l Hx _ IH]; cbn; [reflexivity|]. now rewrite Hx, IH. Qed.

Section Fwd.
  Variable g : grammar.
  Variable tbl : table.
  Variable buf : list nat.
  Variable lexer : bool -> spoint -> list nat -> list lex_event * option (nat * nat).
  Hypothesis lexer_sp : forall v p v' q rest, snd (lexer v p rest) = snd (lexer v' q rest).
  Hypothesis lexer_rng : forall v p rest t len, snd (lexer v p rest) = Some (t, len) ->
                                               0 < len /\ len <= length rest /\ t < eof_idx g.
  (* <eof> is never shifted *)
  Hypothesis Hnoeof : forall st e, cell tbl st (nterm_count g + eof_idx g) = inl e -> e_kind e <> KShift.

  Notation TC := (list (nat * list ptree)).
  Notation pst := (pstate ptree TC).
  Notation pstep := (step ptree TC g tbl regex_opts buf None lexer tree_term_f tree_err_f tree_rule_f).
  Notation prun := (run_from ptree TC g tbl regex_opts buf None lexer tree_term_f tree_err_f tree_rule_f).
  Notation pgct := (get_current_term ptree TC g regex_opts buf lexer).
  Notation preduce := (do_reduce ptree TC g tbl None tree_rule_f).

  (* the tokens (term, start, length) the scanner defines from offset pos to the end of the buffer *)
  Inductive ptoks_from : nat -> list (nat * nat * nat) -> Prop :=
  | PtEof pos : skipn pos buf = [] -> ptoks_from pos []
  | PtTok pos c rest t len ws : skipn pos buf = c :: rest -> lexv lexer (c :: rest) = Some (t, len) ->
                                ptoks_from (pos + len) ws -> ptoks_from pos ((t, pos, len) :: ws).

  Lemma ptoks_toks pos toks : ptoks_from pos toks -> toks_from buf lexer pos (map tok_term toks).
  Proof. induction 1; cbn [map]; [apply TfEof; assumption|]. eapply TfTok; eassumption. Qed.

  Lemma toks_ptoks pos ws : toks_from buf lexer pos ws -> exists toks, ptoks_from pos toks /\ map tok_term toks = ws.
  Proof.
    induction 1 as [pos Hsk|pos c rest t len ws Hsk Hl _ (toks & Ht & Hm)].
    - exists []. split; [apply PtEof; assumption|reflexivity].
    - exists ((t, pos, len) :: toks). split; [eapply PtTok; eassumption|]. cbn. now rewrite Hm.
  Qed.

  Lemma ptoks_det pos t1 : ptoks_from pos t1 -> forall t2, ptoks_from pos t2 -> t1 = t2.
  Proof.
    induction 1 as [pos Hsk|pos c rest t len ws Hsk Hl _ IH]; intros t2 H2;
      inversion H2 as [pos' Hsk'|pos' c' rest' t' len' ws' Hsk' Hl' Hr']; subst; try reflexivity; try congruence.
    rewrite Hsk in Hsk'. inversion Hsk'; subst c' rest'. rewrite Hl in Hl'. inversion Hl'; subst t' len'.
    f_equal. apply IH. assumption.
  Qed.

  Lemma ptoks_head pos t p len rest : ptoks_from pos ((t, p, len) :: rest) ->
    p = pos /\ 0 < len /\ pos + len <= length buf /\ t < eof_idx g /\ ptoks_from (pos + len) rest.
  Proof.
    intros H. inversion H as [|pos' c r t' len' ws Hsk Hl Hr]; subst.
    unfold lexv in Hl. destruct (lexer_rng _ _ _ _ _ Hl) as (H1 & H2 & H3).
    assert (Hlen : length (c :: r) = length buf - p) by (rewrite <- Hsk; apply skipn_length).
    cbn [length] in *. repeat split; try assumption; lia.
  Qed.

  Lemma ptoks_tokens_ok pos toks : ptoks_from pos toks -> Forall (fun a => a < eof_idx g) (map tok_term toks).
  Proof.
    induction 1 as [|pos c rest t len ws Hsk Hl _ IH]; cbn [map]; constructor; [|assumption].
    unfold lexv in Hl. apply lexer_rng in Hl. cbn. tauto.
  Qed.

  Lemma ptoks_length pos toks : ptoks_from pos toks -> pos <= length buf -> pos + length toks <= length buf.
  Proof.
    induction 1 as [|pos c rest t len ws Hsk Hl Hr IH]; intros Hp; cbn [length]; [lia|].
    destruct (ptoks_head _ _ _ _ _ (PtTok _ _ _ _ _ _ Hsk Hl Hr)) as (_ & H1 & H2 & _). specialize (IH H2). lia.
  Qed.

  (* the tokens at the leaves of a parse tree *)
  Fixpoint pleaves (t : ptree) : list (nat * nat * nat) :=
    match t with
    | PLeaf a s l _ => [(a, s, l)]
    | PErr _ => [(err_idx g, 0, 0)]
    | PNode _ ch => flat_map pleaves ch
    end.

  Lemma pleaves_yield pt : map tok_term (pleaves pt) = yield (strip g pt).
  Proof.
    induction pt as [| |r ch IH] using ptree_ind2; try reflexivity.
    cbn [pleaves strip yield]. rewrite map_flat_map, flat_map_map. apply flat_map_ext_Forall. exact IH.
  Qed.

  (* ---------- the invariant: normal mode, the cursor at a token boundary or on a token already fetched ---------- *)
  Definition J (s : pst) (toks : list (nat * nat * nat)) : Prop :=
    ps_rec s = false /\ ps_cons s = false /\ ps_it s <= length buf /\ ptoks_from (ps_it s) toks /\
    (ps_end s = ps_it s \/
     exists t len rest, toks = (t, ps_it s, len) :: rest /\ ps_end s = ps_it s + len /\ ps_term s = Some t).

  Lemma gct_J s toks : J s toks ->
    exists s1 ev, pgct s = (s1, Some (look g (map tok_term toks)), ev) /\
      ps_cursors s1 = ps_cursors s /\ ps_values s1 = ps_values s /\ ps_ctx s1 = ps_ctx s /\
      ps_rec s1 = false /\ ps_cons s1 = false /\ ps_it s1 = ps_it s /\ ps_end s1 <= length buf /\
      match toks with
      | [] => ps_end s1 = ps_it s
      | (t, _, len) :: _ => ps_end s1 = ps_it s + len /\ ps_term s1 = Some t
      end.
  Proof.
    destruct s as [cs vs sp it en tm rc cn cx]. unfold J. cbn [ps_rec ps_cons ps_it ps_end ps_term].
    intros (Hr & Hc & Hle & Ht & Hp). subst rc cn.
    unfold get_current_term. cbn [ps_rec ps_it ps_end ps_term ps_sp regex_opts o_skip_ws o_verbose].
    destruct (Nat.eqb_spec it en) as [He|Hne]; cbn [negb].
    - subst en. cbn [skipn firstn sp_update]. rewrite !Nat.add_0_r.
      inversion Ht as [pos Hsk|pos c rest t len ws Hsk Hl Hrest]; subst.
      + rewrite Hsk. eexists; eexists. split; [reflexivity|]. cbn. repeat split; auto.
      + destruct (ptoks_head _ _ _ _ _ Ht) as (_ & H1 & H2 & _).
        rewrite Hsk. destruct (lexer false sp (c :: rest)) as [lx res] eqn:El.
        assert (res = Some (t, len)) as ->.
        { pose proof (lexer_sp false sp false sp0 (c :: rest)) as Hs. rewrite El in Hs. cbn [snd] in Hs.
          unfold lexv in Hl. congruence. }
        eexists; eexists. split; [reflexivity|]. cbn. repeat split; auto.
    - destruct Hp as [Hp|(t & len & rest & Htoks & Hen & Htm)]; [congruence|]. subst toks en tm.
      destruct (ptoks_head _ _ _ _ _ Ht) as (_ & H1 & H2 & _).
      eexists; eexists. split; [reflexivity|]. cbn. repeat split; auto.
  Qed.

  Lemma reduce_fwd (s : pst) r rest cs' trs' rest' :
    mreduce g tbl (ps_cursors s) (map (strip g) (ps_values s)) rest r = Next (cs', trs', rest') ->
    exists s3 ev, preduce s r = inl (s3, ev) /\ ps_cursors s3 = cs' /\ map (strip g) (ps_values s3) = trs' /\ rest' = rest /\
                  ps_rec s3 = ps_rec s /\ ps_cons s3 = ps_cons s /\ ps_it s3 = ps_it s /\
                  ps_end s3 = ps_end s /\ ps_term s3 = ps_term s /\
                  flat_map pleaves (rev (ps_values s3)) = flat_map pleaves (rev (ps_values s)).
  Proof.
    destruct s as [cs vs sp it en tm rc cn cx]. unfold mreduce, do_reduce.
    cbn [ps_cursors ps_values ps_ctx full].
    destruct (nth_error (rule_infos g) r) as [ri|]; [|discriminate].
    destruct (Nat.ltb (length cs) (ri_n ri)); [discriminate|].
    destruct (skipn (ri_n ri) cs) as [|top rest0]; [discriminate|].
    destruct (cell tbl top (ri_l ri)) as [e|c]; [|discriminate].
    destruct (e_arg e) as [nst|]; [|discriminate].
    rewrite map_length. destruct (Nat.ltb (length vs) (ri_n ri)); [discriminate|].
    intros H. inversion H; subst. unfold tree_rule_f.
    eexists; eexists. split; [reflexivity|]. cbn [ps_cursors ps_values ps_rec ps_cons ps_it ps_end ps_term set_ctx set_stacks].
    repeat split.
    - cbn [map strip]. rewrite map_rev, firstn_map, skipn_map. reflexivity.
    - cbn [rev]. rewrite flat_map_app. cbn [flat_map pleaves]. rewrite app_nil_r, <- flat_map_app, <- rev_app_distr.
      rewrite firstn_skipn. reflexivity.
  Qed.

  Lemma fwd_step s toks cs' trs' ws' : J s toks ->
    mstep g tbl (ps_cursors s, map (strip g) (ps_values s), map tok_term toks) = Next (cs', trs', ws') ->
    exists s' ev toks', pstep s = (inl s', ev) /\ J s' toks' /\
      ps_cursors s' = cs' /\ map (strip g) (ps_values s') = trs' /\ map tok_term toks' = ws' /\
      flat_map pleaves (rev (ps_values s')) ++ toks' = flat_map pleaves (rev (ps_values s)) ++ toks.
  Proof.
    intros HJ Hm. destruct (gct_J s toks HJ) as (s1 & ev1 & Hg & Hcs & Hvs & Hcx & Hr & Hc & Hit & Hen & Hend).
    destruct HJ as (_ & _ & Hle & Htoks & _).
    unfold mstep in Hm. destruct (ps_cursors s) as [|cur cs] eqn:Ecs; [discriminate|].
    unfold step. rewrite Ecs, Hg. cbv beta iota. unfold act.
    destruct (cell tbl cur (nterm_count g + look g (map tok_term toks))) as [e|c] eqn:Ecell; [|discriminate].
    rewrite Hc. destruct (e_kind e) eqn:Ek; try discriminate.
    - destruct (rev (map (strip g) (ps_values s))); discriminate.
    - (* shift *)
      destruct (e_arg e) as [nst|] eqn:Earg; [|discriminate]. inversion Hm; subst cs' trs' ws'. clear Hm.
      destruct toks as [|[[t pos] len] rest].
      { exfalso. exact (Hnoeof _ _ Ecell Ek). }
      destruct Hend as [Hend Htm]. destruct (ptoks_head _ _ _ _ _ Htoks) as (Hpos & Hl0 & Hl1 & Hl2 & Hrest). subst pos.
      cbn [full]. replace (Nat.ltb (length buf) (ps_end s1)) with false by (symmetry; apply Nat.ltb_ge; assumption).
      eexists; eexists; exists rest. split; [reflexivity|].
      destruct s1 as [cs1 vs1 sp1 it1 en1 tm1 rc1 cn1 cx1]. cbn in Hcs, Hvs, Hcx, Hr, Hc, Hit, Hen, Hend, Htm. subst.
      cbn [map tok_term look hd fst tl]. unfold consume_term, set_stacks, set_pos, tree_term_f.
      cbn [ps_cursors ps_values ps_sp ps_it ps_end ps_term ps_rec ps_cons ps_ctx].
      split; [|split; [|split; [|split]]].
      + unfold J. cbn [ps_rec ps_cons ps_it ps_end]. repeat split; auto.
      + reflexivity.
      + cbn [map strip]. reflexivity.
      + reflexivity.
      + cbn [rev]. rewrite flat_map_app. cbn [flat_map pleaves]. rewrite <- app_assoc. cbn [app].
        replace (ps_it s + len - ps_it s) with len by lia. reflexivity.
    - (* reduce *)
      destruct (e_arg e) as [r|] eqn:Earg; [|discriminate].
      pose proof (reduce_fwd s1 r (map tok_term toks) cs' trs' ws') as Hrf. rewrite Hcs, Hvs in Hrf.
      destruct (Hrf Hm) as (s3 & ev & Hd & H1 & H2 & H3 & H4 & H5 & H6 & H7 & H8 & H9). rewrite Hd.
      eexists; eexists; exists toks. split; [reflexivity|]. split; [|split; [|split; [|split]]]; auto.
      + unfold J. rewrite H4, H5, H6, H7, H8, Hit. repeat split; auto.
        destruct toks as [|[[t pos] len] rest]; [left; assumption|]. right.
        destruct Hend as [Hend Htm]. destruct (ptoks_head _ _ _ _ _ Htoks) as (Hpos & _). subst pos.
        exists t, len, rest. auto.
      + rewrite H9. reflexivity.
  Qed.

  Lemma mreduce_not_acc cs trs rest r t : mreduce g tbl cs trs rest r <> Acc t.
  Proof.
    unfold mreduce. destruct (nth_error (rule_infos g) r) as [ri|]; [|discriminate].
    destruct (Nat.ltb (length cs) (ri_n ri)); [discriminate|].
    destruct (skipn (ri_n ri) cs) as [|top rest0]; [discriminate|].
    destruct (cell tbl top (ri_l ri)) as [e|c]; [|discriminate].
    destruct (e_arg e) as [nst|]; [|discriminate].
    destruct (Nat.ltb (length trs) (ri_n ri)); discriminate.
  Qed.

  Lemma fwd_acc s toks t : J s toks ->
    mstep g tbl (ps_cursors s, map (strip g) (ps_values s), map tok_term toks) = Acc t ->
    exists s' ev pt rest, pstep s = (inr (Accept pt, s'), ev) /\ strip g pt = t /\ rev (ps_values s) = pt :: rest.
  Proof.
    intros HJ Hm. destruct (gct_J s toks HJ) as (s1 & ev1 & Hg & Hcs & Hvs & Hcx & Hr & Hc & Hit & Hen & Hend).
    unfold mstep in Hm. destruct (ps_cursors s) as [|cur cs] eqn:Ecs; [discriminate|].
    unfold step. rewrite Ecs, Hg. cbv beta iota. unfold act.
    destruct (cell tbl cur (nterm_count g + look g (map tok_term toks))) as [e|c] eqn:Ecell; [|discriminate].
    rewrite Hc. destruct (e_kind e) eqn:Ek; try discriminate.
    - rewrite Hvs. rewrite <- map_rev in Hm. destruct (rev (ps_values s)) as [|pt rest]; [discriminate|].
      cbn [map] in Hm. inversion Hm. do 4 eexists. split; [reflexivity|]. auto.
    - destruct (e_arg e); discriminate.
    - destruct (e_arg e) as [r|]; [|discriminate]. exfalso. exact (mreduce_not_acc _ _ _ _ _ Hm).
  Qed.

  Lemma fwd_msteps n : forall s toks c', J s toks ->
    msteps g tbl n (ps_cursors s, map (strip g) (ps_values s), map tok_term toks) c' ->
    exists s' toks', (forall k out, exists out', prun (n + k) s out = prun k s' out') /\ J s' toks' /\
      c' = (ps_cursors s', map (strip g) (ps_values s'), map tok_term toks') /\
      flat_map pleaves (rev (ps_values s')) ++ toks' = flat_map pleaves (rev (ps_values s)) ++ toks.
  Proof.
    induction n as [|n IH]; intros s toks c' HJ Hm; cbn [msteps] in Hm.
    - subst c'. exists s, toks. split; [|auto]. intros k out. exists out. reflexivity.
    - destruct Hm as ([[cs1 trs1] ws1] & Hs & Hm).
      destruct (fwd_step s toks cs1 trs1 ws1 HJ Hs) as (s1 & ev & toks1 & Hst & HJ1 & E1 & E2 & E3 & E4).
      subst cs1 trs1 ws1. destruct (IH s1 toks1 c' HJ1 Hm) as (s' & toks' & Hrun & HJ' & Hc' & Hlv).
      exists s', toks'. split; [|split; [assumption|split; [assumption|congruence]]].
      intros k out. cbn [Nat.add run_from]. rewrite Hst. apply Hrun.
  Qed.

  Theorem fwd_accept n toks s' t : ptoks_from 0 toks ->
    msteps g tbl n ([0], [], map tok_term toks) ([s'; 0], [t], []) ->
    mstep g tbl ([s'; 0], [t], []) = Acc t ->
    exists pt, strip g pt = t /\ pleaves pt = toks /\
      forall k, fst (fst (run ptree TC g tbl regex_opts buf None lexer tree_term_f tree_err_f tree_rule_f (n + S k) [])) = Accept pt.
  Proof.
    intros Ht Hm Ha.
    assert (HJ0 : J (init []) toks).
    { unfold J. cbn. repeat split; auto. lia. }
    destruct (fwd_msteps n (init []) toks _ HJ0 Hm) as (sf & toksf & Hrun & HJf & Hc & Hlv).
    inversion Hc as [[Hcs Hvs Hws]]. cbn [init ps_values rev flat_map app] in Hlv.
    destruct toksf; [|discriminate]. rewrite app_nil_r in Hlv.
    rewrite Hcs, Hvs in Ha. change (@nil nat) with (map tok_term []) in Ha.
    destruct (fwd_acc sf [] t HJf Ha) as (s2 & ev & pt & rest & Hst & Hstrip & Hrev).
    destruct (ps_values sf) as [|p0 [|p1 vs]] eqn:Evs; try discriminate.
    cbn in Hrev. inversion Hrev; subst p0 rest.
    exists pt. split; [assumption|]. split; [cbn in Hlv; rewrite app_nil_r in Hlv; exact Hlv|].
    intros k. unfold run. destruct (Hrun (S k) []) as (out' & ->). cbn [run_from]. rewrite Hst. reflexivity.
  Qed.
End Fwd.
