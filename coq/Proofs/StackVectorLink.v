From Ctpg Require Import Base.Prelude Model.Containers Proofs.ContainersVec.
From Coq Require Import NArith ZArith Lia List.
Import ListNotations.

(* Link between the LR driver mirror's stacks (Model/Driver.v: Coq lists, TOP AT THE HEAD, push = cons, reduce = skipn n,
   capacity test `full n = Nat.leb cap n` before every push) and the word-level mirror of stdex::cvector<T,N>
   (Model/Containers.v).  Driver.v is deliberately not imported (its `result` type also has a constructor `Throw`);
   drv_full is literally the body of Driver.full for `stack_cap = Some cap`. *)

Definition drv_full (cap n : nat) : bool := Nat.leb cap n.

(* l has the top at the head; cv_abs lists the elements bottom-first *)
Definition stack_rel {A} (c : cvector A) (l : list A) : Prop := cv_wf c /\ cv_abs c = rev l.

(* ------------------------------------------------------------------ list facts *)
Lemma firstn_rev_skipn : forall A (l : list A) n, firstn (length l - n) (rev l) = rev (skipn n l).
Proof.
  intros A l n. rewrite firstn_rev.
  destruct (Nat.le_gt_cases n (length l)) as [H|H].
  - replace (length l - (length l - n)) with n by lia. reflexivity.
  - replace (length l - (length l - n)) with (length l) by lia.
    rewrite skipn_all. rewrite (skipn_all2 l) by lia. reflexivity.
Qed.

Lemma skipn_rev_firstn : forall A (l : list A) n, n <= length l -> skipn (length l - n) (rev l) = rev (firstn n l).
Proof.
  intros A l n H. rewrite skipn_rev.
  replace (length l - (length l - n)) with n by lia. reflexivity.
Qed.

Lemma nth_skipn_add : forall A (l : list A) k i d, nth i (skipn k l) d = nth (k + i) l d.
Proof.
  intros A l; induction l as [|a l IH]; intros k i d.
  - rewrite skipn_nil. destruct i, k; reflexivity.
  - destruct k as [|k]; [reflexivity|]. cbn [skipn Nat.add nth]. apply IH.
Qed.

(* ------------------------------------------------------------------ 5: size *)
Theorem size_sim : forall A (c : cvector A) l, stack_rel c l -> N.to_nat (cv_size c) = length l.
Proof.
  intros A c l [Hwf Habs]. rewrite <- (cv_abs_length c Hwf), Habs. apply rev_length.
Qed.

(* ------------------------------------------------------------------ 1: the empty stack *)
Theorem stack_rel_new : forall A cap (d : A), stack_rel (cv_new cap d) [].
Proof.
  intros A cap d. split; [apply cv_new_wf | apply cv_new_abs].
Qed.

(* ------------------------------------------------------------------ 2: push *)
Theorem push_sim : forall A (c : cvector A) l x, stack_rel c l ->
  (drv_full (N.to_nat (cv_cap c)) (length l) = true -> cv_push c x = Throw) /\
  (drv_full (N.to_nat (cv_cap c)) (length l) = false ->
     exists c', cv_push c x = Ok c' /\ stack_rel c' (x :: l) /\ cv_cap c' = cv_cap c).
Proof.
  intros A c l x Hrel. pose proof (size_sim A c l Hrel) as Hsz. destruct Hrel as [Hwf Habs].
  pose proof (cv_abs_length c Hwf) as Hlen. destruct (Hwf) as [_ Hle].
  unfold drv_full. split; intros Hfull.
  - apply Nat.leb_le in Hfull. apply (cv_push_throws_iff_full c x Hwf). lia.
  - apply Nat.leb_gt in Hfull.
    destruct (cv_push c x) as [c'| |] eqn:Hp.
    + exists c'. split; [reflexivity|].
      destruct (cv_push_in_bounds c c' x Hwf Hp) as [_ [Hwf' Habs']].
      split; [|exact (cv_push_cap c c' x Hp)].
      split; [exact Hwf'|]. rewrite Habs', Habs. reflexivity.
    + exfalso. apply (cv_push_throws_iff_full c x Hwf) in Hp. lia.
    + exfalso. exact (cv_push_never_undef c x Hp).
Qed.

(* the driver model throws exactly when the real push_back throws *)
Corollary push_throw_iff : forall A (c : cvector A) l x, stack_rel c l ->
  (cv_push c x = Throw <-> drv_full (N.to_nat (cv_cap c)) (length l) = true).
Proof.
  intros A c l x Hrel. destruct (push_sim A c l x Hrel) as [Ht Hf]. split; [|exact Ht].
  intros Hp. destruct (drv_full (N.to_nat (cv_cap c)) (length l)); [reflexivity|].
  destruct (Hf eq_refl) as [c' [Hc' _]]. rewrite Hc' in Hp. discriminate Hp.
Qed.

(* ------------------------------------------------------------------ 3: top *)
Theorem top_sim : forall A (c : cvector A) l x (d : A), stack_rel c (x :: l) -> cv_back c = Ok x.
Proof.
  intros A c l x d Hrel. pose proof (size_sim A c (x :: l) Hrel) as Hsz. destruct Hrel as [Hwf Habs].
  cbn [length] in Hsz.
  rewrite (cv_back_spec c d Hwf) by lia.
  rewrite Habs. cbn [rev]. rewrite last_last. reflexivity.
Qed.

(* ------------------------------------------------------------------ 4: reduce pops n *)
Theorem pop_n_sim : forall A (c : cvector A) l n, stack_rel c l ->
  exists c', cv_erase c (Z.of_N (cv_size c) - Z.of_N (N.of_nat n)) (Z.of_N (cv_size c)) = Ok c' /\
             stack_rel c' (skipn n l) /\ cv_cap c' = cv_cap c.
Proof.
  intros A c l n [Hwf Habs].
  destruct (cv_erase_last_ok c (N.of_nat n)) as [c' He]. exists c'. split; [exact He|].
  destruct (cv_erase_last_spec c c' (N.of_nat n) Hwf He) as [Hwf' Habs'].
  split.
  - split; [exact Hwf'|]. rewrite Habs', Habs, rev_length, Nat2N.id. apply firstn_rev_skipn.
  - pose proof (cv_erase_spec c (Z.of_N (cv_size c) - Z.of_N (N.of_nat n)) (Z.of_N (cv_size c)) Hwf) as [_ [Hc _]].
    rewrite He in Hc. exact Hc.
Qed.

(* ------------------------------------------------------------------ 6: argument order of a reduction *)
Theorem arg_order_sim : forall A (c : cvector A) l n, stack_rel c l -> n <= length l ->
  skipn (length l - n) (cv_abs c) = rev (firstn n l).
Proof.
  intros A c l n [_ Habs] Hn. rewrite Habs. apply skipn_rev_firstn. exact Hn.
Qed.

(* element-wise reading: the i-th argument (i < n) is cv_get at index size - n + i *)
Corollary arg_get_sim : forall A (c : cvector A) l n i (d : A), stack_rel c l -> n <= length l -> i < n ->
  cv_get c (cv_size c - N.of_nat n + N.of_nat i) = Ok (nth i (rev (firstn n l)) d).
Proof.
  intros A c l n i d Hrel Hn Hi. pose proof (size_sim A c l Hrel) as Hsz.
  rewrite <- (arg_order_sim A c l n Hrel Hn). destruct Hrel as [Hwf Habs].
  rewrite (cv_get_spec c _ d Hwf) by lia. f_equal.
  rewrite nth_skipn_add. f_equal. lia.
Qed.

(* ------------------------------------------------------------------ 7: runs *)
(* inl x = push x, inr n = pop n; a push on a full stack is ignored on both sides *)
Definition cv_exec {A} (c : cvector A) (o : A + nat) : cvector A :=
  match o with
  | inl x => keep c (cv_push c x)
  | inr n => keep c (cv_erase c (Z.of_N (cv_size c) - Z.of_N (N.of_nat n)) (Z.of_N (cv_size c)))
  end.

Definition l_exec {A} (cap : nat) (l : list A) (o : A + nat) : list A :=
  match o with
  | inl x => if drv_full cap (length l) then l else x :: l
  | inr n => skipn n l
  end.

Lemma exec_sim : forall A (c : cvector A) l o, stack_rel c l ->
  stack_rel (cv_exec c o) (l_exec (N.to_nat (cv_cap c)) l o) /\ cv_cap (cv_exec c o) = cv_cap c.
Proof.
  intros A c l [x|n] Hrel; cbn [cv_exec l_exec].
  - destruct (push_sim A c l x Hrel) as [Ht Hf].
    destruct (drv_full (N.to_nat (cv_cap c)) (length l)).
    + rewrite (Ht eq_refl). cbn [keep]. split; [exact Hrel | reflexivity].
    + destruct (Hf eq_refl) as [c' [Hp [Hrel' Hcap]]]. rewrite Hp. cbn [keep]. split; assumption.
  - destruct (pop_n_sim A c l n Hrel) as [c' [He [Hrel' Hcap]]]. rewrite He. cbn [keep]. split; assumption.
Qed.

Lemma fold_exec_sim : forall A (ops : list (A + nat)) (c : cvector A) l, stack_rel c l ->
  stack_rel (fold_left cv_exec ops c) (fold_left (l_exec (N.to_nat (cv_cap c))) ops l) /\
  cv_cap (fold_left cv_exec ops c) = cv_cap c.
Proof.
  intros A ops; induction ops as [|o ops IH]; intros c l Hrel; cbn [fold_left].
  - split; [exact Hrel | reflexivity].
  - destruct (exec_sim A c l o Hrel) as [Hrel' Hcap].
    destruct (IH _ _ Hrel') as [Hrel'' Hcap'']. rewrite Hcap in Hrel'', Hcap''.
    split; assumption.
Qed.

Theorem run_sim : forall A cap (d : A) (ops : list (A + nat)),
  stack_rel (fold_left cv_exec ops (cv_new cap d)) (fold_left (l_exec (N.to_nat cap)) ops []).
Proof.
  intros A cap d ops.
  destruct (fold_exec_sim A ops (cv_new cap d) [] (stack_rel_new A cap d)) as [H _]. exact H.
Qed.

(* observations after any run: size, top, and the arguments of the next reduction agree *)
Corollary run_size_sim : forall A cap (d : A) (ops : list (A + nat)),
  N.to_nat (cv_size (fold_left cv_exec ops (cv_new cap d))) = length (fold_left (l_exec (N.to_nat cap)) ops []).
Proof. intros A cap d ops. apply size_sim. apply run_sim. Qed.

Corollary run_top_sim : forall A cap (d : A) (ops : list (A + nat)) x l,
  fold_left (l_exec (N.to_nat cap)) ops [] = x :: l -> cv_back (fold_left cv_exec ops (cv_new cap d)) = Ok x.
Proof.
  intros A cap d ops x l E. apply (top_sim A _ l x d). rewrite <- E. apply run_sim.
Qed.

Print Assumptions push_sim.
Print Assumptions pop_n_sim.
Print Assumptions run_sim.
