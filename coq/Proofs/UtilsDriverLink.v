(* Links between the byte-level mirror of namespace utils and the abstractions the driver / grammar models use. *)
From Ctpg Require Import Base.Prelude Model.Containers Model.Utils Model.Grammar Model.Driver Model.Buffers Proofs.UtilsCorrect Proofs.BuffersCorrect.
From Coq Require Import List Bool Lia.

Lemma mem_nat_In x l : mem_nat x l = true <-> In x l.
Proof.
  induction l as [|y t IH]; cbn [mem_nat In].
  - split; [discriminate | tauto].
  - destruct (Nat.eqb_spec x y) as [E|E].
    + split; [intros _; left; symmetry; exact E | reflexivity].
    + rewrite IH. split; [intros H; right; exact H | intros [H|H]; [exfalso; apply E; symmetry; exact H | exact H]].
Qed.

Definition ws_table (o : options) : list nat := if o_skip_nl o then ws_newline else ws_no_newline.

Lemma ws_table_nul_free o : nul_free (ws_table o).
Proof. unfold ws_table, ws_newline, ws_no_newline. destruct (o_skip_nl o); repeat constructor; discriminate. Qed.

(* skip_whitespace tests `utils::find_char(byte, space_chars) != uninitialized` on the NUL-terminated table the options select;
   the driver model tests membership in the list: the same predicate on every byte, the NUL byte included (never whitespace) *)
Theorem is_ws_is_find_char : forall o b rest,
  is_ws o b = true <-> exists k, find_char b (ws_table o ++ 0 :: rest) 0 = Ok (Some k).
Proof.
  intros o b rest. unfold is_ws. fold (ws_table o). rewrite mem_nat_In.
  destruct (Nat.eq_dec b 0) as [E|E].
  - subst b. split.
    + intros H. exfalso. pose proof (ws_table_nul_free o) as N. unfold nul_free in N. rewrite Forall_forall in N. exact (N 0 H eq_refl).
    + intros [k Hk]. rewrite (find_char_nul (ws_table o) rest (ws_table_nul_free o)) in Hk. discriminate.
  - symmetry. apply find_char_member; [apply ws_table_nul_free | exact E].
Qed.

Theorem nul_is_not_whitespace : forall o, is_ws o 0 = false.
Proof. intros o. unfold is_ws, ws_newline, ws_no_newline. destruct (o_skip_nl o); reflexivity. Qed.

(* the lexeme the driver model hands to term functors (Driver.slice_of) is what get_view of every real buffer kind returns *)
Theorem lexeme_of_every_buffer_kind_is_the_drivers_slice : forall pre text post s e, s <= e -> e <= length text ->
  cs_get_view (cs_of_literal text) s e = Ok (slice_of text s e)
  /\ sb_get_view {| sb_str := text |} s e = Ok (slice_of text s e)
  /\ svb_get_view {| sv_mem := pre ++ text ++ post; sv_off := length pre; sv_len := length text |} (length pre + s) (length pre + e) = Ok (slice_of text s e).
Proof.
  intros pre text post s e Hse He.
  pose proof (cs_view_spec text s e Hse He) as H1.
  pose proof (sb_view_spec text s e Hse He) as H2.
  destruct (buffers_agree pre text post s e Hse He) as [_ H3].
  change (slice_of text s e) with (slice text s e).
  split; [exact H1|]. split; [exact H2|]. rewrite <- H3. exact H2.
Qed.

Print Assumptions is_ws_is_find_char.
Print Assumptions lexeme_of_every_buffer_kind_is_the_drivers_slice.
