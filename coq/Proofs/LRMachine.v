(* An abstract LR machine on token lists (state stack, tree stack, remaining input; plain table lookup,
   no error recovery) and its correspondence with the driver instance [tree_run] of Spec/LRSpec.v.
   All unfolding of Model/Driver.v is confined to this file. *)
Require Import Ctpg.Base.Prelude Ctpg.Model.Grammar Ctpg.Model.LRGen Ctpg.Model.Driver
               Ctpg.Spec.Cfg Ctpg.Spec.LRSpec Ctpg.Proofs.LRReflect.

(* ---------- fuel monotonicity of the generic driver ---------- *)
Section Generic.
  Variables V C : Type.
  Variable g : grammar.
  Variable tbl : table.
  Variable opts : options.
  Variable buf : list nat.
  Variable cap : option nat.
  Variable lexer : bool -> spoint -> list nat -> list lex_event * option (nat * nat).
  Variable term_f : nat -> nat -> nat -> spoint -> V.
  Variable err_f : spoint -> V.
  Variable rule_f : nat -> C -> list V -> C * V.

  Notation grun := (run_from V C g tbl opts buf cap lexer term_f err_f rule_f).

  Lemma run_from_mono fuel k s out r s' out' :
    grun fuel s out = (r, s', out') -> r <> OutOfFuel -> grun (fuel + k) s out = (r, s', out').
  Proof.
    revert s out. induction fuel as [|f IH]; intros s out H Hr; cbn in *.
    - inversion H; subst. congruence.
    - destruct (step V C g tbl opts buf cap lexer term_f err_f rule_f s) as [[s1|[r1 s1]] ev].
      + apply IH; assumption.
      + assumption.
  Qed.

  Lemma run_from_det f1 f2 s out r1 s1 o1 r2 s2 o2 :
    grun f1 s out = (r1, s1, o1) -> grun f2 s out = (r2, s2, o2) ->
    r1 <> OutOfFuel -> r2 <> OutOfFuel -> r1 = r2.
  Proof.
    intros H1 H2 N1 N2.
    apply run_from_mono with (k := f2) in H1; [|assumption].
    apply run_from_mono with (k := f1) in H2; [|assumption].
    rewrite (Nat.add_comm f2 f1) in H2. rewrite H1 in H2. inversion H2; reflexivity.
  Qed.
End Generic.

Section Machine.
  Variable g : grammar.
  Variable tbl : table.
  Variable w : list nat.

  (* ---------- the abstract machine ---------- *)
  Definition cfg := (list nat * list tree * list nat)%type.   (* states (top first), trees (top first), rest *)
  Definition look (rest : list nat) : nat := hd (eof_idx g) rest.

  Inductive outcome := Next (c : cfg) | Acc (t : tree) | Fail | Bad.

  Definition mreduce (sts : list nat) (trs : list tree) (rest : list nat) (r : nat) : outcome :=
    match nth_error (rule_infos g) r with
    | None => Fail
    | Some ri =>
        let n := ri_n ri in
        if Nat.ltb (length sts) n then Fail else
        match skipn n sts with
        | [] => Fail
        | top :: _ =>
            match cell tbl top (ri_l ri) with
            | inr _ => Fail
            | inl e =>
                match e_arg e with
                | None => Fail
                | Some nst =>
                    if Nat.ltb (length trs) n then Fail else
                    Next (nst :: skipn n sts, Node (ri_r ri) (rev (firstn n trs)) :: skipn n trs, rest)
                end
            end
        end
    end.

  Definition mstep (c : cfg) : outcome :=
    let '(sts, trs, rest) := c in
    match sts with
    | [] => Fail
    | cur :: _ =>
        match cell tbl cur (nterm_count g + look rest) with
        | inr _ => Fail
        | inl e =>
            match e_kind e with
            | KError => Fail
            | KShift => match e_arg e with
                        | None => Fail
                        | Some nst => Next (nst :: sts, Leaf (look rest) :: trs, tl rest)
                        end
            | KReduce => match e_arg e with
                         | None => Fail
                         | Some r => mreduce sts trs rest r
                         end
            | KSuccess => match rev trs with [] => Fail | v :: _ => Acc v end
            | KShiftErr | KRR => Bad
            end
        end
    end.

  Fixpoint mrun (n : nat) (c : cfg) : option tree :=
    match n with
    | 0 => None
    | S n' => match mstep c with
              | Next c' => mrun n' c'
              | Acc t => Some t
              | _ => None
              end
    end.

  Lemma mrun_mono n k c t : mrun n c = Some t -> mrun (n + k) c = Some t.
  Proof.
    revert c; induction n as [|n IH]; intros c H; cbn in *; [discriminate|].
    destruct (mstep c); auto.
  Qed.

  (* c reaches c' in exactly n machine steps *)
  Fixpoint msteps (n : nat) (c c' : cfg) : Prop :=
    match n with
    | 0 => c = c'
    | S n' => exists c1, mstep c = Next c1 /\ msteps n' c1 c'
    end.

  Lemma msteps_trans n m c1 c2 c3 : msteps n c1 c2 -> msteps m c2 c3 -> msteps (n + m) c1 c3.
  Proof.
    revert c1; induction n as [|n IH]; intros c1 H1 H2; cbn in *.
    - subst; assumption.
    - destruct H1 as (c & Hs & H1). exists c. split; [assumption|]. apply IH; assumption.
  Qed.

  Lemma msteps_mrun n c c' m t : msteps n c c' -> mrun m c' = Some t -> mrun (n + m) c = Some t.
  Proof.
    revert c; induction n as [|n IH]; intros c H1 H2; cbn in *.
    - subst; assumption.
    - destruct H1 as (c1 & Hs & H1). rewrite Hs. apply IH; assumption.
  Qed.

  (* ---------- the driver instance ---------- *)
  Definition tf : nat -> nat -> nat -> spoint -> tree := fun t _ _ _ => Leaf t.
  Definition ef : spoint -> tree := fun _ => Leaf (err_idx g).
  Definition rlf : nat -> unit -> list tree -> unit * tree := fun r c args => (c, Node r args).

  Notation dstate := (pstate tree unit).
  Notation dstep := (step tree unit g tbl tree_opts w None id_lexer tf ef rlf).
  Notation drun := (run_from tree unit g tbl tree_opts w None id_lexer tf ef rlf).
  Notation dgct := (get_current_term tree unit g tree_opts w id_lexer).
  Notation dact := (act tree unit g tbl w None tf ef rlf).
  Notation dreduce := (do_reduce tree unit g tbl None rlf).

  Lemma tree_run_eq fuel : tree_run g tbl w fuel = fst (fst (drun fuel (init tt) [])).
  Proof. reflexivity. Qed.

  Definition pos_ok (s : dstate) : Prop :=
    (ps_it s = ps_end s /\ ps_it s <= length w) \/
    (ps_end s = S (ps_it s) /\ exists a, ps_term s = Some a /\ nth_error w (ps_it s) = Some a).

  Definition normal (s : dstate) : Prop := ps_rec s = false /\ ps_cons s = false /\ pos_ok s.

  Definition abs (s : dstate) : cfg := (ps_cursors s, ps_values s, skipn (ps_it s) w).

  Lemma init_normal : normal (init tt).
  Proof. unfold normal, pos_ok; cbn. repeat split; auto. left. split; [reflexivity|lia]. Qed.

  Lemma init_abs : abs (init tt) = ([0], [], w).
  Proof. reflexivity. Qed.

  Lemma skipn_adv n : skipn (n + length (firstn 1 (skipn n w))) w = tl (skipn n w).
  Proof.
    destruct (skipn n w) as [|a r] eqn:E; cbn.
    - rewrite Nat.add_0_r. assumption.
    - apply skipn_cons_nth_error in E. destruct E as [_ E]. rewrite Nat.add_1_r. assumption.
  Qed.

  Lemma gct_normal s : normal s ->
    exists s1 ev, dgct s = (s1, Some (look (skipn (ps_it s) w)), ev) /\
      ps_cursors s1 = ps_cursors s /\ ps_values s1 = ps_values s /\
      ps_rec s1 = false /\ ps_cons s1 = false /\
      ps_it s1 = ps_it s /\ ps_end s1 = ps_it s + length (firstn 1 (skipn (ps_it s) w)) /\
      ps_end s1 <= length w /\ pos_ok s1.
  Proof.
    destruct s as [cs vs sp it en tm rc cn cx]. unfold normal, pos_ok; cbn.
    intros (Hr & Hc & Hp). subst rc cn.
    unfold get_current_term; cbn [ps_rec ps_it ps_end ps_term ps_sp o_skip_ws tree_opts o_verbose].
    destruct Hp as [[He Hle]|[He (a & Ht & Hn)]].
    - subst en. rewrite Nat.eqb_refl. cbn [negb skipn firstn].
      destruct (skipn it w) as [|c rest] eqn:E.
      + eexists; eexists. split; [reflexivity|]. cbn. repeat split; try reflexivity; try lia.
      + cbn [id_lexer]. eexists; eexists. split; [reflexivity|]. cbn.
        apply skipn_cons_nth_error in E. destruct E as [E _].
        assert (it < length w) by (apply nth_error_Some; congruence).
        repeat split; try reflexivity; try lia.
        try solve [right; cbn; split; [lia|]; exists c; rewrite Nat.add_0_r; auto].
    - subst en. replace (Nat.eqb it (S it)) with false by (symmetry; apply Nat.eqb_neq; lia).
      cbn [negb]. rewrite (skipn_nth_error_cons _ _ _ Hn). cbn.
      assert (it < length w) by (apply nth_error_Some; congruence).
      eexists; eexists. split; [rewrite Ht; reflexivity|]. cbn. repeat split; try reflexivity; try lia.
      try solve [right; cbn; split; [reflexivity|]; exists a; auto].
  Qed.

  Lemma reduce_sim (s : dstate) r rest :
    match mreduce (ps_cursors s) (ps_values s) rest r with
    | Next (sts', trs', rest') =>
        exists s3 ev, dreduce s r = inl (s3, ev) /\ ps_cursors s3 = sts' /\ ps_values s3 = trs' /\ rest' = rest /\
                      ps_rec s3 = ps_rec s /\ ps_cons s3 = ps_cons s /\ ps_it s3 = ps_it s /\
                      ps_end s3 = ps_end s /\ ps_term s3 = ps_term s
    | Fail => exists res, dreduce s r = inr res /\ forall v, res <> Accept v
    | _ => False
    end.
  Proof.
    destruct s as [cs vs sp it en tm rc cn cx]. unfold mreduce, do_reduce.
    cbn [ps_cursors ps_values ps_ctx full].
    destruct (nth_error (rule_infos g) r) as [ri|]; [|eexists; split; [reflexivity|discriminate]].
    destruct (Nat.ltb (length cs) (ri_n ri)); [eexists; split; [reflexivity|discriminate]|].
    destruct (skipn (ri_n ri) cs) as [|top rest']; [eexists; split; [reflexivity|discriminate]|].
    destruct (cell tbl top (ri_l ri)) as [e|c]; [|eexists; split; [reflexivity|discriminate]].
    destruct (e_arg e) as [nst|]; [|eexists; split; [reflexivity|discriminate]].
    destruct (Nat.ltb (length vs) (ri_n ri)); [eexists; split; [reflexivity|discriminate]|].
    unfold rlf. eexists; eexists. split; [reflexivity|]. cbn. repeat split; reflexivity.
  Qed.

  Definition not_accept (r : result tree) : Prop := forall v, r <> Accept v.

  Lemma step_sim s : normal s ->
    match mstep (abs s) with
    | Next c' => exists s' ev, dstep s = (inl s', ev) /\ normal s' /\ abs s' = c'
    | Acc v => exists s' ev, dstep s = (inr (Accept v, s'), ev)
    | Fail => (exists r s' ev, dstep s = (inr (r, s'), ev) /\ not_accept r) \/
              (exists s' ev, dstep s = (inl s', ev) /\ ps_rec s' = true /\ ps_cons s' = false)
    | Bad => True
    end.
  Proof.
    intros Hn. destruct (gct_normal s Hn) as (s1 & ev1 & Hg & Hcs & Hvs & Hr & Hc & Hit & Hen & Hle & Hp1).
    unfold mstep, abs, step. destruct (ps_cursors s) as [|cur cs] eqn:Ecs.
    - left. do 3 eexists. split; [reflexivity|]. intros v; discriminate.
    - rewrite Hg. cbv beta iota. set (la := look (skipn (ps_it s) w)).
      unfold act. destruct (cell tbl cur (nterm_count g + la)) as [e|c] eqn:Ecell.
      2:{ left. do 3 eexists. split; [reflexivity|]. intros v; discriminate. }
      rewrite Hc. destruct (e_kind e) eqn:Ek.
      + (* KError *) rewrite Hr. cbn [negb]. right. do 2 eexists. split; [reflexivity|].
        destruct s1; cbn in *. auto.
      + (* KSuccess *) rewrite Hvs. destruct (rev (ps_values s)) as [|v vs'].
        * left. do 3 eexists. split; [reflexivity|]. intros v; discriminate.
        * do 2 eexists. reflexivity.
      + (* KShift *) destruct (e_arg e) as [nst|].
        2:{ left. do 3 eexists. split; [reflexivity|]. intros v; discriminate. }
        cbn [full]. replace (Nat.ltb (length w) (ps_end s1)) with false by (symmetry; apply Nat.ltb_ge; assumption).
        do 2 eexists. split; [reflexivity|].
        destruct s1 as [cs1 vs1 sp1 it1 en1 tm1 rc1 cn1 cx1]. cbn in *. subst.
        split.
        * unfold normal, pos_ok; cbn. repeat split. left. split; [reflexivity|assumption].
        * unfold abs; cbn. unfold tf. rewrite skipn_adv. reflexivity.
      + (* KShiftErr *) exact I.
      + (* KReduce *) destruct (e_arg e) as [r|].
        2:{ left. do 3 eexists. split; [reflexivity|]. intros v; discriminate. }
        pose proof (reduce_sim s1 r (skipn (ps_it s) w)) as Hrs. rewrite Hcs, Hvs in Hrs.
        destruct (mreduce (cur :: cs) (ps_values s) (skipn (ps_it s) w) r) as [[[sts' trs'] rest']| | |].
        * destruct Hrs as (s3 & ev & Hd & H1 & H2 & H3 & H4 & H5 & H6 & H7 & H8). rewrite Hd.
          do 2 eexists. split; [reflexivity|]. split.
          -- unfold normal. rewrite H4, H5. repeat split; try assumption.
             unfold pos_ok in *. rewrite H6, H7, H8. assumption.
          -- unfold abs. rewrite H1, H2, H6, Hit, H3. reflexivity.
        * contradiction.
        * destruct Hrs as (res & Hd & Hna). rewrite Hd. left. do 3 eexists. split; [reflexivity|assumption].
        * contradiction.
      + (* KRR *) exact I.
  Qed.
  (* ---------- recovery mode never accepts when the error column is empty ---------- *)
  Definition err_col_empty : Prop :=
    forall st e, cell tbl st (nterm_count g + err_idx g) = inl e -> e_kind e = KError.

  Lemma rec_step s : err_col_empty -> ps_rec s = true -> ps_cons s = false ->
    (exists r s' ev, dstep s = (inr (r, s'), ev) /\ not_accept r) \/
    (exists s' ev, dstep s = (inl s', ev) /\ ps_rec s' = true /\ ps_cons s' = false).
  Proof.
    intros Herr Hr Hc. destruct s as [cs vs sp it en tm rc cn cx]. cbn in Hr, Hc. subst rc cn.
    unfold step; cbn [ps_cursors]. destruct cs as [|cur cs].
    - left. do 3 eexists. split; [reflexivity|]. intros v; discriminate.
    - unfold get_current_term; cbn [ps_rec]. cbv beta iota. unfold act.
      destruct (cell tbl cur (nterm_count g + err_idx g)) as [e|c] eqn:Ecell.
      2:{ left. do 3 eexists. split; [reflexivity|]. intros v; discriminate. }
      rewrite (Herr _ _ Ecell). cbn [ps_cons ps_rec negb]. unfold pop_stacks. cbn [ps_cursors ps_values tl].
      destruct cs as [|top cs'].
      + left. do 3 eexists. split; [reflexivity|]. intros v; discriminate.
      + right. do 2 eexists. split; [reflexivity|]. cbn. auto.
  Qed.

  Lemma rec_run : err_col_empty -> forall fuel s out, ps_rec s = true -> ps_cons s = false ->
    not_accept (fst (fst (drun fuel s out))).
  Proof.
    intros Herr. induction fuel as [|f IH]; intros s out Hr Hc; cbn [run_from].
    - cbn. intros v; discriminate.
    - destruct (rec_step s Herr Hr Hc) as [(r & s' & ev & Hs & Hna)|(s' & ev & Hs & Hr' & Hc')]; rewrite Hs.
      + cbn. assumption.
      + apply IH; assumption.
  Qed.

  (* ---------- run-level simulation ---------- *)
  Lemma sim_complete n : forall s t, normal s -> mrun n (abs s) = Some t ->
    exists fuel, forall out, fst (fst (drun fuel s out)) = Accept t.
  Proof.
    induction n as [|n IH]; intros s t Hn Hm; cbn [mrun] in Hm; [discriminate|].
    pose proof (step_sim s Hn) as Hs. destruct (mstep (abs s)) as [c'|v| |]; try discriminate.
    - destruct Hs as (s' & ev & Hs & Hn' & Ha). subst c'.
      destruct (IH s' t Hn' Hm) as (fuel & Hf). exists (S fuel). intros out. cbn [run_from]. rewrite Hs. apply Hf.
    - inversion Hm; subst v. destruct Hs as (s' & ev & Hs). exists 1. intros out. cbn [run_from]. rewrite Hs. reflexivity.
  Qed.

  Section Sound.
    Variable Inv : cfg -> Prop.
    Hypothesis Inv_not_bad : forall c, Inv c -> mstep c <> Bad.
    Hypothesis Inv_next : forall c c', Inv c -> mstep c = Next c' -> Inv c'.
    Hypothesis Herr : err_col_empty.

    Lemma sim_sound fuel : forall s out t, normal s -> Inv (abs s) ->
      fst (fst (drun fuel s out)) = Accept t -> exists n, mrun n (abs s) = Some t.
    Proof.
      induction fuel as [|f IH]; intros s out t Hn Hi Hrun; cbn [run_from] in Hrun; [cbn in Hrun; discriminate|].
      pose proof (step_sim s Hn) as Hs. destruct (mstep (abs s)) as [c'|v| |] eqn:Em.
      - destruct Hs as (s' & ev & Hs & Hn' & Ha). subst c'. rewrite Hs in Hrun.
        destruct (IH _ _ _ Hn' (Inv_next _ _ Hi Em) Hrun) as (n & Hm). exists (S n). cbn [mrun]. rewrite Em. assumption.
      - destruct Hs as (s' & ev & Hs). rewrite Hs in Hrun. cbn in Hrun. inversion Hrun; subst v.
        exists 1. cbn [mrun]. rewrite Em. reflexivity.
      - destruct Hs as [(r & s' & ev & Hs & Hna)|(s' & ev & Hs & Hr' & Hc')]; rewrite Hs in Hrun.
        + cbn in Hrun. exfalso. exact (Hna _ Hrun).
        + exfalso. exact (rec_run Herr _ _ _ Hr' Hc' _ Hrun).
      - exfalso. exact (Inv_not_bad _ Hi Em).
    Qed.

    Theorem accepts_mrun t : Inv ([0], [], w) -> accepts g tbl w t -> exists n, mrun n ([0], [], w) = Some t.
    Proof.
      intros Hi [fuel Hf]. rewrite tree_run_eq in Hf. rewrite <- init_abs.
      eapply sim_sound; [apply init_normal|rewrite init_abs; assumption|eassumption].
    Qed.
  End Sound.

  Theorem mrun_accepts n t : mrun n ([0], [], w) = Some t -> accepts g tbl w t.
  Proof.
    intros Hm. rewrite <- init_abs in Hm. destruct (sim_complete n _ _ init_normal Hm) as (fuel & Hf).
    exists fuel. rewrite tree_run_eq. apply Hf.
  Qed.

  Theorem accepts_det t1 t2 : accepts g tbl w t1 -> accepts g tbl w t2 -> t1 = t2.
  Proof.
    intros [f1 H1] [f2 H2]. rewrite tree_run_eq in H1, H2.
    destruct (drun f1 (init tt) []) as [[r1 s1] o1] eqn:E1.
    destruct (drun f2 (init tt) []) as [[r2 s2] o2] eqn:E2. cbn in H1, H2. subst r1 r2.
    assert (Accept t1 = Accept t2) as H.
    { eapply run_from_det; [exact E1|exact E2|discriminate|discriminate]. }
    inversion H; reflexivity.
  Qed.
End Machine.
