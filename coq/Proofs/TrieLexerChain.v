(* The automaton the builder appends for a character term or a string term is a chain
   N -c1-> N+1 -c2-> N+3 -c3-> N+5 ... (the even states N+2, N+4, ... are unreachable leftovers of b_cat);
   the chain stops at the first byte that is not < 256. *)
Require Import Ctpg.Base.Prelude Ctpg.Model.Driver Ctpg.Model.Dfa Ctpg.Proofs.BuilderSize Ctpg.Proofs.BuilderTerm
               Ctpg.Proofs.TrieLexerBase.

(* ---------- plain terms ---------- *)
Definition is_plain (t : term_data) : Prop := match t with TRegex _ => False | _ => True end.

(* the byte string a plain term stands for; string_term("") is the one-byte string "\0" (as in regex_of_term) *)
Definition word_of (t : term_data) : list nat :=
  match t with
  | TChar c => [c]
  | TString [] => [0]
  | TString s => s
  | TRegex _ => []
  end.

Definition regex_of_word (c : nat) (w : list nat) : regex :=
  fold_left (fun acc x => RCat acc (RSet (cs_single x))) w (RSet (cs_single c)).

Lemma regex_of_plain : forall t, is_plain t ->
  exists c w, word_of t = c :: w /\ regex_of_term t = regex_of_word c w.
Proof.
  intros [c|[|c s]|r] H; cbn in H; try contradiction.
  - exists c, []. split; reflexivity.
  - exists 0, []. split; reflexivity.
  - exists c, s. split; reflexivity.
Qed.

Lemma regex_of_word_snoc : forall c w x,
  regex_of_word c (w ++ [x]) = RCat (regex_of_word c w) (RSet (cs_single x)).
Proof. intros. unfold regex_of_word. rewrite fold_left_app. reflexivity. Qed.

Lemma cs_single_length : forall c, length (cs_single c) = 256.
Proof. intros. unfold cs_single, cs_empty. rewrite update_length, repeat_length. reflexivity. Qed.

Lemma nth_repeat_false : forall c n, nth c (repeat false n) false = false.
Proof. intros c n. revert c. induction n; destruct c; cbn; auto. Qed.

Lemma cs_single_nth : forall c x, nth c (cs_single x) false = Nat.eqb c x && Nat.ltb c 256.
Proof.
  intros. unfold cs_single, cs_empty. rewrite nth_update, repeat_length, nth_repeat_false.
  destruct (Nat.eqb c x) eqn:E; cbn [andb].
  - apply Nat.eqb_eq in E. subst. destruct (Nat.ltb x 256); reflexivity.
  - reflexivity.
Qed.

Lemma sets_ok_word : forall w c, sets_ok p256 (regex_of_word c w).
Proof.
  induction w as [|x w IH] using rev_ind; intros c.
  - cbn. apply cs_single_length.
  - rewrite regex_of_word_snoc. cbn [sets_ok]. split; [apply IH | apply cs_single_length].
Qed.

Lemma sets_ok_plain : forall t, is_plain t -> sets_ok p256 (regex_of_term t).
Proof. intros t H. destruct (regex_of_plain t H) as (c & w & _ & E). rewrite E. apply sets_ok_word. Qed.

(* ---------- get / upd helpers ---------- *)
Lemma upd_field : forall (A : Type) (g : dstate -> A) s i f q,
  (forall d, g (f d) = g d) -> g (get (upd s i f) q) = g (get s q).
Proof.
  intros A g s i f q H. rewrite get_upd.
  destruct (Nat.eqb q i && Nat.ltb i (length s)) eqn:E; auto.
  apply andb_true_iff in E. destruct E as [E _]. apply Nat.eqb_eq in E. subst. apply H.
Qed.

Lemma get_app1 : forall a b q, q < length a -> get (a ++ b) q = get a q.
Proof. intros. unfold get. apply app_nth1. assumption. Qed.

Lemma get_app2 : forall a b q, length a <= q -> get (a ++ b) q = nth (q - length a) b dstate0.
Proof. intros. unfold get. apply app_nth2. lia. Qed.

(* the attachment step of merge *)
Definition attach (s : dfa) (to c nx : nat) : dfa :=
  upd (upd s to (fun d => set_trans d (update (d_trans d) c (Some nx)))) nx (fun d => set_unreach d false).

Lemma attach_length : forall s to c nx, length (attach s to c nx) = length s.
Proof. intros. unfold attach. rewrite !upd_length. reflexivity. Qed.

Lemma attach_rec : forall s to c nx q, d_rec (get (attach s to c nx) q) = d_rec (get s q).
Proof. intros. unfold attach. rewrite !(upd_field _ d_rec) by reflexivity. reflexivity. Qed.
Lemma attach_end : forall s to c nx q, d_end (get (attach s to c nx) q) = d_end (get s q).
Proof. intros. unfold attach. rewrite !(upd_field _ d_end) by reflexivity. reflexivity. Qed.
Lemma attach_merged : forall s to c nx q, d_merged (get (attach s to c nx) q) = d_merged (get s q).
Proof. intros. unfold attach. rewrite !(upd_field _ d_merged) by reflexivity. reflexivity. Qed.
Lemma attach_trans_len : forall s to c nx q, length (d_trans (get (attach s to c nx) q)) = length (d_trans (get s q)).
Proof.
  intros. unfold attach. rewrite (upd_field _ d_trans) by reflexivity. rewrite get_upd.
  destruct (Nat.eqb q to && Nat.ltb to (length s)) eqn:E; auto.
  apply andb_true_iff in E. destruct E as [E _]. apply Nat.eqb_eq in E. subst.
  cbn [set_trans d_trans]. apply update_length.
Qed.

Lemma attach_tr : forall s to c nx q i,
  to < length s -> c < length (d_trans (get s to)) ->
  tr (attach s to c nx) q i = if Nat.eqb q to && Nat.eqb i c then Some nx else tr s q i.
Proof.
  intros s to c nx q i Hto Hc. unfold tr, attach. rewrite (upd_field _ d_trans) by reflexivity.
  rewrite get_upd. apply Nat.ltb_lt in Hto. rewrite Hto, andb_true_r.
  destruct (Nat.eqb q to) eqn:E; cbn [andb]; auto.
  apply Nat.eqb_eq in E. subst. cbn [set_trans d_trans]. rewrite nth_update.
  apply Nat.ltb_lt in Hc. rewrite Hc, andb_true_r. destruct (Nat.eqb i c); reflexivity.
Qed.

Lemma mstep_fn_attach : forall f to from keep mark s c nx,
  tr s from c = Some nx -> tr s to c = None ->
  mstep_fn f to from keep mark (Some s) c = Some (attach s to c nx).
Proof. intros. unfold mstep_fn. fold (tr s from c). fold (tr s to c). rewrite H, H0. reflexivity. Qed.

Lemma mstep_fn_descend : forall f to from keep mark s c nx trt,
  tr s from c = Some nx -> tr s to c = Some trt ->
  mstep_fn f to from keep mark (Some s) c = merge f s trt nx keep mark.
Proof. intros. unfold mstep_fn. fold (tr s from c). fold (tr s to c). rewrite H, H0. reflexivity. Qed.

Lemma mstep_fn_none : forall f to from keep mark s c,
  tr s from c = None -> mstep_fn f to from keep mark (Some s) c = Some s.
Proof. intros. unfold mstep_fn. fold (tr s from c). rewrite H. reflexivity. Qed.

(* folds of updates at distinct indices *)
Lemma fold_upd_notin : forall (f : dstate -> dstate) l s q,
  ~ In q l -> get (fold_left (fun acc i => upd acc i f) l s) q = get s q.
Proof.
  intros f. induction l as [|i l IH]; intros s q H; cbn [fold_left]; auto.
  rewrite IH by (intros C; apply H; right; assumption).
  rewrite get_upd. destruct (Nat.eqb q i) eqn:E; cbn [andb]; auto.
  apply Nat.eqb_eq in E. subst. exfalso. apply H. left. reflexivity.
Qed.

Lemma fold_upd_in : forall (f : dstate -> dstate) l s q,
  NoDup l -> In q l -> q < length s -> get (fold_left (fun acc i => upd acc i f) l s) q = f (get s q).
Proof.
  intros f. induction l as [|i l IH]; intros s q Hnd Hin Hq; cbn [fold_left]; [contradiction|].
  inversion Hnd as [|i' l' Hni Hnd']; subst. destruct Hin as [->|Hin].
  - rewrite fold_upd_notin by assumption. rewrite get_upd, Nat.eqb_refl.
    apply Nat.ltb_lt in Hq. rewrite Hq. reflexivity.
  - rewrite IH; auto; [|rewrite upd_length; assumption].
    rewrite get_upd. destruct (Nat.eqb q i) eqn:E; cbn [andb]; auto.
    apply Nat.eqb_eq in E. subst. contradiction.
Qed.

Lemma mark_end_states_get : forall sm s t q,
  get (mark_end_states sm s t) q =
  if Nat.leb (sl_start s) q && Nat.ltb q (sl_start s + sl_n s) && Nat.ltb q (length sm)
  then mark_end_state (get sm q) t else get sm q.
Proof.
  intros sm s t q. unfold mark_end_states, slice_idxs.
  destruct (Nat.leb (sl_start s) q && Nat.ltb q (sl_start s + sl_n s)) eqn:E; cbn [andb].
  - apply andb_true_iff in E. destruct E as [E1 E2]. apply Nat.leb_le in E1. apply Nat.ltb_lt in E2.
    destruct (Nat.ltb q (length sm)) eqn:E3.
    + apply Nat.ltb_lt in E3.
      apply (fold_upd_in (fun d => mark_end_state d t)); auto; [apply seq_NoDup | apply in_seq; lia].
    + apply Nat.ltb_ge in E3.
      assert (L : length (fold_left (fun acc i => upd acc i (fun d => mark_end_state d t))
                                    (seq (sl_start s) (sl_n s)) sm) = length sm).
      { apply (mark_end_states_length sm s t). }
      rewrite !get_overflow by lia. reflexivity.
  - apply (fold_upd_notin (fun d => mark_end_state d t)). intros C. apply in_seq in C.
    apply andb_false_iff in E. destruct E as [E|E]; [apply Nat.leb_gt in E | apply Nat.ltb_ge in E]; lia.
Qed.

(* ---------- the chain ---------- *)
Definition cst (N i : nat) : nat := match i with 0 => N | S j => N + 2 * j + 1 end.

Definition chain_built (sm sm' : dfa) (W : list nat) : Prop :=
  let N := length sm in
  let n := length W in
  length sm' = N + 2 * n /\
  (forall q, q < N -> get sm' q = get sm q) /\
  (forall q, N <= q -> d_rec (get sm' q) = []) /\
  (forall q, N <= q -> q < N + 2 * n -> d_end (get sm' q) = Nat.eqb q (N + 2 * n - 1)) /\
  (forall q m, N <= q -> In m (d_merged (get sm' q)) -> m < N + 2 * n) /\
  (forall q, N <= q -> length (d_trans (get sm' q)) = 256) /\
  (forall i c, i < n -> tr sm' (cst N i) c =
                        if Nat.eqb c (nth i W 0) && Nat.ltb c 256 then Some (cst N (S i)) else None) /\
  (forall c, tr sm' (cst N n) c = None).

Lemma dstate0_trans_len : length (d_trans dstate0) = 256.
Proof. cbn [dstate0 d_trans]. apply repeat_length. Qed.

Lemma tr_dstate0 : forall c, nth c (d_trans dstate0) None = None.
Proof. intros. cbn [dstate0 d_trans]. apply nth_repeat_None. Qed.

(* the two states of primary_subset *)
Definition ps0 (old : nat) (x : nat) : dstate :=
  set_trans (set_start dstate0 true) (map (fun b : bool => if b then Some (S old) else None) (cs_single x)).
Definition ps1 : dstate := set_end dstate0 true.

Lemma ps0_tr : forall old x c,
  nth c (d_trans (ps0 old x)) None = if Nat.eqb c x && Nat.ltb c 256 then Some (S old) else None.
Proof.
  intros. unfold ps0. cbn [set_trans d_trans].
  pose proof (map_nth (fun b : bool => if b then Some (S old) else None) (cs_single x) false c) as E.
  cbn beta iota in E. rewrite E, cs_single_nth. reflexivity.
Qed.

Lemma get_new_states : forall (sm : dfa) a b q, length sm <= q ->
  get (sm ++ [a; b]) q = if Nat.eqb q (length sm) then a else if Nat.eqb q (S (length sm)) then b else dstate0.
Proof.
  intros sm a b q H. rewrite get_app2 by assumption.
  destruct (Nat.eqb q (length sm)) eqn:E1.
  - apply Nat.eqb_eq in E1. subst. rewrite Nat.sub_diag. reflexivity.
  - apply Nat.eqb_neq in E1. destruct (Nat.eqb q (S (length sm))) eqn:E2.
    + apply Nat.eqb_eq in E2. subst. replace (S (length sm) - length sm) with 1 by lia. reflexivity.
    + apply Nat.eqb_neq in E2. destruct (q - length sm) as [|[|k]] eqn:E3; try lia.
      cbn. destruct k; reflexivity.
Qed.

Lemma chain_built_one : forall sm x, chain_built sm (sm ++ [ps0 (length sm) x; ps1]) [x].
Proof.
  intros sm x. unfold chain_built. cbn [length]. set (N := length sm).
  assert (G : forall q, N <= q -> get (sm ++ [ps0 N x; ps1]) q =
                 if Nat.eqb q N then ps0 N x else if Nat.eqb q (S N) then ps1 else dstate0).
  { intros. apply get_new_states. assumption. }
  split; [rewrite app_length; cbn; lia|].
  split; [intros q Hq; apply get_app1; assumption|].
  split. { intros q Hq. rewrite G by assumption. destruct (Nat.eqb q N); [reflexivity|].
           destruct (Nat.eqb q (S N)); reflexivity. }
  split. { intros q Hq Hq2. rewrite G by assumption.
           destruct (Nat.eqb q N) eqn:E1.
           - apply Nat.eqb_eq in E1. subst q. change (d_end (ps0 N x)) with false.
             symmetry. apply Nat.eqb_neq. lia.
           - apply Nat.eqb_neq in E1. assert (q = S N) by lia. subst q. rewrite Nat.eqb_refl.
             change (d_end ps1) with true. symmetry. apply Nat.eqb_eq. lia. }
  split. { intros q m Hq. rewrite G by assumption. destruct (Nat.eqb q N); [cbn; contradiction|].
           destruct (Nat.eqb q (S N)); cbn; contradiction. }
  split. { intros q Hq. rewrite G by assumption. destruct (Nat.eqb q N).
           - unfold ps0. cbn [set_trans d_trans]. rewrite map_length. apply cs_single_length.
           - destruct (Nat.eqb q (S N)); apply dstate0_trans_len. }
  split.
  - intros i c Hi. assert (i = 0) by lia. subst i. cbn [cst nth]. unfold tr.
    rewrite G by lia. rewrite Nat.eqb_refl. rewrite ps0_tr.
    replace (N + 2 * 0 + 1) with (S N) by lia. reflexivity.
  - intros c. cbn [cst]. unfold tr. rewrite G by lia.
    replace (N + 2 * 0 + 1) with (S N) by lia. rewrite Nat.eqb_refl.
    destruct (Nat.eqb (S N) N) eqn:E; [apply Nat.eqb_eq in E; lia|]. apply tr_dstate0.
Qed.

(* ---------- one more character: b_cat of the chain with a fresh two-state automaton ---------- *)
Lemma merge_ends_skip : forall l sm rest b k m,
  (forall i, In i l -> d_end (get sm i) = false) ->
  merge_ends sm (l ++ rest) b k m = merge_ends sm rest b k m.
Proof.
  induction l as [|i l IH]; intros sm rest b k m H; cbn [app merge_ends]; auto.
  rewrite (H i) by (left; reflexivity). apply IH. intros j Hj. apply H. right. assumption.
Qed.

Lemma attach_get_other : forall s to c nx q, q <> to -> q <> nx -> get (attach s to c nx) q = get s q.
Proof.
  intros s to c nx q H1 H2. unfold attach. rewrite !get_upd.
  apply Nat.eqb_neq in H1. apply Nat.eqb_neq in H2. rewrite H1, H2. reflexivity.
Qed.

Lemma cst_last : forall N n, 1 <= n -> cst N n = N + 2 * n - 1.
Proof. intros N [|j] H; [lia|]. cbn [cst]. lia. Qed.

Lemma chain_built_snoc : forall sm sm1 W x sm',
  W <> [] -> chain_built sm sm1 W ->
  merge_ends (sm1 ++ [ps0 (length sm1) x; ps1]) (seq (length sm) (2 * length W)) (length sm1) false true = Some sm' ->
  chain_built sm sm' (W ++ [x]).
Proof.
  intros sm sm1 W x sm' HW CB HM.
  destruct CB as (B1 & B2 & B3 & B4 & B5 & B6 & B7 & B8). cbv zeta in *.
  set (N := length sm) in *. set (n0 := length W) in *.
  assert (Hn0 : 1 <= n0) by (unfold n0; destruct W; [congruence | cbn; lia]).
  set (sm2 := sm1 ++ [ps0 (length sm1) x; ps1]) in *.
  assert (L2 : length sm2 = N + 2 * n0 + 2) by (unfold sm2; rewrite app_length, B1; cbn; lia).
  assert (G1 : forall q, q < N + 2 * n0 -> get sm2 q = get sm1 q).
  { intros q Hq. unfold sm2. apply get_app1. lia. }
  assert (G2 : forall q, N + 2 * n0 <= q -> get sm2 q =
                 if Nat.eqb q (N + 2 * n0) then ps0 (N + 2 * n0) x
                 else if Nat.eqb q (S (N + 2 * n0)) then ps1 else dstate0).
  { intros q Hq. unfold sm2. rewrite get_new_states by lia. rewrite B1. reflexivity. }
  assert (GF : get sm2 (N + 2 * n0) = ps0 (N + 2 * n0) x) by (rewrite G2 by lia; rewrite Nat.eqb_refl; reflexivity).
  assert (GG : get sm2 (S (N + 2 * n0)) = ps1).
  { rewrite G2 by lia. rewrite Nat.eqb_refl.
    destruct (Nat.eqb (S (N + 2 * n0)) (N + 2 * n0)) eqn:E; [apply Nat.eqb_eq in E; lia | reflexivity]. }
  assert (HE : cst N n0 = N + 2 * n0 - 1) by (apply cst_last; assumption).
  (* the loop of b_cat merges only at the last state of the chain *)
  replace (2 * n0) with ((2 * n0 - 1) + 1) in HM by lia.
  rewrite seq_app in HM. rewrite merge_ends_skip in HM.
  2:{ intros i Hi. apply in_seq in Hi. rewrite G1 by lia. rewrite B4 by lia. apply Nat.eqb_neq. lia. }
  replace (N + (2 * n0 - 1)) with (N + 2 * n0 - 1) in HM by lia.
  cbn [seq merge_ends] in HM.
  assert (EE : d_end (get sm2 (N + 2 * n0 - 1)) = true).
  { rewrite G1 by lia. rewrite B4 by lia. apply Nat.eqb_refl. }
  rewrite EE in HM. rewrite B1 in HM.
  destruct (merge (merge_fuel sm2) sm2 (N + 2 * n0 - 1) (N + 2 * n0) false true) as [sm''|] eqn:EM; [|discriminate].
  inversion HM; subst sm''. clear HM.
  unfold merge_fuel in EM. rewrite merge_S in EM.
  assert (Hne : N + 2 * n0 - 1 <> N + 2 * n0) by lia.
  apply Nat.eqb_neq in Hne. rewrite Hne in EM. apply Nat.eqb_neq in Hne.
  assert (Hmem : mem_nat (N + 2 * n0) (d_merged (get sm2 (N + 2 * n0 - 1))) = false).
  { destruct (mem_nat _ _) eqn:E; auto. apply mem_nat_In in E. rewrite G1 in E by lia. apply B5 in E; lia. }
  rewrite Hmem in EM.
  set (E := N + 2 * n0 - 1) in *. set (F := N + 2 * n0) in *.
  assert (HEd : E = N + 2 * n0 - 1) by reflexivity. assert (HFd : F = N + 2 * n0) by reflexivity.
  clearbody E F.
  assert (LE : E < length sm2) by lia.
  assert (LF : F < length sm2) by lia.
  set (s0 := pre_merge sm2 E F false true) in *.
  assert (T0 : forall q i, tr s0 q i = tr sm2 q i) by (intros; apply pre_merge_tr; assumption).
  assert (TF : forall i, tr sm2 F i = if Nat.eqb i x && Nat.ltb i 256 then Some (S F) else None).
  { intros i. unfold tr. rewrite GF. apply ps0_tr. }
  assert (TE : forall i, tr sm2 E i = None).
  { intros i. unfold tr. rewrite G1 by lia. fold (tr sm1 E i). rewrite <- HE. apply B8. }
  assert (R0 : forall q, d_rec (get s0 q) = d_rec (get sm2 q)) by (intros; apply pre_merge_rec; assumption).
  assert (RF : d_rec (get sm2 F) = []) by (rewrite GF; reflexivity).
  (* summary of the result *)
  assert (Sum : length sm' = length sm2 /\
                (forall q, q <> E -> q <> F -> q <> S F -> get sm' q = get sm2 q) /\
                (forall q, d_rec (get sm' q) = d_rec (get sm2 q)) /\
                (forall q, d_end (get sm' q) = if Nat.eqb q E then false else d_end (get sm2 q)) /\
                (forall q, d_merged (get sm' q) = if Nat.eqb q E then F :: d_merged (get sm2 E) else d_merged (get sm2 q)) /\
                (forall q, length (d_trans (get sm' q)) = length (d_trans (get sm2 q))) /\
                (forall q i, tr sm' q i = if Nat.ltb x 256 && Nat.eqb q E && Nat.eqb i x then Some (S F) else tr sm2 q i)).
  { assert (E0 : forall q, d_end (get s0 q) = if Nat.eqb q E then false else d_end (get sm2 q)).
    { intros q. unfold s0. rewrite pre_merge_end by assumption. rewrite GF. reflexivity. }
    assert (M0 : forall q, d_merged (get s0 q) = if Nat.eqb q E then F :: d_merged (get sm2 E) else d_merged (get sm2 q)).
    { intros q. unfold s0. apply pre_merge_merged; assumption. }
    assert (O0 : forall q, q <> E -> q <> F -> get s0 q = get sm2 q).
    { intros q H1 H2. unfold s0. rewrite get_pre_merge by assumption.
      apply Nat.eqb_neq in H1. apply Nat.eqb_neq in H2. rewrite H1, H2. reflexivity. }
    assert (L0 : forall q, length (d_trans (get s0 q)) = length (d_trans (get sm2 q))).
    { intros q. unfold s0. rewrite pre_merge_trans by assumption. reflexivity. }
    destruct (Nat.ltb x 256) eqn:Ex.
    - apply Nat.ltb_lt in Ex.
      rewrite (mstep_fold_single _ _ _ _ _ x) in EM; auto.
      + rewrite (mstep_fn_attach _ _ _ _ _ _ _ (S F)) in EM.
        * unfold post_merge in EM. rewrite attach_rec, R0, RF in EM. cbn [fold_left] in EM.
          inversion EM; subst sm'. clear EM.
          split; [rewrite attach_length; unfold s0; apply pre_merge_length|].
          split; [intros q H1 H2 H3; rewrite attach_get_other by assumption; apply O0; assumption|].
          split; [intros q; rewrite attach_rec; apply R0|].
          split; [intros q; rewrite attach_end; apply E0|].
          split; [intros q; rewrite attach_merged; apply M0|].
          split; [intros q; rewrite attach_trans_len; apply L0|].
          intros q i. rewrite attach_tr.
          -- cbn [andb]. rewrite T0. reflexivity.
          -- unfold s0. rewrite pre_merge_length. assumption.
          -- rewrite L0. rewrite G1 by lia. rewrite B6 by lia. assumption.
        * rewrite T0, TF, Nat.eqb_refl. apply Nat.ltb_lt in Ex. rewrite Ex. reflexivity.
        * rewrite T0. apply TE.
      + intros i Hi. rewrite T0, TF. apply Nat.eqb_neq in Hi. rewrite Hi. reflexivity.
      + intros s Hs i Hi. rewrite (mstep_fn_attach _ _ _ _ _ _ _ (S F)) in Hs.
        * inversion Hs; subst s. rewrite attach_tr.
          -- apply Nat.eqb_neq in Hi. rewrite Hi, andb_false_r. rewrite T0, TF, Hi. reflexivity.
          -- unfold s0. rewrite pre_merge_length. assumption.
          -- rewrite L0. rewrite G1 by lia. rewrite B6 by lia. assumption.
        * rewrite T0, TF, Nat.eqb_refl. apply Nat.ltb_lt in Ex. rewrite Ex. reflexivity.
        * rewrite T0. apply TE.
    - apply Nat.ltb_ge in Ex.
      assert (TF0 : forall i, tr s0 F i = None).
      { intros i. rewrite T0, TF. destruct (Nat.eqb i x) eqn:Ei; cbn [andb]; auto.
        apply Nat.eqb_eq in Ei. subst i. destruct (Nat.ltb x 256) eqn:El; auto. apply Nat.ltb_lt in El. lia. }
      rewrite (mstep_fold_single _ _ _ _ _ 0) in EM; try lia.
      + rewrite mstep_fn_none in EM by apply TF0.
        unfold post_merge in EM. rewrite R0, RF in EM. cbn [fold_left] in EM.
        inversion EM; subst sm'. clear EM.
        split; [unfold s0; apply pre_merge_length|].
        split; [intros q H1 H2 H3; apply O0; assumption|].
        split; [exact R0|]. split; [exact E0|]. split; [exact M0|]. split; [exact L0|].
        intros q i. cbn [andb]. apply T0.
      + intros i _. apply TF0.
      + intros s Hs i _. rewrite mstep_fn_none in Hs by apply TF0. inversion Hs; subst s. apply TF0. }
  destruct Sum as (S1 & S2 & S3 & S4 & S5 & S6 & S7).
  unfold chain_built. cbv zeta. fold N. rewrite app_length. cbn [length]. fold n0.
  split; [lia|].
  split. { intros q Hq. rewrite S2 by lia. rewrite G1 by lia. apply B2. assumption. }
  split. { intros q Hq. rewrite S3. destruct (Nat.lt_ge_cases q (F)).
           - rewrite G1 by assumption. apply B3. assumption.
           - rewrite G2 by assumption. destruct (Nat.eqb q (F)); [reflexivity|].
             destruct (Nat.eqb q (S (F))); reflexivity. }
  split. { intros q Hq Hq2. rewrite S4. destruct (Nat.eqb q E) eqn:E1.
           - apply Nat.eqb_eq in E1. symmetry. apply Nat.eqb_neq. lia.
           - apply Nat.eqb_neq in E1. destruct (Nat.lt_ge_cases q (F)).
             + rewrite G1 by assumption. rewrite B4 by assumption.
               apply Nat.eqb_neq in E1. rewrite E1. symmetry. apply Nat.eqb_neq. lia.
             + rewrite G2 by assumption. destruct (Nat.eqb q (F)) eqn:E2.
               * apply Nat.eqb_eq in E2. change (d_end (ps0 (F) x)) with false.
                 symmetry. apply Nat.eqb_neq. lia.
               * apply Nat.eqb_neq in E2. assert (q = S (F)) by lia. subst q.
                 rewrite Nat.eqb_refl. change (d_end ps1) with true. symmetry. apply Nat.eqb_eq. lia. }
  split. { intros q m Hq Hm. rewrite S5 in Hm. destruct (Nat.eqb q E) eqn:E1.
           - destruct Hm as [Hm|Hm]; [lia|].
             rewrite G1 in Hm by lia. apply B5 in Hm; [lia | lia].
           - destruct (Nat.lt_ge_cases q (F)).
             + rewrite G1 in Hm by assumption. apply B5 in Hm; [lia | assumption].
             + rewrite G2 in Hm by assumption. destruct (Nat.eqb q (F)); [cbn in Hm; contradiction|].
               destruct (Nat.eqb q (S (F))); cbn in Hm; contradiction. }
  split. { intros q Hq. rewrite S6. destruct (Nat.lt_ge_cases q (F)).
           - rewrite G1 by assumption. apply B6. assumption.
           - rewrite G2 by assumption. destruct (Nat.eqb q (F)).
             + unfold ps0. cbn [set_trans d_trans]. rewrite map_length. apply cs_single_length.
             + destruct (Nat.eqb q (S (F))); apply dstate0_trans_len. }
  split.
  - intros i c Hi. rewrite S7. destruct (Nat.lt_ge_cases i n0) as [Hlt|Hge].
    + assert (Hci : cst N i <> E /\ cst N i < F).
      { destruct i as [|j]; cbn [cst]; lia. }
      destruct Hci as [Hc1 Hc2]. apply Nat.eqb_neq in Hc1. rewrite Hc1, andb_false_r. cbn [andb].
      unfold tr. rewrite G1 by assumption. fold (tr sm1 (cst N i) c). rewrite B7 by assumption.
      rewrite app_nth1 by (fold n0; assumption). reflexivity.
    + assert (i = n0) by lia. subst i. rewrite HE. rewrite Nat.eqb_refl, andb_true_r.
      rewrite app_nth2 by (fold n0; lia). fold n0. rewrite Nat.sub_diag. cbn [nth].
      rewrite TE.
      destruct (Nat.eqb c x) eqn:Ec; [|rewrite andb_false_r; reflexivity].
      apply Nat.eqb_eq in Ec. subst c. rewrite andb_true_r. cbn [andb cst].
      destruct (Nat.ltb x 256); [|reflexivity]. f_equal. lia.
  - intros c. rewrite S7.
    assert (Hq : cst N (n0 + 1) = S F) by (rewrite Nat.add_1_r; cbn [cst]; lia). rewrite Hq.
    assert (Hn : Nat.eqb (S F) E = false) by (apply Nat.eqb_neq; lia).
    rewrite Hn, andb_false_r. cbn [andb]. unfold tr. rewrite GG. apply tr_dstate0.
Qed.

(* ---------- the automaton built for a plain term ---------- *)
Lemma build_word : forall w c0 sm sm' s,
  build (regex_of_word c0 w) sm = Some (sm', s) ->
  s = mkSl (length sm) (2 * S (length w)) /\ chain_built sm sm' (c0 :: w).
Proof.
  induction w as [|x w IH] using rev_ind; intros c0 sm sm' s H.
  - cbn [regex_of_word fold_left build] in H. unfold primary_subset in H. inversion H; subst.
    split; [reflexivity|]. apply chain_built_one.
  - rewrite regex_of_word_snoc in H. cbn [build] in H.
    destruct (build (regex_of_word c0 w) sm) as [[sm1 s1]|] eqn:E1; [|discriminate].
    apply IH in E1. destruct E1 as [-> CB].
    unfold primary_subset in H. unfold b_cat in H. cbn [sl_start sl_n slice_idxs] in H.
    destruct (merge_ends _ _ _ _ _) as [sm2|] eqn:E2; [|discriminate].
    cbn [option_map] in H. inversion H; subst. clear H.
    split.
    + rewrite app_length. cbn [length]. f_equal. lia.
    + change (c0 :: w ++ [x]) with ((c0 :: w) ++ [x]).
      eapply chain_built_snoc; [discriminate | exact CB |]. exact E2.
Qed.

(* ---------- the chain as seen from its first state ---------- *)
(* [chain sm N from u r]: from [from] the automaton spells exactly the word u, one state per prefix, all of
   them >= N and increasing, no other transitions; the last state carries the slots r *)
Fixpoint chain (sm : dfa) (N from : nat) (u r : list nat) : Prop :=
  N <= from /\ from < length sm /\
  match u with
  | [] => (forall i, tr sm from i = None) /\ d_rec (get sm from) = r /\ (d_end (get sm from) = true \/ r = [])
  | c :: u' => c < 256 /\ d_rec (get sm from) = [] /\ d_end (get sm from) = false /\
               exists nx, from < nx /\ tr sm from c = Some nx /\ (forall i, i <> c -> tr sm from i = None) /\
                          chain sm N nx u' r
  end.

(* the part of a word before its first byte that is not < 256, and the slots of the state reached by it *)
Fixpoint vpre (w : list nat) : list nat :=
  match w with [] => [] | c :: t => if Nat.ltb c 256 then c :: vpre t else [] end.
Definition all_ok (w : list nat) : bool := forallb (fun c => Nat.ltb c 256) w.
Definition chain_rec (w : list nat) (idx : nat) : list nat := if all_ok w then [idx] else [].

Lemma all_ok_vpre : forall w, all_ok w = true -> vpre w = w.
Proof.
  induction w as [|c w IH]; cbn [vpre all_ok forallb]; auto. intros H. apply andb_true_iff in H. destruct H as [H1 H2].
  rewrite H1. f_equal. auto.
Qed.

Lemma all_ok_Forall : forall w, all_ok w = true <-> Forall (fun c => c < 256) w.
Proof.
  intros w. unfold all_ok. rewrite forallb_forall, Forall_forall. split; intros H c Hc.
  - apply Nat.ltb_lt. auto.
  - apply Nat.ltb_lt. auto.
Qed.

Lemma vpre_ok : forall w, Forall (fun c => c < 256) (vpre w).
Proof.
  induction w as [|c w IH]; cbn [vpre]; auto. destruct (Nat.ltb c 256) eqn:E; auto.
  constructor; auto. apply Nat.ltb_lt. assumption.
Qed.

Lemma vpre_not_ok : forall w, all_ok w = false -> vpre w <> w.
Proof.
  intros w H E. pose proof (vpre_ok w) as V. rewrite E in V. apply all_ok_Forall in V. congruence.
Qed.

Lemma mark_end_state_trans : forall d t, d_trans (mark_end_state d t) = d_trans d.
Proof. intros. unfold mark_end_state. destruct (d_end d); reflexivity. Qed.
Lemma mark_end_state_end : forall d t, d_end (mark_end_state d t) = d_end d.
Proof. intros. unfold mark_end_state. destruct (d_end d) eqn:E; auto. Qed.
Lemma mark_end_state_merged : forall d t, d_merged (mark_end_state d t) = d_merged d.
Proof. intros. unfold mark_end_state. destruct (d_end d); reflexivity. Qed.

Lemma mark_end_states_tr : forall sm s t q c, tr (mark_end_states sm s t) q c = tr sm q c.
Proof.
  intros. unfold tr. rewrite mark_end_states_get.
  destruct (_ && _); [rewrite mark_end_state_trans|]; reflexivity.
Qed.
Lemma mark_end_states_end : forall sm s t q, d_end (get (mark_end_states sm s t) q) = d_end (get sm q).
Proof. intros. rewrite mark_end_states_get. destruct (_ && _); [rewrite mark_end_state_end|]; reflexivity. Qed.
Lemma mark_end_states_merged : forall sm s t q, d_merged (get (mark_end_states sm s t) q) = d_merged (get sm q).
Proof. intros. rewrite mark_end_states_get. destruct (_ && _); [rewrite mark_end_state_merged|]; reflexivity. Qed.

(* the automaton handed to the final merge of add_term *)
Definition marked_chain (sm sm1 : dfa) (W : list nat) (idx : nat) : dfa :=
  mark_end_states sm1 (mkSl (length sm) (2 * length W)) idx.

Lemma chain_of_built : forall sm sm1 W idx,
  W <> [] -> chain_built sm sm1 W ->
  let sm2 := marked_chain sm sm1 W idx in
  length sm2 = length sm + 2 * length W /\
  (forall q, q < length sm -> get sm2 q = get sm q) /\
  (forall q m, length sm <= q -> In m (d_merged (get sm2 q)) -> m < length sm2) /\
  chain sm2 (length sm) (length sm) (vpre W) (chain_rec W idx).
Proof.
  intros sm sm1 W idx HW CB sm2.
  destruct CB as (B1 & B2 & B3 & B4 & B5 & B6 & B7 & B8). cbv zeta in *.
  set (N := length sm) in *. set (n := length W) in *.
  assert (Hn : 1 <= n) by (unfold n; destruct W; [congruence | cbn; lia]).
  assert (L2 : length sm2 = N + 2 * n).
  { unfold sm2, marked_chain. rewrite mark_end_states_length. exact B1. }
  assert (T2 : forall q c, tr sm2 q c = tr sm1 q c) by (intros; apply mark_end_states_tr).
  assert (E2 : forall q, d_end (get sm2 q) = d_end (get sm1 q)) by (intros; apply mark_end_states_end).
  assert (R2 : forall q, N <= q -> q < N + 2 * n ->
                 d_rec (get sm2 q) = if Nat.eqb q (N + 2 * n - 1) then [idx] else []).
  { intros q H1 H2. unfold sm2, marked_chain. rewrite mark_end_states_get. cbn [sl_start sl_n]. fold N n.
    assert (X : Nat.leb N q && Nat.ltb q (N + 2 * n) && Nat.ltb q (length sm1) = true).
    { rewrite B1. apply Nat.leb_le in H1. apply Nat.ltb_lt in H2. rewrite H1, H2. reflexivity. }
    rewrite X. unfold mark_end_state. rewrite B4 by assumption.
    destruct (Nat.eqb q (N + 2 * n - 1)); [|apply B3; assumption].
    cbn [set_rec d_rec]. rewrite B3 by assumption. reflexivity. }
  split; [exact L2|].
  split. { intros q Hq. unfold sm2, marked_chain. rewrite mark_end_states_get. cbn [sl_start sl_n]. fold N.
           assert (X : Nat.leb N q = false) by (apply Nat.leb_gt; assumption). rewrite X. cbn [andb].
           apply B2. assumption. }
  split. { intros q m Hq Hm. unfold sm2, marked_chain in Hm. rewrite mark_end_states_merged in Hm.
           rewrite L2. eapply B5; eauto. }
  assert (HE : cst N n = N + 2 * n - 1) by (apply cst_last; assumption).
  assert (Gen : forall suf pre, W = pre ++ suf ->
                  chain sm2 N (cst N (length pre)) (vpre suf) (chain_rec suf idx)).
  { induction suf as [|c t IH]; intros pre HWp.
    - rewrite app_nil_r in HWp. subst pre. fold n. cbn [vpre chain]. rewrite HE.
      split; [lia|]. split; [lia|]. split; [|split].
      + intros i. rewrite T2, <- HE. apply B8.
      + rewrite R2 by lia. rewrite Nat.eqb_refl. reflexivity.
      + left. rewrite E2, B4 by lia. apply Nat.eqb_refl.
    - set (i := length pre).
      assert (Hi : i < n). { unfold n. rewrite HWp, app_length. cbn [length]. fold i. lia. }
      assert (Hc : nth i W 0 = c). { rewrite HWp, app_nth2 by (fold i; lia). fold i. rewrite Nat.sub_diag. reflexivity. }
      assert (Hq : N <= cst N i /\ cst N i < N + 2 * n /\ cst N i <> N + 2 * n - 1 /\ cst N i < cst N (S i)).
      { destruct i as [|j]; cbn [cst]; lia. }
      destruct Hq as (Q1 & Q2 & Q3 & Q4).
      assert (Hrec : d_rec (get sm2 (cst N i)) = []).
      { rewrite R2 by assumption. apply Nat.eqb_neq in Q3. rewrite Q3. reflexivity. }
      assert (Hend : d_end (get sm2 (cst N i)) = false).
      { rewrite E2, B4 by assumption. apply Nat.eqb_neq. assumption. }
      cbn [vpre]. unfold chain_rec. cbn [all_ok forallb]. fold (all_ok t).
      destruct (Nat.ltb c 256) eqn:Ec.
      + apply Nat.ltb_lt in Ec. cbn [andb chain].
        split; [assumption|]. split; [lia|]. split; [assumption|]. split; [assumption|]. split; [assumption|].
        exists (cst N (S i)). split; [assumption|]. split; [|split].
        * rewrite T2, B7 by assumption. rewrite Hc, Nat.eqb_refl. apply Nat.ltb_lt in Ec. rewrite Ec. reflexivity.
        * intros j Hj. rewrite T2, B7 by assumption. rewrite Hc. apply Nat.eqb_neq in Hj. rewrite Hj. reflexivity.
        * specialize (IH (pre ++ [c])). rewrite app_length in IH. cbn [length] in IH. fold i in IH.
          rewrite Nat.add_1_r in IH. apply IH. rewrite <- app_assoc. exact HWp.
      + cbn [andb chain]. split; [assumption|]. split; [lia|]. split; [|split].
        * intros j. rewrite T2, B7 by assumption. rewrite Hc.
          destruct (Nat.eqb j c) eqn:Ej; [|reflexivity]. apply Nat.eqb_eq in Ej. subst j. rewrite Ec. reflexivity.
        * assumption.
        * right. reflexivity. }
  apply (Gen W []). reflexivity.
Qed.

(* chains do not depend on anything but the transitions, slots and end flags of states >= N *)
Lemma chain_ext : forall u a b N from r,
  length b = length a ->
  (forall q, N <= q -> (forall i, tr b q i = tr a q i) /\ d_rec (get b q) = d_rec (get a q) /\
                       d_end (get b q) = d_end (get a q)) ->
  chain a N from u r -> chain b N from u r.
Proof.
  induction u as [|c u IH]; intros a b N from r HL H Hc; cbn [chain] in *.
  - destruct Hc as (H1 & H2 & H3 & H4 & H5). destruct (H from H1) as (T & R & E).
    split; [assumption|]. split; [lia|]. split; [|split].
    + intros i. rewrite T. apply H3.
    + congruence.
    + rewrite E. assumption.
  - destruct Hc as (H1 & H2 & H3 & H4 & H5 & nx & H6 & H7 & H8 & H9). destruct (H from H1) as (T & R & E).
    split; [assumption|]. split; [lia|]. split; [assumption|]. split; [congruence|]. split; [congruence|].
    exists nx. split; [assumption|]. split; [rewrite T; assumption|]. split.
    + intros i Hi. rewrite T. auto.
    + eapply IH; eauto.
Qed.

(* ---------- walks along a chain ---------- *)
Lemma list_eqb_nat_eq : forall a b : list nat, list_eqb Nat.eqb a b = true <-> a = b.
Proof.
  induction a as [|x a IH]; intros [|y b]; cbn; split; try congruence; try discriminate; auto.
  - intros H. apply andb_true_iff in H. destruct H as [H1 H2]. apply Nat.eqb_eq in H1. apply IH in H2. congruence.
  - intros H. inversion H; subst. rewrite Nat.eqb_refl. cbn. apply IH. reflexivity.
Qed.

Lemma chain_lo : forall u sm N from r, chain sm N from u r -> N <= from /\ from < length sm.
Proof. intros [|c u] sm N from r H; cbn [chain] in H; destruct H as (H1 & H2 & _); auto. Qed.

Lemma chain_walk_ge : forall u sm N from r y q,
  chain sm N from u r -> walk sm from y = Some q -> from <= q /\ (y <> [] -> from < q).
Proof.
  induction u as [|c u IH]; intros sm N from r y q Hc Hw; cbn [chain] in Hc.
  - destruct Hc as (_ & _ & H3 & _). destruct y as [|c' y]; cbn [walk] in Hw.
    + inversion Hw; subst. split; [lia | congruence].
    + rewrite H3 in Hw. discriminate.
  - destruct Hc as (_ & _ & _ & _ & _ & nx & H6 & H7 & H8 & H9). destruct y as [|c' y]; cbn [walk] in Hw.
    + inversion Hw; subst. split; [lia | congruence].
    + destruct (Nat.eq_dec c' c) as [->|Hne].
      * rewrite H7 in Hw. destruct (IH _ _ _ _ _ _ H9 Hw) as [G _]. split; [lia | intros _; lia].
      * rewrite H8 in Hw by assumption. discriminate.
Qed.

Lemma chain_walk_lo : forall u sm N from r y q,
  chain sm N from u r -> walk sm from y = Some q -> N <= q.
Proof.
  intros u sm N from r y q Hc Hw. destruct (chain_walk_ge _ _ _ _ _ _ _ Hc Hw) as [G _].
  destruct (chain_lo _ _ _ _ _ Hc). lia.
Qed.

Lemma chain_walk_inj : forall u sm N from r y1 y2 q,
  chain sm N from u r -> walk sm from y1 = Some q -> walk sm from y2 = Some q -> y1 = y2.
Proof.
  induction u as [|c u IH]; intros sm N from r y1 y2 q Hc H1 H2; pose proof Hc as Hc'; cbn [chain] in Hc.
  - destruct Hc as (_ & _ & H3 & _). destruct y1 as [|c1 y1]; destruct y2 as [|c2 y2]; cbn [walk] in *; auto.
    + rewrite H3 in H2. discriminate.
    + rewrite H3 in H1. discriminate.
    + rewrite H3 in H1. discriminate.
  - destruct Hc as (_ & _ & _ & _ & _ & nx & H6 & H7 & H8 & H9).
    destruct y1 as [|c1 y1]; destruct y2 as [|c2 y2]; auto.
    + cbn [walk] in H1. inversion H1; subst q.
      destruct (chain_walk_ge _ _ _ _ _ _ _ Hc' H2) as [_ G]. assert (from < from) by (apply G; discriminate). lia.
    + cbn [walk] in H2. inversion H2; subst q.
      destruct (chain_walk_ge _ _ _ _ _ _ _ Hc' H1) as [_ G]. assert (from < from) by (apply G; discriminate). lia.
    + cbn [walk] in H1, H2.
      destruct (Nat.eq_dec c1 c) as [->|N1]; [|rewrite H8 in H1 by assumption; discriminate].
      destruct (Nat.eq_dec c2 c) as [->|N2]; [|rewrite H8 in H2 by assumption; discriminate].
      rewrite H7 in H1, H2. f_equal. eapply IH; eauto.
Qed.

Lemma chain_walk_rec : forall u sm N from r y q,
  chain sm N from u r -> walk sm from y = Some q ->
  d_rec (get sm q) = if list_eqb Nat.eqb y u then r else [].
Proof.
  induction u as [|c u IH]; intros sm N from r y q Hc Hw; cbn [chain] in Hc.
  - destruct Hc as (_ & _ & H3 & H4 & _). destruct y as [|c' y]; cbn [walk] in Hw.
    + inversion Hw; subst q. cbn [list_eqb]. assumption.
    + rewrite H3 in Hw. discriminate.
  - destruct Hc as (_ & _ & _ & H4 & _ & nx & H6 & H7 & H8 & H9). destruct y as [|c' y]; cbn [walk] in Hw.
    + inversion Hw; subst q. cbn [list_eqb]. assumption.
    + destruct (Nat.eq_dec c' c) as [->|Hne].
      * rewrite H7 in Hw. cbn [list_eqb]. rewrite Nat.eqb_refl. cbn [andb]. eapply IH; eauto.
      * rewrite H8 in Hw by assumption. discriminate.
Qed.

Lemma chain_walk_full : forall u sm N from r, chain sm N from u r -> exists q, walk sm from u = Some q.
Proof.
  induction u as [|c u IH]; intros sm N from r Hc; cbn [chain] in Hc; cbn [walk].
  - eauto.
  - destruct Hc as (_ & _ & _ & _ & _ & nx & H6 & H7 & H8 & H9). rewrite H7. eapply IH; eauto.
Qed.
