(* Runs of the lexer-automaton validator inside Coq (vm_compute), and an instance of the soundness theorem
   for a concrete automaton. No definitions used elsewhere. *)
Require Import Ctpg.Base.Prelude Ctpg.Model.Driver Ctpg.Model.Dfa Ctpg.Spec.Lang Ctpg.Valid.DfaValid
               Ctpg.Proofs.DfaValidSound.

Definition ch (c : nat) : regex := RSet (cs_single c).

(* a(b|c)*d : the builder gets this one right *)
Definition pat1 : regex := RCat (ch 97) (RCat (RStar (RAlt (ch 98) (ch 99))) (ch 100)).
(* a*a : the in-place merging builder gets this one wrong (rejects "a"), the validator must refuse it *)
Definition pat2 : regex := RCat (RStar (ch 97)) (ch 97).
(* "if" | [a-z]+ *)
Definition terms3 : list term_data := [TString [105;102]; TRegex (RPlus (RSet (cs_add_range cs_empty 97 122)))].

Definition expr_verdict (r : regex) : option (nat * bool) :=
  match build_expr r with Some sm => Some (length sm, expr_ok sm r) | None => None end.
Definition lexer_verdict (ts : list term_data) : option (nat * bool) :=
  match create_lexer ts with Some sm => Some (length sm, lexer_ok sm ts) | None => None end.

Time Eval vm_compute in expr_verdict pat1.        (* Some (8, true) *)
Time Eval vm_compute in expr_verdict pat2.        (* Some (4, false) *)
Time Eval vm_compute in lexer_verdict terms3.     (* Some (6, true) *)

(* a hand-written correct automaton for a*a is accepted *)
Definition mk_state (rec : list nat) (tr : list (nat * nat)) : dstate :=
  mkD false false false rec (fold_left (fun acc p => update acc (fst p) (Some (snd p))) tr (repeat None 256)) [].
Time Eval vm_compute in expr_ok [mk_state [] [(97, 1)]; mk_state [0] [(97, 1)]] pat2.   (* true *)

(* a larger lexer: two keywords, identifiers, numbers, string literals, '#' followed by 40 hex digits *)
Definition rng (a b : nat) : regex := RSet (cs_add_range cs_empty a b).
Definition terms6 : list term_data :=
  [TString [119;104;105;108;101]; TString [114;101;116;117;114;110];
   TRegex (RCat (RAlt (rng 97 122) (ch 95)) (RStar (RSet (cs_add_range (cs_add_range (cs_single 95) 97 122) 48 57))));
   TRegex (RCat (RPlus (rng 48 57)) (ROpt (RCat (ch 46) (RPlus (rng 48 57)))));
   TRegex (RCat (ch 34) (RCat (RStar (RSet (cs_flip (cs_single 34)))) (ch 34)));
   TRegex (RCat (ch 35) (RRep (RSet (cs_add_range (cs_add_range cs_empty 97 102) 48 57)) 40))].
Time Eval vm_compute in lexer_verdict terms6.     (* Some (122, true) *)

(* 480 states *)
Definition pat_big : regex := RRep (RAlt (RCat (rng 97 122) (rng 48 57)) (RCat (rng 48 57) (rng 97 122))) 60.
Time Eval vm_compute in expr_verdict pat_big.     (* Some (480, true) *)

(* the theorem instantiated on the automaton the builder produces for terms3 *)
Definition sm3 : dfa := match create_lexer terms3 with Some sm => sm | None => [] end.
Lemma sm3_ok : lexer_ok sm3 terms3 = true.
Proof. vm_compute. reflexivity. Qed.

Corollary sm3_longest_match : forall s, bytes_ok s ->
  is_longest_match terms3 s (snd (dfa_match sm3 false sp0 s)).
Proof. intros s Hs. apply lexer_ok_sound; [exact sm3_ok | exact Hs]. Qed.

Print Assumptions sm3_longest_match.
