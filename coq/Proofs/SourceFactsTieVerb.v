(* Part of the tie between the hand-written model and the facts tools/source_facts.py read out of ctpg.hpp on this run. *)
Require Import Ctpg.Base.Prelude Ctpg.Model.Grammar Ctpg.Model.LRGen Ctpg.Model.Driver Ctpg.Model.Dfa
               Ctpg.Model.RegexFront Ctpg.Model.SourceFacts.

(* every stream write of the driver is guarded by options.verbose except the two error messages, and the flag is read
   nowhere else (C16's frame condition on the source) *)
Lemma tie_unguarded_writes :
  sf_unguarded_writes = [[115; 121; 110; 116; 97; 120; 95; 101; 114; 114; 111; 114];
                         [117; 110; 101; 120; 112; 101; 99; 116; 101; 100; 95; 99; 104; 97; 114]].
Proof. reflexivity. Qed.
Lemma tie_verbose_reads : sf_verbose_reads_outside_guards = 0. Proof. reflexivity. Qed.
