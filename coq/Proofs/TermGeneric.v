(* Termination, part 3 (T6): the GENERIC driver -- any semantic algebra, any options, any lexer that tokenises
   (proper terms, lexemes of positive length inside the remaining input), unbounded stacks (cap = None), tables
   without error symbol -- ends for some fuel, and keeps its result for all larger fuels.
   The token stream the driver will see is described by the relation [stream] (what get_current_term /
   consume_term do to the cursor and the source point); the driver's normal-mode iterations follow the machine
   of Proofs/LRMachine.v on that stream, which halts by Proofs/TermAll.v. A lexical failure ends the run at once;
   an error cell starts recovery, which ends within (stack height) iterations (Proofs/SafeTerm.v). *)
Require Import Ctpg.Base.Prelude Ctpg.Model.Grammar Ctpg.Model.LRGen Ctpg.Model.Driver
               Ctpg.Spec.Cfg Ctpg.Spec.LRSpec Ctpg.Spec.Eval Ctpg.Valid.LRValid Ctpg.Valid.LRProductive
               Ctpg.Proofs.LRReflect Ctpg.Proofs.LRMachine Ctpg.Proofs.LRValidFacts Ctpg.Proofs.LRSound
               Ctpg.Proofs.LRComplete Ctpg.Proofs.DriverBasics Ctpg.Proofs.DriverEval Ctpg.Proofs.SafeDriver
               Ctpg.Proofs.SafeTerm Ctpg.Proofs.ReportLang Ctpg.Proofs.ReportViable
               Ctpg.Proofs.TermViable Ctpg.Proofs.TermAll.

Section Generic.
  Variable g : grammar.
  Variable sts : list items.
  Variable tbl : table.
  Variable opts : options.
  Variable buf : list nat.
  Variable lexer : bool -> spoint -> list nat -> list lex_event * option (nat * nat).

  Hypothesis SF : sound_facts g sts tbl.
  Hypothesis Hne : no_error_symbol g tbl = true.
  Hypothesis Hlex : lexer_ok_for g lexer.          (* proper terms, lexemes inside the remaining input *)
  Hypothesis Hpos : lexer_in_range lexer.          (* lexemes of positive length *)

  Notation dstate := (pstate tree unit).
  Notation dstep := (step tree unit g tbl opts buf None lexer tf (ef g) rlf).
  Notation drun := (run_from tree unit g tbl opts buf None lexer tf (ef g) rlf).
  Notation dgct := (get_current_term tree unit g opts buf lexer).
  Notation dact := (act tree unit g tbl buf None tf (ef g) rlf).
  Notation dreduce := (do_reduce tree unit g tbl None rlf).

  (* whitespace skipped at offset pos *)
  Definition kws (pos : nat) : nat := if o_skip_ws opts then count_ws opts (skipn pos buf) else 0.

  (* the terms the driver sees from offset pos on when its source point there is sp; the flag says how the
     stream ends: true = end of input, false = the lexer fails *)
  Inductive stream : spoint -> nat -> list nat -> bool -> Prop :=
  | StEof sp pos : skipn (kws pos) (skipn pos buf) = [] -> stream sp pos [] true
  | StFail sp pos c rest :
      skipn (kws pos) (skipn pos buf) = c :: rest ->
      snd (lexer (o_verbose opts) (sp_update sp (firstn (kws pos) (skipn pos buf))) (c :: rest)) = None ->
      stream sp pos [] false
  | StTok sp pos c rest t len w fl :
      skipn (kws pos) (skipn pos buf) = c :: rest ->
      snd (lexer (o_verbose opts) (sp_update sp (firstn (kws pos) (skipn pos buf))) (c :: rest)) = Some (t, len) ->
      stream (sp_update (sp_update sp (firstn (kws pos) (skipn pos buf)))
                        (slice_of buf (pos + kws pos) (pos + kws pos + len)))
             (pos + kws pos + len) w fl ->
      stream sp pos (t :: w) fl.

  Lemma skipn_skipn_len pos k c rest : skipn k (skipn pos buf) = c :: rest -> pos + k + length (c :: rest) = length buf.
  Proof.
    intros H. rewrite skipn_add in H. pose proof (skipn_length (pos + k) buf) as L. rewrite H in L.
    assert (pos + k < length buf) by (eapply skipn_cons_lt; eassumption). lia.
  Qed.

  (* every buffer has a token stream, made of proper terms *)
  Lemma stream_exists m : forall sp pos, length buf - pos <= m ->
    exists w fl, stream sp pos w fl /\ Forall (fun a => a < eof_idx g) w.
  Proof.
    induction m as [|m IH]; intros sp pos Hm.
    - exists [], true. split; [|constructor]. apply StEof.
      rewrite skipn_add. apply skipn_all2. lia.
    - destruct (skipn (kws pos) (skipn pos buf)) as [|c rest] eqn:Hsk.
      { exists [], true. split; [apply StEof; exact Hsk|constructor]. }
      destruct (snd (lexer (o_verbose opts) (sp_update sp (firstn (kws pos) (skipn pos buf))) (c :: rest)))
        as [[t len]|] eqn:Hl.
      + destruct (Hlex _ _ _ _ _ Hl) as [Ht Hlen]. destruct (Hpos _ _ _ _ _ Hl) as [Hp _].
        pose proof (skipn_skipn_len _ _ _ _ Hsk) as L.
        destruct (IH (sp_update (sp_update sp (firstn (kws pos) (skipn pos buf)))
                                (slice_of buf (pos + kws pos) (pos + kws pos + len)))
                     (pos + kws pos + len)) as (w & fl & Hs & Hw); [lia|].
        exists (t :: w), fl. split; [eapply StTok; eassumption|constructor; assumption].
      + exists [], false. split; [eapply StFail; eassumption|constructor].
  Qed.

  (* ---------- loop-head states in normal mode, relative to the stream ---------- *)
  Definition sinv (s : dstate) (w : list nat) (fl : bool) : Prop :=
    ps_rec s = false /\ ps_cons s = false /\ ps_end s <= length buf /\
    ((* at a token boundary *)
     (ps_it s = ps_end s /\ stream (ps_sp s) (ps_it s) w fl) \/
     (* a token is pending *)
     (exists t w', w = t :: w' /\ ps_it s <> ps_end s /\ ps_term s = Some t /\
                   stream (sp_update (ps_sp s) (slice_of buf (ps_it s) (ps_end s))) (ps_end s) w' fl) \/
     (* <eof> is pending *)
     (w = [] /\ fl = true /\ ps_it s <> ps_end s /\ ps_term s = Some (eof_idx g) /\
      skipn (kws (ps_end s)) (skipn (ps_end s) buf) = [])).

  (* after get_current_term a term is pending *)
  Definition ready (s : dstate) (w : list nat) (fl : bool) : Prop :=
    sinv s w fl /\ (ps_it s = ps_end s -> w = [] /\ fl = true).

  Lemma gct_sinv s w fl : sinv s w fl ->
    exists s1 ot ev, dgct s = (s1, ot, ev) /\ ps_cursors s1 = ps_cursors s /\ ps_values s1 = ps_values s /\
      match ot with
      | None => w = [] /\ fl = false
      | Some t => t = look g w /\ ready s1 w fl
      end.
  Proof.
    destruct s as [cs vs sp it en tm rc cn cx]. unfold ready, sinv; cbn [ps_rec ps_cons ps_end ps_it ps_sp ps_term].
    intros (-> & -> & Hle & Hform). unfold get_current_term; cbn [ps_rec ps_it ps_end ps_term ps_sp].
    destruct Hform as [[-> Hst]|[(t & w' & -> & Hne' & -> & Hst)|(-> & -> & Hne' & -> & Hsk)]].
    - (* boundary: the lexer is consulted *)
      rewrite Nat.eqb_refl. cbn [negb]. fold (kws en).
      inversion Hst as [sp' pos Hsk|sp' pos c rest Hsk Hl|sp' pos c rest t len w' fl' Hsk Hl Hst']; subst.
      + rewrite Hsk. do 3 eexists. split; [reflexivity|]. cbn. split; [reflexivity|]. split; [reflexivity|].
        split; [reflexivity|].
        destruct (Nat.eq_dec (en + kws en) en) as [E|E].
        * split; [|auto]. repeat split; auto. left. split; [exact E|]. apply StEof. rewrite E. exact Hsk.
        * split; [|intros; contradiction]. repeat split; auto. right. right. repeat split; auto.
      + rewrite Hsk. destruct (lexer (o_verbose opts) (sp_update sp (firstn (kws en) (skipn en buf))) (c :: rest))
          as [lx res]. cbn [snd] in Hl. subst res.
        do 3 eexists. split; [reflexivity|]. cbn. auto.
      + rewrite Hsk. destruct (lexer (o_verbose opts) (sp_update sp (firstn (kws en) (skipn en buf))) (c :: rest))
          as [lx res] eqn:El. cbn [snd] in Hl. subst res.
        assert (Hl' : snd (lexer (o_verbose opts) (sp_update sp (firstn (kws en) (skipn en buf))) (c :: rest)) = Some (t, len))
          by (rewrite El; reflexivity).
        destruct (Hlex _ _ _ _ _ Hl') as [_ Hlen]. destruct (Hpos _ _ _ _ _ Hl') as [Hp _].
        pose proof (skipn_skipn_len _ _ _ _ Hsk) as L.
        do 3 eexists. split; [reflexivity|]. cbn. split; [reflexivity|]. split; [reflexivity|].
        split; [reflexivity|]. split; [|intros; lia].
        repeat split; auto; [lia|]. right. left. exists t, w'. repeat split; auto. lia.
    - (* a token is pending *)
      replace (Nat.eqb it en) with false by (symmetry; apply Nat.eqb_neq; exact Hne'). cbn [negb].
      do 3 eexists. split; [reflexivity|]. cbn. split; [reflexivity|]. split; [reflexivity|].
      split; [reflexivity|]. split; [|intros; contradiction].
      repeat split; auto. right. left. exists t, w'. auto.
    - (* <eof> is pending *)
      replace (Nat.eqb it en) with false by (symmetry; apply Nat.eqb_neq; exact Hne'). cbn [negb].
      do 3 eexists. split; [reflexivity|]. cbn. split; [reflexivity|]. split; [reflexivity|].
      split; [reflexivity|]. split; [|intros; contradiction].
      repeat split; auto. right. right. auto.
  Qed.

  (* a reduce leaves the cursor alone *)
  Lemma keep_sinv s1 s' w fl : sinv s1 w fl ->
    ps_rec s' = false -> ps_cons s' = false ->
    ps_sp s' = ps_sp s1 -> ps_it s' = ps_it s1 -> ps_end s' = ps_end s1 -> ps_term s' = ps_term s1 ->
    sinv s' w fl.
  Proof.
    unfold sinv. intros (_ & _ & Hle & Hform) Hr Hc Hsp Hit Hen Htm. rewrite Hsp, Hit, Hen, Htm. auto.
  Qed.

  (* a shift moves the cursor to the end of the pending lexeme *)
  Lemma shift_sinv s1 s' w fl : ready s1 w fl ->
    ps_rec s' = false -> ps_cons s' = false ->
    ps_sp s' = sp_update (ps_sp s1) (slice_of buf (ps_it s1) (ps_end s1)) ->
    ps_it s' = ps_end s1 -> ps_end s' = ps_end s1 ->
    sinv s' (tl w) fl.
  Proof.
    unfold ready, sinv. intros ((_ & _ & Hle & Hform) & Hb) Hr Hc Hsp Hit Hen. rewrite Hsp, Hit, Hen.
    split; [assumption|]. split; [assumption|]. split; [assumption|]. left. split; [reflexivity|].
    destruct Hform as [[E Hst]|[(t & w' & -> & Hne' & Htm & Hst)|(-> & -> & Hne' & Htm & Hsk)]].
    - destruct (Hb E) as [-> ->]. cbn [tl]. apply StEof.
      inversion Hst; subst. rewrite <- E. assumption.
    - cbn [tl]. exact Hst.
    - cbn [tl]. apply StEof. exact Hsk.
  Qed.

  (* ---------- one action of the driver against one step of the machine ---------- *)
  Lemma reduce_sim_sp (s : dstate) r rest :
    match mreduce g tbl (ps_cursors s) (ps_values s) rest r with
    | Next (sts', trs', rest') =>
        exists s3 ev, dreduce s r = inl (s3, ev) /\ ps_cursors s3 = sts' /\ ps_values s3 = trs' /\ rest' = rest /\
                      ps_rec s3 = ps_rec s /\ ps_cons s3 = ps_cons s /\ ps_it s3 = ps_it s /\
                      ps_end s3 = ps_end s /\ ps_term s3 = ps_term s /\ ps_sp s3 = ps_sp s
    | Fail => exists res, dreduce s r = inr res /\ res <> OutOfFuel
    | _ => False
    end.
  Proof.
    destruct s as [cs vs sp it en tm rc cn cx]. unfold mreduce, do_reduce.
    cbn [ps_cursors ps_values ps_ctx full].
    destruct (nth_error (rule_infos g) r) as [ri|]; [|eexists; split; [reflexivity|discriminate]].
    destruct (Nat.ltb (length cs) (ri_n ri)); [eexists; split; [reflexivity|discriminate]|].
    destruct (skipn (ri_n ri) cs) as [|top rest']; [eexists; split; [reflexivity|discriminate]|].
    destruct (cell tbl top (ri_l ri)) as [e|c]; [|eexists; split; [reflexivity|discriminate]].
    destruct (e_arg e) as [nst|]; [|eexists; split; [reflexivity|discriminate]].
    destruct (Nat.ltb (length vs) (ri_n ri)); [eexists; split; [reflexivity|discriminate]|].
    unfold rlf. eexists; eexists. split; [reflexivity|]. cbn. repeat split; reflexivity.
  Qed.

  Lemma act_sim (s1 : dstate) cur cs rest :
    ps_rec s1 = false -> ps_cons s1 = false -> ps_cursors s1 = cur :: cs -> ps_end s1 <= length buf ->
    match mstep g tbl (ps_cursors s1, ps_values s1, rest) with
    | Next c1 =>
        exists s' ev, dact s1 cur (look g rest) = (inl s', ev) /\ ps_rec s' = false /\ ps_cons s' = false /\
          ps_cursors s' = fst (fst c1) /\ ps_values s' = snd (fst c1) /\
          ((snd c1 = rest /\ ps_sp s' = ps_sp s1 /\ ps_it s' = ps_it s1 /\ ps_end s' = ps_end s1 /\
            ps_term s' = ps_term s1) \/
           (snd c1 = tl rest /\ ps_sp s' = sp_update (ps_sp s1) (slice_of buf (ps_it s1) (ps_end s1)) /\
            ps_it s' = ps_end s1 /\ ps_end s' = ps_end s1))
    | Acc v => exists s' ev, dact s1 cur (look g rest) = (inr (Accept v, s'), ev)
    | Fail => (exists r s' ev, dact s1 cur (look g rest) = (inr (r, s'), ev) /\ r <> OutOfFuel) \/
              (exists s' ev, dact s1 cur (look g rest) = (inl s', ev) /\ ps_rec s' = true /\ ps_cons s' = false /\
                             ps_cursors s' = ps_cursors s1)
    | Bad => True
    end.
  Proof.
    intros Hr Hc Hcs Hle. unfold mstep. rewrite Hcs. unfold act.
    destruct (cell tbl cur (nterm_count g + look g rest)) as [e|c] eqn:Ecell.
    2:{ left. do 3 eexists. split; [reflexivity|]. discriminate. }
    rewrite Hc. destruct (e_kind e) eqn:Ek.
    - (* KError *) rewrite Hr. cbn [negb]. right. do 2 eexists. split; [reflexivity|].
      destruct s1; cbn in *. auto.
    - (* KSuccess *) destruct (rev (ps_values s1)) as [|v vs'].
      + left. do 3 eexists. split; [reflexivity|]. discriminate.
      + do 2 eexists. reflexivity.
    - (* KShift *) destruct (e_arg e) as [nst|].
      2:{ left. do 3 eexists. split; [reflexivity|]. discriminate. }
      cbn [full]. replace (Nat.ltb (length buf) (ps_end s1)) with false by (symmetry; apply Nat.ltb_ge; assumption).
      do 2 eexists. split; [reflexivity|].
      destruct s1 as [cs1 vs1 sp1 it1 en1 tm1 rc1 cn1 cx1]. cbn in *. subst.
      do 4 (split; [reflexivity|]). right. repeat split; reflexivity.
    - (* KShiftErr *) exact I.
    - (* KReduce *) destruct (e_arg e) as [r|].
      2:{ left. do 3 eexists. split; [reflexivity|]. discriminate. }
      pose proof (reduce_sim_sp s1 r rest) as Hrs. rewrite Hcs in Hrs.
      destruct (mreduce g tbl (cur :: cs) (ps_values s1) rest r) as [[[sts' trs'] rest']| | |].
      + destruct Hrs as (s3 & ev & Hd & H1 & H2 & H3 & H4 & H5 & H6 & H7 & H8 & H9). rewrite Hd.
        do 2 eexists. split; [reflexivity|]. cbn [fst snd].
        rewrite H4, H5. repeat split; auto. left. auto.
      + contradiction.
      + destruct Hrs as (res & Hd & Hna). rewrite Hd. left. do 3 eexists. split; [reflexivity|assumption].
      + contradiction.
    - (* KRR *) exact I.
  Qed.

  (* ---------- the run follows the machine ---------- *)
  Lemma not_oof_after_recovery s : ps_rec s = true -> ps_cons s = false ->
    forall out, fst (fst (drun (S (length (ps_cursors s))) s out)) <> OutOfFuel.
  Proof.
    intros Hr Hc out.
    pose proof (rec_run_ends tree unit g tbl opts buf None lexer tf (ef g) rlf (no_error_symbol_cell g tbl Hne)
                  (S (length (ps_cursors s))) s out Hr Hc ltac:(lia) ltac:(lia)) as H.
    destruct H as [H|[[H _]|[[H|H] _]]]; rewrite H; discriminate.
  Qed.

  Variable w0 : list nat.

  Lemma gfollow n : forall s w fl c',
    sinv s w fl -> SInv g sts w0 (ps_cursors s, ps_values s, w) ->
    msteps g tbl n (ps_cursors s, ps_values s, w) c' -> halted g tbl c' ->
    exists fuel, forall out, fst (fst (drun fuel s out)) <> OutOfFuel.
  Proof.
    induction n as [|n IH]; intros s w fl c' Hs HS Hm Hh.
    all: destruct (gct_sinv s w fl Hs) as (s1 & ot & ev1 & Hg & Hcs1 & Hvs1 & Hot).
    all: assert (Hcur : exists cur cs, ps_cursors s = cur :: cs)
      by (destruct HS as (syms & Hst & _); inversion Hst; eauto).
    all: destruct Hcur as (cur & cs & Hcs).
    all: destruct ot as [t|];
      [|exists 1; intros out; cbn [run_from]; unfold step; rewrite Hcs, Hg; cbn; discriminate].
    all: destruct Hot as [-> Hrd]; pose proof Hrd as [Hs1 _]; pose proof Hs1 as (Hr1 & Hc1 & Hle1 & _).
    all: rewrite <- Hcs1 in Hcs; pose proof (act_sim s1 cur cs w Hr1 Hc1 Hcs Hle1) as Ha;
      rewrite Hcs1, Hvs1 in Ha; rewrite Hcs1 in Hcs.
    - (* the machine has stopped here *)
      cbn [msteps] in Hm. subst c'. unfold halted in Hh.
      destruct (mstep g tbl (ps_cursors s, ps_values s, w)) as [c1|v| |] eqn:Em; [contradiction| | |].
      + destruct Ha as (s' & ev & Ha). exists 1. intros out. cbn [run_from]. unfold step. rewrite Hcs, Hg, Ha.
        cbn. discriminate.
      + destruct Ha as [(r & s' & ev & Ha & Hnr)|(s' & ev & Ha & Hr' & Hc' & Hcs')].
        * exists 1. intros out. cbn [run_from]. unfold step. rewrite Hcs, Hg, Ha. cbn. exact Hnr.
        * exists (S (S (length (ps_cursors s')))). intros out. cbn [run_from]. unfold step. rewrite Hcs, Hg, Ha.
          apply (not_oof_after_recovery s' Hr' Hc').
      + exfalso. exact (SInv_not_bad g sts tbl w0 SF _ HS Em).
    - (* one more step of the machine *)
      cbn [msteps] in Hm. destruct Hm as (c1 & Em & Hm). rewrite Em in Ha.
      destruct Ha as (s' & ev & Ha & Hr' & Hc' & Hcs' & Hvs' & Hpos').
      pose proof (SInv_next g sts tbl w0 SF _ _ HS Em) as HS'.
      destruct c1 as [[ss1 trs1] rest1]. cbn [fst snd] in *.
      assert (Hs' : sinv s' rest1 fl).
      { destruct Hpos' as [(-> & Hsp & Hit & Hen & Htm)|(-> & Hsp & Hit & Hen)].
        - eapply keep_sinv; eassumption.
        - eapply shift_sinv; eassumption. }
      destruct (IH s' rest1 fl c' Hs') as (fuel & Hfuel).
      { rewrite Hcs', Hvs'. exact HS'. }
      { rewrite Hcs', Hvs'. exact Hm. }
      { exact Hh. }
      exists (S fuel). intros out. cbn [run_from]. unfold step. rewrite Hcs, Hg, Ha. apply Hfuel.
  Qed.
End Generic.

(* ================================================================================================= *)
(* (T6) the theorems                                                                                 *)
(* ================================================================================================= *)

(* the tree-building instance with an arbitrary lexer and arbitrary options *)
Theorem generic_tree_run_halts : forall g sts tbl opts buf lexer,
  validate g sts tbl = true -> lookahead_generated g sts -> states_nonempty sts -> reduce_lookahead g sts tbl ->
  productive g -> no_error_symbol g tbl = true ->
  lexer_ok_for g lexer -> lexer_in_range lexer ->
  exists fuel, fst (fst (run tree unit g tbl opts buf None lexer tf (ef g) rlf fuel tt)) <> OutOfFuel.
Proof.
  intros g sts tbl opts buf lexer Hval Hgen Hnonempty Hred Hprod Hne Hlex Hpos.
  pose proof (sound_facts_of g sts tbl (validate_validate_sound _ _ _ Hval)) as SF.
  destruct (stream_exists g opts buf lexer Hlex Hpos (length buf) sp0 0 ltac:(lia)) as (w & fl & Hst & Hw).
  destruct (machine_halts g sts tbl w Hval Hgen Hnonempty Hred Hprod Hw) as (n & c' & Hm & Hh).
  destruct (gfollow g sts tbl opts buf lexer SF Hne Hlex Hpos w n (init tt) w fl c') as (fuel & Hfuel).
  - unfold sinv. cbn. split; [reflexivity|]. split; [reflexivity|]. split; [lia|]. left. split; [reflexivity|exact Hst].
  - cbn. apply SInv_init. exact Hw.
  - exact Hm.
  - exact Hh.
  - exists fuel. unfold run. apply Hfuel.
Qed.

(* every semantic algebra: the run takes the same path as the tree-building run (Proofs/DriverEval.v) *)
Theorem generic_run_halts : forall (V C : Type) g sts tbl opts buf lexer
    (term_f : nat -> nat -> nat -> spoint -> V) (err_f : spoint -> V) (rule_f : nat -> C -> list V -> C * V) (c0 : C),
  validate g sts tbl = true -> lookahead_generated g sts -> states_nonempty sts -> reduce_lookahead g sts tbl ->
  productive g -> no_error_symbol g tbl = true ->
  lexer_ok_for g lexer -> lexer_in_range lexer ->
  exists fuel, forall fuel', fuel <= fuel' ->
    fst (fst (run V C g tbl opts buf None lexer term_f err_f rule_f fuel' c0)) =
    fst (fst (run V C g tbl opts buf None lexer term_f err_f rule_f fuel c0)) /\
    fst (fst (run V C g tbl opts buf None lexer term_f err_f rule_f fuel c0)) <> OutOfFuel.
Proof.
  intros V C g sts tbl opts buf lexer term_f err_f rule_f c0 Hval Hgen Hnonempty Hred Hprod Hne Hlex Hpos.
  destruct (generic_tree_run_halts g sts tbl opts buf lexer Hval Hgen Hnonempty Hred Hprod Hne Hlex Hpos) as (fuel & Hf).
  exists fuel.
  assert (Hnoof : fst (fst (run V C g tbl opts buf None lexer term_f err_f rule_f fuel c0)) <> OutOfFuel).
  { pose proof (run_same_path tree unit g tbl opts buf None lexer tf (ef g) rlf tt fuel) as H1.
    pose proof (run_same_path V C g tbl opts buf None lexer term_f err_f rule_f c0 fuel) as H2.
    destruct (run ptree (list (nat * list ptree)) g tbl opts buf None lexer tree_term_f tree_err_f tree_rule_f fuel [])
      as [[rT sT] oT].
    destruct (run tree unit g tbl opts buf None lexer tf (ef g) rlf fuel tt) as [[r1 s1] o1].
    destruct (run V C g tbl opts buf None lexer term_f err_f rule_f fuel c0) as [[r2 s2] o2].
    cbn [fst] in *. destruct H1 as [H1 _]. destruct H2 as [H2 _].
    intros E. subst r2. apply Hf. destruct rT, r1; cbn in *; congruence. }
  intros fuel' Hle. split; [|exact Hnoof].
  unfold run in *.
  destruct (run_from V C g tbl opts buf None lexer term_f err_f rule_f fuel (init c0) []) as [[r s] o] eqn:E.
  cbn [fst] in Hnoof |- *. replace fuel' with (fuel + (fuel' - fuel)) by lia.
  rewrite (run_from_mono _ _ _ _ _ _ _ _ _ _ _ _ _ _ _ _ _ _ E Hnoof). reflexivity.
Qed.

(* with the boolean checks *)
Corollary generic_run_halts_checked : forall (V C : Type) g sts tbl opts buf lexer
    (term_f : nat -> nat -> nat -> spoint -> V) (err_f : spoint -> V) (rule_f : nat -> C -> list V -> C * V) (c0 : C),
  term_checks g sts tbl = true -> no_error_symbol g tbl = true ->
  lexer_ok_for g lexer -> lexer_in_range lexer ->
  exists fuel, fst (fst (run V C g tbl opts buf None lexer term_f err_f rule_f fuel c0)) <> OutOfFuel.
Proof.
  intros V C g sts tbl opts buf lexer term_f err_f rule_f c0 Hc Hne Hlex Hpos.
  destruct (term_checks_facts _ _ _ Hc) as (H1 & H2 & H3 & H4 & H5).
  destruct (generic_run_halts V C g sts tbl opts buf lexer term_f err_f rule_f c0 H1 H2 H3 H4 H5 Hne Hlex Hpos)
    as (fuel & Hf).
  exists fuel. exact (proj2 (Hf fuel (Nat.le_refl _))).
Qed.

Print Assumptions generic_tree_run_halts.
Print Assumptions generic_run_halts.
Print Assumptions generic_run_halts_checked.
