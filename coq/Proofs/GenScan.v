(* S3 (first half): the scan of one table cell. Classification of scan_cell's result:
   either the scan met a conflict (the written cell carries a conflict mark), or the bucket is all shift items,
   or a single reduce item, or starts with the completed root item. *)
Require Import Ctpg.Base.Prelude Ctpg.Model.Grammar Ctpg.Model.LRGen Ctpg.Valid.LRValid
               Ctpg.Proofs.LRReflect Ctpg.Proofs.GenLists Ctpg.Proofs.GenClosure.

Definition adv (i : item) : item := mkItem (it_r i) (S (it_d i)) (it_t i).
Definition is_rootred (g : grammar) (i : item) : bool :=
  Nat.eqb (ri_r (get_ri g (it_r i))) (root_rule_idx g).

Definition scan_step_red (g : grammar) (i : item) (s : scan) : scan :=
  let '(k, sr) :=
    if sc_has_shift s
    then (if sc_sr s then (sc_kind s, true) else (solve_conflict g (it_r i) (it_t i), true))
    else (KReduce, sc_sr s) in
  mkScan k sr true (sc_has_shift s) (Some (it_r i)) (sc_kernel s).

Definition scan_step_shift (g : grammar) (i : item) (s : scan) : scan :=
  let '(k, sr) :=
    if sc_has_red s
    then (if sc_sr s then (sc_kind s, true)
          else (solve_conflict g (match sc_red s with Some r => r | None => 0 end)
                               (term_of_sym (nth_error (get_rhs g (ri_r (get_ri g (it_r i)))) (it_d i))), true))
    else (KShift, sc_sr s) in
  mkScan k sr (sc_has_red s) true (sc_red s) (add_item (sc_kernel s) (adv i)).

Lemma scan_cell_cons g i rest s :
  scan_cell g (i :: rest) s =
  if is_complete g i then
    if is_rootred g i then mkScan KSuccess (sc_sr s) (sc_has_red s) (sc_has_shift s) (sc_red s) (sc_kernel s)
    else if sc_has_red s then mkScan KRR (sc_sr s) (sc_has_red s) (sc_has_shift s) (sc_red s) (sc_kernel s)
    else scan_cell g rest (scan_step_red g i s)
  else scan_cell g rest (scan_step_shift g i s).
Proof.
  cbn [scan_cell]. unfold is_complete, is_rootred, scan_step_red, scan_step_shift, adv.
  destruct (Nat.leb _ _); [|destruct (sc_has_red s); [destruct (sc_sr s)|]; reflexivity].
  destruct (Nat.eqb _ _); [reflexivity|]. destruct (sc_has_red s); [reflexivity|].
  destruct (sc_has_shift s); [destruct (sc_sr s)|]; reflexivity.
Qed.

Lemma solve_conflict_kind g r t : solve_conflict g r t = KReduce \/ solve_conflict g r t = KShift.
Proof.
  unfold solve_conflict. destruct (Z.ltb _ _); auto. destruct (Z.eqb _ _); auto.
  destruct (nth _ (rule_assoc g) NoAssoc); auto.
Qed.

(* the scan met a conflict: the cell written by do_transitions carries a mark *)
Definition bad (S : scan) : Prop :=
  sc_kind S = KRR \/
  (sc_sr S = true /\ sc_has_shift S = true /\ (sc_kind S = KShift \/ sc_kind S = KReduce)).

Definition norootred (g : grammar) (its : list item) : Prop :=
  forall i, In i its -> is_complete g i = true -> is_rootred g i = false.

Lemma norootred_tl g i its : norootred g (i :: its) -> norootred g its.
Proof. intros H j Hj. apply H. cbn; auto. Qed.

Lemma scan_mixed g its : forall s, norootred g its ->
  sc_sr s = true -> sc_has_shift s = true -> sc_has_red s = true ->
  (sc_kind s = KShift \/ sc_kind s = KReduce) -> bad (scan_cell g its s).
Proof.
  induction its as [|i rest IH]; intros s Hn Hsr Hsh Hrd Hk.
  - cbn. right. auto.
  - rewrite scan_cell_cons. destruct (is_complete g i) eqn:Ec.
    + rewrite (Hn i (or_introl eq_refl) Ec), Hrd. left. reflexivity.
    + apply IH; try (apply norootred_tl in Hn; assumption);
        unfold scan_step_shift; rewrite Hrd, Hsr; cbn; auto.
Qed.

Lemma scan_onered g its : forall s, norootred g its ->
  sc_has_red s = true -> sc_has_shift s = false -> sc_sr s = false -> its <> [] -> bad (scan_cell g its s).
Proof.
  intros s Hn Hrd Hsh Hsr Hne. destruct its as [|i rest]; [congruence|].
  rewrite scan_cell_cons. destruct (is_complete g i) eqn:Ec.
  - rewrite (Hn i (or_introl eq_refl) Ec), Hrd. left. reflexivity.
  - apply scan_mixed; try (apply norootred_tl in Hn; assumption);
      unfold scan_step_shift; rewrite Hrd, Hsr; cbn; auto.
    match goal with |- context [solve_conflict g ?r ?t] => destruct (solve_conflict_kind g r t); auto end.
Qed.

Lemma scan_shiftmode g its : forall s, norootred g its ->
  sc_has_red s = false -> sc_has_shift s = true -> sc_sr s = false ->
  (exists i, In i its /\ is_complete g i = true) -> bad (scan_cell g its s).
Proof.
  induction its as [|i rest IH]; intros s Hn Hrd Hsh Hsr (j & Hj & Hjc); [destruct Hj|].
  rewrite scan_cell_cons. destruct (is_complete g i) eqn:Ec.
  - rewrite (Hn i (or_introl eq_refl) Ec), Hrd.
    apply scan_mixed; try (apply norootred_tl in Hn; assumption);
      unfold scan_step_red; rewrite Hsh, Hsr; cbn; auto.
    destruct (solve_conflict_kind g (it_r i) (it_t i)); auto.
  - apply IH; try (apply norootred_tl in Hn; assumption);
      try (unfold scan_step_shift; rewrite Hrd; cbn; auto; fail).
    destruct Hj as [<-|Hj]; [congruence|]. exists j; auto.
Qed.

Lemma scan_all_shift g its : forall s,
  (forall i, In i its -> is_complete g i = false) -> sc_has_red s = false -> its <> [] ->
  scan_cell g its s =
  mkScan KShift (sc_sr s) false true (sc_red s) (fold_left add_item (map adv its) (sc_kernel s)).
Proof.
  induction its as [|i rest IH]; intros s Hc Hrd Hne; [congruence|].
  rewrite scan_cell_cons, (Hc i (or_introl eq_refl)).
  destruct rest as [|i2 rest].
  - cbn. unfold scan_step_shift. rewrite Hrd. reflexivity.
  - rewrite IH; [|intros; apply Hc; cbn; auto|unfold scan_step_shift; rewrite Hrd; reflexivity|discriminate].
    unfold scan_step_shift. rewrite Hrd. reflexivity.
Qed.

Lemma scan_classify g B : B <> [] -> norootred g B ->
  let S := scan_cell g B scan0 in
  bad S \/
  ((forall i, In i B -> is_complete g i = false) /\
   S = mkScan KShift false false true None (fold_left add_item (map adv B) [])) \/
  (exists i, B = [i] /\ is_complete g i = true /\ S = mkScan KReduce false true false (Some (it_r i)) []).
Proof.
  intros Hne Hn. cbn zeta. destruct (existsb (is_complete g) B) eqn:Ex.
  - destruct B as [|i rest]; [congruence|]. destruct (is_complete g i) eqn:Ec.
    + rewrite scan_cell_cons, Ec, (Hn i (or_introl eq_refl) Ec). cbn [sc_has_red scan0].
      destruct rest as [|i2 rest].
      * right. right. exists i. auto.
      * left. apply scan_onered; [apply norootred_tl in Hn; assumption|reflexivity|reflexivity|reflexivity|discriminate].
    + left. rewrite scan_cell_cons, Ec. apply scan_shiftmode; try reflexivity.
      * apply norootred_tl in Hn; assumption.
      * cbn [existsb] in Ex. rewrite Ec in Ex. cbn in Ex. apply existsb_exists in Ex. exact Ex.
  - right. left. pose proof (existsb_false_all _ _ Ex) as Hall. split; [assumption|].
    rewrite scan_all_shift; auto.
Qed.

Lemma scan_root g i rest : is_complete g i = true -> is_rootred g i = true ->
  scan_cell g (i :: rest) scan0 = mkScan KSuccess false false false None [].
Proof. intros H1 H2. rewrite scan_cell_cons, H1, H2. reflexivity. Qed.

Lemma fold_adv_In B j : In j (fold_left add_item (map adv B) []) <-> exists i, In i B /\ j = adv i.
Proof.
  rewrite fold_add_In, in_map_iff. split.
  - intros [[]|(i & E & Hi)]. exists i; auto.
  - intros (i & Hi & E). right. exists i; auto.
Qed.

(* ---------- facts that hold for every scan, conflict or not ---------- *)

Lemma add_item_not_nil l x : add_item l x <> [].
Proof.
  unfold add_item. destruct (mem_item x l) eqn:E.
  - apply mem_item_In in E. intros ->. destruct E.
  - destruct l; discriminate.
Qed.

Lemma scan_kernel_prov g its : forall s j, In j (sc_kernel (scan_cell g its s)) ->
  In j (sc_kernel s) \/ exists i, In i its /\ is_complete g i = false /\ j = adv i.
Proof.
  induction its as [|i rest IH]; intros s j H; [left; exact H|].
  rewrite scan_cell_cons in H. destruct (is_complete g i) eqn:Ec.
  - destruct (is_rootred g i); [left; exact H|]. destruct (sc_has_red s); [left; exact H|].
    apply IH in H. destruct H as [H|(i' & Hi' & Hc & E)].
    + left. unfold scan_step_red in H. destruct (sc_has_shift s); [destruct (sc_sr s)|]; exact H.
    + right. exists i'. cbn; auto.
  - apply IH in H. destruct H as [H|(i' & Hi' & Hc & E)].
    + assert (In j (add_item (sc_kernel s) (adv i))) as H'.
      { unfold scan_step_shift in H. destruct (sc_has_red s); [destruct (sc_sr s)|]; exact H. }
      apply add_item_In in H'. destruct H' as [H'|H']; [left; assumption|].
      right. exists i. cbn; auto.
    + right. exists i'. cbn; auto.
Qed.

Lemma scan_kshift_kernel g its : forall s,
  (sc_kind s = KShift -> sc_has_shift s = true) -> (sc_has_shift s = true -> sc_kernel s <> []) ->
  sc_kind (scan_cell g its s) = KShift -> sc_kernel (scan_cell g its s) <> [].
Proof.
  induction its as [|i rest IH]; intros s H1 H2; [cbn; auto|].
  rewrite scan_cell_cons. destruct (is_complete g i) eqn:Ec.
  - destruct (is_rootred g i); [cbn; discriminate|]. destruct (sc_has_red s); [cbn; discriminate|].
    apply IH; unfold scan_step_red; destruct (sc_has_shift s) eqn:Es; try destruct (sc_sr s); cbn; auto; try discriminate.
  - apply IH; unfold scan_step_shift; destruct (sc_has_red s); try destruct (sc_sr s); cbn; auto;
      intros; apply add_item_not_nil.
Qed.

Lemma scan0_kshift_kernel g its :
  sc_kind (scan_cell g its scan0) = KShift -> sc_kernel (scan_cell g its scan0) <> [].
Proof. apply scan_kshift_kernel; cbn; discriminate. Qed.
